import Pycel.Model.Value
import Pycel.Model.Proto

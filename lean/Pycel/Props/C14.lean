/-
  C14 — Aggregates over ranges follow Excel counting rules.

  Statement (properties.jsonl): "SUM, AVERAGE, MIN, MAX and COUNT over ranges use exactly the numeric cells (ignoring
  text, logicals and blanks), return the first error value present, and are invariant under permuting or reshaping
  the cells; SUM is additive over a partition of the range, AVERAGE = SUM/COUNT (or #DIV/0! when nothing is numeric),
  MIN/MAX of nothing numeric is 0; SUBTOTAL(n, ...) equals the AVERAGE/COUNT/MAX/MIN/SUM it names and SUMPRODUCT of
  equally shaped ranges is the sum of pointwise products with non-numbers counted as 0."

  Model: Pycel/Model/Aggregates.lean (excellib.py `_numerics`, `sum_`, `sumproduct`; lib/stats.py `average`, `count`,
  `max_`, `min_`; excelformula.py `func_subtotal`).  The SUBTOTAL table is Generated/Subtotal.lean, regenerated from
  the live `FunctionNode.SUBTOTAL_FUNCS` and the live function modules on every run.

  All theorems are for ALL cell lists / arrays (lists of lists of `Val`), without a size bound.  `agg f` ranges over
  the five aggregates (`Fn`), `aggA f a = agg f a.flatten` is the aggregate of a rectangle.
  Interpretation recorded (DESIGN §7 C14): COUNT ignores error cells (Excel's and pycel's behaviour); the
  "first error" clause applies to SUM / AVERAGE / MIN / MAX.  "First" is the row-major order of the range.
-/
import Pycel.Lemmas.Aggregates
namespace Pycel.Agg
open Pycel

/-! ## "use exactly the numeric cells (ignoring text, logicals and blanks)" -/

/-- the numbers an aggregate works on are exactly the numeric cells, in order -/
theorem C14_nums_spec (cs : List Val) : (nums cs).map Val.num = cs.filter Val.isNum := nums_map_num cs

/-- **numeric only**: without an error present, every aggregate of a range equals the aggregate of its numeric
    cells alone -/
theorem C14_numeric_only (f : Fn) (cs : List Val) (h : NoErr cs) :
    agg f cs = agg f (cs.filter Val.isNum) := by
  rw [← nums_map_num]
  apply agg_congr
  · rw [firstErr_eq_none.mpr h, firstErr_eq_none.mpr (noErr_map_num _)]
  · rw [nums_of_map_num]

/-- **ignoring = removing**: deleting every text, logical and blank cell changes no aggregate (errors present or not) -/
theorem C14_ignore_remove (f : Fn) (cs : List Val) :
    agg f (cs.filter fun v => !ignorable v) = agg f cs := by
  apply agg_congr
  · apply firstErr_filter
    intro v hv; cases v <;> simp_all [ignorable]
  · apply nums_filter
    intro v hv; cases v <;> simp_all [ignorable, Val.isNum]

private theorem replace_aux (xs ys : List Val) (hl : xs.length = ys.length)
    (h : ∀ p ∈ xs.zip ys, p.1 = p.2 ∨ (ignorable p.1 = true ∧ ignorable p.2 = true)) :
    firstErr xs = firstErr ys ∧ nums xs = nums ys := by
  induction xs generalizing ys with
  | nil => cases ys with
    | nil => exact ⟨rfl, rfl⟩
    | cons y ys => simp at hl
  | cons x xs ih =>
    cases ys with
    | nil => simp at hl
    | cons y ys =>
      have hxy := h (x, y) (by simp)
      obtain ⟨h1, h2⟩ := ih ys (by simpa using hl) (fun p hp => h p (by simp [hp]))
      rw [firstErr_cons, firstErr_cons, nums_cons, nums_cons]
      rcases hxy with hxy | ⟨hx, hy⟩
      · simp only [] at hxy; subst hxy; simp [h1, h2]
      · obtain ⟨hx1, hx2⟩ := ignorable_spec hx
        obtain ⟨hy1, hy2⟩ := ignorable_spec hy
        simp only [] at hx1 hx2 hy1 hy2
        simp [hx1, hx2, hy1, hy2, h1, h2]

/-- **ignoring = replacing**: replacing ignorable cells by arbitrary other ignorable cells (numeric text by a
    logical, a blank by text, …) changes no aggregate -/
theorem C14_ignore_replace (f : Fn) (xs ys : List Val) (hl : xs.length = ys.length)
    (h : ∀ p ∈ xs.zip ys, p.1 = p.2 ∨ (ignorable p.1 = true ∧ ignorable p.2 = true)) :
    agg f xs = agg f ys :=
  agg_congr f (replace_aux xs ys hl h).1 (replace_aux xs ys hl h).2

/-- numeric text is text: it is not counted and not added -/
example : agg .sum [.num 1, .str "12".toList, .bool true, .blank] = .num 1 := by decide +kernel
example : agg .count [.num 1, .str "12".toList, .bool true, .blank] = .num 1 := by decide +kernel

/-! ## "return the first error value present" -/

/-- **first error**: SUM, AVERAGE, MIN and MAX return the first error cell (row-major), whatever else the range holds -/
theorem C14_first_error (f : Fn) (hf : f ≠ .count) (pre post : List Val) (v : Val) (hv : isErrCell v = true)
    (h : NoErr pre) :
    agg f (pre ++ v :: post) = v := by
  rw [agg_eq_core, firstErr_pre pre post v hv h]
  cases f <;> simp_all

/-- the seven error values are error cells, and they are live `ERROR_CODES` (so is the text `#GETTING_DATA`); text
    that merely looks like an error (`#TODO`, `#REF` without the bang, `#N/A ` with a space, `#n/a`, `#EMPTY!`), like
    a number or like a logical is ignorable text -/
theorem C14_error_cells :
    (∀ e : Err, isErrCell (.err e) = true ∧ e.text ∈ Gen.aggErrorCodes) ∧
    isErrCell (.str "#GETTING_DATA".toList) = true ∧
    (∀ s ∈ ["#TODO", "#12", "#REF", "#N/A ", "#n/a", "#VALUE", "#DIV/0", "# NULL!", "#EMPTY!", "#SPILL!", "#CALC!",
            "1_0", " 3 ", "1e3", "inf", "12", "TRUE", "true", ""],
      ignorable (.str (String.toList s)) = true) := by
  refine ⟨fun e => ⟨rfl, by cases e <;> decide⟩, by decide, by decide⟩

/-- COUNT (Excel and pycel) does not return errors: error cells are just not numeric -/
theorem C14_count_ignores_errors (cs : List Val) :
    count cs = count (cs.filter fun v => !isErrCell v) ∧ ∃ k : Nat, count cs = .num (natRat k) := by
  refine ⟨?_, _, rfl⟩
  simp only [count]
  rw [nums_filter]
  intro v hv; cases v <;> simp_all [Val.isNum, isErrCell]

/-! ## "invariant under permuting or reshaping the cells" -/

/-- **permutation**: two rectangles (of any shapes) holding the same cells in any order have the same aggregates,
    provided at most one distinct error value occurs (with two different errors "the first" depends on the order:
    see the counterexample below) -/
theorem C14_perm (f : Fn) (a b : Arr) (hp : a.flatten.Perm b.flatten) (h1 : OneErr a.flatten) :
    aggA f a = aggA f b := agg_perm f hp h1

/-- the restriction of `C14_perm` is necessary: the unrestricted statement is false -/
theorem C14_perm_two_errors_counterexample :
    ¬ (∀ (f : Fn) (l₁ l₂ : List Val), l₁.Perm l₂ → agg f l₁ = agg f l₂) := by
  intro h
  have := h .sum [.err .div0, .err .na] [.err .na, .err .div0] (List.Perm.swap _ _ _)
  exact absurd this (by decide)

/-- COUNT is permutation invariant without restriction -/
theorem C14_perm_count (l₁ l₂ : List Val) (hp : l₁.Perm l₂) : agg .count l₁ = agg .count l₂ := count_perm hp

/-- **reshape**: the aggregates depend on the row-major cell sequence only; in particular the same `r₁*c₁ = r₂*c₂`
    cells laid out as `r₁ × c₁` or as `r₂ × c₂` give the same result (`chunk c r` cuts a list into `r` rows of `c`) -/
theorem C14_reshape (f : Fn) :
    (∀ a b : Arr, a.flatten = b.flatten → aggA f a = aggA f b) ∧
    (∀ (cells : List Val) (r₁ c₁ r₂ c₂ : Nat), cells.length = r₁ * c₁ → cells.length = r₂ * c₂ →
      aggA f (chunk c₁ r₁ cells) = aggA f (chunk c₂ r₂ cells) ∧ aggA f (chunk c₁ r₁ cells) = agg f cells) := by
  refine ⟨fun a b h => by simp [aggA, h], fun cells r₁ c₁ r₂ c₂ h1 h2 => ?_⟩
  simp [aggA, chunk_flatten, ← h1, ← h2]

/-! ## "SUM is additive over a partition of the range" -/

/-- addition of two aggregate results: numbers add, the left-most error wins -/
def addV : Val → Val → Val
  | .num a, .num b => .num (a + b)
  | .num _, e => e
  | e, _ => e

theorem addV_err (v w : Val) (h : isErrCell v = true) : addV v w = v := by
  cases v <;> simp_all [addV, isErrCell]

theorem addV_num_err (a : Rat) (w : Val) (h : isErrCell w = true) : addV (.num a) w = w := by
  cases w <;> simp_all [addV, isErrCell]

theorem sum_isNumOrErr (cs : List Val) : (∃ q, sum_ cs = .num q) ∨ isErrCell (sum_ cs) = true := by
  simp only [sum_, numerics]
  cases h : firstErr cs with
  | none => simp
  | some v => simp [(firstErr_mem h).2]

/-- **additive (consecutive parts)**: the SUM of a range cut in two (first part, rest) is the sum of the two SUMs -/
theorem C14_sum_append (xs ys : List Val) : sum_ (xs ++ ys) = addV (sum_ xs) (sum_ ys) := by
  simp only [sum_, numerics, firstErr_append, nums_append]
  cases hx : firstErr xs <;> cases hy : firstErr ys <;> simp only [Option.or_none, Option.or_some]
  · simp [addV, rsum_append]
  · exact (addV_num_err _ _ (firstErr_mem hy).2).symm
  · exact (addV_err _ _ (firstErr_mem hx).2).symm
  · exact (addV_err _ _ (firstErr_mem hx).2).symm

/-- the same for a rectangle cut between two rows -/
theorem C14_sum_rows (a b : Arr) : aggA .sum (a ++ b) = addV (aggA .sum a) (aggA .sum b) := by
  simp [aggA, agg, C14_sum_append]

/-- **additive (any number of consecutive parts)** -/
theorem C14_sum_partition (parts : List (List Val)) :
    sum_ parts.flatten = (parts.map sum_).foldr addV (.num 0) := by
  induction parts with
  | nil => decide +kernel
  | cons p ps ih => simp [C14_sum_append, ih]

/-- **additive (arbitrary partition)**: split the cells of a range by ANY predicate (not only consecutive pieces);
    the SUM is the sum of the SUMs of the two parts (at most one distinct error value, as for permutations) -/
theorem C14_sum_filter_partition (p : Val → Bool) (cs : List Val) (h1 : OneErr cs) :
    sum_ cs = addV (sum_ (cs.filter p)) (sum_ (cs.filter fun v => !p v)) := by
  rw [← C14_sum_append]
  have hp := (List.filter_append_perm p cs).symm
  exact agg_perm .sum hp h1

/-- COUNT is additive too (no restriction) -/
theorem C14_count_append (xs ys : List Val) : count (xs ++ ys) = addV (count xs) (count ys) := by
  simp [count, nums_append, natRat_add, addV]

/-! ## "AVERAGE = SUM/COUNT (or #DIV/0! when nothing is numeric)" -/

/-- quotient of two aggregate results -/
def divV : Val → Val → Val
  | .num s, .num n => if n = 0 then .err .div0 else .num (s / n)
  | e, _ => e

/-- **average** -/
theorem C14_average (cs : List Val) : average cs = divV (sum_ cs) (count cs) := by
  simp only [average, sum_, count, numerics]
  cases h : firstErr cs with
  | none => simp [divV, natRat_eq_zero]
  | some v =>
    have := (isErrCell_not_num (firstErr_mem h).2).2
    cases v <;> simp_all [divV]

/-- spelled out: no error and nothing numeric gives #DIV/0! -/
theorem C14_average_empty (cs : List Val) (h : NoErr cs) (hn : ∀ q, Val.num q ∉ cs) : average cs = .err .div0 := by
  have : nums cs = [] := by
    cases hc : nums cs with
    | nil => rfl
    | cons q qs => exact absurd (mem_nums.mp (by rw [hc]; simp)) (hn q)
  simp [average, numerics, firstErr_eq_none.mpr h, this]

/-! ## "MIN/MAX of nothing numeric is 0" -/

theorem C14_minmax_empty (cs : List Val) (h : NoErr cs) (hn : ∀ q, Val.num q ∉ cs) :
    min_ cs = .num 0 ∧ max_ cs = .num 0 := by
  have : nums cs = [] := by
    cases hc : nums cs with
    | nil => rfl
    | cons q qs => exact absurd (mem_nums.mp (by rw [hc]; simp)) (hn q)
  simp [min_, max_, numerics, firstErr_eq_none.mpr h, this]

/-- otherwise MIN is a numeric cell of the range that is ≤ every numeric cell -/
theorem C14_min_spec (cs : List Val) (h : NoErr cs) (hn : ∃ q, Val.num q ∈ cs) :
    ∃ m, min_ cs = .num m ∧ Val.num m ∈ cs ∧ ∀ q, Val.num q ∈ cs → m ≤ q := by
  obtain ⟨q0, hq0⟩ := hn
  have hne : nums cs ≠ [] := List.ne_nil_of_mem (mem_nums.mpr hq0)
  refine ⟨minOf (nums cs), ?_, mem_nums.mp (minOf_mem hne), fun q hq => minOf_le q (mem_nums.mpr hq)⟩
  have := agg_eq_core .min cs
  simpa [agg, firstErr_eq_none.mpr h, core] using this

/-- and MAX a numeric cell that is ≥ every numeric cell -/
theorem C14_max_spec (cs : List Val) (h : NoErr cs) (hn : ∃ q, Val.num q ∈ cs) :
    ∃ m, max_ cs = .num m ∧ Val.num m ∈ cs ∧ ∀ q, Val.num q ∈ cs → q ≤ m := by
  obtain ⟨q0, hq0⟩ := hn
  have hne : nums cs ≠ [] := List.ne_nil_of_mem (mem_nums.mpr hq0)
  refine ⟨maxOf (nums cs), ?_, mem_nums.mp (maxOf_mem hne), fun q hq => le_maxOf q (mem_nums.mpr hq)⟩
  have := agg_eq_core .max cs
  simpa [agg, firstErr_eq_none.mpr h, core] using this

/-! ## "SUBTOTAL(n, ...) equals the AVERAGE/COUNT/MAX/MIN/SUM it names" -/

/-- Excel's documented function numbers of the five aggregates (SUBTOTAL reference page) -/
def Fn.code : Fn → Int
  | .average => 1 | .count => 2 | .max => 4 | .min => 5 | .sum => 9

/-- **subtotal**: for the live dispatch table, SUBTOTAL(n, …) and SUBTOTAL(100+n, …) are the aggregate Excel
    numbers n, on every argument list -/
theorem C14_subtotal (f : Fn) (cs : List Val) :
    subtotal f.code cs = .value (agg f cs) ∧ subtotal (f.code + 100) cs = .value (agg f cs) := by
  cases f <;> exact ⟨rfl, rfl⟩

/-- the live table has its keys below 100, and 100+n dispatches like n for every key (hidden-row variants) -/
theorem C14_subtotal_table :
    (∀ n ∈ Gen.subtotalKeys, n < 100 ∧ (Gen.subtotalFuncs n).isSome = true ∧
      subtotalName ((n : Int) + 100) = subtotalName n) ∧
    subtotalName 0 = none ∧ subtotalName 100 = none ∧ subtotalName (-9) = none := by
  decide

/-- every entry of the live table that the function library resolves is one of the modelled aggregates
    (so `SubRes.unmodelled` never occurs; a new library function reachable through SUBTOTAL breaks this proof) -/
theorem C14_subtotal_modelled :
    ∀ n ∈ Gen.subtotalKeys, ∀ name, Gen.subtotalFuncs n = some name →
      (Gen.subtotalResolved name).isSome = true → (byName name).isSome = true := by
  decide

/-! ## "SUMPRODUCT of equally shaped ranges is the sum of pointwise products with non-numbers counted as 0" -/

theorem allSameShape_of_rect {r c : Nat} (hr : 0 < r) (as : List Arr) (hne : as ≠ [])
    (h : ∀ a ∈ as, Rect r c a) : allSameShape as = true := by
  cases as with
  | nil => exact absurd rfl hne
  | cons a as =>
    simp only [allSameShape, List.all_eq_true, decide_eq_true_eq]
    intro b hb
    rw [rect_shape (h a (by simp)) hr, rect_shape (h b (List.mem_cons_of_mem _ hb)) hr]

private theorem any_isScalar_arrs (as : List Arr) : (as.map Arg.arr).any isScalar = false := by
  induction as with
  | nil => rfl
  | cons a as ih => simp [isScalar, ih]

private theorem filterMap_arrs (as : List Arr) : (as.map Arg.arr).filterMap arrOf? = as := by
  induction as with
  | nil => rfl
  | cons a as ih => simp [arrOf?, ih]

theorem sumproduct_arrs (as : List Arr) (he : NoErr (cellsOf (as.map Arg.arr))) :
    sumproduct (as.map Arg.arr) =
      if allSameShape as then .num (rsum (colProd (as.map fun a => a.flatten.map n0))) else .err .value := by
  simp only [sumproduct, firstErr_eq_none.mpr he, any_isScalar_arrs, filterMap_arrs]
  simp

/-- **sumproduct** (any number of ranges): for `r × c` rectangles without error cells, SUMPRODUCT is
    Σ_{i < r·c} Π_{ranges} (cell i of the range, a non-number counted as 0) -/
theorem C14_sumproduct (r c : Nat) (hr : 0 < r) (as : List Arr) (hne : as ≠ [])
    (hrect : ∀ a ∈ as, Rect r c a) (he : NoErr (cellsOf (as.map Arg.arr))) :
    sumproduct (as.map Arg.arr) =
      .num (rsum ((List.range (r * c)).map fun i => rprod (as.map fun a => n0 (a.flatten.getD i .blank)))) := by
  rw [sumproduct_arrs as he, allSameShape_of_rect hr as hne hrect]
  simp only [↓reduceIte]
  congr 2
  rw [colProd_eq (r * c)]
  · apply List.map_congr_left
    intro i hi
    congr 1
    rw [List.map_map]
    apply List.map_congr_left
    intro a ha
    have hl := rect_flatten_length (hrect a ha)
    have hi' : i < a.flatten.length := by rw [hl]; exact List.mem_range.mp hi
    simp only [Function.comp, List.getD_eq_getElem?_getD, List.getElem?_map, List.getElem?_eq_getElem hi',
      Option.map_some, Option.getD_some]
  · simpa using hne
  · intro row hrow
    simp only [List.mem_map] at hrow
    obtain ⟨a, ha, rfl⟩ := hrow
    rw [List.length_map]; exact rect_flatten_length (hrect a ha)

/-- **sumproduct** (two ranges, two-dimensional form): Σ_rows Σ_columns A[i][j]·B[i][j], non-numbers as 0 -/
theorem C14_sumproduct_two (A B : Arr) (hs : shape A = shape B)
    (hrows : ∀ p ∈ A.zip B, p.1.length = p.2.length) (he : NoErr (A.flatten ++ B.flatten)) :
    sumproduct [.arr A, .arr B] =
      .num (rsum (List.zipWith (fun ra rb => rsum (List.zipWith (fun a b => n0 a * n0 b) ra rb)) A B)) := by
  have he' : NoErr (cellsOf ([A, B].map Arg.arr)) := by simpa [cellsOf, argCells] using he
  have := sumproduct_arrs [A, B] he'
  simp only [List.map_cons, List.map_nil] at this
  rw [this]
  simp only [allSameShape, List.all_cons, List.all_nil, hs, decide_true, Bool.and_self, ↓reduceIte, colProd]
  congr 1
  have hz : List.zipWith (fun x1 x2 => x1 * x2) (A.flatten.map n0) (B.flatten.map n0)
      = List.zipWith (fun a b => n0 a * n0 b) A.flatten B.flatten := by
    rw [List.zipWith_map]
  rw [hz, zipWith_flatten _ A B hrows, rsum_flatten]
  congr 1
  rw [List.map_zipWith]

/-- replacing every text / logical / blank cell by the number 0 -/
def fill0 (v : Val) : Val := if ignorable v then .num 0 else v

/-- **non-numbers counted as 0**: SUMPRODUCT of ranges is unchanged when every non-number (text, logical, blank)
    is overwritten with 0 -/
theorem C14_sumproduct_zero_fill (as : List Arr) :
    sumproduct (as.map Arg.arr) = sumproduct ((as.map fun a => a.map fun row => row.map fill0).map Arg.arr) := by
  have hn0 : ∀ v, n0 (fill0 v) = n0 v := by
    intro v; unfold fill0; split
    · rename_i h; cases v <;> simp_all [ignorable, n0]
    · rfl
  have hfill : ∀ v, isErrCell (fill0 v) = isErrCell v ∧ (isErrCell v = true → fill0 v = v) := by
    intro v; unfold fill0; split
    · rename_i h
      have := (ignorable_spec h).1
      refine ⟨by rw [this]; rfl, fun hv => ?_⟩
      rw [this] at hv; exact absurd hv (by simp)
    · exact ⟨rfl, fun _ => rfl⟩
  have hflat : ∀ a : Arr, (a.map fun row => row.map fill0).flatten = a.flatten.map fill0 := by
    intro a; induction a with
    | nil => rfl
    | cons row a ih => simp only [List.map_cons, List.flatten_cons, List.map_append, ih]
  have hfe : ∀ cs : List Val, firstErr (cs.map fill0) = firstErr cs := by
    intro cs; induction cs with
    | nil => rfl
    | cons v cs ih =>
      rw [List.map_cons, firstErr_cons, firstErr_cons, (hfill v).1]
      by_cases hv : isErrCell v = true
      · simp [hv, (hfill v).2 hv]
      · simp [hv, ih]
  have hshape : ∀ a : Arr, shape (a.map fun row => row.map fill0) = shape a := by
    intro a; cases a with
    | nil => rfl
    | cons row a =>
      unfold shape
      simp only [List.map_cons, List.length_cons, List.length_map, List.headD_cons]
  have hcells : cellsOf ((as.map fun a => a.map fun row => row.map fill0).map Arg.arr)
      = (cellsOf (as.map Arg.arr)).map fill0 := by
    rw [cellsOf_arrs, cellsOf_arrs]
    induction as with
    | nil => rfl
    | cons a as ih => simp only [List.map_cons, List.flatten_cons, List.map_append, hflat, ih]
  have hall : allSameShape (as.map fun a => a.map fun row => row.map fill0) = allSameShape as := by
    cases as with
    | nil => rfl
    | cons a as => simp only [List.map_cons, allSameShape, List.all_map, Function.comp_def, hshape]
  simp only [sumproduct, hcells, hfe, any_isScalar_arrs, filterMap_arrs, hall]
  cases firstErr (cellsOf (as.map Arg.arr)) with
  | some e => rfl
  | none =>
    simp only [Bool.false_eq_true, ↓reduceIte, List.map_map]
    congr 4
    apply List.map_congr_left
    intro a _
    simp only [Function.comp, hflat, List.map_map]
    apply List.map_congr_left
    intro v _
    simp [hn0]

/-- outside the statement, as the code does it: an error cell anywhere (arguments left to right, row-major) is
    returned, before shapes are looked at -/
theorem C14_sumproduct_error (args : List Arg) (v : Val) (h : firstErr (cellsOf args) = some v) :
    sumproduct args = v := by
  simp [sumproduct, h]

/-- outside the statement, as the code does it: ranges of different shapes (and no error cell) give #VALUE! -/
theorem C14_sumproduct_shape_mismatch (as : List Arr) (he : NoErr (cellsOf (as.map Arg.arr)))
    (a b : Arr) (ha : a ∈ as) (hb : b ∈ as) (hab : shape a ≠ shape b) :
    sumproduct (as.map Arg.arr) = .err .value := by
  rw [sumproduct_arrs as he]
  have : allSameShape as = false := by
    cases as with
    | nil => simp at ha
    | cons x xs =>
      apply Bool.eq_false_iff.mpr
      intro hall
      simp only [allSameShape, List.all_eq_true, decide_eq_true_eq] at hall
      have hx : ∀ y ∈ x :: xs, shape y = shape x := by
        intro y hy
        rcases List.mem_cons.mp hy with rfl | hy
        · rfl
        · exact hall y hy
      exact hab ((hx a ha).trans (hx b hb).symm)
  simp [this]

/-! ## non-vacuity: the hypotheses are satisfiable by concrete, non-trivial instances -/

/-- a mixed 2×3 range: numbers, numeric text, a logical, a blank -/
def exA : Arr := [[.num 1, .str "2".toList, .bool true], [.blank, .str "abc".toList, .num (5/2)]]
/-- the same cells, permuted and reshaped to 3×2 -/
def exB : Arr := [[.num (5/2), .blank], [.bool true, .num 1], [.str "abc".toList, .str "2".toList]]

theorem oneErr_of_noErr {cs : List Val} (h : NoErr cs) : OneErr cs := by
  intro v₁ _ h1 _ e1 _
  rw [h v₁ h1] at e1; exact absurd e1 (by simp)

example : NoErr exA.flatten := by unfold NoErr; decide
example : OneErr exA.flatten := oneErr_of_noErr (by unfold NoErr; decide)
example : exA.flatten.Perm exB.flatten := by decide +kernel
example : aggA .sum exA = .num (7/2) ∧ aggA .count exA = .num 2 ∧ aggA .average exA = .num (7/4) ∧
    aggA .min exA = .num 1 ∧ aggA .max exA = .num (5/2) := by decide +kernel
example : aggA .sum exB = .num (7/2) := by decide +kernel
/-- one error value, occurring twice: `OneErr` holds and the permutation theorem applies -/
example : OneErr [Val.num 1, .err .na, .str [], .err .na] := by
  intro v₁ v₂ h1 h2 e1 e2
  simp only [List.mem_cons, List.not_mem_nil, or_false] at h1 h2
  rcases h1 with rfl | rfl | rfl | rfl <;> rcases h2 with rfl | rfl | rfl | rfl <;>
    first | rfl | exact absurd e1 (by decide) | exact absurd e2 (by decide)
/-- a hostile range: error look-alikes and numeric/logical look-alikes are text, the genuine error after them wins -/
example : agg .sum [.str "#TODO".toList, .num 2, .str "#N/A ".toList, .str "1e3".toList, .str "TRUE".toList,
    .err .ref, .err .na] = .err .ref := by decide +kernel
example : agg .sum [.str "#TODO".toList, .num 2, .str "#n/a".toList, .str "#EMPTY!".toList] = .num 2 ∧
    agg .count [.str "#TODO".toList, .num 2, .str "#n/a".toList, .str "#EMPTY!".toList] = .num 1 := by decide +kernel
example : agg .max [.num 2, .str "#GETTING_DATA".toList, .err .na] = .str "#GETTING_DATA".toList := by decide +kernel
example : agg .max [Val.num 1, .err .na, .str [], .err .na] = .err .na := by decide +kernel
example : Rect 2 3 exA := ⟨rfl, by simp [exA]⟩
example : sumproduct [.arr exA, .arr exA] = .num (29/4) := by decide +kernel
example : sumproduct [.arr exA, .arr exB] = .err .value := by decide +kernel
example : subtotal 109 exA.flatten = .value (.num (7/2)) := by decide +kernel

end Pycel.Agg

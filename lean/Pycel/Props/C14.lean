/- C14: property theorems (not built yet). -/

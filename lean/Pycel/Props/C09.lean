/- C09: property theorems (not built yet). -/

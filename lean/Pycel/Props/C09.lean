/-
  C09 — A failed evaluation does not corrupt the model.

  Model: Pycel/Model/Failure.lean (failure-aware engine on top of the C01 engine; iterative-mode pass `evalI`).
  Lemmas: Pycel/Lemmas/Failure.lean.  Every theorem of the plain-mode part holds for EVERY workbook (any DAG in
  topological presentation, ranges included), EVERY value type, EVERY formula semantics with failures `S : Sem α`
  (deterministic exceptions of `S.f` = unknown function / library error on these arguments, transient faults
  `S.fault i c` = a plugin raising on its c-th call, any number of captured messages, CSE flags), EVERY position of
  the failing cell and EVERY history — by induction, never by sampling.  `D` is the error-message discipline of
  `eval_func`; the theorems need it `Balanced` (the repaired code is, the pinned code is not: counterexamples below).
-/
import Pycel.Lemmas.Failure
import Pycel.Lemmas.EngineInst
namespace Pycel.Failure
open Pycel.Engine

variable {α : Type} {wb : Workbook} {S : Sem α} {D : Discipline}

/-! ## the engine invariant survives a failed evaluation, the transient state is restored -/

/- "A failed evaluation does not corrupt the model": after `evaluate(a)` — whether it returned or raised — the
   engine invariant holds (cached ⇒ equals `denote`, cached ⇒ precedents cached, only values are stored), all
   transient state (error-message list, array-context stack, graph_todos, range_todos) is back at its initial value,
   no input changed and no cached value was lost or altered. -/
theorem C09_inv (hwf : WF wb) (hs : SLocal wb S) (hD : Balanced D) {s : FState α} (hg : Good wb S s) (hc : Clean s)
    (a : Nat) :
    Inv wb (lift wb S) (evaluateX wb S D a s).2.core ∧ Good wb S (evaluateX wb S D a s).2 ∧
    Clean (evaluateX wb S D a s).2 ∧ (evaluateX wb S D a s).2.core.inp = s.core.inp ∧
    ∀ m, s.core.cache m ≠ none → (evaluateX wb S D a s).2.core.cache m = s.core.cache m := by
  have e := evaluateX_spec (D := D) hwf hs hD (fun _ => False) (fun _ h => h.elim) (fun _ h => h.elim) hg hc a
  exact ⟨e.good.inv, e.good, e.clean, e.inp, e.keeps⟩

/- the same along every history of evaluate / set_value / overwrite-a-formula-cell operations, from any consistent
   model (`GoodM`: well-formed workbook, local formulas, `Good`, `Clean`) -/
theorem C09_inv_history (hD : Balanced D) (eqv : R α → R α → Bool) (hsound : ∀ a b, eqv a b = true → a = b)
    {m₀ : Model α} (h₀ : GoodM S m₀) (h : List (XOp α)) : GoodM S (runM S D eqv m₀ h) :=
  runM_good hD eqv hsound h h₀

/- a fresh model is consistent -/
theorem C09_init (hwf : WF wb) (hs : SLocal wb S) (inp : Nat → α) : GoodM S ⟨wb, initX inp⟩ :=
  ⟨hwf, hs, (initX_good wb S inp).1, (initX_good wb S inp).2⟩

/-! ## never a stale value, never a bare internal exception -/

/- "(never a stale value, never a bare internal exception)": whatever happened before, an `evaluate` that returns a
   value returns the from-scratch value at the current inputs, and one that raises raises UnknownFunction /
   FormulaEvalError (or the RecursionError `eval_func` re-raises, if something raised Python's RecursionError) —
   never the AssertionError of the message-list check.  Transient faults (a plugin raising on its k-th call) included. -/
theorem C09_never_stale (hwf : WF wb) (hs : SLocal wb S) (hD : Balanced D) {s : FState α} (hg : Good wb S s)
    (hc : Clean s) (a : Nat) (ha : a < wb.n) :
    (∀ v, (evaluateX wb S D a s).1 = .ok v → denote wb (lift wb S) s.core.inp a = .ok v) ∧
    (∀ e, (evaluateX wb S D a s).1 = .error e → e ≠ .assertion ∧ (NoRec S → e.pycel = true)) := by
  have e := evaluateX_spec (D := D) hwf hs hD (fun _ => False) (fun _ h => h.elim) (fun _ h => h.elim) hg hc a
  refine ⟨e.sound ha, fun x hx => ?_⟩
  have := e.cls ha x hx
  refine ⟨this.1, fun hn => ?_⟩
  have h2 := this.2 hn
  cases x <;> simp_all [Fail.pycel]

/-! ## retry -/

/- "retrying it or a dependant fails again with one of pycel's own errors": a cell whose from-scratch evaluation
   fails at the current inputs (the failing cell itself or anything that depends on it, see `C09_dependant_fails`)
   fails on EVERY evaluate in every consistent state — after the first failure, after evaluating other cells, after
   unrelated writes — with a pycel error class. -/
theorem C09_retry (hwf : WF wb) (hs : SLocal wb S) (hD : Balanced D) {s : FState α} (hg : Good wb S s)
    (hc : Clean s) (a : Nat) (ha : a < wb.n) {e₀ : Fail} (hfail : denote wb (lift wb S) s.core.inp a = .error e₀) :
    ∃ e, (evaluateX wb S D a s).1 = .error e ∧ e ≠ .assertion ∧ (NoRec S → e.pycel = true) := by
  have ns := C09_never_stale (D := D) hwf hs hD hg hc a ha
  cases hr : (evaluateX wb S D a s).1 with
  | ok v => have := ns.1 v hr; rw [hfail] at this; cases this
  | error e => exact ⟨e, rfl, ns.2 e hr⟩

/-- `a` depends on `b` (reflexive, transitive closure of the declared precedents) -/
inductive DependsOn (wb : Workbook) : Nat → Nat → Prop where
  | refl (a : Nat) : DependsOn wb a a
  | step {a j b : Nat} : j ∈ wb.deps a → DependsOn wb j b → DependsOn wb a b

/- "wherever in the dependency chain the failure occurs": the failure of a cell is the failure of every dependant -/
theorem C09_dependant_fails (hwf : WF wb) (hs : SLocal wb S) (inp : Nat → R α) {a b : Nat} (hdep : DependsOn wb a b)
    {e₀ : Fail} (hb : denote wb (lift wb S) inp b = .error e₀) : ∃ e, denote wb (lift wb S) inp a = .error e := by
  induction hdep with
  | refl a => exact ⟨e₀, hb⟩
  | @step a j b hj _ ih =>
    obtain ⟨e, he⟩ := ih hb
    cases ha : denote wb (lift wb S) inp a with
    | error e' => exact ⟨e', rfl⟩
    | ok w =>
      obtain ⟨w', hw'⟩ := denote_ok_deps hwf hs inp ha j hj
      rw [he] at hw'; cases hw'

/- retry right after the failure, without transient faults in play: an evaluate that raised raises again (the failing
   cell or a dependant), a pycel error again -/
theorem C09_retry_after_failure (hwf : WF wb) (hs : SLocal wb S) (hD : Balanced D)
    (hq : ∀ m c, S.fault m c = none) {s : FState α} (hg : Good wb S s) (hc : Clean s) (a : Nat) (ha : a < wb.n)
    {e₁ : Fail} (h1 : (evaluateX wb S D a s).1 = .error e₁) :
    ∃ e, (evaluateX wb S D a (evaluateX wb S D a s).2).1 = .error e ∧ e ≠ .assertion ∧
      (NoRec S → e.pycel = true) := by
  have e := evaluateX_spec (D := D) hwf hs hD (fun _ => True) (fun _ _ _ _ => trivial) (fun m _ c => hq m c) hg hc a
  cases hd : denote wb (lift wb S) s.core.inp a with
  | ok v => have := e.exact ha trivial v hd; rw [h1] at this; cases this
  | error e₀ =>
    exact C09_retry hwf hs hD e.good e.clean a ha (by rw [e.inp]; exact hd)

/-! ## unrelated cells -/

/- "every cell that does not depend on the failing one still evaluates to its correct value": `P` = any set of cells
   closed under precedents (e.g. the cone of `a`) on which no transient fault fires; if `a ∈ P` has a from-scratch
   value, evaluate returns exactly it — in every consistent state, in particular after any number of failed
   evaluations of other cells. -/
theorem C09_unrelated (hwf : WF wb) (hs : SLocal wb S) (hD : Balanced D) (P : Nat → Prop)
    (hP : ∀ m, P m → ∀ j, j ∈ wb.deps m → P j) (hq : QuietOn S P) {s : FState α} (hg : Good wb S s) (hc : Clean s)
    (a : Nat) (ha : a < wb.n) (hPa : P a) {v : α} (hv : denote wb (lift wb S) s.core.inp a = .ok v) :
    (evaluateX wb S D a s).1 = .ok v :=
  (evaluateX_spec (D := D) hwf hs hD P hP hq hg hc a).exact ha hPa v hv

/-- no formula of `P` can raise: neither deterministically nor transiently -/
def FailFree (S : Sem α) (P : Nat → Prop) : Prop :=
  ∀ m, P m → (∀ env, ∃ v, S.f m env = .ok v) ∧ ∀ c, S.fault m c = none

/- a cell whose cone contains no cell that can fail has a from-scratch value … -/
theorem C09_cone_has_value (hwf : WF wb) (hs : SLocal wb S) (P : Nat → Prop)
    (hP : ∀ m, P m → ∀ j, j ∈ wb.deps m → P j) (hff : FailFree S P) (inp : Nat → R α)
    (hin : ∀ m, ∃ a, inp m = .ok a) : ∀ m, P m → ∃ v, denote wb (lift wb S) inp m = .ok v := by
  intro m
  induction m using Nat.strongRecOn with
  | _ m ih =>
    intro hm
    by_cases hk : wb.kind m = .input
    · rw [denote_input _ hk]; exact hin m
    · rw [denote_node hwf (lift_local hs) _ hk]
      have hnone := firstFail_none (fun j => denote wb (lift wb S) inp j) (wb.deps m)
        (fun j hj => ih j (hwf.lt m j hj) (hP m hm j hj))
      obtain ⟨v, hv⟩ := (hff m hm).1 (fun j => unwrap S.dflt (denote wb (lift wb S) inp j))
      cases hk' : wb.kind m with
      | input => exact absurd hk' hk
      | range => exact ⟨v, by simp only [lift, hk', hnone, applyF, hv]⟩
      | formula => exact ⟨v, by simp only [lift, hk', hnone, applyF, hv]⟩

/- … and so evaluates to it, whatever failed elsewhere before -/
theorem C09_unrelated_cone (hwf : WF wb) (hs : SLocal wb S) (hD : Balanced D) (P : Nat → Prop)
    (hP : ∀ m, P m → ∀ j, j ∈ wb.deps m → P j) (hff : FailFree S P) {s : FState α} (hg : Good wb S s)
    (hc : Clean s) (a : Nat) (ha : a < wb.n) (hPa : P a) :
    ∃ v, (evaluateX wb S D a s).1 = .ok v ∧ denote wb (lift wb S) s.core.inp a = .ok v := by
  obtain ⟨v, hv⟩ := C09_cone_has_value hwf hs P hP hff s.core.inp hg.inpOk a hPa
  exact ⟨v, C09_unrelated hwf hs hD P hP (fun m hm => (hff m hm).2) hg hc a ha hPa hv, hv⟩

/-! ## repair -/

/- "once the failing cell is overwritten with a constant": `set_value` over formula cell `i` (in the cell map) yields
   a consistent model of the REPAIRED workbook (`i` is a value cell) whose inputs are the old ones with `v` at `i`;
   the transient state is untouched. -/
theorem C09_repair (hwf : WF wb) (hs : SLocal wb S) (eqv : R α → R α → Bool)
    (hsound : ∀ a b, eqv a b = true → a = b) {s : FState α} (hg : Good wb S s) (hc : Clean s) (i : Nat) (v : α)
    (hi : i < wb.n) (hb : s.core.built i = true) :
    GoodM S ⟨repairWb wb i, repair wb S eqv i v s⟩ ∧
    (repair wb S eqv i v s).core.inp = update s.core.inp i (.ok v) := by
  have r := repair_good hwf hs eqv hsound hg i v hi hb
  exact ⟨⟨repairWb_wf hwf i, repairWb_local hs i, r.1, by rw [r.2.2]; exact hc⟩, r.2.1⟩

/- "its dependants evaluate as in a fresh model": evaluating any cell `d` of the repaired model gives what a FRESH
   model of the repaired workbook (same inputs, `v` in cell `i`, nothing evaluated yet) gives — the same value, and
   an exception exactly when the fresh model raises one (another cell may still be broken). -/
theorem C09_repair_fresh (hwf : WF wb) (hs : SLocal wb S) (hD : Balanced D) (eqv : R α → R α → Bool)
    (hsound : ∀ a b, eqv a b = true → a = b) (hq : ∀ m c, S.fault m c = none) {s : FState α} (hg : Good wb S s)
    (hc : Clean s) (i : Nat) (v : α) (hi : i < wb.n) (hb : s.core.built i = true) (inp' : Nat → α)
    (hinp' : ∀ k, update s.core.inp i (.ok v) k = .ok (inp' k)) (d : Nat) (hd : d < wb.n) :
    (∀ w, (evaluateX (repairWb wb i) S D d (initX inp')).1 = .ok w →
      (evaluateX (repairWb wb i) S D d (repair wb S eqv i v s)).1 = .ok w) ∧
    (∀ e, (evaluateX (repairWb wb i) S D d (initX inp')).1 = .error e →
      ∃ e', (evaluateX (repairWb wb i) S D d (repair wb S eqv i v s)).1 = .error e' ∧ e' ≠ .assertion ∧
        (NoRec S → e'.pycel = true)) := by
  obtain ⟨gm, hinp⟩ := C09_repair hwf hs eqv hsound hg hc i v hi hb
  have hT : ∀ m, (fun _ : Nat => True) m → ∀ j, j ∈ (repairWb wb i).deps m → (fun _ : Nat => True) j :=
    fun _ _ _ _ => trivial
  have hQ : QuietOn S (fun _ => True) := fun m _ c => hq m c
  have e1 := evaluateX_spec (D := D) gm.wf gm.loc hD (fun _ => True) hT hQ gm.good gm.clean d
  have f0 := initX_good (repairWb wb i) S inp'
  have e2 := evaluateX_spec (D := D) gm.wf gm.loc hD (fun _ => True) hT hQ f0.1 f0.2 d
  have hsame : (repair wb S eqv i v s).core.inp = (initX inp').core.inp := by
    rw [hinp]; funext k; exact hinp' k
  have hd' : d < (repairWb wb i).n := hd
  refine ⟨fun w hw => ?_, fun e he => ?_⟩
  · have := e2.sound hd' w hw
    exact e1.exact hd' trivial w (by rw [hsame]; exact this)
  · cases hr : (evaluateX (repairWb wb i) S D d (repair wb S eqv i v s)).1 with
    | ok w =>
      have := e1.sound hd' w hr
      have := e2.exact hd' trivial w (by rw [← hsame]; exact this)
      rw [he] at this; cases this
    | error e' =>
      exact ⟨e', rfl, (C09_never_stale (D := D) gm.wf gm.loc hD gm.good gm.clean d hd').2 e' hr⟩

/-! ## the error-message discipline: the repaired code satisfies the hypothesis, the pinned code does not -/

theorem C09_repaired_balanced : Balanced Discipline.repaired := ⟨fun _ _ _ => rfl, fun _ _ => rfl⟩

theorem C09_asWritten_not_balanced : ¬ Balanced Discipline.asWritten := by
  intro h
  have := h.1 0 1 .formulaEval
  simp [Discipline.asWritten] at this

section Inst
open Pycel Pycel.EngineInst Pycel.Failure.Inst

/-- A1 = 1, B1 = FOO(A1), C1 = ("a"+1)+B1 (one message captured before B1 is read), D1 = A1+A1 -/
def demo : List FSpec :=
  [⟨.inp (.num 1), .ok, 0, 0, false⟩, ⟨.fml (.ref 0), .unknown, 0, 0, false⟩, ⟨.fml (.add 1 1), .ok, 1, 0, false⟩,
   ⟨.fml (.add 0 0), .ok, 0, 0, false⟩]

def demoInit : FState EV := initX (inputsOf (specsOf demo))

def isErr (e : Fail) (r : R EV) : Bool :=
  match r with
  | .error x => decide (x = e)
  | .ok _ => false

def isVal (v : Val) (r : R EV) : Bool :=
  match r with
  | .ok (.sc w) => decide (w = v)
  | _ => false

/- "an outer captured #VALUE! plus an inner failure surfaces as a bare AssertionError": with the discipline of the
   pinned code evaluate(C1) raises the bare assertion, the message list is left with three entries, and from then on
   every failing evaluate (here B1, whose own failure is an UnknownFunction) asserts as well. -/
theorem C09_assert_counterexample :
    let r := evaluateX (wbOf demo) (semOf demo) .asWritten 2 demoInit
    isErr .assertion r.1 = true ∧ r.2.errs = 3 ∧
    isErr .assertion (evaluateX (wbOf demo) (semOf demo) .asWritten 1 r.2).1 = true := by
  decide +kernel

/- the same history under the repaired discipline: FormulaEvalError, clean state, B1 retried gives UnknownFunction,
   the unrelated D1 gives 2, and after overwriting B1 with 5 the dependant C1 evaluates (to #VALUE!, as fresh). -/
theorem C09_demo_repaired :
    let r := evaluateX (wbOf demo) (semOf demo) .repaired 2 demoInit
    isErr .formulaEval r.1 = true ∧ r.2.errs = 0 ∧ r.2.ctx = [] ∧
    isErr .unknownFunction (evaluateX (wbOf demo) (semOf demo) .repaired 1 r.2).1 = true ∧
    isVal (.num 2) (evaluateX (wbOf demo) (semOf demo) .repaired 3 r.2).1 = true ∧
    isVal (.err .value)
      (evaluateX (repairWb (wbOf demo) 1) (semOf demo) .repaired 2
        (repair (wbOf demo) (semOf demo) eqvR 1 (.sc (.num 5)) r.2)).1 = true := by
  decide +kernel

/-! ### non-vacuity: the hypotheses hold for the driver's instance -/

theorem semOf_local (fs : List FSpec) : SLocal (wbOf fs) (semOf fs) := by
  intro i e e' _ h
  have hl := sem_local (specsOf fs) i e e' h
  have hget : (specsOf fs)[i]? = (fs[i]?).map (·.spec) := by simp [specsOf]
  simp only [semOf, valueSem]
  cases hi : fs[i]? with
  | none => rfl
  | some x =>
    simp only
    have hdeps : (wbOf fs).deps i = x.spec.deps := by simp [wbOf, mkWb, hget, hi]
    cases x.mode <;> simp only
    all_goals
      split
      · split
        · rename_i r hsp
          rw [hdeps, hsp] at h
          rw [h r (by simp [Spec.deps, Fml.refs])]
        · rw [hl]
      · split
        · split <;> first | rfl | rw [hl]
        · rw [hl]

theorem eqvR_sound : ∀ a b : R EV, eqvR a b = true → a = b := by
  intro a b h
  cases a <;> cases b <;> simp_all [eqvR, typedEq]

example : WF (wbOf demo) := wf_of_check (specsOf demo) (by decide)
example : GoodM (semOf demo) ⟨wbOf demo, demoInit⟩ :=
  C09_init (wf_of_check (specsOf demo) (by decide)) (semOf_local demo) _
example : ∃ e, denote (wbOf demo) (lift (wbOf demo) (semOf demo)) demoInit.core.inp 2 = .error e := by
  have h1 : isErr .unknownFunction (denote (wbOf demo) (lift (wbOf demo) (semOf demo)) demoInit.core.inp 1) = true := by
    decide +kernel
  cases hd : denote (wbOf demo) (lift (wbOf demo) (semOf demo)) demoInit.core.inp 1 with
  | ok v => simp [isErr, hd] at h1
  | error x =>
    exact C09_dependant_fails (wf_of_check (specsOf demo) (by decide)) (semOf_local demo) _
      (.step (j := 1) (by decide) (.refl 1)) hd

end Inst

/-! ## iterative mode (`cycles=True`) -/

/- "This holds in plain and iterative mode": one pass of the iterative evaluator over ANY dependency graph (cycles
   included), any fuel, any cell, any state — failing or not — leaves every work-in-progress flag, the message list
   and the array-context stack exactly as it found them (repaired `_eval`: the `except` clears the flag). -/
theorem C09_iter_restored (hD : Balanced D) (fuel i : Nat) (s : IState α) :
    (∀ m, ((evalI wb S D true fuel i s).2.cells m).wip = (s.cells m).wip) ∧
    (evalI wb S D true fuel i s).2.errs = s.errs ∧ (evalI wb S D true fuel i s).2.ctx = s.ctx :=
  let h := evalI_restores (wb := wb) (S := S) hD fuel i s
  ⟨h.wip, h.errs, h.ctx⟩

/- retry in iterative mode, proved for the failing cell itself: a cell whose function raises on every call (unknown
   function, always-raising plugin) raises again on every later `evaluate` of it, after any evaluate of any cell
   (failed or not) from a state with no flag set — never the stale previous value.
   PARTIAL: the full statement also covers every dependant of the failing cell; in a cyclic graph a dependant can be
   computed without descending into the failing cell when a cell on the evaluation stack shields it, so the general
   argument needs a path invariant that is not carried here; dependants are covered by the correspondence run.
   (Carried since: `C09_iter_dependant_fails` / `C09_iter_dependant_retry` below prove the transitive statement.) -/
theorem C09_iter_retry_partial (hD : Balanced D) {b : Nat} (hk : wb.kind b = .formula)
    (hbr : ∀ env, ∃ x, S.f b env = .error x) (s : IState α) (hw : ∀ m, (s.cells m).wip = false) (a : Nat) :
    ∃ e, (evaluateI wb S D true b (evaluateI wb S D true a s).2).1 = .error e := by
  have h := evalI_restores (wb := wb) (S := S) hD (wb.n + 1) a { s with computed := fun _ => false }
  exact evalI_broken true hk hbr _ _ (by rw [show ((evaluateI wb S D true a s).2.cells b).wip = _ from h.wip b]; exact hw b)
    rfl

/- retry in iterative mode for EVERY dependant, any dependency graph (cycles included), any fuel, any state reached
   inside a pass: if there is a read path from cell `a` to a cell `b` whose function raises on every call, along which
   no cell is already computed in this pass or on the evaluation stack (`ReadPath` — exactly the cells the evaluator
   enters; a computed / in-progress cell on the path is where the real code would not re-enter either), then evaluating
   `a` raises — UnknownFunction, FormulaEvalError or the re-raised RecursionError, never the bare assertion, never a
   value — and leaves every work-in-progress flag, the message list and the context stack as it found them.
   `PassClosed s` is the invariant of the states of a pass (every cell computed in this pass has formula precedents
   that are computed or on the stack): it holds at the start of a pass and is kept by every successful evaluation
   (`evalI_ok_post`); the path invariant is `computed_along`. -/
theorem C09_iter_dependant_fails (hD : Balanced D) {b : Nat} (hbr : ∀ env, ∃ x, S.f b env = .error x)
    (fuel : Nat) {a : Nat} (s : IState α) (hc : PassClosed wb s) (hp : ReadPath wb s a b) :
    (∃ e, (evalI wb S D true fuel a s).1 = .error e ∧ e ≠ .assertion ∧ (e.pycel = true ∨ e = .recursion)) ∧
    (∀ m, ((evalI wb S D true fuel a s).2.cells m).wip = (s.cells m).wip) ∧
    (evalI wb S D true fuel a s).2.errs = s.errs ∧ (evalI wb S D true fuel a s).2.ctx = s.ctx := by
  obtain ⟨e, he⟩ := evalI_dependant_fails (wb := wb) (D := D) true hbr fuel s hc hp
  have hcls := evalI_err_cls (wb := wb) (S := S) hD true fuel a s he
  have hr := evalI_restores (wb := wb) (S := S) hD fuel a s
  refine ⟨⟨e, he, hcls, ?_⟩, hr.wip, hr.errs, hr.ctx⟩
  cases e <;> simp_all [Fail.pycel]

/- the same at the level of `evaluate` calls: from a state with no flag set, after ANY evaluate of ANY cell (failed or
   not), evaluating any cell that reaches the broken cell through formula cells raises again. -/
theorem C09_iter_dependant_retry (hD : Balanced D) {b : Nat} (hbr : ∀ env, ∃ x, S.f b env = .error x)
    (s : IState α) (hw : ∀ m, (s.cells m).wip = false) (a₀ : Nat) {a : Nat} (hp : FPath wb a b) :
    ∃ e, (evaluateI wb S D true a (evaluateI wb S D true a₀ s).2).1 = .error e ∧ e ≠ .assertion := by
  have h := evalI_restores (wb := wb) (S := S) hD (wb.n + 1) a₀ { s with computed := fun _ => false }
  have hclear : ∀ m, ¬ InD ({ (evaluateI wb S D true a₀ s).2 with computed := fun _ => false } : IState α) m := by
    intro m hm
    rcases hm with h1 | h1
    · cases h1
    · have : ((evaluateI wb S D true a₀ s).2.cells m).wip = (s.cells m).wip := h.wip m
      rw [show ({ (evaluateI wb S D true a₀ s).2 with computed := fun _ => false } : IState α).cells m =
        (evaluateI wb S D true a₀ s).2.cells m from rfl, this, hw m] at h1
      cases h1
  have hclosed : PassClosed wb ({ (evaluateI wb S D true a₀ s).2 with computed := fun _ => false } : IState α) :=
    fun m _ hcm => by cases hcm
  obtain ⟨e, he⟩ := evalI_dependant_fails (wb := wb) (D := D) true hbr (wb.n + 1) _ hclosed (hp.readPath hclear)
  exact ⟨e, he, evalI_err_cls (wb := wb) (S := S) hD true _ _ _ he⟩

section InstI
open Pycel Pycel.EngineInst Pycel.Failure.Inst

/- the pinned `_eval` (no `except`): after the failed evaluate(C1) of A1 = 1, B1 = FOO(A1), C1 = ("a"+1)+B1 both
   cells on the stack stay work-in-progress and the retry returns the previous value instead of raising. -/
theorem C09_iter_wip_counterexample :
    let s0 : IState EV := initI (inputsOf (specsOf demo))
    let r := evaluateI (wbOf demo) (semOf demo) .repaired false 2 s0
    isErr .formulaEval r.1 = true ∧ (r.2.cells 1).wip = true ∧ (r.2.cells 2).wip = true ∧
    isErr .formulaEval (evaluateI (wbOf demo) (semOf demo) .repaired false 2 r.2).1 = false := by
  decide +kernel

/- the repaired `_eval` on the same history: flags cleared, the retry raises again, the unrelated D1 evaluates -/
theorem C09_iter_demo_repaired :
    let s0 : IState EV := initI (inputsOf (specsOf demo))
    let r := evaluateI (wbOf demo) (semOf demo) .repaired true 2 s0
    isErr .formulaEval r.1 = true ∧ (r.2.cells 1).wip = false ∧ (r.2.cells 2).wip = false ∧
    isErr .formulaEval (evaluateI (wbOf demo) (semOf demo) .repaired true 2 r.2).1 = true ∧
    isVal (.num 2) (evaluateI (wbOf demo) (semOf demo) .repaired true 3 r.2).1 = true := by
  decide +kernel

/- non-vacuity of `C09_iter_dependant_retry`: in the demo workbook C1 reaches the broken B1 through formula cells -/
example : ∃ e, (evaluateI (wbOf demo) (semOf demo) .repaired true 2
      (evaluateI (wbOf demo) (semOf demo) .repaired true 3 (initI (inputsOf (specsOf demo)))).2).1 = .error e ∧
    e ≠ .assertion :=
  C09_iter_dependant_retry (wb := wbOf demo) (b := 1) C09_repaired_balanced (fun _ => ⟨.nameError, rfl⟩) _
    (fun _ => rfl) 3 (.step (j := 1) (by decide) (by decide) (.here (by decide)))

end InstI

end Pycel.Failure

/-
  C11 — Address algebra: parse/print round trip and rectangle lattice laws.

  Statement (properties.jsonl): "Every cell or range address prints to text that parses back to the same address in
  plain, quoted-sheet and absolute ($) form, and the A1, R1C1 and (col,row) tuple notations of one location denote
  the same address. A range enumerates exactly its height x width cells, each contained in it; intersection yields
  exactly the common cells (or #NULL!), union the minimal bounding rectangle, both commutative, associative and
  idempotent; offsets wrap at the sheet limits (16384 columns, 1048576 rows)."

  Model: Pycel/Model/Addr.lean (excelutil.py:116-493, 533-562, 702-841 + the openpyxl helpers).  MAX_COL, MAX_ROW, the
  column-letter limit, ERROR_CODES and the R1C1 combination table come from Generated/AddrLimits.lean, regenerated
  from the live code on every run: `limits_spec` and every theorem that unfolds them is re-proved against the code.
-/
import Pycel.Lemmas.Addr
import Pycel.Lemmas.AddrR1C1
namespace Pycel.Addr

deriving instance DecidableEq for Except

/-- "the sheet limits (16384 columns, 1048576 rows)": the live table holds exactly these, and every sheet column
    has column letters -/
theorem limits_spec : MAX_COL = 16384 ∧ MAX_ROW = 1048576 ∧ MAX_COL ≤ COL_LIMIT := by decide

/-! ### "prints to text that parses back to the same address" — building blocks -/

/-- column letters (bijective base 26) read back to the index, for every index -/
theorem C11_col_roundtrip (n : Nat) : parseCol (colLetters n) = n := parseCol_colLetters n

/-- up to the limit the letters are 1–3 upper-case letters (Z/AA at 26/27, ZZ/AAA at 702/703 are inside) -/
theorem C11_col_letters_shape (n : Nat) (h1 : 1 ≤ n) (h : n ≤ COL_LIMIT) :
    1 ≤ (colLetters n).length ∧ (colLetters n).length ≤ 3 ∧ ∀ c ∈ colLetters n, isUpper c = true :=
  ⟨(colLetters_length n h1 (colLimit_eq ▸ h)).1, (colLetters_length n h1 (colLimit_eq ▸ h)).2,
    fun c hc => (colLetters_chars n c hc).2.2.2.2.2.2⟩

/-- row numbers: `int(str(n)) = n`, and `str(n)` is a non-empty digit string -/
theorem C11_dec_roundtrip (n : Nat) :
    decVal (natStr n) = n ∧ natStr n ≠ [] ∧ ∀ c ∈ natStr n, isDigit c = true :=
  ⟨decVal_natStr n, natStr_ne_nil n, natStr_digits n⟩

/-- Excel's rule for a sheet name (the empty name stands for "no sheet") -/
def ExcelSheet (s : Str) : Prop :=
  s.length ≤ 31 ∧ (∀ c ∈ s, c ∉ [':', '\\', '/', '?', '*', '[', ']']) ∧ s.head? ≠ some '\'' ∧
    s.getLast? ≠ some '\''

/-- quoting (openpyxl `quote_sheetname`, doubling apostrophes) is undone by `unquote_sheetname` for EVERY name -/
theorem C11_sheet_quote_roundtrip (s : Str) : unquoteSheetname (quoteSheetname s) = s := unquote_quoteSheetname s

/-- "in plain, quoted-sheet … form": the sheet prefix written by `quote_sheet` (quoted when the name has a space)
    and the plain prefix are split off again, for every legal sheet name without '!'.
    PARTIAL: the full statement (every Excel-legal name) is false of code and model, see the counterexample. -/
theorem C11_split_sheet_partial (sheet coord : Str) (hs : ExcelSheet sheet) (hb : '!' ∉ sheet)
    (h3 : '!' ∉ coord) (h4 : '\'' ∉ coord) :
    splitSheetname (quoteSheet sheet ++ '!' :: coord) [] = .ok (sheet, coord) ∧
    splitSheetname (sheet ++ '!' :: coord) [] = .ok (sheet, coord) :=
  ⟨split_quoteSheet sheet coord hb hs.2.2.1 h3 h4,
   split_generic _ _ _ hb (unquote_plain sheet hs.2.2.1) h3 h4⟩

/-- a sheet name containing '!' is legal in Excel but is cut at its first '!' (known finding `sheet.bang`) -/
theorem C11_split_sheet_counterexample :
    ExcelSheet "a!b".toList ∧ splitSheetname ("a!b".toList ++ '!' :: "A1".toList) [] = .error .notImplemented := by
  refine ⟨by unfold ExcelSheet; decide, by decide⟩

/-! ### round trip of whole addresses -/

theorem coordinate_eq (a : Addr) : a.coordinate = coordOf cellCoord a := rfl
theorem absCoordinate_eq (a : Addr) : a.absCoordinate = coordOf cellAbsCoord a := rfl

/-- every cell (column up to ZZZ, any row ≥ 1) prints, relative and absolute, to text that parses back to it -/
theorem C11_print_parse_cell (c r : Nat) (hc1 : 1 ≤ c) (hc : c ≤ COL_LIMIT) (hr : 1 ≤ r)
    (anchor : Option (Nat × Nat)) :
    create (cellCoord c r) [] anchor = .ok (.addr ⟨false, ⟨[], c, r, c, r⟩⟩) ∧
    create (cellAbsCoord c r) [] anchor = .ok (.addr ⟨false, ⟨[], c, r, c, r⟩⟩) := by
  have ha : Addr.Printable ⟨false, ⟨[], c, r, c, r⟩⟩ := ⟨⟨hc1, hc⟩, ⟨hc1, hc⟩, hr, hr, by simp⟩
  have h1 := create_print cellCoord goodPrinter_rel _ ha [] [] (fun co h _ => split_none co h) anchor
  have h2 := create_print cellAbsCoord goodPrinter_abs _ ha [] [] (fun co h _ => split_none co h) anchor
  simpa [coordOf] using And.intro h1 h2

/-- every cell or range address without a sheet: `coordinate` and `abs_coordinate` parse back to it -/
theorem C11_print_parse_range (a : Addr) (ha : a.Printable) (hs : a.rect.sheet = []) :
    create a.coordinate [] none = .ok (.addr a) ∧ create a.absCoordinate [] none = .ok (.addr a) := by
  have h1 := create_print cellCoord goodPrinter_rel a ha [] [] (fun co h _ => split_none co h) none
  have h2 := create_print cellAbsCoord goodPrinter_abs a ha [] [] (fun co h _ => split_none co h) none
  obtain ⟨k, ⟨s, c1, r1, c2, r2⟩⟩ := a
  simp only at hs; subst hs
  rw [coordinate_eq, absCoordinate_eq]
  exact ⟨by simpa using h1, by simpa using h2⟩

/-- "Every cell or range address prints to text that parses back to the same address in plain, quoted-sheet and
    absolute ($) form": `address` (= `str`), `quoted_address` and `abs_address`, for every address with 1-based
    corners (normalised or not, columns up to ZZZ, any rows) and every Excel-legal sheet name without '!'.
    PARTIAL (hypothesis `hb`): the full statement — every Excel-legal sheet name — is false, see the counterexample. -/
theorem C11_print_parse_partial (a : Addr) (ha : a.Printable) (hs : ExcelSheet a.rect.sheet)
    (hb : '!' ∉ a.rect.sheet) :
    create a.address [] none = .ok (.addr a) ∧ create a.quotedAddress [] none = .ok (.addr a) ∧
    create a.absAddress [] none = .ok (.addr a) := by
  have hq := hs.2.2.1
  have e : (⟨a.isRange, ⟨a.rect.sheet, a.rect.c1, a.rect.r1, a.rect.c2, a.rect.r2⟩⟩ : Addr) = a := by
    obtain ⟨k, ⟨s, c1, r1, c2, r2⟩⟩ := a; rfl
  have hquoted : ∀ pr, GoodPrinter pr →
      create (quoteSheet a.rect.sheet ++ '!' :: coordOf pr a) [] none = .ok (.addr a) := by
    intro pr hp
    have := create_print pr hp a ha (quoteSheet a.rect.sheet ++ ['!']) a.rect.sheet
      (fun co h3 h4 => by simpa using split_quoteSheet a.rect.sheet co hb hq h3 h4) none
    rw [e] at this; simpa using this
  refine ⟨?_, ?_, ?_⟩
  · unfold Addr.address
    split
    · have := create_print cellCoord goodPrinter_rel a ha (a.rect.sheet ++ ['!']) a.rect.sheet
        (fun co h3 h4 => by simpa using split_generic _ _ co hb (unquote_plain _ hq) h3 h4) none
      rw [e] at this; simpa [coordinate_eq] using this
    · rename_i h
      have h' : a.rect.sheet = [] := by simpa using h
      exact (C11_print_parse_range a ha h').1
  · exact hquoted cellCoord goodPrinter_rel
  · exact hquoted cellAbsCoord goodPrinter_abs

/-- the full statement fails for an Excel-legal sheet name that contains '!' (known finding `sheet.bang`) -/
theorem C11_print_parse_counterexample :
    ∃ a : Addr, a.Printable ∧ ExcelSheet a.rect.sheet ∧ create a.address [] none ≠ .ok (.addr a) := by
  refine ⟨⟨false, ⟨"a!b".toList, 1, 1, 1, 1⟩⟩, ⟨by decide, by decide, by decide, by decide, by decide⟩,
    by unfold ExcelSheet; decide, by decide⟩

/-! ### "the A1, R1C1 and (col,row) tuple notations of one location denote the same address" -/

/-- absolute R1C1 text `R<r>C<c>` denotes the cell (c, r) -/
theorem C11_r1c1_abs (c r : Nat) (hc : c ≤ COL_LIMIT) (anchor : Option (Nat × Nat)) :
    create (r1c1Abs c r) [] anchor = .ok (.addr ⟨false, ⟨[], c, r, c, r⟩⟩) := create_r1c1Abs c r hc anchor

/-- "all relative R1C1 offsets from all anchor cells": `R[dr]C[dc]` read at anchor (ac, ar) denotes the cell at
    that offset, wrapped at the sheet limits — the same cell `address_at_offset` yields -/
theorem C11_r1c1_rel (ac ar : Nat) (dr dc : Int) :
    create (r1c1Rel dr dc) [] (some (ac, ar)) =
      .ok (.addr ⟨false, ⟨[], (Cell.offset ⟨[], ac, ar⟩ dr dc).col, (Cell.offset ⟨[], ac, ar⟩ dr dc).row,
        (Cell.offset ⟨[], ac, ar⟩ dr dc).col, (Cell.offset ⟨[], ac, ar⟩ dr dc).row⟩⟩) :=
  create_r1c1Rel ac ar dr dc

/-- one location (c, r) of the sheet, seen from any anchor of the sheet: A1, $A$1, R1C1, relative R1C1 (also with the
    offsets shifted by a whole sheet) and the (col,row,col,row) tuple all denote the same AddressCell -/
theorem C11_notations_agree (c r ac ar : Nat) (hc : 1 ≤ c ∧ c ≤ MAX_COL) (hr : 1 ≤ r ∧ r ≤ MAX_ROW)
    (_hac : 1 ≤ ac ∧ ac ≤ MAX_COL) (_har : 1 ≤ ar ∧ ar ≤ MAX_ROW) :
    let cell : Except PyErr Created := .ok (.addr ⟨false, ⟨[], c, r, c, r⟩⟩)
    create (cellCoord c r) [] (some (ac, ar)) = cell ∧
    create (cellAbsCoord c r) [] (some (ac, ar)) = cell ∧
    create (r1c1Abs c r) [] (some (ac, ar)) = cell ∧
    create (r1c1Rel ((r : Int) - ar) ((c : Int) - ac)) [] (some (ac, ar)) = cell ∧
    create (r1c1Rel ((r : Int) - ar + MAX_ROW) ((c : Int) - ac - MAX_COL)) [] (some (ac, ar)) = cell ∧
    (cellOfTuple [] ⟨some c, some r, some c, some r⟩).map Created.addr = cell := by
  have hlim : c ≤ COL_LIMIT := Nat.le_trans hc.2 maxCol_le_limit
  have e1 : incCol ac ((c : Int) - ac) = c := by
    unfold incCol; unfold MAX_COL Gen.maxCol at *; omega
  have e2 : incRow ar ((r : Int) - ar) = r := by
    unfold incRow; unfold MAX_ROW Gen.maxRow at *; omega
  have e3 : incCol ac ((c : Int) - ac - MAX_COL) = c := by
    unfold incCol; unfold MAX_COL Gen.maxCol at *; omega
  have e4 : incRow ar ((r : Int) - ar + MAX_ROW) = r := by
    unfold incRow; unfold MAX_ROW Gen.maxRow at *; omega
  have p := C11_print_parse_cell c r hc.1 hlim hr.1 (some (ac, ar))
  refine ⟨p.1, p.2, create_r1c1Abs c r hlim _, ?_, ?_, ?_⟩
  · rw [create_r1c1Rel, e1, e2]
  · rw [create_r1c1Rel, e3, e4]
  · simp [cellOfTuple, Bounds.hasNone, mkCell, Nat.not_lt.mpr hlim, Except.map]

/-! R1C1 ranges (absolute form).  Whole rows / columns in absolute R1C1 (`R1:R3`, `C1:C2`) are read by the code as A1
   text (columns R / C), and the relative range forms are covered by the correspondence run only. -/

/-- absolute R1C1 text of a range: `R<r1>C<c1>:R<r2>C<c2>` -/
def r1c1AbsRange (c1 r1 c2 r2 : Nat) : Str := r1c1Abs c1 r1 ++ ':' :: r1c1Abs c2 r2

theorem a1Boundaries_r1c1_tail (r : Nat) (tail : Str) : a1Boundaries ('R' :: (natStr r ++ 'C' :: tail)) = none := by
  have d1 : dropDollar ('R' :: (natStr r ++ 'C' :: tail)) = 'R' :: (natStr r ++ 'C' :: tail) := by
    simp [dropDollar]
  have s1 : spanP isLetter (['R'] ++ (natStr r ++ 'C' :: tail)) = (['R'], natStr r ++ 'C' :: tail) :=
    spanP_append _ _ _ (by decide) (fun x hx => (natStr_head' r _ x hx).2.1)
  have d2 : dropDollar (natStr r ++ 'C' :: tail) = natStr r ++ 'C' :: tail :=
    dropDollar_id _ (fun x hx => (natStr_head' r _ x hx).2.2.1)
  have s2 : spanP isDigit (natStr r ++ 'C' :: tail) = (natStr r, 'C' :: tail) :=
    spanP_append _ _ _ (natStr_digits r) (noHead_cons _ _ _ (by decide))
  simp only [List.singleton_append] at s1
  unfold a1Boundaries a1Half
  simp [d1, s1, d2, s2]

theorem r1c1AbsRange_eq (c1 r1 c2 r2 : Nat) :
    r1c1AbsRange c1 r1 c2 r2 =
      'R' :: (natStr r1 ++ 'C' :: (natStr c1 ++ ':' :: 'R' :: (natStr r2 ++ 'C' :: natStr c2))) := by
  simp [r1c1AbsRange, r1c1Abs, List.append_assoc]

theorem r1c1Match_absRange (c1 r1 c2 r2 : Nat) :
    r1c1Match (r1c1AbsRange c1 r1 c2 r2) =
      some ⟨some (.abs r1), some (.abs c1), true, some (.abs r2), some (.abs c2)⟩ := by
  have h1 := rcItem_abs 'R' r1 ('C' :: (natStr c1 ++ ':' :: 'R' :: (natStr r2 ++ 'C' :: natStr c2)))
    (noHead_cons _ _ _ (by decide))
  have h2 := rcItem_abs 'C' c1 (':' :: 'R' :: (natStr r2 ++ 'C' :: natStr c2)) (noHead_cons _ _ _ (by decide))
  have h3 := rcItem_abs 'R' r2 ('C' :: natStr c2) (noHead_cons _ _ _ (by decide))
  have h4 := rcItem_abs 'C' c2 [] (noHead_nil _)
  simp only [List.append_nil] at h4
  rw [r1c1AbsRange_eq]
  unfold r1c1Match
  simp only [h1, h2, h3, h4, ↓reduceIte]

theorem bang_not_mem_r1c1AbsRange (c1 r1 c2 r2 : Nat) : '!' ∉ r1c1AbsRange c1 r1 c2 r2 := by
  intro h
  simp only [r1c1AbsRange, List.mem_append, List.mem_cons] at h
  rcases h with h | h | h
  · exact bang_not_mem_r1c1Abs _ _ h
  · cases h
  · exact bang_not_mem_r1c1Abs _ _ h

/-- "the A1, R1C1 and (col,row) tuple notations of one location denote the same address", for ranges: the absolute
    R1C1 text `R<r1>C<c1>:R<r2>C<c2>` of two different corners denotes the AddressRange with those corners — the same
    address the A1 text and the tuple denote (`C11_print_parse_range`, `rangeOfTuple`) -/
theorem C11_r1c1_abs_range (c1 r1 c2 r2 : Nat) (h1 : c1 ≤ COL_LIMIT) (h2 : c2 ≤ COL_LIMIT)
    (hne : (c1, r1) ≠ (c2, r2)) (anchor : Option (Nat × Nat)) :
    create (r1c1AbsRange c1 r1 c2 r2) [] anchor = .ok (.addr ⟨true, ⟨[], c1, r1, c2, r2⟩⟩) ∧
    (rangeOfTuple [] ⟨some c1, some r1, some c2, some r2⟩).map Created.addr =
      .ok (.addr ⟨true, ⟨[], c1, r1, c2, r2⟩⟩) := by
  have hne' : r1c1AbsRange c1 r1 c2 r2 ∉ errorCodes :=
    not_errorCode_of_head _ 'R' (by rw [r1c1AbsRange_eq]; rfl) (by decide)
  have hcomb : Gen.r1c1Combos.contains (true, true, true, true) = true := by decide
  have hmem : (true, true, true, true) ∈ Gen.r1c1Combos := by decide
  have hb : ¬ (c1 = c2 ∧ r1 = r2) := by
    intro h; apply hne; rw [h.1, h.2]
  have hl : ¬ (c1 > COL_LIMIT ∨ c2 > COL_LIMIT) := by omega
  constructor
  · unfold create
    rw [if_neg hne', split_none _ (bang_not_mem_r1c1AbsRange c1 r1 c2 r2)]
    have ha1 : a1Boundaries (r1c1AbsRange c1 r1 c2 r2) = none := by
      rw [r1c1AbsRange_eq]; exact a1Boundaries_r1c1_tail r1 _
    simp only [rangeBoundaries, boundsSimple, ha1, r1c1Boundaries, r1c1Match_absRange, rcResolve?, rcResolve]
    have hb' : c1 = c2 → ¬ r1 = r2 := fun x y => hb ⟨x, y⟩
    simp [ofBounds, Bounds.hasNone, mkRange, hmem, hl]
    rw [if_pos hb']
  · simp [rangeOfTuple, Bounds.hasNone, mkRange, hb, hl, Except.map]

/-! ### "A range enumerates exactly its height x width cells, each contained in it" -/

/-- the number of enumerated cells is height × width -/
theorem C11_cells_count (a : Rect) (h : a.WF) : (a.cells.length : Int) = a.height * a.width := by
  rw [height_wf a h, width_wf a h, length_cells]
  obtain ⟨h1, h2, h3, h4⟩ := h
  have e1 : ((a.r2 + 1 - a.r1 : Nat) : Int) = (a.r2 : Int) - a.r1 + 1 := by omega
  have e2 : ((a.c2 + 1 - a.c1 : Nat) : Int) = (a.c2 : Int) - a.c1 + 1 := by omega
  rw [Int.natCast_mul, e1, e2]

/-- exactly the contained cells (of the range's sheet) are enumerated: each enumerated cell is contained, and
    each contained cell is enumerated -/
theorem C11_cells_mem (a : Rect) (c : Cell) : c ∈ a.cells ↔ (a.contains c = true ∧ c.sheet = a.sheet) :=
  mem_cells a c

/-- no cell is enumerated twice (so the count above counts distinct cells) -/
theorem C11_cells_nodup (a : Rect) : a.cells.Nodup := nodup_cells a

/-- `cols` enumerates the same cells as `rows` -/
theorem C11_cols_same_cells (a : Rect) (c : Cell) : c ∈ a.cols.flatten ↔ c ∈ a.cells := by
  rw [mem_cols, mem_cells]

/-- every enumerated cell carries the sheet of the range -/
theorem C11_cells_sheet (a : Rect) (c : Cell) (h : c ∈ a.cells) : c.sheet = a.sheet := ((mem_cells a c).mp h).2

/-- enumeration is a function of the address VALUE alone: the same rectangle put on a sheet enumerates the same cells
    on that sheet.  (In pycel an address object can be derived from another one — `AddressRange(obj, sheet=…)`,
    operator results, offsets; in the model a derived object is just a new value, so nothing that was called on the
    source object can show in it.  The correspondence run checks the implementation against exactly this.) -/
theorem C11_cells_resheet (a : Rect) (s : Str) :
    ({ a with sheet := s } : Rect).cells = a.cells.map (fun c => { c with sheet := s }) := by
  simp only [Rect.cells, Rect.rows, Rect.rowIdxs, Rect.colIdxs, List.map_flatten, List.map_map]
  congr 1
  apply List.map_congr_left
  intro r _
  simp only [Function.comp, List.map_map]
  rfl

/-- `AddressRange(obj, sheet=s)` on a sheet-less (or same-sheet) address object: the same corners and kind on the
    sheet, enumerating the re-labelled cells; a different sheet is a ValueError -/
theorem C11_resheet (a b : Addr) (s : Str) (h : resheet a s = .ok b) :
    b.isRange = a.isRange ∧ (b.rect.c1, b.rect.r1, b.rect.c2, b.rect.r2) = (a.rect.c1, a.rect.r1, a.rect.c2, a.rect.r2) ∧
    b.rect.cells = a.rect.cells.map (fun c => { c with sheet := b.rect.sheet }) ∧
    (s ≠ [] → b.rect.sheet = s) := by
  unfold resheet at h
  split at h
  · rename_i hs
    injection h with h; subst h
    refine ⟨rfl, rfl, ?_, fun hne => (hs.resolve_left hne).symm⟩
    have := C11_cells_resheet a.rect a.rect.sheet
    simpa using this
  · split at h
    · injection h with h; subst h
      exact ⟨rfl, rfl, C11_cells_resheet a.rect s, fun _ => rfl⟩
    · cases h

/-! ### "intersection yields exactly the common cells (or #NULL!), union the minimal bounding rectangle" -/

/-- `&` of two rectangles of one sheet is never #VALUE!; a rectangle result is well-formed, on the same sheet, and
    contains exactly the cells contained in both; a #NULL! result means there is no common cell -/
theorem C11_inter_spec (a b : Rect) (ha : a.WF) (hb : b.WF) (hs : a.sheet = b.sheet) :
    match a.inter b with
    | .rect r => r.WF ∧ r.sheet = a.sheet ∧ ∀ c, r.contains c = (a.contains c && b.contains c)
    | .null => ∀ c, ¬ (a.contains c = true ∧ b.contains c = true)
    | .value => False := by
  rw [inter_eq a b ha hb hs]
  obtain ⟨h1, h2, h3, h4⟩ := ha
  obtain ⟨g1, g2, g3, g4⟩ := hb
  by_cases hc : max a.c1 b.c1 ≤ min a.c2 b.c2 ∧ max a.r1 b.r1 ≤ min a.r2 b.r2
  · rw [if_pos hc]
    refine ⟨by unfold Rect.WF; simp only; omega, rfl, ?_⟩
    intro c
    rw [Bool.eq_iff_iff]
    simp only [Bool.and_eq_true, contains_iff]
    omega
  · rw [if_neg hc]
    intro c
    simp only [contains_iff]
    omega

/-- `&` is #NULL! exactly when the rectangles have no common cell -/
theorem C11_inter_null_iff (a b : Rect) (ha : a.WF) (hb : b.WF) (hs : a.sheet = b.sheet) :
    a.inter b = .null ↔ ¬ ∃ c, a.contains c = true ∧ b.contains c = true := by
  rw [inter_eq a b ha hb hs]
  obtain ⟨h1, h2, h3, h4⟩ := ha
  obtain ⟨g1, g2, g3, g4⟩ := hb
  split
  · rename_i hc
    simp only [reduceCtorEq, false_iff, Classical.not_not]
    refine ⟨⟨a.sheet, max a.c1 b.c1, max a.r1 b.r1⟩, ?_⟩
    simp only [contains_iff]; omega
  · rename_i hc
    simp only [true_iff, not_exists, contains_iff]
    intro c; omega

/-- the cells of the intersection are exactly the common cells -/
theorem C11_inter_cells (a b r : Rect) (ha : a.WF) (hb : b.WF) (hs : a.sheet = b.sheet)
    (h : a.inter b = .rect r) (c : Cell) : c ∈ r.cells ↔ c ∈ a.cells ∧ c ∈ b.cells := by
  have := C11_inter_spec a b ha hb hs
  rw [h] at this
  obtain ⟨_, hsh, hc⟩ := this
  simp only [mem_cells, hc c, Bool.and_eq_true, hsh, ← hs]
  constructor
  · rintro ⟨⟨x, y⟩, z⟩; exact ⟨⟨x, z⟩, ⟨y, z⟩⟩
  · rintro ⟨⟨x, z⟩, ⟨y, _⟩⟩; exact ⟨⟨x, y⟩, z⟩

/-- `**` of two rectangles of one sheet is a well-formed rectangle containing both -/
theorem C11_union_bounding (a b : Rect) (ha : a.WF) (hb : b.WF) (hs : a.sheet = b.sheet) :
    ∃ r, a.union b = .rect r ∧ r.WF ∧ r.sheet = a.sheet ∧
      (∀ c, a.contains c = true → r.contains c = true) ∧ (∀ c, b.contains c = true → r.contains c = true) := by
  refine ⟨_, union_eq a b ha hb hs, ?_, rfl, ?_, ?_⟩
  · obtain ⟨h1, h2, h3, h4⟩ := ha
    obtain ⟨g1, g2, g3, g4⟩ := hb
    unfold Rect.WF; simp only; omega
  · intro c; simp only [contains_iff]; omega
  · intro c; simp only [contains_iff]; omega

/-- … and it is the least such: any rectangle that contains every cell of `a` and of `b` contains the union -/
theorem C11_union_least (a b s r : Rect) (ha : a.WF) (hb : b.WF) (hs : a.sheet = b.sheet)
    (h : a.union b = .rect r)
    (hsa : ∀ c, a.contains c = true → s.contains c = true) (hsb : ∀ c, b.contains c = true → s.contains c = true) :
    ∀ c, r.contains c = true → s.contains c = true := by
  rw [union_eq a b ha hb hs] at h
  injection h with h; subst h
  obtain ⟨h1, h2, h3, h4⟩ := ha
  obtain ⟨g1, g2, g3, g4⟩ := hb
  have a1 := hsa ⟨[], a.c1, a.r1⟩; have a2 := hsa ⟨[], a.c2, a.r2⟩
  have b1 := hsb ⟨[], b.c1, b.r1⟩; have b2 := hsb ⟨[], b.c2, b.r2⟩
  simp only [contains_iff] at a1 a2 b1 b2 ⊢
  intro c hc
  omega

/-! ### "both commutative, associative and idempotent" -/

/-- sequencing of `&` / `**`: an error result (#NULL!, #VALUE!) of the first operation is the result -/
def Res.andThen (x : Res) (f : Rect → Res) : Res :=
  match x with
  | .rect r => f r
  | e => e

theorem C11_inter_comm (a b : Rect) (ha : a.WF) (hb : b.WF) (hs : a.sheet = b.sheet) :
    a.inter b = b.inter a := by
  rw [inter_eq a b ha hb hs, inter_eq b a hb ha hs.symm]
  simp only [Nat.max_comm b.c1, Nat.max_comm b.r1, Nat.min_comm b.c2, Nat.min_comm b.r2, hs]

theorem C11_union_comm (a b : Rect) (ha : a.WF) (hb : b.WF) (hs : a.sheet = b.sheet) :
    a.union b = b.union a := by
  rw [union_eq a b ha hb hs, union_eq b a hb ha hs.symm]
  simp only [Nat.max_comm b.c2, Nat.max_comm b.r2, Nat.min_comm b.c1, Nat.min_comm b.r1, hs]

theorem C11_inter_idem (a : Rect) (ha : a.WF) : a.inter a = .rect a := by
  rw [inter_eq a a ha ha rfl]
  obtain ⟨h1, h2, h3, h4⟩ := ha
  simp only [Nat.max_self, Nat.min_self]
  rw [if_pos ⟨h2, h4⟩]

theorem C11_union_idem (a : Rect) (ha : a.WF) : a.union a = .rect a := by
  rw [union_eq a a ha ha rfl]
  simp only [Nat.max_self, Nat.min_self]

/-- `(a & b) & c = a & (b & c)`, #NULL! intermediates included (an empty intermediate makes both sides #NULL!) -/
theorem C11_inter_assoc (a b c : Rect) (ha : a.WF) (hb : b.WF) (hc : c.WF) (hab : a.sheet = b.sheet)
    (hbc : b.sheet = c.sheet) :
    (a.inter b).andThen (fun r => r.inter c) = (b.inter c).andThen (fun r => a.inter r) := by
  rw [inter_eq a b ha hb hab, inter_eq b c hb hc hbc]
  obtain ⟨h1, h2, h3, h4⟩ := ha
  obtain ⟨g1, g2, g3, g4⟩ := hb
  obtain ⟨k1, k2, k3, k4⟩ := hc
  by_cases p : max a.c1 b.c1 ≤ min a.c2 b.c2 ∧ max a.r1 b.r1 ≤ min a.r2 b.r2 <;>
  by_cases q : max b.c1 c.c1 ≤ min b.c2 c.c2 ∧ max b.r1 c.r1 ≤ min b.r2 c.r2
  · have wab : Rect.WF ⟨a.sheet, max a.c1 b.c1, max a.r1 b.r1, min a.c2 b.c2, min a.r2 b.r2⟩ := by
      unfold Rect.WF; simp only; omega
    have wbc : Rect.WF ⟨b.sheet, max b.c1 c.c1, max b.r1 c.r1, min b.c2 c.c2, min b.r2 c.r2⟩ := by
      unfold Rect.WF; simp only; omega
    rw [if_pos p, if_pos q]
    simp only [Res.andThen]
    rw [inter_eq _ c wab ⟨k1, k2, k3, k4⟩ (hab.trans hbc), inter_eq a _ ⟨h1, h2, h3, h4⟩ wbc hab]
    simp only
    simp only [Nat.max_assoc, Nat.min_assoc]
  · have wab : Rect.WF ⟨a.sheet, max a.c1 b.c1, max a.r1 b.r1, min a.c2 b.c2, min a.r2 b.r2⟩ := by
      unfold Rect.WF; simp only; omega
    rw [if_pos p, if_neg q]
    simp only [Res.andThen]
    rw [inter_eq _ c wab ⟨k1, k2, k3, k4⟩ (hab.trans hbc)]
    simp only
    rw [if_neg (by omega)]
  · have wbc : Rect.WF ⟨b.sheet, max b.c1 c.c1, max b.r1 c.r1, min b.c2 c.c2, min b.r2 c.r2⟩ := by
      unfold Rect.WF; simp only; omega
    rw [if_neg p, if_pos q]
    simp only [Res.andThen]
    rw [inter_eq a _ ⟨h1, h2, h3, h4⟩ wbc hab]
    simp only
    rw [if_neg (by omega)]
  · rw [if_neg p, if_neg q]
    rfl

/-- `(a ** b) ** c = a ** (b ** c)` -/
theorem C11_union_assoc (a b c : Rect) (ha : a.WF) (hb : b.WF) (hc : c.WF) (hab : a.sheet = b.sheet)
    (hbc : b.sheet = c.sheet) :
    (a.union b).andThen (fun r => r.union c) = (b.union c).andThen (fun r => a.union r) := by
  obtain ⟨r1, e1, w1, s1, _⟩ := C11_union_bounding a b ha hb hab
  obtain ⟨r2, e2, w2, s2, _⟩ := C11_union_bounding b c hb hc hbc
  rw [e1, e2]
  rw [union_eq a b ha hb hab] at e1
  rw [union_eq b c hb hc hbc] at e2
  injection e1 with e1; subst e1
  injection e2 with e2; subst e2
  simp only [Res.andThen]
  rw [union_eq _ c w1 hc (by simp only; exact hab.trans hbc), union_eq a _ ha w2 (by simp only; exact hab)]
  simp only [Res.rect.injEq, Rect.mk.injEq, true_and]
  omega

/-! ### mixed sheet qualification of the operands (none + sheet, sheet + none, same sheet, different sheets)

  "both commutative, associative and idempotent" has no exclusion for operands that carry the sheet differently: pycel
  merges the sheet (`sheet=self.sheet or other.sheet`) and answers #VALUE! for two different named sheets. -/

/-- two sheet qualifications that cannot be combined: both named, and different -/
abbrev Clash (s t : Str) : Prop := s ≠ [] ∧ t ≠ [] ∧ s ≠ t

/-- the sheet-merge rule: a sheet-less operand takes the other operand's sheet -/
def mergeSheet (s t : Str) : Str := if s ≠ [] then s else t

def Rect.noSheet (a : Rect) : Rect := { a with sheet := [] }
def Res.setSheet (s : Str) : Res → Res
  | .rect r => .rect { r with sheet := s }
  | x => x

theorem setSheet_match (s : Str) (x y : Option (Nat × Nat)) :
    (match x, y with
      | some (c1, c2), some (r1, r2) => Res.rect ⟨s, c1, r1, c2, r2⟩
      | _, _ => Res.null) =
    Res.setSheet s (match x, y with
      | some (c1, c2), some (r1, r2) => Res.rect ⟨[], c1, r1, c2, r2⟩
      | _, _ => Res.null) := by
  rcases x with _ | ⟨c1, c2⟩ <;> rcases y with _ | ⟨r1, r2⟩ <;> rfl

/-- `&` / `**` = the sheet rule on top of the sheet-less geometry -/
theorem combine_sheet (i : Bool) (a b : Rect) (ha wa hb wb : Int) :
    combineCore i a b ha wa hb wb =
      if Clash a.sheet b.sheet then .value
      else (combineCore i a.noSheet b.noSheet ha wa hb wb).setSheet (mergeSheet a.sheet b.sheet) := by
  by_cases h : Clash a.sheet b.sheet
  · rw [if_pos h]; unfold combineCore; rw [if_pos h]
  · rw [if_neg h]; unfold combineCore; rw [if_neg h]
    simp only [Rect.noSheet, ne_eq, not_true_eq_false, false_and, ↓reduceIte, mergeSheet]
    exact setSheet_match _ _ _

theorem inter_sheet (a b : Rect) :
    a.inter b = if Clash a.sheet b.sheet then .value
      else (a.noSheet.inter b.noSheet).setSheet (mergeSheet a.sheet b.sheet) := combine_sheet true a b _ _ _ _
theorem union_sheet (a b : Rect) :
    a.union b = if Clash a.sheet b.sheet then .value
      else (a.noSheet.union b.noSheet).setSheet (mergeSheet a.sheet b.sheet) := combine_sheet false a b _ _ _ _

theorem clash_comm (s t : Str) : Clash s t ↔ Clash t s := by
  constructor <;> (rintro ⟨h1, h2, h3⟩; exact ⟨h2, h1, fun h => h3 h.symm⟩)

theorem merge_comm (s t : Str) (h : ¬ Clash s t) : mergeSheet s t = mergeSheet t s := by
  unfold mergeSheet
  by_cases hs : s = [] <;> by_cases ht : t = [] <;> simp_all

theorem noSheet_wf (a : Rect) (h : a.WF) : a.noSheet.WF := h

theorem merge_assoc (s t u : Str) : mergeSheet (mergeSheet s t) u = mergeSheet s (mergeSheet t u) := by
  unfold mergeSheet
  by_cases hs : s = [] <;> by_cases ht : t = [] <;> simp_all

/-- pairwise combinable sheets stay combinable after merging -/
theorem clash_merge_left (s t u : Str) (h1 : ¬ Clash s t) (h2 : ¬ Clash t u) (h3 : ¬ Clash s u) :
    ¬ Clash (mergeSheet s t) u ∧ ¬ Clash s (mergeSheet t u) := by
  unfold mergeSheet
  by_cases hs : s = [] <;> by_cases ht : t = [] <;> by_cases hu : u = [] <;> simp_all

theorem clash_value (i : Bool) (a b : Rect) (h : Clash a.sheet b.sheet) :
    a.inter b = .value ∧ a.union b = .value := by
  rw [inter_sheet, union_sheet, if_pos h, if_pos h]; exact ⟨rfl, rfl⟩

theorem setSheet_andThen (s : Str) (x : Res) (f g : Rect → Res)
    (h : ∀ r, x = .rect r → f { r with sheet := s } = g r) :
    (x.setSheet s).andThen f = x.andThen g := by
  cases x with
  | rect r => exact h r rfl
  | null => rfl
  | value => rfl

theorem andThen_setSheet_out (s : Str) (x : Res) (f : Rect → Res) :
    x.andThen (fun r => (f r).setSheet s) = (x.andThen f).setSheet s := by
  cases x <;> rfl

/-- sheet-less operands give sheet-less results -/
theorem noSheet_result (i : Bool) (a b : Rect) (ha wa hb wb : Int) (r : Rect)
    (h : combineCore i a.noSheet b.noSheet ha wa hb wb = .rect r) : r.sheet = [] := by
  unfold combineCore at h
  simp only [Rect.noSheet, ne_eq, not_true_eq_false, false_and, ↓reduceIte] at h
  split at h
  · injection h with h; subst h; rfl
  · cases h

/-- commutativity of `&` and `**` for EVERY sheet qualification of the operands (none + sheet, sheet + none, same
    sheet, different sheets: both orders give #VALUE!) -/
theorem C11_comm_sheets (a b : Rect) (ha : a.WF) (hb : b.WF) : a.inter b = b.inter a ∧ a.union b = b.union a := by
  rw [inter_sheet a b, inter_sheet b a, union_sheet a b, union_sheet b a]
  by_cases h : Clash a.sheet b.sheet
  · rw [if_pos h, if_pos h, if_pos ((clash_comm _ _).mp h), if_pos ((clash_comm _ _).mp h)]
    exact ⟨rfl, rfl⟩
  · have h' : ¬ Clash b.sheet a.sheet := fun x => h ((clash_comm _ _).mp x)
    rw [if_neg h, if_neg h, if_neg h', if_neg h', merge_comm _ _ h,
      C11_inter_comm a.noSheet b.noSheet ha hb rfl, C11_union_comm a.noSheet b.noSheet ha hb rfl]
    exact ⟨rfl, rfl⟩

/-- the sheet-merge rule itself: a sheet-less operand takes the other's sheet, two different named sheets give
    #VALUE!, and the geometry never depends on the sheets -/
theorem C11_sheet_rule (a b : Rect) :
    (Clash a.sheet b.sheet → a.inter b = .value ∧ a.union b = .value) ∧
    (¬ Clash a.sheet b.sheet →
      a.inter b = (a.noSheet.inter b.noSheet).setSheet (mergeSheet a.sheet b.sheet) ∧
      a.union b = (a.noSheet.union b.noSheet).setSheet (mergeSheet a.sheet b.sheet)) := by
  refine ⟨fun h => clash_value true a b h, fun h => ?_⟩
  rw [inter_sheet, union_sheet, if_neg h, if_neg h]; exact ⟨rfl, rfl⟩

/-- associativity of `&` and `**` for operands whose sheet qualifications can be combined (any mix of sheet-less and
    one named sheet) -/
theorem C11_assoc_sheets (a b c : Rect) (ha : a.WF) (hb : b.WF) (hc : c.WF)
    (hab : ¬ Clash a.sheet b.sheet) (hbc : ¬ Clash b.sheet c.sheet) (hac : ¬ Clash a.sheet c.sheet) :
    (a.inter b).andThen (fun r => r.inter c) = (b.inter c).andThen (fun r => a.inter r) ∧
    (a.union b).andThen (fun r => r.union c) = (b.union c).andThen (fun r => a.union r) := by
  obtain ⟨k1, k2⟩ := clash_merge_left _ _ _ hab hbc hac
  have key : ∀ (i : Bool) (op : Rect → Rect → Res)
      (hop : ∀ x y, op x y = combineCore i x y x.height x.width y.height y.width)
      (hassoc : (op a.noSheet b.noSheet).andThen (fun r => op r c.noSheet) =
        (op b.noSheet c.noSheet).andThen (fun r => op a.noSheet r)),
      (op a b).andThen (fun r => op r c) = (op b c).andThen (fun r => op a r) := by
    intro i op hop hassoc
    have e1 : op a b = (op a.noSheet b.noSheet).setSheet (mergeSheet a.sheet b.sheet) := by
      rw [hop a b, hop a.noSheet b.noSheet, combine_sheet, if_neg hab]; rfl
    have e2 : op b c = (op b.noSheet c.noSheet).setSheet (mergeSheet b.sheet c.sheet) := by
      rw [hop b c, hop b.noSheet c.noSheet, combine_sheet, if_neg hbc]; rfl
    rw [e1, e2]
    rw [setSheet_andThen _ _ _ (fun r => (op r c.noSheet).setSheet (mergeSheet (mergeSheet a.sheet b.sheet) c.sheet)),
      setSheet_andThen _ _ _ (fun r => (op a.noSheet r).setSheet (mergeSheet a.sheet (mergeSheet b.sheet c.sheet))),
      andThen_setSheet_out, andThen_setSheet_out, hassoc, merge_assoc]
    · intro r hr
      have hs : r.sheet = [] := by
        rw [hop b.noSheet c.noSheet] at hr; exact noSheet_result i b c _ _ _ _ r hr
      rw [hop, hop a.noSheet r, combine_sheet, if_neg k2]
      obtain ⟨s, c1, r1, c2, r2⟩ := r
      simp only at hs; subst hs; rfl
    · intro r hr
      have hs : r.sheet = [] := by
        rw [hop a.noSheet b.noSheet] at hr; exact noSheet_result i a b _ _ _ _ r hr
      rw [hop, hop r c.noSheet, combine_sheet, if_neg k1]
      obtain ⟨s, c1, r1, c2, r2⟩ := r
      simp only at hs; subst hs; rfl
  exact ⟨key true Rect.inter (fun _ _ => rfl) (C11_inter_assoc a.noSheet b.noSheet c.noSheet ha hb hc rfl rfl),
    key false Rect.union (fun _ _ => rfl) (C11_union_assoc a.noSheet b.noSheet c.noSheet ha hb hc rfl rfl)⟩


theorem clash_merge_any (s t u : Str) (h : Clash s t ∨ Clash t u ∨ Clash s u) :
    (¬ Clash s t → Clash (mergeSheet s t) u) ∧ (¬ Clash t u → Clash s (mergeSheet t u)) := by
  unfold mergeSheet
  by_cases hs : s = [] <;> by_cases ht : t = [] <;> by_cases hu : u = [] <;> simp_all <;> grind

/-- `**` is associative for EVERY sheet qualification: with two different named sheets among the operands both
    groupings give #VALUE! -/
theorem C11_union_assoc_all_sheets (a b c : Rect) (ha : a.WF) (hb : b.WF) (hc : c.WF) :
    (a.union b).andThen (fun r => r.union c) = (b.union c).andThen (fun r => a.union r) := by
  by_cases h : Clash a.sheet b.sheet ∨ Clash b.sheet c.sheet ∨ Clash a.sheet c.sheet
  · obtain ⟨k1, k2⟩ := clash_merge_any _ _ _ h
    have lhs : (a.union b).andThen (fun r => r.union c) = .value := by
      by_cases hab : Clash a.sheet b.sheet
      · rw [(clash_value true a b hab).2]; rfl
      · rw [union_sheet a b, if_neg hab, union_eq a.noSheet b.noSheet ha hb rfl]
        simp only [Res.setSheet, Res.andThen]
        exact (clash_value true _ c (k1 hab)).2
    have rhs : (b.union c).andThen (fun r => a.union r) = .value := by
      by_cases hbc : Clash b.sheet c.sheet
      · rw [(clash_value true b c hbc).2]; rfl
      · rw [union_sheet b c, if_neg hbc, union_eq b.noSheet c.noSheet hb hc rfl]
        simp only [Res.setSheet, Res.andThen]
        exact (clash_value true a _ (k2 hbc)).2
    rw [lhs, rhs]
  · have h1 : ¬ Clash a.sheet b.sheet := fun x => h (Or.inl x)
    have h2 : ¬ Clash b.sheet c.sheet := fun x => h (Or.inr (Or.inl x))
    have h3 : ¬ Clash a.sheet c.sheet := fun x => h (Or.inr (Or.inr x))
    exact (C11_assoc_sheets a b c ha hb hc h1 h2 h3).2

/-- `&` with two different named sheets among three operands: an error either way, but not the same one
    (an empty intermediate is #NULL! before the sheets are compared) -/
theorem C11_inter_assoc_clash_witness :
    ((⟨['S'], 1, 1, 1, 1⟩ : Rect).inter ⟨[], 2, 2, 2, 2⟩).andThen (fun r => r.inter ⟨['T'], 2, 2, 2, 2⟩) = .null ∧
    ((⟨[], 2, 2, 2, 2⟩ : Rect).inter ⟨['T'], 2, 2, 2, 2⟩).andThen (fun r => (⟨['S'], 1, 1, 1, 1⟩ : Rect).inter r)
      = .value := by decide

/-! ### whole rows and columns as operands ("exactly the common cells", an unbounded side read as 1..MAX)

  `A:C` is stored with rows 0, `1:3` with columns 0.  The pinned code added the size MAX to the corner 0, so every
  result stopped one short of the last column / row (`1:1 & XFD1` was #NULL!, `1:1 & A1:XFD1` was `A1:XFC1`); repaired
  in /repo (fix: 0c6b643 + the commit that keeps a side unbounded), the model follows the repaired code:
  an unbounded side starts at 1, and a side of the result is unbounded again when that side of both operands is. -/

/-- for a bounded rectangle "denotes" is plain containment -/
theorem C11_covers_bounded (a : Rect) (h : a.WF) (c : Cell) : a.covers c ↔ a.contains c = true := covers_wf a h c

/-- `C11_inter_spec` for operands with unbounded rows and/or columns (`Rect.GWF`: each side bounded or unbounded,
    `Rect.covers`: an unbounded side spans 1..MAX_COL / 1..MAX_ROW): never #VALUE! on one sheet; #NULL! only when the
    operands denote no common cell; a rectangle result denotes exactly the cells denoted by both operands, and a side
    on which either operand is bounded is bounded (1 ≤ lo ≤ hi) in the result -/
theorem C11_inter_spec_unbounded (a b : Rect) (ha : a.GWF) (hb : b.GWF) (hs : a.sheet = b.sheet) :
    a.inter b ≠ .value ∧
    (a.inter b = .null → ∀ c, ¬ (a.covers c ∧ b.covers c)) ∧
    (∀ r, a.inter b = .rect r → r.GWF ∧ r.sheet = a.sheet ∧ (∀ c, r.covers c ↔ (a.covers c ∧ b.covers c)) ∧
      ((a.c1 ≠ 0 ∨ b.c1 ≠ 0) → 1 ≤ r.c1 ∧ r.c1 ≤ r.c2) ∧ ((a.r1 ≠ 0 ∨ b.r1 ≠ 0) → 1 ≤ r.r1 ∧ r.r1 ≤ r.r2)) :=
  inter_spec_gwf a b ha hb hs

/-- `C11_inter_cells` with one operand unbounded (the case of pycel's `get_range`: a whole-row / whole-column
    address against the bounded used area): the result is a bounded rectangle whose enumerated cells are exactly
    the cells of `b` that `a` denotes — the last column XFD and the last row 1048576 included -/
theorem C11_inter_cells_unbounded (a b r : Rect) (ha : a.GWF) (hb : b.WF) (hs : a.sheet = b.sheet)
    (h : a.inter b = .rect r) (c : Cell) : r.WF ∧ (c ∈ r.cells ↔ (a.covers c ∧ c ∈ b.cells)) := by
  obtain ⟨_, _, k⟩ := inter_spec_gwf a b ha (wf_gwf b hb) hs
  obtain ⟨_, hsh, hcov, hc, hr⟩ := k r h
  obtain ⟨b1, b2, b3, b4⟩ := hb
  have wr : r.WF := by
    have := hc (Or.inr (by omega)); have := hr (Or.inr (by omega))
    unfold Rect.WF; omega
  refine ⟨wr, ?_⟩
  rw [mem_cells, mem_cells, ← covers_wf r wr, hcov c, covers_wf b ⟨b1, b2, b3, b4⟩, hsh, hs]
  constructor
  · rintro ⟨⟨x, y⟩, z⟩; exact ⟨x, y, z⟩
  · rintro ⟨x, y, z⟩; exact ⟨⟨x, y⟩, z⟩

/-- a bounded rectangle is never an "unbounded range", even when it spans every column or row of the sheet
    (`A1:XFD1` enumerates its 16384 cells; the pinned code refused with an AssertionError) -/
theorem C11_bounded_not_unbounded (r : Rect) (h : r.WF) : r.toAddr.isUnbounded = false := by
  obtain ⟨h1, h2, h3, h4⟩ := h
  have e1 : ¬ r.c1 = 0 := by omega
  have e2 : ¬ r.r1 = 0 := by omega
  have e3 : ¬ r.c2 = 0 := by omega
  have e4 : ¬ r.r2 = 0 := by omega
  simp [Addr.isUnbounded, Rect.toAddr, e1, e2, e3, e4]

/-- … and a whole-row / whole-column range is one -/
theorem C11_unbounded_side (a : Addr) (hr : a.isRange = true)
    (h : a.rect.c1 = 0 ∨ a.rect.c2 = 0 ∨ a.rect.r1 = 0 ∨ a.rect.r2 = 0) : a.isUnbounded = true := by
  simp only [Addr.isUnbounded, hr, Bool.true_and, Bool.or_eq_true, decide_eq_true_eq]
  omega

/-! ### the same laws at the level of the operators (`&`, `**` on address objects and error values) -/

def Rect.op (i : Bool) (a b : Rect) : Res := if i then a.inter b else a.union b

theorem toAddr_size (r : Rect) (h : r.WF) : r.toAddr.height = r.height ∧ r.toAddr.width = r.width := by
  rw [height_wf r h, width_wf r h]
  obtain ⟨h1, h2, h3, h4⟩ := h
  have z1 : ¬ r.c1 = 0 := by omega
  have z2 : ¬ r.c2 = 0 := by omega
  have z3 : ¬ r.r1 = 0 := by omega
  have z4 : ¬ r.r2 = 0 := by omega
  have eq : r.toAddr = ⟨!(decide (r.c1 = r.c2) && decide (r.r1 = r.r2)), r⟩ := by
    simp [Rect.toAddr, z1, z2, z3, z4]
  rw [eq]
  unfold Addr.height Addr.width
  by_cases e : r.c1 = r.c2 ∧ r.r1 = r.r2
  · simp [e.1, e.2]
  · have : (decide (r.c1 = r.c2) && decide (r.r1 = r.r2)) = false := by simpa using e
    simp only [this, Bool.not_false, ↓reduceIte]
    rw [height_wf r ⟨h1, h2, h3, h4⟩, width_wf r ⟨h1, h2, h3, h4⟩]; simp

theorem op_spec (i : Bool) (a b : Rect) (ha : a.WF) (hb : b.WF) (hs : a.sheet = b.sheet)
    (la : a.c2 ≤ COL_LIMIT) (lb : b.c2 ≤ COL_LIMIT) :
    a.op i b ≠ .value ∧ ∀ r, a.op i b = .rect r → r.WF ∧ r.sheet = a.sheet ∧ r.c1 ≤ COL_LIMIT ∧ r.c2 ≤ COL_LIMIT := by
  obtain ⟨h1, h2, h3, h4⟩ := ha
  obtain ⟨g1, g2, g3, g4⟩ := hb
  cases i
  · simp only [Rect.op, Bool.false_eq_true, ↓reduceIte]
    rw [union_eq a b ⟨h1, h2, h3, h4⟩ ⟨g1, g2, g3, g4⟩ hs]
    refine ⟨by simp, ?_⟩
    intro r hr; injection hr with hr; subst hr
    refine ⟨by unfold Rect.WF; simp only; omega, rfl, by simp only; omega, by simp only; omega⟩
  · simp only [Rect.op, ↓reduceIte]
    rw [inter_eq a b ⟨h1, h2, h3, h4⟩ ⟨g1, g2, g3, g4⟩ hs]
    split
    · refine ⟨by simp, ?_⟩
      intro r hr; injection hr with hr; subst hr
      refine ⟨by unfold Rect.WF; simp only; omega, rfl, by simp only; omega, by simp only; omega⟩
    · refine ⟨by simp, ?_⟩
      intro r hr; cases hr

theorem combine_toAddr (i : Bool) (a b : Rect) (ha : a.WF) (hb : b.WF) (hs : a.sheet = b.sheet)
    (la : a.c2 ≤ COL_LIMIT) (lb : b.c2 ≤ COL_LIMIT) :
    Operand.combine i (.addr a.toAddr) (.addr b.toAddr) = .ok (a.op i b).toOperand := by
  have sp := op_spec i a b ha hb hs la lb
  have e : combineCore i a b a.toAddr.height a.toAddr.width b.toAddr.height b.toAddr.width = a.op i b := by
    rw [(toAddr_size a ha).1, (toAddr_size a ha).2, (toAddr_size b hb).1, (toAddr_size b hb).2]
    cases i <;> rfl
  simp only [Operand.combine, Addr.combine]
  have e' : combineCore i a.toAddr.rect b.toAddr.rect a.toAddr.height a.toAddr.width b.toAddr.height
      b.toAddr.width = a.op i b := e
  rw [e']
  cases hop : a.op i b with
  | rect r =>
    have := sp.2 r hop
    simp only
    rw [if_neg (by omega)]
  | null => rfl
  | value => rfl

theorem chainL (i : Bool) (x : Res) (c : Rect) (hc : c.WF) (lc : c.c2 ≤ COL_LIMIT)
    (hx : ∀ r, x = .rect r → r.WF ∧ r.sheet = c.sheet ∧ r.c2 ≤ COL_LIMIT) :
    Operand.combine i x.toOperand (.addr c.toAddr) = .ok (x.andThen (fun r => r.op i c)).toOperand := by
  cases x with
  | rect r =>
    obtain ⟨w, s, l⟩ := hx r rfl
    exact combine_toAddr i r c w hc s l lc
  | null => rfl
  | value => rfl

theorem chainR (i : Bool) (a : Rect) (y : Res) (ha : a.WF) (la : a.c2 ≤ COL_LIMIT)
    (hy : ∀ r, y = .rect r → r.WF ∧ a.sheet = r.sheet ∧ r.c2 ≤ COL_LIMIT) :
    Operand.combine i (.addr a.toAddr) y.toOperand = .ok (y.andThen (fun r => a.op i r)).toOperand := by
  cases y with
  | rect r =>
    obtain ⟨w, s, l⟩ := hy r rfl
    exact combine_toAddr i a r ha w s la l
  | null => rfl
  | value => rfl

/-- associativity at the level of the operators themselves (`Operand.combine` = `&` / `**` on address objects and
    error values): three addresses of one sheet, error intermediates propagating -/
theorem C11_operand_assoc (i : Bool) (a b c : Rect) (ha : a.WF) (hb : b.WF) (hc : c.WF) (hab : a.sheet = b.sheet)
    (hbc : b.sheet = c.sheet) (la : a.c2 ≤ COL_LIMIT) (lb : b.c2 ≤ COL_LIMIT) (lc : c.c2 ≤ COL_LIMIT) :
    (Operand.combine i (.addr a.toAddr) (.addr b.toAddr)).bind (fun x => Operand.combine i x (.addr c.toAddr)) =
    (Operand.combine i (.addr b.toAddr) (.addr c.toAddr)).bind (fun y => Operand.combine i (.addr a.toAddr) y) := by
  have s1 := op_spec i a b ha hb hab la lb
  have s2 := op_spec i b c hb hc hbc lb lc
  rw [combine_toAddr i a b ha hb hab la lb, combine_toAddr i b c hb hc hbc lb lc]
  simp only [Except.bind]
  rw [chainL i _ c hc lc (fun r hr => ⟨(s1.2 r hr).1, (s1.2 r hr).2.1.trans (hab.trans hbc), (s1.2 r hr).2.2.2⟩),
      chainR i a _ ha la (fun r hr => ⟨(s2.2 r hr).1, hab.trans (s2.2 r hr).2.1.symm, (s2.2 r hr).2.2.2⟩)]
  congr 2
  cases i
  · exact C11_union_assoc a b c ha hb hc hab hbc
  · exact C11_inter_assoc a b c ha hb hc hab hbc

/-- `&` / `**` of two bounded rectangles, any sheet qualification: a rectangle result is well-formed, within the
    column-letter limit, carries the merged sheet, and the sheets did not clash -/
theorem op_spec_sheets (i : Bool) (a b : Rect) (ha : a.WF) (hb : b.WF)
    (la : a.c2 ≤ COL_LIMIT) (lb : b.c2 ≤ COL_LIMIT) :
    ∀ r, a.op i b = .rect r → r.WF ∧ r.c1 ≤ COL_LIMIT ∧ r.c2 ≤ COL_LIMIT ∧
      r.sheet = mergeSheet a.sheet b.sheet ∧ ¬ Clash a.sheet b.sheet := by
  intro r hr
  have rule := C11_sheet_rule a b
  by_cases hcl : Clash a.sheet b.sheet
  · have := rule.1 hcl
    cases i <;> simp only [Rect.op, Bool.false_eq_true, ↓reduceIte, this] at hr <;> cases hr
  · have e : a.op i b = (a.noSheet.op i b.noSheet).setSheet (mergeSheet a.sheet b.sheet) := by
      cases i
      · exact (rule.2 hcl).2
      · exact (rule.2 hcl).1
    rw [e] at hr
    have sp := op_spec i a.noSheet b.noSheet ha hb rfl la lb
    cases h0 : a.noSheet.op i b.noSheet with
    | rect r0 =>
      rw [h0] at hr
      simp only [Res.setSheet, Res.rect.injEq] at hr
      subst hr
      obtain ⟨w, _, l1, l2⟩ := sp.2 r0 h0
      exact ⟨w, l1, l2, rfl, hcl⟩
    | null => rw [h0] at hr; cases hr
    | value => rw [h0] at hr; cases hr

theorem combine_toAddr_sheets (i : Bool) (a b : Rect) (ha : a.WF) (hb : b.WF)
    (la : a.c2 ≤ COL_LIMIT) (lb : b.c2 ≤ COL_LIMIT) :
    Operand.combine i (.addr a.toAddr) (.addr b.toAddr) = .ok (a.op i b).toOperand := by
  have sp := op_spec_sheets i a b ha hb la lb
  have e : combineCore i a b a.toAddr.height a.toAddr.width b.toAddr.height b.toAddr.width = a.op i b := by
    rw [(toAddr_size a ha).1, (toAddr_size a ha).2, (toAddr_size b hb).1, (toAddr_size b hb).2]
    cases i <;> rfl
  simp only [Operand.combine, Addr.combine]
  have e' : combineCore i a.toAddr.rect b.toAddr.rect a.toAddr.height a.toAddr.width b.toAddr.height
      b.toAddr.width = a.op i b := e
  rw [e']
  cases hop : a.op i b with
  | rect r =>
    have := sp r hop
    simp only
    rw [if_neg (by omega)]
  | null => rfl
  | value => rfl

theorem chainL_sheets (i : Bool) (x : Res) (c : Rect) (hc : c.WF) (lc : c.c2 ≤ COL_LIMIT)
    (hx : ∀ r, x = .rect r → r.WF ∧ r.c2 ≤ COL_LIMIT) :
    Operand.combine i x.toOperand (.addr c.toAddr) = .ok (x.andThen (fun r => r.op i c)).toOperand := by
  cases x with
  | rect r => exact combine_toAddr_sheets i r c (hx r rfl).1 hc (hx r rfl).2 lc
  | null => rfl
  | value => rfl

theorem chainR_sheets (i : Bool) (a : Rect) (y : Res) (ha : a.WF) (la : a.c2 ≤ COL_LIMIT)
    (hy : ∀ r, y = .rect r → r.WF ∧ r.c2 ≤ COL_LIMIT) :
    Operand.combine i (.addr a.toAddr) y.toOperand = .ok (y.andThen (fun r => a.op i r)).toOperand := by
  cases y with
  | rect r => exact combine_toAddr_sheets i a r ha (hy r rfl).1 la (hy r rfl).2
  | null => rfl
  | value => rfl

/-- both groupings of three address operands, as results of the rectangle-level operations -/
theorem operand_chains (i : Bool) (a b c : Rect) (ha : a.WF) (hb : b.WF) (hc : c.WF)
    (la : a.c2 ≤ COL_LIMIT) (lb : b.c2 ≤ COL_LIMIT) (lc : c.c2 ≤ COL_LIMIT) :
    (Operand.combine i (.addr a.toAddr) (.addr b.toAddr)).bind (fun x => Operand.combine i x (.addr c.toAddr)) =
      .ok ((a.op i b).andThen (fun r => r.op i c)).toOperand ∧
    (Operand.combine i (.addr b.toAddr) (.addr c.toAddr)).bind (fun y => Operand.combine i (.addr a.toAddr) y) =
      .ok ((b.op i c).andThen (fun r => a.op i r)).toOperand := by
  have s1 := op_spec_sheets i a b ha hb la lb
  have s2 := op_spec_sheets i b c hb hc lb lc
  rw [combine_toAddr_sheets i a b ha hb la lb, combine_toAddr_sheets i b c hb hc lb lc]
  simp only [Except.bind]
  exact ⟨chainL_sheets i _ c hc lc (fun r hr => ⟨(s1 r hr).1, (s1 r hr).2.2.1⟩),
    chainR_sheets i a _ ha la (fun r hr => ⟨(s2 r hr).1, (s2 r hr).2.2.1⟩)⟩

/-- an error result of the rectangle level is an error value of the operators -/
theorem toOperand_err (x : Res) (h : ∀ r, x ≠ .rect r) : ∃ e, x.toOperand = .err e := by
  cases x with
  | rect r => exact absurd rfl (h r)
  | null => exact ⟨_, rfl⟩
  | value => exact ⟨_, rfl⟩

/-- "both commutative, associative and idempotent", at the level of the operators themselves (`Operand.combine` =
    `&` / `**` on address objects and error values, errors propagating) and for EVERY sheet qualification of the three
    address operands:
    * `**` is associative, whatever the sheets (two different named sheets: #VALUE! either way);
    * `&` is associative whenever the three sheets are pairwise combinable (any mix of sheet-less and one sheet);
    * `&` with two different named sheets among the operands: both groupings are error values (they can differ in
      which: `C11_inter_assoc_clash_witness`). -/
theorem C11_operand_assoc_sheets (i : Bool) (a b c : Rect) (ha : a.WF) (hb : b.WF) (hc : c.WF)
    (la : a.c2 ≤ COL_LIMIT) (lb : b.c2 ≤ COL_LIMIT) (lc : c.c2 ≤ COL_LIMIT) :
    let L := (Operand.combine i (.addr a.toAddr) (.addr b.toAddr)).bind
      (fun x => Operand.combine i x (.addr c.toAddr))
    let R := (Operand.combine i (.addr b.toAddr) (.addr c.toAddr)).bind
      (fun y => Operand.combine i (.addr a.toAddr) y)
    (i = false → L = R) ∧
    (¬ Clash a.sheet b.sheet → ¬ Clash b.sheet c.sheet → ¬ Clash a.sheet c.sheet → L = R) ∧
    (Clash a.sheet b.sheet ∨ Clash b.sheet c.sheet ∨ Clash a.sheet c.sheet →
      ∃ e1 e2, L = .ok (.err e1) ∧ R = .ok (.err e2)) := by
  obtain ⟨eL, eR⟩ := operand_chains i a b c ha hb hc la lb lc
  simp only
  rw [eL, eR]
  refine ⟨?_, ?_, ?_⟩
  · intro hi; subst hi
    have := C11_union_assoc_all_sheets a b c ha hb hc
    simp only [Rect.op, Bool.false_eq_true, ↓reduceIte]
    rw [this]
  · intro h1 h2 h3
    have := C11_assoc_sheets a b c ha hb hc h1 h2 h3
    cases i
    · simp only [Rect.op, Bool.false_eq_true, ↓reduceIte]; rw [this.2]
    · simp only [Rect.op, ↓reduceIte]; rw [this.1]
  · intro hcl
    obtain ⟨k1, k2⟩ := clash_merge_any _ _ _ hcl
    have s1 := op_spec_sheets i a b ha hb la lb
    have s2 := op_spec_sheets i b c hb hc lb lc
    have nl : ∀ r, (a.op i b).andThen (fun r => r.op i c) ≠ .rect r := by
      intro r hr
      cases h1 : a.op i b with
      | rect r1 =>
        rw [h1] at hr
        simp only [Res.andThen] at hr
        obtain ⟨w1, _, l1, sh1, nc1⟩ := s1 r1 h1
        obtain ⟨_, _, _, _, nc⟩ := op_spec_sheets i r1 c w1 hc l1 lc r hr
        rw [sh1] at nc
        exact nc (k1 nc1)
      | null => rw [h1] at hr; cases hr
      | value => rw [h1] at hr; cases hr
    have nr : ∀ r, (b.op i c).andThen (fun r => a.op i r) ≠ .rect r := by
      intro r hr
      cases h1 : b.op i c with
      | rect r1 =>
        rw [h1] at hr
        simp only [Res.andThen] at hr
        obtain ⟨w1, _, l1, sh1, nc1⟩ := s2 r1 h1
        obtain ⟨_, _, _, _, nc⟩ := op_spec_sheets i a r1 ha w1 la l1 r hr
        rw [sh1] at nc
        exact nc (k2 nc1)
      | null => rw [h1] at hr; cases hr
      | value => rw [h1] at hr; cases hr
    obtain ⟨e1, h1⟩ := toOperand_err _ nl
    obtain ⟨e2, h2⟩ := toOperand_err _ nr
    exact ⟨e1, e2, by rw [h1], by rw [h2]⟩

/-! ### "offsets wrap at the sheet limits (16384 columns, 1048576 rows)" -/

/-- any offset of any cell lands inside the sheet -/
theorem C11_offset_range (c : Cell) (ri ci : Int) :
    1 ≤ (c.offset ri ci).col ∧ (c.offset ri ci).col ≤ 16384 ∧
    1 ≤ (c.offset ri ci).row ∧ (c.offset ri ci).row ≤ 1048576 ∧ (c.offset ri ci).sheet = c.sheet := by
  have h1 := incCol_le c.col ci
  have h2 := incRow_le c.row ri
  simp only [Cell.offset]
  unfold MAX_COL Gen.maxCol at h1
  unfold MAX_ROW Gen.maxRow at h2
  refine ⟨by omega, by omega, by omega, by omega, trivial⟩

/-- the period of the wrap-around is exactly the sheet size, in both directions and any number of times -/
theorem C11_offset_period (c : Cell) (ri ci k l : Int) :
    c.offset (ri + k * 1048576) (ci + l * 16384) = c.offset ri ci := by
  simp only [Cell.offset, Cell.mk.injEq, true_and, incCol, incRow, MAX_COL, MAX_ROW, Gen.maxCol, Gen.maxRow]
  omega

/-- offsets add up (for every starting cell, in or out of the sheet) -/
theorem C11_offset_add (c : Cell) (ri ci rj cj : Int) :
    (c.offset ri ci).offset rj cj = c.offset (ri + rj) (ci + cj) := by
  simp only [Cell.offset, Cell.mk.injEq, true_and, incCol, incRow, MAX_COL, MAX_ROW, Gen.maxCol, Gen.maxRow]
  omega

/-- a zero offset of a cell of the sheet is the cell -/
theorem C11_offset_zero (c : Cell) (hc : 1 ≤ c.col ∧ c.col ≤ 16384) (hr : 1 ≤ c.row ∧ c.row ≤ 1048576) :
    c.offset 0 0 = c := by
  obtain ⟨s, col, row⟩ := c
  simp only [Cell.offset, Cell.mk.injEq, true_and, incCol, incRow, MAX_COL, MAX_ROW, Gen.maxCol, Gen.maxRow]
  simp only at hc hr
  omega

/-- at the boundary: one past the last column/row is the first, one before the first is the last -/
theorem C11_offset_wrap_boundary :
    incCol 16384 1 = 1 ∧ incCol 1 (-1) = 16384 ∧ incRow 1048576 1 = 1 ∧ incRow 1 (-1) = 1048576 := by decide

/-! ### non-vacuity: concrete instances of the hypotheses -/

example : (⟨[], 2, 2, 3, 4⟩ : Rect).WF := by decide
example : (⟨[], 2, 2, 3, 4⟩ : Rect).inter ⟨[], 3, 1, 5, 2⟩ = .rect ⟨[], 3, 2, 3, 2⟩ := by decide
example : (⟨[], 1, 1, 1, 1⟩ : Rect).inter ⟨[], 2, 2, 2, 2⟩ = .null := by decide
-- row 1 and the last cell of row 1 (the witness of the repaired off-by-one), whole rows against whole columns
example : (⟨[], 0, 1, 0, 1⟩ : Rect).GWF ∧ (⟨[], 0, 1, 0, 1⟩ : Rect).inter ⟨[], 16384, 1, 16384, 1⟩ = .rect ⟨[], 16384, 1, 16384, 1⟩ := by decide
example : (⟨[], 0, 1, 0, 3⟩ : Rect).inter ⟨[], 2, 0, 3, 0⟩ = .rect ⟨[], 2, 1, 3, 3⟩ := by decide
-- 1:3 & 2:5 = 2:3 (a side unbounded in both operands stays unbounded), A:A ** C2 = A:C
example : (⟨[], 0, 1, 0, 3⟩ : Rect).inter ⟨[], 0, 2, 0, 5⟩ = .rect ⟨[], 0, 2, 0, 3⟩ := by decide
example : (⟨[], 1, 0, 1, 0⟩ : Rect).union ⟨[], 3, 2, 3, 2⟩ = .rect ⟨[], 1, 0, 3, 0⟩ := by decide
example : (⟨[], 1, 1, 1, 1⟩ : Rect).union ⟨[], 3, 3, 3, 3⟩ = .rect ⟨[], 1, 1, 3, 3⟩ := by decide
example : Addr.Printable ⟨true, ⟨"My Sheet".toList, 26, 9, 27, 10⟩⟩ := ⟨by decide, by decide, by decide, by decide, by decide⟩
example : ExcelSheet "Bob's sheet".toList ∧ '!' ∉ "Bob's sheet".toList := by unfold ExcelSheet; decide
example : (⟨true, ⟨"Bob's sheet".toList, 26, 9, 27, 10⟩⟩ : Addr).quotedAddress = "'Bob''s sheet'!Z9:AA10".toList := by
  decide
example : colLetters 16384 = "XFD".toList ∧ colLetters 703 = "AAA".toList ∧ colLetters 702 = "ZZ".toList := by decide

end Pycel.Addr

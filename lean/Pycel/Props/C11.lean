/- C11: property theorems (not built yet). -/

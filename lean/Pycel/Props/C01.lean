/- C01: property theorems (not built yet). -/

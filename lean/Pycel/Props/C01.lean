/-
  C01 — Lazy cache coherence: no stale value after any set_value/evaluate history.

  Model: Pycel/Model/Engine.lean (generic engine), Pycel/Model/EngineInst.lean (concrete formula language used by the
  correspondence driver).  Lemmas: Pycel/Lemmas/Engine.lean.  Every theorem below holds for EVERY workbook
  (`wb`, any number of nodes, any DAG in topological presentation), EVERY value type `α`, EVERY formula semantics `f`
  that reads only declared precedents, and EVERY finite history — by induction over the history, never by sampling.
-/
import Pycel.Lemmas.Engine
import Pycel.Lemmas.EngineInst
namespace Pycel.Engine

variable {α : Type} {wb : Workbook} {f : Nat → (Nat → α) → α}

/-! ## the main statement -/

/- "after ANY interleaving of set_value and evaluate calls every cell evaluates to exactly the value a from-scratch
   compile of the same workbook with the current input values produces."
   `run … s₀ h` = the state after the history `h`; `denote wb f inp a` = the from-scratch value of node `a` at inputs
   `inp`; `s₀` = any state satisfying the invariant (the three ways of obtaining a model are shown below to do so). -/
theorem C01_coherence (hwf : WF wb) (hl : Local wb f) (eqv : α → α → Bool) (s₀ : State α) (h₀ : Inv wb f s₀)
    (h : List (Op α)) (a : Nat) (ha : a < wb.n) :
    (evaluate wb f a (run wb f eqv s₀ h)).1 = denote wb f (run wb f eqv s₀ h).inp a :=
  (evaluate_spec hwf hl (run_inv hwf hl eqv h h₀) a).val ha

/- the same, phrased on the list of values the history itself returns: the value returned by an `evaluate` issued
   after any history is the from-scratch value at the inputs current at that moment. -/
theorem C01_outputs (hwf : WF wb) (hl : Local wb f) (eqv : α → α → Bool) (s₀ : State α) (h₀ : Inv wb f s₀)
    (h : List (Op α)) (a : Nat) (ha : a < wb.n) :
    outputs wb f eqv s₀ (h ++ [.eval a]) =
      outputs wb f eqv s₀ h ++ [some (denote wb f (run wb f eqv s₀ h).inp a)] := by
  rw [outputs_append]
  simp only [outputs]
  rw [C01_coherence hwf hl eqv s₀ h₀ h a ha]

/- "with the current input values": what the current inputs are.  An accepted `set_value` (a value cell that is in the
   cell map) makes the written value the current input of that cell and of no other; the proof forces the hypothesis
   `eqv a b = true → a = b` on the equality test of `set_value` (see `C01_eqv_sound_needed`, `pyEq_not_sound`). -/
theorem C01_inputs_current (hwf : WF wb) (hl : Local wb f) (eqv : α → α → Bool)
    (hsound : ∀ a b, eqv a b = true → a = b) (s₀ : State α) (h₀ : Inv wb f s₀) (h : List (Op α)) (i : Nat) (v : α) :
    (run wb f eqv s₀ (h ++ [.set i v])).inp =
      if i < wb.n ∧ wb.kind i = .input ∧ (run wb f eqv s₀ h).built i = true
      then update (run wb f eqv s₀ h).inp i v else (run wb f eqv s₀ h).inp := by
  rw [run_append]
  exact setValue_inp hwf hl eqv hsound (run_inv hwf hl eqv h h₀) i v

/- `evaluate` never changes an input. -/
theorem C01_evaluate_keeps_inputs (hwf : WF wb) (hl : Local wb f) (eqv : α → α → Bool) (s₀ : State α)
    (h₀ : Inv wb f s₀) (h : List (Op α)) (a : Nat) :
    (run wb f eqv s₀ (h ++ [.eval a])).inp = (run wb f eqv s₀ h).inp := by
  rw [run_append]
  exact (evaluate_spec hwf hl (run_inv hwf hl eqv h h₀) a).inp

/- cells enter the cell map by being evaluated (or by being a precedent of an evaluated cell) and never leave it;
   `set_value` does not change the cell map. -/
theorem C01_built_after_evaluate (hwf : WF wb) (hl : Local wb f) (eqv : α → α → Bool) (s₀ : State α)
    (h₀ : Inv wb f s₀) (h : List (Op α)) (a : Nat) (ha : a < wb.n) :
    (run wb f eqv s₀ (h ++ [.eval a])).built a = true := by
  rw [run_append]
  exact (evaluate_spec hwf hl (run_inv hwf hl eqv h h₀) a).done ha

/-! ## the other public forms of the two calls -/

/- `set_value(<range address | list of cells>, [v…])` (= the cells written one by one, `setMany`) and
   `evaluate([a…])` (`evalMany`) interleaved with the single-cell forms: the same coherence statement over the
   extended histories. -/
theorem C01_coherence_ext (hwf : WF wb) (hl : Local wb f) (eqv : α → α → Bool) (s₀ : State α) (h₀ : Inv wb f s₀)
    (h : List (OpX α)) (a : Nat) (ha : a < wb.n) :
    (evaluate wb f a (runX wb f eqv s₀ h)).1 = denote wb f (runX wb f eqv s₀ h).inp a :=
  (evaluate_spec hwf hl (runX_inv hwf hl eqv h h₀) a).val ha

/- `evaluate([a…])` after any extended history returns the from-scratch value of every address of the list. -/
theorem C01_evaluate_list (hwf : WF wb) (hl : Local wb f) (eqv : α → α → Bool) (s₀ : State α) (h₀ : Inv wb f s₀)
    (h : List (OpX α)) (l : List Nat) (hl' : ∀ a, a ∈ l → a < wb.n) :
    (evalMany wb f l (runX wb f eqv s₀ h)).1 = l.map (denote wb f (runX wb f eqv s₀ h).inp) :=
  (evalMany_spec hwf hl l (runX_inv hwf hl eqv h h₀) hl').1

/- a multi-cell write whose cells are all value cells of the cell map lands every value, in order (sound `eqv`). -/
theorem C01_setMany_inputs (hwf : WF wb) (hl : Local wb f) (eqv : α → α → Bool)
    (hsound : ∀ a b, eqv a b = true → a = b) (i : Nat) (v : α) (r : List (Nat × α)) (s : State α) (h : Inv wb f s)
    (hacc : i < wb.n ∧ wb.kind i = .input ∧ s.built i = true) :
    setMany wb eqv ((i, v) :: r) s = setMany wb eqv r (setValue wb eqv i v s) ∧
      (setValue wb eqv i v s).inp = update s.inp i v := by
  refine ⟨by simp [setMany, hacc], ?_⟩
  rw [setValue_inp hwf hl eqv hsound h i v, if_pos hacc]

/- the reset walk as the code has it since f32e634 passes through an EMPTY RANGE node (the operand ranges of an
   intersection are declared precedents that are never read).  On every state satisfying the invariant it produces
   exactly the state the earlier walk ("stopping at already-empty nodes") produced … -/
theorem C01_reset_passthrough_same_under_inv (hwf : WF wb) (eqv : α → α → Bool) (s : State α) (h : Inv wb f s)
    (i : Nat) (v : α) : setValue wb eqv i v s = setValueOld wb eqv i v s :=
  setValue_eq_old hwf eqv h.closed i v

/-- A1 (value) → range node R = A1:A1' (declared precedent, never read, empty) → F (computed): `Closed` is violated -/
def passWb : Workbook where
  n := 3
  kind := fun i => if i = 1 then .range else if i = 2 then .formula else .input
  deps := fun i => if i = 1 then [0] else if i = 2 then [1] else []

def passState : State Nat where
  inp := fun _ => 0
  cache := fun k => if k = 2 then some 5 else none
  built := fun _ => true
  stored := fun _ => none

/- … and it is strictly more robust on a state that violates `Closed` through such a precedent: the earlier walk
   stops at the empty range node and leaves the computed dependant in place, the code's walk clears it. -/
theorem C01_reset_passthrough_counterexample :
    ¬ Closed passWb passState ∧
    (setValueOld passWb (fun a b => a == b) 0 1 passState).cache 2 = some 5 ∧
    (setValue passWb (fun a b => a == b) 0 1 passState).cache 2 = none := by
  refine ⟨fun h => ?_, by decide, by decide⟩
  have := (h 2 (by decide)).2.2 1 (by decide)
  revert this
  decide

/-! ## the invariant and its preservation (the induction step) -/

/- reset walk (`_reset`, "stopping at already-empty nodes" except empty range nodes): it only clears cache entries, and it removes the
   violation it was called for without creating any other — `Viol P s m` = "m is cached although one of its precedents
   is poisoned (P) or is an uncomputed formula/range". -/
theorem C01_reset_spec (hwf : WF wb) (P : Nat → Prop) (k : Nat) (s : State α) (hb : Bound wb s) :
    Clears s (resetF wb wb.n k s) ∧ ∀ m, Viol wb P (resetF wb wb.n k s) m → Viol wb P s m ∧ m ≠ k :=
  resetF_spec hwf P wb.n k s (by omega) hb

theorem C01_setValue_inv (hwf : WF wb) (hl : Local wb f) (eqv : α → α → Bool) (s : State α) (h : Inv wb f s)
    (i : Nat) (v : α) : Inv wb f (setValue wb eqv i v s) :=
  setValue_inv hwf hl eqv h i v

theorem C01_evaluate_inv (hwf : WF wb) (hl : Local wb f) (s : State α) (h : Inv wb f s) (a : Nat) :
    Inv wb f (evaluate wb f a s).2 :=
  (evaluate_spec hwf hl h a).inv

/-! ## "whichever way the model was obtained" -/

/- "in-memory workbook without stored results" -/
theorem C01_init_nodata_inv (inp : Nat → α) : Inv wb f (initNoData inp) := initNoData_inv inp

/- ".xlsx file with stored results" — the stored results are those of the file's formulas at the file's inputs -/
theorem C01_init_stored_inv (inp : Nat → α) (stored : Nat → Option α) (hc : StoredConsistent wb f inp stored) :
    Inv wb f (initStored inp stored) := initStored_inv inp stored hc

/- "or a deserialized model" -/
theorem C01_init_loaded_inv (hwf : WF wb) (hl : Local wb f) (inp : Nat → α) : Inv wb f (initLoaded wb f inp) :=
  (initLoaded_spec hwf hl inp).1

theorem C01_nodata (hwf : WF wb) (hl : Local wb f) (eqv : α → α → Bool) (inp : Nat → α) (h : List (Op α)) (a : Nat)
    (ha : a < wb.n) :
    (evaluate wb f a (run wb f eqv (initNoData inp) h)).1 =
      denote wb f (run wb f eqv (initNoData inp) h).inp a :=
  C01_coherence hwf hl eqv _ (initNoData_inv inp) h a ha

theorem C01_stored (hwf : WF wb) (hl : Local wb f) (eqv : α → α → Bool) (inp : Nat → α) (stored : Nat → Option α)
    (hc : StoredConsistent wb f inp stored) (h : List (Op α)) (a : Nat) (ha : a < wb.n) :
    (evaluate wb f a (run wb f eqv (initStored inp stored) h)).1 =
      denote wb f (run wb f eqv (initStored inp stored) h).inp a :=
  C01_coherence hwf hl eqv _ (initStored_inv inp stored hc) h a ha

theorem C01_loaded (hwf : WF wb) (hl : Local wb f) (eqv : α → α → Bool) (inp : Nat → α) (h : List (Op α)) (a : Nat)
    (ha : a < wb.n) :
    (evaluate wb f a (run wb f eqv (initLoaded wb f inp) h)).1 =
      denote wb f (run wb f eqv (initLoaded wb f inp) h).inp a :=
  C01_coherence hwf hl eqv _ (initLoaded_spec hwf hl inp).1 h a ha

/- the stored results an `.xlsx` written by Excel holds (everything evaluated once) are consistent -/
theorem C01_stored_by_evaluation (hwf : WF wb) (hl : Local wb f) (eqv : α → α → Bool) (inp : Nat → α) :
    StoredConsistent wb f inp
      (run wb f eqv (initNoData inp) ((List.range wb.n).map Op.eval)).cache := by
  intro j hj hk
  -- after evaluating every node, node j is cached, and what is cached is the from-scratch value (I1)
  have hfin := evalAll_spec hwf hl eqv (List.range wb.n) (initNoData inp) (initNoData_inv (wb := wb) (f := f) inp)
  have hinv := run_inv hwf hl eqv ((List.range wb.n).map Op.eval) (initNoData_inv (wb := wb) (f := f) inp)
  have hc := hfin.2.2 j (List.mem_range.mpr hj) hj (by rw [hk]; simp)
  cases hcj : (run wb f eqv (initNoData inp) ((List.range wb.n).map Op.eval)).cache j with
  | none => exact absurd hcj hc
  | some v =>
    have := hinv.i1 j v hcj
    rw [hfin.1] at this
    rw [this]; rfl

/-! ## the equality test of `set_value` ("for every Excel scalar written: number, text, logical or blank") -/

/- the hypothesis of `C01_inputs_current` cannot be dropped: a test that identifies two different values loses the
   write of one over the other (for any workbook with a value cell 0 in the cell map). -/
theorem C01_eqv_sound_needed (eqv : α → α → Bool) (a b : α) (he : eqv a b = true) (hne : a ≠ b)
    (s : State α) (ha : s.inp 0 = a) :
    (setValue wb eqv 0 b s).inp 0 ≠ b := by
  unfold setValue
  split
  · rw [ha, if_pos he, ha]; exact hne
  · rw [ha]; exact hne

open Pycel.EngineInst in
/- Python's `!=` (what the unchanged `set_value` uses) is not sound: 0 == False. -/
theorem pyEq_not_sound : ¬ ∀ a b : EV, pyEq a b = true → a = b := by
  intro h
  have := h (.sc (.num 0)) (.sc (.bool false)) (by decide)
  exact absurd this (by decide)

open Pycel.EngineInst in
/- the repaired test (same type and same value) is sound. -/
theorem typedEq_sound : ∀ a b : EV, typedEq a b = true → a = b := by
  intro a b h
  simpa [typedEq] using h

open Pycel.EngineInst in
/- concrete witness against the unchanged test: `A1 = 0`, `set_value(A1, FALSE)` is dropped — the current input stays
   0, so every dependant keeps showing the value for 0 (pycel: `=A1&"x"` stays "0x"). -/
theorem C01_pyEq_counterexample :
    let specs : List Spec := [.inp (.num 0), .fml (.cat [0])]
    let s := (evaluate (mkWb specs) (sem specs) 1 (initNoData (inputsOf specs))).2
    (setValue (mkWb specs) pyEq 0 (.sc (.bool false)) s).inp 0 ≠ .sc (.bool false) := by
  intro specs s
  exact C01_eqv_sound_needed pyEq (.sc (.num 0)) (.sc (.bool false)) (by decide) (by decide) s rfl

/-! ## the instance the correspondence driver runs (Drv/C01.lean) -/

section Inst
open Pycel.EngineInst

/- the driver's model — concrete formula language, repaired equality test — is an instance of the theorems above:
   for every workbook description that passes the run-time check `wfCheck` (the driver refuses any other). -/
theorem C01_coherence_inst (specs : List Spec) (hwf : wfCheck specs = true) (s₀ : State EV)
    (h₀ : Inv (mkWb specs) (sem specs) s₀) (h : List (Op EV)) (a : Nat) (ha : a < specs.length) :
    (evaluate (mkWb specs) (sem specs) a (run (mkWb specs) (sem specs) typedEq s₀ h)).1 =
      denote (mkWb specs) (sem specs) (run (mkWb specs) (sem specs) typedEq s₀ h).inp a :=
  C01_coherence (wf_of_check specs hwf) (sem_local specs) typedEq s₀ h₀ h a ha

theorem C01_inputs_current_inst (specs : List Spec) (hwf : wfCheck specs = true) (s₀ : State EV)
    (h₀ : Inv (mkWb specs) (sem specs) s₀) (h : List (Op EV)) (i : Nat) (v : EV) :
    (run (mkWb specs) (sem specs) typedEq s₀ (h ++ [.set i v])).inp =
      if i < (mkWb specs).n ∧ (mkWb specs).kind i = .input ∧
          (run (mkWb specs) (sem specs) typedEq s₀ h).built i = true
      then update (run (mkWb specs) (sem specs) typedEq s₀ h).inp i v
      else (run (mkWb specs) (sem specs) typedEq s₀ h).inp :=
  C01_inputs_current (wf_of_check specs hwf) (sem_local specs) typedEq typedEq_sound s₀ h₀ h i v

/-! ### non-vacuity: the hypotheses are satisfied by a concrete workbook with inputs, formulas and a range -/

/-- A1 = 0, A2 = "a", A3 = A1&"|"&A2&"|", range A1:A3, A4 = INDEX(A1:A3,3,1) -/
def demo : List Spec :=
  [.inp (.num 0), .inp (.str ['a']), .fml (.cat [0, 1]), .rng [[0], [1], [2]], .fml (.idx 3 3 1)]

example : wfCheck demo = true := by decide
example : WF (mkWb demo) := wf_of_check demo (by decide)
example : Local (mkWb demo) (sem demo) := sem_local demo
example : Inv (mkWb demo) (sem demo) (initNoData (inputsOf demo)) := initNoData_inv _
example : Inv (mkWb demo) (sem demo) (initLoaded (mkWb demo) (sem demo) (inputsOf demo)) :=
  C01_init_loaded_inv (wf_of_check demo (by decide)) (sem_local demo) _
example : ∃ stored, StoredConsistent (mkWb demo) (sem demo) (inputsOf demo) stored :=
  ⟨_, C01_stored_by_evaluation (wf_of_check demo (by decide)) (sem_local demo) typedEq _⟩

/- a history on it, executed by the model: evaluate A4, write FALSE over the 0 in A1, evaluate A4 again — the second
   value shows the write (with Python's `==` it would not: `C01_pyEq_counterexample`). -/
example :
    outputs (mkWb demo) (sem demo) typedEq (initNoData (inputsOf demo))
      [.eval 4, .set 0 (.sc (.bool false)), .eval 4] =
    [some (.sc (.str "0|a|".toList)), none, some (.sc (.str "FALSE|a|".toList))] := by decide +kernel

example :
    outputs (mkWb demo) (sem demo) pyEq (initNoData (inputsOf demo))
      [.eval 4, .set 0 (.sc (.bool false)), .eval 4] =
    [some (.sc (.str "0|a|".toList)), none, some (.sc (.str "0|a|".toList))] := by decide +kernel

/-- an equality test with a tolerance (what `close_enough` does: relative 1e-5), as a candidate for `eqv` -/
def tolEq : EV → EV → Bool
  | .sc (.num a), .sc (.num b) =>
    let d := if a ≤ b then b - a else a - b
    let m := if a ≤ b then b else a
    decide (d * 100000 ≤ m)
  | a, b => decide (a = b)

/- a tolerant test is not sound either (1000000 vs 1000001), so by `C01_eqv_sound_needed` it loses writes. -/
theorem tolEq_not_sound : ¬ ∀ a b : EV, tolEq a b = true → a = b := by
  intro h
  have := h (.sc (.num 1000000)) (.sc (.num 1000001)) (by decide +kernel)
  exact absurd this (by decide +kernel)

/-! ### the two other corrections of the model are forced as well (the unchanged code, as a variant) -/

/-- `set_value` as the unchanged code had it (excelcompiler.py 452-461 before the `fix:` commits): the stored results
    stay in use, and when the written value is blank the reset walk stops at the written cell itself
    (`if cell.needs_calc: return`).  Only used by the two counterexamples below. -/
def setValueAsWritten (wb : Workbook) (eqv : α → α → Bool) (isBlank : α → Bool) (i : Nat) (v : α) (s : State α) :
    State α :=
  if i < wb.n ∧ wb.kind i = .input ∧ s.built i = true then
    if eqv (s.inp i) v = true then s
    else if isBlank v then { s with inp := update s.inp i v }
    else (succs wb i).foldl (resetStepG (fun _ => false) (resetFOld wb wb.n)) { s with inp := update s.inp i v }
  else s

def isBlankEV : EV → Bool
  | .sc .blank => true
  | _ => false

/- `set_value(A1, None)` with the walk stopping at the emptied cell: A1 = 5, B1 = A1&"|"; B1 stays "5|". -/
theorem C01_blank_write_counterexample :
    let specs : List Spec := [.inp (.num 5), .fml (.cat [0])]
    let s1 := (evaluate (mkWb specs) (sem specs) 1 (initNoData (inputsOf specs))).2
    let s2 := setValueAsWritten (mkWb specs) typedEq isBlankEV 0 (.sc .blank) s1
    (evaluate (mkWb specs) (sem specs) 1 s2).1 ≠ denote (mkWb specs) (sem specs) s2.inp 1 := by
  decide +kernel

/- `.xlsx` with stored results kept after a write: A1 = 5, B1 = A1&"|" stored "5|"; evaluate(A1), set_value(A1, 7),
   first evaluate(B1) returns the stored "5|". -/
theorem C01_stale_stored_counterexample :
    let specs : List Spec := [.inp (.num 5), .fml (.cat [0])]
    let wb := mkWb specs
    let s0 := initStored (inputsOf specs) (fun j => if j = 1 then some (denote wb (sem specs) (inputsOf specs) 1) else none)
    let s1 := (evaluate wb (sem specs) 0 s0).2
    let s2 := setValueAsWritten wb typedEq isBlankEV 0 (.sc (.num 7)) s1
    (evaluate wb (sem specs) 1 s2).1 ≠ denote wb (sem specs) s2.inp 1 := by
  decide +kernel

end Inst

end Pycel.Engine

/-
  C20 — Text functions: slicing partitions, search is first-match, TEXT is decimal-exact.

  Statement (properties.jsonl): "For every text s and positions n, k: LEFT(s,n) & MID(s,n+1,LEN(s)) = s, RIGHT(s,k)
  is the last k characters, REPLACE(s,n,k,t) = LEFT(s,n-1) & t & MID(s,n+k,LEN(s)), FIND returns the first position p
  with MID(s,p,LEN(f)) = f or #VALUE!, SUBSTITUTE replaces all or exactly the i-th occurrence, CONCATENATE and &
  agree, TRIM leaves single inner spaces and none at the ends, UPPER/LOWER/TRIM are idempotent and EXACT is
  case-sensitive equality. The slicing functions treat numbers as their Excel rendering (3, not 3.0) and give
  #VALUE! for negative counts; TEXT(x, f) for formats made of 0 # , . % renders the half-away-from-zero decimal
  rounding of x with the requested digits, grouping and percent scaling."

  Models: Pycel/Model/TextFns.lean (lib/text.py), Pycel/Model/TextFormat.lean (TextFormat._number_converter).
  Texts are arbitrary `List Char`, positions arbitrary `Int`: no length bound anywhere below.
  In the core functions `none` stands for #VALUE!.
-/
import Pycel.Lemmas.TextFns
import Pycel.Lemmas.TextFormat
import Pycel.Generated.TextMeta

namespace Pycel.TextFns
open Pycel Pycel.Ops

/-! ### the live `excel_helper` metadata is the one the wrappers of Model/TextFns.lean hard-wire -/

/-- regenerated from `getattr(f, 'excel_func_meta')` on every run: which positions are coerced to text / to numbers.
    The wrappers `LEFT … TEXT` coerce exactly these positions; a change of the decorators breaks this theorem. -/
theorem C20_meta_table :
    Gen.TextMeta.left = ⟨[0], [1], [0, 1], false, true, 2⟩ ∧
    Gen.TextMeta.right = ⟨[0], [1], [0, 1], false, true, 2⟩ ∧
    Gen.TextMeta.mid = ⟨[0], [1, 2], [], true, true, 3⟩ ∧
    Gen.TextMeta.replace = ⟨[0, 3], [1, 2], [], true, true, 4⟩ ∧
    Gen.TextMeta.find = ⟨[0, 1], [2], [0, 1, 2], false, true, 3⟩ ∧
    Gen.TextMeta.substitute = ⟨[0, 1, 2], [], [], true, true, 4⟩ ∧
    Gen.TextMeta.trim = ⟨[0], [], [0], false, true, 1⟩ ∧
    Gen.TextMeta.upper = ⟨[0], [], [0], false, true, 1⟩ ∧
    Gen.TextMeta.lower = ⟨[0], [], [0], false, true, 1⟩ ∧
    Gen.TextMeta.exact = ⟨[0, 1], [], [0, 1], false, true, 2⟩ ∧
    Gen.TextMeta.len_ = ⟨[], [], [0], false, true, 1⟩ ∧
    Gen.TextMeta.text = ⟨[1], [], [0], false, true, 2⟩ ∧
    Gen.TextMeta.concat_undecorated = true ∧ Gen.TextMeta.concatenate_undecorated = true := by
  decide

/-! ### slicing -/

/-- "LEFT(s,n) & MID(s,n+1,LEN(s)) = s" — for every text and every count n ≥ 0 (n beyond LEN(s) included). -/
theorem C20_left_mid (s : Text) (n : Int) (hn : 0 ≤ n) :
    ∃ a b, left s n = some a ∧ mid s (n + 1) s.length = some b ∧ a ++ b = s :=
  left_mid s n hn

/-- "RIGHT(s,k) is the last k characters": a suffix of s … -/
theorem C20_right (s : Text) (k : Int) (hk : 0 ≤ k) :
    ∃ r, right s k = some r ∧ r <:+ s ∧ r.length = min k.toNat s.length :=
  right_spec s k hk

/-- … of length k (all of s when k exceeds its length); with `C20_right` this determines the result. -/
theorem C20_right_length (s : Text) (k : Int) (hk : 0 ≤ k) (hl : k ≤ s.length) :
    ∃ r, right s k = some r ∧ (r.length : Int) = k ∧ ∃ a, a ++ r = s := by
  obtain ⟨r, h1, h2, h3⟩ := right_spec s k hk
  refine ⟨r, h1, by omega, h2⟩

/-- "REPLACE(s,n,k,t) = LEFT(s,n-1) & t & MID(s,n+k,LEN(s))" — every start n ≥ 1 and count k ≥ 0. -/
theorem C20_replace (s t : Text) (n k : Int) (hn : 1 ≤ n) (hk : 0 ≤ k) :
    ∃ a b, left s (n - 1) = some a ∧ mid s (n + k) s.length = some b ∧ replace s n k t = some (a ++ t ++ b) :=
  replace_spec s t n k hn hk

/-- "give #VALUE! for negative counts" (and for a start position below 1). -/
theorem C20_negative_counts (s t : Text) (p k : Int) :
    (k < 0 → left s k = none ∧ right s k = none ∧ mid s p k = none ∧ replace s p k t = none) ∧
    (p < 1 → mid s p k = none ∧ replace s p k t = none) := by
  constructor
  · intro h; simp [left, right, mid, replace, h]
  · intro h; simp [mid, replace, h]

/-! ### FIND -/

/-- "FIND returns the first position p with MID(s,p,LEN(f)) = f": a returned p is at or after start_num, the
    occurrence lies inside s, MID reads f there, and no earlier position from start_num on does. -/
theorem C20_find_first (f s : Text) (start p : Int) (h : find f s start = some p) :
    1 ≤ start ∧ start ≤ p ∧ p + f.length ≤ s.length + 1 ∧ mid s p f.length = some f ∧
      ∀ q, start ≤ q → q < p → mid s q f.length ≠ some f :=
  find_first f s start p h

/-- "or #VALUE!": only when start_num < 1 or no position from start_num on holds f. -/
theorem C20_find_none (f s : Text) (start : Int) (h : find f s start = none) :
    start < 1 ∨ ∀ q, start ≤ q → q + f.length ≤ s.length + 1 → mid s q f.length ≠ some f :=
  find_none f s start h

/-- conversely an occurrence at or after a legal start_num is always found. -/
theorem C20_find_complete (f s : Text) (start : Int) (hs : 1 ≤ start)
    (h : ∃ q, start ≤ q ∧ q + f.length ≤ s.length + 1 ∧ mid s q f.length = some f) :
    ∃ p, find f s start = some p :=
  find_complete f s start hs h

/-! ### SUBSTITUTE — reference: leftmost non-overlapping occurrences (`findIdx` = first occurrence, see C20_find_*) -/

/-- "SUBSTITUTE replaces all": no occurrence, nothing changes … -/
theorem C20_substitute_all_none (old new s : Text) (h : findIdx old s = none) : substAll old new s = s :=
  substAll_none old new s h

/-- … and with a first occurrence at index i the text before it is kept, the occurrence becomes `new`, and the
    rest AFTER the occurrence is treated the same way (so occurrences never overlap).  These two equations
    determine `substAll` (induction on the length). -/
theorem C20_substitute_all_first (old new s : Text) (ho : old ≠ []) (i : Nat) (h : findIdx old s = some i) :
    substAll old new s = s.take i ++ new ++ substAll old new (s.drop (i + old.length)) :=
  substAll_first old new s ho i h

/-- "or exactly the i-th occurrence": instance 1 replaces the first occurrence only … -/
theorem C20_substitute_nth_first (old new s : Text) (ho : old ≠ []) (i : Nat) (h : findIdx old s = some i) :
    substNth old new s 1 = s.take i ++ new ++ s.drop (i + old.length) := by
  simp [substNth, ho, substNthF, h]

/-- … instance n+1 keeps everything up to the end of the first occurrence and replaces instance n of the rest … -/
theorem C20_substitute_nth_next (old new s : Text) (ho : old ≠ []) (n i : Nat) (hn : 1 ≤ n)
    (h : findIdx old s = some i) :
    substNth old new s (n + 1) = s.take (i + old.length) ++ substNth old new (s.drop (i + old.length)) n := by
  obtain ⟨m, rfl⟩ : ∃ m, n = m + 1 := ⟨n - 1, by omega⟩
  simp [substNth, ho, substNthF, h]

/-- … and when the occurrences run out the text is returned unchanged. -/
theorem C20_substitute_nth_none (old new s : Text) (n : Nat) (h : findIdx old s = none) :
    substNth old new s n = s := by
  unfold substNth
  split
  · rfl
  · cases n - 1 <;> simp [substNthF, h]

/-- an empty old_text has no occurrences (Excel): nothing is replaced. -/
theorem C20_substitute_empty (new s : Text) (n : Nat) : substAll [] new s = s ∧ substNth [] new s n = s := by
  simp [substAll, substNth]

/-! ### CONCATENATE and & -/

/-- "CONCATENATE and & agree" — on every pair of scalars (texts, numbers, logicals, blanks, error values). -/
theorem C20_concat_amp (a b : Val) : CONCATENATE [a, b] = AMP a b := by
  cases a <;> cases b <;> simp [CONCATENATE, AMP, renderVal]

/-- n-ary CONCATENATE is the right fold of & over its arguments. -/
theorem C20_concat_cons (v : Val) (vs : List Val) : CONCATENATE (v :: vs) = AMP v (CONCATENATE vs) :=
  concat_cons v vs

/-! ### TRIM -/

/-- "none at the ends": the result neither starts nor ends with a space. -/
theorem C20_trim_ends (s : Text) : (trim s).head? ≠ some ' ' ∧ (trim s).getLast? ≠ some ' ' := by
  by_cases h : trim s = []
  · simp [h]
  · have hn := nil_not_mem_split_trim s h
    exact ⟨fun e => hn (nil_mem_split_of_head e), fun e => hn (nil_mem_split_of_last e)⟩

/-- "TRIM leaves single inner spaces": two adjacent spaces occur nowhere in the result. -/
theorem C20_trim_single (s : Text) : ¬ [' ', ' '] <:+: trim s := by
  intro hd
  by_cases h : trim s = []
  · rw [h] at hd
    obtain ⟨a, b, hab⟩ := hd
    have := congrArg List.length hab
    simp at this
  · exact nil_not_mem_split_trim s h (nil_mem_split_of_double hd)

/-- the inner words are preserved, in order; and the result is those words joined by single spaces. -/
theorem C20_trim_words (s : Text) : words (trim s) = words s ∧ trim s = joinSp (words s) :=
  ⟨words_joinSp _ (words_isWord s), rfl⟩

/-- "UPPER/LOWER/TRIM are idempotent" — TRIM. -/
theorem C20_trim_idem (s : Text) : trim (trim s) = trim s := by
  show joinSp (words (trim s)) = trim s
  rw [(C20_trim_words s).1]; rfl

/-! ### UPPER / LOWER (ASCII and Latin-1 letters, `Ops.upper` / `Ops.lower`) -/

/-- "UPPER/LOWER/TRIM are idempotent" — UPPER. -/
theorem C20_upper_idem (s : Text) : upper (upper s) = upper s := by
  simp [upper, List.map_map, Function.comp_def, upperChar_idem]

/-- "UPPER/LOWER/TRIM are idempotent" — LOWER. -/
theorem C20_lower_idem (s : Text) : lower (lower s) = lower s := by
  simp [lower, List.map_map, Function.comp_def, lowerChar_idem]

/-! ### EXACT -/

/-- "EXACT is case-sensitive equality": TRUE exactly when the two texts are the same character sequence. -/
theorem C20_exact (a b : Text) : exact a b = true ↔ a = b := by
  simp [exact]

/-- case matters: a text containing a lower-case ASCII letter is never EXACT-equal to its upper-casing. -/
theorem C20_exact_case (s : Text) (h : ∃ c ∈ s, 97 ≤ c.toNat ∧ c.toNat ≤ 122) : exact s (upper s) = false := by
  obtain ⟨c, hc, h1, h2⟩ := h
  have : s ≠ upper s := by
    intro e
    have hm : ∀ (l : Text), l = l.map upperChar → ∀ x ∈ l, upperChar x = x := by
      intro l
      induction l with
      | nil => intro _ x hx; simp at hx
      | cons a l ih =>
        intro hl x hx
        simp only [List.map_cons, List.cons.injEq] at hl
        rcases List.mem_cons.mp hx with h | h
        · rw [h]; exact hl.1.symm
        · exact ih hl.2 x h
    have hm := hm s e
    have := hm c hc
    unfold upperChar at this
    simp only [] at this
    have hin : (97 ≤ c.toNat ∧ c.toNat ≤ 122) ∨ (224 ≤ c.toNat ∧ c.toNat ≤ 254 ∧ c.toNat ≠ 247) := Or.inl ⟨h1, h2⟩
    simp only [hin, ↓reduceIte] at this
    have h3 := congrArg Char.toNat this
    rw [toNat_ofNat_small _ (by omega)] at h3
    omega
  simpa [exact] using this

/-! ### argument handling -/

theorem pyTrunc_int (i : Int) : pyTrunc (i : Rat) = i := by
  unfold pyTrunc
  split
  · exact Rat.floor_intCast i
  · exact Rat.ceil_intCast i

theorem intCast_neg_iff (i : Int) : ((i : Rat) < 0) ↔ i < 0 := by
  have : (0 : Rat) = ((0 : Int) : Rat) := by simp
  rw [this]; simp only [Rat.intCast_lt_intCast]

theorem intCast_lt_one_iff (i : Int) : ((i : Rat) < 1) ↔ i < 1 := by
  have : (1 : Rat) = ((1 : Int) : Rat) := by simp
  rw [this]; simp only [Rat.intCast_lt_intCast]

/-- "The slicing functions treat numbers as their Excel rendering (3, not 3.0)": an integer-valued number used as
    text is its decimal numeral — an optional '-' and digits, no point — whichever way it arrived (int or float are
    the same `Val.num`), and LEFT/LEN of the number are LEFT/LEN of that numeral. -/
theorem C20_number_rendering (i : Int) (n : Option Val) :
    strArg (.num (i : Rat)) = .ok (intRepr i) ∧
    (∀ c ∈ intRepr i, c = '-' ∨ c.isDigit = true) ∧
    LEFT (.num (i : Rat)) n = LEFT (.str (intRepr i)) n ∧
    LEN (.num (i : Rat)) = .num ((intRepr i).length : Rat) := by
  have h1 : strArg (.num (i : Rat)) = .ok (intRepr i) := by
    simp [strArg, coerceToString, renderVal, renderNum]
  refine ⟨h1, ?_, ?_, ?_⟩
  · intro c hc
    unfold intRepr at hc
    split at hc
    · rcases List.mem_cons.mp hc with h | h
      · exact Or.inl h
      · exact Or.inr (Nat.isDigit_of_mem_toDigits (by omega) (by omega) h)
    · exact Or.inr (Nat.isDigit_of_mem_toDigits (by omega) (by omega) hc)
  · simp only [LEFT, h1]
    simp [strArg, coerceToString]
  · simp [LEN, renderVal, renderNum]

/-- On a text and integer positions the `excel_helper`-wrapped functions are the core functions above
    (`optText none` = #VALUE!): the theorems of this file are statements about what LEFT … FIND return. -/
theorem C20_wrapper_text (s t f : Text) (n k : Int) :
    LEFT (.str s) (some (.num n)) = optText (left s n) ∧
    RIGHT (.str s) (some (.num n)) = optText (right s n) ∧
    MID (.str s) (.num n) (.num k) = optText (mid s n k) ∧
    REPLACE (.str s) (.num n) (.num k) (.str t) = optText (replace s n k t) ∧
    FIND (.str f) (.str s) (some (.num n)) = (match find f s n with | none => .err .value | some p => .num (p : Rat)) ∧
    TRIM (.str s) = .str (trim s) ∧ UPPER (.str s) = .str (upper s) ∧ LOWER (.str s) = .str (lower s) ∧
    EXACT (.str s) (.str t) = .bool (exact s t) ∧
    SUBSTITUTE (.str s) (.str f) (.str t) none = .str (substAll f t s) := by
  have hs : ∀ x : Text, strArg (.str x) = .ok x := fun x => rfl
  have hn : ∀ x : Int, num1 (.num (x : Rat)) = .ok (x : Rat) := fun x => rfl
  have hn2 : num2 (.num (n : Rat)) (.num (k : Rat)) = .ok ((n : Rat), (k : Rat)) := rfl
  refine ⟨?_, ?_, ?_, ?_, ?_, rfl, rfl, rfl, rfl, rfl⟩
  · simp only [LEFT, hs, Option.getD_some, hn, intCast_neg_iff, pyTrunc_int]
    unfold left; split <;> rfl
  · simp only [RIGHT, hs, Option.getD_some, hn, intCast_neg_iff, pyTrunc_int]
    unfold right; split <;> rfl
  · simp only [MID, hs, hn2, intCast_neg_iff, intCast_lt_one_iff, pyTrunc_int]
    unfold mid; split <;> rfl
  · simp only [REPLACE, hs, hn2, pyTrunc_int]
  · simp only [FIND, hs, Option.getD_some, hn, pyTrunc_int]
    cases find f s n <;> rfl

-- non-vacuity and concrete instances (texts with repeats, spaces and a multi-byte character)
example : left "a€b".toList 2 = some "a€".toList ∧ mid "a€b".toList 3 3 = some "b".toList := by decide
example : right "a€b".toList 2 = some "€b".toList ∧ right "ab".toList 0 = some [] ∧ right "ab".toList 7 = some "ab".toList := by
  decide
example : replace "abcd".toList 2 2 "XY€".toList = some "aXY€d".toList := by decide
example : find "a".toList "aba".toList 2 = some 3 ∧ find "a".toList "aba".toList 0 = none ∧
    find "ab".toList "aab".toList 1 = some 2 ∧ find [] "abc".toList 4 = some 4 ∧ find [] "abc".toList 5 = none := by decide
example : substAll "aa".toList "x".toList "aaa".toList = "xa".toList ∧
    substNth "aa".toList "x".toList "aaaa".toList 2 = "aax".toList ∧
    substNth "a".toList "X".toList "abcabc".toList 3 = "abcabc".toList := by decide
example : trim " a  b ".toList = "a b".toList ∧ trim "  ".toList = [] ∧ words " a  b€ ".toList = ["a".toList, "b€".toList] := by
  decide
example : findIdx "b".toList "abc".toList = some 1 ∧ findIdx "x".toList "abc".toList = none := by decide
example : exact "a".toList "A".toList = false ∧ exact "a€".toList "a€".toList = true := by decide
example : ∃ c ∈ "Word".toList, 97 ≤ c.toNat ∧ c.toNat ≤ 122 := ⟨'o', by decide, by decide, by decide⟩

end Pycel.TextFns

namespace Pycel.TextFormat
open Pycel Pycel.Ops

/-! ### TEXT(x, f): "renders the half-away-from-zero decimal rounding of x with the requested digits, grouping and
    percent scaling".  For a canonical format F (`parseFmt`) with d = F.decimals decimals and p = F.percents percent
    signs, N / D with N = scaledNum F x = |num x| · 100^p · 10^d and D = den x is |x| · 100^p in units of 10^-d. -/

/-- the rounded count r of units 10^-d is the nearest integer to N / D:  N/D − 1/2 < r ≤ N/D + 1/2, i.e.
    |x|·100^p is rounded to d decimals to nearest, and an exact tie goes up in magnitude (away from zero).
    The model is a pure function of (x, format): the statement has no proviso about the calling thread or about any
    ambient state of the caller (Python's `decimal.getcontext()` is per thread and caller-settable), so the
    implementation may depend on neither; the correspondence run therefore repeats the tie-rich TEXT cases and a
    slice of every other function on a brand-new `threading.Thread` and under a hostile ambient decimal context
    (6 digits, half-even, all signals trapped) and compares with this same model. -/
theorem C20_text_round (F : Fmt) (x : Rat) :
    2 * x.den * rounded F x ≤ 2 * scaledNum F x + x.den ∧
    2 * scaledNum F x + x.den < 2 * x.den * (rounded F x + 1) :=
  roundHalfUp_bounds _ _ x.den_pos

/-- N / D really is the value to be rounded: |x| · 100^p · 10^d as an exact rational (p = percent signs, d = decimals) -/
theorem C20_text_scaled (F : Fmt) (x : Rat) :
    ((scaledNum F x : Nat) : Rat) / (x.den : Rat) = absR x * (100 : Rat) ^ F.percents * (10 : Rat) ^ F.decimals :=
  scaled_value F x

/-- ties: when N / D lies exactly half-way between m and m + 1 the result is m + 1 (half away from zero, as the sign
    is applied to the magnitude afterwards); an exactly representable value is not changed. -/
theorem C20_text_tie (F : Fmt) (x : Rat) (m : Nat) :
    (2 * scaledNum F x = x.den * (2 * m + 1) → rounded F x = m + 1) ∧
    (scaledNum F x = x.den * m → rounded F x = m) := by
  constructor
  · exact roundHalfUp_tie _ _ m x.den_pos
  · intro h; unfold rounded; rw [h]; exact roundHalfUp_exact _ m x.den_pos

theorem comma_not_mem_intDigits (w n : Nat) : ',' ∉ zpadLeft w (intDigits n) := by
  intro h
  unfold zpadLeft at h
  rcases List.mem_append.mp h with h | h
  · have := (List.mem_replicate.mp h).2
    exact absurd this (by decide)
  · unfold intDigits at h
    split at h
    · simp at h
    · have := digits_isDigit n _ h
      exact absurd this (by decide)

/-- "with the requested digits": the integer part of the output, commas removed, is a decimal numeral of
    r / 10^d (the integer part of the rounded value), with at least as many digits as there are `0` placeholders. -/
theorem C20_text_digits (F : Fmt) (r : Nat) :
    Nat.ofDigitChars 10 ((intPart F r).filter (· ≠ ',')) 0 = r / 10 ^ F.decimals ∧
    F.zeros ≤ ((intPart F r).filter (· ≠ ',')).length := by
  have hc := comma_not_mem_intDigits F.zeros (r / 10 ^ F.decimals)
  have hf : (intPart F r).filter (· ≠ ',') = zpadLeft F.zeros (intDigits (r / 10 ^ F.decimals)) := by
    unfold intPart
    split
    · exact group3_filter _ hc
    · apply List.filter_eq_self.mpr
      intro a ha
      have : a ≠ ',' := fun e => hc (e ▸ ha)
      simpa using this
  rw [hf]
  exact ⟨by rw [zpadLeft_value, intDigits_value], zpadLeft_length_ge _ _⟩

/-- the fraction digits: exactly d digits denoting r mod 10^d, from which only trailing zeros are removed (and
    zeros put back up to the number of `0` placeholders), so the printed fraction denotes the same value. -/
theorem C20_text_frac_digits (F : Fmt) (r : Nat) (hd : 0 < F.decimals) :
    let t := zpadLeft F.decimals (digits (r % 10 ^ F.decimals))
    t.length = F.decimals ∧ Nat.ofDigitChars 10 t 0 = r % 10 ^ F.decimals ∧
    (∃ k, t = stripTrailing0 t ++ List.replicate k '0') ∧
    fracPart F r = zpadRight F.fz (stripTrailing0 t) := by
  refine ⟨?_, ?_, stripTrailing0_spec _, rfl⟩
  · apply zpadLeft_length
    exact digits_length_le _ _ hd (Nat.mod_lt _ (Nat.pow_pos (by omega)))
  · rw [zpadLeft_value, digits_value]

/-- "grouping": with a thousands comma in the format, the commas of the integer part stand exactly at every fourth
    position counted from its right end (… d,ddd,ddd), and removing them gives back the digits (C20_text_digits). -/
theorem C20_text_grouping (F : Fmt) (r : Nat) (ht : F.thousands = true) (i : Nat) :
    ((intPart F r).reverse[i]? = some ',' ↔ i < (intPart F r).length ∧ i % 4 = 3) := by
  unfold intPart
  simp only [ht, ↓reduceIte, group3, List.reverse_reverse]
  have hc := comma_not_mem_intDigits F.zeros (r / 10 ^ F.decimals)
  have := group3Rev_comma (zpadLeft F.zeros (intDigits (r / 10 ^ F.decimals))).reverse (by simpa using hc) 0 i
    (by omega)
  simpa using this

/-- "percent scaling": each percent sign of the format multiplies the value by 100 before rounding. -/
theorem C20_text_percent (F : Fmt) (x : Rat) :
    scaledNum F x = x.num.natAbs * 100 ^ (F.pre + F.post) * 10 ^ F.decimals ∧
    scaledNum { F with post := F.post + 1 } x = 100 * scaledNum F x := by
  constructor
  · rfl
  · simp only [scaledNum, Fmt.percents, Fmt.decimals]
    rw [← Nat.add_assoc, Nat.pow_succ]
    simp only [Nat.mul_comm, Nat.mul_left_comm]

/-- the shape of the result: sign, leading percent signs, integer part, point and fraction, trailing percent signs -/
theorem C20_text_shape (F : Fmt) (fmt : Text) (x : Rat) (h : F.noNumber = false) :
    textNum F fmt x = (if x < 0 then ['-'] else []) ++ pct F.pre ++ intPart F (rounded F x) ++
      (if F.dot then '.' :: fracPart F (rounded F x) else []) ++ pct F.post := by
  simp [textNum, h]

-- non-vacuity: formats of the grammar, the classic ties
example : parseFmt "#,##0.00%".toList = some ⟨0, 3, 1, true, true, 2, 0, 1⟩ := by decide
example : parseFmt "0".toList = some ⟨0, 0, 1, false, false, 0, 0, 0⟩ ∧ parseFmt "0,,".toList = none ∧
    parseFmt "0.#0".toList = none := by decide
-- 2.5 with "0": N = 5, D = 2 is the tie between 2 and 3 -> 3;  0.125 with "0.00": N = 100, D = 8 -> 13
example : roundHalfUp 5 2 = 3 ∧ roundHalfUp 100 8 = 13 ∧ roundHalfUp 2850 100 = 29 := by decide
example : intPart ⟨0, 3, 1, true, false, 0, 0, 0⟩ 1234567 = "1,234,567".toList := by decide
example : fracPart ⟨0, 0, 1, false, true, 1, 2, 0⟩ 12500 = "5".toList ∧
    fracPart ⟨0, 0, 1, false, true, 2, 0, 0⟩ 1205 = "05".toList := by decide

end Pycel.TextFormat

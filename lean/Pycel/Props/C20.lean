/- C20: property theorems (not built yet). -/

/-
  C17 — "Date serial numbers form Excel's 1900 calendar": property theorems about the model
  Pycel/Model/DateTime.lean (calendar lemmas: Lemmas/DateCal.lean, helpers: Lemmas/DateTime.lean).
  Each theorem quotes the sentence of the property statement it encodes.  All statements are for ALL integers /
  rationals in the stated range; nothing is proved by enumeration of days.
-/
import Pycel.Lemmas.DateTime
namespace Pycel.DateTime
open Pycel

/-- the generated constants (read live from pycel.lib.date_time) are the ones the theorems talk about:
    DATE_ZERO = 1899-12-30, DATE_MAX_INT = 9999-12-31 + 1, the fictitious leap day 60 = 1900-02-29 -/
theorem C17_consts :
    zeroOrd = ord 1899 12 30 ∧ maxInt = ord 9999 12 31 - zeroOrd + 1 ∧ maxInt = 2958466 ∧ leapSerial = 60 ∧
    ((Gen.leapY : Int), (Gen.leapM : Int), (Gen.leapD : Int)) = (1900, 2, 29) ∧ (Gen.dateZeroY : Int) = 1899 := by
  decide


/-- the calendar round trip for EVERY integer day number (no bound): `ord (ymd n) = n` … -/
theorem C17_ord_ymd (n : Int) : ord (ymd n).1 (ymd n).2.1 (ymd n).2.2 = n := ord_ymd n

/-- … `ymd n` is always a legal (year, month, day) … -/
theorem C17_ymd_valid (n : Int) : validYmd (ymd n).1 (ymd n).2.1 (ymd n).2.2 := ymd_valid n

/-- … and conversely every legal triple is recovered from its day number (the calendar is a bijection) -/
theorem C17_ymd_ord (y m d : Int) (h : validYmd y m d) : ymd (ord y m d) = (y, m, d) := ymd_ord y m d h

/-- "day 60 is the fictitious 1900-02-29" -/
theorem C17_day60 : dateFromInt 60 = (1900, 2, 29) := by decide
/-- "day 0 is 1900-01-00" -/
theorem C17_day0 : dateFromInt 0 = (1900, 1, 0) := by decide

/-- "for n > 60 the parts are those of the proleptic Gregorian date 1899-12-30 + n" -/
theorem C17_gregorian (n : Int) (h : 60 < n) :
    dateFromInt n = ymd (ord 1899 12 30 + n) ∧
    validYmd (dateFromInt n).1 (dateFromInt n).2.1 (dateFromInt n).2.2 ∧
    ord (dateFromInt n).1 (dateFromInt n).2.1 (dateFromInt n).2.2 = ord 1899 12 30 + n := by
  have hz : zeroOrd = ord 1899 12 30 := by decide
  have hl : leapSerial = 60 := by decide
  have e : dateFromInt n = ymd (ord 1899 12 30 + n) := by
    unfold dateFromInt
    rw [hl, ← hz]
    rw [if_neg (by omega), if_neg (by omega), if_neg (by omega)]
  rw [e]
  exact ⟨rfl, ymd_valid _, ord_ymd _⟩

/-- days 1 … 59 are 1900-01-01 … 1900-02-28 -/
theorem C17_days_1_59 (n : Int) (h1 : 1 ≤ n) (h2 : n ≤ 59) :
    dateFromInt n = (if n ≤ 31 then (1900, 1, n) else (1900, 2, n - 31)) := by
  have hz : zeroOrd = 693594 := by decide
  have hl : leapSerial = 60 := by decide
  unfold dateFromInt
  rw [hl, if_neg (by omega), if_neg (by omega), if_pos (by omega)]
  split
  · have hv : validYmd 1900 1 n := by
      refine ⟨by omega, by omega, by omega, ?_⟩
      rw [isLeap_1900]; simp [dim, Gen.daysInMonth]; omega
    have ho : ord 1900 1 n = zeroOrd + n + 1 := by
      rw [ord_day]; rw [hz]; have : ord 1900 1 1 = 693596 := by decide
      omega
    rw [← ho, ymd_ord _ _ _ hv]
  · have hv : validYmd 1900 2 (n - 31) := by
      refine ⟨by omega, by omega, by omega, ?_⟩
      rw [isLeap_1900]; simp [dim, Gen.daysInMonth]; omega
    have ho : ord 1900 2 (n - 31) = zeroOrd + n + 1 := by
      rw [ord_day]; rw [hz]; have : ord 1900 2 1 = 693627 := by decide
      omega
    rw [← ho, ymd_ord _ _ _ hv]

/-- "For every serial day n from 0 to 2958465, DATE(YEAR(n), MONTH(n), DAY(n)) = n" -/
theorem C17_roundtrip (n : Int) (h0 : 0 ≤ n) (h1 : n ≤ 2958465) :
    ∃ y m d : Int, yearFn (n : Rat) = .num (y : Rat) ∧ monthFn (n : Rat) = .num (m : Rat) ∧
      dayFn (n : Rat) = .num (d : Rat) ∧ dateFn y m d = .num (n : Rat) := by
  have hm : maxInt = 2958466 := by decide
  refine ⟨(dateFromInt n).1, (dateFromInt n).2.1, (dateFromInt n).2.2, ?_, ?_, ?_, ?_⟩
  · simp [yearFn, serialArg_int n h0 (by omega)]
  · simp [monthFn, serialArg_int n h0 (by omega)]
  · simp [dayFn, serialArg_int n h0 (by omega)]
  · by_cases h60 : 60 < n
    · obtain ⟨_, hv, ho⟩ := C17_gregorian n h60
      have hz : zeroOrd = ord 1899 12 30 := by decide
      rw [← hz] at ho
      exact dateFn_after hv (before_or_after hv n (by omega) ho) n ho (by omega)
    · by_cases hn0 : n = 0
      · subst hn0; decide
      · by_cases hn60 : n = 60
        · subst hn60; decide
        · rw [C17_days_1_59 n (by omega) (by omega)]
          have hz : zeroOrd = 693594 := by decide
          have x1 : xlSerial 1900 1 1 = 1 := by decide
          have x2 : xlSerial 1900 2 1 = 32 := by decide
          split
          · show dateFn 1900 1 n = _
            unfold dateFn
            rw [if_neg (by omega), dateSerial_std _ _ _ (by omega) (by omega) (by omega), x1, inRange,
              if_pos (by omega)]
            congr 2; omega
          · show dateFn 1900 2 (n - 31) = _
            unfold dateFn
            rw [if_neg (by omega), dateSerial_std _ _ _ (by omega) (by omega) (by omega), x2, inRange,
              if_pos (by omega)]
            congr 2; omega


/-! ### WEEKDAY -/

/-- "WEEKDAY has period 7" -/
theorem C17_weekday_period (n : Int) (h0 : 0 ≤ n) (h1 : n + 7 < maxInt) :
    weekdayFn ((n + 7 : Int) : Rat) = weekdayFn (n : Rat) ∧ weekdayOf (n + 7) = weekdayOf n := by
  have e : weekdayOf (n + 7) = weekdayOf n := by unfold weekdayOf; omega
  refine ⟨?_, e⟩
  simp only [weekdayFn, serialArg_int n h0 (by omega), serialArg_int (n + 7) (by omega) h1, e]

theorem C17_weekday_succ (n : Int) : weekdayOf (n + 1) = weekdayOf n % 7 + 1 := by
  unfold weekdayOf; omega

theorem C17_weekday_range (n : Int) : 1 ≤ weekdayOf n ∧ weekdayOf n ≤ 7 := by
  unfold weekdayOf; omega

/-! ### DATE carrying -/

/-- "DATE normalises out-of-range … days by carrying": consecutive days, for every integer day -/
theorem C17_carry_day (y m d : Int) : dateSerial y m (d + 1) = dateSerial y m d + 1 := by
  rw [dateSerial_eq, dateSerial_eq]; omega

/-- "DATE normalises out-of-range months … by carrying": twelve months are one year, for every integer month
    (years below 1900 are offsets from 1900 in Excel and in the code: `if year < 1900: year += 1900`) -/
theorem C17_carry_month (y m d : Int) (hy : 0 ≤ y) :
    dateSerial y (m + 12) d = dateSerial ((if y < 1900 then y + 1900 else y) + 1) m d := by
  rw [dateSerial_eq, dateSerial_eq]
  have hY : ¬ ((if y < 1900 then y + 1900 else y) + 1 < 1900) := by split <;> omega
  rw [if_neg hY]
  generalize (if y < 1900 then y + 1900 else y) = Y
  have : carryMonth Y (m + 12) = carryMonth (Y + 1) m := by
    unfold carryMonth
    have : (m + 12 - 1) / 12 = (m - 1) / 12 + 1 := by omega
    have : (m + 12 - 1) % 12 = (m - 1) % 12 := by omega
    simp [*]; omega
  rw [this]

/-! ### ranges and totality -/

/-- "Out-of-range results are #NUM!": serial arguments outside 0 … DATE_MAX_INT-1 -/
theorem C17_range_error_serial (x : Rat) (h : x < 0 ∨ (maxInt : Rat) ≤ x) :
    yearFn x = .err .num ∧ monthFn x = .err .num ∧ dayFn x = .err .num ∧ weekdayFn x = .err .num := by
  have : serialArg x = none := by unfold serialArg; rw [if_pos h]
  simp [yearFn, monthFn, dayFn, weekdayFn, this]

/-- "Out-of-range results are #NUM!": DATE is a serial in 0 … DATE_MAX_INT-1 or #NUM! -/
theorem C17_range_error_date (y m d : Int) :
    (∃ r : Int, 0 ≤ r ∧ r < maxInt ∧ dateFn y m d = .num (r : Rat)) ∨ dateFn y m d = .err .num := by
  unfold dateFn
  split
  · exact Or.inr rfl
  · unfold inRange
    split
    · rename_i h; exact Or.inl ⟨_, h.1, h.2, rfl⟩
    · exact Or.inr rfl

/-- "Out-of-range results are #NUM!": EDATE/EOMONTH -/
theorem C17_range_error_inc (n k : Int) (eom : Bool) :
    (∃ r : Int, 0 ≤ r ∧ r < maxInt ∧ monthsInc n k eom = .num (r : Rat)) ∨ monthsInc n k eom = .err .num := by
  unfold monthsInc
  split
  · exact Or.inr rfl
  · simp only []
    split
    · exact Or.inr rfl
    · exact C17_range_error_date _ _ _

/-- "YEARFRAC is symmetric in its dates" (every basis, every pair of integer serials) -/
theorem C17_yearfrac_symm (s e basis : Int) : yearfrac s e basis = yearfrac e s basis := by
  have c : ∀ a b : Int, (0 ≤ a ∧ a < maxInt ∧ 0 ≤ b ∧ b < maxInt) ↔ (0 ≤ b ∧ b < maxInt ∧ 0 ≤ a ∧ a < maxInt) :=
    fun a b => ⟨fun h => ⟨h.2.2.1, h.2.2.2, h.1, h.2.1⟩, fun h => ⟨h.2.2.1, h.2.2.2, h.1, h.2.1⟩⟩
  rcases Int.lt_trichotomy s e with h | h | h
  · have a : ¬ s > e := by omega
    have b : e > s := by omega
    unfold yearfrac
    simp only [c e s, a, b, ↓reduceIte]
  · subst h; rfl
  · have a : s > e := by omega
    have b : ¬ e > s := by omega
    unfold yearfrac
    simp only [c e s, a, b, ↓reduceIte]

/-- "DATE normalises out-of-range months/days by carrying": for every integer month and day the serial is that of
    the first day of the carried month (same month count, month in 1..12) plus day - 1 … -/
theorem C17_carry (y m d : Int) :
    dateSerial y m d = xlSerial (carryMonth (if y < 1900 then y + 1900 else y) m).1
                                (carryMonth (if y < 1900 then y + 1900 else y) m).2 1 + (d - 1) ∧
    1 ≤ (carryMonth (if y < 1900 then y + 1900 else y) m).2 ∧
    (carryMonth (if y < 1900 then y + 1900 else y) m).2 ≤ 12 ∧
    12 * (carryMonth (if y < 1900 then y + 1900 else y) m).1 + (carryMonth (if y < 1900 then y + 1900 else y) m).2
      = 12 * (if y < 1900 then y + 1900 else y) + m :=
  ⟨dateSerial_eq y m d, carryMonth_range _ m⟩

/-- … and the first day of a month has the serial of its proleptic Gregorian ordinal counted from 1899-12-30
    (from 1900-03 on; 1900-01-01 is 1 and 1900-02-01 is 32 in Excel's numbering) -/
theorem C17_first_of_month :
    (∀ y m : Int, validYmd y m 1 → afterFeb1900 y m → xlSerial y m 1 = ord y m 1 - ord 1899 12 30) ∧
    xlSerial 1900 1 1 = 1 ∧ xlSerial 1900 2 1 = 32 := by
  refine ⟨?_, by decide, by decide⟩
  intro y m hv ha
  have := ord_after hv ha
  have hz : zeroOrd = ord 1899 12 30 := by decide
  unfold xlSerial
  simp only []
  rw [if_neg (by omega), hz]

/-- the other round trip: DATE of a legal calendar date (from 1900-03-01 on) is the serial whose parts are that date -/
theorem C17_date_valid (y m d : Int) (hv : validYmd y m d) (ha : afterFeb1900 y m) (hy : y ≤ 9999) :
    ∃ n : Int, 60 < n ∧ n < maxInt ∧ dateFn y m d = .num (n : Rat) ∧ dateFromInt n = (y, m, d) := by
  have h61 := ord_after (valid_first hv) ha
  have hd := ord_day y m d
  have hd1 := hv.2.2.1
  have hmax := ord_le_max hv hy
  refine ⟨ord y m d - zeroOrd, by omega, by omega, ?_, ?_⟩
  · exact dateFn_after hv ha _ (by omega) (by omega)
  · have hz : zeroOrd = ord 1899 12 30 := by decide
    rw [(C17_gregorian _ (by omega)).1, ← hz]
    have : zeroOrd + (ord y m d - zeroOrd) = ord y m d := by omega
    rw [this, ymd_ord y m d hv]

/-- DATE of every date of Excel's calendar 1900-01-01 … 9999-12-31 (1900-02-29 included) is the serial whose parts
    are that date: with `C17_roundtrip` the serials and the calendar dates correspond one to one -/
theorem C17_date_legal {y m d : Int} (h1 : 1 ≤ m) (h2 : m ≤ 12) (hlo : 1900 ≤ y) (hhi : y ≤ 9999)
    (hd1 : 1 ≤ d) (hd2 : d ≤ dimXl y m) :
    ∃ r : Int, 0 ≤ r ∧ r < maxInt ∧ dateFn y m d = .num (r : Rat) ∧ dateFromInt r = (y, m, d) := by
  by_cases ha : afterFeb1900 y m
  · have hv : validYmd y m d := by
      rw [dimXl_eq ha] at hd2
      exact ⟨h1, h2, hd1, hd2⟩
    obtain ⟨r, r1, r2, r3, r4⟩ := C17_date_valid _ _ _ hv ha hhi
    exact ⟨r, by omega, r2, r3, r4⟩
  · have hy : y = 1900 := by unfold afterFeb1900 at ha; omega
    have hm : m = 1 ∨ m = 2 := by unfold afterFeb1900 at ha; omega
    subst hy
    have hm60 : maxInt = 2958466 := by decide
    rcases hm with hm | hm
    · subst hm
      have hd : d ≤ 31 := by have : dimXl 1900 1 = 31 := by decide
                             omega
      refine ⟨d, by omega, by omega, ?_, ?_⟩
      · have x1 : xlSerial 1900 1 1 = 1 := by decide
        unfold dateFn
        rw [if_neg (by omega), dateSerial_std _ _ _ (by omega) (by omega) (by omega), x1, inRange,
          if_pos (by omega)]
        congr 2; omega
      · rw [C17_days_1_59 d (by omega) (by omega), if_pos (by omega)]
    · subst hm
      have hd : d ≤ 29 := by have : dimXl 1900 2 = 29 := by decide
                             omega
      refine ⟨d + 31, by omega, by omega, ?_, ?_⟩
      · have x2 : xlSerial 1900 2 1 = 32 := by decide
        unfold dateFn
        rw [if_neg (by omega), dateSerial_std _ _ _ (by omega) (by omega) (by omega), x2, inRange,
          if_pos (by omega)]
        congr 2; omega
      · by_cases h29 : d = 29
        · subst h29; decide
        · rw [C17_days_1_59 (d + 31) (by omega) (by omega), if_neg (by omega)]
          congr 2; omega

/-- "Out-of-range results are #NUM!": a start serial outside 0 … DATE_MAX_INT-1, or a shifted month outside
    1900-01 … 9999-12, gives #NUM! -/
theorem C17_inc_out_of_range (n k : Int) (eom : Bool)
    (h : n < 0 ∨ maxInt ≤ n ∨ (carryMonth (dateFromInt n).1 ((dateFromInt n).2.1 + k)).1 < 1900 ∨
      9999 < (carryMonth (dateFromInt n).1 ((dateFromInt n).2.1 + k)).1) :
    monthsInc n k eom = .err .num := by
  have hzy : (Gen.dateZeroY : Int) = 1899 := by decide
  unfold monthsInc
  by_cases hn : n < 0 ∨ maxInt ≤ n
  · rw [if_pos hn]
  · rw [if_neg hn]
    simp only []
    rw [hzy, if_pos (by intro hc; omega)]

/-- "EOMONTH returns a month's last day": for every start serial and every shift whose month lies in
    1900-01 … 9999-12 the result is the serial whose parts are (year, month, last day) of the shifted month -/
theorem C17_eomonth (n k : Int) (h0 : 0 ≤ n) (h1 : n < maxInt) (ym : Int × Int)
    (hym : carryMonth (dateFromInt n).1 ((dateFromInt n).2.1 + k) = ym) (hlo : 1900 ≤ ym.1) (hhi : ym.1 ≤ 9999) :
    ∃ r : Int, 0 ≤ r ∧ r < maxInt ∧ eomonthFn n k = .num (r : Rat) ∧
      dateFromInt r = (ym.1, ym.2, dimXl ym.1 ym.2) := by
  have e := monthsInc_eq n k true h0 h1 ym hym hlo hhi
  obtain ⟨m1, m2, _⟩ := carryMonth_range (dateFromInt n).1 ((dateFromInt n).2.1 + k)
  rw [hym] at m1 m2
  unfold eomonthFn
  rw [e]
  exact C17_date_legal m1 m2 hlo hhi (dimXl_pos _ _ m1 m2) (by simp)

/-- "EDATE shifts by whole months": the result is the serial whose parts are the shifted (year, month) and the
    start day, or the month's last day when the start day does not exist there -/
theorem C17_edate (n k : Int) (h0 : 1 ≤ n) (h1 : n < maxInt) (ym : Int × Int)
    (hym : carryMonth (dateFromInt n).1 ((dateFromInt n).2.1 + k) = ym) (hlo : 1900 ≤ ym.1) (hhi : ym.1 ≤ 9999) :
    ∃ r : Int, 0 ≤ r ∧ r < maxInt ∧ edateFn n k = .num (r : Rat) ∧
      dateFromInt r = (ym.1, ym.2, min (dateFromInt n).2.2 (dimXl ym.1 ym.2)) := by
  have e := monthsInc_eq n k false (by omega) h1 ym hym hlo hhi
  obtain ⟨m1, m2, _⟩ := carryMonth_range (dateFromInt n).1 ((dateFromInt n).2.1 + k)
  rw [hym] at m1 m2
  have hd : 1 ≤ (dateFromInt n).2.2 := by
    by_cases h60 : 60 < n
    · exact (C17_gregorian n h60).2.1.2.2.1
    · by_cases hn60 : n = 60
      · subst hn60; decide
      · rw [C17_days_1_59 n h0 (by omega)]
        split <;> simp <;> omega
  have hp := dimXl_pos ym.1 ym.2 m1 m2
  unfold edateFn
  rw [e]
  simp only [Bool.false_eq_true, ↓reduceIte]
  exact C17_date_legal m1 m2 hlo hhi (by omega) (by omega)


/-! ### HOUR / MINUTE / SECOND -/

/-- "HOUR/MINUTE/SECOND decompose the fraction of a day to the nearest second": on every whole second k of every
    day D the parts are exactly k div 3600, k div 60 mod 60, k mod 60 -/
theorem C17_hms (D k : Int) (hD : 0 ≤ D) (hk0 : 0 ≤ k) (hk : k < 86400) :
    hms ((D : Rat) + (k : Rat) / 86400) = (k / 3600, k / 60 % 60, k % 60) ∧
    hourFn ((D : Rat) + (k : Rat) / 86400) = .num ((k / 3600 : Int) : Rat) ∧
    minuteFn ((D : Rat) + (k : Rat) / 86400) = .num ((k / 60 % 60 : Int) : Rat) ∧
    secondFn ((D : Rat) + (k : Rat) / 86400) = .num ((k % 60 : Int) : Rat) := by
  have e : hms ((D : Rat) + (k : Rat) / 86400) = (k / 3600, k / 60 % 60, k % 60) := by
    unfold hms
    rw [hmsRaw_whole]
    have a : ¬ (k % 60 = 60) := by omega
    have b : ¬ (k / 60 % 60 = 60) := by omega
    simp only [a, b, ↓reduceIte]
    congr 1; omega
  have d0 : (0 : Rat) ≤ (D : Rat) := by rw [← Rat.intCast_zero, Rat.intCast_le_intCast]; exact hD
  have k0 : (0 : Rat) ≤ (k : Rat) := by rw [← Rat.intCast_zero, Rat.intCast_le_intCast]; exact hk0
  have x0 : ¬ ((D : Rat) + (k : Rat) / 86400 < 0) := by grind
  refine ⟨e, ?_, ?_, ?_⟩
  · unfold hourFn; rw [if_neg x0, e]
  · unfold minuteFn; rw [if_neg x0, e]
  · unfold secondFn; rw [if_neg x0, e]


/-- "to the nearest second": the parts are always a time of day — SECOND and MINUTE never reach 60 -/
theorem C17_hms_range (x : Rat) :
    0 ≤ (hms x).1 ∧ (hms x).1 < 24 ∧ 0 ≤ (hms x).2.1 ∧ (hms x).2.1 < 60 ∧ 0 ≤ (hms x).2.2 ∧ (hms x).2.2 < 60 := by
  have gs := guard_small
  have gp : 0 < guard := by decide +kernel
  have f1 := floor_frac ((x + micro) * 24)
  have mb := floor_bounds ((((x + micro) * 24) - ((((x + micro) * 24).floor : Int) : Rat)) * 60) 0 60
    (by have e : (((0 : Int)) : Rat) = 0 := rfl
        rw [e]; grind)
    (by have e : (((60 : Int)) : Rat) = 60 := rfl
        rw [e]; grind)
  have f2 := floor_frac ((((x + micro) * 24) - ((((x + micro) * 24).floor : Int) : Rat)) * 60)
  have rb := round_bounds (((((x + micro) * 24) - ((((x + micro) * 24).floor : Int) : Rat)) * 60
      - ((((((x + micro) * 24) - ((((x + micro) * 24).floor : Int) : Rat)) * 60).floor : Int) : Rat)) * 60 - guard)
    (by grind) (by grind)
  unfold hms hmsRaw
  simp only []
  refine ⟨by omega, by omega, ?_, ?_, ?_, ?_⟩ <;> (repeat' split) <;> omega


/-! ### non-vacuity: the hypotheses above are satisfiable by concrete non-trivial instances -/

example : dateFromInt 45000 = (2023, 3, 15) ∧ dateFn 2023 3 15 = .num 45000 := by decide
example : validYmd 2000 2 29 ∧ afterFeb1900 2000 2 ∧ ord 2000 2 29 = 730179 := by unfold validYmd afterFeb1900; decide
example : dateFn 2001 3 0 = .num 36950 ∧ dateFromInt 36950 = (2001, 2, 28) := by decide
example : dateFn 2001 14 (-3) = dateFn 2002 2 (-3) ∧ dateFn 9999 12 32 = .err .num ∧ dateFn 9999 13 0 = .num 2958465 := by decide
example : eomonthFn 36556 1 = .num 36585 ∧ edateFn 36556 1 = .num 36585 ∧ dateFromInt 36585 = (2000, 2, 29) := by decide
example : eomonthFn 10 (-12) = .err .num ∧ edateFn 2958465 1 = .err .num ∧ eomonthFn 2958465 0 = .num 2958465 := by decide
example : carryMonth (dateFromInt 36556).1 ((dateFromInt 36556).2.1 + 1) = (2000, 2) := by decide
example : weekdayOf 45000 = 4 ∧ weekdayOf 45007 = 4 := by decide
example : hms (999999 / 1000000) = (0, 0, 0) ∧ hms (1 / 2) = (12, 0, 0) := by decide +kernel
example : yearfrac 1 400 1 = yearfrac 400 1 1 ∧ yearfrac 1 400 1 = .num (798 / 731) := by decide +kernel
example : yearFn 2958466 = .err .num ∧ yearFn (-1) = .err .num ∧ yearFn 2958465 = .num 9999 := by decide +kernel

end Pycel.DateTime

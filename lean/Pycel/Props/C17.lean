/- C17: property theorems (not built yet). -/

/-
  C12 — validate_calcs reports exactly the stored results that disagree.

  Statement (properties.jsonl): "On a workbook file whose stored formula results are what its formulas produce,
  validate_calcs returns an empty report. If the stored result of one formula cell reachable from the checked outputs
  is altered by more than the tolerance, the report names that cell as a mismatch with its stored and recomputed
  values, and every other reported cell depends on it; cells it cannot evaluate are reported under exceptions or
  not-implemented rather than silently skipped."

  The theorems are about `validate` of Model/Validate.lean, for EVERY DAG workbook (`WF`), every value type, every
  formula semantics that reads only its declared precedents (`Local`/`LocalG`) and may raise (`Except Fail`), every
  list of checked outputs, `verify_tree` on or off, every comparison `close` that is reflexive.
  `f` is the total Excel semantics ("what the formulas produce"); `Agree`: whenever pycel's compiled formula `g`
  returns, it returns `f`.  `D C f i` = `Engine.denote` = the from-scratch value of node `i`.

  Exact skip rules of the code, stated as explicit exclusions:
    * no stored result (`stored c = none`: no `<v>` in the file, or a stored empty string, which openpyxl reads as
      None): the cell is recomputed but there is nothing to compare -> C12_complete needs `stored c = some v'`;
    * "No Orig data?": a value equal to the text of the cell's own formula (`noData`): the cell is neither verified nor
      are its precedents pushed -> `Walk` stops at cells logged in `Report.noData`, C12_complete needs
      `noData c v' = false` (known finding stored.formula-text);
    * value cells and range nodes have nothing to compare; they are walked through;
    * unbounded ranges (`A:A` reference cells) are not part of the model (not formula cells of the workbook).
  Classification of "a stored logical altered into the equal number (TRUE -> 1)": the property counts a change of
  type as an alteration; `close_enough` cannot see it (`closeVal_logical_number`): known finding logical.as-number
  (repair breaks tests/lib/test_logical.py::test_logical_ws).  In the theorems it is covered honestly: C12_complete
  demands `¬ close (D c) v'`, which is false for that alteration.
-/
import Pycel.Lemmas.ValidateLoop
import Pycel.Model.ValidateInst
import Pycel.Lemmas.EngineInst
namespace Pycel.Validate
open Pycel Pycel.Engine

variable {α : Type}

/-- "stored formula results are what its formulas produce" (where the file has a stored result) -/
def Consistent (C : Cfg α) (f : Nat → (Nat → α) → α) : Prop :=
  ∀ j v, C.wb.kind j = .formula → C.stored j = some v → v = D C f j

/-- consistent except at the altered cell `c` -/
def ConsistentBut (C : Cfg α) (f : Nat → (Nat → α) → α) (c : Nat) : Prop :=
  ∀ j v, j ≠ c → C.wb.kind j = .formula → C.stored j = some v → v = D C f j

/-- pycel can evaluate every formula -/
def Total (C : Cfg α) : Prop := ∀ i e, ∃ v, C.g i e = .ok v

/-- the walk of the work-list: the outputs, and (with verify_tree) the precedents of every walked node that was not
    dismissed by the "No Orig data?" rule -/
inductive Walk (C : Cfg α) (nd : List Nat) (outs : List Nat) : Nat → Prop
  | out {o : Nat} : o ∈ outs → Walk C nd outs o
  | dep {x j : Nat} : C.tree = true → Walk C nd outs x → x ∉ nd → j ∈ C.wb.deps x → Walk C nd outs j

section
variable {C : Cfg α} {f : Nat → (Nat → α) → α}

theorem hyp_of_consistent (hwf : WF C.wb) (hl : Local C.wb f) (hlg : LocalG C) (hag : Agree C f)
    (hc : Consistent C f) (hrefl : ∀ v, C.close v v = true) : Hyp C f (fun _ => False) :=
  ⟨hwf, hl, hlg, hag, fun _ _ _ h => h, fun j v hk hv => .inl (hc j v hk hv), fun _ _ v => hrefl v⟩

theorem hyp_of_but (hwf : WF C.wb) (hl : Local C.wb f) (hlg : LocalG C) (hag : Agree C f) {c : Nat}
    (hc : ConsistentBut C f c) (hrefl : ∀ v, C.close v v = true) : Hyp C f (fun m => Reach C.wb m c) :=
  ⟨hwf, hl, hlg, hag, fun _ _ hj hb => .step hj hb,
   fun j v hk hv => by
     by_cases hjc : j = c
     · exact .inr (hjc ▸ .refl j)
     · exact .inl (hc j v hjc hk hv),
   fun _ _ v => hrefl v⟩

/-- "the loop terminates": after `fuelFor` iterations the work-list is empty, for every DAG workbook. -/
theorem C12_terminates (hwf : WF C.wb) (outs : List Nat) : (validate C outs).todo = [] :=
  validate_done hwf outs

/-- "On a workbook file whose stored formula results are what its formulas produce, validate_calcs returns an empty
    report" — the mismatch class is empty even when some cells cannot be evaluated. -/
theorem C12_sound_mismatch (hwf : WF C.wb) (hl : Local C.wb f) (hlg : LocalG C) (hag : Agree C f)
    (hc : Consistent C f) (hrefl : ∀ v, C.close v v = true) (outs : List Nat) :
    (validate C outs).rep.mismatch = [] := by
  have hi := (BInv.init (C := C) (f := f) (Bad := fun _ => False) outs).iter
    (hyp_of_consistent hwf hl hlg hag hc hrefl) (fuelFor C outs)
  cases hm : (validate C outs).rep.mismatch with
  | nil => rfl
  | cons e es =>
    exact (hi.blame e.1 e.2.1 e.2.2 (by unfold validate at hm; rw [hm]; exact List.mem_cons_self ..)).elim

/-- "cells it cannot evaluate are reported under exceptions or not-implemented": nothing is reported there without a
    formula that really raises that class of exception (no hypothesis on the stored results at all). -/
theorem C12_failed_justified (hwf : WF C.wb) (hl : Local C.wb f) (hlg : LocalG C) (hag : Agree C f)
    (outs : List Nat) (x : Nat) (e : Fail) (hx : (x, e) ∈ (validate C outs).rep.failed) :
    ∃ j env e', C.g j env = .error e' ∧ (e = e' ∨ e = e'.nested) := by
  have hh : Hyp C f (fun _ => True) :=
    ⟨hwf, hl, hlg, hag, fun _ _ _ _ => trivial, fun _ _ _ _ => .inr trivial, fun _ h => (h trivial).elim⟩
  obtain ⟨j, s, e', _, _, hj, he⟩ :=
    ((BInv.init (C := C) (f := f) (Bad := fun _ => True) outs).iter hh (fuelFor C outs)).why x e hx
  exact ⟨j, _, e', hj, he⟩

/-- "cells it cannot evaluate are reported under exceptions or not-implemented" — the converse with the BLAME: every
    cell `x` listed under exceptions / not-implemented with class `e` has the cause at or below itself: a formula or
    range node `j` with `Reach x j` (`j = x`: its own formula; otherwise one of its transitive precedents) whose
    compiled formula raises, on the values `valueOf s` that some state `s` of the cell map reached during the walk
    gives its precedents, an exception whose class is `e` itself or becomes `e` when it travels through a dependant
    (`Fail.nested`).  No hypothesis on the stored results. -/
theorem C12_failed_blame (hwf : WF C.wb) (hl : Local C.wb f) (hlg : LocalG C) (hag : Agree C f)
    (outs : List Nat) (x : Nat) (e : Fail) (hx : (x, e) ∈ (validate C outs).rep.failed) :
    ∃ j s e', Reach C.wb x j ∧ C.wb.kind j ≠ .input ∧ C.g j (valueOf C s) = .error e' ∧
      (e = e' ∨ e = e'.nested) := by
  have hh : Hyp C f (fun _ => True) :=
    ⟨hwf, hl, hlg, hag, fun _ _ _ _ => trivial, fun _ _ _ _ => .inr trivial, fun _ h => (h trivial).elim⟩
  exact ((BInv.init (C := C) (f := f) (Bad := fun _ => True) outs).iter hh (fuelFor C outs)).why x e hx

/-- on a workbook in which only the formulas in `R` can raise: every listed cell is in `R` or depends on one. -/
theorem C12_failed_blame_set (hwf : WF C.wb) (hl : Local C.wb f) (hlg : LocalG C) (hag : Agree C f)
    (R : Nat → Prop) (hR : ∀ j env e, C.g j env = .error e → R j)
    (outs : List Nat) (x : Nat) (e : Fail) (hx : (x, e) ∈ (validate C outs).rep.failed) :
    ∃ j, R j ∧ Reach C.wb x j := by
  obtain ⟨j, s, e', hr, _, hj, _⟩ := C12_failed_blame hwf hl hlg hag outs x e hx
  exact ⟨j, hR j _ e' hj, hr⟩

/-- "On a workbook file whose stored formula results are what its formulas produce, validate_calcs returns an empty
    report" (a workbook pycel can evaluate: `Total`). -/
theorem C12_sound (hwf : WF C.wb) (hl : Local C.wb f) (hlg : LocalG C) (hag : Agree C f)
    (hc : Consistent C f) (ht : Total C) (hrefl : ∀ v, C.close v v = true) (outs : List Nat) :
    (validate C outs).rep.mismatch = [] ∧ (validate C outs).rep.failed = [] := by
  refine ⟨C12_sound_mismatch hwf hl hlg hag hc hrefl outs, ?_⟩
  cases hm : (validate C outs).rep.failed with
  | nil => rfl
  | cons p ps =>
    obtain ⟨j, env, e', hj, _⟩ := C12_failed_justified hwf hl hlg hag outs p.1 p.2 (by rw [hm]; exact List.mem_cons_self ..)
    obtain ⟨v, hv⟩ := ht j env
    rw [hv] at hj; cases hj

/-- the same with the consistency notion of the engine property C01 (`Engine.StoredConsistent`). -/
theorem C12_sound_engine (hwf : WF C.wb) (hl : Local C.wb f) (hlg : LocalG C) (hag : Agree C f)
    (hc : StoredConsistent C.wb f C.inp C.stored) (hn : ∀ j, C.wb.n ≤ j → C.stored j = none)
    (ht : Total C) (hrefl : ∀ v, C.close v v = true) (outs : List Nat) :
    (validate C outs).rep.isEmpty = true := by
  have hcons : Consistent C f := by
    intro j v hk hv
    by_cases hj : j < C.wb.n
    · rw [hc j hj hk] at hv; cases hv; rfl
    · rw [hn j (by omega)] at hv; cases hv
  have := C12_sound hwf hl hlg hag hcons ht hrefl outs
  simp [Report.isEmpty, this.1, this.2]

/-- "every other reported cell depends on it": every cell in the mismatch class reaches `c` through precedents
    (`Reach x c`; `x = c` itself included). -/
theorem C12_blame (hwf : WF C.wb) (hl : Local C.wb f) (hlg : LocalG C) (hag : Agree C f) (c : Nat)
    (hc : ConsistentBut C f c) (hrefl : ∀ v, C.close v v = true) (outs : List Nat)
    (x : Nat) (o r : α) (hx : (x, o, r) ∈ (validate C outs).rep.mismatch) : Reach C.wb x c :=
  ((BInv.init (C := C) (f := f) (Bad := fun m => Reach C.wb m c) outs).iter
    (hyp_of_but hwf hl hlg hag hc hrefl) (fuelFor C outs)).blame x o r hx

/-- on a workbook pycel can evaluate, the mismatch class is the whole report: EVERY reported cell depends on `c`. -/
theorem C12_blame_total (hwf : WF C.wb) (hl : Local C.wb f) (hlg : LocalG C) (hag : Agree C f) (c : Nat)
    (hc : ConsistentBut C f c) (ht : Total C) (hrefl : ∀ v, C.close v v = true) (outs : List Nat) :
    (validate C outs).rep.failed = [] ∧
    ∀ x o r, (x, o, r) ∈ (validate C outs).rep.mismatch → Reach C.wb x c := by
  refine ⟨?_, fun x o r hx => C12_blame hwf hl hlg hag c hc hrefl outs x o r hx⟩
  cases hm : (validate C outs).rep.failed with
  | nil => rfl
  | cons p ps =>
    obtain ⟨j, env, e', hj, _⟩ := C12_failed_justified hwf hl hlg hag outs p.1 p.2 (by rw [hm]; exact List.mem_cons_self ..)
    obtain ⟨v, hv⟩ := ht j env
    rw [hv] at hj; cases hj

/-- "cells it cannot evaluate are reported under exceptions or not-implemented rather than silently skipped":
    every node on the walk from the outputs is, at the end, verified (recomputed and, when it had a stored result,
    compared), or listed under exceptions / not-implemented, or dismissed by the "No Orig data?" rule (and then
    logged in the ghost list `noData`, where the walk stops). -/
theorem C12_no_skip (hwf : WF C.wb) (hl : Local C.wb f) (hlg : LocalG C) (hag : Agree C f)
    (outs : List Nat) (x : Nat) (hx : Walk C (validate C outs).rep.noData outs x) :
    Handled (validate C outs) x := by
  have hh : Hyp C f (fun _ => True) :=
    ⟨hwf, hl, hlg, hag, fun _ _ _ _ => trivial, fun _ _ _ _ => .inr trivial, fun _ h => (h trivial).elim⟩
  have hcov : Cov C outs (validate C outs) :=
    Cov.iter hh (fuelFor C outs) (BInv.init outs) (Cov.init outs)
  have hdone := C12_terminates hwf outs
  induction hx with
  | out ho =>
    rcases hcov.outs _ ho with h | h
    · exact h
    · rw [hdone] at h; cases h
  | @dep x' j' htree _ hnd hj ih =>
    have hp : Proc (validate C outs) x' := by
      rcases ih with h | h | h
      · exact .inl h
      · exact .inr h
      · exact absurd h hnd
    rcases hcov.deps htree x' hp j' hj with h | h
    · exact h
    · rw [hdone] at h; cases h

/-- when the "No Orig data?" rule did not fire: with verify_tree every node reachable from an output is verified or
    listed under exceptions / not-implemented. -/
theorem C12_no_skip_reach (hwf : WF C.wb) (hl : Local C.wb f) (hlg : LocalG C) (hag : Agree C f)
    (outs : List Nat) (hnd : (validate C outs).rep.noData = []) (htree : C.tree = true)
    (o x : Nat) (ho : o ∈ outs) (hx : Reach C.wb o x) :
    x ∈ (validate C outs).verified ∨ ∃ e, (x, e) ∈ (validate C outs).rep.failed := by
  have key : ∀ a m, Reach C.wb a m → Walk C (validate C outs).rep.noData outs a →
      Walk C (validate C outs).rep.noData outs m := by
    intro a m hr
    induction hr with
    | refl => exact fun h => h
    | step hj _ ih => exact fun h => ih (.dep htree h (by rw [hnd]; simp) hj)
  have hw := key o x hx (.out ho)
  rcases C12_no_skip hwf hl hlg hag outs x hw with h | h | h
  · exact .inl h
  · exact .inr h
  · rw [hnd] at h; cases h

/-- "If the stored result of one formula cell reachable from the checked outputs is altered by more than the
    tolerance, the report names that cell as a mismatch with its stored and recomputed values": `c` on the walk, its
    stored result `v'` not close to the recomputed `D c`, every other stored result consistent, `c` evaluable
    (every formula below it runs) — then the report's entry of `c` is exactly (`v'`, `D c`). -/
theorem C12_complete (hwf : WF C.wb) (hl : Local C.wb f) (hlg : LocalG C) (hag : Agree C f) (c : Nat) (v' : α)
    (hc : ConsistentBut C f c) (hrefl : ∀ v, C.close v v = true)
    (hk : C.wb.kind c = .formula) (hs : C.stored c = some v') (hfar : ¬ C.close (D C f c) v' = true)
    (hnd : C.noData c v' = false) (hev : ∀ m, Reach C.wb c m → Evaluable C f m)
    (outs : List Nat) (hw : Walk C (validate C outs).rep.noData outs c) :
    (validate C outs).rep.lookup c = some (v', D C f c) := by
  have hh := hyp_of_but hwf hl hlg hag hc hrefl
  have hch : CHyp C f c v' := ⟨hh, hk, hs, hfar, hnd, hev, hrefl _⟩
  have hp : Phase C f c v' (validate C outs) :=
    Phase.iter c v' hch (fuelFor C outs) (BInv.init outs) (Phase.init c v' outs)
  rcases hp with ⟨hnh, _⟩ | ⟨_, _, hl⟩
  · exact absurd (C12_no_skip hwf hl hlg hag outs c hw) hnh
  · exact hl

end

/-! ### the comparison `close_enough` on Excel scalars -/

theorem ratAbs_nonneg (q : Rat) : 0 ≤ ratAbs q := by
  unfold ratAbs; split <;> grind

theorem rel_nonneg : (0:Rat) ≤ rel := by unfold rel; decide +kernel

theorem closeNum_refl (tol : Option Rat) (htol : ∀ t, tol = some t → 0 ≤ t) (q : Rat) : closeNum tol q q = true := by
  unfold closeNum
  have h0 : ratAbs (q - q) = 0 := by rw [Rat.sub_self]; unfold ratAbs; simp
  cases tol with
  | some t =>
    simp only [h0, decide_eq_true_eq]
    have ht := htol t rfl
    have h1 : (0:Rat) ≤ 1 + rel := by unfold rel; decide +kernel
    exact Rat.mul_nonneg h1 ht
  | none =>
    simp only [h0]
    split
    · simp only [decide_eq_true_eq]
      apply Rat.mul_nonneg rel_nonneg
      split <;> exact ratAbs_nonneg _
    · simp only [decide_eq_true_eq]; decide +kernel

/-- `close_enough` is reflexive for every tolerance setting: `None` and every tolerance `≥ 0`, INCLUDING 0 (this is
    what C12_sound needs; with the pinned strict `<` it failed at 0, see C12_strict_tol_counterexample). -/
theorem closeVal_refl (tol : Option Rat) (htol : ∀ t, tol = some t → 0 ≤ t) (v : Val) : closeVal tol v v = true := by
  cases v with
  | num q => simp only [closeVal, numView]; exact closeNum_refl tol htol q
  | bool b => simp only [closeVal, numView]; exact closeNum_refl tol htol _
  | str s => simp [closeVal, numView, pyEqNonNum]
  | blank => simp [closeVal, numView, pyEqNonNum]
  | err e => simp [closeVal, numView, pyEqNonNum]

theorem closeEV_refl (tol : Option Rat) (htol : ∀ t, tol = some t → 0 ≤ t) (v : EngineInst.EV) :
    closeEV tol v v = true := by
  cases v with
  | sc a => exact closeVal_refl tol htol a
  | arr r => simp [closeEV]

/-- the model follows the code: a logical is "close" to the number it equals, for every tolerance setting — the
    alteration TRUE -> 1 is invisible (known finding logical.as-number). -/
theorem closeVal_logical_number (tol : Option Rat) (htol : ∀ t, tol = some t → 0 ≤ t) :
    closeVal tol (.bool true) (.num 1) = true ∧ closeVal tol (.num 0) (.bool false) = true := by
  constructor
  · simp only [closeVal, numView, if_true]; exact closeNum_refl tol htol 1
  · simp only [closeVal, numView]; exact closeNum_refl tol htol 0

/-- tolerance 0 means exact: equal numbers are close, different numbers are not -/
theorem closeVal_tol_zero (a b : Rat) : closeVal (some 0) (.num a) (.num b) = decide (a = b) := by
  simp only [closeVal, numView, closeNum, Rat.mul_zero]
  by_cases h : a = b
  · subst h; simp [Rat.sub_self, ratAbs]
  · have hne : b - a ≠ 0 := fun e => h (by grind)
    have : ¬ ratAbs (b - a) ≤ 0 := by
      unfold ratAbs; split <;> grind
    simp [h, this]

/-- the pinned comparison `abs(a-b) < (1+rel)*tol`: not reflexive at tolerance 0, so the consistent one-cell
    workbook was reported (what fix c457f68 repaired). -/
def closeNumStrict (t : Rat) (a b : Rat) : Bool := decide (ratAbs (b - a) < (1 + rel) * t)

theorem C12_strict_tol_counterexample : closeNumStrict 0 10 10 = false := by
  unfold closeNumStrict; decide +kernel

/-! ### the driver's instance: the theorems apply to the configuration the correspondence runs -/

theorem uniqWb_wf {wb : Workbook} (h : WF wb) : WF (uniqWb wb) :=
  ⟨fun i j hj => h.lt i j (List.mem_eraseDups.1 hj), fun i hi => by
    show (wb.deps i).eraseDups = []
    rw [h.input i hi]; simp⟩

open EngineInst in
theorem semV_local (specs : List Spec) : Local (uniqWb (mkWb specs)) (semV specs) := by
  intro i e e' h
  have h' : ∀ j, j ∈ (mkWb specs).deps i → e j = e' j := fun j hj => h j (List.mem_eraseDups.2 hj)
  unfold semV
  split
  · next a b heq =>
    have hd : (mkWb specs).deps i = [a, b] := by simp [mkWb, heq, Spec.deps, Fml.refs]
    rw [h' a (by rw [hd]; simp), h' b (by rw [hd]; simp)]
  · next a b heq =>
    have hd : (mkWb specs).deps i = [a, b] := by simp [mkWb, heq, Spec.deps, Fml.refs]
    rw [h' a (by rw [hd]; simp), h' b (by rw [hd]; simp)]
  · exact sem_local specs i e e' h'

open EngineInst in
theorem semTot_local (specs : List Spec) (raises : Nat → Option (Fail × Val)) :
    Local (uniqWb (mkWb specs)) (semTot specs raises) := by
  intro i e e' h
  unfold semTot
  cases raises i with
  | some p => rfl
  | none => exact semV_local specs i e e' h

open EngineInst in
/-- C12_sound for the driver's configuration: a well-formed workbook in the correspondence language without raising
    nodes, any tolerance setting `None`/`≥ 0`, any outputs, verify_tree on or off. -/
theorem C12_sound_inst (specs : List Spec) (hwf : wfCheck specs = true) (stored : Nat → Option EV)
    (tol : Option Rat) (htol : ∀ t, tol = some t → 0 ≤ t) (noData : Nat → EV → Bool) (tree : Bool)
    (hc : Consistent (instCfg specs (fun _ => none) stored tol noData tree) (semTot specs (fun _ => none)))
    (outs : List Nat) :
    (validate (instCfg specs (fun _ => none) stored tol noData tree) outs).rep.isEmpty = true := by
  have hl := semTot_local specs (fun _ => none)
  have h := C12_sound (C := instCfg specs (fun _ => none) stored tol noData tree)
    (f := semTot specs (fun _ => none)) (uniqWb_wf (wf_of_check specs hwf)) hl
    (fun i e e' h => by
      show semG specs (fun _ => none) i e = semG specs (fun _ => none) i e'
      simp only [semG]
      exact congrArg _ (semV_local specs i e e' h))
    (fun i e v hv => by
      have : semG specs (fun _ => none) i e = .ok v := hv
      simp only [semG] at this; cases this; rfl)
    hc (fun i e => ⟨_, rfl⟩) (closeEV_refl tol htol) outs
  simp [Report.isEmpty, h.1, h.2]

/-! ### non-vacuity: a concrete workbook satisfying the hypotheses of C12_complete / C12_sound -/

namespace Example
open EngineInst

/-- A1 = 5, B1 = A1+A1, C1 = B1+A1; stored B1 altered from 10 to 11 -/
def specs : List Spec := [.inp (.num 5), .fml (.add 0 0), .fml (.add 1 0)]
def storedOk : Nat → Option EV := fun j => if j = 1 then some (.sc (.num 10)) else if j = 2 then some (.sc (.num 15)) else none
def storedBad : Nat → Option EV := fun j => if j = 1 then some (.sc (.num 11)) else storedOk j
def cfg (st : Nat → Option EV) : Cfg EV := instCfg specs (fun _ => none) st none (fun _ _ => false) true

-- the consistent file: empty report; the altered file: B1 named with (11, 10), and C1 (a dependant) as well
example : (validate (cfg storedOk) [2]).rep.isEmpty = true := by decide +kernel
example : (validate (cfg storedBad) [2]).rep.lookup 1 = some (.sc (.num 11), .sc (.num 10)) := by decide +kernel
example : ((validate (cfg storedBad) [2]).rep.mismatch.map (·.1)) = [1, 2] := by decide +kernel
example : wfCheck specs = true := by decide
example : Walk (cfg storedBad) [] [2] 1 := .dep rfl (.out (List.mem_cons_self ..)) (by simp) (by decide)

end Example

end Pycel.Validate

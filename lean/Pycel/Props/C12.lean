/- C12: property theorems (not built yet). -/

/-
  C16 — Lookup functions agree with a linear-scan definition.

  Statement (properties.jsonl): "MATCH(v, a, 0) returns the first position whose value equals v (type-strict,
  case-insensitive, ?/* wildcards for text) or #N/A; on data sorted in Excel order MATCH(v, a, 1) returns a position
  holding the largest value <= v and MATCH(v, a, -1) one holding the smallest value >= v, of v's type.
  VLOOKUP/HLOOKUP/LOOKUP return the cell that INDEX would return at the position MATCH finds, VLOOKUP on a table
  equals HLOOKUP on its transpose, and out-of-range indices yield #REF!/#VALUE! rather than a wrong cell."

  Model: Pycel/Model/Lookup.lean (lookup.py `_match`, `match`, `vlookup`, `hlookup`, `lookup`, `index`; ExcelCmp).
  All theorems hold for vectors and tables of ANY length (induction / arithmetic, no enumeration).
  Vocabulary: `key x` is ExcelCmp(x); `ltK` the strict Excel order on keys (numbers < text < logicals < errors, text
  case-insensitive); `rank` the type class; `blanks m ++ core ++ blanks n` a vector with blanks at the ends.
-/
import Pycel.Lemmas.Lookup
import Pycel.Generated.LookupTables
namespace Pycel.Lookup
open Pycel

/-! ### tables read from the live code (regenerated on every check; a change breaks these proofs) -/

/-- the model's order of error values is Python's order of the error texts in the live `ERROR_CODES` -/
theorem errOrd_live (e : Err) : errOrd e = Gen.Lookup.errOrdLive e := by cases e <;> rfl

/-- the live excel_helper metadata is what the model's wrappers implement: lookup value may be a CSE array (not
    modelled), `match_type` / index arguments are coerced to numbers, and exactly these arguments are checked for
    error values before the body runs (`xmatch`, `xlookupBody`, `lookup`, `indexArgs`) -/
theorem wrapper_meta_live :
    Gen.Lookup.matchMeta = ([0], [2], [0, 2]) ∧ Gen.Lookup.vlookupMeta = ([0], [2], [0, 2, 3]) ∧
    Gen.Lookup.hlookupMeta = ([0], [2], [0, 2, 3]) ∧ Gen.Lookup.lookupMeta = ([0], [], [0]) ∧
    Gen.Lookup.indexMeta = ([], [1, 2], [1, 2]) := by decide

/-! ### the order and bisect_right -/

/-- ascending in Excel order: every earlier cell is ≤ every later one -/
def SortedAsc (l : List Val) : Prop := l.Pairwise (fun u w => ltK (key w) (key u) = false)

/-- descending in Excel order -/
def SortedDesc (l : List Val) : Prop := l.Pairwise (fun u w => ltK (key u) (key w) = false)

theorem num_ne_na (q : Rat) : Val.num q ≠ na := by simp [na]

/-- **bisect_right, range form** (the call `_match` makes): on a blank-free slice `[lo, hi)` that is sorted
    ascending, the result `r` splits the slice: everything before `r` is ≤ x, everything from `r` on is > x. -/
theorem C16_bisect_range (x : Val) (a : List Val) (lo hi : Nat) (hlh : lo ≤ hi)
    (hnb : ∀ i, lo ≤ i → i < hi → cellAtIdx a i ≠ .blank)
    (hsort : ∀ i j, lo ≤ i → i ≤ j → j < hi → ltK (key (cellAtIdx a j)) (key (cellAtIdx a i)) = false) :
    lo ≤ bisectRight x a lo hi ∧ bisectRight x a lo hi ≤ hi ∧
    (∀ i, lo ≤ i → i < bisectRight x a lo hi → ltK (key x) (key (cellAtIdx a i)) = false) ∧
    (∀ i, bisectRight x a lo hi ≤ i → i < hi → ltK (key x) (key (cellAtIdx a i)) = true) := by
  have hg : ∀ i, lo ≤ i → i < hi → gtAt x a i = ltK (key x) (key (cellAtIdx a i)) := by
    intro i h1 h2
    simp only [gtAt]
    rw [keyAs_of_ne_blank x (hnb i h1 h2)]
  have mono : ∀ i j, lo ≤ i → i ≤ j → j < hi → gtAt x a i = true → gtAt x a j = true := by
    intro i j h1 h2 h3 h4
    rw [hg i h1 (by omega)] at h4
    rw [hg j (by omega) h3]
    exact lt_of_lt_of_le (key_ne_blank _) (key_ne_blank _) h4 (hsort i j h1 h2 h3)
  obtain ⟨b1, b2, b3, b4⟩ := bisectLoop_spec (gtAt x a) (hi - lo + 1) lo hi hlh (by omega) mono
  refine ⟨b1, b2, ?_, ?_⟩
  · intro i h1 h2; rw [← hg i h1 (by unfold bisectRight at h2; omega)]; exact b3 i h1 h2
  · intro i h1 h2; rw [← hg i (by unfold bisectRight at h1; omega) h2]; exact b4 i h1 h2

/-- **bisect_right on a whole list**: for ALL blank-free lists sorted w.r.t. the Excel order the result is the
    split point — every element before it is ≤ x, every element from it on is > x. -/
theorem C16_bisect (x : Val) (a : List Val) (hnb : NoBlank a) (hs : SortedAsc a) :
    bisectRight x a 0 a.length ≤ a.length ∧
    (∀ i (h : i < a.length), i < bisectRight x a 0 a.length → ltK (key x) (key a[i]) = false) ∧
    (∀ i (h : i < a.length), bisectRight x a 0 a.length ≤ i → ltK (key x) (key a[i]) = true) := by
  have hc : ∀ i (h : i < a.length), cellAtIdx a i = a[i] := by
    intro i h; simp [cellAtIdx, List.getD_eq_getElem?_getD, h]
  obtain ⟨_, b2, b3, b4⟩ := C16_bisect_range x a 0 a.length (Nat.zero_le _)
    (fun i _ h => by rw [hc i h]; exact hnb _ (List.getElem_mem h))
    (fun i j _ h2 h3 => by
      rw [hc i (by omega), hc j h3]
      by_cases hij : i = j
      · subst hij; exact ltK_irrefl _
      · exact (List.pairwise_iff_getElem.mp hs) i j (by omega) h3 (by omega))
  refine ⟨b2, ?_, ?_⟩
  · intro i h h2; rw [← hc i h]; exact b3 i (Nat.zero_le _) h2
  · intro i h h2; rw [← hc i h]; exact b4 i h2 h

/-! ### wildcards -/

/-- **wildcards**: the matcher used by MATCH(·,·,0) accepts exactly the texts the pattern denotes: a literal matches
    itself, `?` exactly one character, `*` any run of characters (`WMatch`). -/
theorem C16_wild_spec (ts : List PTok) (s : List Char) : wildT ts s = true ↔ WMatch ts s :=
  ⟨WMatch_of_wildT ts s, wildT_of_WMatch⟩

/-! ### MATCH(v, a, 0) -/

/-- "equals v (type-strict, case-insensitive, ?/* wildcards for text)": what `Matches` means, type by type.
    A blank or error cell never matches; a blank lookup value is read as the number 0 (code, not governed). -/
theorem C16_matches_spec (v x : Val) :
    Matches v x = true ↔
      match v, x with
      | .num p, .num q => q = p
      | .blank, .num q => q = 0
      | .bool a, .bool b => b = a
      | .str p, .str s =>
        if hasWild (lower p) = true then WMatch (parsePat (lower p)) (lower s) else lower s = lower p
      | _, _ => False := by
  cases v <;> cases x <;> simp [Matches, candidate, eqv, key, rank, Val.isErr]
  case str.str p s =>
    by_cases hw : hasWild (lower p) = true
    · simp [hw, wild, C16_wild_spec]
    · simp [hw]

/-- **C16 (exact)**: "MATCH(v, a, 0) returns the first position whose value equals v … or #N/A" — for every vector:
    either no cell matches and the answer is #N/A, or the answer is the 1-based position of a matching cell all of
    whose predecessors do not match. -/
theorem C16_exact (v : Val) (a : List Val) :
    (matchExact v a = na ∧ ∀ x ∈ a, Matches v x = false) ∨
    (∃ pre y post, a = pre ++ y :: post ∧ (∀ x ∈ pre, Matches v x = false) ∧ Matches v y = true ∧
      matchExact v a = .num ((pre.length + 1 : Nat) : Rat)) := by
  rcases scanExact_spec v a 1 with h | ⟨pre, y, post, h1, h2, h3, h4⟩
  · left; exact h
  · right; exact ⟨pre, y, post, h1, h2, h3, by rw [matchExact, h4, Nat.add_comm]⟩

/-- #N/A exactly when nothing matches -/
theorem C16_exact_na (v : Val) (a : List Val) :
    matchExact v a = na ↔ ∀ x ∈ a, Matches v x = false := by
  rcases C16_exact v a with ⟨h1, h2⟩ | ⟨pre, y, post, h1, _, h3, h4⟩
  · exact ⟨fun _ => h2, fun _ => h1⟩
  · constructor
    · intro h; rw [h4] at h; exact absurd h (num_ne_na _)
    · intro h; rw [h y (by rw [h1]; simp)] at h3; cases h3

/-- index form: a numeric answer `p` is in range, `a[p-1]` matches and no earlier cell does -/
theorem C16_exact_first (v : Val) (a : List Val) (q : Rat) (h : matchExact v a = .num q) :
    ∃ p : Nat, q = (p : Rat) ∧ 1 ≤ p ∧ p ≤ a.length ∧ (∃ y, a[p - 1]? = some y ∧ Matches v y = true) ∧
      ∀ j y, j < p - 1 → a[j]? = some y → Matches v y = false := by
  rcases C16_exact v a with ⟨h1, _⟩ | ⟨pre, y, post, h1, h2, h3, h4⟩
  · rw [h1] at h; exact absurd h.symm (num_ne_na _)
  · rw [h4] at h
    have hq : q = ((pre.length + 1 : Nat) : Rat) := by injection h with h; exact h.symm
    refine ⟨pre.length + 1, hq, by omega, by rw [h1]; simp, ⟨y, by rw [h1]; simp, h3⟩, ?_⟩
    intro j z hj hz
    have hj' : j < pre.length := by omega
    rw [h1, List.getElem?_append_left hj'] at hz
    exact h2 z (List.mem_of_getElem? hz)

/-! ### MATCH(v, a, 1) on ascending data with blanks at the ends -/

theorem matchAsc_all_blank (v : Val) (k : Nat) : matchAsc v (blanks k) = na := by
  have hall : ∀ r, (∀ i, i < r → rank (cellAtIdx (blanks k) i) = rank v → cellAtIdx (blanks k) i = .blank) :=
    fun r i _ _ => cell_blank_all k i
  simp only [matchAsc]
  exact if_pos (backoff_blank (rank v) (blanks k) _ (hall _))

/-- **C16 (approximate, ascending)**: "on data sorted in Excel order MATCH(v, a, 1) returns a position holding the
    largest value <= v … of v's type" (or #N/A when there is none) — for every vector `blanks ++ core ++ blanks`
    whose blank-free core is ascending, of any length:
    either #N/A and every core cell of v's type is > v, or a position `p` whose cell `y` lies in the core, has
    v's type, is ≤ v, and is ≥ every core cell that is ≤ v. -/
theorem C16_approx_asc (v : Val) (m n : Nat) (core : List Val) (hnb : NoBlank core) (hs : SortedAsc core) :
    (matchAsc v (blanks m ++ core ++ blanks n) = na ∧
        ∀ x ∈ core, rank x = rank v → ltK (key v) (key x) = true) ∨
    (∃ (p : Nat) (y : Val), matchAsc v (blanks m ++ core ++ blanks n) = .num (p : Rat) ∧
        1 ≤ p ∧ p ≤ (blanks m ++ core ++ blanks n).length ∧ (blanks m ++ core ++ blanks n)[p - 1]? = some y ∧
        y ∈ core ∧ rank y = rank v ∧ ltK (key v) (key y) = false ∧
        ∀ x ∈ core, ltK (key v) (key x) = false → ltK (key y) (key x) = false) := by
  by_cases hne : core = []
  · subst hne
    left
    refine ⟨?_, by simp⟩
    have : blanks m ++ [] ++ blanks n = blanks (m + n) := by simp [blanks, List.replicate_append_replicate]
    rw [this]; exact matchAsc_all_blank v _
  · obtain ⟨a, ha⟩ : ∃ a, a = blanks m ++ core ++ blanks n := ⟨_, rfl⟩
    rw [← ha]
    have hcell : ∀ i, (h0 : m ≤ i) → (h : i < m + core.length) → cellAtIdx a i = core[i - m]'(by omega) := by
      intro i h1 h2
      have := cell_mid m n core (i - m) (by omega)
      rw [ha]
      rwa [show m + (i - m) = i by omega] at this
    have hmem : ∀ i, m ≤ i → (h : i < m + core.length) → cellAtIdx a i ∈ core := by
      intro i h1 h2; rw [hcell i h1 h2]; exact List.getElem_mem _
    have hsorted : ∀ i j, m ≤ i → i ≤ j → j < m + core.length →
        ltK (key (cellAtIdx a j)) (key (cellAtIdx a i)) = false := by
      intro i j h1 h2 h3
      rw [hcell i h1 (by omega), hcell j (by omega) h3]
      by_cases hij : i = j
      · subst hij; exact ltK_irrefl _
      · have e1 : i - m < core.length := by omega
        have e2 : j - m < core.length := by omega
        have e3 : i - m < j - m := by omega
        exact (List.pairwise_iff_getElem.mp hs) (i - m) (j - m) e1 e2 e3
    have hidx : ∀ x ∈ core, ∃ i, m ≤ i ∧ i < m + core.length ∧ cellAtIdx a i = x := by
      intro x hx
      obtain ⟨k, hk, rfl⟩ := List.mem_iff_getElem.mp hx
      exact ⟨m + k, by omega, by omega, by rw [ha]; exact cell_mid m n core k hk⟩
    rcases matchAsc_index v a m (m + core.length) (by omega) (by rw [ha]; exact leadBlanks_shape m n hne hnb)
        (by rw [ha]; exact trimHi_shape m n hne hnb) (fun i h => by rw [ha]; exact cell_low m n core i h)
        (fun i h1 h2 => hnb _ (hmem i h1 h2)) hsorted with ⟨h1, h2⟩ | ⟨r, h1, h2, h3, h4, h5, h6⟩
    · left
      refine ⟨h1, ?_⟩
      intro x hx hr
      obtain ⟨i, i1, i2, rfl⟩ := hidx x hx
      exact h2 i i1 i2 hr
    · right
      have hlen : a.length = m + core.length + n := by rw [ha]; simp [blanks]; omega
      have hget : a[r - 1]? = some (cellAtIdx a (r - 1)) := by
        have : r - 1 < a.length := by omega
        simp [cellAtIdx, List.getD_eq_getElem?_getD, this]
      refine ⟨r, cellAtIdx a (r - 1), h3, by omega, by omega, hget, hmem _ (by omega) (by omega), h4, h5, ?_⟩
      intro x hx hle
      obtain ⟨i, i1, i2, rfl⟩ := hidx x hx
      have := h6 i i1 i2 hle
      exact hsorted i (r - 1) i1 this (by omega)

/-- #N/A exactly when the core holds no cell of v's type that is ≤ v -/
theorem C16_approx_asc_na (v : Val) (m n : Nat) (core : List Val) (hnb : NoBlank core) (hs : SortedAsc core) :
    matchAsc v (blanks m ++ core ++ blanks n) = na ↔
      ∀ x ∈ core, rank x = rank v → ltK (key v) (key x) = true := by
  rcases C16_approx_asc v m n core hnb hs with ⟨h1, h2⟩ | ⟨p, y, h1, _, _, _, h5, h6, h7, _⟩
  · exact ⟨fun _ => h2, fun _ => h1⟩
  · constructor
    · intro h; rw [h1] at h; exact absurd h (num_ne_na _)
    · intro h; rw [h y h5 h6] at h7; cases h7

/-! ### MATCH(v, a, -1) on descending data (blank cells anywhere are ignored) -/

/-- a vector `blanks ++ core ++ blanks` with a descending blank-free core is descending once blanks are ignored -/
theorem descPW_shape (m n : Nat) (core : List Val) (hs : SortedDesc core) :
    DescPW (blanks m ++ core ++ blanks n) := by
  have hb : ∀ k, ∀ x ∈ blanks k, x = Val.blank := fun k x hx => (List.mem_replicate.mp hx).2
  unfold DescPW
  rw [List.pairwise_append, List.pairwise_append]
  refine ⟨⟨?_, ?_, ?_⟩, ?_, ?_⟩
  · exact List.pairwise_replicate.mpr (Or.inr (fun h _ => absurd rfl h))
  · exact hs.imp (fun h _ _ => h)
  · intro x hx y _ hxb; exact absurd (hb m x hx) hxb
  · exact List.pairwise_replicate.mpr (Or.inr (fun h _ => absurd rfl h))
  · intro x _ y hy _ hyb; exact absurd (hb n y hy) hyb

/-- **C16 (approximate, descending)**: "MATCH(v, a, -1) [returns a position] holding the smallest value >= v, of
    v's type" (or #N/A when there is none) — for every vector that is descending once blank cells are ignored
    (in particular `blanks ++ descending core ++ blanks`, see `descPW_shape`), of any length:
    either #N/A and no cell is of v's type and ≥ v, or the 1-based position of a cell `y` of v's type with
    y ≥ v that is ≤ every cell of v's type that is ≥ v. -/
theorem C16_approx_desc (v : Val) (a : List Val) (hs : DescPW a) :
    (matchDesc v a = na ∧ ∀ x ∈ a, AtLeast v x = false) ∨
    (∃ pre y post, a = pre ++ y :: post ∧ AtLeast v y = true ∧
      matchDesc v a = .num ((pre.length + 1 : Nat) : Rat) ∧
      ∀ x ∈ a, AtLeast v x = true → ltK (key x) (key y) = false) := by
  rcases scanDesc_spec v a 1 na hs with ⟨h1, h2⟩ | ⟨pre, y, post, h1, h2, h3, h4⟩
  · left; exact ⟨h2, h1⟩
  · right; exact ⟨pre, y, post, h1, h2, by rw [matchDesc, h3, Nat.add_comm], h4⟩

/-- #N/A exactly when no cell of v's type is ≥ v -/
theorem C16_approx_desc_na (v : Val) (a : List Val) (hs : DescPW a) :
    matchDesc v a = na ↔ ∀ x ∈ a, AtLeast v x = false := by
  rcases C16_approx_desc v a hs with ⟨h1, h2⟩ | ⟨pre, y, post, h1, h2, h3, _⟩
  · exact ⟨fun _ => h2, fun _ => h1⟩
  · constructor
    · intro h; rw [h3] at h; exact absurd h (num_ne_na _)
    · intro h; rw [h y (by rw [h1]; simp)] at h2; cases h2

/-- what `AtLeast` means: not blank, not an error, of v's type, and not below v -/
theorem C16_atLeast_spec (v x : Val) :
    AtLeast v x = true ↔ x ≠ .blank ∧ x.isErr = false ∧ rank x = rank v ∧ ltK (key x) (key v) = false := by
  simp [AtLeast, candidate]
  constructor
  · rintro ⟨⟨⟨h1, h2⟩, h3⟩, h4⟩; exact ⟨h2, h1, h3, h4⟩
  · rintro ⟨h1, h2, h3, h4⟩; exact ⟨⟨⟨h2, h1⟩, h3⟩, h4⟩

/-! ### VLOOKUP / HLOOKUP / LOOKUP = INDEX at the position MATCH finds -/

/-- a vector written as a one-column array (what `match` receives for a column range) -/
def colArr (l : List Val) : Arr := l.map fun x => [x]

theorem vecOf_colArr (l : List Val) : vecOf (colArr l) = l := by
  unfold vecOf
  split
  · rename_i h
    match l, h with
    | [x], _ => rfl
  · simp [firstCol, colArr, List.map_map, Function.comp_def]

theorem vecOf_row (r : List Val) : vecOf [r] = r := by simp [vecOf]

/-- MATCH with a numeric match type and a non-error lookup value is `_match` on the vector -/
theorem xmatch_num (v : Val) (arr : Arr) (mt : Rat) (hv : v.isErr = false) :
    xmatch v arr (.num mt) = pmatch v (vecOf arr) mt := by simp [xmatch, numArg, hv]

/-- INDEX(t, r, c) with r, c ≥ 1 reads `t[r-1][c-1]`, #REF! when there is no such cell -/
theorem index_nat (t : Arr) (r c : Nat) (hr : 1 ≤ r) (hc : 1 ≤ c) :
    index t (.num (r : Rat)) (some (.num (c : Rat))) =
      .cell ((t[r - 1]?.bind (·[c - 1]?)).getD (.err .ref)) := by
  have e1 := natCast_ne_zero hr
  have e2 := natCast_ne_zero hc
  have e3 := natCast_not_neg r
  have e4 := natCast_not_neg c
  simp only [index, indexArgs, Option.getD_some, Val.isErr, Bool.false_eq_true, ↓reduceIte, numArg, ne_eq, e1,
    not_false_eq_true, e2, and_self, e3, e4, or_self, cellAt, nth?_nat t r hr, fun l : List Val => nth?_nat l c hc]

/-- **C16 (INDEX, in range)**: inside the table INDEX returns exactly the addressed cell. -/
theorem C16_index_in_range (t : Arr) (r c : Nat) (hr : 1 ≤ r) (hc : 1 ≤ c) (h1 : r - 1 < t.length)
    (h2 : c - 1 < (t[r - 1]'h1).length) :
    index t (.num (r : Rat)) (some (.num (c : Rat))) = .cell ((t[r - 1]'h1)[c - 1]'h2) := by
  rw [index_nat t r c hr hc]
  simp [h1, h2]

/-- **C16 (INDEX, out of range)**: "out-of-range indices yield #REF!/#VALUE! rather than a wrong cell" — a row
    beyond the last row or a column beyond every row's end gives #REF!, a negative index gives #VALUE!. -/
theorem C16_index_out_of_range (t : Arr) :
    (∀ r c : Nat, 1 ≤ r → 1 ≤ c → t.length < r →
        index t (.num (r : Rat)) (some (.num (c : Rat))) = .cell (.err .ref)) ∧
    (∀ r c : Nat, 1 ≤ r → 1 ≤ c → (∀ row ∈ t, row.length < c) →
        index t (.num (r : Rat)) (some (.num (c : Rat))) = .cell (.err .ref)) ∧
    (∀ q1 q2 : Rat, q1 < 0 ∨ q2 < 0 → index t (.num q1) (some (.num q2)) = .cell (.err .value)) := by
  refine ⟨?_, ?_, ?_⟩
  · intro r c hr hc h
    rw [index_nat t r c hr hc]
    have : t[r - 1]? = none := by simp; omega
    simp [this]
  · intro r c hr hc h
    rw [index_nat t r c hr hc]
    cases hrow : t[r - 1]? with
    | none => simp
    | some row =>
      have := h row (List.mem_of_getElem? hrow)
      have : row[c - 1]? = none := by simp; omega
      simp [this]
  · intro q1 q2 h
    simp only [index, indexArgs, Option.getD_some, Val.isErr, Bool.false_eq_true, ↓reduceIte, numArg, ne_eq]
    by_cases h1 : q1 = 0 <;> by_cases h2 : q2 = 0
    · subst h1; subst h2; rcases h with h | h <;> exact absurd h (by decide)
    · subst h1
      have : q2 < 0 := by rcases h with h | h; exact absurd h (by decide); exact h
      simp [h2, this]
    · subst h2
      have : q1 < 0 := by rcases h with h | h; exact h; exact absurd h (by decide)
      simp [h1, this]
    · simp [h1, h2, h]

theorem firstCol_length (t : Arr) : (firstCol t).length = t.length := by simp [firstCol]

/-- shared form of the VLOOKUP/HLOOKUP body for an in-range natural index -/
theorem xlookupBody_nat (v : Val) (vec : List Val) (limit c : Nat) (rl : Val) (pick : Rat → Rat → Option Val)
    (hv : v.isErr = false) (hrl : rl.isErr = false) (h1 : 1 ≤ c) (h2 : c ≤ limit) :
    xlookupBody v vec limit (.num (c : Rat)) rl pick =
      onPos (pmatch v vec (if truthy rl then 1 else 0)) fun idx => (pick idx (c : Rat)).getD (.err .ref) := by
  have e1 := natCast_not_le_zero h1
  have e2 : ¬ ((c : Nat) : Rat) > ((limit : Nat) : Rat) := by
    rw [gt_iff_lt, Rat.not_lt]; exact Rat.natCast_le_natCast.mpr h2
  simp only [xlookupBody, numArg, hv, hrl, Bool.false_eq_true, ↓reduceIte, e1, e2]

/-- **C16 (VLOOKUP)**: "VLOOKUP … return[s] the cell that INDEX would return at the position MATCH finds" —
    for a column index inside the table: either MATCH on the first column (match type 1 when range_lookup is true,
    0 otherwise) answers a position `p` — then `p` is a row of the table and VLOOKUP is INDEX(table, p, c) —
    or MATCH answers an error and VLOOKUP returns that error. -/
theorem C16_vlookup (v : Val) (t : Arr) (c : Nat) (rl : Val) (hv : v.isErr = false) (hrl : rl.isErr = false)
    (h1 : 1 ≤ c) (h2 : c ≤ width t) :
    (∃ p : Nat, xmatch v (colArr (firstCol t)) (.num (if truthy rl then 1 else 0)) = .num (p : Rat) ∧
        1 ≤ p ∧ p ≤ t.length ∧
        index t (.num (p : Rat)) (some (.num (c : Rat))) = .cell (vlookup v t (.num (c : Rat)) rl)) ∨
    ((∀ q, xmatch v (colArr (firstCol t)) (.num (if truthy rl then 1 else 0)) ≠ .num q) ∧
        vlookup v t (.num (c : Rat)) rl = xmatch v (colArr (firstCol t)) (.num (if truthy rl then 1 else 0))) := by
  rw [xmatch_num _ _ _ hv, vecOf_colArr]
  unfold vlookup
  rw [xlookupBody_nat v _ _ c rl _ hv hrl h1 h2]
  cases hp : pmatch v (firstCol t) (if truthy rl then 1 else 0) with
  | num q =>
    left
    obtain ⟨p, rfl, p1, p2⟩ := pmatch_range _ _ _ _ hp
    rw [firstCol_length] at p2
    refine ⟨p, rfl, p1, p2, ?_⟩
    rw [index_nat t p c p1 h1]
    simp only [onPos, cellAt, nth?_nat t p p1, fun l : List Val => nth?_nat l c h1]
  | str _ => right; exact ⟨fun q h => (by cases h), rfl⟩
  | bool _ => right; exact ⟨fun q h => (by cases h), rfl⟩
  | blank => right; exact ⟨fun q h => (by cases h), rfl⟩
  | err _ => right; exact ⟨fun q h => (by cases h), rfl⟩

/-- **C16 (HLOOKUP)**: the same with rows and columns exchanged: MATCH runs along the first row, the answer is
    INDEX(table, r, p). -/
theorem C16_hlookup (v : Val) (t : Arr) (r : Nat) (rl : Val) (hv : v.isErr = false) (hrl : rl.isErr = false)
    (h1 : 1 ≤ r) (h2 : r ≤ t.length) :
    (∃ p : Nat, xmatch v [t.headD []] (.num (if truthy rl then 1 else 0)) = .num (p : Rat) ∧
        1 ≤ p ∧ p ≤ width t ∧
        index t (.num (r : Rat)) (some (.num (p : Rat))) = .cell (hlookup v t (.num (r : Rat)) rl)) ∨
    ((∀ q, xmatch v [t.headD []] (.num (if truthy rl then 1 else 0)) ≠ .num q) ∧
        hlookup v t (.num (r : Rat)) rl = xmatch v [t.headD []] (.num (if truthy rl then 1 else 0))) := by
  rw [xmatch_num _ _ _ hv, vecOf_row]
  unfold hlookup
  rw [xlookupBody_nat v _ _ r rl _ hv hrl h1 h2]
  cases hp : pmatch v (t.headD []) (if truthy rl then 1 else 0) with
  | num q =>
    left
    obtain ⟨p, rfl, p1, p2⟩ := pmatch_range _ _ _ _ hp
    refine ⟨p, rfl, p1, p2, ?_⟩
    rw [index_nat t r p h1 p1]
    simp only [onPos, cellAt, nth?_nat t r h1, fun l : List Val => nth?_nat l p p1]
  | str _ => right; exact ⟨fun q h => (by cases h), rfl⟩
  | bool _ => right; exact ⟨fun q h => (by cases h), rfl⟩
  | blank => right; exact ⟨fun q h => (by cases h), rfl⟩
  | err _ => right; exact ⟨fun q h => (by cases h), rfl⟩

/-- **C16 (LOOKUP)**: LOOKUP is INDEX(result vector, p) at the position `p` MATCH (type 1) finds in the lookup
    vector; the result vector is the last column/row of the array (array form) or the given vector; a result range
    that is not a vector gives #N/A. -/
theorem C16_lookup (v : Val) (t : Arr) (rr : Option Arr) (res : List Val) (hv : v.isErr = false)
    (hres : resultOf t rr = some res) :
    (∃ p : Nat, xmatch v (colArr (lookupVecs t).1) (.num 1) = .num (p : Rat) ∧ 1 ≤ p ∧
        index (colArr res) (.num (p : Rat)) (some (.num ((1 : Nat) : Rat))) = .cell (lookup v t rr)) ∨
    ((∀ q, xmatch v (colArr (lookupVecs t).1) (.num 1) ≠ .num q) ∧
        lookup v t rr = xmatch v (colArr (lookupVecs t).1) (.num 1)) := by
  rw [xmatch_num _ _ _ hv, vecOf_colArr]
  simp only [lookup, hv, Bool.false_eq_true, ↓reduceIte, hres]
  cases hp : pmatch v (lookupVecs t).1 1 with
  | num q =>
    left
    obtain ⟨p, rfl, p1, _⟩ := pmatch_range _ _ _ _ hp
    refine ⟨p, rfl, p1, ?_⟩
    rw [index_nat (colArr res) p 1 p1 (by omega)]
    simp only [onPos, nth?_nat res p p1]
    congr 1
    simp only [colArr, List.getElem?_map]
    cases res[p - 1]? <;> simp
  | str _ => right; exact ⟨fun q h => (by cases h), rfl⟩
  | bool _ => right; exact ⟨fun q h => (by cases h), rfl⟩
  | blank => right; exact ⟨fun q h => (by cases h), rfl⟩
  | err _ => right; exact ⟨fun q h => (by cases h), rfl⟩

theorem C16_lookup_not_vector (v : Val) (t r : Arr) (hv : v.isErr = false) (h : resultVec r = none) :
    lookup v t (some r) = na := by
  simp [lookup, resultOf, hv, h]

/-! ### VLOOKUP on a table = HLOOKUP on its transpose -/

/-- a non-empty rectangular table -/
def Rect (t : Arr) : Prop := 0 < width t ∧ ∀ row ∈ t, row.length = width t

theorem transpose_length (t : Arr) : (transpose t).length = width t := by simp [transpose]

theorem getD_zero_eq_headD (l : List Val) : l.getD 0 .blank = l.headD .blank := by cases l <;> rfl

theorem transpose_head (t : Arr) (h : 0 < width t) : (transpose t).headD [] = firstCol t := by
  unfold transpose
  obtain ⟨w, hw⟩ : ∃ w, width t = w + 1 := ⟨width t - 1, by omega⟩
  rw [hw, List.range_succ_eq_map]
  simp only [firstCol, List.map_cons, List.headD_cons]
  apply List.map_congr_left
  intro a _; exact getD_zero_eq_headD a

theorem cellAt_transpose (t : Arr) (h : Rect t) (r c : Rat) : cellAt t r c = cellAt (transpose t) c r := by
  simp only [cellAt, nth?]
  generalize (r.floor - 1).toNat = i
  generalize (c.floor - 1).toNat = j
  by_cases hj : j < width t
  · have : (transpose t)[j]? = some (t.map fun rw => rw.getD j .blank) := by
      simp [transpose, hj]
    rw [this]
    simp only [Option.bind_some, List.getElem?_map]
    cases hrow : t[i]? with
    | none => simp
    | some row =>
      have hl := h.2 row (List.mem_of_getElem? hrow)
      have : j < row.length := by omega
      simp [List.getD_eq_getElem?_getD, this]
  · have : (transpose t)[j]? = none := by simp [transpose]; omega
    rw [this]
    cases hrow : t[i]? with
    | none => simp
    | some row =>
      have hl := h.2 row (List.mem_of_getElem? hrow)
      have : row[j]? = none := by simp; omega
      simp [this]

/-- **C16 (transpose)**: "VLOOKUP on a table equals HLOOKUP on its transpose" — for every rectangular table, every
    lookup value, index argument (in range or not, any type) and range_lookup argument. -/
theorem C16_transpose (v : Val) (t : Arr) (k rl : Val) (h : Rect t) :
    vlookup v t k rl = hlookup v (transpose t) k rl := by
  unfold vlookup hlookup
  rw [transpose_head t h.1, transpose_length]
  congr 1
  funext idx k
  exact cellAt_transpose t h idx k

/-! ### out-of-range indices -/

/-- **C16 (out of range)**: "out-of-range indices yield #REF!/#VALUE! rather than a wrong cell" — for VLOOKUP and
    HLOOKUP, whatever the lookup finds: an index ≤ 0 gives #VALUE!, an index beyond the table gives #REF!. -/
theorem C16_out_of_range (v : Val) (t : Arr) (k rl : Val) (q : Rat) (hk : numArg k = .ok q)
    (hv : v.isErr = false) (hrl : rl.isErr = false) :
    (q ≤ 0 → vlookup v t k rl = .err .value ∧ hlookup v t k rl = .err .value) ∧
    (q > ((width t : Nat) : Rat) → vlookup v t k rl = .err .ref) ∧
    (q > ((t.length : Nat) : Rat) → hlookup v t k rl = .err .ref) := by
  have pos : ∀ n : Nat, q > ((n : Nat) : Rat) → ¬ q ≤ 0 := by
    intro n h1 h2
    have h3 : ((0 : Nat) : Rat) ≤ ((n : Nat) : Rat) := Rat.natCast_le_natCast.mpr (Nat.zero_le n)
    have h4 : q ≤ ((n : Nat) : Rat) := Std.le_trans h2 (by simpa using h3)
    exact absurd h1 (Rat.not_lt.mpr h4)
  refine ⟨?_, ?_, ?_⟩
  · intro h; simp [vlookup, hlookup, xlookupBody, hk, hv, hrl, h]
  · intro h; have := pos _ h; simp [vlookup, xlookupBody, hk, hv, hrl, this, h]
  · intro h; have := pos _ h; simp [hlookup, xlookupBody, hk, hv, hrl, this, h]

/-- **never a wrong cell**: whenever VLOOKUP with an in-range index returns through a found position, the value is
    the table cell in that row and the requested column (it is never read from another place). -/
theorem C16_lookup_cell (v : Val) (t : Arr) (c : Nat) (rl : Val) (hv : v.isErr = false) (hrl : rl.isErr = false)
    (h1 : 1 ≤ c) (h2 : c ≤ width t) (p : Nat)
    (hp : pmatch v (firstCol t) (if truthy rl then 1 else 0) = .num (p : Rat)) (hp1 : 1 ≤ p) :
    vlookup v t (.num (c : Rat)) rl = ((t[p - 1]?.bind (·[c - 1]?)).getD (.err .ref)) := by
  unfold vlookup
  rw [xlookupBody_nat v _ _ c rl _ hv hrl h1 h2, hp]
  simp only [onPos, cellAt, nth?_nat t p hp1, fun l : List Val => nth?_nat l c h1]

/-! ### non-vacuity: the hypotheses are met by concrete mixed-type data and the functions answer as Excel does -/

section Examples

def exCore : List Val := [.num 1, .num 2, .num 2, .num 3, .str "a".toList, .str "B".toList, .bool false, .bool true]
def exVec : List Val := blanks 1 ++ exCore ++ blanks 2
def exDesc : List Val := [.blank, .bool true, .str "b".toList, .str "A".toList, .num 3, .num 1, .blank]
def exTable : Arr := [[.num 1, .str "x".toList], [.num 2, .str "y".toList], [.num 4, .str "z".toList]]

example : NoBlank exCore := by unfold NoBlank; decide +kernel
example : SortedAsc exCore := by unfold SortedAsc; decide +kernel
example : SortedDesc [Val.bool true, .str "b".toList, .str "A".toList, .num 3, .num 1] := by
  unfold SortedDesc; decide +kernel
example : DescPW exDesc := by unfold DescPW; decide +kernel
example : Rect exTable := by unfold Rect; decide +kernel
-- largest value ≤ 2.5 among numbers: the second 2 (position 4 counting the leading blank)
example : matchAsc (.num (5/2)) exVec = .num 4 := by decide +kernel
-- text lookup lands in the text segment, case-insensitively; nothing of the type ≤ v gives #N/A
example : matchAsc (.str "b".toList) exVec = .num 7 := by decide +kernel
example : matchAsc (.num 0) exVec = na := by decide +kernel
-- smallest value ≥ 2 among numbers, ignoring the blanks
example : matchDesc (.num 2) exDesc = .num 5 := by decide +kernel
example : matchDesc (.num 4) exDesc = na := by decide +kernel
-- exact: first match, wildcards, type-strict (the text "1" is not the number 1), blank never equals 0
example : matchExact (.str "?".toList) exVec = .num 6 := by decide +kernel
example : matchExact (.str "~?".toList) [.str "a".toList, .str "?".toList] = .num 2 := by decide +kernel
example : matchExact (.num 2) exVec = .num 3 := by decide +kernel
example : matchExact (.num 1) [.str "1".toList, .num 1] = .num 2 := by decide +kernel
example : matchExact (.num 0) [.blank, .str "a".toList] = na := by decide +kernel
example : WMatch (parsePat "a*c?".toList) "abbcd".toList :=
  .lit 'a' (.many "bb".toList (.lit 'c' (.one 'd' .nil)))
example : vlookup (.num 3) exTable (.num 2) (.bool true) = .str "y".toList := by decide +kernel
example : hlookup (.num 3) (transpose exTable) (.num 2) (.bool true) = .str "y".toList := by decide +kernel
example : vlookup (.num 3) exTable (.num 2) (.bool false) = na := by decide +kernel
example : vlookup (.num 3) exTable (.num 3) (.bool true) = .err .ref := by decide +kernel
example : vlookup (.num 3) exTable (.num 0) (.bool true) = .err .value := by decide +kernel
example : index exTable (.num 3) (some (.num 2)) = .cell (.str "z".toList) := by decide +kernel
example : index exTable (.num 4) (some (.num 2)) = .cell (.err .ref) := by decide +kernel
example : lookup (.num 3) exTable none = .str "y".toList := by decide +kernel

end Examples

end Pycel.Lookup

/- C16: property theorems (not built yet). -/

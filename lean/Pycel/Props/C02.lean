/- C02: property theorems (not built yet). -/

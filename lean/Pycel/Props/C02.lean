/-
  C02 — Formula translation is meaning-preserving (precedence, associativity, literals).

  Statement (properties.jsonl): "Every well-formed Excel formula built from literals, references, parentheses, the
  unary, postfix and binary operators and function calls compiles to code whose result equals the result of
  evaluating the formula by Excel's grammar: negation binds tighter than %, then ^, then * /, then + -, then &, then
  comparisons, all binary operators left-associative, parentheses override. Literals denote themselves: a text
  literal yields exactly its characters (doubled quotes, backslashes, newlines, braces), numbers their value,
  TRUE/FALSE and error literals themselves."

  Model: Pycel/Model/Formula/*.lean (excelformula.py 53-150, 267-459, 641-822, 955-1028).
    tokens --amend--> `parseRpn` (shunting-yard, precedences from the LIVE table Generated/Prec.lean) --> `buildAst`
           --> `emit` (Python tokens) --> `pyParse` (model of Python's expression grammar) --> `evalPy`
  Specification side: `Surf` (surface syntax with redundant parentheses), `Surf.wf` (the levelled grammar of the
  statement), `erase` (the tree it denotes), `toPy` / `evalExcel` (its meaning).
  Operator run-time semantics are a parameter `sem : Sem α` (they belong to C10); the theorems hold for every `sem`.
-/
import Pycel.Lemmas.FormulaParse
import Pycel.Lemmas.FormulaEmit
import Pycel.Lemmas.FormulaNumber
import Pycel.Lemmas.FormulaAmend
import Pycel.Model.Formula.OpsSem
namespace Pycel.Formula

/-! ### "negation binds tighter than %, then ^, then * /, then + -, then &, then comparisons" — the live table -/

/-- the precedences read from `Token.precedences` are strictly ordered as the statement says -/
theorem C02_levels :
    (Tok.prec .pre).1 > (Tok.prec .post).1 ∧ (Tok.prec .post).1 > (Tok.prec (.inf .pow)).1 ∧
    (Tok.prec (.inf .pow)).1 > (Tok.prec (.inf .mul)).1 ∧ (Tok.prec (.inf .mul)).1 = (Tok.prec (.inf .div)).1 ∧
    (Tok.prec (.inf .div)).1 > (Tok.prec (.inf .add)).1 ∧ (Tok.prec (.inf .add)).1 = (Tok.prec (.inf .sub)).1 ∧
    (Tok.prec (.inf .sub)).1 > (Tok.prec (.inf .concat)).1 ∧
    ∀ c ∈ [InOp.eq, .lt, .gt, .le, .ge, .ne], (Tok.prec (.inf .concat)).1 > (Tok.prec (.inf c)).1 ∧
      (Tok.prec (.inf c)).1 = (Tok.prec (.inf .eq)).1 := by decide

/-- "all binary operators left-associative" (and `%` too; the prefix minus is the only right-associative token) -/
theorem C02_left_assoc : (∀ op : InOp, (Tok.prec (.inf op)).2 = true) ∧ (Tok.prec .post).2 = true ∧
    (Tok.prec .pre).2 = false := by
  refine ⟨fun op => by cases op <;> decide, by decide, by decide⟩

/-- the live table is exactly the level assignment of the specification grammar (`Surf.wf` uses these levels) -/
theorem C02_table_is_spec :
    Tok.prec .pre = (negLevel, false) ∧ Tok.prec .post = (pctLevel, true) ∧
    ∀ op : InOp, Tok.prec (.inf op) = (op.level, true) := prec_spec

/-! ### "Every well-formed Excel formula ... by Excel's grammar ... parentheses override" — the parse -/

/-- shunting-yard inverts the grammar: for EVERY well-formed surface expression (any nesting of prefix minus, `%`,
    the twelve binary operators, redundant parentheses, function calls with any number of arguments incl. missing
    ones) the main loop of `_parse_to_rpn` outputs the RPN of the tree the grammar assigns -/
theorem C02_parse (s : Surf) (h : s.wf = true) : parseRpn (atoks s) = some (rpn (erase s)) :=
  parseRpn_atoks s h

/-- the amend step (FUNC OPEN -> function + parenthesis, EMPTY operands for missing arguments) produces exactly the
    stream `C02_parse` speaks about, for every surface expression the tokenizer can produce (`rawOk`: a missing
    argument occurs only as an argument of a call, and `F()` has none) -/
theorem C02_amend (s : Surf) (h : s.rawOk = true) : amend (toks s) = atoks s := amend_toks_all s h

/-- `_parse_to_rpn` from the tokenizer's items to the RPN of the grammar's tree -/
theorem C02_parse_raw (s : Surf) (h : s.wf = true) (hr : s.rawOk = true) : parseRaw (toks s) = some (rpn (erase s)) := by
  rw [parseRaw, C02_amend s hr, C02_parse s h]

/-- `_build_ast` inverts `rpn`, for every tree -/
theorem C02_build (e : Expr) : buildAst (rpn e) = some e := buildAst_rpn e

/-- tokens → tree: `ExcelFormula.ast` is the tree of the grammar; in particular redundant parentheses change nothing -/
theorem C02_parse_tree (s : Surf) (h : s.wf = true) : parse (atoks s) = some (erase s) := by
  simp [parse, C02_parse s h, C02_build]

/-! ### "compiles to code whose result equals ..." — the emitted Python means the tree -/

/-- the emitted token list, read by Python's grammar, is the tree (same shape, Python operator names, `x%` as
    `x / 100`), for every emittable tree: the parenthesisation of `emit` is sufficient under Python's own
    precedences (`**` tighter than a unary minus on its left, unary minus tighter than `* /`, `&` looser than `+`) -/
theorem C02_emit (e : Expr) (h : e.emittable) : pyParse (emit e) = some (toPy e) := pyParse_emit e h

/-- every function name with a dedicated emitter in the LIVE `FunctionNode` is one `emitE` models (pi, true, false,
    array, arrayrow) or one of the five address-layer emitters documented as out of scope; every other function is
    emitted by the generic branch as the plain call `name(args…)` that `C02_emit` speaks about.  A new `func_*`
    handler (a function whose emission changes shape) breaks this theorem. -/
theorem C02_handlers : ∀ h ∈ Gen.funcHandlerNames, h ∈ emitHandlers ∨ h ∈ contextHandlers := by decide

/-- what was wrong before the `fix:` commit: `=-2^2` is the tree (−2)^2, the code as pinned emitted `-2 ** 2`,
    which Python reads as −(2^2) -/
theorem emit_current_counterexample :
    pyParse (emitCurrent (.bin .pow (.neg (.operand (.number ['2']))) (.operand (.number ['2'])))) =
      some (.neg (.bin .pow (.num ['2']) (.num ['2']))) ∧
    toPy (.bin .pow (.neg (.operand (.number ['2']))) (.operand (.number ['2']))) =
      .bin .pow (.neg (.num ['2'])) (.num ['2']) := ⟨by rfl, by rfl⟩

/-! ### "Literals denote themselves" -/

/-- a text literal yields exactly its characters, for EVERY character list (quotes, backslashes, newlines, braces):
    the TEXT token of `s` is emitted as a Python literal whose escape processing gives back `s` -/
theorem C02_literal_text (s : List Char) :
    pyParse (emit (.operand (.text (quoteText s)))) = some (.str s) := by
  have h := C02_emit (.operand (.text (quoteText s))) ⟨s, rfl⟩
  rw [h]; simp [toPy, toPyOperand, stripQuotes_quoteText, undouble_dbl]

/-- the same at the level of the literal body: unescape ∘ escape ∘ strip-quotes ∘ quote = id -/
theorem C02_literal (s : List Char) : pyUnescape (escBody true (stripQuotes (quoteText s))) = some s := by
  rw [stripQuotes_quoteText, escBody_dbl, pyUnescape_pyEsc]

/-- before the `fix:` commit: `="a\nb"` (backslash, n) denoted a newline, `="a\"` was not a Python literal -/
theorem literal_current_counterexample :
    pyUnescape (escBody false (stripQuotes (quoteText ['a', '\\', 'n', 'b']))) = some ['a', '\n', 'b'] ∧
    pyUnescape (escBody false (stripQuotes (quoteText ['a', '\\']))) = none := by decide

/-- numbers denote their value: every NUMBER token the decimal reading accepts (digits, optional fraction, optional
    exponent, leading zeros allowed) is emitted as a literal that Python accepts and that denotes the same exact
    rational; such an operand is therefore inside the scope of `C02_emit` -/
theorem C02_number (t : List Char) (h : (numValue? t).isSome = true) :
    pyNumValue? (emitNumber true t) = numValue? t ∧ (Expr.operand (.number t)).emittable := by
  have := pyNumValue_emitNumber t h
  exact ⟨this, by simp only [Expr.emittable, Operand.emittable]; rw [this]; exact h⟩

/-- before the `fix:` commit: `007` was emitted verbatim, which Python's grammar rejects -/
theorem number_current_counterexample :
    pyNumValue? (emitNumber false ['0', '0', '7']) = none ∧ (numValue? ['0', '0', '7']).isSome = true ∧
    emitNumber true ['0', '0', '7'] = ['7'] := by decide

/-- TRUE / FALSE and error literals denote themselves -/
theorem C02_literal_logical (b : Bool) :
    pyParse (emit (.operand (.logical b))) = some (.name (if b then nmTrue else nmFalse)) := by
  rw [C02_emit _ (by simp [Expr.emittable, Operand.emittable])]; rfl

theorem C02_literal_error (e : Err) : pyParse (emit (.operand (.error e))) = some (.str (errText e)) := by
  rw [C02_emit _ (by simp [Expr.emittable, Operand.emittable])]; rfl

/-! ### composition: the compiled code evaluates to the value of the formula by Excel's grammar -/

mutual
theorem evalPy_toPy (sem : Sem α) : ∀ (e : Expr), evalPy sem (toPy e) = evalExcel sem e
  | .operand o => by simp [toPy, evalExcel]
  | .neg e => by simp [toPy, evalExcel, evalPy, evalPy_toPy sem e]
  | .pct e => by simp [toPy, evalExcel, evalPy, evalPy_toPy sem e]
  | .bin op l r => by
    cases op <;> simp [toPy, evalExcel, evalPy, evalPyList, evalPy_toPy sem l, evalPy_toPy sem r]
  | .func name args => by
    have ih := evalPyList_toPy sem args
    by_cases h1 : pyFuncBase name = nmPi
    · simp [toPy, evalExcel, evalPy, h1]
    by_cases h2 : pyFuncBase name = ['t', 'r', 'u', 'e']
    · simp [toPy, evalExcel, evalPy, h2, nmPi]
    by_cases h3 : pyFuncBase name = ['f', 'a', 'l', 's', 'e']
    · simp [toPy, evalExcel, evalPy, h3, nmPi]
    by_cases h4 : pyFuncBase name = ['a', 'r', 'r', 'a', 'y'] ∨ pyFuncBase name = ['a', 'r', 'r', 'a', 'y', 'r', 'o', 'w']
    · simp only [toPy, evalExcel, h1, h2, h3, h4, if_true, if_false, evalPy, ih]
    · simp only [toPy, evalExcel, h1, h2, h3, h4, if_false, evalPy, ih]
theorem evalPyList_toPy (sem : Sem α) : ∀ (es : List Expr), evalPyList sem (toPyList es) = evalExcelList sem es
  | [] => rfl
  | e :: es => by simp [toPyList, evalPyList, evalExcelList, evalPy_toPy sem e, evalPyList_toPy sem es]
end

/-- **C02 (soundness)**: for every well-formed surface expression whose tree is emittable, every run-time semantics
    `sem` (hence every environment of cell values: cell reads are `sem.call "_C_"`), parsing the tokens, emitting
    Python, reading it by Python's grammar and evaluating gives the value of the tree the grammar assigns -/
theorem C02_sound (sem : Sem α) (s : Surf) (h : s.wf = true) (he : (erase s).emittable) :
    ((parse (atoks s)).bind fun e => (pyParse (emit e)).map (evalPy sem)) = some (evalExcel sem (erase s)) := by
  simp [C02_parse_tree s h, C02_emit _ he, evalPy_toPy]

/-- the same from the tokenizer's items (amend step included) -/
theorem C02_sound_raw (sem : Sem α) (s : Surf) (h : s.wf = true) (hr : s.rawOk = true) (he : (erase s).emittable) :
    (((parseRaw (toks s)).bind buildAst).bind fun e => (pyParse (emit e)).map (evalPy sem)) =
      some (evalExcel sem (erase s)) := by
  simp [C02_parse_raw s h hr, C02_build, C02_emit _ he, evalPy_toPy]

/-- **the instance the correspondence runs**: with C10's operator model (`Pycel.Ops.fixup` over the concrete Python
    kernels, literals as Python reads them, cell reads from `env`, `eval_func`'s blank -> 0) as the run-time
    semantics, the value of the compiled code is the value of the formula by Excel's grammar.  `opsSem` is exactly
    what `drv_c02` evaluates (`c02 val`), so a precedence / associativity defect of the implementation shows as a
    difference between `eval_formula` and `finalValue (evalExcel (opsSem env) (erase s))` on mixed-type operands. -/
theorem C02_sound_ops (env : List (List Char × Val)) (s : Surf) (h : s.wf = true) (hr : s.rawOk = true)
    (he : (erase s).emittable) :
    (((parseRaw (toks s)).bind buildAst).bind fun e =>
        (pyParse (emit e)).map fun p => finalValue (evalPy (opsSem env) p)) =
      some (finalValue (evalExcel (opsSem env) (erase s))) := by
  simp [C02_parse_raw s h hr, C02_build, C02_emit _ he, evalPy_toPy]

/-! ### non-vacuity -/

/-- `-2^2` is well-formed as (−2)^2, and only so -/
example : (Surf.bin .pow (.neg (.operand (.number ['2']))) (.operand (.number ['2']))).wf = true := by decide
example : (Surf.neg (.bin .pow (.operand (.number ['2'])) (.operand (.number ['2'])))).wf = false := by decide
example : parseRpn [.pre, .operand (.number ['2']), .inf .pow, .operand (.number ['2'])] =
    some [.operand (.number ['2']), .pre, .operand (.number ['2']), .inf .pow] := by decide
/-- `SUM(1+2*3, , (4))%` : function call with a missing argument, postfix %, redundant parentheses -/
example : (Surf.pct (.func ['S', 'U', 'M'] [.bin .add (.operand (.number ['1'])) (.bin .mul (.operand (.number ['2']))
    (.operand (.number ['3']))), .operand .empty, .paren (.operand (.number ['4']))])).wf = true := by decide
example : parseRpn (atoks (Surf.pct (.func ['S', 'U', 'M'] [.bin .add (.operand (.number ['1']))
      (.bin .mul (.operand (.number ['2'])) (.operand (.number ['3']))), .operand .empty,
      .paren (.operand (.number ['4']))]))) =
    some [.operand (.number ['1']), .operand (.number ['2']), .operand (.number ['3']), .inf .mul, .inf .add,
      .operand .empty, .operand (.number ['4']), .func ['S', 'U', 'M'] 3, .post] := by decide
example : (Surf.pct (.func ['S', 'U', 'M'] [.bin .add (.operand (.number ['1'])) (.bin .mul (.operand (.number ['2']))
    (.operand (.number ['3']))), .operand .empty, .paren (.operand (.number ['4']))])).rawOk = true := by decide
/-- an emittable tree with every kind of node -/
example : (Expr.bin .lt (.pct (.neg (.operand (.range ['A', '1']))))
    (.func ['M', 'A', 'X'] [.operand (.text (quoteText ['a', '"', '\\'])), .operand (.number ['0', '0', '7'])])).emittable := by
  refine ⟨rfl, ?_, ⟨by decide, by decide⟩, ⟨['a', '"', '\\'], rfl⟩, ?_, trivial⟩
  · show pyUnescape _ = some _; decide
  · show (pyNumValue? _).isSome = true; decide

end Pycel.Formula

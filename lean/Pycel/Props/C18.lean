/-
  C18 — Radix conversions are exact inverses on Excel's 10-digit two's-complement range.

  Statement (properties.jsonl): "DEC2BIN/DEC2OCT/DEC2HEX followed by BIN2DEC/OCT2DEC/HEX2DEC is the identity on
  -512..511, -2^29..2^29-1 and -2^39..2^39-1 respectively, negative numbers are rendered as 10-digit two's
  complement, the direct base-to-base functions equal the composition through decimal, places pads with zeros or
  yields #NUM! when too small, and anything outside the range or alphabet yields #NUM!/#VALUE! rather than a
  value or an exception."

  Model: Pycel/Model/Radix.lean (engineering.py:25-92).  `mask` comes from Generated/Consts.lean, regenerated from
  the live `_SIZE_MASK` on every run, so `mask_spec` below is re-proved against the code's table.
-/
import Pycel.Lemmas.Radix
namespace Pycel.Radix
open Pycel

def Base (b : Nat) : Prop := b = 2 ∨ b = 8 ∨ b = 16
def InRange (b : Nat) (i : Int) : Prop := -(mask b : Int) ≤ i ∧ i < (mask b : Int)

/-- the live `_SIZE_MASK` table is half of base^10 for each base: 10 digits, top bit = sign -/
theorem mask_spec (b : Nat) (hb : Base b) : 2 * mask b = b ^ 10 := by
  rcases hb with h | h | h <;> subst h <;> decide

theorem mask_ranges : mask 2 = 512 ∧ mask 8 = 2 ^ 29 ∧ mask 16 = 2 ^ 39 := by decide

private theorem base_pos {b : Nat} (hb : Base b) : 0 < b ∧ b ≤ 16 := by
  rcases hb with h | h | h <;> subst h <;> omega

private theorem pyInt_int (i : Int) : pyInt? (.num (i : Rat)) = some i := by
  simp only [pyInt?]
  by_cases h : (i : Rat) ≥ 0
  · simp [h, Rat.floor_intCast]
  · simp only [h, ↓reduceIte]
    have : (-(i : Rat)) = ((-i : Int) : Rat) := by simp
    rw [this, Rat.floor_intCast]; simp

/-- the two's-complement code of `i`: `i` itself when non-negative, `i + base^10` otherwise -/
def code (b : Nat) (i : Int) : Nat := (if i < 0 then i + 2 * (mask b : Int) else i).toNat

theorem dec2base_int (b : Nat) (i : Int) (h : InRange b i) :
    dec2base (.num (i : Rat)) none b = .str (render b (code b i)) := by
  obtain ⟨h1, h2⟩ := h
  simp only [dec2base, pyInt_int, Bool.false_and, Bool.false_eq_true, ↓reduceIte, placesOf?, code]
  simp [h1, h2]

/-- decoding the rendering of any code `n < base^10` gives the signed value -/
theorem base2dec_render (b : Nat) (hb : Base b) (n : Nat) (hn : n < b ^ 10) :
    base2dec (.str (render b n)) b
      = .num ((((n : Int) - 2 * (((n / mask b) % 2 * mask b : Nat) : Int) : Int)) : Rat) := by
  obtain ⟨hb0, hb16⟩ := base_pos hb
  have hlen := render_length b n
  have hof := ofDigits_render b hb0 hb16 n
  rw [Nat.mod_eq_of_lt hn] at hof
  have hne : (render b n).isEmpty = false := by
    cases hr : render b n with
    | nil => rw [hr] at hlen; simp at hlen
    | cons c cs => rfl
  unfold base2dec
  simp only [hne, Bool.false_eq_true, ↓reduceIte, hof, hlen.1]

/-- **C18 (round trip)**: DEC2x then x2DEC is the identity on the whole signed 10-digit range of each base. -/
theorem C18_roundtrip (b : Nat) (hb : Base b) (i : Int) (h : InRange b i) :
    base2dec (dec2base (.num (i : Rat)) none b) b = .num (i : Rat) := by
  have hm := mask_spec b hb
  obtain ⟨h1, h2⟩ := h
  have hcode : code b i < b ^ 10 := by
    unfold code; split <;> omega
  rw [dec2base_int b i ⟨h1, h2⟩, base2dec_render b hb _ hcode]
  congr 2
  have hmpos : 0 < mask b := by omega
  unfold code
  split
  · -- negative: code = i + 2m, m ≤ code < 2m, sign bit 1
    rename_i hneg
    have hc : (i + 2 * (mask b : Int)).toNat / mask b = 1 := by
      apply Nat.div_eq_of_lt_le <;> omega
    rw [hc]; omega
  · rename_i hpos
    have hc : i.toNat / mask b = 0 := by
      apply Nat.div_eq_of_lt; omega
    rw [hc]; omega

/-- **C18 (two's complement)**: a negative number is rendered with exactly 10 digits, and those digits are the
    code `i + base^10`. -/
theorem C18_twos_complement (b : Nat) (hb : Base b) (i : Int) (h : InRange b i) (hneg : i < 0) :
    ∃ s, dec2base (.num (i : Rat)) none b = .str s ∧ s.length = 10 ∧
      ofDigits? b s 0 = some (i + (b : Int) ^ 10).toNat := by
  obtain ⟨hb0, hb16⟩ := base_pos hb
  have hm := mask_spec b hb
  obtain ⟨h1, h2⟩ := h
  refine ⟨render b (code b i), dec2base_int b i ⟨h1, h2⟩, ?_, ?_⟩
  · -- the leading digit is non-zero, so nothing is stripped
    have hcode : b ^ 9 ≤ code b i := by
      have : b ^ 10 = b * b ^ 9 := by rw [Nat.pow_succ, Nat.mul_comm]
      unfold code; simp only [hneg, ↓reduceIte]
      have hb2 : 2 ≤ b := by rcases hb with h | h | h <;> omega
      have : 2 * b ^ 9 ≤ b ^ 10 := by rw [this]; exact Nat.mul_le_mul_right _ hb2
      omega
    unfold render
    rw [List.length_map]
    have hd : digitsK b 10 (code b i) = digitsK b 9 (code b i / b) ++ [code b i % b] := rfl
    have hlen := digitsK_length b 10 (code b i)
    -- head digit = code / b^9 % b ≠ 0
    have hk : ∀ k n, 0 < k → (digitsK b k n).head? = some (n / b ^ (k - 1) % b) := by
      intro k
      induction k with
      | zero => intro n h; omega
      | succ k ih =>
        intro n _
        cases k with
        | zero => simp [digitsK]
        | succ k =>
          have := ih (n / b) (by omega)
          simp only [digitsK] at this ⊢
          rw [List.head?_append, this]
          simp [Nat.div_div_eq_div_mul, Nat.pow_succ, Nat.mul_comm]
    have hhead := hk 10 (code b i) (by omega)
    have hnz : code b i / b ^ 9 % b ≠ 0 := by
      have hlt : code b i < b ^ 10 := by unfold code; simp only [hneg, ↓reduceIte]; omega
      have : code b i / b ^ 9 < b := by
        apply Nat.div_lt_of_lt_mul; rw [← Nat.pow_succ]; exact hlt
      rw [Nat.mod_eq_of_lt this]
      have : 0 < code b i / b ^ 9 := Nat.div_pos hcode (Nat.pow_pos hb0)
      omega
    cases hds : digitsK b 10 (code b i) with
    | nil => rw [hds] at hlen; simp at hlen
    | cons d ds =>
      rw [hds] at hhead hlen
      simp only [List.head?_cons, Option.some.injEq] at hhead
      cases d with
      | zero => exact absurd hhead.symm hnz
      | succ d =>
        cases ds with
        | nil => simp at hlen
        | cons e es => simpa [stripZeros] using hlen
  · rw [ofDigits_render b hb0 hb16]
    have : code b i < b ^ 10 := by unfold code; simp only [hneg, ↓reduceIte]; omega
    rw [Nat.mod_eq_of_lt this]
    unfold code; simp only [hneg, ↓reduceIte]
    congr 2
    have : ((b ^ 10 : Nat) : Int) = (b : Int) ^ 10 := by simp
    omega

/-- **C18 (composition)**: the direct base-to-base functions are the composition through decimal
    (for every non-blank input; blank is handled before the composition, see `base2base`). -/
theorem C18_compose (v : Val) (places : Option Val) (bi bo : Nat) (hv : v ≠ .blank) :
    base2base v places bi bo = dec2base (base2dec v bi) places bo := by
  cases v <;> first | rfl | exact absurd rfl hv

/-- **C18 (places)**: with a non-negative in-range number, `places ≥` the natural width pads with zeros to
    exactly `places` characters and keeps the digits; a smaller `places` is #NUM!. -/
theorem C18_places (b : Nat) (i : Int) (h : InRange b i) (p : Int) :
    let s := render b (code b i)
    dec2base (.num (i : Rat)) (some (.num (p : Rat))) b =
      if p < s.length then .err .num else .str (List.replicate (p.toNat - s.length) '0' ++ s) := by
  obtain ⟨h1, h2⟩ := h
  simp only [dec2base, pyInt_int, Bool.false_and, Bool.false_eq_true, ↓reduceIte, placesOf?, code, zfill]
  simp only [h1, h2, and_self, not_true_eq_false, ↓reduceIte]
  split <;> rfl

theorem C18_places_length (p : Nat) (s : List Char)
    (hp : s.length ≤ p) : (zfill p s).length = p := by
  simp [zfill]; omega

/-- **C18 (reject, range)**: an integer outside the signed range is #NUM!, whatever `places` is. -/
theorem C18_reject_range (b : Nat) (i : Int) (places : Option Val) (h : ¬ InRange b i) :
    dec2base (.num (i : Rat)) places b = .err .num := by
  simp only [dec2base, pyInt_int, Bool.false_and, Bool.false_eq_true, ↓reduceIte]
  unfold InRange at h
  simp [h]

theorem ofDigits_illegal (b : Nat) (s : List Char) (acc : Nat) (h : ∃ c ∈ s, digitVal? b c = none) :
    ofDigits? b s acc = none := by
  induction s generalizing acc with
  | nil => simp at h
  | cons c cs ih =>
    simp only [ofDigits?]
    cases hc : digitVal? b c with
    | none => rfl
    | some d =>
      obtain ⟨x, hx, hxn⟩ := h
      simp only [List.mem_cons] at hx
      rcases hx with hx | hx
      · subst hx; rw [hc] at hxn; cases hxn
      · exact ih _ ⟨x, hx, hxn⟩

/-- **C18 (reject, alphabet)**: a text holding any character outside the base's alphabet is #NUM!. -/
theorem C18_reject_alphabet (b : Nat) (s : List Char) (h : ∃ c ∈ s, digitVal? b c = none) :
    base2dec (.str s) b = .err .num := by
  unfold base2dec
  cases s with
  | nil => rfl
  | cons c cs =>
    simp only [List.isEmpty_cons, Bool.false_eq_true, ↓reduceIte, ofDigits_illegal b (c :: cs) 0 h]
    split <;> rfl

/-- **C18 (reject, length)**: more than 10 characters is #NUM!. -/
theorem C18_reject_length (b : Nat) (s : List Char) (h : 10 < s.length) :
    base2dec (.str s) b = .err .num := by
  unfold base2dec
  cases s with
  | nil => rfl
  | cons c cs =>
    have : ¬ (c :: cs).length ≤ 10 := by omega
    simp only [List.isEmpty_cons, Bool.false_eq_true, ↓reduceIte, this]

/-- **C18 (reject, kinds)**: logicals are #VALUE!, errors propagate, negative or fractional numbers are #NUM!. -/
theorem C18_reject_kinds (b : Nat) :
    (∀ x, base2dec (.bool x) b = .err .value) ∧ (∀ e, base2dec (.err e) b = .err e) ∧
    (∀ x, dec2base (.bool x) none b = .err .value) ∧ (∀ e, dec2base (.err e) none b = .err e) ∧
    (∀ q : Rat, ¬ (0 ≤ q ∧ q.den = 1) → base2dec (.num q) b = .err .num) := by
  refine ⟨fun _ => rfl, fun _ => rfl, fun _ => rfl, fun _ => rfl, ?_⟩
  intro q hq
  simp [base2dec, hq]

/-- every result is a value of the expected kinds: a number or an error for x2DEC; text or an error for DEC2x -/
theorem C18_total_kinds (b : Nat) (v : Val) (places : Option Val) :
    (∃ q, base2dec v b = .num q) ∨ (∃ e, base2dec v b = .err e) := by
  unfold base2dec
  cases v <;> simp
  all_goals (repeat' split) <;> simp

/-- **C18 (injective)**: two different in-range numbers never render to the same text. -/
theorem C18_injective (b : Nat) (hb : Base b) (i j : Int) (hi : InRange b i) (hj : InRange b j)
    (h : dec2base (.num (i : Rat)) none b = dec2base (.num (j : Rat)) none b) : i = j := by
  have h2 := congrArg (fun v => base2dec v b) h
  simp only [C18_roundtrip b hb i hi, C18_roundtrip b hb j hj] at h2
  injection h2 with h3
  exact Rat.intCast_inj.mp h3

/-- **C18 (output alphabet)**: the text of an in-range number consists of upper-case digits of the base only, so it
    is itself acceptable input of the inverse function. -/
theorem C18_output_alphabet (b : Nat) (hb : Base b) (i : Int) (h : InRange b i) :
    ∃ s, dec2base (.num (i : Rat)) none b = .str s ∧ 1 ≤ s.length ∧ s.length ≤ 10 ∧
      ∀ c ∈ s, ∃ d, d < b ∧ c = digitChar d ∧ digitVal? b c = some d := by
  obtain ⟨hb0, hb16⟩ := base_pos hb
  refine ⟨render b (code b i), dec2base_int b i h, (render_length b _).2, (render_length b _).1, ?_⟩
  intro c hc
  unfold render at hc
  obtain ⟨d, hd, rfl⟩ := List.mem_map.mp hc
  have hlt := digitsK_lt b hb0 10 (code b i) d (stripZeros_mem _ d hd)
  exact ⟨d, hlt, rfl, digitVal_digitChar b d hb16 hlt⟩

/-- **C18 (decoding lands in the range)**: every text of 1..10 digits of the base decodes to a number of the signed
    10-digit range — never to an error and never to a value outside it — so DEC2x accepts it back. -/
theorem C18_decode_in_range (b : Nat) (hb : Base b) (s : List Char) (h1 : 1 ≤ s.length) (h10 : s.length ≤ 10)
    (hleg : ∀ c ∈ s, digitVal? b c ≠ none) :
    ∃ i : Int, InRange b i ∧ base2dec (.str s) b = .num (i : Rat) := by
  obtain ⟨hb0, _⟩ := base_pos hb
  have hm := mask_spec b hb
  obtain ⟨n, hn⟩ := ofDigits_legal b s 0 hleg
  have hlt := ofDigits_lt b s 0 n hn
  have hpow : b ^ s.length ≤ b ^ 10 := Nat.pow_le_pow_right hb0 h10
  have hn2 : n < 2 * mask b := by omega
  have hne : s.isEmpty = false := by
    cases s with
    | nil => simp at h1
    | cons c cs => rfl
  refine ⟨(n : Int) - 2 * (((n / mask b) % 2 * mask b : Nat) : Int), ?_, ?_⟩
  · have hmpos : 0 < mask b := by omega
    unfold InRange
    by_cases hlo : n < mask b
    · have : n / mask b = 0 := Nat.div_eq_of_lt hlo
      rw [this]; omega
    · have : n / mask b = 1 := by apply Nat.div_eq_of_lt_le <;> omega
      rw [this]; omega
  · unfold base2dec
    simp only [hne, Bool.false_eq_true, ↓reduceIte, h10, hn]

/-- **C18 (round trip, text side)**: decoding a legal text and rendering the number again gives a text that decodes
    to the same number (the canonical spelling: upper case, no leading zeros). -/
theorem C18_roundtrip_text (b : Nat) (hb : Base b) (s : List Char) (h1 : 1 ≤ s.length) (h10 : s.length ≤ 10)
    (hleg : ∀ c ∈ s, digitVal? b c ≠ none) :
    base2dec (dec2base (base2dec (.str s) b) none b) b = base2dec (.str s) b := by
  obtain ⟨i, hi, he⟩ := C18_decode_in_range b hb s h1 h10 hleg
  rw [he, C18_roundtrip b hb i hi]

/-- **C18 (places keeps the value)**: an in-range number padded to `places ≤ 10` digits still decodes to
    itself. -/
theorem C18_places_roundtrip (b : Nat) (hb : Base b) (i : Int) (h : InRange b i) (p : Nat)
    (hp : p ≤ 10) (hw : (render b (code b i)).length ≤ p) :
    base2dec (dec2base (.num (i : Rat)) (some (.num ((p : Int) : Rat))) b) b = .num (i : Rat) := by
  obtain ⟨hb0, hb16⟩ := base_pos hb
  have hpl := C18_places b i h (p : Int)
  simp only at hpl
  have hnot : ¬ ((p : Int) < ((render b (code b i)).length : Int)) := by omega
  rw [hpl, if_neg hnot]
  have hrt := C18_roundtrip b hb i h
  rw [dec2base_int b i h] at hrt
  -- the padded text has the same digit value and a length ≤ 10
  have hlen := render_length b (code b i)
  have hne : (render b (code b i)).isEmpty = false := by
    cases hr : render b (code b i) with
    | nil => rw [hr] at hlen; simp at hlen
    | cons c cs => rfl
  have hz := ofDigits_zeros b hb0 ((p : Int).toNat - (render b (code b i)).length) (render b (code b i))
  unfold base2dec at hrt ⊢
  simp only [hne, Bool.false_eq_true, ↓reduceIte, hlen.1] at hrt
  have hne2 : (List.replicate ((p : Int).toNat - (render b (code b i)).length) '0' ++ render b (code b i)).isEmpty
      = false := by
    simp; intro _ ; cases hr : render b (code b i) with
    | nil => rw [hr] at hne; simp at hne
    | cons c cs => simp
  have hlen2 : (List.replicate ((p : Int).toNat - (render b (code b i)).length) '0' ++ render b (code b i)).length
      ≤ 10 := by
    simp only [List.length_append, List.length_replicate]; omega
  simp only [hne2, Bool.false_eq_true, ↓reduceIte, hlen2, hz]
  exact hrt

/-- **C18 (base-to-base keeps the number)**: converting a legal text of base `bi` directly to base `bo` gives a text that
    decodes (in `bo`) to the same number the original decodes to (in `bi`), whenever that number lies in the range of
    `bo` — always, when going to a wider base. -/
theorem C18_base2base_value (bi bo : Nat) (hbi : Base bi) (hbo : Base bo) (s : List Char) (h1 : 1 ≤ s.length)
    (h10 : s.length ≤ 10) (hleg : ∀ c ∈ s, digitVal? bi c ≠ none)
    (hfit : ∀ i : Int, base2dec (.str s) bi = .num (i : Rat) → InRange bo i) :
    base2dec (base2base (.str s) none bi bo) bo = base2dec (.str s) bi := by
  obtain ⟨i, _, he⟩ := C18_decode_in_range bi hbi s h1 h10 hleg
  rw [C18_compose (.str s) none bi bo (by simp), he]
  exact C18_roundtrip bo hbo i (hfit i he)

/-- the range of a narrower base lies inside the range of a wider one, so BIN2OCT, BIN2HEX and OCT2HEX always fit -/
theorem InRange_widen (i : Int) : (InRange 2 i → InRange 8 i) ∧ (InRange 8 i → InRange 16 i) := by
  have := mask_ranges
  unfold InRange
  obtain ⟨h2, h8, h16⟩ := this
  rw [h2, h8, h16]
  constructor <;> intro h <;> omega

-- non-vacuity: concrete in-range instances of the hypotheses, and the boundary values
example : InRange 2 (-512) ∧ InRange 2 511 ∧ ¬ InRange 2 512 ∧ Base 2 := by
  refine ⟨?_, ?_, ?_, Or.inl rfl⟩ <;> (unfold InRange; decide)
example : dec2base (.num ((-3 : Int) : Rat)) none 2 = .str "1111111101".toList := by decide +kernel
example : base2dec (.str " 1".toList) 2 = .err .num := by decide +kernel
example : base2dec (.str "0b11".toList) 2 = .err .num := by decide +kernel
example : (∀ c ∈ "1fF".toList, digitVal? 16 c ≠ none) ∧ 1 ≤ "1fF".toList.length := by decide
example : base2dec (dec2base (.num ((5 : Int) : Rat)) (some (.num ((8 : Int) : Rat))) 2) 2 = .num 5 := by
  decide +kernel
example : base2base (.str "1111111101".toList) none 2 16 = .str "FFFFFFFFFD".toList := by decide +kernel

end Pycel.Radix

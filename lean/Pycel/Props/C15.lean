/-
  C15 — Conditional aggregation (…IF/…IFS) selects exactly the matching cells.

  Statement (properties.jsonl): "COUNTIF/COUNTIFS count, and SUMIF(S)/AVERAGEIF(S)/MAXIFS/MINIFS aggregate, exactly the
  positions whose criteria-range cells satisfy every criterion: numeric criteria and comparison prefixes compare
  numerically (text never satisfies <,>; always satisfies <>), text criteria compare case-insensitively with ? and *
  wildcards, and cells of any type in the range never make the function fail. The one-criterion …IFS form equals the
  …IF form, criteria commute, "=x" and "<>x" partition the range, and over numeric data AVERAGEIFS = SUMIFS/COUNTIFS."

  Model: Pycel/Model/Criteria.lean (excelutil.criteria_parser / build_wildcard_re / handle_ifs, the consumers in
  lib/stats.py and excellib.py).  Ranges are `Arr = List (List Val)` of ANY size and content; the only hypothesis on
  them is `IsRect` (every row as long as the first), which every Excel range satisfies.  Criteria are arbitrary `Val`s
  (`criteriaParser` covers the whole grammar: numbers, numeric text, operator prefixes, text, wildcards, empty).
  The operator table and splitting pattern come from Generated/Criteria.lean, regenerated from the live
  `excelutil.OPERATORS` / `OPERATORS_RE` on every run.
-/
import Pycel.Lemmas.Criteria
import Pycel.Generated.Criteria
namespace Pycel.Criteria
open Pycel

/-! ## the operator table of the live code -/

/-- `splitOp` reads every prefix of the live `OPERATORS` table as the operator the code maps it to, leaving no value -/
theorem C15_operator_table :
    ∀ pn ∈ Gen.criteriaOperators, splitOp pn.1.toList = (match Op.ofPyName? pn.2 with | some o => o | none => .eq, [])
      ∧ (Op.ofPyName? pn.2).isSome := by
  decide

/-- the splitting pattern `splitOp` was written against is the live `OPERATORS_RE` -/
theorem C15_operator_pattern : Gen.criteriaOperatorsRe = "^(?P<oper>(=|<>|<=?|>=?))?(?P<value>.*)$" := by decide

/-! ## the satisfaction relation, per cell type
    "numeric criteria and comparison prefixes compare numerically (text never satisfies <,>; always satisfies <>)" -/

/-- a NUMBER against a numeric criterion `op q`: the numeric comparison -/
theorem C15_sat_numeric (op : Op) (q x : Rat) : sat (.num op q) (.num x) = op.cmpRat x q := rfl

/-- anything that is not a number (text, logical, blank, error value) against a numeric criterion: satisfied exactly
    when the operator is `<>` — so never `<`, `<=`, `>`, `>=`, `=`, and always `<>` -/
theorem C15_sat_numeric_nonnumber (op : Op) (q : Rat) (v : Val) (h : v.isNum = false) :
    sat (.num op q) v = (op == .ne) := by
  cases v <;> simp_all [sat, Val.isNum]

example (q : Rat) (s : List Char) : sat (.num .lt q) (.str s) = false ∧ sat (.num .gt q) (.str s) = false
    ∧ sat (.num .ne q) (.str s) = true :=
  ⟨rfl, rfl, rfl⟩

/-- "text criteria compare case-insensitively with ? and * wildcards": a TEXT cell against the text criterion `=p`
    (neg = false) / `<>p` (neg = true) is decided by the wildcard matcher on the lower-cased cell; the criterion's own
    value was lower-cased by `parseText` -/
theorem C15_sat_text (neg : Bool) (p : List Tok) (e : Bool) (s : List Char) :
    sat (.pat neg p e) (.str s) = (neg != matchPat p (Ops.lower s)) := rfl

/-- a number or a logical never matches a text pattern (so it satisfies exactly `<>`), a blank cell matches only the
    empty criterion: no cell type makes a text criterion fail -/
theorem C15_sat_text_nontext (neg : Bool) (p : List Tok) (e : Bool) :
    (∀ x, sat (.pat neg p e) (.num x) = neg) ∧ (∀ b, sat (.pat neg p e) (.bool b) = neg)
      ∧ sat (.pat neg p e) .blank = (neg != e) :=
  ⟨fun _ => rfl, fun _ => rfl, rfl⟩

/-- case-insensitivity on both sides: the criterion text and the cell text only enter through `Ops.lower` -/
theorem C15_sat_text_case (op : Op) (v v' s s' : List Char)
    (hv : Ops.lower v = Ops.lower v') (hs : Ops.lower s = Ops.lower s')
    (hn : readNum? v = none) (hn' : readNum? v' = none) :
    sat (parseTextOp op v) (.str s) = sat (parseTextOp op v') (.str s') := by
  unfold parseTextOp
  rw [hn, hn', hv]
  cases op <;> simp [sat, textOf?, hs]

/-! ## wildcards: "? and * wildcards" -/

/-- **C15 (wildcard matcher = declarative semantics)**, on pattern TEXT: the structural matcher run on the parsed
    pattern accepts exactly the texts of the declarative relation `WildMatches` (Lemmas/Criteria.lean): `*` is any
    sequence of characters, `?` is any one character, `~x` is the character x, any other character is itself, and the
    whole text must be consumed -/
theorem C15_wild_spec (pat s : List Char) : matchPat (parsePat pat) s = true ↔ WildMatches pat s :=
  wildMatches_iff pat s

/-- the same on parsed patterns (tokens): `Matches` -/
theorem C15_wild_tokens (p : List Tok) (s : List Char) : matchPat p s = true ↔ Matches p s := matchPat_iff p s

/-- how pattern text is read: `~x` is the literal x, `?` and `*` are the wildcards, anything else is itself -/
theorem C15_wild_parse (x c : Char) (r : List Char) :
    parsePat ('~' :: x :: r) = .lit x :: parsePat r
    ∧ parsePat ('?' :: r) = .one :: parsePat r
    ∧ parsePat ('*' :: r) = .star :: parsePat r
    ∧ (c ≠ '~' → c ≠ '?' → c ≠ '*' → parsePat (c :: r) = .lit c :: parsePat r)
    ∧ parsePat ['~'] = [.lit '~'] ∧ parsePat [] = [] :=
  ⟨parsePat_esc x r, parsePat_one r, parsePat_star r, parsePat_lit c r, parsePat_tilde_end, parsePat_nil⟩

/-- text without wildcard syntax matches exactly itself (the code's plain `==` path) -/
theorem C15_wild_literal (v s : List Char) (h : hasWild v = false) : matchPat (parsePat v) s = (s == v) := by
  rw [parsePat_plain v h, matchPat_lits]

example : matchPat (parsePat "a~?c*".toList) "a?cxyz".toList = true := by decide
example : matchPat (parsePat "a~?c*".toList) "abcxyz".toList = false := by decide
example : WildMatches "t*t".toList "tt".toList := (C15_wild_spec _ _).1 (by decide)
example : ¬ WildMatches "a~*".toList "ab".toList := fun h => absurd ((C15_wild_spec _ _).2 h) (by decide)

/-! ## selection: "exactly the positions whose criteria-range cells satisfy every criterion" -/

/-- **C15 (selects exactly)**: for criteria ranges that are `r × c` rectangles and criteria that parse, the index
    intersection of `handle_ifs` (Counter over the chained per-pair matches, keys with count = number of pairs) is
    exactly the list of grid positions, in row-major order, whose cell in EVERY criteria range satisfies that range's
    criterion. -/
theorem C15_selects_exactly (args : List (Arr × Val)) (op : Option Arr) (r c : Nat)
    (hne : args ≠ [])
    (hrect : ∀ av ∈ args, IsRect av.1) (hsize : ∀ av ∈ args, size av.1 = (r, c))
    (hop : ∀ o, op = some o → size o = (r, c))
    (pairs : List (Arr × Crit)) (hparse : parseAll args = some pairs) :
    handleIfs args op = .ok ((grid r c).filter fun p => pairs.all fun ac => sat ac.2 (cell ac.1 p)) :=
  handleIfs_selects args op r c hne hrect hsize hop pairs hparse

/-- membership form: a position is selected iff it lies in the range and every criterion holds of its cell -/
theorem C15_selects_mem (args : List (Arr × Val)) (op : Option Arr) (r c : Nat)
    (hne : args ≠ [])
    (hrect : ∀ av ∈ args, IsRect av.1) (hsize : ∀ av ∈ args, size av.1 = (r, c))
    (hop : ∀ o, op = some o → size o = (r, c))
    (pairs : List (Arr × Crit)) (hparse : parseAll args = some pairs) :
    ∃ coords, handleIfs args op = .ok coords ∧ coords.Nodup ∧
      ∀ p : Idx, p ∈ coords ↔ (p.1 < r ∧ p.2 < c) ∧ ∀ ac ∈ pairs, sat ac.2 (cell ac.1 p) = true := by
  refine ⟨_, C15_selects_exactly args op r c hne hrect hsize hop pairs hparse,
    (grid_nodup r c).sublist List.filter_sublist, ?_⟩
  intro p
  simp [List.mem_filter, mem_grid]

/-- ranges of unequal size (criteria ranges among themselves, or against the aggregated range) give `#VALUE!` -/
theorem C15_size_mismatch (a0 : Arr) (v0 : Val) (rest : List (Arr × Val)) (op : Option Arr)
    (h : (∃ av ∈ rest, size av.1 ≠ size a0) ∨ (∃ o, op = some o ∧ size o ≠ size a0)) :
    handleIfs ((a0, v0) :: rest) op = .error .value :=
  handleIfs_size_mismatch a0 v0 rest op h

/-! ## the consumers on top of the selection -/

/-- COUNTIF counts the positions of the range whose cell satisfies the criterion -/
theorem C15_countif_spec (rng : Arr) (v : Val) (k : Crit) (hk : criteriaParser v = some k) :
    countif rng v = .ok (.num (((pos rng).filter fun p => sat k (cell rng p)).length : Nat)) := by
  simp [countif, hk, findIdx]

/-- COUNTIFS counts exactly the positions satisfying every criterion -/
theorem C15_countifs_spec (args : List (Arr × Val)) (r c : Nat) (hne : args ≠ [])
    (hrect : ∀ av ∈ args, IsRect av.1) (hsize : ∀ av ∈ args, size av.1 = (r, c))
    (pairs : List (Arr × Crit)) (hparse : parseAll args = some pairs) :
    countifs args
      = .ok (.num ((((grid r c).filter fun p => pairs.all fun ac => sat ac.2 (cell ac.1 p)).length : Nat) : Rat)) := by
  unfold countifs
  rw [C15_selects_exactly args none r c hne hrect hsize (by simp) pairs hparse]

/-- SUMIFS / AVERAGEIFS / MAXIFS / MINIFS aggregate exactly the cells of the aggregated range at the positions
    satisfying every criterion: the first error value among them, else `f` of the numeric ones -/
theorem C15_aggregate_spec (f : List Val → Val) (rng : Arr) (args : List (Arr × Val)) (r c : Nat) (hne : args ≠ [])
    (hrect : ∀ av ∈ args, IsRect av.1) (hsize : ∀ av ∈ args, size av.1 = (r, c)) (hrng : size rng = (r, c))
    (pairs : List (Arr × Crit)) (hparse : parseAll args = some pairs) :
    aggregate f rng args =
      let sel := ((grid r c).filter fun p => pairs.all fun ac => sat ac.2 (cell ac.1 p)).map (cell rng)
      .ok (match firstErr sel with
           | some e => .err e
           | none => f (kept sel)) := by
  unfold aggregate
  rw [C15_selects_exactly args (some rng) r c hne hrect hsize (by intro o ho; cases ho; exact hrng) pairs hparse]
  simp only [selected]
  cases firstErr _ <;> rfl

/-! ## "The one-criterion …IFS form equals the …IF form" -/

/-- COUNTIFS(rng, crit) = COUNTIF(rng, crit) (two different code paths); SUMIFS / AVERAGEIFS with one pair are SUMIF /
    AVERAGEIF by definition in the code and in the model -/
theorem C15_ifs1_eq_if (rng : Arr) (v : Val) (hrect : IsRect rng) :
    countifs [(rng, v)] = countif rng v
    ∧ (∀ s, sumifs s [(rng, v)] = sumif rng v (some s)) ∧ sumifs rng [(rng, v)] = sumif rng v none
    ∧ (∀ s, averageifs s [(rng, v)] = averageif rng v (some s))
    ∧ averageifs rng [(rng, v)] = averageif rng v none := by
  refine ⟨?_, fun _ => rfl, rfl, fun _ => rfl, rfl⟩
  cases hk : criteriaParser v with
  | none => simp [countifs, countif, handleIfs, parseAll, hk]
  | some k =>
    have hp : parseAll [(rng, v)] = some [(rng, k)] := by simp [parseAll, hk]
    rw [C15_countifs_spec [(rng, v)] (size rng).1 (size rng).2 (by simp) (by simpa using hrect) (by simp)
      [(rng, k)] hp, C15_countif_spec rng v k hk, pos_of_isRect rng hrect]
    simp

/-! ## "criteria commute" -/

/-- **C15 (criteria commute)**: permuting the (range, criterion) pairs in any way leaves the selection — hence every
    …IFS function — unchanged. -/
theorem C15_commute (args args' : List (Arr × Val)) (op : Option Arr) (hperm : args.Perm args')
    (hrect : ∀ av ∈ args, IsRect av.1) :
    handleIfs args op = handleIfs args' op
    ∧ countifs args = countifs args'
    ∧ (∀ rng, sumifs rng args = sumifs rng args' ∧ averageifs rng args = averageifs rng args'
        ∧ maxifs rng args = maxifs rng args' ∧ minifs rng args = minifs rng args') := by
  have key : ∀ op, handleIfs args op = handleIfs args' op := fun op => handleIfs_perm args args' op hperm hrect
  refine ⟨key op, by simp [countifs, key none], fun rng => ?_⟩
  simp [sumifs, averageifs, maxifs, minifs, aggregate, key (some rng)]

/-! ## "'=x' and '<>x' partition the range" -/

/-- for every criteria text x and every cell value, exactly one of "=x" and "<>x" is satisfied -/
theorem C15_partition_cell (x : List Char) (v : Val) :
    sat (parseText ('=' :: x)) v = !sat (parseText ('<' :: '>' :: x)) v := by
  have h1 : parseText ('=' :: x) = parseTextOp .eq x := rfl
  have h2 : parseText ('<' :: '>' :: x) = parseTextOp .ne x := rfl
  rw [h1, h2]
  unfold parseTextOp
  cases readNum? x with
  | some q =>
    cases v <;> simp [sat, Op.cmpRat, bne]
  | none =>
    simp only [sat]
    cases textOf? v with
    | some s =>
      dsimp only
      cases matchPat (parsePat (Ops.lower x)) (Ops.lower s) <;> rfl
    | none => cases v <;> dsimp only <;> cases (Ops.lower x).isEmpty <;> rfl

/-- **C15 (partition)**: every position of the range is counted by exactly one of COUNTIF(rng,"=x") and
    COUNTIF(rng,"<>x"); the two counts add up to the number of cells -/
theorem C15_partition (rng : Arr) (x : List Char) :
    (∀ p ∈ pos rng, (p ∈ findIdx rng (parseText ('=' :: x))) ≠ (p ∈ findIdx rng (parseText ('<' :: '>' :: x))))
    ∧ (findIdx rng (parseText ('=' :: x))).length + (findIdx rng (parseText ('<' :: '>' :: x))).length
        = (pos rng).length := by
  constructor
  · intro p hp
    simp only [findIdx, List.mem_filter, hp, true_and, C15_partition_cell x (cell rng p)]
    cases sat (parseText ('<' :: '>' :: x)) (cell rng p) <;> simp
  · have : (findIdx rng (parseText ('=' :: x)))
        = (pos rng).filter fun p => !sat (parseText ('<' :: '>' :: x)) (cell rng p) := by
      unfold findIdx
      apply List.filter_congr
      intro p _
      exact C15_partition_cell x (cell rng p)
    rw [this, Nat.add_comm]
    exact length_filter_add_not (pos rng) fun p => sat (parseText ('<' :: '>' :: x)) (cell rng p)

example : sat (parseText "=a*".toList) (.str "Abc".toList) = true
    ∧ sat (parseText "<>a*".toList) (.str "Abc".toList) = false := by decide

/-! ## "over numeric data AVERAGEIFS = SUMIFS/COUNTIFS" -/

/-- **C15 (average)**: when the selected cells of the aggregated range are numbers, COUNTIFS is the number n of
    selected positions, SUMIFS their sum s, and AVERAGEIFS is s / n (`#DIV/0!` when nothing is selected). -/
theorem C15_avg (rng : Arr) (args : List (Arr × Val)) (coords : List Idx)
    (h : handleIfs args (some rng) = .ok coords) (hnum : ∀ p ∈ coords, ∃ q, cell rng p = .num q) :
    let s := rsum (coords.map fun p => valNum (cell rng p))
    countifs args = .ok (.num (coords.length : Nat))
    ∧ sumifs rng args = .ok (.num s)
    ∧ averageifs rng args = .ok (if coords.length = 0 then .err .div0 else .num (s / (coords.length : Nat))) := by
  have hsel : ∀ v ∈ selected rng coords, ∃ q, v = .num q := by
    intro v hv
    simp only [selected, List.mem_map] at hv
    obtain ⟨p, hp, rfl⟩ := hv
    exact hnum p hp
  obtain ⟨he, hk⟩ := firstErr_nums _ hsel
  refine ⟨?_, ?_, ?_⟩
  · simp [countifs, handleIfs_none_of_some args rng coords h]
  · simp only [sumifs, aggregate, h, he, hk, sumOf]
    simp [selected, List.map_map, Function.comp_def]
  · simp only [averageifs, aggregate, h, he, hk, avgOf]
    cases coords with
    | nil => simp [selected]
    | cons p ps => simp [selected, List.map_map, Function.comp_def]

example : averageifs [[.num 1], [.num 2], [.num 6]] [([[.num 1], [.num 5], [.num 7]], .str ">2".toList)]
    = .ok (.num 4) := by decide +kernel

/-! ## "cells of any type in the range never make the function fail" -/

/-- a value the functions may return: a number or an Excel error value -/
def IsNumOrErr (v : Val) : Prop := (∃ q, v = .num q) ∨ (∃ e, v = .err e)

/-- … or, for MAXIFS / MINIFS only, a logical taken from the aggregated range (`keep_bools=True` in the code) -/
def IsNumErrOrBool (v : Val) : Prop := IsNumOrErr v ∨ ∃ b, v = .bool b

/-- **C15 (totality)**: whatever the cells of the criteria ranges and of the aggregated range are (numbers, text,
    logicals, blanks, error values, in ranges of any size and shape), with at least one pair and criteria that are not
    blank cells, no function raises: each returns a number or an Excel error value (MAXIFS/MINIFS possibly a logical
    of the aggregated range).  MAXIFS/MINIFS do not raise even on a blank criterion. -/
theorem C15_total (args : List (Arr × Val)) (hne : args ≠ []) (hcrit : ∀ av ∈ args, av.2 ≠ .blank) :
    (∀ rng v, v ≠ .blank → ∃ r, countif rng v = .ok r ∧ IsNumOrErr r)
    ∧ (∃ r, countifs args = .ok r ∧ IsNumOrErr r)
    ∧ (∀ rng, (∃ r, sumifs rng args = .ok r ∧ IsNumOrErr r) ∧ (∃ r, averageifs rng args = .ok r ∧ IsNumOrErr r)
        ∧ (∃ r, maxifs rng args = .ok r ∧ IsNumErrOrBool r) ∧ (∃ r, minifs rng args = .ok r ∧ IsNumErrOrBool r)) := by
  have hparse : ∃ pairs, parseAll args = some pairs := by
    have : (parseAll args).isSome = true := by
      rw [parseAll_isSome, List.all_eq_true]
      intro av hav
      rw [criteriaParser_isSome]
      simpa using hcrit av hav
    exact Option.isSome_iff_exists.1 this
  obtain ⟨pairs, hparse⟩ := hparse
  have hh : ∀ op, handleIfs args op = .error .value ∨ ∃ coords, handleIfs args op = .ok coords := by
    intro op
    unfold handleIfs
    cases args with
    | nil => exact absurd rfl hne
    | cons av rest =>
      obtain ⟨a0, v0⟩ := av
      by_cases c1 : (((a0, v0) :: rest).all fun av => size av.1 == size a0) = true
      · cases op with
        | none => right; exact ⟨intersect pairs, by simp [c1, hparse]⟩
        | some o =>
          by_cases c2 : (((a0, v0) :: rest).all fun av => size o == size av.1) = true
          · right; exact ⟨intersect pairs, by simp [c1, c2, hparse]⟩
          · left; simp [c1, c2]
      · left; simp [c1]
  have hagg : ∀ (f : List Val → Val) (P : Val → Prop) rng, (∀ e, P (.err e)) → (∀ l, P (f (kept l))) →
      ∃ r, aggregate f rng args = .ok r ∧ P r := by
    intro f P rng hPe hPf
    unfold aggregate
    rcases hh (some rng) with h | ⟨coords, h⟩
    · rw [h]; exact ⟨_, rfl, hPe _⟩
    · rw [h]
      simp only
      cases firstErr (selected rng coords) with
      | some e => exact ⟨_, rfl, hPe e⟩
      | none => exact ⟨_, rfl, hPf _⟩
  refine ⟨?_, ?_, fun rng => ⟨?_, ?_, ?_, ?_⟩⟩
  · intro rng v hv
    cases v with
    | blank => exact absurd rfl hv
    | num q => exact ⟨_, rfl, Or.inl ⟨_, rfl⟩⟩
    | str s => exact ⟨_, rfl, Or.inl ⟨_, rfl⟩⟩
    | bool b => exact ⟨_, rfl, Or.inl ⟨_, rfl⟩⟩
    | err e => exact ⟨_, rfl, Or.inl ⟨_, rfl⟩⟩
  · unfold countifs
    rcases hh none with h | ⟨coords, h⟩
    · rw [h]; exact ⟨_, rfl, Or.inr ⟨_, rfl⟩⟩
    · rw [h]; exact ⟨_, rfl, Or.inl ⟨_, rfl⟩⟩
  · exact hagg sumOf IsNumOrErr rng (fun e => Or.inr ⟨e, rfl⟩) (fun l => Or.inl ⟨_, rfl⟩)
  · refine hagg avgOf IsNumOrErr rng (fun e => Or.inr ⟨e, rfl⟩) (fun l => ?_)
    unfold avgOf
    split
    · exact Or.inr ⟨_, rfl⟩
    · exact Or.inl ⟨_, rfl⟩
  · obtain ⟨r, hr, hP⟩ := hagg maxOf IsNumErrOrBool rng (fun e => Or.inl (Or.inr ⟨e, rfl⟩)) (fun l => by
      cases hk : kept l with
      | nil => exact Or.inl (Or.inl ⟨0, rfl⟩)
      | cons x xs =>
        have hm : pyMax x xs ∈ kept l := by rw [hk]; exact pyMax_mem x xs
        rcases mem_kept l _ hm with ⟨q, hq⟩ | ⟨b, hb⟩
        · exact Or.inl (Or.inl ⟨q, hq⟩)
        · exact Or.inr ⟨b, hb⟩)
    exact ⟨r, by simp [maxifs, hr, catchValueError], hP⟩
  · obtain ⟨r, hr, hP⟩ := hagg minOf IsNumErrOrBool rng (fun e => Or.inl (Or.inr ⟨e, rfl⟩)) (fun l => by
      cases hk : kept l with
      | nil => exact Or.inl (Or.inl ⟨0, rfl⟩)
      | cons x xs =>
        have hm : pyMin x xs ∈ kept l := by rw [hk]; exact pyMin_mem x xs
        rcases mem_kept l _ hm with ⟨q, hq⟩ | ⟨b, hb⟩
        · exact Or.inl (Or.inl ⟨q, hq⟩)
        · exact Or.inr ⟨b, hb⟩)
    exact ⟨r, by simp [minifs, hr, catchValueError], hP⟩

/-- non-vacuity: a mixed range (number, numeric text, text, logical, blank, error value) against a wildcard, a numeric
    and an operator criterion -/
example : countif [[.num 1, .str "3".toList, .str "abc".toList], [.bool true, .blank, .err .na]] (.str "a*".toList)
    = .ok (.num 1) := by decide +kernel
example : countifs [([[.num 1], [.bool true], [.str "x".toList]], .num 1)] = .ok (.num 1) := by decide +kernel
example : sumif [[.num 1], [.num 2], [.num 3]] (.str ">0".toList) (some [[.err .na], [.num 2], [.num 3]])
    = .ok (.err .na) := by decide +kernel

/-! ## repeated pairs (added) -/

theorem parseAll_mem (args : List (Arr × Val)) (pairs : List (Arr × Crit)) (h : parseAll args = some pairs) :
    ∀ av ∈ args, ∃ k, criteriaParser av.2 = some k ∧ (av.1, k) ∈ pairs := by
  induction args generalizing pairs with
  | nil => intro av hav; cases hav
  | cons a rest ih =>
    obtain ⟨a1, a2⟩ := a
    simp only [parseAll] at h
    cases hc : criteriaParser a2 with
    | none => rw [hc] at h; simp at h
    | some k =>
      cases hr : parseAll rest with
      | none => rw [hc, hr] at h; simp at h
      | some r =>
        rw [hc, hr] at h
        simp only [Option.some.injEq] at h
        subst h
        intro av hav
        rcases List.mem_cons.mp hav with h1 | h1
        · subst h1; exact ⟨k, hc, by simp⟩
        · obtain ⟨k', hk', hm⟩ := ih r hr av h1
          exact ⟨k', hk', List.mem_cons_of_mem _ hm⟩

/-- **C15 (a repeated pair changes nothing)**: stating a (range, criterion) pair a second time selects exactly the same
    positions — so COUNTIFS(r,c,r,c) = COUNTIFS(r,c) = COUNTIF(r,c), and likewise for SUMIFS/AVERAGEIFS/MAXIFS/MINIFS.
    (The code counts, per position, how many pairs matched and compares with the number of pairs; a change that
    scans equal pairs once but still demands the full count breaks exactly this.) -/
theorem C15_duplicate_pair (args : List (Arr × Val)) (av : Arr × Val) (hav : av ∈ args) (op : Option Arr) (r c : Nat)
    (hrect : ∀ av ∈ args, IsRect av.1) (hsize : ∀ av ∈ args, size av.1 = (r, c))
    (hop : ∀ o, op = some o → size o = (r, c))
    (pairs : List (Arr × Crit)) (hparse : parseAll args = some pairs) :
    handleIfs (av :: args) op = handleIfs args op := by
  have hne : args ≠ [] := by intro h; rw [h] at hav; cases hav
  obtain ⟨k, hk, hmem⟩ := parseAll_mem args pairs hparse av hav
  have hparse' : parseAll (av :: args) = some ((av.1, k) :: pairs) := by
    obtain ⟨a1, a2⟩ := av
    simp only [parseAll, hk, hparse]
  have hrect' : ∀ x ∈ av :: args, IsRect x.1 := by
    intro x hx; rcases List.mem_cons.mp hx with h | h
    · subst h; exact hrect _ hav
    · exact hrect _ h
  have hsize' : ∀ x ∈ av :: args, size x.1 = (r, c) := by
    intro x hx; rcases List.mem_cons.mp hx with h | h
    · subst h; exact hsize _ hav
    · exact hsize _ h
  rw [C15_selects_exactly (av :: args) op r c (by simp) hrect' hsize' hop _ hparse',
      C15_selects_exactly args op r c hne hrect hsize hop pairs hparse]
  congr 1
  apply List.filter_congr
  intro p _
  simp only [List.all_cons]
  cases hs : sat k (cell av.1 p) with
  | true => simp
  | false =>
    simp only [Bool.false_and]
    symm
    rw [List.all_eq_false]
    exact ⟨(av.1, k), hmem, by simp [hs]⟩

/-- the …IFS functions themselves: a repeated pair leaves every one of them unchanged -/
theorem C15_duplicate_pair_functions (args : List (Arr × Val)) (av : Arr × Val) (hav : av ∈ args) (r c : Nat)
    (hrect : ∀ av ∈ args, IsRect av.1) (hsize : ∀ av ∈ args, size av.1 = (r, c))
    (pairs : List (Arr × Crit)) (hparse : parseAll args = some pairs) :
    countifs (av :: args) = countifs args ∧
    (∀ rng, size rng = (r, c) → sumifs rng (av :: args) = sumifs rng args ∧
        averageifs rng (av :: args) = averageifs rng args ∧ maxifs rng (av :: args) = maxifs rng args ∧
        minifs rng (av :: args) = minifs rng args) := by
  have k0 := C15_duplicate_pair args av hav none r c hrect hsize (by intro o h; cases h) pairs hparse
  refine ⟨by simp [countifs, k0], fun rng hr => ?_⟩
  have k1 := C15_duplicate_pair args av hav (some rng) r c hrect hsize
    (by intro o h; cases h; exact hr) pairs hparse
  simp [sumifs, averageifs, maxifs, minifs, aggregate, k1]

example : ∃ (a : Arr) (v : Val) (pairs : List (Arr × Crit)),
    parseAll [(a, v)] = some pairs ∧ IsRect a ∧ size a = (2, 1) ∧
    countifs [(a, v), (a, v)] = countifs [(a, v)] ∧ countifs [(a, v)] = .ok (.num 1) :=
  ⟨[[.num 1], [.num 5]], .str ">1".toList, _, rfl, by intro row h; simp at h; rcases h with h | h <;> subst h <;> rfl, rfl, by decide +kernel, by decide +kernel⟩

end Pycel.Criteria

/- C15: property theorems (not built yet). -/

/-
  C03 — Persisted models are observationally equivalent to the model that was saved.

  Model: Pycel/Model/Persist.lean (cell codec, selection and order of the written cells, the ordered document, the
  loader, the engine view of a cell map); lemmas: Pycel/Lemmas/Persist.lean; engine: Pycel/Model/Engine.lean with
  Pycel/Lemmas/Engine.lean (C01).  Every theorem holds for EVERY cell map (any number of cells, any addresses, any
  build order), EVERY scalar codec that satisfies its contract on the scalars written, EVERY user extra_data, and
  (the observational part) EVERY value type, EVERY interpretation of python code that reads only the addresses the code
  names, EVERY equality test of set_value and EVERY finite post-load history.
-/
import Pycel.Lemmas.Persist
import Pycel.Lemmas.EngineInst
namespace Pycel.Persist
open Pycel Pycel.Engine List

variable {δ τ : Type}

/-! ## the cell codec: "returns for every saved cell the same value as the original" -/

/- FULL statement (every cell content survives `cell_value` → text codec → `_get_cell`):
     ∀ e, e.serialized → decodeEntry (e.key, c.dec (c.enc (encodeCell e.content))) = e
   It is FALSE of the model and of the code for a text constant that starts with '=' (`C03_text_eq_counterexample`;
   known finding text.eq-prefix).  Proved under the hypotheses the proof forces: `EntryOK e` (a value cell's text does
   not start with '=', value cells sit at cell addresses) and the codec contract on the one scalar written. -/
theorem C03_cell_roundtrip_partial (c : Codec τ) (e : Entry) (ok : EntryOK e) (hs : e.serialized = true)
    (hc : c.dec (c.enc (encodeCell e.content)) = encodeCell e.content) :
    decodeEntry (e.key, c.dec (c.enc (encodeCell e.content))) = e := by
  rw [hc]; exact decodeEntry_encode ok hs

/- code always survives (python code is written behind '=' and read back from behind it) -/
theorem C03_code_roundtrip (py : List Char) : decodeCell (encodeCell (.code py)) = .code py := rfl

/- the counterexample: `set_value(A1, "=foo")`, save, load: A1 is the CODE `foo` -/
theorem C03_text_eq_counterexample :
    decodeCell (encodeCell (.const (.str "=foo".toList))) = .code "foo".toList ∧
    decodeCell (encodeCell (.const (.str "=foo".toList))) ≠ .const (.str "=foo".toList) := by
  constructor
  · rfl
  · decide

/- the hypothesis is exactly what is needed: a constant survives iff it is not a text starting with '=' -/
theorem C03_eq_hypothesis_forced (v : Val) :
    decodeCell (encodeCell (.const v)) = .const v ↔ startsWithEq v = false := by
  constructor
  · intro h
    cases v with
    | str s =>
      cases s with
      | nil => rfl
      | cons ch t =>
        by_cases e : ch = '='
        · subst e; simp [encodeCell, decodeCell] at h
        · simp only [startsWithEq]
          split
          · rename_i heq; simp at heq; exact absurd heq.1 e
          · rfl
    | _ => rfl
  · exact decodeCell_const

/-! ## which cells are written, and in which order -/

theorem findEntry_filter_not_plain (k : Key) (cells : List Entry) :
    findEntry k (cells.filter Entry.serialized) ≠ some .plain := by
  intro h
  have hm := mem_of_find_some (by rw [findEntry_eq] at h; exact h)
  rcases mem_map.mp hm with ⟨e, he, heq⟩
  have hs := (mem_filter.mp he).2
  simp only [contentPair, Prod.mk.injEq] at heq
  simp [Entry.serialized, heq.2] at hs

/- "serialized cell_map (python code or constants)": the file's cell map holds, for every address, '=' + code for a
   formula cell or a CSE range, the constant for a value cell, and nothing for a range without a formula. -/
theorem C03_serialize_content {cells : List Entry} (nd : NodupKeys cells) (k : Key) :
    find k (serialize cells) = (strip (findEntry k cells)).map encodeCell := by
  rw [← find_perm (rawPairs_keys_nodup nd) (serialize_perm cells).symm]
  have : rawPairs cells = ((cells.filter Entry.serialized).map contentPair).map fun kv => (kv.1, encodeCell kv.2) := by
    unfold rawPairs; rw [map_map]; rfl
  rw [this, find_map_val, ← findEntry_eq, ← strip_find_filter nd]
  have := findEntry_filter_not_plain k cells
  cases h : findEntry k (cells.filter Entry.serialized) with
  | none => rfl
  | some c => cases c <;> simp_all [strip]

/- "sorted by address": the entries are in (sheet, column, row) order -/
theorem C03_serialize_sorted (cells : List Entry) :
    Pairwise (fun a b : Key × Val => keyLe a.1 b.1 = true) (serialize cells) :=
  isort_sorted entryLe_total entryLe_trans _

/-! ## "Saving is deterministic": the file does not depend on the order in which the model was built -/

/- as a MAPPING the written cell map never depends on the build order (a dict has distinct addresses) -/
theorem C03_order_independent_map {cells cells' : List Entry} (p : cells ~ cells') (nd : NodupKeys cells) (k : Key) :
    find k (serialize cells) = find k (serialize cells') := by
  have nd' : NodupKeys cells' := ((p.map _).nodup_iff).mp nd
  rw [C03_serialize_content nd, C03_serialize_content nd', findEntry_eq, findEntry_eq]
  rw [find_perm (by rw [contentPair_keys]; exact nd) (p.map contentPair)]

/-- no two written entries share a sort key (sheet, column, row of the top-left corner) -/
def DistinctSortKeys (cells : List Entry) : Prop :=
  ∀ e, e ∈ cells → ∀ e', e' ∈ cells → e.serialized = true → e'.serialized = true →
    e.key.sortKey = e'.key.sortKey → e = e'

theorem rawPairs_anti {cells : List Entry} (d : DistinctSortKeys cells) (a b : Key × Val)
    (ha : a ∈ rawPairs cells) (hb : b ∈ rawPairs cells) (h1 : entryLe a b = true) (h2 : entryLe b a = true) : a = b := by
  rcases mem_map.mp ha with ⟨e, he, rfl⟩
  rcases mem_map.mp hb with ⟨e', he', rfl⟩
  have hm := mem_filter.mp he
  have hm' := mem_filter.mp he'
  rw [d e hm.1 e' hm'.1 hm.2 hm'.2 (keyLe_antisymm _ _ h1 h2)]

/- byte identity (same entries in the same order) across build orders needs distinct sort keys … -/
theorem C03_order_independent_bytes {cells cells' : List Entry} (p : cells ~ cells') (d : DistinctSortKeys cells) :
    serialize cells = serialize cells' :=
  isort_perm_eq entryLe_total entryLe_trans ((p.filter _).map _) (rawPairs_anti d)

/-- S!A1 = "a" and the CSE range S!A1:A2 (code `x`): same top-left corner, same sort key -/
def cornerCell : Entry := ⟨⟨['S'], 1, 1, none⟩, .const (.str ['a'])⟩
def cornerRange : Entry := ⟨⟨['S'], 1, 1, some (1, 2)⟩, .code ['x']⟩

/- … and the exception is real: a cell and a CSE range that share their top-left corner have EQUAL sort keys
   (`sort_key` ignores the extent), `sorted` is stable, so the two build orders give two different files with the same
   content. -/
theorem C03_order_counterexample :
    [cornerCell, cornerRange] ~ [cornerRange, cornerCell] ∧ NodupKeys [cornerCell, cornerRange] ∧
    cornerCell.key.sortKey = cornerRange.key.sortKey ∧
    serialize [cornerCell, cornerRange] ≠ serialize [cornerRange, cornerCell] := by
  refine ⟨Perm.swap _ _ _, by decide, rfl, by decide⟩

/-! ## "saving an unchanged model again leaves the text file byte-identical" -/

/- the document of the second save equals the document of the first (rendering it to bytes is a function) -/
theorem C03_save_twice_identical (c : Codec τ) (emb : Emb δ) (m : Model δ) :
    toDoc c (afterSave emb m) = toDoc c m := by
  unfold afterSave
  cases h : m.extra with
  | none => rfl
  | some l =>
    simp only [toDoc, Model.extraList, h, Option.getD_some]
    rw [userPart_append, userPart_idem]
    have : userPart [(kCycles, emb.cycles m.cycles), (kHash, emb.hash m.hash), (kFilename, emb.filename m.filename)] = [] := by
      simp [userPart, reserved_kCycles, reserved_kHash, reserved_kFilename]
    rw [this, append_nil]

/- what the order of the top-level entries is a function of: the user's non-reserved keys in the order of the dict,
   then cycles, excel_hash, cell_map, filename — nothing else (not what an earlier save or the loaded file left in
   the dict) -/
theorem C03_doc_keys (c : Codec τ) (m : Model δ) :
    docKeys (toDoc c m) = (userPart m.extraList).map (·.1) ++ [kCycles, kHash, kCellMap, kFilename] := by
  simp [docKeys, toDoc, List.map_append, List.map_map, Function.comp_def]

theorem userPart_upd (k : List Char) (hk : reserved k = false) (d : δ) :
    ∀ l : List (List Char × δ), userPart (upd k d l) = upd k d (userPart l)
  | [] => by simp [upd, userPart, hk]
  | (k', v') :: l => by
    by_cases e : k = k'
    · subst e; simp [upd, userPart, hk]
    · by_cases r : reserved k' = true
      · simp only [upd, e, if_false, userPart, List.filter_cons, r, Bool.not_true, Bool.false_eq_true]
        exact userPart_upd k hk d l
      · have r' : reserved k' = false := by simpa using r
        simp only [upd, e, if_false, userPart, List.filter_cons, r', Bool.not_false, if_true]
        exact congrArg _ (userPart_upd k hk d l)

/- save, then `extra_data[k] = d` IN PLACE on the dict the save left behind (it now also holds cycles, excel_hash,
   filename), then save again: the user's keys keep their order, a new key comes after them and BEFORE the four
   entries of the file — exactly where a model loaded from that file will write it again (`C03_resave_identical`) -/
theorem C03_doc_keys_after_add (c : Codec τ) (emb : Emb δ) (m : Model δ) (l : List (List Char × δ))
    (hm : m.extra = some l) (k : List Char) (hk : reserved k = false) (d : δ) :
    docKeys (toDoc c { afterSave emb m with extra := some (upd k d (afterSave emb m).extraList) }) =
      (upd k d (userPart l)).map (·.1) ++ [kCycles, kHash, kCellMap, kFilename] := by
  rw [C03_doc_keys]
  simp only [Model.extraList, Option.getD_some, afterSave, hm]
  rw [userPart_upd k hk d, userPart_append, userPart_idem]
  simp [userPart, reserved_kCycles, reserved_kHash, reserved_kFilename]

/- "pickle only rewritten when text changed": the second save of an unchanged model does not rewrite the pickle -/
theorem C03_pickle_not_rewritten {σ : Type} [DecidableEq σ] (render : Doc δ τ → σ) (c : Codec τ) (emb : Emb δ)
    (m : Model δ) :
    textChanged (some (render (toDoc c m))) (render (toDoc c (afterSave emb m))) = false := by
  rw [C03_save_twice_identical]; simp [textChanged]

/- the same with the test the code performs, on digests (any digest: equal texts have equal digests) -/
theorem C03_pickle_not_rewritten_digest {σ η : Type} [DecidableEq η] (digest : σ → η) (render : Doc δ τ → σ)
    (c : Codec τ) (emb : Emb δ) (m : Model δ) :
    textChangedBy digest (some (render (toDoc c m))) (render (toDoc c (afterSave emb m))) = false := by
  rw [C03_save_twice_identical]; simp [textChangedBy]

/- "pickle only rewritten when text changed", the direction that matters for what a later `from_file` returns: under
   the ASSUMED contract of the digest (md5 of the whole file: equal digest ⇒ equal text, `DigestFaithful`) a save
   keeps the pickle equal to the model of the text on disk … -/
theorem C03_pickle_fresh_step {σ η ρ : Type} [DecidableEq η] (digest : σ → η) (hd : DigestFaithful digest)
    (fromText : σ → ρ) (d : Disk σ ρ) (hf : d.Fresh fromText) (t : σ) :
    (saveStep digest fromText d t).Fresh fromText := by
  unfold saveStep
  split
  · intro t' ht'; simp only [Option.some.injEq] at ht'; rw [← ht']
  · rename_i hno
    simp only [Bool.or_eq_true, not_or, Bool.not_eq_true] at hno
    intro t' ht'
    simp only [Option.some.injEq] at ht'
    subst ht'
    show d.pickle = some (fromText t)
    cases hx : d.text with
    | none => simp [textChangedBy, hx] at hno
    | some old =>
      have h1 := hno.1
      simp only [textChangedBy, hx, decide_eq_false_iff_not, Decidable.not_not] at h1
      rw [← hd old t h1]
      exact hf old hx

/- … after ANY history of saves of the edited model, starting from an empty directory: loading the pickle gives the
   model of the text that was written last (`from_file(name + '.pkl')`, `from_file(name)` agree with the yml) -/
theorem C03_pickle_fresh {σ η ρ : Type} [DecidableEq η] (digest : σ → η) (hd : DigestFaithful digest)
    (fromText : σ → ρ) (ts : List σ) :
    (saves digest fromText ⟨none, none⟩ ts).Fresh fromText := by
  have key : ∀ (ts : List σ) (d : Disk σ ρ), d.Fresh fromText → (saves digest fromText d ts).Fresh fromText := by
    intro ts
    induction ts with
    | nil => intro d h; exact h
    | cons t ts ih => intro d h; exact ih _ (C03_pickle_fresh_step digest hd fromText d h t)
  exact key ts _ (fun t h => by simp at h)

/- the contract is forced: with a digest that identifies two different texts (here: their length — e.g. a hash of a
   prefix plus the size), editing 1 → 2 and saving again leaves the OLD pickle next to the new text -/
theorem C03_weak_digest_counterexample :
    (saves (fun s : List Char => s.length) (fun s => s) ⟨none, none⟩ [['1'], ['2']]).text = some ['2'] ∧
    (saves (fun s : List Char => s.length) (fun s => s) ⟨none, none⟩ [['1'], ['2']]).pickle = some ['1'] := by
  constructor <;> decide

/-- a model whose extra_data is the dict {"k": 7} -/
def demoExtra : Model Nat :=
  { cells := [cornerCell], cycles := none, hash := none, filename := ['w'], extra := some [(['k'], 7)] }

def natEmb : Emb Nat := ⟨fun _ => 0, fun _ => 0, fun _ => 0⟩

/- the pinned `_to_text` (dict.update on the user's dict, which it keeps mutated): the first save writes
   k, cycles, excel_hash, cell_map, filename; the second k, cycles, excel_hash, filename, cell_map. -/
theorem C03_save_twice_asWritten_counterexample :
    docKeys (toDocAsWritten Codec.id demoExtra) = [['k'], kCycles, kHash, kCellMap, kFilename] ∧
    docKeys (toDocAsWritten Codec.id (afterSaveAsWritten natEmb demoExtra)) =
      [['k'], kCycles, kHash, kFilename, kCellMap] := by
  constructor <;> decide

/-! ## "saving a loaded model reproduces the same content (cells, code, constants)" -/

/-- the hypotheses of the round trip: distinct addresses (a dict), every cell `EntryOK` (no text constant starting
    with '='), the codec contract on the scalars that are written -/
structure Savable (c : Codec τ) (cells : List Entry) : Prop where
  nodup : NodupKeys cells
  ok : ∀ e, e ∈ cells → EntryOK e
  codec : ∀ e, e ∈ cells → e.serialized = true → c.dec (c.enc (encodeCell e.content)) = encodeCell e.content

theorem Savable.of_faithful (c : Codec τ) {cells : List Entry} (P : Val → Prop) (hf : c.Faithful P)
    (nodup : NodupKeys cells) (ok : ∀ e, e ∈ cells → EntryOK e) (hp : ∀ e, e ∈ cells → P (encodeCell e.content)) :
    Savable c cells := ⟨nodup, ok, fun e he _ => hf _ (hp e he)⟩

theorem reload_cells (c : Codec τ) (emb : Emb δ) (stem : List Char) (rebuilt : List Key) (m : Model δ) :
    (reload c emb stem rebuilt m).cells =
      rebuild ((((serialize m.cells).map fun kv => (kv.1, c.enc kv.2)).map fun kv => decodeEntry (kv.1, c.dec kv.2)))
        rebuilt := by
  simp only [reload, load, toDoc_eq, docCellMap_user, docCellMap, rebuild]

theorem reload_filter_perm (c : Codec τ) (emb : Emb δ) (stem : List Char) (rebuilt : List Key) (m : Model δ)
    (H : Savable c m.cells) :
    (reload c emb stem rebuilt m).cells.filter Entry.serialized ~ m.cells.filter Entry.serialized := by
  rw [reload_cells]
  have p := decode_serialize c H.ok H.codec
  exact (rebuild_filter_perm _ rebuilt fun e he => (mem_filter.mp (p.subset he)).2).trans p

/- same cell map as a mapping, always -/
theorem C03_idempotent_map (c : Codec τ) (emb : Emb δ) (stem : List Char) (rebuilt : List Key) (m : Model δ)
    (H : Savable c m.cells) (k : Key) :
    find k (serialize (reload c emb stem rebuilt m).cells) = find k (serialize m.cells) := by
  have p : serialize (reload c emb stem rebuilt m).cells ~ serialize m.cells :=
    (serialize_perm _).trans (((reload_filter_perm c emb stem rebuilt m H).map pairOf).trans (serialize_perm _).symm)
  exact (find_perm (serialize_keys_nodup H.nodup) p.symm).symm

/- same entries in the same order (hence the same bytes) when no two written entries share a sort key -/
theorem C03_idempotent_bytes (c : Codec τ) (emb : Emb δ) (stem : List Char) (rebuilt : List Key) (m : Model δ)
    (H : Savable c m.cells) (d : DistinctSortKeys m.cells) :
    serialize (reload c emb stem rebuilt m).cells = serialize m.cells :=
  (isort_perm_eq entryLe_total entryLe_trans ((reload_filter_perm c emb stem rebuilt m H).symm.map pairOf)
    (rawPairs_anti d)).symm

def demoCorner : Model Nat :=
  { cells := [cornerRange, cornerCell], cycles := none, hash := none, filename := ['w'], extra := none }

/- with the shared corner the loaded model (cells first, then ranges) writes the two entries in the other order -/
theorem C03_idempotent_counterexample :
    serialize (reload Codec.id natEmb ['w'] [] demoCorner).cells ≠ serialize demoCorner.cells := by decide

/-! ## "the iteration settings, workbook file name, source hash and user extra_data survive the trip" -/

theorem reload_cycles (c : Codec τ) (emb : Emb δ) (stem : List Char) (r : List Key) (m : Model δ) :
    (reload c emb stem r m).cycles = m.cycles := by
  simp only [reload, load, toDoc_eq, docCycles_user, docCycles]

theorem reload_hash (c : Codec τ) (emb : Emb δ) (stem : List Char) (r : List Key) (m : Model δ) :
    (reload c emb stem r m).hash = m.hash := by
  simp only [reload, load, toDoc_eq, docHash_user, docHash]

theorem reload_filename (c : Codec τ) (emb : Emb δ) (stem : List Char) (r : List Key) (m : Model δ) :
    (reload c emb stem r m).filename = m.filename := by
  simp only [reload, load, toDoc_eq, docFilename_user, docFilename]

theorem reload_extra (c : Codec τ) (emb : Emb δ) (stem : List Char) (r : List Key) (m : Model δ) :
    (reload c emb stem r m).extraList = userPart m.extraList ++ [(kFilename, emb.filename m.filename)] := by
  simp only [reload, load, toDoc_eq, Model.extraList, Option.getD_some, docExtra_user, docExtra]

theorem C03_carried (c : Codec τ) (emb : Emb δ) (stem : List Char) (r : List Key) (m : Model δ) :
    (reload c emb stem r m).cycles = m.cycles ∧ (reload c emb stem r m).hash = m.hash ∧
    (reload c emb stem r m).filename = m.filename ∧
    (∀ cur, (reload c emb stem r m).hashMatches cur = m.hashMatches cur) ∧
    userPart (reload c emb stem r m).extraList = userPart m.extraList := by
  refine ⟨reload_cycles .., reload_hash .., reload_filename .., fun cur => ?_, ?_⟩
  · simp only [Model.hashMatches, reload_hash]
  · rw [reload_extra, userPart_append, userPart_idem]
    simp [userPart, reserved_kFilename]

/- saving the loaded model writes the same settings, file name, hash and user data, in the same places -/
theorem C03_resave_settings (c : Codec τ) (emb : Emb δ) (stem : List Char) (r : List Key) (m : Model δ) :
    toDoc c (reload c emb stem r m) = toDoc c { m with cells := (reload c emb stem r m).cells } := by
  have h := C03_carried c emb stem r m
  simp only [toDoc, h.1, h.2.1, h.2.2.1, h.2.2.2.2]
  rfl

/- … so under `DistinctSortKeys` the re-saved file is the very same document -/
theorem C03_resave_identical (c : Codec τ) (emb : Emb δ) (stem : List Char) (r : List Key) (m : Model δ)
    (H : Savable c m.cells) (d : DistinctSortKeys m.cells) :
    toDoc c (reload c emb stem r m) = toDoc c m := by
  rw [C03_resave_settings]
  simp only [toDoc, C03_idempotent_bytes c emb stem r m H d]
  rfl

/-! ## "reacts to every subsequent set_value/evaluate history exactly as the original does" -/

section Observational
variable {α : Type}

/-- the cell map of a model as a lookup -/
def cmOf (m : Model δ) : Key → Option Content := fun k => findEntry k m.cells

theorem reload_strip (c : Codec τ) (emb : Emb δ) (stem : List Char) (r : List Key) (m : Model δ)
    (H : Savable c m.cells) (k : Key) : strip (cmOf (reload c emb stem r m) k) = strip (cmOf m k) := by
  unfold cmOf
  rw [reload_cells]
  exact strip_find_rebuild r H.nodup (decode_serialize c H.ok H.codec)

/- `load` preserves formulas (the code of every node, hence the graph and the formula semantics) and inputs -/
theorem C03_loaded_preserves (V : View α) (c : Codec τ) (emb : Emb δ) (stem : List Char) (r : List Key) (m : Model δ)
    (H : Savable c m.cells) :
    wbOf V (cmOf (reload c emb stem r m)) = wbOf V (cmOf m) ∧
    semOf V (cmOf (reload c emb stem r m)) = semOf V (cmOf m) ∧
    inpOf V (cmOf (reload c emb stem r m)) = inpOf V (cmOf m) :=
  ⟨wbOf_congr V (reload_strip c emb stem r m H), semOf_congr V (reload_strip c emb stem r m H),
   inpOf_congr V (reload_strip c emb stem r m H)⟩

theorem loadedState_reload (V : View α) (c : Codec τ) (emb : Emb δ) (stem : List Char) (r : List Key) (m : Model δ)
    (H : Savable c m.cells) :
    loadedState V (reload c emb stem r m) = initLoaded (wbOf V (cmOf m)) (semOf V (cmOf m)) (inpOf V (cmOf m)) := by
  have h := C03_loaded_preserves V c emb stem r m H
  unfold loadedState
  show initLoaded (wbOf V (cmOf (reload c emb stem r m))) (semOf V (cmOf (reload c emb stem r m)))
    (inpOf V (cmOf (reload c emb stem r m))) = _
  rw [h.1, h.2.1, h.2.2]

/- the loaded model satisfies the engine invariant, its inputs are the saved constants, every saved cell is in its
   cell map -/
theorem C03_loaded_inv (V : View α) (c : Codec τ) (emb : Emb δ) (stem : List Char) (r : List Key) (m : Model δ)
    (H : Savable c m.cells) (hwf : WF (wbOf V (cmOf m))) (hl : Local (wbOf V (cmOf m)) (semOf V (cmOf m))) :
    Inv (wbOf V (cmOf m)) (semOf V (cmOf m)) (loadedState V (reload c emb stem r m)) ∧
    (loadedState V (reload c emb stem r m)).inp = inpOf V (cmOf m) ∧
    ∀ k, k < V.n → (loadedState V (reload c emb stem r m)).built k = true := by
  rw [loadedState_reload V c emb stem r m H]
  have h := initLoaded_spec hwf hl (inpOf V (cmOf m))
  refine ⟨h.1, h.2.1, fun k hk => ?_⟩
  rw [h.2.2]; exact decide_eq_true hk

/- MAIN: `s` = the evaluation state of the original model when it was saved (any state satisfying the C01 invariant in
   which the cell map is the whole model and whose current inputs are the constants of the cell map).  After EVERY
   history of set_value/evaluate, EVERY evaluate returns the same value on the loaded model as on the original —
   both are, by C01 coherence (`evaluate_spec.val` after `run_inv`), the from-scratch value at the same inputs. -/
theorem C03_observational (V : View α) (c : Codec τ) (emb : Emb δ) (stem : List Char) (r : List Key) (m : Model δ)
    (H : Savable c m.cells) (hwf : WF (wbOf V (cmOf m))) (hl : Local (wbOf V (cmOf m)) (semOf V (cmOf m)))
    (eqv : α → α → Bool) (s : State α) (hinv : Inv (wbOf V (cmOf m)) (semOf V (cmOf m)) s)
    (hinp : s.inp = inpOf V (cmOf m)) (hbuilt : ∀ k, k < V.n → s.built k = true)
    (h : List (Op α)) (a : Nat) (ha : a < V.n) :
    (evaluate (wbOf V (cmOf m)) (semOf V (cmOf m)) a
        (run (wbOf V (cmOf m)) (semOf V (cmOf m)) eqv (loadedState V (reload c emb stem r m)) h)).1 =
    (evaluate (wbOf V (cmOf m)) (semOf V (cmOf m)) a
        (run (wbOf V (cmOf m)) (semOf V (cmOf m)) eqv s h)).1 := by
  have L := C03_loaded_inv V c emb stem r m H hwf hl
  have han : a < (wbOf V (cmOf m)).n := ha
  rw [(evaluate_spec hwf hl (run_inv hwf hl eqv h L.1) a).val han,
      (evaluate_spec hwf hl (run_inv hwf hl eqv h hinv) a).val han]
  rw [run_same_inputs hwf hl eqv h _ s L.1 hinv (L.2.1.trans hinp.symm) L.2.2 hbuilt]

/- the same on the whole list of values a history returns -/
theorem C03_observational_outputs (V : View α) (c : Codec τ) (emb : Emb δ) (stem : List Char) (r : List Key)
    (m : Model δ) (H : Savable c m.cells) (hwf : WF (wbOf V (cmOf m)))
    (hl : Local (wbOf V (cmOf m)) (semOf V (cmOf m))) (eqv : α → α → Bool) (s : State α)
    (hinv : Inv (wbOf V (cmOf m)) (semOf V (cmOf m)) s) (hinp : s.inp = inpOf V (cmOf m))
    (hbuilt : ∀ k, k < V.n → s.built k = true) (hops : List (Op α))
    (hin : ∀ a, Op.eval a ∈ hops → a < V.n) :
    outputs (wbOf V (cmOf m)) (semOf V (cmOf m)) eqv (loadedState V (reload c emb stem r m)) hops =
    outputs (wbOf V (cmOf m)) (semOf V (cmOf m)) eqv s hops := by
  have key : ∀ (pre post : List (Op α)), (∀ a, Op.eval a ∈ post → a < V.n) →
      outputs (wbOf V (cmOf m)) (semOf V (cmOf m)) eqv
        (run (wbOf V (cmOf m)) (semOf V (cmOf m)) eqv (loadedState V (reload c emb stem r m)) pre) post =
      outputs (wbOf V (cmOf m)) (semOf V (cmOf m)) eqv
        (run (wbOf V (cmOf m)) (semOf V (cmOf m)) eqv s pre) post := by
    intro pre post
    induction post generalizing pre with
    | nil => intro _; rfl
    | cons op post ih =>
      intro hpost
      have ih' := ih (pre ++ [op]) (fun a ha => hpost a (mem_cons_of_mem _ ha))
      rw [run_append, run_append] at ih'
      cases op with
      | set i v =>
        simp only [outputs]
        exact congrArg (none :: ·) ih'
      | eval a =>
        simp only [outputs]
        have := C03_observational V c emb stem r m H hwf hl eqv s hinv hinp hbuilt pre a (hpost a mem_cons_self)
        rw [this]
        exact congrArg (some _ :: ·) ih'
  exact key [] hops hin

/- the loaded model and the original are `Alike`: same current inputs, the whole cell map built, invariant -/
theorem C03_alike (V : View α) (c : Codec τ) (emb : Emb δ) (stem : List Char) (r : List Key) (m : Model δ)
    (H : Savable c m.cells) (hwf : WF (wbOf V (cmOf m))) (hl : Local (wbOf V (cmOf m)) (semOf V (cmOf m)))
    (s : State α) (hinv : Inv (wbOf V (cmOf m)) (semOf V (cmOf m)) s)
    (hinp : s.inp = inpOf V (cmOf m)) (hbuilt : ∀ k, k < V.n → s.built k = true) :
    Alike (wbOf V (cmOf m)) (semOf V (cmOf m)) (loadedState V (reload c emb stem r m)) s := by
  have L := C03_loaded_inv V c emb stem r m H hwf hl
  exact ⟨L.1, hinv, L.2.1.trans hinp.symm, L.2.2, hbuilt⟩

/- the same for histories that also use the list forms of the public API — `set_value(<range | list of cells>,
   [v…])` (`setMany`: written one by one, aborted at the first address that is not a value cell) and
   `evaluate([a…])` (`evalMany`): every later evaluate, single or list, returns the same on both models -/
theorem C03_observational_X (V : View α) (c : Codec τ) (emb : Emb δ) (stem : List Char) (r : List Key) (m : Model δ)
    (H : Savable c m.cells) (hwf : WF (wbOf V (cmOf m))) (hl : Local (wbOf V (cmOf m)) (semOf V (cmOf m)))
    (eqv : α → α → Bool) (s : State α) (hinv : Inv (wbOf V (cmOf m)) (semOf V (cmOf m)) s)
    (hinp : s.inp = inpOf V (cmOf m)) (hbuilt : ∀ k, k < V.n → s.built k = true) (h : List (OpX α)) :
    (∀ a, a < V.n →
      (evaluate (wbOf V (cmOf m)) (semOf V (cmOf m)) a
          (runX (wbOf V (cmOf m)) (semOf V (cmOf m)) eqv (loadedState V (reload c emb stem r m)) h)).1 =
      (evaluate (wbOf V (cmOf m)) (semOf V (cmOf m)) a
          (runX (wbOf V (cmOf m)) (semOf V (cmOf m)) eqv s h)).1) ∧
    (∀ l : List Nat, (∀ a, a ∈ l → a < V.n) →
      (evalMany (wbOf V (cmOf m)) (semOf V (cmOf m)) l
          (runX (wbOf V (cmOf m)) (semOf V (cmOf m)) eqv (loadedState V (reload c emb stem r m)) h)).1 =
      (evalMany (wbOf V (cmOf m)) (semOf V (cmOf m)) l
          (runX (wbOf V (cmOf m)) (semOf V (cmOf m)) eqv s h)).1) := by
  have A := (C03_alike V c emb stem r m H hwf hl s hinv hinp hbuilt).runs hwf hl eqv h
  exact ⟨fun a ha => A.evalVal hwf hl a ha, fun l hl' => A.evalLVal hwf hl l hl'⟩

/- "returns for every saved cell the same value as the original" (the empty history) -/
theorem C03_saved_values (V : View α) (c : Codec τ) (emb : Emb δ) (stem : List Char) (r : List Key) (m : Model δ)
    (H : Savable c m.cells) (hwf : WF (wbOf V (cmOf m))) (hl : Local (wbOf V (cmOf m)) (semOf V (cmOf m)))
    (s : State α) (hinv : Inv (wbOf V (cmOf m)) (semOf V (cmOf m)) s)
    (hinp : s.inp = inpOf V (cmOf m)) (hbuilt : ∀ k, k < V.n → s.built k = true) (a : Nat) (ha : a < V.n) :
    (evaluate (wbOf V (cmOf m)) (semOf V (cmOf m)) a (loadedState V (reload c emb stem r m))).1 =
    (evaluate (wbOf V (cmOf m)) (semOf V (cmOf m)) a s).1 :=
  C03_observational V c emb stem r m H hwf hl (fun _ _ => false) s hinv hinp hbuilt [] a ha

end Observational

/-! ## the instance the correspondence driver runs (Drv/C03.lean) -/

section Inst
open Pycel.EngineInst

theorem wf_of_viewCheck {α : Type} (V : View α) (cm : Key → Option Content) (h : wfViewCheck V cm = true) :
    WF (wbOf V cm) := by
  constructor
  · intro i j hj
    by_cases hi : i < V.n
    · have := (List.all_eq_true.mp h) i (List.mem_range.mpr hi)
      exact of_decide_eq_true ((List.all_eq_true.mp this) j hj)
    · have : (wbOf V cm).deps i = [] := by
        simp only [wbOf, codeAt, hi, if_false, false_and]
      rw [this] at hj; simp at hj
  · intro i hk
    simp only [wbOf] at hk ⊢
    cases hc : codeAt V cm i with
    | some py => simp [hc] at hk
    | none =>
      simp only [hc] at hk ⊢
      split
      · rename_i hr; simp [hr] at hk
      · rfl

/- python code interpreted through the table reads only the addresses it names -/
theorem tableView_local (nodes : List Node) (cm : Key → Option Content) :
    Local (wbOf (tableView nodes) cm) (semOf (tableView nodes) cm) := by
  intro i e e' h
  simp only [wbOf] at h
  simp only [semOf]
  cases hc : codeAt (tableView nodes) cm i with
  | some py =>
    simp only [hc] at h ⊢
    simp only [tableView] at h ⊢
    cases hl : lookupCode py nodes with
    | none => rfl
    | some fm =>
      simp only [hl] at h
      exact evalFml_congr fm e e' h
  | none =>
    simp only [hc] at h ⊢
    by_cases hr : i < (tableView nodes).n ∧ ((tableView nodes).keyOf i).isRange = true
    · rw [if_pos hr] at h
      rw [if_pos hr, if_pos hr]
      simp only [tableView] at h ⊢
      congr 1
      apply List.map_congr_left
      intro row hrow
      apply List.map_congr_left
      intro j hj
      rw [h j (List.mem_flatten.mpr ⟨row, hrow, hj⟩)]
    · rw [if_neg hr, if_neg hr]

/- the driver's model is an instance of `C03_observational`: for every node table and cell map that pass the run-time
   check (the driver refuses any other) -/
theorem C03_observational_inst (nodes : List Node) (c : Codec τ) (emb : Emb δ) (stem : List Char) (r : List Key)
    (m : Model δ) (H : Savable c m.cells) (hchk : wfViewCheck (tableView nodes) (cmOf m) = true)
    (s : State EV) (hinv : Inv (wbOf (tableView nodes) (cmOf m)) (semOf (tableView nodes) (cmOf m)) s)
    (hinp : s.inp = inpOf (tableView nodes) (cmOf m)) (hbuilt : ∀ k, k < nodes.length → s.built k = true)
    (h : List (Op EV)) (a : Nat) (ha : a < nodes.length) :
    (evaluate (wbOf (tableView nodes) (cmOf m)) (semOf (tableView nodes) (cmOf m)) a
        (run (wbOf (tableView nodes) (cmOf m)) (semOf (tableView nodes) (cmOf m)) typedEq
          (loadedState (tableView nodes) (reload c emb stem r m)) h)).1 =
    (evaluate (wbOf (tableView nodes) (cmOf m)) (semOf (tableView nodes) (cmOf m)) a
        (run (wbOf (tableView nodes) (cmOf m)) (semOf (tableView nodes) (cmOf m)) typedEq s h)).1 :=
  C03_observational (tableView nodes) c emb stem r m H (wf_of_viewCheck _ _ hchk) (tableView_local nodes _)
    typedEq s hinv hinp hbuilt h a ha

/-! ### non-vacuity: a concrete model with inputs, formulas, a plain range, settings and user data -/

def kA (r : Nat) : Key := ⟨"Sheet1".toList, 1, r, none⟩
def kB (r : Nat) : Key := ⟨"Sheet1".toList, 2, r, none⟩
def kRange : Key := ⟨"Sheet1".toList, 1, 1, some (1, 2)⟩

/-- A1 = 0, A2 = "yes", B1 = A1&"|"&A2&"|", A1:A2, B2 = INDEX(A1:A2,2,1) -/
def demoNodes : List Node :=
  [⟨kA 1, .inp (.num 0), []⟩, ⟨kA 2, .inp (.str "yes".toList), []⟩,
   ⟨kB 1, .fml (.cat [0, 1]), "_C_(\"Sheet1!A1\") & \"|\" & _C_(\"Sheet1!A2\") & \"|\"".toList⟩,
   ⟨kRange, .rng [[0], [1]], []⟩,
   ⟨kB 2, .fml (.idx 3 2 1), "index(_R_(\"Sheet1!A1:A2\"), 2, 1)".toList⟩]

/-- the cell map in a build order that is neither the file order nor the node order -/
def demoModel : Model Nat :=
  { cells := [entryOf demoNodes[4]! .blank, entryOf demoNodes[3]! .blank, entryOf demoNodes[1]! (.str "yes".toList),
              entryOf demoNodes[0]! (.num 0), entryOf demoNodes[2]! .blank],
    cycles := some (100, 1/1000), hash := some "d41d8".toList, filename := "book.xlsx".toList,
    extra := some [("note".toList, 7)] }

theorem demo_savable : Savable Codec.id demoModel.cells :=
  ⟨by decide, by decide, fun _ _ _ => rfl⟩

example : wfViewCheck (tableView demoNodes) (cmOf demoModel) = true := by decide
example : DistinctSortKeys demoModel.cells := by unfold DistinctSortKeys; decide
example : WF (wbOf (tableView demoNodes) (cmOf demoModel)) := wf_of_viewCheck _ _ (by decide)
example : Inv (wbOf (tableView demoNodes) (cmOf demoModel)) (semOf (tableView demoNodes) (cmOf demoModel))
    (loadedState (tableView demoNodes) (reload Codec.id natEmb "m".toList [kRange] demoModel)) :=
  (C03_loaded_inv _ _ _ _ _ _ demo_savable (wf_of_viewCheck _ _ (by decide)) (tableView_local _ _)).1

/- the file of the demo model: (sheet, column, row) order, code behind '=', the plain range absent -/
example : (serialize demoModel.cells).map (·.1) = [kA 1, kA 2, kB 1, kB 2] := by decide
/- executed by the model: load it, write "no" over A2, evaluate B2 and B1 -/
example :
    outputs (wbOf (tableView demoNodes) (cmOf demoModel)) (semOf (tableView demoNodes) (cmOf demoModel)) typedEq
      (loadedState (tableView demoNodes) (reload Codec.id natEmb "m".toList [kRange] demoModel))
      [.eval 4, .set 1 (.sc (.str "no".toList)), .eval 4, .eval 2] =
    [some (.sc (.str "yes".toList)), none, some (.sc (.str "no".toList)), some (.sc (.str "0|no|".toList))] := by
  decide +kernel

end Inst

end Pycel.Persist

/- C03: property theorems (not built yet). -/

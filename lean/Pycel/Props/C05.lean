/- C05: property theorems (not built yet). -/

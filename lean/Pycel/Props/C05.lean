/-
  C05 — A cell has one value, however and in whatever order it is reached.

  Model: Pycel/Model/Engine.lean (generic engine, build on demand, lazy evaluation, caches), Pycel/Model/Access.lean
  (access paths of `evaluate`: cell, bounded range, unbounded row/column range, list/tuple/generator, sheet-less address;
  dimension trimming; clip to the used area), Pycel/Model/Addr.lean (rectangles).  Lemmas: Pycel/Lemmas/Access.lean.

  Every theorem holds for EVERY workbook (any number of nodes, any DAG in topological presentation), EVERY value type,
  EVERY formula semantics that reads only declared precedents, EVERY state satisfying the engine invariant (the three
  ways of obtaining a model satisfy it: Props/C01) and EVERY order / history — by the C01 induction, never by sampling.
-/
import Pycel.Lemmas.Access
import Pycel.Props.C01
namespace Pycel.Access
open Pycel Pycel.Engine Pycel.Addr

variable {α β : Type} {wb : Workbook} {f : Nat → (Nat → α) → α} {L : Layout} {T : Tup α β}

/-! ## "the value of a cell does not depend on the order in which cells were first evaluated or compiled into the model" -/

/- any two sequences of (first or repeated) evaluations `o₁`, `o₂` — in particular any two permutations of the cells —
   leave every cell `a` with the same value, the from-scratch value at the inputs. -/
theorem C05_order (hwf : WF wb) (hl : Local wb f) (eqv : α → α → Bool) (s₀ : State α) (h₀ : Inv wb f s₀)
    (o₁ o₂ : List Nat) (a : Nat) (ha : a < wb.n) :
    (evaluate wb f a (run wb f eqv s₀ (o₁.map Op.eval))).1 =
      (evaluate wb f a (run wb f eqv s₀ (o₂.map Op.eval))).1 ∧
    (evaluate wb f a (run wb f eqv s₀ (o₁.map Op.eval))).1 = denote wb f s₀.inp a := by
  have p1 := run_evals hwf hl eqv o₁ h₀
  have p2 := run_evals hwf hl eqv o₂ h₀
  have e1 := (evaluate_spec hwf hl p1.inv a).val ha
  have e2 := (evaluate_spec hwf hl p2.inv a).val ha
  rw [p1.inp] at e1
  rw [p2.inp] at e2
  exact ⟨e1.trans e2.symm, e1⟩

/- the statement over permutations of the first-evaluation order, as the property words it -/
theorem C05_order_perm (hwf : WF wb) (hl : Local wb f) (eqv : α → α → Bool) (s₀ : State α) (h₀ : Inv wb f s₀)
    (o₁ o₂ : List Nat) (_ : o₁.Perm o₂) (a : Nat) (ha : a < wb.n) :
    (evaluate wb f a (run wb f eqv s₀ (o₁.map Op.eval))).1 =
      (evaluate wb f a (run wb f eqv s₀ (o₂.map Op.eval))).1 :=
  (C05_order hwf hl eqv s₀ h₀ o₁ o₂ a ha).1

/- the values returned WHILE the order is executed: the k-th evaluate of any order returns the from-scratch value of
   its address, so the value an address shows does not depend on its position in the order nor on what came before. -/
theorem C05_order_outputs (hwf : WF wb) (hl : Local wb f) (eqv : α → α → Bool) (s₀ : State α) (h₀ : Inv wb f s₀)
    (o : List Nat) (ho : ∀ a ∈ o, a < wb.n) :
    outputs wb f eqv s₀ (o.map Op.eval) = o.map fun a => some (denote wb f s₀.inp a) := by
  rw [outputs_evals hwf hl eqv o h₀]
  apply List.map_congr_left
  intro a ha
  simp [valueAt, ho a ha]

/- hence the outputs of a permuted order are the permuted outputs -/
theorem C05_order_outputs_perm (hwf : WF wb) (hl : Local wb f) (eqv : α → α → Bool) (s₀ : State α) (h₀ : Inv wb f s₀)
    (o₁ o₂ : List Nat) (hp : o₁.Perm o₂) (ho : ∀ a ∈ o₁, a < wb.n) :
    (outputs wb f eqv s₀ (o₁.map Op.eval)).Perm (outputs wb f eqv s₀ (o₂.map Op.eval)) := by
  rw [C05_order_outputs hwf hl eqv s₀ h₀ o₁ ho,
    C05_order_outputs hwf hl eqv s₀ h₀ o₂ (fun a ha => ho a (hp.mem_iff.mpr ha))]
  exact hp.map _

/- "or compiled into the model" — over the `built` flags (and caches, and stored results): two states that satisfy the
   invariant and hold the same inputs give every cell the same value, whatever subset of cells is in the cell map
   (`built`), whatever is cached, whatever stored results are still in use. -/
theorem C05_built_irrelevant (hwf : WF wb) (hl : Local wb f) (s₁ s₂ : State α) (h₁ : Inv wb f s₁) (h₂ : Inv wb f s₂)
    (hinp : s₁.inp = s₂.inp) (a : Nat) :
    (evaluate wb f a s₁).1 = (evaluate wb f a s₂).1 := by
  rw [evaluate_value hwf hl h₁, evaluate_value hwf hl h₂, hinp]

/- an order of evaluations only adds cells to the cell map and entries to the cache; it never changes an input -/
theorem C05_order_monotone (hwf : WF wb) (hl : Local wb f) (eqv : α → α → Bool) (s₀ : State α) (h₀ : Inv wb f s₀)
    (o : List Nat) :
    (run wb f eqv s₀ (o.map Op.eval)).inp = s₀.inp ∧
    (∀ m, s₀.built m = true → (run wb f eqv s₀ (o.map Op.eval)).built m = true) ∧
    (∀ m, s₀.cache m ≠ none → (run wb f eqv s₀ (o.map Op.eval)).cache m ≠ none) ∧
    (∀ a ∈ o, a < wb.n → (run wb f eqv s₀ (o.map Op.eval)).built a = true) := by
  have p := run_evals hwf hl eqv o h₀
  refine ⟨p.inp, p.mono, p.keeps, ?_⟩
  intro a ha han
  obtain ⟨pre, post, rfl⟩ := List.append_of_mem ha
  have : (pre ++ a :: post).map Op.eval = (pre.map Op.eval ++ [Op.eval a]) ++ post.map (Op.eval (α := α)) := by simp
  rw [this, run_append]
  have q := run_evals hwf hl eqv post (run_inv hwf hl eqv (pre.map Op.eval ++ [Op.eval a]) h₀)
  apply q.mono
  exact C01_built_after_evaluate hwf hl eqv s₀ h₀ (pre.map Op.eval) a han

/- with writes in between (the stored-result staleness of C01 was an order dependence of this kind): two histories of
   set_value/evaluate that end with the same current inputs give every cell the same value — whatever was built first. -/
theorem C05_order_with_writes (hwf : WF wb) (hl : Local wb f) (eqv : α → α → Bool) (s₀ : State α) (h₀ : Inv wb f s₀)
    (h₁ h₂ : List (Op α)) (hinp : (run wb f eqv s₀ h₁).inp = (run wb f eqv s₀ h₂).inp) (a : Nat) :
    (evaluate wb f a (run wb f eqv s₀ h₁)).1 = (evaluate wb f a (run wb f eqv s₀ h₂)).1 :=
  C05_built_irrelevant hwf hl _ _ (run_inv hwf hl eqv h₁ h₀) (run_inv hwf hl eqv h₂ h₀) hinp a

/- whichever way the model was obtained (nothing built / stored results waiting / everything built): same values -/
theorem C05_configurations (hwf : WF wb) (hl : Local wb f) (eqv : α → α → Bool) (inp : Nat → α)
    (stored : Nat → Option α) (hc : StoredConsistent wb f inp stored) (o₁ o₂ o₃ : List Nat) (a : Nat) :
    (evaluate wb f a (run wb f eqv (initNoData inp) (o₁.map Op.eval))).1 =
      (evaluate wb f a (run wb f eqv (initStored inp stored) (o₂.map Op.eval))).1 ∧
    (evaluate wb f a (run wb f eqv (initNoData inp) (o₁.map Op.eval))).1 =
      (evaluate wb f a (run wb f eqv (initLoaded wb f inp) (o₃.map Op.eval))).1 := by
  have i1 : Inv wb f (initNoData inp) := initNoData_inv inp
  have i2 : Inv wb f (initStored inp stored) := initStored_inv inp stored hc
  have i3 := initLoaded_spec hwf hl inp
  have p1 := run_evals hwf hl eqv o₁ i1
  have p2 := run_evals hwf hl eqv o₂ i2
  have p3 := run_evals hwf hl eqv o₃ i3.1
  exact ⟨C05_built_irrelevant hwf hl _ _ p1.inv p2.inv (by rw [p1.inp, p2.inp]; rfl) a,
    C05_built_irrelevant hwf hl _ _ p1.inv p3.inv (by rw [p1.inp, p3.inp, i3.2.1]; rfl) a⟩

/-! ## "and repeating evaluate returns the same value" -/

/- the second evaluate returns the same value and leaves the whole state (cache, cell map, inputs) untouched -/
theorem C05_repeat (hwf : WF wb) (hl : Local wb f) (s : State α) (h : Inv wb f s) (a : Nat) :
    evaluate wb f a (evaluate wb f a s).2 = evaluate wb f a s :=
  evaluate_idem hwf hl h a

theorem C05_repeat_value (hwf : WF wb) (hl : Local wb f) (s : State α) (h : Inv wb f s) (a : Nat) :
    (evaluate wb f a (evaluate wb f a s).2).1 = (evaluate wb f a s).1 ∧
    (evaluate wb f a (evaluate wb f a s).2).2.cache = (evaluate wb f a s).2.cache := by
  rw [C05_repeat hwf hl s h a]; exact ⟨rfl, rfl⟩

/- not only immediately: after any number of other evaluations in between -/
theorem C05_repeat_later (hwf : WF wb) (hl : Local wb f) (eqv : α → α → Bool) (s : State α) (h : Inv wb f s) (a : Nat)
    (between : List Nat) :
    (evaluate wb f a (run wb f eqv (evaluate wb f a s).2 (between.map Op.eval))).1 = (evaluate wb f a s).1 := by
  have p := PathPost.of_evaluate hwf hl h a
  have q := run_evals hwf hl eqv between p.inv
  rw [evaluate_value hwf hl q.inv, evaluate_value hwf hl h, q.inp, p.inp]

/- the same for every access path -/
theorem C05_repeat_path (hwf : WF wb) (hl : Local wb f) (s : State α) (h : Inv wb f s) (p : Path) :
    evalPath wb f L T p (evalPath wb f L T p s).2 = evalPath wb f L T p s :=
  evalPath_idem hwf hl h p

/-! ## "nor on the access path" -/

/- every access path, after ANY history of set_value / evaluate (by any path): the returned value is the from-scratch
   value of that path at the current inputs (`denoteArg` reads nothing but the inputs) -/
theorem C05_path_coherence (hwf : WF wb) (hl : Local wb f) (eqv : α → α → Bool) (s₀ : State α) (h₀ : Inv wb f s₀)
    (h : List (POp α)) (a : Arg) :
    (evalArg wb f L T a (runP wb f L T eqv s₀ h)).1 = denoteArg wb f L T (runP wb f L T eqv s₀ h).inp a :=
  (evalArg_spec hwf hl (runP_inv hwf hl eqv h h₀) a).1

/- order independence over access paths: any two sequences of evaluations by any paths -/
theorem C05_path_order (hwf : WF wb) (hl : Local wb f) (eqv : α → α → Bool) (s₀ : State α) (h₀ : Inv wb f s₀)
    (o₁ o₂ : List Arg) (a : Arg) :
    (evalArg wb f L T a (runP wb f L T eqv s₀ (o₁.map POp.eval))).1 =
      (evalArg wb f L T a (runP wb f L T eqv s₀ (o₂.map POp.eval))).1 := by
  have p1 := runP_evals (L := L) (T := T) hwf hl eqv o₁ h₀
  have p2 := runP_evals (L := L) (T := T) hwf hl eqv o₂ h₀
  rw [(evalArg_spec hwf hl p1.inv a).1, (evalArg_spec hwf hl p2.inv a).1, p1.inp, p2.inp]

theorem C05_path_outputs (hwf : WF wb) (hl : Local wb f) (eqv : α → α → Bool) (s₀ : State α) (h₀ : Inv wb f s₀)
    (o : List Arg) :
    outputsP wb f L T eqv s₀ (o.map POp.eval) = o.map fun a => some (denoteArg wb f L T s₀.inp a) :=
  outputsP_evals hwf hl eqv o h₀

/- "evaluate(cell), the matching element of evaluate(any range containing it) … agree":
   for EVERY rectangle `R` that has a range node (or is the 1×1 rectangle of the cell) and EVERY cell `c` it contains,
   element (row c − top, col c − left) of `evaluate(R)` on state `s` — read through the trimmed shape — is the value
   `evaluate(c)` returns on ANY state `s'` with the same inputs (any other order, a fresh model), = the from-scratch
   value. -/
theorem C05_range_elem (hwf : WF wb) (hl : Local wb f) (ok : LayoutOK wb f L T) (s s' : State α) (h : Inv wb f s)
    (h' : Inv wb f s') (hinp : s'.inp = s.inp) (R : Rect) (hR : isCellRect R = true ∨ (L.rangeNode R).isSome)
    (c : Cell) (hc : R.contains c = true) (hs : c.sheet = R.sheet) (hlt : L.cellNode c < wb.n) :
    (evalRect wb f L T R s).1.elem (R.r2 + 1 - R.r1) (R.c2 + 1 - R.c1) (c.row - R.r1) (c.col - R.c1) =
      some (T.scal (evaluate wb f (L.cellNode c) s').1) ∧
    (evaluate wb f (L.cellNode c) s').1 = denote wb f s.inp (L.cellNode c) := by
  have hv : (evaluate wb f (L.cellNode c) s').1 = denote wb f s.inp (L.cellNode c) := by
    rw [(evaluate_spec hwf hl h' _).val hlt, hinp]
  refine ⟨?_, hv⟩
  rw [(evalRect_spec hwf hl h R).1, hv]
  cases hn : isCellRect R with
  | true => exact denoteRect_elem_cell s.inp hn hc hs hlt
  | false =>
    rcases hR with hR | hR
    · rw [hn] at hR; cases hR
    · obtain ⟨r, hr⟩ := Option.isSome_iff_exists.mp hR
      exact denoteRect_elem_range hwf hl ok s.inp hn hr hc hs

/- the value of a range path as a whole: the trimmed table of the from-scratch values of its cells -/
theorem C05_range_value (hwf : WF wb) (hl : Local wb f) (ok : LayoutOK wb f L T) (s : State α) (h : Inv wb f s)
    (R : Rect) (r : Nat) (hn : isCellRect R = false) (hr : L.rangeNode R = some r) :
    (evalRect wb f L T R s).1 =
      trimDims (R.rows.map (·.map fun c => T.scal (denote wb f s.inp (L.cellNode c)))) := by
  rw [(evalRect_spec hwf hl h R).1]
  unfold denoteRect
  have hrn := (ok.range_node R r hr).1
  simp only [hn, Bool.false_eq_true, ↓reduceIte, hr, valueAt, hrn]
  rw [denote_range hwf hl ok s.inp hr, T.untup_tup]
  simp [List.map_map, Function.comp_def]

/-! ### dimension trimming (`_evaluate_non_iterative` 886-890) -/

/- 1×1 → scalar; single column → flat tuple; single row → flat tuple; otherwise unchanged -/
theorem C05_trim_shapes (rows : List (List β)) (h w : Nat) (ht : IsTable rows h w) (hh : 1 ≤ h) (hw : 1 ≤ w) :
    (h = 1 → w = 1 → ∃ v, rows = [[v]] ∧ trimDims rows = .sc v) ∧
    (2 ≤ h → w = 1 → trimDims rows = .vec rows.flatten ∧ rows.flatten.length = h) ∧
    (h = 1 → 2 ≤ w → ∃ r, rows = [r] ∧ trimDims rows = .vec r) ∧
    (2 ≤ h → 2 ≤ w → trimDims rows = .grid rows) := by
  refine ⟨?_, ?_, ?_, ?_⟩
  · intro h1 w1
    subst h1; subst w1
    obtain ⟨hlen, hwid⟩ := ht
    match rows, hlen, hwid with
    | [r], _, hwid =>
      have := hwid r (by simp)
      match r, this with
      | [v], _ => exact ⟨v, rfl, rfl⟩
  · intro h2 w1
    subst w1
    refine ⟨trimDims_col rows h ht h2, ?_⟩
    rw [length_flatten_const rows 1 ht.2, ht.1]; omega
  · intro h1 w2
    subst h1
    obtain ⟨hlen, hwid⟩ := ht
    match rows, hlen, hwid with
    | [r], _, hwid => exact ⟨r, rfl, trimDims_row r (by have := hwid r (by simp); omega)⟩
  · intro h2 w2
    exact trimDims_grid rows h w ht h2 (by omega)

/- trimming loses nothing: element (i, j) read through the trimmed shape is element (i, j) of the table -/
theorem C05_trim_elem (rows : List (List β)) (h w i j : Nat) (ht : IsTable rows h w) (hi : i < h) (hj : j < w) :
    (trimDims rows).elem h w i j = (rows[i]?).bind (·[j]?) :=
  trimDims_elem rows h w i j ht (by omega) (by omega) hi hj

/-! ### "of an unbounded row/column range clipped to the used area" -/

/- the clipped range enumerates EXACTLY the cells of those columns (rows) that lie inside the used area
   `(1, 1, max_col, max_row)` of its sheet (cells of a rectangle: C11 `C11_cells_mem`); an empty clip means there is no
   such cell -/
theorem C05_unbounded_cells (u : Rect) (mc mr : Nat) (hu : if u.r1 = 0 then 1 ≤ u.c1 else True) :
    match clip u mc mr with
    | some R => ∀ c, c ∈ R.cells ↔ (c.sheet = u.sheet ∧ inUnbounded u c ∧ (usedRect u.sheet mc mr).contains c = true)
    | none => ∀ c, ¬ (inUnbounded u c ∧ (usedRect u.sheet mc mr).contains c = true) :=
  clip_spec u mc mr hu

/- the clip is what the code computes, `address & AddressRange((1, 1, max_col, max_row))` with the C11 intersection
   (an unbounded corner reads as 1 … MAX), for EVERY used area a sheet can have (`mr ≤ MAX_ROW`, `mc ≤ MAX_COL`), the
   last row / column included (the pinned code lost it: repaired in /repo by 0c6b643, eb7029e, 3fcedea) -/
theorem C05_clip_is_inter_cols (s : Str) (c1 c2 mc mr : Nat) (h1 : 1 ≤ c1) (h2 : c1 ≤ c2) (hmc : 1 ≤ mc)
    (hmr : 1 ≤ mr) (hr : mr ≤ MAX_ROW) :
    (⟨s, c1, 0, c2, 0⟩ : Rect).inter (usedRect s mc mr) =
      match clip ⟨s, c1, 0, c2, 0⟩ mc mr with
      | some R => .rect R
      | none => .null :=
  inter_used_cols s c1 c2 mc mr h1 h2 hmc hmr hr

theorem C05_clip_is_inter_rows (s : Str) (r1 r2 mc mr : Nat) (h1 : 1 ≤ r1) (h2 : r1 ≤ r2) (hmc : 1 ≤ mc)
    (hmr : 1 ≤ mr) (hc : mc ≤ MAX_COL) :
    (⟨s, 0, r1, 0, r2⟩ : Rect).inter (usedRect s mc mr) =
      match clip ⟨s, 0, r1, 0, r2⟩ mc mr with
      | some R => .rect R
      | none => .null :=
  inter_used_rows s r1 r2 mc mr h1 h2 hmc hmr hc

/- the edge itself, executed: row 1:1 on a sheet whose used area reaches column XFD keeps XFD1 -/
example : (⟨['S'], 0, 1, 0, 1⟩ : Rect).inter (usedRect ['S'] 16384 1) = .rect ⟨['S'], 1, 1, 16384, 1⟩ := by
  decide +kernel

/- the matching element of the unbounded range: for every cell `c` of those columns/rows inside the used area, the
   element of `evaluate(unbounded address)` at `c`'s position in the clipped rectangle is `evaluate(c)` (on any state
   with the same inputs) -/
theorem C05_unbounded_elem (hwf : WF wb) (hl : Local wb f) (ok : LayoutOK wb f L T) (s s' : State α) (h : Inv wb f s)
    (h' : Inv wb f s') (hinp : s'.inp = s.inp) (u : Rect) (hsh : u.sheet ≠ []) (R : Rect)
    (hclip : clip u (L.used u.sheet).1 (L.used u.sheet).2 = some R)
    (hR : isCellRect R = true ∨ (L.rangeNode R).isSome)
    (c : Cell) (hc : c ∈ R.cells) (hlt : L.cellNode c < wb.n) :
    (evalPath wb f L T (.unbounded u) s).1.elem (R.r2 + 1 - R.r1) (R.c2 + 1 - R.c1) (c.row - R.r1) (c.col - R.c1) =
      some (T.scal (evaluate wb f (L.cellNode c) s').1) := by
  have hm := (mem_cells R c).mp hc
  have e : L.rectAt u = u := by simp [Layout.rectAt, hsh]
  have : evalPath wb f L T (.unbounded u) s = evalRect wb f L T R s := by
    simp only [evalPath, e, hclip]
  rw [this]
  exact (C05_range_elem hwf hl ok s s' h h' hinp R hR c hm.1 hm.2 hlt).1

/-! ### "and of a list/tuple/generator of addresses" -/

/- evaluate(list) = map evaluate: element k is what `evaluate(path k)` returns on its own — on the same state, or on any
   state `s'` with the same inputs (a fresh model, another order); a list stays a list, a tuple or generator gives a
   tuple -/
theorem C05_list (hwf : WF wb) (hl : Local wb f) (s s' : State α) (h : Inv wb f s) (h' : Inv wb f s')
    (hinp : s'.inp = s.inp) (k : Container) (ps : List Path) :
    (evalArg wb f L T (.many k ps) s).1 = .many k.isTuple (ps.map fun p => (evalPath wb f L T p s').1) := by
  rw [(evalArg_spec hwf hl h _).1]
  simp only [denoteArg]
  congr 1
  apply List.map_congr_left
  intro p _
  rw [(evalPath_spec hwf hl h' p).1, hinp]

/-! ### "sheet-less address with active sheet" -/

theorem C05_sheetless_cell (s : State α) (col row : Nat) :
    evalPath wb f L T (.cell ⟨[], col, row⟩) s = evalPath wb f L T (.cell ⟨L.active, col, row⟩) s := by
  by_cases h : L.active = []
  · simp [evalPath, Layout.cellAt, h]
  · simp [evalPath, Layout.cellAt, h]

theorem C05_sheetless_range (s : State α) (c1 r1 c2 r2 : Nat) :
    evalPath wb f L T (.range ⟨[], c1, r1, c2, r2⟩) s = evalPath wb f L T (.range ⟨L.active, c1, r1, c2, r2⟩) s := by
  by_cases h : L.active = []
  · simp [evalPath, Layout.rectAt, h]
  · simp [evalPath, Layout.rectAt, h]

/-! ## the instance the correspondence driver runs (Drv/C05.lean) -/

section Inst
open Pycel.EngineInst

/- for every workbook description and layout table that pass the driver's run-time checks, the hypotheses of the
   theorems above hold -/
theorem C05_inst_hyps (specs : List Spec) (active : Str) (cells : List (Cell × Nat)) (ranges : List (Rect × Nat))
    (used : List (Str × Nat × Nat)) (dflt : Nat) (hwf : wfCheck specs = true)
    (hlay : layoutCheck specs cells ranges dflt = true) :
    WF (mkWb specs) ∧ Local (mkWb specs) (sem specs) ∧
      LayoutOK (mkWb specs) (sem specs) (mkLayout active cells ranges used dflt) evTup :=
  ⟨wf_of_check specs hwf, sem_local specs, layoutOK_of_check specs active cells ranges used dflt hlay⟩

theorem C05_inst_path_coherence (specs : List Spec) (Lay : Layout) (hwf : wfCheck specs = true) (s₀ : State EV)
    (h₀ : Inv (mkWb specs) (sem specs) s₀) (h : List (POp EV)) (a : Arg) :
    (evalArg (mkWb specs) (sem specs) Lay evTup a (runP (mkWb specs) (sem specs) Lay evTup typedEq s₀ h)).1 =
      denoteArg (mkWb specs) (sem specs) Lay evTup (runP (mkWb specs) (sem specs) Lay evTup typedEq s₀ h).inp a :=
  C05_path_coherence (wf_of_check specs hwf) (sem_local specs) typedEq s₀ h₀ h a

/-! ### non-vacuity: a concrete workbook with a layout, a range node, an unbounded path -/

/-- Sheet "S": A1 = 1, A2 = "a", B1 = A1&"|"&A2&"|", B2 blank, range A1:B2, C1 = SUM(A1:B2) -/
def demo : List Spec :=
  [.inp (.num 1), .inp (.str ['a']), .fml (.cat [0, 1]), .inp .blank, .rng [[0, 2], [1, 3]], .fml (.sum [4])]

def demoCells : List (Cell × Nat) :=
  [(⟨['S'], 1, 1⟩, 0), (⟨['S'], 1, 2⟩, 1), (⟨['S'], 2, 1⟩, 2), (⟨['S'], 2, 2⟩, 3), (⟨['S'], 3, 1⟩, 5)]

def demoRanges : List (Rect × Nat) := [(⟨['S'], 1, 1, 2, 2⟩, 4)]

def demoLayout : Layout := mkLayout ['S'] demoCells demoRanges [(['S'], 3, 2)] 99

example : wfCheck demo = true := by decide
example : layoutCheck demo demoCells demoRanges 99 = true := by decide
example : LayoutOK (mkWb demo) (sem demo) demoLayout evTup :=
  (C05_inst_hyps demo ['S'] demoCells demoRanges [(['S'], 3, 2)] 99 (by decide) (by decide)).2.2
example : Inv (mkWb demo) (sem demo) (initNoData (inputsOf demo)) := initNoData_inv _

/- the model executed: a range, a sheet-less cell, the unbounded column B (clipped to B1:B2, a flat tuple), and a list -/
example :
    (evalPath (mkWb demo) (sem demo) demoLayout evTup (.range ⟨['S'], 1, 1, 2, 2⟩) (initNoData (inputsOf demo))).1 =
      .grid [[.num 1, .str "1|a|".toList], [.str ['a'], .blank]] := by decide +kernel

example :
    (evalPath (mkWb demo) (sem demo) demoLayout evTup (.cell ⟨[], 3, 1⟩) (initNoData (inputsOf demo))).1 =
      .sc (.num 1) := by decide +kernel

example : clip ⟨['S'], 2, 0, 2, 0⟩ 3 2 = some ⟨['S'], 2, 1, 2, 2⟩ := by decide

example :
    (evalArg (mkWb demo) (sem demo) demoLayout evTup (.many .gen [.cell ⟨['S'], 2, 1⟩, .cell ⟨['S'], 3, 1⟩])
      (initNoData (inputsOf demo))).1 = .many true [.sc (.str "1|a|".toList), .sc (.num 1)] := by decide +kernel

/- two different first-evaluation orders, same values (an executed instance of `C05_order`) -/
example :
    (evaluate (mkWb demo) (sem demo) 5 (run (mkWb demo) (sem demo) typedEq (initNoData (inputsOf demo))
      ([5, 4, 2, 0].map Op.eval))).1 =
    (evaluate (mkWb demo) (sem demo) 5 (run (mkWb demo) (sem demo) typedEq (initNoData (inputsOf demo))
      ([0, 1, 2, 3, 4].map Op.eval))).1 := by decide +kernel

end Inst

end Pycel.Access

/- C10: property theorems (not built yet). -/

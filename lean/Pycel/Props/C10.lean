/-
  C10 — Operators are total and follow Excel coercion, error and ordering rules.

  Statement (properties.jsonl): "For all scalar operands (numbers of moderate magnitude, text, logicals, blank, error
  values) every operator returns a number, text, logical or error value and never raises or yields another type; an
  error operand is returned unchanged, the left one first. Arithmetic treats numeric text, logicals and blanks as
  numbers and other text as #VALUE!, x/0 is #DIV/0!, & concatenates the Excel renderings (TRUE/FALSE, 3 not 3.0,
  blank as empty); comparisons form one total order (numbers < text < logicals, text case-insensitive, blank as the
  neutral value of the other side) in which exactly one of <, =, > holds and <>, <=, >= are the complements."

  Model: Pycel/Model/Ops.lean — `fixup K l op r` (excelutil.py build_operator_operand_fixup.fixup), parametrised by the
  numeric kernels `K` (operator.add/sub/mul/truediv/pow/neg on two numbers, classified as ok / ZeroDivisionError /
  OverflowError / complex / non-finite float).  Every theorem below is for ALL kernels unless it names `pyKernels`,
  so nothing depends on floating-point details.  Unary minus is `neg K x = fixup K EMPTY usub x`, percent is
  `pct K x = fixup K x div 100`, exactly as the formula compiler emits them.

  Conventions: an operand "is an error" iff it is `.err e` (in Python an error value is its text; `Val.ofText` keeps
  results canonical).  The text '#EMPTY!' is pycel's internal spelling of a blank operand, not a text value; the
  theorems about text exclude it explicitly (`s ≠ emptySentinel`).
-/
import Pycel.Lemmas.Ops
import Pycel.Generated.OpsConsts
namespace Pycel.Ops
open Pycel

/-! ### the live tables the model is written against -/

/-- ERROR_CODES (the seven Excel errors + openpyxl's '#GETTING_DATA'), EMPTY, COMPARISION_OPS, the operator names and
    the three error texts `fixup` returns, regenerated from the live excelutil on every run -/
theorem tables_agree :
    (∀ e : Err, e.text ∈ Gen.errorCodes) ∧ Gen.errorCodes.length = 8 ∧ "#GETTING_DATA" ∈ Gen.errorCodes ∧
    String.ofList emptySentinel = Gen.emptyText ∧
    (∀ op : Op, op.pyName ∈ Gen.astOperators) ∧
    (∀ op : Op, op.isCmp = true ↔ op.pyName ∈ Gen.comparisonOps) ∧ Gen.comparisonOps.length = 6 ∧
    Err.div0.text = Gen.div0Text ∧ Err.value.text = Gen.valueErrorText ∧ Err.num.text = Gen.numErrorText := by
  refine ⟨?_, by decide, by decide, by decide, ?_, ?_, by decide, by decide, by decide, by decide⟩
  · intro e; cases e <;> decide
  · intro op; cases op <;> decide
  · intro op; cases op <;> decide

/-! ### vocabulary -/

def Val.notErr (v : Val) : Prop := ∀ e, v ≠ .err e

def Op.isArith : Op → Bool
  | .add | .sub | .mul | .div | .pow => true
  | _ => false

/-- a kernel family that never produces a non-finite float (true of Python on operands of moderate magnitude:
    `+ - * /` overflow binary64 only beyond 1e154, and `**` raises OverflowError instead) -/
def Kernels.Finite (K : Kernels) : Prop :=
  (∀ x y, K.add x y ≠ .nonfinite) ∧ (∀ x y, K.sub x y ≠ .nonfinite) ∧ (∀ x y, K.mul x y ≠ .nonfinite) ∧
  (∀ x y, K.div x y ≠ .nonfinite) ∧ (∀ x y, K.pow x y ≠ .nonfinite) ∧ (∀ x, K.neg x ≠ .nonfinite)

/-- "numeric text, logicals and blanks as numbers": the number an operand of an arithmetic operator stands for;
    `none` = "other text" -/
def arithNum? : Val → Option Rat
  | .num q => some q
  | .bool b => some (if b then 1 else 0)
  | .blank => some 0
  | .str s => if upper s = emptySentinel then some 0 else if isLogicalText s then none else parseNum? s
  | .err _ => none

def numOf? : Val → Option Rat
  | .num q => some q
  | _ => none

private theorem match_num (a b : Val) (f : Rat → Rat → Outcome) (d : Outcome) :
    (match a, b with | .num x, .num y => f x y | _, _ => d)
      = (match numOf? a, numOf? b with | some x, some y => f x y | _, _ => d) := by
  cases a <;> cases b <;> rfl

private theorem match_num1 (b : Val) (f : Rat → Outcome) (d : Outcome) :
    (match b with | .num y => f y | _ => d) = (match numOf? b with | some y => f y | none => d) := by
  cases b <;> rfl

private theorem sentinel_len : emptySentinel.length = 7 := by decide

private theorem upper_length (s : List Char) : (upper s).length = s.length := by simp [upper]

/-- the coerced operand is a number exactly when the property says the operand stands for one -/
theorem arithOperand_spec (v : Val) (hv : Val.notErr v) : numOf? (arithOperand v) = arithNum? v := by
  cases v with
  | num q => rfl
  | bool b => cases b <;> rfl
  | blank => rfl
  | err e => exact absurd rfl (hv e)
  | str s =>
    simp only [arithOperand, arithNum?]
    by_cases hlog : isLogicalText s = true
    · have hs : upper s ≠ emptySentinel := by
        intro h
        simp only [isLogicalText, h] at hlog
        revert hlog; decide
      simp [hlog, hs, numOf?]
    · simp only [hlog, Bool.false_eq_true, ↓reduceIte]
      simp only [isLogicalText, Bool.or_eq_true, not_or, Bool.not_eq_true] at hlog
      by_cases hs : upper s = emptySentinel
      · have hlen : s.length = 7 := by rw [← upper_length, hs, sentinel_len]
        have : (upper s == emptySentinel) = true := by simp [hs]
        simp [coerceToNumber, hs, hlen, numOf?]
      · have : (upper s == emptySentinel) = false := by simp [hs]
        simp only [coerceToNumber, hlog.1, hlog.2, this, Bool.or_self, Bool.and_false, Bool.false_eq_true,
          ↓reduceIte, hs]
        cases parseNum? s <;> rfl

theorem notErr_or (v : Val) : Val.notErr v ∨ ∃ e, v = .err e := by
  cases v <;> simp [Val.notErr]

private theorem mapK_val (k : KOut) (h : k ≠ .nonfinite) : ∃ v, mapK k = .val v ∧ v ≠ .blank := by
  cases k <;> simp_all [mapK]

/-! ### totality -/

/-- the operands as `fixup` sees them, case by case (used by the theorems below) -/
theorem fixup_notErr (K : Kernels) (l r : Val) (op : Op) (hl : Val.notErr l) (hr : Val.notErr r) :
    fixup K l op r =
      if op.isCmp then .val (.bool (cmpOp op (cmpOperands l r).1 (cmpOperands l r).2))
      else if op = .concat then .val (Val.ofText (concatText l ++ concatText r))
      else if op = .usub then
        (match arithNum? r with | some y => mapK (K.neg y) | none => .val (.err .value))
      else
        (match arithNum? l, arithNum? r with
          | some x, some y => mapK (kernel K op x y)
          | _, _ => .val (.err .value)) := by
  have e1 : ∀ e, l = .err e → False := fun e h => hl e h
  have e2 : ∀ e, r = .err e → False := fun e h => hr e h
  rw [← arithOperand_spec l hl, ← arithOperand_spec r hr, ← match_num, ← match_num1]
  cases l <;> cases r <;> first | (exfalso; exact e1 _ rfl) | (exfalso; exact e2 _ rfl) | rfl

private theorem ofText_ne_blank (s : List Char) : Val.ofText s ≠ .blank := by
  unfold Val.ofText; split <;> simp

/-- "every operator returns a number, text, logical or error value and never raises or yields another type":
    for every classification the numeric kernels may return other than a non-finite float, the result of every
    operator on every pair of operands is an Excel value.  (With the mapping of the pinned commit this was false:
    see `C10_total_pinned_counterexample`; OverflowError and complex are now mapped to #NUM!.) -/
theorem C10_total (K : Kernels) (hK : K.Finite) (l : Val) (op : Op) (r : Val) :
    ∃ v, fixup K l op r = .val v := by
  obtain ⟨h1, h2, h3, h4, h5, h6⟩ := hK
  by_cases hl : Val.notErr l
  · by_cases hr : Val.notErr r
    · rw [fixup_notErr K l r op hl hr]
      by_cases hc : op.isCmp = true
      · simp [hc]
      · by_cases hcat : op = .concat
        · simp [hcat, Op.isCmp]
        · by_cases hu : op = .usub
          · subst hu
            simp only [Op.isCmp, Bool.false_eq_true, ↓reduceIte, reduceCtorEq]
            cases arithNum? r with
            | none => exact ⟨_, rfl⟩
            | some y => obtain ⟨v, hv, _⟩ := mapK_val (K.neg y) (h6 y); exact ⟨v, hv⟩
          · simp only [hc, hcat, hu, ↓reduceIte]
            cases arithNum? l with
            | none => exact ⟨_, rfl⟩
            | some x =>
              cases arithNum? r with
              | none => exact ⟨_, rfl⟩
              | some y =>
                have : kernel K op x y ≠ .nonfinite := by
                  cases op <;> simp_all [kernel]
                obtain ⟨v, hv, _⟩ := mapK_val _ this
                exact ⟨v, hv⟩
    · obtain ⟨e, rfl⟩ := (notErr_or r).resolve_left hr
      cases l <;> exact ⟨_, rfl⟩
  · obtain ⟨e, rfl⟩ := (notErr_or l).resolve_left hl
    exact ⟨_, rfl⟩

/-- the result is never the blank value (nor, by construction of `Val`, anything but number/text/logical/error) -/
theorem C10_never_blank (K : Kernels) (l : Val) (op : Op) (r : Val) : fixup K l op r ≠ .val .blank := by
  have hm : ∀ k, mapK k ≠ .val .blank := by intro k; cases k <;> simp [mapK]
  rcases notErr_or l with hl | ⟨e, rfl⟩
  · rcases notErr_or r with hr | ⟨e, rfl⟩
    · rw [fixup_notErr K l r op hl hr]
      cases op <;> simp only [Op.isCmp, Bool.false_eq_true, ↓reduceIte, reduceCtorEq, ne_eq, Outcome.val.injEq]
      all_goals first
        | exact ofText_ne_blank _
        | simp
        | (cases arithNum? r <;> simp [hm])
        | (cases arithNum? l <;> cases arithNum? r <;> simp [hm])
    · cases l <;> simp [fixup]
  · simp [fixup]

/-- the exception mapping of the pinned commit (before the `fix:` commit): OverflowError was not caught and a
    complex result was returned as is -/
inductive PinnedOutcome where
  | val (v : Val) | raisesOverflowError | pythonComplex | nonfinite
  deriving DecidableEq

def mapKPinned : KOut → PinnedOutcome
  | .ok q => .val (.num q)
  | .zeroDiv => .val (.err .div0)
  | .overflow => .raisesOverflowError
  | .complex => .pythonComplex
  | .nonfinite => .nonfinite

/-- totality was false of the pinned code: A1 = -8, `=A1^0.5` is a Python complex, and any overflowing `^`
    (recon: `=10.5^400`) escapes as OverflowError; the repaired mapping sends both classes to #NUM! -/
theorem C10_total_pinned_counterexample :
    pyKernels.pow (-8) (1/2) = .complex ∧ mapKPinned .complex = .pythonComplex ∧
    mapKPinned .overflow = .raisesOverflowError ∧
    fixup pyKernels (.num (-8)) .pow (.num (1/2)) = .val (.err .num) ∧
    (∀ K : Kernels, ∀ x y, K.pow x y = .overflow → fixup K (.num x) .pow (.num y) = .val (.err .num)) := by
  have h : pyKernels.pow (-8) (1/2) = .complex := by decide +kernel
  refine ⟨h, rfl, rfl, ?_, ?_⟩
  · rw [fixup_notErr _ _ _ .pow (by intro e; simp) (by intro e; simp)]
    simp [Op.isCmp, arithNum?, kernel, h, mapK]
  · intro K x y hxy
    rw [fixup_notErr _ _ _ .pow (by intro e; simp) (by intro e; simp)]
    simp [Op.isCmp, arithNum?, kernel, hxy, mapK]

/-! ### errors -/

/-- "an error operand is returned unchanged, the left one first" -/
theorem C10_err_left (K : Kernels) (e : Err) (op : Op) (r : Val) : fixup K (.err e) op r = .val (.err e) := rfl

/-- "an error operand is returned unchanged" — the right one when the left operand is not an error -/
theorem C10_err_right (K : Kernels) (l : Val) (hl : Val.notErr l) (e : Err) (op : Op) :
    fixup K l op (.err e) = .val (.err e) := by
  cases l with
  | err e' => exact absurd rfl (hl e')
  | _ => rfl

/-! ### arithmetic -/

/-- "Arithmetic treats numeric text, logicals and blanks as numbers and other text as #VALUE!": for + - * / ^ the
    result is the kernel's outcome on the numbers the operands stand for, or #VALUE! when one of them is other text;
    ZeroDivisionError is #DIV/0!, OverflowError and complex are #NUM! (`mapK`) -/
theorem C10_arith_coerce (K : Kernels) (l r : Val) (op : Op) (hop : op.isArith = true)
    (hl : Val.notErr l) (hr : Val.notErr r) :
    fixup K l op r =
      match arithNum? l, arithNum? r with
      | some x, some y => mapK (kernel K op x y)
      | _, _ => .val (.err .value) := by
  rw [fixup_notErr K l r op hl hr]
  cases op <;> simp_all [Op.isArith, Op.isCmp]

/-- the kinds that count as numbers: TRUE is 1, FALSE and blank are 0, numeric text is its number -/
theorem C10_arith_kinds (s : List Char) (q : Rat) (hs : upper s ≠ emptySentinel) (hlog : isLogicalText s = false)
    (hq : parseNum? s = some q) :
    arithNum? (.bool true) = some 1 ∧ arithNum? (.bool false) = some 0 ∧ arithNum? .blank = some 0 ∧
    arithNum? (.str s) = some q ∧ (∀ x, arithNum? (.num x) = some x) ∧
    (∀ K y, fixup K (.str s) .add (.num y) = mapK (K.add q y)) ∧
    (∀ K y, fixup K (.bool true) .mul (.num y) = mapK (K.mul 1 y)) ∧
    (∀ K y, fixup K .blank .sub (.num y) = mapK (K.sub 0 y)) := by
  have hstr : arithNum? (.str s) = some q := by simp [arithNum?, hs, hlog, hq]
  refine ⟨rfl, rfl, rfl, hstr, fun _ => rfl, ?_, ?_, ?_⟩
  · intro K y
    rw [C10_arith_coerce K _ _ .add rfl (by intro e; simp) (by intro e; simp), hstr]; rfl
  · intro K y
    rw [C10_arith_coerce K _ _ .mul rfl (by intro e; simp) (by intro e; simp)]; rfl
  · intro K y
    rw [C10_arith_coerce K _ _ .sub rfl (by intro e; simp) (by intro e; simp)]; rfl

/-- "other text as #VALUE!": on either side, whatever the other (non-error) operand is -/
theorem C10_other_text_value (K : Kernels) (s : List Char) (v : Val) (op : Op) (hop : op.isArith = true)
    (hv : Val.notErr v) (hs : arithNum? (.str s) = none) :
    fixup K (.str s) op v = .val (.err .value) ∧ fixup K v op (.str s) = .val (.err .value) := by
  constructor
  · rw [C10_arith_coerce K _ _ op hop (by intro e; simp) hv, hs]
  · rw [C10_arith_coerce K _ _ op hop hv (by intro e; simp), hs]
    cases arithNum? v <;> rfl

/-- unary minus follows the same rules on its single operand -/
theorem C10_neg (K : Kernels) (x : Val) :
    neg K x = match x with
      | .err e => .val (.err e)
      | _ => match arithNum? x with
        | some y => mapK (K.neg y)
        | none => .val (.err .value) := by
  cases x with
  | err e => rfl
  | _ =>
    simp only [neg]
    rw [fixup_notErr K _ _ .usub (by intro e; simp) (by intro e; simp)]
    simp [Op.isCmp]

private theorem pct_aux (K : Kernels) (o : Option Rat) :
    (match o, some (100 : Rat) with
      | some x, some y => mapK (kernel K .div x y)
      | _, _ => Outcome.val (.err .value))
    = (match o with | some q => mapK (K.div q 100) | none => .val (.err .value)) := by
  cases o <;> rfl

/-- percent is division by 100 under the same rules -/
theorem C10_pct (K : Kernels) (x : Val) :
    pct K x = match x with
      | .err e => .val (.err e)
      | _ => match arithNum? x with
        | some q => mapK (K.div q 100)
        | none => .val (.err .value) := by
  cases x with
  | err e => rfl
  | _ =>
    simp only [pct]
    rw [C10_arith_coerce K _ _ .div rfl (by intro e; simp) (by intro e; simp)]
    have h100 : arithNum? (.num 100) = some 100 := rfl
    rw [h100]
    generalize arithNum? _ = o
    cases o <;> rfl

theorem pyKernels_div_zero (x : Rat) : pyKernels.div x 0 = .zeroDiv := by simp [pyKernels]

/-- "x/0 is #DIV/0!" for every numerator that stands for a number and every zero-valued divisor (0, FALSE, blank,
    "0", …), with the Python kernels -/
theorem C10_div0 (l r : Val) (x : Rat) (hl : Val.notErr l) (hr : Val.notErr r)
    (hx : arithNum? l = some x) (h0 : arithNum? r = some 0) :
    fixup pyKernels l .div r = .val (.err .div0) := by
  rw [C10_arith_coerce pyKernels l r .div rfl hl hr, hx, h0]
  simp [kernel, pyKernels_div_zero, mapK]

/-! ### concatenation -/

/-- "& concatenates the Excel renderings" -/
theorem C10_concat_render (K : Kernels) (l r : Val) (hl : Val.notErr l) (hr : Val.notErr r) :
    fixup K l .concat r = .val (Val.ofText (concatText l ++ concatText r)) := by
  rw [fixup_notErr K l r .concat hl hr]; simp [Op.isCmp]

/-- "(TRUE/FALSE, 3 not 3.0, blank as empty)": logicals render as TRUE/FALSE, an integral number as its integer
    digits (no ".0"), blank as the empty text, text as itself; the concatenation is a text unless it spells an
    error value -/
theorem C10_render_kinds :
    concatText (.bool true) = "TRUE".toList ∧ concatText (.bool false) = "FALSE".toList ∧
    concatText .blank = [] ∧
    (∀ i : Int, concatText (.num (i : Rat)) = intRepr i) ∧
    intRepr 3 = ['3'] ∧ intRepr (-12) = ['-', '1', '2'] ∧
    (∀ s, s ≠ emptySentinel → concatText (.str s) = s) ∧
    (∀ s, errOfText? s = none → Val.ofText s = .str s) := by
  refine ⟨by decide, by decide, rfl, ?_, by decide, by decide, ?_, ?_⟩
  · intro i
    simp [concatText, isEmptyLike, renderVal, renderNum, Rat.den_intCast, Rat.num_intCast]
  · intro s hs
    simp [concatText, isEmptyLike, renderVal, hs]
  · intro s hs
    simp [Val.ofText, hs]

/-! ### comparisons -/

/-- every comparison returns a logical: the tuple comparison of the two ExcelCmp keys -/
theorem C10_cmp_result (K : Kernels) (l r : Val) (op : Op) (hop : op.isCmp = true)
    (hl : Val.notErr l) (hr : Val.notErr r) :
    fixup K l op r = .val (.bool (cmpOp op (cmpOperands l r).1 (cmpOperands l r).2)) := by
  rw [fixup_notErr K l r op hl hr]; simp [hop]

private def T : Outcome := .val (.bool true)
private def F : Outcome := .val (.bool false)

/-- "exactly one of <, =, > holds" — for every pair of non-error operands, blanks included -/
theorem C10_trichotomy (K : Kernels) (l r : Val) (hl : Val.notErr l) (hr : Val.notErr r) :
    (fixup K l .lt r = .val (.bool true) ∧ fixup K l .eq r = .val (.bool false) ∧ fixup K l .gt r = .val (.bool false)) ∨
    (fixup K l .lt r = .val (.bool false) ∧ fixup K l .eq r = .val (.bool true) ∧ fixup K l .gt r = .val (.bool false)) ∨
    (fixup K l .lt r = .val (.bool false) ∧ fixup K l .eq r = .val (.bool false) ∧ fixup K l .gt r = .val (.bool true)) := by
  rw [C10_cmp_result K l r .lt rfl hl hr, C10_cmp_result K l r .eq rfl hl hr, C10_cmp_result K l r .gt rfl hl hr]
  generalize (cmpOperands l r).1 = a
  generalize (cmpOperands l r).2 = b
  simp only [cmpOp]
  by_cases h1 : keyLt a b = true
  · have h2 := keyLt_asymm a b h1
    have h3 : (a == b) = false := by
      simp only [beq_eq_false_iff_ne, ne_eq]
      intro e; subst e; rw [keyLt_irrefl] at h1; cases h1
    simp [h1, h2, h3]
  · simp only [Bool.not_eq_true] at h1
    by_cases h2 : keyLt b a = true
    · have h3 : (a == b) = false := by
        simp only [beq_eq_false_iff_ne, ne_eq]
        intro e; subst e; rw [keyLt_irrefl] at h2; cases h2
      simp [h1, h2, h3]
    · simp only [Bool.not_eq_true] at h2
      have := keyLt_total a b h1 h2
      subst this
      simp [h1]

/-- "<>, <=, >= are the complements" of =, >, < -/
theorem C10_complements (K : Kernels) (l r : Val) (hl : Val.notErr l) (hr : Val.notErr r) :
    ∃ e lt gt : Bool,
      fixup K l .eq r = .val (.bool e) ∧ fixup K l .ne r = .val (.bool (!e)) ∧
      fixup K l .lt r = .val (.bool lt) ∧ fixup K l .ge r = .val (.bool (!lt)) ∧
      fixup K l .gt r = .val (.bool gt) ∧ fixup K l .le r = .val (.bool (!gt)) := by
  refine ⟨(cmpOperands l r).1 == (cmpOperands l r).2, keyLt (cmpOperands l r).1 (cmpOperands l r).2,
    keyLt (cmpOperands l r).2 (cmpOperands l r).1, ?_, ?_, ?_, ?_, ?_, ?_⟩ <;>
  · rw [C10_cmp_result K l r _ rfl hl hr]
    simp [cmpOp, keyLe_eq_not_gt]

/-- "comparisons form one total order": `<` on comparison keys is transitive (with irreflexivity and totality,
    `keyLt_irrefl` / `keyLt_total`, a strict total order) -/
theorem C10_trans (a b c : Key) (h1 : keyLt a b = true) (h2 : keyLt b c = true) : keyLt a c = true :=
  keyLt_trans a b c h1 h2

/-- an element of the order: a number, a text or a logical (blank is "the neutral value of the other side", not an
    element; see `C10_trans_blank_counterexample`) -/
def Val.isElem (v : Val) : Prop := Val.notErr v ∧ isEmptyLike v = false

private theorem cmpOperands_elem (l r : Val) (hl : isEmptyLike l = false) (hr : isEmptyLike r = false) :
    cmpOperands l r = (cmpKey l, cmpKey r) := by
  simp [cmpOperands, hl, hr]

/-- transitivity of the operators `<` and `=` over all triples of numbers, texts and logicals -/
theorem C10_trans_vals (a b c : Val) (ha : Val.isElem a) (hb : Val.isElem b) (hc : Val.isElem c) :
    (excelLt a b = true → excelLt b c = true → excelLt a c = true) ∧
    (excelEq a b = true → excelLt b c = true → excelLt a c = true) ∧
    (excelLt a b = true → excelEq b c = true → excelLt a c = true) ∧
    (excelEq a b = true → excelEq b c = true → excelEq a c = true) := by
  simp only [excelLt, excelEq, cmpOperands_elem _ _ ha.2 hb.2, cmpOperands_elem _ _ hb.2 hc.2,
    cmpOperands_elem _ _ ha.2 hc.2, beq_iff_eq]
  refine ⟨keyLt_trans _ _ _, ?_, ?_, ?_⟩
  · intro h1 h2; rw [h1]; exact h2
  · intro h1 h2; rw [← h2]; exact h1
  · intro h1 h2; rw [h1]; exact h2

/-- with blank as an operand the three relations are not one order: 1 > blank and blank = "" but "" > 1 -/
theorem C10_trans_blank_counterexample :
    excelGt (.num 1) .blank = true ∧ excelEq .blank (.str []) = true ∧ excelGt (.str []) (.num 1) = true := by
  decide +kernel

/-- "numbers < text < logicals" -/
theorem C10_rank (q : Rat) (s : List Char) (b : Bool) (hs : s ≠ emptySentinel) :
    excelLt (.num q) (.str s) = true ∧ excelLt (.str s) (.bool b) = true ∧ excelLt (.num q) (.bool b) = true ∧
    excelLt (.str s) (.num q) = false ∧ excelLt (.bool b) (.str s) = false ∧ excelLt (.bool b) (.num q) = false ∧
    excelEq (.num q) (.str s) = false ∧ excelEq (.str s) (.bool b) = false ∧ excelEq (.num q) (.bool b) = false := by
  have hs' : (s == emptySentinel) = false := by simp [hs]
  simp [excelLt, excelEq, cmpOperands, isEmptyLike, hs', cmpKey, keyLt, Key.rank]

/-- "text case-insensitive": two texts compare by their case-folded spellings, in particular texts that differ
    only in case are equal and neither is less -/
theorem C10_ci (s t : List Char) (hs : s ≠ emptySentinel) (ht : t ≠ emptySentinel) :
    excelEq (.str s) (.str t) = (lower s == lower t) ∧
    excelLt (.str s) (.str t) = strLt (lower s) (lower t) ∧
    (lower s = lower t → ∀ K, fixup K (.str s) .eq (.str t) = .val (.bool true) ∧
                              fixup K (.str s) .lt (.str t) = .val (.bool false) ∧
                              fixup K (.str s) .gt (.str t) = .val (.bool false)) := by
  have hs' : (s == emptySentinel) = false := by simp [hs]
  have ht' : (t == emptySentinel) = false := by simp [ht]
  have hops : cmpOperands (.str s) (.str t) = (.str (lower s), .str (lower t)) := by
    simp [cmpOperands, isEmptyLike, hs', ht', cmpKey]
  refine ⟨?_, ?_, ?_⟩
  · simp only [excelEq, hops]
    rw [Bool.eq_iff_iff]; simp
  · simp [excelLt, hops, keyLt]
  · intro h K
    rw [C10_cmp_result K _ _ .eq rfl (by intro e; simp) (by intro e; simp),
      C10_cmp_result K _ _ .lt rfl (by intro e; simp) (by intro e; simp),
      C10_cmp_result K _ _ .gt rfl (by intro e; simp) (by intro e; simp), hops]
    simp [cmpOp, h, keyLt, strLt_irrefl]

/-- "blank as the neutral value of the other side": blank compares as 0 against a number, as the empty text against
    a text, as FALSE against a logical, and equal to another blank -/
theorem C10_blank_neutral (q : Rat) (s : List Char) (b : Bool) (hs : s ≠ emptySentinel) :
    cmpOperands .blank (.num q) = (.num 0, .num q) ∧ cmpOperands (.num q) .blank = (.num q, .num 0) ∧
    cmpOperands .blank (.str s) = (.str [], .str (lower s)) ∧ cmpOperands (.str s) .blank = (.str (lower s), .str []) ∧
    cmpOperands .blank (.bool b) = (.bool false, .bool b) ∧ cmpOperands (.bool b) .blank = (.bool b, .bool false) ∧
    cmpOperands .blank .blank = (.num 0, .num 0) ∧
    excelEq .blank (.num 0) = true ∧ excelEq .blank (.str []) = true ∧ excelEq .blank (.bool false) = true ∧
    excelEq .blank .blank = true := by
  have hs' : (s == emptySentinel) = false := by simp [hs]
  refine ⟨by simp [cmpOperands, isEmptyLike, typeCmpValue, cmpKey],
    by simp [cmpOperands, isEmptyLike, typeCmpValue, cmpKey],
    by simp [cmpOperands, isEmptyLike, typeCmpValue, cmpKey, hs', lower],
    by simp [cmpOperands, isEmptyLike, typeCmpValue, cmpKey, hs', lower],
    by simp [cmpOperands, isEmptyLike, typeCmpValue, cmpKey],
    by simp [cmpOperands, isEmptyLike, typeCmpValue, cmpKey],
    by simp [cmpOperands, isEmptyLike, typeCmpValue, cmpKey],
    by decide +kernel, by decide +kernel, by decide +kernel, by decide +kernel⟩

/-! ### what counts as numeric text (the property-driven grammar), on the recon witnesses -/

theorem C10_numeric_text_examples :
    parseNum? "3".toList = some 3 ∧ parseNum? " 3 ".toList = some 3 ∧ parseNum? "-2".toList = some (-2) ∧
    parseNum? "1.5".toList = some (3/2) ∧ parseNum? "1e3".toList = some 1000 ∧ parseNum? ".5".toList = some (1/2) ∧
    parseNum? "inf".toList = none ∧ parseNum? "nan".toList = none ∧ parseNum? "Infinity".toList = none ∧
    parseNum? "1_0".toList = none ∧ parseNum? "".toList = none ∧ parseNum? "abc".toList = none ∧
    parseNum? "1e400".toList = none ∧ parseNum? "0x10".toList = none ∧ parseNum? "1 2".toList = none := by
  decide +kernel

/-! ### non-vacuity: the hypotheses above are satisfiable by concrete, non-trivial instances -/

example : Val.notErr (.str "abc".toList) := by intro e; simp
example : arithNum? (.str "abc".toList) = none := by decide +kernel
example : arithNum? (.str " 3 ".toList) = some 3 := by decide +kernel
example : arithNum? (.str "TRUE".toList) = none := by decide +kernel
example : Val.isElem (.str "a".toList) := ⟨by intro e; simp, by decide⟩
example : lower "ABC".toList = lower "abc".toList ∧ "ABC".toList ≠ "abc".toList := by decide
example : fixup pyKernels (.num 1) .div (.str "0".toList) = .val (.err .div0) := by decide +kernel
example : fixup pyKernels (.num 3) .concat (.bool true) = .val (.str "3TRUE".toList) := by decide +kernel
example : fixup pyKernels (.str "#DIV".toList) .concat (.str "/0!".toList) = .val (.err .div0) := by decide +kernel
example : fixup pyKernels (.str "a".toList) .lt (.bool false) = .val (.bool true) := by decide +kernel
/-- a kernel family satisfying `Finite` exists (so `C10_total` is not vacuous) -/
example : Kernels.Finite ⟨fun x y => .ok (x + y), fun x y => .ok (x - y), fun x y => .ok (x * y),
    fun x y => if y = 0 then .zeroDiv else .ok (x / y), fun _ _ => .overflow, fun x => .ok (-x)⟩ := by
  refine ⟨by intros; simp, by intros; simp, by intros; simp, ?_, by intros; simp, by intros; simp⟩
  intro x y; by_cases h : y = 0 <;> simp [h]

end Pycel.Ops

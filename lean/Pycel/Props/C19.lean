/-
  C19 — Rounding family: decimal-exact, half away from zero, correct brackets.

  Statement (properties.jsonl): "ROUND(x, d) is the multiple of 10^-d nearest to the shortest decimal rendering of x with
  ties away from zero, for positive, zero and negative d; ROUNDDOWN/TRUNC move toward zero and ROUNDUP away from zero to
  such a multiple, so ROUNDDOWN <= |x| <= ROUNDUP in magnitude and all three fix exact multiples. INT is floor;
  MOD(n, d) has the sign of d and n = d*INT(n/d) + MOD(n, d); CEILING/FLOOR (and .MATH/.PRECISE) return the adjacent
  multiples of the significance bracketing x; EVEN/ODD return the next even/odd integer away from zero."

  Model: Pycel/Model/Rounding.lean (excellib.py round_, _round, roundup, rounddown, trunc, int_, mod, ceiling*, floor*,
  even, odd) over exact rationals: `x : Rat` is the decimal a float's shortest repr shows.  All theorems are for ALL
  rationals x and ALL integers d (unit d = 10^-d, either sign of d), proved by arithmetic on ⌊·⌋ / ⌈·⌉ — no enumeration.
  `rabs` is |·|.
-/
import Pycel.Lemmas.Rounding
namespace Pycel.Rounding
open Pycel

/-! ## ROUND -/

/-- **C19** "ROUND(x, d) is the multiple of 10^-d …, for positive, zero and negative d": a multiple of the unit, any integer d. -/
theorem C19_round_multiple (x : Rat) (d : Int) : ∃ n : Int, round_ x d = (n : Rat) * unit d := by
  obtain ⟨n, _, hr, _, _⟩ := roundHalfAway_spec (unit d) x (unit_pos d)
  simp only [round_, pyTrunc_int, hr, withSign]
  split
  · exact ⟨n, rfl⟩
  · exact ⟨-n, by simp [Rat.intCast_neg, Rat.neg_mul]⟩

/-- **C19** "… nearest to … x": never more than half a unit away. -/
theorem C19_round_half_unit (x : Rat) (d : Int) : rabs (round_ x d - x) ≤ unit d / 2 := by
  have hu := unit_pos d
  obtain ⟨n, hn0, hr, h1, h2⟩ := roundHalfAway_spec (unit d) x hu
  have hp := mul_unit_nonneg hn0 hu
  simp only [round_, pyTrunc_int, hr]
  unfold rabs withSign at *
  split at h1 <;> grind

/-- **C19** "… the multiple of 10^-d nearest to the shortest decimal rendering of x": no multiple of the unit is closer. -/
theorem C19_round_nearest (x : Rat) (d : Int) (m : Int) :
    rabs (round_ x d - x) ≤ rabs ((m : Rat) * unit d - x) := by
  have hu := unit_pos d
  obtain ⟨n, hn0, hr, h1, h2⟩ := roundHalfAway_spec (unit d) x hu
  simp only [round_, pyTrunc_int, hr]
  by_cases hx : 0 ≤ x
  · have ha : rabs x = x := by simp [rabs, hx]
    rw [ha] at h1 h2
    simp only [withSign, hx, ↓reduceIte]
    exact nearest_aux (unit d) x n m hu h1 h2
  · have ha : rabs x = -x := by simp [rabs, hx]
    rw [ha] at h1 h2
    simp only [withSign, hx, ↓reduceIte]
    have := nearest_aux (unit d) (-x) n (-m) hu h1 h2
    rw [Rat.intCast_neg] at this
    unfold rabs at *
    grind

/-- **C19** "… with ties away from zero": when x is exactly half a unit from the result, the result is the larger one in
    magnitude, |ROUND| = |x| + unit/2 (so ROUND(25,-1) = 30, ROUND(-2.5,0) = -3). -/
theorem C19_round_tie_away (x : Rat) (d : Int) (htie : rabs (round_ x d - x) = unit d / 2) :
    rabs (round_ x d) = rabs x + unit d / 2 := by
  have hu := unit_pos d
  obtain ⟨n, hn0, hr, h1, h2⟩ := roundHalfAway_spec (unit d) x hu
  have hp := mul_unit_nonneg hn0 hu
  simp only [round_, pyTrunc_int, hr] at htie ⊢
  unfold rabs withSign at *
  split at h1 <;> grind

/-- **C19** the result keeps the side of zero of x (so "away from zero" and "toward zero" are meaningful). -/
theorem C19_round_sign (x : Rat) (d : Int) :
    (0 ≤ x → 0 ≤ round_ x d) ∧ (x < 0 → round_ x d ≤ 0) := by
  have hu := unit_pos d
  obtain ⟨n, hn0, hr, h1, h2⟩ := roundHalfAway_spec (unit d) x hu
  have hp := mul_unit_nonneg hn0 hu
  simp only [round_, pyTrunc_int, hr]
  unfold rabs withSign at *
  split at h1 <;> grind

/-! ## ROUNDDOWN / ROUNDUP / TRUNC -/

/-- **C19** "ROUNDDOWN/TRUNC move toward zero … to such a multiple". -/
theorem C19_rounddown_multiple (x : Rat) (d : Int) : ∃ n : Int, rounddown x d = (n : Rat) * unit d := by
  obtain ⟨n, _, hr, _, _⟩ := roundDown_spec (unit d) x (unit_pos d)
  simp only [rounddown, pyTrunc_int, hr, withSign]
  split
  · exact ⟨n, rfl⟩
  · exact ⟨-n, by simp [Rat.intCast_neg, Rat.neg_mul]⟩

/-- **C19** "… and ROUNDUP away from zero to such a multiple". -/
theorem C19_roundup_multiple (x : Rat) (d : Int) : ∃ n : Int, roundup x d = (n : Rat) * unit d := by
  obtain ⟨n, _, hr, _, _⟩ := roundUp_spec (unit d) x (unit_pos d)
  simp only [roundup, pyTrunc_int, hr, withSign]
  split
  · exact ⟨n, rfl⟩
  · exact ⟨-n, by simp [Rat.intCast_neg, Rat.neg_mul]⟩

/-- **C19** "so ROUNDDOWN <= |x| <= ROUNDUP in magnitude". -/
theorem C19_bracket (x : Rat) (d : Int) :
    rabs (rounddown x d) ≤ rabs x ∧ rabs x ≤ rabs (roundup x d) := by
  have hu := unit_pos d
  obtain ⟨n, hn0, hr, h1, h2⟩ := roundDown_spec (unit d) x hu
  obtain ⟨n', hn0', hr', h1', h2'⟩ := roundUp_spec (unit d) x hu
  have hp := mul_unit_nonneg hn0 hu
  have hp' := mul_unit_nonneg hn0' hu
  simp only [rounddown, roundup, pyTrunc_int, hr, hr']
  unfold rabs withSign at *
  split at h1 <;> grind

/-- **C19** the bracketing multiples are the ADJACENT ones: each within less than one unit of |x|. -/
theorem C19_bracket_tight (x : Rat) (d : Int) :
    rabs x - unit d < rabs (rounddown x d) ∧ rabs (roundup x d) < rabs x + unit d := by
  have hu := unit_pos d
  obtain ⟨n, hn0, hr, h1, h2⟩ := roundDown_spec (unit d) x hu
  obtain ⟨n', hn0', hr', h1', h2'⟩ := roundUp_spec (unit d) x hu
  have hp := mul_unit_nonneg hn0 hu
  have hp' := mul_unit_nonneg hn0' hu
  simp only [rounddown, roundup, pyTrunc_int, hr, hr']
  unfold rabs withSign at *
  split at h1 <;> grind

/-- **C19** both keep the side of zero of x, hence "toward zero" = smaller magnitude, "away" = larger magnitude. -/
theorem C19_down_up_sign (x : Rat) (d : Int) :
    (0 ≤ x → 0 ≤ rounddown x d ∧ 0 ≤ roundup x d) ∧ (x < 0 → rounddown x d ≤ 0 ∧ roundup x d ≤ 0) := by
  have hu := unit_pos d
  obtain ⟨n, hn0, hr, h1, h2⟩ := roundDown_spec (unit d) x hu
  obtain ⟨n', hn0', hr', h1', h2'⟩ := roundUp_spec (unit d) x hu
  have hp := mul_unit_nonneg hn0 hu
  have hp' := mul_unit_nonneg hn0' hu
  simp only [rounddown, roundup, pyTrunc_int, hr, hr']
  unfold rabs withSign at *
  split at h1 <;> grind

/-- **C19** "and all three fix exact multiples" (ROUND, ROUNDDOWN/TRUNC, ROUNDUP; any sign of the multiple and of d). -/
theorem C19_fix_multiples (x : Rat) (d : Int) (m : Int) (hx : x = (m : Rat) * unit d) :
    round_ x d = x ∧ rounddown x d = x ∧ roundup x d = x ∧ trunc x d = x := by
  obtain ⟨h1, h2, h3⟩ := fix_aux (unit d) x m (unit_pos d) hx
  simp only [round_, rounddown, roundup, trunc, pyTrunc_int]
  exact ⟨h1, h2, h3, h2⟩

/-- **C19** "ROUNDDOWN/TRUNC": TRUNC is ROUNDDOWN, so every ROUNDDOWN theorem is a TRUNC theorem. -/
theorem C19_trunc_is_rounddown (x d : Rat) : trunc x d = rounddown x d := rfl

/-! ## INT, MOD -/

/-- **C19** "INT is floor": the greatest integer ≤ x. -/
theorem C19_int_floor (x : Rat) :
    int_ x = (x.floor : Rat) ∧ int_ x ≤ x ∧ x < int_ x + 1 ∧ ∀ n : Int, (n : Rat) ≤ x → (n : Rat) ≤ int_ x := by
  refine ⟨rfl, Rat.floor_le x, ?_, ?_⟩
  · have := Rat.lt_floor_add_one x
    simpa [int_, Rat.intCast_add] using this
  · intro n hn
    exact Rat.intCast_le_intCast.mpr (Rat.le_floor_iff.mpr hn)

/-- **C19** "n = d*INT(n/d) + MOD(n, d)" for every non-zero divisor. -/
theorem C19_mod_identity (n d : Rat) (hd : d ≠ 0) :
    ∃ r : Rat, mod n d = .num r ∧ n = d * int_ (n / d) + r := by
  refine ⟨n - d * ((n / d).floor : Rat), by simp [mod, hd], ?_⟩
  simp only [int_]; grind

/-- **C19** "MOD(n, d) has the sign of d" (and is smaller than d in magnitude). -/
theorem C19_mod_sign (n d r : Rat) (h : mod n d = .num r) :
    (0 < d → 0 ≤ r ∧ r < d) ∧ (d < 0 → d < r ∧ r ≤ 0) := by
  unfold mod at h
  split at h
  · cases h
  · injection h with h
    subst h
    constructor
    · intro hd
      have := floor_spec d n hd
      grind
    · intro hd
      have := floor_spec_neg d n hd
      grind

/-! ## CEILING / FLOOR families -/

/-- **C19** "CEILING/FLOOR (and .MATH/.PRECISE) return the adjacent multiples of the significance bracketing x": FLOOR.MATH is
    the multiple of |s| just below n (mode 0 or n ≥ 0), or just toward zero (mode set, n < 0). -/
theorem C19_floor_math_adjacent (n s mode : Rat) (hs : s ≠ 0) :
    (∃ m : Int, floorMath n s mode = (m : Rat) * rabs s) ∧
    ((mode = 0 ∨ 0 ≤ n) → floorMath n s mode ≤ n ∧ n < floorMath n s mode + rabs s) ∧
    ((mode ≠ 0 ∧ n < 0) → n ≤ floorMath n s mode ∧ floorMath n s mode - rabs s < n) := by
  have ha := rabs_pos hs
  by_cases hm : mode ≠ 0 ∧ n < 0
  · have hsig : mathSig n s mode = -(rabs s) := by unfold mathSig; rw [if_pos hm]
    unfold floorMath; rw [if_neg hs, hsig]
    have := floor_spec_neg (-(rabs s)) n (by grind)
    refine ⟨⟨-(n / -(rabs s)).floor, by rw [Rat.intCast_neg]; grind⟩, by grind, by grind⟩
  · have hsig : mathSig n s mode = rabs s := by unfold mathSig; rw [if_neg hm]
    unfold floorMath; rw [if_neg hs, hsig]
    have := floor_spec (rabs s) n ha
    refine ⟨⟨(n / rabs s).floor, by grind⟩, by grind, by grind⟩

/-- **C19** CEILING.MATH is the multiple of |s| just above n (mode 0 or n ≥ 0), or just away from zero (mode set, n < 0). -/
theorem C19_ceiling_math_adjacent (n s mode : Rat) (hs : s ≠ 0) :
    (∃ m : Int, ceilingMath n s mode = (m : Rat) * rabs s) ∧
    ((mode = 0 ∨ 0 ≤ n) → ceilingMath n s mode - rabs s < n ∧ n ≤ ceilingMath n s mode) ∧
    ((mode ≠ 0 ∧ n < 0) → ceilingMath n s mode ≤ n ∧ n < ceilingMath n s mode + rabs s) := by
  have ha := rabs_pos hs
  by_cases hm : mode ≠ 0 ∧ n < 0
  · have hsig : mathSig n s mode = -(rabs s) := by unfold mathSig; rw [if_pos hm]
    unfold ceilingMath; rw [if_neg hs, hsig]
    have := ceil_spec_neg (-(rabs s)) n (by grind)
    refine ⟨⟨-(n / -(rabs s)).ceil, by rw [Rat.intCast_neg]; grind⟩, by grind, by grind⟩
  · have hsig : mathSig n s mode = rabs s := by unfold mathSig; rw [if_neg hm]
    unfold ceilingMath; rw [if_neg hs, hsig]
    have := ceil_spec (rabs s) n ha
    refine ⟨⟨(n / rabs s).ceil, by grind⟩, by grind, by grind⟩

/-- **C19** .PRECISE is .MATH with mode 0, so the two theorems above cover CEILING.PRECISE / FLOOR.PRECISE. -/
theorem C19_precise_eq_math (n s : Rat) :
    ceilingPrecise n s = ceilingMath n s 0 ∧ floorPrecise n s = floorMath n s 0 := by
  simp [ceilingPrecise, ceilingMath, floorPrecise, floorMath, mathSig]

/-- **C19** legacy FLOOR (sign of the significance matters; s < 0 < n is #NUM!, s = 0 is #DIV/0!, both outside the property):
    a multiple of s, just below n for s > 0, just toward zero for s < 0 (then n ≤ 0). -/
theorem C19_floor_adjacent (n s : Rat) (hs : s ≠ 0) (hsign : ¬ (s < 0 ∧ 0 < n)) :
    ∃ r : Rat, floor n s = .num r ∧ (∃ m : Int, r = (m : Rat) * s) ∧
      (0 < s → r ≤ n ∧ n < r + s) ∧ (s < 0 → n ≤ r ∧ r + s < n) := by
  unfold floor
  rw [if_neg hsign]
  by_cases hn : n = 0
  · rw [if_pos hn]
    exact ⟨0, rfl, ⟨0, by simp [Rat.zero_mul]⟩, by grind, by grind⟩
  · rw [if_neg hn, if_neg hs]
    refine ⟨_, rfl, ⟨(n / s).floor, by grind⟩, ?_, ?_⟩
    · intro h; have := floor_spec s n h; grind
    · intro h; have := floor_spec_neg s n h; grind

/-- **C19** legacy CEILING: a multiple of s, just above n for s > 0, just away from zero for s < 0 (then n ≤ 0). -/
theorem C19_ceiling_adjacent (n s : Rat) (hs : s ≠ 0) (hsign : ¬ (s < 0 ∧ 0 < n)) :
    ∃ r : Rat, ceiling n s = .num r ∧ (∃ m : Int, r = (m : Rat) * s) ∧
      (0 < s → r - s < n ∧ n ≤ r) ∧ (s < 0 → r ≤ n ∧ n < r - s) := by
  unfold ceiling
  rw [if_neg hsign]
  by_cases hn : n = 0
  · rw [if_pos (Or.inl hn)]
    exact ⟨0, rfl, ⟨0, by simp [Rat.zero_mul]⟩, by grind, by grind⟩
  · rw [if_neg (by grind)]
    by_cases hb : n < 0 ∧ 0 < s
    · rw [if_pos hb]
      have hq := div_neg_of_neg_pos hb.1 hb.2
      have ht : pyTrunc (n / s) = (n / s).ceil := by unfold pyTrunc; rw [if_neg (by grind)]
      rw [ht]
      refine ⟨_, rfl, ⟨(n / s).ceil, by grind⟩, ?_, ?_⟩
      · intro h; have := ceil_spec s n h; grind
      · intro h; grind
    · rw [if_neg hb]
      refine ⟨_, rfl, ⟨(n / s).ceil, by grind⟩, ?_, ?_⟩
      · intro h; have := ceil_spec s n h; grind
      · intro h; have := ceil_spec_neg s n h; grind

/-- **C19** bracketing is tight at the multiples themselves: all six functions fix an exact multiple of the significance. -/
theorem C19_significance_fix_multiples (n s mode : Rat) (m : Int) (hs : s ≠ 0) (hn : n = (m : Rat) * s) :
    floorMath n s mode = n ∧ ceilingMath n s mode = n ∧ floorPrecise n s = n ∧ ceilingPrecise n s = n ∧
    (¬ (s < 0 ∧ 0 < n) → floor n s = .num n ∧ ceiling n s = .num n) := by
  obtain ⟨h0, m', hm'⟩ := mathSig_multiple n s mode m hs hn
  obtain ⟨h00, m0, hm0⟩ := mathSig_multiple n s 0 m hs hn
  have e0 : mathSig n s 0 = rabs s := by simp [mathSig]
  rw [e0] at h00 hm0
  have f1 := sig_fix _ n m' h0 hm'
  have f2 := sig_fix _ n m0 h00 hm0
  have f3 := sig_fix s n m hs hn
  refine ⟨?_, ?_, ?_, ?_, ?_⟩
  · unfold floorMath; rw [if_neg hs]; exact f1.1
  · unfold ceilingMath; rw [if_neg hs]; exact f1.2.1
  · unfold floorPrecise; rw [if_neg hs]; exact f2.1
  · unfold ceilingPrecise; rw [if_neg hs]; exact f2.2.1
  · intro hsign
    constructor
    · unfold floor; rw [if_neg hsign]
      by_cases h : n = 0
      · rw [if_pos h, h]
      · rw [if_neg h, if_neg hs, f3.1]
    · unfold ceiling; rw [if_neg hsign]
      by_cases h : n = 0
      · rw [if_pos (Or.inl h), h]
      · rw [if_neg (by grind)]
        split
        · rw [f3.2.2]
        · rw [f3.2.1]

/-! ## EVEN / ODD -/

/-- **C19** "EVEN … return the next even … integer away from zero": an even integer, at least |x|, less than |x| + 2, on the
    side of x, and the least such in magnitude. -/
theorem C19_even (x : Rat) :
    (∃ m : Int, even x = 2 * (m : Rat)) ∧
    rabs x ≤ rabs (even x) ∧ rabs (even x) < rabs x + 2 ∧
    (0 ≤ x → 0 ≤ even x) ∧ (x < 0 → even x ≤ 0) ∧
    (∀ k : Int, rabs x ≤ 2 * (k : Rat) → rabs (even x) ≤ 2 * (k : Rat)) := by
  have hu : (0 : Rat) < 2 := by decide +kernel
  have hn0 : 0 ≤ (rabs x / 2).ceil := ceil_nonneg (div_nonneg' (rabs_nonneg x) hu)
  have hp := mul_unit_nonneg hn0 hu
  have hc := ceil_spec 2 (rabs x) hu
  have hr : even x = withSign x (((rabs x / 2).ceil : Rat) * 2) := rfl
  refine ⟨?_, ?_, ?_, ?_, ?_, ?_⟩
  · rw [hr]; unfold withSign; split
    · exact ⟨(rabs x / 2).ceil, by grind⟩
    · exact ⟨-(rabs x / 2).ceil, by rw [Rat.intCast_neg]; grind⟩
  · rw [hr]; unfold rabs withSign at *; split at hc <;> grind
  · rw [hr]; unfold rabs withSign at *; split at hc <;> grind
  · rw [hr]; unfold rabs withSign at *; split at hc <;> grind
  · rw [hr]; unfold rabs withSign at *; split at hc <;> grind
  · intro k hk
    have hq : rabs x / 2 ≤ (k : Rat) := by
      apply Rat.not_lt.mp
      intro hlt
      have := (Rat.lt_div_iff hu).mp hlt
      grind
    have hck : (rabs x / 2).ceil ≤ k := Rat.ceil_le_iff.mpr hq
    have := int_mul_le hck hu
    rw [hr]; unfold rabs withSign at *; split at hc <;> grind

/-- **C19** "… ODD return the next … odd integer away from zero" (ODD(0) = 1). -/
theorem C19_odd (x : Rat) :
    (∃ m : Int, odd x = 2 * (m : Rat) + 1) ∧
    rabs x ≤ rabs (odd x) ∧ rabs (odd x) < rabs x + 2 ∧
    (0 ≤ x → 0 < odd x) ∧ (x < 0 → odd x < 0) ∧
    (∀ k : Int, rabs x ≤ 2 * (k : Rat) + 1 → 0 ≤ k → rabs (odd x) ≤ 2 * (k : Rat) + 1) := by
  have hu : (0 : Rat) < 2 := by decide +kernel
  have ha := rabs_nonneg x
  have hn0 : 0 ≤ ((rabs x - 1) / 2).ceil := by
    have h1 : ((-1 : Int) : Rat) < (rabs x - 1) / 2 := by
      rw [Rat.lt_div_iff hu]; simp only [Rat.intCast_neg]; grind
    have := Rat.lt_ceil_iff.mpr h1
    omega
  have hp := mul_unit_nonneg hn0 hu
  have hc := ceil_spec 2 (rabs x - 1) hu
  have hr : odd x = withSign x ((((rabs x - 1) / 2).ceil : Rat) * 2 + 1) := rfl
  refine ⟨?_, ?_, ?_, ?_, ?_, ?_⟩
  · rw [hr]; unfold withSign; split
    · exact ⟨((rabs x - 1) / 2).ceil, by grind⟩
    · exact ⟨-((rabs x - 1) / 2).ceil - 1, by rw [Rat.intCast_sub, Rat.intCast_neg]; grind⟩
  · rw [hr]; unfold rabs withSign at *; split at hc <;> grind
  · rw [hr]; unfold rabs withSign at *; split at hc <;> grind
  · rw [hr]; unfold rabs withSign at *; split at hc <;> grind
  · rw [hr]; unfold rabs withSign at *; split at hc <;> grind
  · intro k hk _
    have hq : (rabs x - 1) / 2 ≤ (k : Rat) := by
      apply Rat.not_lt.mp
      intro hlt
      have := (Rat.lt_div_iff hu).mp hlt
      grind
    have hck : ((rabs x - 1) / 2).ceil ≤ k := Rat.ceil_le_iff.mpr hq
    have := int_mul_le hck hu
    rw [hr]; unfold rabs withSign at *; split at hc <;> grind

/-! ## argument handling -/

/-- **C19** code-following: `int(num_digits)` — a fractional digit count is truncated toward zero, so the integer-d theorems
    above cover every numeric digits argument. -/
theorem C19_digits_truncated (x d : Rat) :
    round_ x d = round_ x ((pyTrunc d : Int) : Rat) ∧ roundup x d = roundup x ((pyTrunc d : Int) : Rat) ∧
    rounddown x d = rounddown x ((pyTrunc d : Int) : Rat) := by
  simp [round_, roundup, rounddown, pyTrunc_int]

/-- **C19** the wrapped functions (as a formula calls them) are the functions above on numbers; the first error operand is
    returned; non-numeric text is #VALUE!. -/
theorem C19_call (x d n s : Rat) (e : Err) (vs : List Val) (fn : String) :
    call "round" [.num x, .num d] = some (.num (round_ x d)) ∧
    call "roundup" [.num x, .num d] = some (.num (roundup x d)) ∧
    call "rounddown" [.num x, .num d] = some (.num (rounddown x d)) ∧
    call "trunc" [.num x, .num d] = some (.num (trunc x d)) ∧
    call "round" [.num x] = some (.num (round_ x 0)) ∧
    call "int" [.num x] = some (.num (int_ x)) ∧
    call "mod" [.num n, .num s] = some (mod n s) ∧
    call "floor" [.num n, .num s] = some (floor n s) ∧
    call "ceiling" [.num n, .num s] = some (ceiling n s) ∧
    call "floor_math" [.num n] = some (.num (floorMath n 1 0)) ∧
    call "ceiling_precise" [.num n, .num s] = some (.num (ceilingPrecise n s)) ∧
    call "even" [.num x] = some (.num (even x)) ∧ call "odd" [.num x] = some (.num (odd x)) ∧
    call fn (.err e :: vs) = some (.err e) ∧
    call fn [.str "abc".toList] = some (.err .value) := by
  refine ⟨rfl, rfl, rfl, rfl, rfl, rfl, rfl, rfl, rfl, rfl, rfl, rfl, rfl, ?_, ?_⟩
  · simp [call, firstErr]
  · simp [call, firstErr, allNumbers?, toNumber?, upperAscii]

/-- **C19** the default arguments and the wrapping are those of the LIVE signatures (Generated/RoundingMeta.lean is rewritten
    from /repo on every run): digits default to 0, significance to 1, mode to 0; every function of the family is an
    `excel_math_func`.  A changed default or decorator breaks this theorem. -/
theorem C19_defaults (x n s : Rat) :
    call "round" [.num x] = some (.num (round_ x 0)) ∧ call "trunc" [.num x] = some (.num (trunc x 0)) ∧
    call "ceiling_math" [.num n] = some (.num (ceilingMath n 1 0)) ∧
    call "ceiling_math" [.num n, .num s] = some (.num (ceilingMath n s 0)) ∧
    call "floor_math" [.num n] = some (.num (floorMath n 1 0)) ∧
    call "floor_math" [.num n, .num s] = some (.num (floorMath n s 0)) ∧
    call "ceiling_precise" [.num n] = some (.num (ceilingPrecise n 1)) ∧
    call "floor_precise" [.num n] = some (.num (floorPrecise n 1)) ∧
    call "roundup" [.num x] = none ∧ call "mod" [.num x] = none ∧
    (∀ r ∈ Gen.RoundingMeta.table, r.2.2.2 = true) ∧ Gen.RoundingMeta.table.length = 14 :=
  ⟨rfl, rfl, rfl, rfl, rfl, rfl, rfl, rfl, rfl, rfl, by decide, rfl⟩

/-! ## non-vacuity: the hypotheses are satisfiable and the functions move things (the recon witnesses) -/

example : round_ 25 (-1 : Int) = 30 ∧ round_ 5 (-1 : Int) = 10 ∧ round_ (-25) (-1 : Int) = -30 := by decide +kernel
example : rabs (round_ 25 (-1 : Int) - 25) = unit (-1) / 2 := by decide +kernel          -- a genuine tie
example : round_ (2675 / 1000) (2 : Int) = 268 / 100 ∧ round_ (-5 / 2) (0 : Int) = -3 := by decide +kernel
example : trunc (29 / 100) (2 : Int) = 29 / 100 ∧ rounddown (-314159 / 100000) (1 : Int) = -31 / 10 ∧
    roundup (-314159 / 100000) (1 : Int) = -32 / 10 := by decide +kernel
example : (29 / 100 : Rat) = ((29 : Int) : Rat) * unit 2 := by decide +kernel             -- an exact multiple
example : floor (7 / 10) (1 / 10) = .num (7 / 10) ∧ mod (7 / 10) (1 / 10) = .num 0 ∧ mod (-7) 3 = .num 2 ∧
    mod 7 (-3) = .num (-2) := by decide +kernel
example : ceiling (-5 / 2) (-2) = .num (-4) ∧ ceiling (-5 / 2) 2 = .num (-2) ∧ floor (-5 / 2) (-2) = .num (-2) ∧
    floorMath (-5 / 2) 2 1 = -2 ∧ ceilingMath (-5 / 2) 2 1 = -4 ∧ floor 1 (-1) = .err .num := by decide +kernel
example : even (-1 / 10) = -2 ∧ even 2 = 2 ∧ odd 0 = 1 ∧ odd (-3) = -3 ∧ odd (31 / 10) = 5 := by decide +kernel
example : ¬ ((-1 : Rat) < 0 ∧ (0 : Rat) < -5 / 2) ∧ (2 : Rat) ≠ 0 := by decide +kernel  -- hypotheses of C19_ceiling_adjacent

/-! ## idempotence, symmetry (added) -/

/-- **C19** rounding is idempotent: the result is an exact multiple, and exact multiples are fixed. -/
theorem C19_idempotent (x : Rat) (d : Int) :
    round_ (round_ x d) d = round_ x d ∧ rounddown (rounddown x d) d = rounddown x d ∧
    roundup (roundup x d) d = roundup x d := by
  obtain ⟨n1, h1⟩ := C19_round_multiple x d
  obtain ⟨n2, h2⟩ := C19_rounddown_multiple x d
  obtain ⟨n3, h3⟩ := C19_roundup_multiple x d
  exact ⟨(C19_fix_multiples _ d n1 h1).1, (C19_fix_multiples _ d n2 h2).2.1, (C19_fix_multiples _ d n3 h3).2.2.1⟩

theorem rabs_neg (x : Rat) : rabs (-x) = rabs x := by
  unfold rabs; grind

/-- **C19** "half away from zero", "toward zero", "away from zero" are symmetric about zero:
    f(-x) = -f(x) for ROUND, ROUNDDOWN/TRUNC and ROUNDUP. -/
theorem C19_odd_symmetry (x : Rat) (d : Int) :
    round_ (-x) d = - round_ x d ∧ rounddown (-x) d = - rounddown x d ∧ roundup (-x) d = - roundup x d ∧
    trunc (-x) d = - trunc x d := by
  by_cases hx : x = 0
  · subst hx
    have h0 : (0 : Rat) = ((0 : Int) : Rat) * unit d := by simp
    obtain ⟨a, b, c, e⟩ := C19_fix_multiples 0 d 0 h0
    simp only [Rat.neg_zero, a, b, c, e, and_self]
  · have hs : ∀ r : Rat, withSign (-x) r = - withSign x r := by
      intro r; unfold withSign; grind
    simp only [round_, rounddown, roundup, trunc, roundHalfAway, roundDown, roundUp, rabs_neg, hs, and_self]

example : round_ (-(5/2 : Rat)) 0 = -3 ∧ round_ (5/2 : Rat) 0 = 3 := by decide +kernel

/-! ## monotonicity (added) -/
/-- **C19 (monotone)**: ROUNDDOWN/TRUNC never reorders two numbers: x ≤ y → ROUNDDOWN(x,d) ≤ ROUNDDOWN(y,d). -/
theorem C19_rounddown_mono (x y : Rat) (d : Int) (hxy : x ≤ y) : rounddown x d ≤ rounddown y d := by
  have hu := unit_pos d
  simp only [rounddown, pyTrunc_int]
  by_cases hx : 0 ≤ x
  · exact roundDown_mono_nonneg _ x y hu hx hxy
  · by_cases hy : 0 ≤ y
    · -- x < 0 ≤ y : results on either side of zero
      obtain ⟨n, hn0, hn, _, _⟩ := roundDown_spec (unit d) x hu
      obtain ⟨m, hm0, hm, _, _⟩ := roundDown_spec (unit d) y hu
      have p1 := mul_unit_nonneg hn0 hu
      have p2 := mul_unit_nonneg hm0 hu
      rw [hn, hm]; unfold withSign; simp only [hx, hy, ↓reduceIte]; grind
    · -- both negative: use the nonnegative case on the negations and odd symmetry
      have h1 := roundDown_mono_nonneg (unit d) (-y) (-x) hu (by grind) (by grind)
      have sx := (C19_odd_symmetry x d).2.1
      have sy := (C19_odd_symmetry y d).2.1
      simp only [rounddown, pyTrunc_int] at sx sy
      rw [sx, sy] at h1; grind

/-- **C19 (monotone)**: ROUND and ROUNDUP never reorder two numbers either. -/
theorem C19_round_mono (x y : Rat) (d : Int) (hxy : x ≤ y) :
    round_ x d ≤ round_ y d ∧ roundup x d ≤ roundup y d := by
  have hu := unit_pos d
  simp only [round_, roundup, pyTrunc_int]
  by_cases hx : 0 ≤ x
  · exact ⟨roundHalfAway_mono_nonneg _ x y hu hx hxy, roundUp_mono_nonneg _ x y hu hx hxy⟩
  · by_cases hy : 0 ≤ y
    · obtain ⟨n, hn0, hn, _, _⟩ := roundHalfAway_spec (unit d) x hu
      obtain ⟨m, hm0, hm, _, _⟩ := roundHalfAway_spec (unit d) y hu
      obtain ⟨n', hn0', hn', _, _⟩ := roundUp_spec (unit d) x hu
      obtain ⟨m', hm0', hm', _, _⟩ := roundUp_spec (unit d) y hu
      have p1 := mul_unit_nonneg hn0 hu
      have p2 := mul_unit_nonneg hm0 hu
      have p3 := mul_unit_nonneg hn0' hu
      have p4 := mul_unit_nonneg hm0' hu
      rw [hn, hm, hn', hm']; unfold withSign; simp only [hx, hy, ↓reduceIte]
      constructor <;> grind
    · have h1 := roundHalfAway_mono_nonneg (unit d) (-y) (-x) hu (by grind) (by grind)
      have h2 := roundUp_mono_nonneg (unit d) (-y) (-x) hu (by grind) (by grind)
      have sx := C19_odd_symmetry x d
      have sy := C19_odd_symmetry y d
      simp only [round_, roundup, rounddown, trunc, pyTrunc_int] at sx sy
      rw [sx.1, sy.1] at h1; rw [sx.2.2.1, sy.2.2.1] at h2
      constructor <;> grind

example : rounddown (-(7/2 : Rat)) (0 : Int) ≤ rounddown (5/2 : Rat) (0 : Int) := by decide +kernel

end Pycel.Rounding

/- C19: property theorems (not built yet). -/

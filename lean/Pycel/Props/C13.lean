/- C13: property theorems (not built yet). -/

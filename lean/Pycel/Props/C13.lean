/-
  C13 — Array (CSE) formulas: pointwise lifting and exact target shape.

  Statement (properties.jsonl):
    (S1) "An operator applied to arrays (with scalar, single-row or single-column broadcasting)
    (S2)  and an array-aware function applied to equally shaped arrays and scalars
          yield at every position the value of the scalar application to the elements at that position.
    (S3)  An array formula entered over a target range produces exactly the target's shape -
    (S4)  larger results are trimmed, a scalar/single row/single column is repeated, uncovered positions are #N/A -
    (S5)  and each member cell shows its own element."

  Model: Pycel/Model/Arrays.lean (`opFixup`/`arrayFixup`, `cseWrap`, `fitToRange`, `expandCse`/`cseRange`/
  `memberValue`), lemmas in Pycel/Lemmas/Arrays.lean.  Every theorem is for ALL shapes (no 4×4 bound), all element
  values, and every scalar operation `f : Val → Val → Val` / wrapped function `g : List Opnd → Val`.
  Arrays are `List (List Val)`; `Rect a h w` says `a` is rectangular h×w; `at2 a i j` is `a[i][j]`;
  `bidx n i` is the broadcast index (0 when the extent is 1, else i).
-/
import Pycel.Lemmas.Arrays
import Pycel.Generated.CseMeta
namespace Pycel.Arrays
open Pycel

/-! ## S1 — operators -/

/-- **C13 (S1, general)**: for operands (scalars or rectangular arrays) whose shapes are broadcast-compatible in
    numpy's sense (`bdim`: each dimension equal or one of them 1), the operator yields a rectangular result of the
    broadcast shape whose element at EVERY position is the scalar operation applied to the operands' elements at that
    position, an extent-1 dimension (scalar, single row, single column) being repeated. -/
theorem C13_pointwise_op (f : Val → Val → Val) (l r : Opnd) {hl wl hr wr h w : Nat}
    (hL : Rect (toArr l) hl wl) (hR : Rect (toArr r) hr wr) (hl0 : 0 < hl) (hr0 : 0 < hr)
    (hh : bdim hl hr = some h) (hw : bdim wl wr = some w) :
    ∃ res, opFixup f l r = some res ∧ Rect (toArr res) h w ∧
      ∀ i j, i < h → j < w →
        at2 (toArr res) i j
          = f (at2 (toArr l) (bidx hl i) (bidx wl j)) (at2 (toArr r) (bidx hr i) (bidx wr j)) :=
  opFixup_spec f l r hL hR hl0 hr0 hh hw

/-- **C13 (S1, equal shapes)**: array ∘ array of the same shape is elementwise. -/
theorem C13_op_same_shape (f : Val → Val → Val) (a b : Arr) {h w : Nat}
    (ha : Rect a h w) (hb : Rect b h w) (h0 : 0 < h) :
    ∃ res, opFixup f (.arr a) (.arr b) = some (.arr res) ∧ Rect res h w ∧
      ∀ i j, i < h → j < w → at2 res i j = f (at2 a i j) (at2 b i j) := by
  obtain ⟨res, h1, h2, h3⟩ := arrayFixup_spec f (.arr a) (.arr b) (hl := h) (wl := w) (hr := h) (wr := w)
    (h := h) (w := w) ha hb h0 h0 (by simp [bdim]) (by simp [bdim])
  refine ⟨res, by simp [opFixup, h1], h2, ?_⟩
  intro i j hi hj
  rw [h3 i j hi hj]
  by_cases e1 : h = 1 <;> by_cases e2 : w = 1 <;> simp [bidx, e1, e2, toArr] <;>
    first
      | (have : i = 0 := by omega
         have : j = 0 := by omega
         simp_all)
      | (have : i = 0 := by omega
         simp_all)
      | (have : j = 0 := by omega
         simp_all)

/-- **C13 (S1, scalar broadcasting, scalar on the left)**: `v ∘ array` applies `f v` to every element. -/
theorem C13_op_scalar_left (f : Val → Val → Val) (v : Val) (b : Arr) {h w : Nat} (hb : Rect b h w) (h0 : 0 < h) :
    ∃ res, opFixup f (.scalar v) (.arr b) = some (.arr res) ∧ Rect res h w ∧
      ∀ i j, i < h → j < w → at2 res i j = f v (at2 b i j) := by
  obtain ⟨res, h1, h2, h3⟩ := arrayFixup_spec f (.scalar v) (.arr b) (hl := 1) (wl := 1) (hr := h) (wr := w)
    (h := h) (w := w) (scalar_rect v) hb (by omega) h0
    (by unfold bdim; split <;> simp_all) (by unfold bdim; split <;> simp_all)
  refine ⟨res, by simp [opFixup, h1], h2, ?_⟩
  intro i j hi hj
  rw [h3 i j hi hj]
  have e : at2 (toArr (.scalar v)) (bidx 1 i) (bidx 1 j) = v := by simp [bidx, at2, toArr]
  rw [e]
  by_cases e1 : h = 1 <;> by_cases e2 : w = 1 <;> simp [bidx, e1, e2, toArr] <;>
    first
      | (have : i = 0 := by omega
         have : j = 0 := by omega
         simp_all)
      | (have : i = 0 := by omega
         simp_all)
      | (have : j = 0 := by omega
         simp_all)

/-- **C13 (S1, scalar broadcasting, scalar on the right)**. -/
theorem C13_op_scalar_right (f : Val → Val → Val) (a : Arr) (v : Val) {h w : Nat} (ha : Rect a h w) (h0 : 0 < h) :
    ∃ res, opFixup f (.arr a) (.scalar v) = some (.arr res) ∧ Rect res h w ∧
      ∀ i j, i < h → j < w → at2 res i j = f (at2 a i j) v := by
  obtain ⟨res, h1, h2, h3⟩ := arrayFixup_spec f (.arr a) (.scalar v) (hl := h) (wl := w) (hr := 1) (wr := 1)
    (h := h) (w := w) ha (scalar_rect v) h0 (by omega)
    (by unfold bdim; split <;> simp_all) (by unfold bdim; split <;> simp_all)
  refine ⟨res, by simp [opFixup, h1], h2, ?_⟩
  intro i j hi hj
  rw [h3 i j hi hj]
  have e : at2 (toArr (.scalar v)) (bidx 1 i) (bidx 1 j) = v := by simp [bidx, at2, toArr]
  rw [e]
  by_cases e1 : h = 1 <;> by_cases e2 : w = 1 <;> simp [bidx, e1, e2, toArr] <;>
    first
      | (have : i = 0 := by omega
         have : j = 0 := by omega
         simp_all)
      | (have : i = 0 := by omega
         simp_all)
      | (have : j = 0 := by omega
         simp_all)

/-- **C13 (S1, single-row broadcasting)**: a 1×w row against an h×w array is repeated down the rows. -/
theorem C13_op_single_row (f : Val → Val → Val) (a row : Arr) {h w : Nat}
    (ha : Rect a h w) (hrow : Rect row 1 w) (h0 : 0 < h) (h1 : h ≠ 1) :
    ∃ res, opFixup f (.arr a) (.arr row) = some (.arr res) ∧ Rect res h w ∧
      ∀ i j, i < h → j < w → at2 res i j = f (at2 a i (bidx w j)) (at2 row 0 (bidx w j)) := by
  obtain ⟨res, e1, e2, e3⟩ := arrayFixup_spec f (.arr a) (.arr row) (hl := h) (wl := w) (hr := 1) (wr := w)
    (h := h) (w := w) ha hrow h0 (by omega) (by simp [bdim, h1]) (by simp [bdim])
  refine ⟨res, by simp [opFixup, e1], e2, ?_⟩
  intro i j hi hj
  rw [e3 i j hi hj]
  simp [bidx, h1, toArr]

/-- **C13 (S1, single-column broadcasting)**: an h×1 column against an h×w array is repeated across the columns. -/
theorem C13_op_single_col (f : Val → Val → Val) (a col : Arr) {h w : Nat}
    (ha : Rect a h w) (hcol : Rect col h 1) (h0 : 0 < h) (w1 : w ≠ 1) :
    ∃ res, opFixup f (.arr a) (.arr col) = some (.arr res) ∧ Rect res h w ∧
      ∀ i j, i < h → j < w → at2 res i j = f (at2 a (bidx h i) j) (at2 col (bidx h i) 0) := by
  obtain ⟨res, e1, e2, e3⟩ := arrayFixup_spec f (.arr a) (.arr col) (hl := h) (wl := w) (hr := h) (wr := 1)
    (h := h) (w := w) ha hcol h0 h0 (by simp [bdim]) (by simp [bdim, w1])
  refine ⟨res, by simp [opFixup, e1], e2, ?_⟩
  intro i j hi hj
  rw [e3 i j hi hj]
  simp [bidx, w1, toArr]

/-- **C13 (S1, row against column)**: numpy also broadcasts a single row against a single column to the full
    h×w table `f col[i] row[j]`. -/
theorem C13_op_col_row (f : Val → Val → Val) (col row : Arr) {h w : Nat}
    (hcol : Rect col h 1) (hrow : Rect row 1 w) (h0 : 0 < h) (h1 : h ≠ 1) (w1 : w ≠ 1) :
    ∃ res, opFixup f (.arr col) (.arr row) = some (.arr res) ∧ Rect res h w ∧
      ∀ i j, i < h → j < w → at2 res i j = f (at2 col i 0) (at2 row 0 j) := by
  obtain ⟨res, e1, e2, e3⟩ := arrayFixup_spec f (.arr col) (.arr row) (hl := h) (wl := 1) (hr := 1) (wr := w)
    (h := h) (w := w) hcol hrow h0 (by omega) (by simp [bdim, h1]) (by simp [bdim])
  refine ⟨res, by simp [opFixup, e1], e2, ?_⟩
  intro i j hi hj
  rw [e3 i j hi hj]
  simp [bidx, h1, w1, toArr]

/-- Outside the statement, modelled explicitly: incompatible shapes make the operator raise (`none`). -/
theorem C13_op_incompatible (f : Val → Val → Val) (a b : Arr) {hl wl hr wr : Nat}
    (hL : Rect a hl wl) (hR : Rect b hr wr) (hl0 : 0 < hl) (hr0 : 0 < hr)
    (hbad : bdim hl hr = none ∨ bdim wl wr = none) : opFixup f (.arr a) (.arr b) = none := by
  simp [opFixup, arrayFixup_fail f (.arr a) (.arr b) hL hR hl0 hr0 hbad]

/-! ## S2 — array-aware functions -/

/-- **C13 (S2)**: a function wrapped by `cse_array_wrapper`, applied to arguments of which at least one declared
    cse parameter holds an array and all arrays at declared cse positions have the same shape h×w (`CseShapes`),
    the other arguments being scalars (or arrays at non-cse positions, passed through whole), yields an h×w array
    whose element at every position is the function applied to the arguments with each such array replaced by its
    element at that position (`pickTot`). -/
theorem C13_pointwise_fn (g : List Opnd → Val) (cse : Nat → Bool) (args : List Opnd) {h w : Nat} {x : Arr}
    (hf : firstCse cse 0 args = some x) (hs : CseShapes cse h w 0 args) (h0 : 0 < h) :
    ∃ res, cseWrap g cse args = some (.arr res) ∧ Rect res h w ∧
      ∀ i j, i < h → j < w → at2 res i j = g (pickTot cse 0 args i j) :=
  cseWrap_spec g cse args hf hs h0

/-- **C13 (S2, scalars only)**: without an array at a cse position the function is simply called once. -/
theorem C13_fn_scalar (g : List Opnd → Val) (cse : Nat → Bool) (args : List Opnd)
    (hf : firstCse cse 0 args = none) : cseWrap g cse args = some (.scalar (g args)) :=
  cseWrap_scalar g cse args hf

/-- S2 read for the common case "every parameter is a cse parameter, two arguments": element (i,j) of
    `G(a, v)` is `g [a[i][j], v]`, of `G(a, b)` is `g [a[i][j], b[i][j]]`. -/
theorem C13_fn_binary (g : List Opnd → Val) (a b : Arr) (v : Val) {h w : Nat}
    (ha : Rect a h w) (hb : Rect b h w) (h0 : 0 < h) :
    (∃ res, cseWrap g (fun _ => true) [.arr a, .scalar v] = some (.arr res) ∧ Rect res h w ∧
      ∀ i j, i < h → j < w → at2 res i j = g [.scalar (at2 a i j), .scalar v]) ∧
    (∃ res, cseWrap g (fun _ => true) [.arr a, .arr b] = some (.arr res) ∧ Rect res h w ∧
      ∀ i j, i < h → j < w → at2 res i j = g [.scalar (at2 a i j), .scalar (at2 b i j)]) := by
  constructor
  · exact cseWrap_spec g _ [.arr a, .scalar v] (x := a) rfl (by simp [CseShapes, ha]) h0
  · exact cseWrap_spec g _ [.arr a, .arr b] (x := a) rfl (by simp [CseShapes, ha, hb]) h0

/-- Outside the statement ("equally shaped"), modelled explicitly: the shape is taken from the FIRST array
    argument; a larger second array is silently truncated, a smaller one raises. -/
theorem C13_fn_unequal_shapes_witness (g : List Opnd → Val) (u v w x : Val) :
    cseWrap g (fun _ => true) [.arr [[u]], .arr [[v, w]]] = some (.arr [[g [.scalar u, .scalar v]]]) ∧
    cseWrap g (fun _ => true) [.arr [[v, w]], .arr [[x]]] = none := by
  constructor <;> rfl

/-! ## S3 / S4 — fit to the target -/

/-- **C13 (S3)**: "produces exactly the target's shape" — for every result (scalar or rectangular array with at
    least one row) and every target h×w, the fitted value is rectangular h×w. -/
theorem C13_fit_shape (r : Opnd) {rh rw : Nat} (hr : Rect (toArr r) rh rw) (hrh : 0 < rh) (h w : Nat) :
    Rect (fitToRange r h w) h w :=
  fitToRange_rect r hr hrh h w

/-- **C13 (S4, element law)**: element (i,j) of the fitted value is the result's element at the broadcast index when
    that exists — rows are repeated iff the result has ONE row, columns iff it has ONE column — and #N/A otherwise. -/
theorem C13_fit_elem (r : Opnd) {rh rw : Nat} (hr : Rect (toArr r) rh rw) (hrh : 0 < rh) (hrw : 0 < rw)
    (h w : Nat) {i j : Nat} (hi : i < h) (hj : j < w) :
    at2 (fitToRange r h w) i j =
      if (rh = 1 ∨ i < rh) ∧ (rw = 1 ∨ j < rw) then at2 (toArr r) (bidx rh i) (bidx rw j) else na :=
  fitToRange_at2 r hr hrh hrw h w hi hj

/-- **C13 (S4, "larger results are trimmed")**: inside both the result and the target the element is the result's
    own element (whatever lies beyond the target is dropped: see `C13_fit_shape`). -/
theorem C13_fit_trim (a : Arr) {rh rw : Nat} (hr : Rect a rh rw) (h w : Nat) {i j : Nat}
    (hi : i < h) (hj : j < w) (hi' : i < rh) (hj' : j < rw) :
    at2 (fitToRange (.arr a) h w) i j = at2 a i j := by
  rw [C13_fit_elem (.arr a) hr (by omega) (by omega) h w hi hj]
  have e1 : bidx rh i = i := by unfold bidx; split <;> omega
  have e2 : bidx rw j = j := by unfold bidx; split <;> omega
  simp [hi', hj', e1, e2, toArr]

/-- **C13 (S4, "a scalar ... is repeated")**: a scalar fills every cell of the target. -/
theorem C13_fit_scalar (v : Val) (h w : Nat) {i j : Nat} (hi : i < h) (hj : j < w) :
    at2 (fitToRange (.scalar v) h w) i j = v := by
  rw [C13_fit_elem (.scalar v) (scalar_rect v) (by omega) (by omega) h w hi hj]
  simp [bidx, at2, toArr]

/-- **C13 (S4, "a ... single row ... is repeated")**: a 1×rw result is repeated down all rows of the target. -/
theorem C13_fit_single_row (a : Arr) {rw : Nat} (hr : Rect a 1 rw) (h w : Nat) {i j : Nat}
    (hi : i < h) (hj : j < w) (hj' : j < rw) :
    at2 (fitToRange (.arr a) h w) i j = at2 a 0 j := by
  rw [C13_fit_elem (.arr a) hr (by omega) (by omega) h w hi hj]
  have e2 : bidx rw j = j := by unfold bidx; split <;> omega
  simp [hj', e2, toArr, show bidx 1 i = 0 from rfl]

/-- **C13 (S4, "a ... single column is repeated")**: an rh×1 result is repeated across all columns. -/
theorem C13_fit_single_col (a : Arr) {rh : Nat} (hr : Rect a rh 1) (h w : Nat) {i j : Nat}
    (hi : i < h) (hj : j < w) (hi' : i < rh) :
    at2 (fitToRange (.arr a) h w) i j = at2 a i 0 := by
  rw [C13_fit_elem (.arr a) hr (by omega) (by omega) h w hi hj]
  have e1 : bidx rh i = i := by unfold bidx; split <;> omega
  simp [hi', e1, toArr, show bidx 1 j = 0 from rfl]

/-- **C13 (S4, "uncovered positions are #N/A")**: a target position beyond a result dimension that is not 1. -/
theorem C13_fit_uncovered (r : Opnd) {rh rw : Nat} (hr : Rect (toArr r) rh rw) (hrh : 0 < rh) (hrw : 0 < rw)
    (h w : Nat) {i j : Nat} (hi : i < h) (hj : j < w)
    (hun : (rh ≠ 1 ∧ rh ≤ i) ∨ (rw ≠ 1 ∧ rw ≤ j)) :
    at2 (fitToRange r h w) i j = na := by
  rw [C13_fit_elem r hr hrh hrw h w hi hj]
  rw [if_neg]
  omega

/-- Consequence of the element law (used when a top-left anchored part of the target is evaluated as a range of its
    own, excelwrapper.py:75-95): fitting to a smaller target is the restriction of fitting to the larger one. -/
theorem C13_fit_subtarget (r : Opnd) {rh rw : Nat} (hr : Rect (toArr r) rh rw) (hrh : 0 < rh) (hrw : 0 < rw)
    {h w h' w' : Nat} (hh : h' ≤ h) (hw : w' ≤ w) {i j : Nat} (hi : i < h') (hj : j < w') :
    at2 (fitToRange r h' w') i j = at2 (fitToRange r h w) i j := by
  rw [C13_fit_elem r hr hrh hrw h' w' hi hj, C13_fit_elem r hr hrh hrw h w (by omega) (by omega)]

/-! ## S5 — members -/

/-- **C13 (S5, addressing)**: load_array_formulas writes `CSE_INDEX(front, i, j, h, w)` into the target cell of row
    `r0+i-1`, column `c0+j-1` (entry (i-1, j-1) of `expandCse`), and cell_to_formula turns that cell into
    `index(<range>, i, j)` where `<range>` is exactly the target, whichever member it is. -/
theorem C13_member_range (r0 c0 h w i j : Nat) (hr : 1 ≤ r0) (hc : 1 ≤ c0) (hi : i < h) (hj : j < w) :
    ((expandCse h w)[i]?.bind (·[j]?)) = some ⟨i + 1, j + 1, h, w⟩ ∧
    cseRange (r0 + i) (c0 + j) ⟨i + 1, j + 1, h, w⟩ = ⟨c0, r0, c0 + w - 1, r0 + h - 1⟩ := by
  refine ⟨expandCse_entry h w i j hi hj, ?_⟩
  have := cseRange_member r0 c0 h w (i + 1) (j + 1) hr hc (by omega) (by omega)
  simpa using this

/-- **C13 (S5)**: "each member cell shows its own element" — if evaluating the target range yields `fit(res)` (what
    `_evaluate_range` computes for the array formula's value `res`), the member cell (i,j) (0-based offsets inside
    the target at (r0,c0)) shows element (i,j) of evaluate(target).  `showCell` is the rule of every formula cell
    that an empty value is displayed as 0. -/
theorem C13_member (res : Opnd) {rh rw : Nat} (hres : Rect (toArr res) rh rw) (hrh : 0 < rh)
    (evalRange : Box → Arr) (r0 c0 h w : Nat) (hr : 1 ≤ r0) (hc : 1 ≤ c0)
    (hev : evalRange ⟨c0, r0, c0 + w - 1, r0 + h - 1⟩ = evalTarget res h w)
    {i j : Nat} (hi : i < h) (hj : j < w) :
    memberValue evalRange (r0 + i) (c0 + j) ⟨i + 1, j + 1, h, w⟩
      = showCell (at2 (evalTarget res h w) i j) := by
  unfold memberValue
  rw [(C13_member_range r0 c0 h w i j hr hc hi hj).2, hev]
  show showCell (indexRC (fitToRange res h w) (i + 1) (j + 1)) = showCell (at2 (fitToRange res h w) i j)
  rw [indexRC_in (C13_fit_shape res hres hrh h w) hi hj]

/-- S5 without the display rule: a member whose element is not empty shows exactly that element. -/
theorem C13_member_nonblank (res : Opnd) {rh rw : Nat} (hres : Rect (toArr res) rh rw) (hrh : 0 < rh)
    (evalRange : Box → Arr) (r0 c0 h w : Nat) (hr : 1 ≤ r0) (hc : 1 ≤ c0)
    (hev : evalRange ⟨c0, r0, c0 + w - 1, r0 + h - 1⟩ = evalTarget res h w)
    {i j : Nat} (hi : i < h) (hj : j < w) (hnb : at2 (evalTarget res h w) i j ≠ .blank) :
    memberValue evalRange (r0 + i) (c0 + j) ⟨i + 1, j + 1, h, w⟩ = at2 (evalTarget res h w) i j := by
  rw [C13_member res hres hrh evalRange r0 c0 h w hr hc hev hi hj]
  cases hv : at2 (evalTarget res h w) i j <;> simp_all [showCell]

/-- The whole table of members as the model driver computes it (`members`) is the displayed target. -/
theorem C13_members_table (res : Opnd) {rh rw : Nat} (hres : Rect (toArr res) rh rw) (hrh : 0 < rh)
    (r0 c0 h w : Nat) (hr : 1 ≤ r0) (hc : 1 ≤ c0) {i j : Nat} (hi : i < h) (hj : j < w) :
    at2 (members res r0 c0 h w) i j = showCell (at2 (evalTarget res h w) i j) := by
  have := C13_member res hres hrh
    (fun b => if b = (⟨c0, r0, c0 + w - 1, r0 + h - 1⟩ : Box) then evalTarget res h w else [])
    r0 c0 h w hr hc (by simp) hi hj
  rw [← this]
  simp [members, expandCse, at2, hi, hj]

/-- **C13 (S3–S5, single-cell target)**: an array formula entered in ONE cell is evaluated as an ordinary cell; it
    shows element (0,0) of the fitted (= trimmed) value; only an empty SCALAR result is displayed as 0. -/
theorem C13_single_cell (res : Opnd) {rh rw : Nat} (hres : Rect (toArr res) rh rw) (hrh : 0 < rh) (hrw : 0 < rw) :
    singleCell res = at2 (fitToRange res 1 1) 0 0 ∨ (res = .scalar .blank ∧ singleCell res = .num 0) := by
  have e := C13_fit_elem res hres hrh hrw 1 1 (i := 0) (j := 0) (by omega) (by omega)
  have b1 : bidx rh 0 = 0 := by unfold bidx; split <;> rfl
  have b2 : bidx rw 0 = 0 := by unfold bidx; split <;> rfl
  rw [if_pos (by omega), b1, b2] at e
  cases res with
  | arr a => left; rw [e]; rfl
  | scalar v =>
    cases v with
    | blank => right; exact ⟨rfl, rfl⟩
    | _ => left; rw [e]; rfl

/-- The live `cse_params` metadata (Generated/CseMeta.lean, regenerated from /repo on every run) of the functions
    the correspondence instantiates S2 with: each is lifted over exactly these parameters. -/
theorem C13_cse_meta :
    Gen.cseParams "mod" = [0, 1] ∧ Gen.cseParams "if_" = [0, 1, 2] ∧ Gen.cseParams "isnumber" = [0] ∧
    Gen.cseParams "sign" = [0] ∧ Gen.cseParams "abs_" = [0] ∧ Gen.cseParams "exact" = [0, 1] := by decide

/-! ## S3 under nested evaluations — the context stack -/

/-- **C13 (S3, context discipline)**: for ANY nesting of evaluations (any depth, any mix of array formulas and
    ordinary cells, any stack to start from) the stack is restored after the evaluations, and every evaluation's
    fit_to_range sees exactly that evaluation's own context — the inner evaluations an array formula triggers
    (uncomputed precedent chains, other array formulas) never change the target it is fitted to. -/
theorem C13_ctx_stack (f : Forest) (st : List Ctx) :
    (runForest f st).1 = st ∧ ∀ p ∈ (runForest f st).2, p.2 = p.1 := by
  induction f generalizing st with
  | nil => simp [runForest]
  | cons c ch sib ih1 ih2 =>
    simp only [runForest]
    obtain ⟨h1, h1'⟩ := ih1 (c :: st)
    rw [h1]
    simp only [List.tail_cons, List.headD_cons]
    obtain ⟨h2, h2'⟩ := ih2 st
    refine ⟨h2, ?_⟩
    intro p hp
    rcases List.mem_append.mp hp with h | h
    · exact h1' p h
    · rcases List.mem_cons.mp h with h | h
      · subst h; rfl
      · exact h2' p h

/-- **C13 (S3, nested)**: an array formula over an h×w target, whatever evaluations `children` it triggers first and
    whatever surrounds it, is fitted to ITS target: the value has exactly the target's shape. -/
theorem C13_nested_fit (children siblings : Forest) (st : List Ctx) (h w : Nat) (res : Opnd)
    {rh rw : Nat} (hr : Rect (toArr res) rh rw) (hrh : 0 < rh) :
    ∀ p ∈ (runForest (.cons (some (h, w)) children siblings) st).2, p.1 = some (h, w) →
      fitCtx p.2 res = .arr (fitToRange res h w) ∧ Rect (toArr (fitCtx p.2 res)) h w := by
  intro p hp hown
  have := (C13_ctx_stack (.cons (some (h, w)) children siblings) st).2 p hp
  rw [this, hown]
  exact ⟨rfl, C13_fit_shape res hr hrh h w⟩

/-- why a stack is needed: with only "current + one saved" slots (enter: saved := cur, cur := c; exit: cur := saved)
    the outermost of three nested evaluations is fitted with its child's context -/
example :
    let enter (s : Ctx × Ctx) (c : Ctx) : Ctx × Ctx := (c, s.1)
    let exit (s : Ctx × Ctx) : Ctx × Ctx := (s.2, s.2)
    let s0 : Ctx × Ctx := (none, none)
    let sA := enter s0 (some (2, 3))      -- array formula
    let sB := enter sA none               -- its precedent B1
    let sC := enter sB none               -- B1's precedent C1
    (exit (exit sC)).1 ≠ some (2, 3) := by decide
-- the stack model: any chain depth below the array formula leaves its context intact
example : (List.range 5).all (fun d => seenByArrayFormula 2 3 d 2 == some (2, 3)) = true := by decide

/-! ## Non-vacuity: concrete instances of the hypotheses, evaluated by the model -/

private def n (k : Int) : Val := .num k
private def addI : Val → Val → Val
  | .num a, .num b => .num (a + b)
  | .err e, _ => .err e
  | _, .err e => .err e
  | _, _ => .err .value

-- {1,2;3,4} + {10;20}: single-column broadcasting
example : opFixup addI (.arr [[n 1, n 2], [n 3, n 4]]) (.arr [[n 10], [n 20]])
    = some (.arr [[n 11, n 12], [n 23, n 24]]) := by decide +kernel
-- a scalar error operand is lifted like any other scalar (the array's own error wins where there is one)
example : opFixup addI (.arr [[.err .div0, n 1]]) (.scalar (.err .na)) = some (.arr [[.err .div0, .err .na]]) := by
  decide +kernel
-- {1,2;3,4} + {1,2,3} raises
example : opFixup addI (.arr [[n 1, n 2], [n 3, n 4]]) (.arr [[n 1, n 2, n 3]]) = none := by decide +kernel
-- hypotheses of C13_pointwise_op are satisfiable with a genuinely broadcasting instance (2×1 against 1×3)
example : ∃ res, opFixup addI (.arr [[n 1], [n 2]]) (.arr [[n 10, n 20, n 30]]) = some res ∧
    Rect (toArr res) 2 3 ∧ at2 (toArr res) 1 2 = n 32 := by
  obtain ⟨res, h1, h2, h3⟩ := C13_pointwise_op addI (.arr [[n 1], [n 2]]) (.arr [[n 10, n 20, n 30]])
    (hl := 2) (wl := 1) (hr := 1) (wr := 3) (h := 2) (w := 3)
    (by simp [Rect, toArr]) (by simp [Rect, toArr]) (by omega) (by omega) (by decide) (by decide)
  exact ⟨res, h1, h2, by rw [h3 1 2 (by omega) (by omega)]; decide +kernel⟩
-- a lifted function on an array, a scalar and an equally shaped array
example : cseWrap (fun args => match args with
      | [.scalar (.num a), .scalar (.num b), .scalar (.num c)] => .num (a * b + c)
      | _ => .err .value) (fun _ => true)
    [.arr [[n 1, n 2]], .scalar (n 10), .arr [[n 5, n 6]]] = some (.arr [[n 15, n 26]]) := by decide +kernel
-- fit: 3×1 result over a 3×2 target is repeated; 2×2 over 3×3 is filled; 2×3 over 1×2 is trimmed
example : fitToRange (.arr [[n 1], [n 2], [n 3]]) 3 2 = [[n 1, n 1], [n 2, n 2], [n 3, n 3]] := by decide +kernel
example : fitToRange (.arr [[n 1, n 2], [n 3, n 4]]) 3 3
    = [[n 1, n 2, na], [n 3, n 4, na], [na, na, na]] := by decide +kernel
example : fitToRange (.arr [[n 1, n 2, n 3], [n 4, n 5, n 6]]) 1 2 = [[n 1, n 2]] := by decide +kernel
example : fitToRange (.scalar (n 7)) 2 2 = [[n 7, n 7], [n 7, n 7]] := by decide +kernel
-- members of a target at D1 (row 1, column 4): blank elements are displayed as 0
example : members (.arr [[n 1, .blank]]) 1 4 2 3 = [[n 1, n 0, na], [n 1, n 0, na]] := by decide +kernel

end Pycel.Arrays

/-
  C07 — Evaluations on different threads are isolated from each other.

  Statement (properties.jsonl): "Evaluating different compiled workbooks concurrently on different threads gives each
  thread exactly the results it gets when run alone, for every interleaving of the two evaluations - including
  iterative evaluations with different iteration/tolerance settings and array-formula evaluations. Any public
  operation (load, evaluate, set_value, trim_graph) works on a thread that has never used the library before."

  Model: Pycel/Model/Threads.lean.  A thread runs one workload on its own compiler; a workload is the sequence of
  operations it performs on the state pycel keeps OUTSIDE the compiler object (tracker namespace, array-context
  stack, `_Cell.ctr`, FUNC_META['name_space']).  WHERE each of these lives is the table `codePlacement`, measured on
  the live code by harness/tablegen/c07.py (Generated/Threads.lean): the theorems marked [table] are re-proved
  against it on every run, so moving the tracker or the context stack out of `threading.local`, or dropping an
  attribute from the lazy `ns` initialisation, makes them fail to check.

  What the model cannot exhibit (named in the evidence): a preemption between two bytecodes of one tracker/context
  method (steps are whole API calls; cell evaluation is the scheduling granularity of the correspondence run),
  numpy's own threads, and the GIL.  `_Cell.ctr += 1` is one step here although it is three bytecodes.
-/
import Pycel.Lemmas.Threads
namespace Pycel.Threads

/-! ## [table] what the live code keeps per thread -/

/-- [table] the tracker namespace and the array-context stack of the live code are `threading.local` -/
theorem C07_code_isolating : Isolating codePlacement := by decide

/-- [table] the lazy `ns` property of the live tracker creates every attribute its API reads
    (on the pinned tree `iterations`/`tolerance` were missing: `C07_fresh_thread_counterexample`) -/
theorem C07_code_lazy_complete : codePlacement.lazy.Complete := by decide

/-- [table] the first `with in_array_formula_context(addr)` a brand-new thread ever runs sees `addr` (the model's
    `ctxCall` goes through the lazily initialising `ns`, as excelutil.py:860 does) -/
theorem C07_code_ctx_fresh : Gen.Threads.ctxFreshFirstWith = true := by decide

/-- [table] every module-level / class-level mutable of the pycel modules that a multi-compiler workload was
    measured to write is one the model accounts for (`Shared.metaNs`, `Shared.ctr`): nothing else is shared.
    (`star_args` is filled at import time only; the tracker / context singletons keep nothing on the instance.) -/
theorem C07_shared_enumeration :
    ∀ x ∈ Gen.Threads.sharedWritten, x ∈ ["FUNC_META.name_space", "pycel.excelcompiler._Cell.ctr"] := by decide

/-! ## frame -/

/-- "gives each thread exactly the results it gets when run alone": a step of thread `t` leaves the locals that
    every other thread `u` sees, and `u`'s compiler/workload state, unchanged. -/
theorem C07_frame (P : Placement) (hP : Isolating P) (t u : Tid) (h : u ≠ t) (g : Global) :
    view P (step P t g) u = view P g u ∧ (step P t g).threads u = g.threads u := by
  rw [view_isolating P hP, view_isolating P hP]
  exact ⟨step_locals_other P t u g h, step_threads_other P t u g h⟩

/-- a step of `t` is a function of `t`'s own locals and compiler state: two global states that agree on `t`'s
    projection agree on it after the step, whatever the other threads, compilers and the shared store hold. -/
theorem C07_step_local (P : Placement) (hP : Isolating P) (t : Tid) (g1 g2 : Global)
    (h : proj g1 t = proj g2 t) (hs : Safe P (g1.threads t).prog) :
    proj (step P t g1) t = proj (step P t g2) t :=
  step_local P hP t g1 g2 h hs

/-- [table] the frame property for the live placement -/
theorem C07_frame_code (t u : Tid) (h : u ≠ t) (g : Global) :
    view codePlacement (step codePlacement t g) u = view codePlacement g u ∧
    (step codePlacement t g).threads u = g.threads u :=
  C07_frame codePlacement C07_code_isolating t u h g

/-! ## isolation under every interleaving -/

/-- "for every interleaving of the two evaluations": for EVERY schedule `σ` (any number of threads, any
    interleaving of their steps, from any initial state — warmed-up or fresh locals), what thread `t` observes
    (its locals, its observations = pass-loop exits, needs_calc answers, tolerances, array targets, its remaining
    program, whether it failed) equals its solo run of the same number of steps. -/
theorem C07_isolation (P : Placement) (hP : Isolating P) (t : Tid) (σ : List Tid) (g : Global)
    (hs : Safe P (g.threads t).prog) :
    proj (run P σ g) t = proj (runSolo P t (σ.count t) g) t := by
  induction σ generalizing g with
  | nil => rfl
  | cons u σ ih =>
    by_cases hu : u = t
    · subst hu
      simp only [run, List.count_cons_self, runSolo]
      exact ih _ (step_safe P u g hs)
    · have hne : (u == t) = false := by simpa using hu
      simp only [run, List.count_cons, hne, Bool.false_eq_true, ↓reduceIte, Nat.add_zero]
      have hth : (step P u g).threads t = g.threads t := step_threads_other P u t g (Ne.symm hu)
      rw [ih (step P u g) (hth ▸ hs)]
      exact runSolo_congr P hP t _ _ _ (proj_step_other P u t g (Ne.symm hu)) (hth ▸ hs)

/-- [table] isolation for the live placement, for the workloads the statement names (iterative, array-formula,
    plain): their programs never read FUNC_META['name_space'] at call time (only CELL and INDEX over a reference
    do — see `C07_shared_meta_counterexample`). -/
theorem C07_isolation_code (t : Tid) (σ : List Tid) (g : Global) (hs : ∀ f, Op.mread f ∉ (g.threads t).prog) :
    proj (run codePlacement σ g) t = proj (runSolo codePlacement t (σ.count t) g) t :=
  C07_isolation codePlacement C07_code_isolating t σ g (Or.inr hs)

/-- isolation for the placement the property asks for, with no side condition on the programs -/
theorem C07_isolation_prop (t : Tid) (σ : List Tid) (g : Global) :
    proj (run propPlacement σ g) t = proj (runSolo propPlacement t (σ.count t) g) t :=
  C07_isolation propPlacement (by decide) t σ g (Or.inl rfl)

/-- two threads, as in the statement: both projections at once -/
theorem C07_isolation_two (P : Placement) (hP : Isolating P) (a b : Tid) (σ : List Tid) (g : Global)
    (ha : Safe P (g.threads a).prog) (hb : Safe P (g.threads b).prog) :
    proj (run P σ g) a = proj (runSolo P a (σ.count a) g) a ∧
    proj (run P σ g) b = proj (runSolo P b (σ.count b) g) b :=
  ⟨C07_isolation P hP a σ g ha, C07_isolation P hP b σ g hb⟩

/-! ## the theorems are about the placement: with module-level state they are false -/

def tl (i : Nat) (d : Nat) : Tol := ((i : Int), d)

/-- iterative workload A (5 iterations, tolerance 1/1000) and B (3 iterations, tolerance 1/2) -/
def progA : List Op := [.call 5 (tl 1 1000), .inc, .yp, .calced 0, .tol, .wip 0, .done, .fin]
def progB : List Op := [.call 3 (tl 1 2), .inc, .yp, .calced 1, .tol, .done, .fin]
def progs2 (a b : List Op) : Tid → List Op := fun t => if t = 0 then a else if t = 1 then b else []

/-- B runs to completion inside A's first cell evaluation -/
def sigma1 : List Tid := [0, 0, 0] ++ List.replicate 7 1 ++ List.replicate 5 0

/-- non-vacuity: under the live placement the interleaved run of A equals its solo run, and A is not trivial
    (it reads its own tolerance 1/1000 and needs another pass) -/
example : (proj (run codePlacement sigma1 (initGlobal (progs2 progA progB))) 0).obs =
    [.tol (1, 1000), .bool false, .fin (some 1) (some 5) (some (1, 1000)) (some 1) (some 1) (some 1)] := by decide

/-- if the tracker namespace were one module-level object (the 1.0b20 bug), the same schedule makes A read B's
    tolerance and iteration count: isolation is not provable for that placement. -/
theorem C07_global_tracker_counterexample :
    let P := { codePlacement with tracker := Place.moduleGlobal }
    let g := initGlobal (progs2 progA progB)
    (proj (run P sigma1 g) 0).obs ≠ (proj (runSolo P 0 (sigma1.count 0) g) 0).obs := by decide

/-- array-formula workloads: A evaluates a CSE range B1:B3, B a CSE range D1:D2, nested one level -/
def progC : List Op := [.ctxCall "B1:B3", .enter, .yp, .top, .ctxCall "N", .enter, .top, .exit, .top, .exit]
def progD : List Op := [.ctxCall "D1:D2", .enter, .yp, .top, .exit]
def sigma2 : List Tid := [0, 0, 0, 1, 1, 1, 0, 0, 0, 1, 1, 0, 0, 0, 0]

example : (proj (run codePlacement sigma2 (initGlobal (progs2 progC progD))) 0).obs =
    [.addr "B1:B3", .addr "N", .addr "B1:B3"] := by decide

/-- if the context stack were one module-level list (the 1.0b19 bug), A's `fit_to_range` sees B's target range -/
theorem C07_global_ctx_counterexample :
    let P := { codePlacement with ctx := Place.moduleGlobal }
    let g := initGlobal (progs2 progC progD)
    (proj (run P sigma2 g) 0).obs ≠ (proj (runSolo P 0 (sigma2.count 0) g) 0).obs := by decide

/-- [table] FUNC_META['name_space'] IS module-level in the live code (function_helpers.py:90) and CELL / INDEX read
    it at call time: a workload that calls CELL over a reference after the other compiler has loaded CELL reads
    through the other compiler.  Full isolation (no side condition on the programs) is therefore false for the live
    placement; it is recorded as known finding `funcmeta.name_space.shared`. -/
theorem C07_shared_meta_counterexample :
    let g := initGlobal (progs2 [.bind "cell", .mread "cell", .yp, .mread "cell"] [.bind "cell"])
    let σ : List Tid := [0, 0, 0, 1, 0]
    (proj (run codePlacement σ g) 0).obs = [.comp (some 0), .comp (some 1)] ∧
    (proj (runSolo codePlacement 0 (σ.count 0) g) 0).obs = [.comp (some 0), .comp (some 0)] := by decide

/-- [table] the cell-id counter is shared as well; ids are handed out in schedule order, so they are NOT part of
    what a thread gets "when run alone" (nothing in an evaluation reads them) -/
theorem C07_ids_depend_on_schedule :
    let g := initGlobal (progs2 [.nextId, .nextId] [.nextId])
    ((run codePlacement [0, 1, 0] g).threads 0).ids = [1, 3] ∧
    ((runSolo codePlacement 0 2 g).threads 0).ids = [1, 2] := by decide

/-! ## fresh threads -/

/-- "Any public operation (load, evaluate, set_value, trim_graph) works on a thread that has never used the library
    before": started from DEFAULT thread-locals (no attribute exists yet), a thread running any operation sequence
    whose `with in_array_formula_context` blocks are properly nested (every public operation is one) never reads an
    attribute that has not been created — it cannot raise AttributeError/IndexError out of the bookkeeping, after
    any number of its own steps. -/
theorem C07_fresh_thread (P : Placement) (hP : Isolating P) (hL : P.lazy.Complete) (t : Tid) (g : Global)
    (hfresh : g.locals t = Locals.default) (hrun : (g.threads t).crashed = false)
    (hb : Balanced (g.threads t).prog) (n : Nat) :
    ((runSolo P t n g).threads t).crashed = false := by
  have hinv : Inv g t := by
    refine ⟨hrun, ?_, ?_, ?_⟩
    · rw [hfresh]; intro h; cases h
    · rw [hfresh]; intro h; cases h
    · rw [hfresh]
      have := balanced_stackOk _ hb [] 1 (Nat.le_refl 1) rfl
      simpa [Locals.default, Ctx.depth] using this
  exact (runSolo_inv P hP hL t n g hinv).1

/-- the same on a fresh thread running concurrently with anything else, under every schedule -/
theorem C07_fresh_thread_interleaved (P : Placement) (hP : Isolating P) (hL : P.lazy.Complete) (t : Tid)
    (g : Global) (hfresh : g.locals t = Locals.default) (hrun : (g.threads t).crashed = false)
    (hb : Balanced (g.threads t).prog) (hs : Safe P (g.threads t).prog) (σ : List Tid) :
    ((run P σ g).threads t).crashed = false := by
  have h := C07_isolation P hP t σ g hs
  have h2 := C07_fresh_thread P hP hL t g hfresh hrun hb (σ.count t)
  have := congrArg Proj.crashed h
  simp only [proj] at this
  rw [this, h2]

/-- [table] for the live code -/
theorem C07_fresh_thread_code (t : Tid) (g : Global)
    (hfresh : g.locals t = Locals.default) (hrun : (g.threads t).crashed = false)
    (hb : Balanced (g.threads t).prog) (n : Nat) :
    ((runSolo codePlacement t n g).threads t).crashed = false :=
  C07_fresh_thread codePlacement C07_code_isolating C07_code_lazy_complete t g hfresh hrun hb n

/-- the lazy table of the pinned tree (before `fix:`): `ns` created only todo/computed/iteration_number -/
def pinnedLazy : LazyTable := { attrs := ["todo", "computed", "iteration_number"], iterations := none, tolerance := none }

/-- with that table `set_value` on a cycle cell (`_CycleCell.value` setter: calced, tolerance, wip) — likewise the
    cell construction of from_file / trim_graph — raises AttributeError on a fresh thread: the witness of the
    repaired defect. -/
theorem C07_fresh_thread_counterexample :
    let P := { codePlacement with lazy := pinnedLazy }
    let g := initGlobal (progs2 [.calced 0, .tol, .wip 0] [])
    ((runSolo P 0 2 g).threads 0).obs = [.raised "AttributeError"] ∧ ((runSolo P 0 2 g).threads 0).crashed = true := by
  decide

/-- non-vacuity of `C07_fresh_thread`: a nested, balanced public-operation sequence -/
example : Balanced [.call 5 (1, 1000), .inc, .ctxCall "N", .enter, .yp, .isCalced 0, .top, .exit, .calced 0, .tol, .done] := by
  have h1 : Balanced [Op.yp, .isCalced 0, .top] :=
    .append [_] [_, _] (.atom _ (by decide) (by decide))
      (.append [_] [_] (.atom _ (by decide) (by decide)) (.atom _ (by decide) (by decide)))
  have h2 := Balanced.block _ h1
  have a : ∀ o : Op, o ≠ .enter → o ≠ .exit → Balanced [o] := fun o x y => .atom o x y
  exact .append [_] _ (a _ (by decide) (by decide)) <| .append [_] _ (a _ (by decide) (by decide)) <|
    .append [_] _ (a _ (by decide) (by decide)) <| .append _ [_, _, _] h2 <|
    .append [_] [_, _] (a _ (by decide) (by decide)) <| .append [_] [_] (a _ (by decide) (by decide)) (a _ (by decide) (by decide))

end Pycel.Threads

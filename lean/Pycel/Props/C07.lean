/- C07: property theorems (not built yet). -/

/-
  C04 — Declared precedents cover every cell a formula actually reads.

  Statement (properties.jsonl): "Whenever evaluating a formula reads the value of another cell or range, that cell or
  range is among the formula's declared precedents and the dependency graph has the corresponding
  precedent->dependant edge (directly or through a range node that contains the cell). Consequently the ancestors of a
  cell in the exported graph are a superset of the cells that can influence it, for all formulas with written
  (non-computed) references."

  Model: Pycel/Model/Needed.lean (emission of the reference forms `emitN`, the scanner `scan`, the run-time trace
  `evalT`/`reads` for an arbitrary environment and arbitrary, possibly failing, operator / library semantics, the
  graph construction `genGraph`), over C02's formula tree / Python tokens and C11's address algebra.
  Generated/RefMeta.lean (the `func_*` emission handlers, ADDR_FUNCS_NAMES, ref_params of ROW/COLUMN/OFFSET) is
  regenerated from the live code on every run; the `*_spec` theorems below are re-proved against it.
-/
import Pycel.Lemmas.Needed
namespace Pycel.Needed
open Pycel Pycel.Formula

/-! ### the tables the model dispatches on -/

/-- the special emission handlers of FunctionNode are exactly the ones `emitN` models (`map` is the attribute
    `func_map`, a dict: `=MAP(...)` fails to compile).  A new `func_*` handler is a new emission shape. -/
theorem handlers_spec : Gen.funcHandlers =
    [nmArray, nmArrayRow, nmColumn, ['f', 'a', 'l', 's', 'e'], nmIndirect, ['m', 'a', 'p'], nmOffset, nmPi, nmRow,
     nmSubtotal, ['t', 'r', 'u', 'e']] := by decide

/-- the scanner looks for exactly the three call names the emitter uses for references -/
theorem addr_funcs_spec : Gen.scanNames = [nmR, nmC, nmREF] ∧ Gen.scanNames = Gen.addrFuncs := by decide

/-- ROW / COLUMN / OFFSET keep their parameter 0 as a reference (no `_C_`/`_R_` call is made for it) -/
theorem ref_params_spec : Gen.refParams = [(nmRow, 0), (nmColumn, 0), (nmOffset, 0)] := by decide

/-! ### "that cell or range is among the formula's declared precedents" — the scanner finds what the emitter wrote -/

/-- the call pattern survives any surrounding context: a match in `xs` is a match in `pre ++ xs ++ post` -/
theorem C04_scan_context (pre xs post : List PyTok) (a : Str) (h : a ∈ scan xs) : a ∈ scan (pre ++ xs ++ post) := by
  rw [List.append_assoc]
  exact scan_prefix pre _ a (scan_suffix xs post a h)

/-- What `scan` assumes about the characters inside the string literal.  `RangeNode._emit` writes the address text
    between double quotes WITHOUT escaping, and the scanner takes `token.string[1:-1]` back verbatim, so on token lists
    the round trip is exact for every text (`C04_scan_complete` quantifies over all address texts).  A token list is
    the Python tokenisation of `python_code` exactly when no emitted text holds `"`, `\`, or a line break (`litSafe`):
    Excel allows `"` in a sheet title, and such a formula does not compile at all (unterminated literal — no read
    ever happens).  Every other character Excel allows in a title (parentheses, `&#%+,;=@^~{}<>`, apostrophes, digits
    only, address / `TRUE` look-alikes, non-ASCII letters) passes through unchanged; the correspondence run diffs the
    Python tokens for all of them.  `$` is stripped from the whole reference text, sheet title included, and `_R_` /
    `_C_` are rewritten under reference operators (`refixed`): both mangle the title before the scanner sees it. -/
def litSafe (s : Str) : Bool := s.all fun c => c ≠ '"' && c ≠ '\\' && c ≠ '\n' && c ≠ '\r'

/-- the emitter does not escape: the title `a"b` lands in the literal body as it is -/
example : emitAddr ⟨false, ⟨"a\"b".toList, 1, 1, 1, 1⟩⟩ = [.name nmC, .lpar, .str "a\"b!A1".toList, .rpar] ∧
    litSafe "a\"b!A1".toList = false ∧ litSafe "Costs (2)!A1".toList = true ∧ litSafe "R&D!$A$1".toList = true := by
  decide

/-- every reference emitted for a written reference (plain, `$`, sheet-qualified, range, multi-colon, defined name
    with one or several areas, operands of intersections and `,` unions, the argument of ROW / COLUMN and their
    implicit own cell, at any nesting depth inside operators and functions) is found by the scanner -/
theorem C04_scan_complete (cx : RefCtx) (e : Expr) (hw : written cx e = true) (a : Str)
    (h : a ∈ refsEmitted cx e) : a ∈ scan (emit cx e) :=
  ((hitE cx a e (Or.inr hw) h).1 .root).scan

/-! ### "Whenever evaluating a formula reads the value of another cell or range, that cell or range is among the
    formula's declared precedents" -/

/-- for every formula with written references, every environment and every (possibly failing) operator / library
    semantics: each address passed to `_C_` / `_R_` at run time — the computed argument of the intersection form
    included — is contained, as a set of cells, in a declared precedent -/
theorem C04_reads_covered {V : Type} (cx : RefCtx) (sem : Sem V) (e : Expr) (hw : written cx e = true) :
    ∀ r ∈ reads cx sem e, ∃ d ∈ scan (emit cx e), ∀ c, r.Covers c → CoversStr d c := by
  intro r hr
  obtain ⟨d, hd, hc⟩ := readsE cx sem e (Or.inr hw) r hr
  exact ⟨d, C04_scan_complete cx e hw d hd, hc⟩

/-! ### "and the dependency graph has the corresponding precedent->dependant edge (directly or through a range node
    that contains the cell)" -/

/-- after `_gen_graph(seed)` has emptied its work list, every built node with precedents (formula cell, range node,
    reference cell of an unbounded range) has the edge `d → i` for each of its needed addresses `d` -/
theorem C04_edges {N : Type} [DecidableEq N] (bk : Book N) (fuel n : Nat) (seed : N)
    (hdone : (genGraph bk fuel n seed).todos = []) :
    ∀ i ∈ (genGraph bk fuel n seed).cellMap, bk.hasPrec i = true →
      ∀ d ∈ bk.needed i, (d, i) ∈ (genGraph bk fuel n seed).edges := by
  intro i hi hp
  rcases genGraph_inv bk fuel n seed i hi hp with h | h | h
  · exact absurd h id
  · rw [hdone] at h; simp at h
  · exact h

/-- a pass that ABORTS: building a precedent of the popped dependant `d` raises (a missing sheet, a linked workbook)
    after a prefix `ps` of `d`'s needed addresses was connected.  The code leaves `graph_todos` as it is, so the cells
    discovered in that pass are still queued; any later `_gen_graph(seed')` that empties the work list gives every
    built node OTHER THAN `d` all its edges (`d` itself cannot be evaluated to completion: its remaining precedent
    does not build).  This is the state the property speaks about for the siblings that are evaluated later. -/
theorem C04_edges_after_abort {N : Type} [DecidableEq N] (bk : Book N) (fuel n' : Nat) (seed seed' d : N)
    (rest ps : List N) (k : Nat)
    (ht : (genLoop bk fuel k (makeCells bk fuel seed ⟨[], [], []⟩)).todos = d :: rest) :
    let aborted := ps.foldl (edgeStep bk fuel d)
      { genLoop bk fuel k (makeCells bk fuel seed ⟨[], [], []⟩) with todos := rest }
    let final := genLoop bk fuel n' (makeCells bk fuel seed' aborted)
    final.todos = [] → ∀ i ∈ final.cellMap, bk.hasPrec i = true → i ≠ d →
      ∀ p ∈ bk.needed i, (p, i) ∈ final.edges := by
  intro aborted final hdone i hi hp hne
  have h0 : InvX bk (fun _ => False) (genLoop bk fuel k (makeCells bk fuel seed ⟨[], [], []⟩)) :=
    genLoop_inv bk _ fuel k _ (makeCells_inv bk _ fuel seed _ (by intro i hi; simp at hi))
  have h1 := abort_state_inv bk _ fuel _ d rest ps h0 ht
  have h2 : InvX bk (fun i => False ∨ i = d) final :=
    genLoop_inv bk _ fuel n' _ (makeCells_inv bk _ fuel seed' _ h1)
  rcases h2 i hi hp with (h | h) | h | h
  · exact absurd h id
  · exact absurd h hne
  · rw [hdone] at h; simp at h
  · exact h

/-- `_CellRange.needed_addresses`: a range node has an edge from each of its member cells -/
theorem C04_range_members {N : Type} [DecidableEq N] (bk : Book N) (fuel n : Nat) (seed : N)
    (hdone : (genGraph bk fuel n seed).todos = []) (rng : N) (members : List N)
    (hr : rng ∈ (genGraph bk fuel n seed).cellMap) (hp : bk.hasPrec rng = true) (hm : bk.needed rng = members) :
    ∀ m ∈ members, (m, rng) ∈ (genGraph bk fuel n seed).edges := by
  intro m hmem
  exact C04_edges bk fuel n seed hdone rng hr hp m (by rw [hm]; exact hmem)

/-- a cell that is a declared precedent of `i`, or a member of a range node that is, is an ancestor of `i` -/
theorem C04_ancestors {N : Type} (edges : List (N × N)) (needed : N → List N) (hasPrec : N → Bool)
    (hedges : ∀ i, hasPrec i = true → ∀ d ∈ needed i, (d, i) ∈ edges)
    (i : N) (hi : hasPrec i = true) (d : N) (hd : d ∈ needed i) (c : N)
    (hc : c = d ∨ (hasPrec d = true ∧ c ∈ needed d)) : Reach edges c i := by
  rcases hc with rfl | ⟨hpd, hcd⟩
  · exact .step (hedges i hi c hd) (.refl i)
  · exact .step (hedges d hpd c hcd) (.step (hedges i hi d hd) (.refl i))

/-- `c` can influence `i`: `i` reads `c` at run time, or reads a cell that `c` can influence -/
inductive Influences {N : Type} (readCells : N → List N) : N → N → Prop where
  | direct {c i : N} : c ∈ readCells i → Influences readCells c i
  | trans {c j i : N} : Influences readCells c j → j ∈ readCells i → Influences readCells c i

/-- "Consequently the ancestors of a cell in the exported graph are a superset of the cells that can influence it":
    when every cell a node reads lies in a declared precedent (C04_reads_covered: the precedent is the cell itself or
    a range node whose members include it) and the built graph has the edges (C04_edges), every cell that can
    influence `i` is an ancestor of `i` -/
theorem C04_influence {N : Type} (edges : List (N × N)) (needed : N → List N) (hasPrec : N → Bool)
    (readCells : N → List N)
    (hedges : ∀ i, hasPrec i = true → ∀ d ∈ needed i, (d, i) ∈ edges)
    (hreader : ∀ i c, c ∈ readCells i → hasPrec i = true)
    (hcov : ∀ i c, c ∈ readCells i → ∃ d ∈ needed i, c = d ∨ (hasPrec d = true ∧ c ∈ needed d))
    (c i : N) (h : Influences readCells c i) : Reach edges c i := by
  induction h with
  | direct hc =>
    obtain ⟨d, hd, hcd⟩ := hcov _ _ hc
    exact C04_ancestors edges needed hasPrec hedges _ (hreader _ _ hc) d hd _ hcd
  | trans _ hj ih =>
    obtain ⟨d, hd, hcd⟩ := hcov _ _ hj
    exact reach_trans ih (C04_ancestors edges needed hasPrec hedges _ (hreader _ _ hj) d hd _ hcd)

/-! ### the `written` predicate: decidable, satisfiable, and excluding the computed forms -/

def cx0 : RefCtx := ⟨"Sheet1".toList, 5, 6, [("nm".toList ++ ['_', 'x'], [("$B$2".toList, "Sheet1".toList)])]⟩

/-- `=SUM(A1:B2 B2:C3, Sheet2!$A$1, nm_x) + ROW(A1:B2:C3)` -/
def e0 : Expr :=
  .bin .add
    (.func "SUM".toList [.bin .space (.operand (.range "A1:B2".toList)) (.operand (.range "B2:C3".toList)),
      .operand (.range "Sheet2!$A$1".toList), .operand (.range "nm_x".toList)])
    (.func "ROW".toList [.operand (.range "A1:B2:C3".toList)])

/-- the predicate is satisfiable by a formula with an intersection, a sheet-qualified absolute reference, a defined
    name and a multi-colon range under ROW; its trace holds the computed intersection `Sheet1!B2` -/
theorem written_satisfiable :
    written cx0 e0 = true ∧ (reads cx0 (V := Unit) ⟨fun _ => (), fun _ => (), fun _ => (), fun _ => (),
      fun _ => some (), fun _ => some (), fun _ _ _ => some (), fun _ => (), fun _ _ => some (),
      fun _ _ => some ()⟩ e0).length = 3 ∧
    (scan (emit cx0 e0)).length = 5 := by decide +kernel

/-- OFFSET, INDIRECT (any spelling that `FunctionNode.emit` maps to these handlers) and the `:` operator on a computed
    operand are outside the written references -/
theorem computed_not_written (cx : RefCtx) (l r : Expr) (name : Str) (args : List Expr)
    (h : pyFuncBase name = nmOffset ∨ pyFuncBase name = nmIndirect) :
    written cx (.bin .colon l r) = false ∧ written cx (.func name args) = false := by
  refine ⟨by simp [written], ?_⟩
  simp only [written]
  rw [if_pos]
  rcases h with h | h
  · exact Or.inl h
  · exact Or.inr (Or.inl h)

/-- the side condition `refixed` inside `written` (operands of an intersection, the argument / own cell of ROW and
    COLUMN): the code rewrites `_R_` / `_C_` textually in the emitted operands, string literals included, so an address
    on a sheet named `My_R_S` is emitted there as `My_REF_S!…` (a different sheet).  Declared precedents and run-time
    reads are rewritten alike, so the reads stay covered, but the address is no longer the written one. -/
example : refixed "My_R_S!A1".toList = false ∧ replaceRC "My_R_S!A1".toList = "My_REF_S!A1".toList ∧
    refixed "Sheet1!A1:B2".toList = true := by decide

example : pyFuncBase "OFFSET".toList = nmOffset ∧ pyFuncBase "Indirect".toList = nmIndirect := by decide

end Pycel.Needed

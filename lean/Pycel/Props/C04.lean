/- C04: property theorems (in progress). -/
import Pycel.Model.Needed
namespace Pycel.Needed
end Pycel.Needed

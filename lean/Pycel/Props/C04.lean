/- C04: property theorems (not built yet). -/

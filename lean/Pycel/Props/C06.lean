/- C06: property theorems (not built yet). -/

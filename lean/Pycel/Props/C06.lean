/-
  C06 — Iterative calculation: bounded, tolerance-honest, agrees with plain evaluation.

  Statement (properties.jsonl): "With iterative calculation enabled, evaluate performs at most the requested number
  of passes; if it stops earlier, no cell changed by more than the tolerance in the last pass, so for a contracting
  circular system the result lies within q/(1-q) x tolerance of the true fixed point. On a workbook without circular
  references it returns exactly what non-iterative evaluation returns, on first use and after any set_value history,
  including formulas that read ranges."

  Model: Pycel/Model/Iter.lean (pass loop, tracker, cycle cells; a range read is the list of its cells inside
  `Formula.reads`).  Lemmas: Pycel/Lemmas/Iter.lean, IterSem.lean, IterJoin.lean.
-/
import Pycel.Lemmas.IterJoin
namespace Pycel.Iter

/-- The constants the model takes from the LIVE source (Generated/IterConsts.lean, harness/tablegen/c06.py) are the
    ones the theorems below are stated with: `rel = 0.00001`, `close_enough` compares with `<=`, the defaults of
    `_evaluate_iterative` are 10000 passes and a tolerance of 0.01.  A changed default or operator breaks this. -/
theorem C06_consts :
    rel = 1 / 100000 ∧ Gen.closeEnoughInclusive = true ∧ defaultIterations = 10000 ∧ defaultTol = 1 / 100 := by
  refine ⟨by decide +kernel, rfl, rfl, by decide +kernel⟩

/-! ## "evaluate performs at most the requested number of passes" -/

/-- For EVERY first-pass / pass function (any workbook, any step function) and every limit `N`: at least one pass
    runs, never more than `max 1 N`, and the loop — run with fuel `N` — ends because the tracker reports `done`
    (limit reached or nothing scheduled), i.e. the fuel bound of the model is the code's real bound. -/
theorem C06_bounded_generic (first step : St → List V × St) (N : Int) (s : St) :
    1 ≤ (loopFrom first step N s).1 ∧
    ((loopFrom first step N s).1 : Int) ≤ max 1 N ∧
    done N (loopFrom first step N s).1 (loopFrom first step N s).2.2 = true := by
  unfold loopFrom
  split
  · rename_i h
    refine ⟨Nat.le_refl 1, ?_, h⟩
    omega
  · rename_i h
    have hN := not_done_one h
    have hf : loopFuel N = N.toNat := by unfold loopFuel; split <;> omega
    have hk : 0 < loopFuel N - 1 := by omega
    have hb := loop_bounds step N (loopFuel N - 1) 1 (first s).2 hk
    have hd := loop_done step N (loopFuel N - 1) 1 (first s).2 hk (by omega)
    refine ⟨by omega, ?_, hd⟩
    omega

/-- `evaluate(addr, iterations, tolerance)`: the number of passes is between 1 and the requested number
    (`iterations or cycles['iterations'] or 10000`), for every workbook, state, target list and tolerance. -/
theorem C06_bounded (wb : Workbook) (cfgIter argIter : Option Int) (cfgTol argTol : Option Rat) (fuel : Nat)
    (pre targets : List Nat) (s : St) :
    1 ≤ (evaluateIter wb cfgIter argIter cfgTol argTol fuel pre targets s).1 ∧
    (1 ≤ resolveIter argIter cfgIter →
      ((evaluateIter wb cfgIter argIter cfgTol argTol fuel pre targets s).1 : Int) ≤ resolveIter argIter cfgIter) := by
  have h := C06_bounded_generic
    (passWith wb (resolveTol argTol cfgTol) fuel pre targets) (pass wb (resolveTol argTol cfgTol) fuel targets)
    (resolveIter argIter cfgIter) s
  refine ⟨h.1, fun h1 => ?_⟩
  have := h.2.1
  show ((loopFrom _ _ _ s).1 : Int) ≤ _
  omega

/-- an explicit request wins: `evaluate(addr, iterations=n)` with n ≠ 0 is bounded by n whatever the configuration -/
theorem C06_bounded_arg (n : Int) (hn : n ≠ 0) (cfg : Option Int) : resolveIter (some n) cfg = n := by
  simp [resolveIter, hn]

/-- with nothing requested and nothing configured the limit is the code's literal 10000 and the tolerance 0.01 -/
theorem C06_default_limits : resolveIter none none = 10000 ∧ resolveTol none none = 1 / 100 := by
  refine ⟨rfl, ?_⟩
  show defaultTol = 1 / 100
  exact C06_consts.2.2.2

/-! ## "if it stops earlier, no cell changed by more than the tolerance in the last pass" -/

theorem passWith_inv (wb : Workbook) (tol : Rat) (fuel : Nat) (pre targets : List Nat) (s : St) :
    Inv tol (passWith wb tol fuel pre targets s).2 := by
  unfold passWith
  have h0 : Inv tol (clear s) := by intro d hd; simp [clear] at hd
  have h1 := mapAccum_good tol _ (evalCell_good wb tol fuel) pre (clear s)
  have h2 := mapAccum_good tol _ (evalCell_good wb tol fuel) targets
    (mapAccum (evalCell wb tol fuel) pre (clear s)).2
  exact h2.2 (h1.2 h0)

/-- The code's exact rule.  If `evaluate` returns before the limit, then every cell computed in the last pass
    satisfies `close_enough(prev, tol)`: two numbers differ by AT MOST (1 + 10⁻⁵)·tolerance — a difference equal to
    the bound is accepted, the code compares with `<=` since /repo c457f68 — (the factor is `rel=0.00001` of
    `_CellBase.close_enough`, stated here, not hidden), and a non-number is unchanged. -/
theorem C06_stop_honest (wb : Workbook) (cfgIter argIter : Option Int) (cfgTol argTol : Option Rat) (fuel : Nat)
    (pre targets : List Nat) (s : St) (passes : Nat) (vals : List V) (s' : St)
    (hr : evaluateIter wb cfgIter argIter cfgTol argTol fuel pre targets s = (passes, vals, s'))
    (hearly : (passes : Int) < resolveIter argIter cfgIter) :
    ∀ d, d ∈ s'.computed →
      closeEnough (resolveTol argTol cfgTol) (s'.cell d).val (s'.cell d).prev = true ∧
      (∀ x y, (s'.cell d).val = some x → (s'.cell d).prev = some y →
        rabs (y - x) ≤ (1 + 1 / 100000) * resolveTol argTol cfgTol) := by
  intro d hd
  have hb := C06_bounded_generic
    (passWith wb (resolveTol argTol cfgTol) fuel pre targets) (pass wb (resolveTol argTol cfgTol) fuel targets)
    (resolveIter argIter cfgIter) s
  have hinv : Inv (resolveTol argTol cfgTol) (loopFrom (passWith wb (resolveTol argTol cfgTol) fuel pre targets)
      (pass wb (resolveTol argTol cfgTol) fuel targets) (resolveIter argIter cfgIter) s).2.2 := by
    unfold loopFrom
    split
    · exact passWith_inv wb _ fuel pre targets s
    · exact loop_inv _ _ _ (fun s => passWith_inv wb _ fuel [] targets s) _ _ _
        (passWith_inv wb _ fuel pre targets s)
  have hr' : loopFrom (passWith wb (resolveTol argTol cfgTol) fuel pre targets)
      (pass wb (resolveTol argTol cfgTol) fuel targets) (resolveIter argIter cfgIter) s = (passes, vals, s') := hr
  rw [hr'] at hb hinv
  have hdone := hb.2.2
  have htodo : s'.todo = [] := by
    simp only [done, Bool.or_eq_true, decide_eq_true_eq] at hdone
    rcases hdone with h | h
    · omega
    · exact List.isEmpty_iff.mp h
  have hce : closeEnough (resolveTol argTol cfgTol) (s'.cell d).val (s'.cell d).prev = true := by
    rcases (hinv d hd).2 with h | h
    · rw [htodo] at h; cases h
    · exact h
  refine ⟨hce, fun x y hx hy => ?_⟩
  rw [hx, hy] at hce
  have h1 : withinTol (rabs (y - x)) ((1 + rel) * resolveTol argTol cfgTol) = true := hce
  rw [C06_consts.1] at h1
  simp only [withinTol, C06_consts.2.1, if_true] at h1
  exact of_decide_eq_true h1

/-! ## "so for a contracting circular system the result lies within q/(1-q) x tolerance of the true fixed point" -/

/-- Pointwise form over the finitely many cells `L`: if the new values `x'` are within q·‖x − x*‖ of the fixed point
    and moved by at most τ, they are within q/(1−q)·τ of the fixed point. -/
theorem C06_fixed_point_bound_cells (L : List Nat) (x x' xs : Nat → Rat) (q t : Rat)
    (hq0 : 0 ≤ q) (hq1 : q < 1) (ht : 0 ≤ t)
    (hcontr : ∀ d, d ∈ L → rabs (x' d - xs d) ≤ q * supErr L x xs)
    (hmove : ∀ d, d ∈ L → rabs (x' d - x d) ≤ t) :
    ∀ d, d ∈ L → rabs (x' d - xs d) ≤ q / (1 - q) * t := by
  have hE0 := supErr_nonneg L x xs
  have hqE : 0 ≤ q * supErr L x xs := by
    have := Rat.mul_le_mul_of_nonneg_left hE0 hq0; simpa using this
  have hE : supErr L x xs ≤ t + q * supErr L x xs := by
    apply supErr_le _ _ _ _ (by grind)
    intro d hd
    have h1 := rabs_triangle (x d) (x' d) (xs d)
    have h2 := hmove d hd
    rw [rabs_sub_comm] at h2
    have h3 := hcontr d hd
    grind
  intro d hd
  exact Rat.le_trans (hcontr d hd) (contraction_scalar _ q t hq0 hq1 hE)

/-- Sup-norm form: for ANY pass map `T` that is a q-contraction toward `x*` in the sup norm over the finitely many
    cells `L`,  ‖T x − x‖ ≤ τ  ⇒  ‖T x − x*‖ ≤ q/(1−q)·τ. -/
theorem C06_fixed_point_bound (L : List Nat) (T : (Nat → Rat) → (Nat → Rat)) (xs : Nat → Rat) (q t : Rat)
    (hq0 : 0 ≤ q) (hq1 : q < 1) (ht : 0 ≤ t)
    (hT : ∀ x, supErr L (T x) xs ≤ q * supErr L x xs)
    (x : Nat → Rat) (hmove : supErr L (T x) x ≤ t) :
    supErr L (T x) xs ≤ q / (1 - q) * t := by
  have hpos : 0 ≤ q / (1 - q) * t := by
    have hE0 := supErr_nonneg L x xs
    have hE : supErr L x xs ≤ t + q * supErr L x xs := by
      apply supErr_le _ _ _ _ (by have := Rat.mul_le_mul_of_nonneg_left hE0 hq0; grind)
      intro d hd
      have h1 := rabs_triangle (x d) (T x d) (xs d)
      have h2 := Rat.le_trans (le_supErr L (T x) x d hd) hmove
      rw [rabs_sub_comm] at h2
      have h3 := Rat.le_trans (le_supErr L (T x) xs d hd) (hT x)
      grind
    have := contraction_scalar _ q t hq0 hq1 hE
    have h0 : 0 ≤ q * supErr L x xs := by
      have := Rat.mul_le_mul_of_nonneg_left hE0 hq0; simpa using this
    exact Rat.le_trans h0 this
  apply supErr_le _ _ _ _ hpos
  exact C06_fixed_point_bound_cells L x (T x) xs q t hq0 hq1 ht
    (fun d hd => Rat.le_trans (le_supErr L (T x) xs d hd) (hT x))
    (fun d hd => Rat.le_trans (le_supErr L (T x) x d hd) hmove)

/-- "for a contracting circular system": pycel's depth-first pass on x = A x + b with ‖A‖∞ ≤ q ≤ 1 IS such a
    contraction, for any number of cells, any topology (several interlocking cycles, cycles through ranges — a
    range is part of `reads`), any targets and any fuel: if before the pass every cell is within `E` of the fixed
    point `xs`, then after it every cell still is, and every cell computed in the pass is within `q·E`. -/
theorem C06_pass_contracts (wb : Workbook) (tol : Rat) (fuel : Nat) (pre targets : List Nat)
    (xs : Nat → Rat) (q E : Rat) (hq0 : 0 ≤ q) (hq1 : q ≤ 1) (hE : 0 ≤ E) (hlin : LinContr wb xs q)
    (s : St) (hnowip : ∀ d, (s.cell d).wip = false) (hstart : ∀ d, rabs (num (s.cell d).val - xs d) ≤ E) :
    (∀ d, rabs (num ((passWith wb tol fuel pre targets s).2.cell d).val - xs d) ≤ E) ∧
    (∀ d, d ∈ (passWith wb tol fuel pre targets s).2.computed →
      rabs (num ((passWith wb tol fuel pre targets s).2.cell d).val - xs d) ≤ q * E) := by
  have hR : ReadClosed wb (fun _ => True) := fun _ _ _ _ _ _ => trivial
  have h0 : GH (fun _ => True) xs q E (clear s) := by
    refine ⟨fun d _ => ⟨hstart d, fun hw => ?_⟩, fun d hd _ => ?_⟩
    · have := hnowip d
      have hw' : (s.cell d).wip = true := hw
      rw [this] at hw'; cases hw'
    · simp [clear] at hd
  have h1 := mapAccum_contr wb tol _ xs q E hq1 hE hlin hR fuel pre _ (fun _ _ => trivial) h0
  have h2 := mapAccum_contr wb tol _ xs q E hq1 hE hlin hR fuel targets _ (fun _ _ => trivial) h1
  exact ⟨fun d => (h2.1 d trivial).1, fun d hd => h2.2 d hd trivial⟩

/-! ### the join: stop_honest + pass_contracts + fixed_point_bound -/

theorem loop_inv_from (step : St → List V × St) (N : Int) (P : St → Prop) (hstep : ∀ s, P s → P (step s).2) :
    ∀ k i s, P s → P (loop step N k i s).2.2 := by
  intro k
  induction k with
  | zero => intro i s h; exact h
  | succ k ih =>
    intro i s h
    unfold loop
    split
    · exact hstep s h
    · exact ih (i + 1) (step s).2 (hstep s h)

/-- a state between passes of a linear system: nothing on the stack, the inputs are the fixed point's inputs -/
def Calm (wb : Workbook) (xs : Nat → Rat) (s : St) : Prop :=
  (∀ d, (s.cell d).wip = false) ∧ (∀ d, wb d = none → xs d = num (s.cell d).val)

theorem passWith_calm (wb : Workbook) (tol : Rat) (fuel : Nat) (pre targets : List Nat) (xs : Nat → Rat)
    (s : St) (hs : Calm wb xs s) : Calm wb xs (passWith wb tol fuel pre targets s).2 := by
  unfold passWith
  have e1 := (mapAccum_good tol _ (evalCell_good wb tol fuel) pre (clear s)).1
  have e2 := (mapAccum_good tol _ (evalCell_good wb tol fuel) targets
    (mapAccum (evalCell wb tol fuel) pre (clear s)).2).1
  have p0 : PV wb (clear s) (clear s) := ⟨fun d hd => by simp [clear] at hd, fun _ _ => rfl, fun _ _ => rfl⟩
  have p1 := mapAccum_pv wb (clear s) _ (evalCell_pv wb tol (clear s) fuel) pre _ p0
  have p2 := mapAccum_pv wb (clear s) _ (evalCell_pv wb tol (clear s) fuel) targets _ p1
  refine ⟨fun d => ?_, fun d hd => ?_⟩
  · rw [e2.wip d, e1.wip d]; exact hs.1 d
  · rw [p2.inp d hd]; exact hs.2 d hd

/-- one pass that scheduled nothing: every computed cell is within q/(1−q)·(1+rel)·tol of the fixed point -/
theorem pass_result_bound (wb : Workbook) (tol : Rat) (fuel : Nat) (pre targets : List Nat)
    (xs : Nat → Rat) (q : Rat) (hq0 : 0 ≤ q) (hq1 : q < 1) (htol : 0 ≤ tol) (hlin : LinContr wb xs q)
    (s0 : St) (hs0 : Calm wb xs s0)
    (htodo : (passWith wb tol fuel pre targets s0).2.todo = [])
    (hoof : (passWith wb tol fuel pre targets s0).2.oof = false) :
    ∀ d, d ∈ (passWith wb tol fuel pre targets s0).2.computed →
      rabs (num ((passWith wb tol fuel pre targets s0).2.cell d).val - xs d)
        ≤ q / (1 - q) * ((1 + 1 / 100000) * tol) := by
  have hinv := passWith_inv wb tol fuel pre targets s0
  unfold passWith at htodo hoof hinv ⊢
  have e1 := (mapAccum_good tol _ (evalCell_good wb tol fuel) pre (clear s0)).1
  have c1 := mapAccum_clo wb tol fuel (evalCell_clo wb tol fuel) pre (clear s0)
  have p0 : PV wb (clear s0) (clear s0) := ⟨fun d hd => by simp [clear] at hd, fun _ _ => rfl, fun _ _ => rfl⟩
  have p1 := mapAccum_pv wb (clear s0) _ (evalCell_pv wb tol (clear s0) fuel) pre _ p0
  generalize hsm : (mapAccum (evalCell wb tol fuel) pre (clear s0)).2 = sm at *
  have e2 := (mapAccum_good tol _ (evalCell_good wb tol fuel) targets sm).1
  have c2 := mapAccum_clo wb tol fuel (evalCell_clo wb tol fuel) targets sm
  have p2 := mapAccum_pv wb (clear s0) _ (evalCell_pv wb tol (clear s0) fuel) targets _ p1
  generalize hs' : (mapAccum (evalCell wb tol fuel) targets sm).2 = s' at *
  have hoofm : sm.oof = false := by
    cases hm : sm.oof with
    | false => rfl
    | true => rw [c2.mono hm] at hoof; cases hoof
  have hwip' : ∀ d, (s'.cell d).wip = false := fun d => by rw [e2.wip d, e1.wip d]; exact hs0.1 d
  have hclo : Clo wb s' := c2.clo (c1.clo (fun _ d hd => by simp [clear] at hd))
  -- the set the pass lives in
  let R : Nat → Prop := fun d => d ∈ s'.computed ∨ wb d = none
  have hR : ReadClosed wb R := by
    intro c f hc hf j hj
    rcases hc with hc | hc
    · rcases hclo hoof c hc f hf j hj with p | p | p
      · exact Or.inl p
      · exact Or.inr p
      · rw [hwip' j] at p; cases p
    · rw [hf] at hc; cases hc
  have hpre : ∀ c, c ∈ pre → R c := by
    intro c hc
    rcases c1.post hoofm c hc with p | p | p
    · exact Or.inl (e2.comp c p)
    · exact Or.inr p
    · have : ((clear s0).cell c).wip = false := hs0.1 c
      rw [this] at p; cases p
  have htg : ∀ c, c ∈ targets → R c := by
    intro c hc
    rcases c2.post hoof c hc with p | p | p
    · exact Or.inl p
    · exact Or.inr p
    · rw [e1.wip c] at p
      have : ((clear s0).cell c).wip = false := hs0.1 c
      rw [this] at p; cases p
  let x : Nat → Rat := fun d => num (s0.cell d).val
  let x' : Nat → Rat := fun d => num (s'.cell d).val
  have hE := supErr_nonneg s'.computed x xs
  have hq1' : q ≤ 1 := by grind
  have g0 : GH R xs q (supErr s'.computed x xs) (clear s0) := by
    refine ⟨fun d hd => ⟨?_, fun hw => ?_⟩, fun d hd _ => by simp [clear] at hd⟩
    · rcases hd with hd | hd
      · exact le_supErr s'.computed x xs d hd
      · have : num ((clear s0).cell d).val - xs d = 0 := by
          have := hs0.2 d hd
          show num (s0.cell d).val - xs d = 0
          grind
        rw [this]; simpa [rabs] using hE
    · have : ((clear s0).cell d).wip = false := hs0.1 d
      rw [this] at hw; cases hw
  have g1 := mapAccum_contr wb tol R xs q _ hq1' hE hlin hR fuel pre _ hpre g0
  rw [hsm] at g1
  have g2 := mapAccum_contr wb tol R xs q _ hq1' hE hlin hR fuel targets _ htg g1
  rw [hs'] at g2
  have hrel0 : (0 : Rat) ≤ (1 + 1 / 100000) * tol := by
    have := Rat.mul_le_mul_of_nonneg_left (show (0 : Rat) ≤ 1 + 1 / 100000 by decide +kernel) htol
    grind
  have hmove : ∀ d, d ∈ s'.computed → rabs (x' d - x d) ≤ (1 + 1 / 100000) * tol := by
    intro d hd
    have hce : closeEnough tol (s'.cell d).val (s'.cell d).prev = true := by
      rcases (hinv d hd).2 with h | h
      · rw [htodo] at h; cases h
      · exact h
    have hprev : (s'.cell d).prev = (s0.cell d).val := p2.prev d hd
    rw [hprev] at hce
    show rabs (num (s'.cell d).val - num (s0.cell d).val) ≤ _
    cases hv : (s'.cell d).val with
    | none =>
      cases hp : (s0.cell d).val with
      | none =>
        have h0 : rabs (num (none : V) - num (none : V)) = 0 := by decide +kernel
        rw [h0]; exact hrel0
      | some b => rw [hv, hp] at hce; simp [closeEnough] at hce
    | some a =>
      cases hp : (s0.cell d).val with
      | none => rw [hv, hp] at hce; simp [closeEnough] at hce
      | some b =>
        rw [hv, hp] at hce
        have h1 : withinTol (rabs (b - a)) ((1 + rel) * tol) = true := hce
        rw [C06_consts.1] at h1
        simp only [withinTol, C06_consts.2.1, if_true] at h1
        have := of_decide_eq_true h1
        rw [rabs_sub_comm] at this
        simpa [num] using this
  exact C06_fixed_point_bound_cells s'.computed x x' xs q _ hq0 hq1 hrel0
    (fun d hd => g2.2 d hd (Or.inl hd)) hmove

/-- THE JOIN.  `evaluate` on a linear system x = A x + b with ‖A‖∞ ≤ q < 1 (any number of cells, any topology incl.
    cycles through ranges), started between operations with the inputs the fixed point `xs` was computed for and a
    tolerance ≥ 0: if it stops before the iteration limit, every cell computed in the last pass — in particular
    every formula target returned — is within  q/(1−q) · (1 + 10⁻⁵) · tolerance  of the fixed point.

    `_partial`: stated under the extra hypothesis `s'.oof = false` (the depth-first evaluation never ran out of the
    model's recursion fuel).  `C06_result_bound` below discharges it from `number of formula cells ≤ fuel`. -/
theorem C06_result_bound_partial (wb : Workbook) (cfgIter argIter : Option Int) (cfgTol argTol : Option Rat)
    (fuel : Nat) (pre targets : List Nat) (xs : Nat → Rat) (q : Rat) (hq0 : 0 ≤ q) (hq1 : q < 1)
    (hlin : LinContr wb xs q) (htol : 0 ≤ resolveTol argTol cfgTol)
    (s : St) (hs : Calm wb xs s) (passes : Nat) (vals : List V) (s' : St)
    (hr : evaluateIter wb cfgIter argIter cfgTol argTol fuel pre targets s = (passes, vals, s'))
    (hearly : (passes : Int) < resolveIter argIter cfgIter)
    (hfuel : s'.oof = false) :
    ∀ d, d ∈ s'.computed →
      rabs (num (s'.cell d).val - xs d) ≤ q / (1 - q) * ((1 + 1 / 100000) * resolveTol argTol cfgTol) := by
  -- the final state is the result of one pass from a calm state
  let tol := resolveTol argTol cfgTol
  let P : St → Prop := fun t => Calm wb xs t ∧ ∃ t0 pre', Calm wb xs t0 ∧ t = (passWith wb tol fuel pre' targets t0).2
  have hstep : ∀ pre' t, Calm wb xs t → P (passWith wb tol fuel pre' targets t).2 :=
    fun pre' t ht => ⟨passWith_calm wb tol fuel pre' targets xs t ht, t, pre', ht, rfl⟩
  have hP : P (loopFrom (passWith wb tol fuel pre targets) (pass wb tol fuel targets)
      (resolveIter argIter cfgIter) s).2.2 := by
    unfold loopFrom
    split
    · exact hstep pre s hs
    · exact loop_inv_from _ _ P (fun t ht => hstep [] t ht.1) _ _ _ (hstep pre s hs)
  have hb := C06_bounded_generic (passWith wb tol fuel pre targets) (pass wb tol fuel targets)
    (resolveIter argIter cfgIter) s
  have hr' : loopFrom (passWith wb tol fuel pre targets) (pass wb tol fuel targets)
      (resolveIter argIter cfgIter) s = (passes, vals, s') := hr
  rw [hr'] at hP hb
  obtain ⟨_, t0, pre', ht0, hs'⟩ := hP
  have htodo : s'.todo = [] := by
    have hdone := hb.2.2
    simp only [done, Bool.or_eq_true, decide_eq_true_eq] at hdone
    rcases hdone with h | h
    · omega
    · exact List.isEmpty_iff.mp h
  subst hs'
  exact pass_result_bound wb tol fuel pre' targets xs q hq0 hq1 htol hlin t0 ht0 htodo hfuel

/-- THE JOIN, full strength (no out-of-fuel hypothesis): `U` lists the formula cells of the workbook and the fuel
    is at least their number (the driver uses cells + 1).  "if it stops earlier … for a contracting circular system
    the result lies within q/(1-q) x tolerance of the true fixed point" — with the code's factor (1 + rel). -/
theorem C06_result_bound (wb : Workbook) (cfgIter argIter : Option Int) (cfgTol argTol : Option Rat)
    (fuel : Nat) (pre targets : List Nat) (xs : Nat → Rat) (q : Rat) (hq0 : 0 ≤ q) (hq1 : q < 1)
    (hlin : LinContr wb xs q) (htol : 0 ≤ resolveTol argTol cfgTol)
    (U : List Nat) (hU : ∀ c f, wb c = some f → c ∈ U) (hlen : U.length ≤ fuel)
    (s : St) (hs : Calm wb xs s) (hoof : s.oof = false) (passes : Nat) (vals : List V) (s' : St)
    (hr : evaluateIter wb cfgIter argIter cfgTol argTol fuel pre targets s = (passes, vals, s'))
    (hearly : (passes : Int) < resolveIter argIter cfgIter) :
    ∀ d, d ∈ s'.computed →
      rabs (num (s'.cell d).val - xs d) ≤ q / (1 - q) * ((1 + 1 / 100000) * resolveTol argTol cfgTol) := by
  have hfuel : (loopFrom (passWith wb (resolveTol argTol cfgTol) fuel pre targets)
      (pass wb (resolveTol argTol cfgTol) fuel targets) (resolveIter argIter cfgIter) s).2.2.oof = false := by
    unfold loopFrom
    split
    · exact passWith_fuel wb _ U hU fuel hlen pre targets s hoof
    · exact loop_inv_from _ _ (fun t => t.oof = false)
        (fun t ht => passWith_fuel wb _ U hU fuel hlen [] targets t ht) _ _ _
        (passWith_fuel wb _ U hU fuel hlen pre targets s hoof)
  have hr' : loopFrom (passWith wb (resolveTol argTol cfgTol) fuel pre targets)
      (pass wb (resolveTol argTol cfgTol) fuel targets) (resolveIter argIter cfgIter) s = (passes, vals, s') := hr
  rw [hr'] at hfuel
  exact C06_result_bound_partial wb cfgIter argIter cfgTol argTol fuel pre targets xs q hq0 hq1 hlin htol s hs
    passes vals s' hr hearly hfuel

/-! ## "On a workbook without circular references it returns exactly what non-iterative evaluation returns, on first
       use and after any set_value history, including formulas that read ranges." -/

/-- a state between operations: nothing on the stack, input cells hold the current inputs -/
def Ready (wb : Workbook) (inp : Nat → V) (s : St) : Prop :=
  (∀ d, (s.cell d).wip = false) ∧ (∀ d, wb d = none → (s.cell d).val = inp d)

theorem mapAccum_acyclic (wb : Workbook) (rank : Nat → Nat) (inp : Nat → V) (tol : Rat) (hac : Acyclic wb rank)
    (fuel : Nat) : ∀ cs s, (∀ c, c ∈ cs → rank c < fuel) → (∀ d, (s.cell d).wip = false) → J wb rank inp s →
      (mapAccum (evalCell wb tol fuel) cs s).1 = cs.map (Dn wb rank inp) ∧
      (∀ d, ((mapAccum (evalCell wb tol fuel) cs s).2.cell d).wip = false) ∧
      J wb rank inp (mapAccum (evalCell wb tol fuel) cs s).2 := by
  intro cs
  induction cs with
  | nil => intro s _ hw hJ; exact ⟨rfl, hw, hJ⟩
  | cons c cs ih =>
    intro s hf hw hJ
    have h1 := evalCell_acyclic wb rank inp tol hac fuel c s (hf c (List.mem_cons_self ..))
      (fun d hd => by rw [hw d] at hd; cases hd) hJ
    have hw1 : ∀ d, ((evalCell wb tol fuel c s).2.cell d).wip = false := fun d => by
      rw [(evalCell_good wb tol fuel c s).1.wip d]; exact hw d
    have h2 := ih _ (fun c' hc' => hf c' (List.mem_cons_of_mem _ hc')) hw1 h1.2
    simp only [mapAccum, List.map_cons]
    exact ⟨by rw [h1.1, h2.1], h2.2⟩

theorem passWith_acyclic (wb : Workbook) (rank : Nat → Nat) (inp : Nat → V) (tol : Rat) (hac : Acyclic wb rank)
    (fuel : Nat) (pre targets : List Nat) (hfp : ∀ c, c ∈ pre → rank c < fuel) (hft : ∀ c, c ∈ targets → rank c < fuel)
    (s : St) (hs : Ready wb inp s) :
    (passWith wb tol fuel pre targets s).1 = targets.map (Dn wb rank inp) ∧
    Ready wb inp (passWith wb tol fuel pre targets s).2 := by
  unfold passWith
  have hJ0 : J wb rank inp (clear s) := ⟨fun d hd => by simp [clear] at hd, hs.2⟩
  have h1 := mapAccum_acyclic wb rank inp tol hac fuel pre (clear s) hfp hs.1 hJ0
  have h2 := mapAccum_acyclic wb rank inp tol hac fuel targets _ hft h1.2.1 h1.2.2
  exact ⟨h2.1, h2.2.1, h2.2.2.2⟩

/-- On an acyclic workbook (witnessed by any rank function), from ANY state between operations — whatever was
    evaluated or set before, whatever stale values the cells carry, whatever the iteration limit and tolerance —
    `evaluate` returns for each target the from-scratch value `denote` (what non-iterative evaluation returns).
    Ranges are included: a range read is the list of its cells inside `reads`. -/
theorem C06_acyclic (wb : Workbook) (rank : Nat → Nat) (inp : Nat → V) (hac : Acyclic wb rank)
    (cfgIter argIter : Option Int) (cfgTol argTol : Option Rat) (fuel : Nat) (pre targets : List Nat)
    (hfp : ∀ c, c ∈ pre → rank c < fuel) (hft : ∀ c, c ∈ targets → rank c < fuel)
    (s : St) (hs : Ready wb inp s) :
    (evaluateIter wb cfgIter argIter cfgTol argTol fuel pre targets s).2.1
        = targets.map (fun c => denote wb inp (rank c + 1) c) ∧
    Ready wb inp (evaluateIter wb cfgIter argIter cfgTol argTol fuel pre targets s).2.2 := by
  show (loopFrom _ _ _ s).2.1 = targets.map (Dn wb rank inp) ∧ Ready wb inp (loopFrom _ _ _ s).2.2
  have hfirst := passWith_acyclic wb rank inp (resolveTol argTol cfgTol) hac fuel pre targets hfp hft s hs
  unfold loopFrom
  split
  · exact hfirst
  · rename_i h
    have hN := not_done_one h
    have hf : loopFuel (resolveIter argIter cfgIter) = (resolveIter argIter cfgIter).toNat := by
      unfold loopFuel; split <;> omega
    exact loop_vals _ _ (Ready wb inp) _
      (fun s hs => passWith_acyclic wb rank inp (resolveTol argTol cfgTol) hac fuel [] targets
        (fun c hc => by cases hc) hft s hs)
      _ 1 _ (by omega) (by omega) hfirst.2

/-- the from-scratch outputs of a history: `set_value` changes an input, `evaluate` reports `denote` -/
def specOps (wb : Workbook) (rank : Nat → Nat) : List Op → (Nat → V) → List (List V)
  | [], _ => []
  | .set c v :: ops, inp => specOps wb rank ops (fun d => if d = c then v else inp d)
  | .eval _ ts _ _ :: ops, inp => ts.map (fun c => denote wb inp (rank c + 1) c) :: specOps wb rank ops inp

/-- a history is well formed when `set_value` addresses input cells and the fuel covers the evaluated cells -/
def WfOps (wb : Workbook) (rank : Nat → Nat) (fuel : Nat) : List Op → Prop
  | [] => True
  | .set c _ :: ops => wb c = none ∧ WfOps wb rank fuel ops
  | .eval pre ts _ _ :: ops => (∀ c, c ∈ pre → rank c < fuel) ∧ (∀ c, c ∈ ts → rank c < fuel) ∧ WfOps wb rank fuel ops

/-- "on first use and after any set_value history": along EVERY history of set_value / evaluate operations the
    values returned by the iterative evaluator are the from-scratch values for the inputs current at that moment. -/
theorem C06_acyclic_history (wb : Workbook) (rank : Nat → Nat) (hac : Acyclic wb rank)
    (cfgIter : Option Int) (cfgTol : Option Rat) (fuel : Nat) :
    ∀ (ops : List Op) (inp : Nat → V) (s : St), WfOps wb rank fuel ops → Ready wb inp s →
      (runOps wb cfgIter cfgTol fuel ops s).1.map (·.2) = specOps wb rank ops inp := by
  intro ops
  induction ops with
  | nil => intro inp s _ _; rfl
  | cons op ops ih =>
    intro inp s hwf hs
    cases op with
    | set c v =>
      simp only [runOps, specOps]
      apply ih _ _ hwf.2
      refine ⟨fun d => ?_, fun d hd => ?_⟩
      · by_cases hdc : d = c
        · subst hdc; simp [setInput, St.cell, get_upd_same]
        · simp only [setInput, St.cell, get_upd_ne _ _ _ _ hdc]; exact hs.1 d
      · by_cases hdc : d = c
        · subst hdc; simp [setInput, St.cell, get_upd_same]
        · simp only [setInput, St.cell, get_upd_ne _ _ _ _ hdc, hdc, if_false]; exact hs.2 d hd
    | eval pre ts ai at_ =>
      simp only [runOps, specOps, List.map_cons]
      have h := C06_acyclic wb rank inp hac cfgIter ai cfgTol at_ fuel pre ts hwf.1 hwf.2.1 s hs
      rw [h.1, ih inp _ hwf.2.2 h.2]

/-! ## non-vacuity: concrete instances of the hypotheses -/

/-- the recon system A1 = 0.5*B1 + 1, B1 = A1 (cells 0, 1): linear, contracting with q = 1, fixed point (2, 2) -/
def wbDemo : Workbook := fun c =>
  if c = 0 then some (linFormula [(1/2, 1)] 1) else if c = 1 then some (linFormula [(1, 0)] 0) else none

example : LinContr wbDemo (fun c => if c ≤ 1 then 2 else 0) 1 := by
  intro c f hf
  unfold wbDemo at hf
  split at hf
  · rename_i h; subst h
    exact ⟨[(1/2, 1)], 1, by simpa using hf.symm, by decide +kernel, by decide +kernel⟩
  · split at hf
    · rename_i h; subst h
      exact ⟨[(1, 0)], 0, by simpa using hf.symm, by decide +kernel, by decide +kernel⟩
    · cases hf

/-- first `evaluate(A1)` on the empty-valued workbook: 9 passes, 511/256, stops before the limit of 10000 -/
example : (let r := evaluateIter wbDemo none none none none 3 [] [0] (initState [])
           (r.1, r.2.1)) = (9, [some (511/256 : Rat)]) := by decide +kernel

/-- … and that run never ran out of fuel (the extra hypothesis of `C06_result_bound_partial` is satisfiable) -/
example : (evaluateIter wbDemo none none none none 3 [] [0] (initState [])).2.2.oof = false := by decide +kernel

/-- the hypotheses of `C06_result_bound` hold for that run: calm start, formula cells ⊆ [0, 1], fuel 3 ≥ 2 -/
example : Calm wbDemo (fun c => if c ≤ 1 then 2 else 0) (initState []) ∧
    (∀ c f, wbDemo c = some f → c ∈ [0, 1]) := by
  refine ⟨⟨fun _ => rfl, fun d hd => ?_⟩, fun c f hf => ?_⟩
  · have hnot : ¬ d ≤ 1 := by
      intro h
      unfold wbDemo at hd
      split at hd
      · cases hd
      · split at hd
        · cases hd
        · omega
    show (if d ≤ 1 then (2 : Rat) else 0) = num ((initState []).cell d).val
    rw [if_neg hnot]; rfl
  · unfold wbDemo at hf
    split at hf
    · rename_i h; simp [h]
    · split at hf
      · rename_i h; simp [h]
      · cases hf

/-- an acyclic workbook with a range: C = A + 1 (cell 2), D = SUM(A:C) (cell 3), inputs A, B -/
def wbAcyc : Workbook := fun c =>
  if c = 2 then some (Expr.toFormula (.bin .add (.ref 0) (.lit 1)))
  else if c = 3 then some (Expr.toFormula (.sum [0, 1, 2])) else none

example : Acyclic wbAcyc (fun c => c) := by
  intro c f hf j hj
  unfold wbAcyc at hf
  split at hf
  · rename_i h; subst h; cases hf; simp [Expr.toFormula, Expr.reads] at hj; show j < 2; omega
  · split at hf
    · rename_i h; subst h; cases hf; simp [Expr.toFormula, Expr.reads] at hj; show j < 3; omega
    · cases hf

end Pycel.Iter

/-
  C08 — trim_graph preserves the outputs as a function of the inputs.

  Model: Pycel/Model/Trim.lean (on the workbook/engine of Pycel/Model/Engine.lean).  Lemmas: Pycel/Lemmas/Trim.lean.
  Every theorem holds for EVERY workbook `wb` (any DAG in topological presentation: cells, ranges as nodes, nested
  ranges), EVERY value type `α` and formula semantics `f` reading only declared precedents, EVERY input list `I` and
  output list `O` (cells or range nodes, leaf or buried, overlapping), EVERY engine state `s` the trim is called on
  (never / partly / fully evaluated), and EVERY assignment — by induction along the topological order, never by sampling.

  Vocabulary.  `cutAt wb C`: the workbook in which the cells of `C` are value cells — how a workbook is read "as a
  function of the inputs" when an input is buried (has its own formula): assigning it overrides the formula.
  `override inp C v`: the input values `inp` with the cells of `C` assigned `v`.  An assignment is a pair `(C, v)` with
  `C ⊆ inputCells wb I` (the listed inputs and the member cells of listed ranges) — the inputs that have been written;
  an input that was never written keeps what it had at trim time.  `denote` = from-scratch value (Engine.lean).
-/
import Pycel.Lemmas.Trim
import Pycel.Lemmas.EngineInst
import Pycel.Model.TrimInst
namespace Pycel.Trim
open Pycel.Engine

variable {α : Type} {wb : Workbook} {f : Nat → (Nat → α) → α}

/-! ## the states `trim_graph` is called on -/

/-- the engine invariant of C01 plus: the cell map is closed under precedents -/
structure Ready (wb : Workbook) (f : Nat → (Nat → α) → α) (s : State α) : Prop where
  inv : Inv wb f s
  closed : BuiltClosed wb s.built

/- "in the three starting configurations": a fresh model (never evaluated) is Ready, and every history of
   set_value/evaluate keeps it Ready (partly, fully evaluated). -/
theorem C08_ready_init (inp : Nat → α) : Ready wb f (initNoData inp) :=
  ⟨initNoData_inv inp, builtClosed_init inp⟩

theorem C08_ready_run (hwf : WF wb) (hl : Local wb f) (eqv : α → α → Bool) (h : List (Op α)) :
    ∀ {s : State α}, Ready wb f s → Ready wb f (run wb f eqv s h) := by
  induction h with
  | nil => intro s hs; exact hs
  | cons op h ih =>
    intro s hs
    apply ih
    cases op with
    | set i v =>
      refine ⟨setValue_inv hwf hl eqv hs.inv i v, ?_⟩
      show BuiltClosed wb (setValue wb eqv i v s).built
      rw [setValue_built hwf hl eqv hs.inv i v]; exact hs.closed
    | eval a => exact ⟨(evaluate_spec hwf hl hs.inv a).inv, builtClosed_evaluate hwf a s hs.closed⟩

/-- a successful trim is the freeze of the state after `_gen_graph(outputs)` and the evaluation of the cells to freeze,
    and that state satisfies what the proofs need — in particular `evaluatedAtTrim` -/
theorem trim_ok (hwf : WF wb) (hl : Local wb f) {I O : List Nat} {s : State α} {t : Trimmed α}
    (hr : Ready wb f s) (h : trim wb f I O s = .ok t) :
    t = freeze wb f I O (evalFrozen wb f I O (genGraph wb f O s)) ∧
    FreezeReady wb f I O (evalFrozen wb f I O (genGraph wb f O s)) ∧
    (evalFrozen wb f I O (genGraph wb f O s)).inp = s.inp := by
  unfold trim at h
  simp only at h
  split at h
  · exact absurd h (by simp)
  · rename_i hce
    have hO : ∀ o, o ∈ O → o < wb.n := by
      intro o ho
      unfold checkErr at hce
      split at hce
      · exact absurd hce (by simp)
      · rename_i hf
        have := (List.find?_eq_none.mp hf) o ho
        simpa using this
    have g := genGraph_spec hwf hl O hO s hr.inv hr.closed
    have e := evalFrozen_spec hwf hl I O (genGraph wb f O s) g.1
    refine ⟨(Except.ok.inj h).symm, ⟨e.2.1, e.2.2.1, ?_, ?_, ?_⟩, e.1.inp.trans g.2.2.1⟩
    · rw [e.1.built]; exact g.2.1
    · intro o ho; rw [e.1.built]; exact ⟨hO o ho, g.2.2.2.2 o ho⟩
    · intro k hk; rw [e.1.built] at hk; exact e.2.2.2 k hk

/-! ## independence -/

/- "cells that feed the outputs but do not depend on an input": a cell with no input among its transitive precedents
   (`Prec`, and not an input itself) has the same value under every assignment of the inputs — whatever is written to
   the inputs (`σ` and `σ'` differ at most on input cells), buried inputs included (`cutAt`). -/
theorem C08_independent (hwf : WF wb) (hl : Local wb f) (I : List Nat) (c : Nat)
    (hc : inputCells wb I c = false) (hp : ∀ i, Prec wb i c → inputCells wb I i = false)
    (σ σ' : Nat → α) (hσ : ∀ k, inputCells wb I k = false → σ k = σ' k) :
    denote (cutAt wb (inputCells wb I)) f σ c = denote (cutAt wb (inputCells wb I)) f σ' c := by
  have hd : depOn wb (inputCells wb I) c = false := (depOn_false_iff hwf _ c).mpr hp
  rw [denote_cut_indep hwf hl _ _ (fun _ h => h) σ σ' hσ c ⟨hc, fun _ => hσ c hc⟩ hd,
    denote_cut_indep hwf hl _ _ (fun _ h => h) σ' σ' (fun _ _ => rfl) c ⟨hc, fun _ => rfl⟩ hd]

/- the executable test the model uses (`depOn`) is exactly "no input among the strict transitive precedents". -/
theorem C08_depOn_iff (hwf : WF wb) (src : Nat → Bool) (k : Nat) :
    depOn wb src k = false ↔ ∀ i, Prec wb i k → src i = false :=
  depOn_false_iff hwf src k

/- what is frozen does not depend on an input. -/
theorem C08_frozen_independent (hwf : WF wb) (hl : Local wb f) {I O : List Nat} {s : State α} {t : Trimmed α}
    (hr : Ready wb f s) (h : trim wb f I O s = .ok t) (k : Nat) (hk : t.frozen k = true) :
    ∀ i, Prec wb i k → inputCells wb I i = false := by
  obtain ⟨rfl, fr, _⟩ := trim_ok hwf hl hr h
  exact (depOn_false_iff hwf _ k).mp (frozen_indep _ I O hwf fr.closed fr.outs hk)

/-! ## frozen cells -/

/- "cells that feed the outputs but do not depend on an input are frozen to the value they had at trim time":
   a frozen cell is a value cell of the trimmed workbook, and the value it holds is the value of the cell in the
   untrimmed workbook at the inputs of trim time … -/
theorem C08_frozen_value (hwf : WF wb) (hl : Local wb f) {I O : List Nat} {s : State α} {t : Trimmed α}
    (hr : Ready wb f s) (h : trim wb f I O s = .ok t) (k : Nat) (hk : t.frozen k = true) :
    t.wb.kind k = .input ∧ t.wb.deps k = [] ∧ t.st.inp k = denote wb f s.inp k := by
  obtain ⟨rfl, fr, hinp⟩ := trim_ok hwf hl hr h
  refine ⟨cutAt_kind_of hk, cutAt_deps_of hk, ?_⟩
  rw [freeze_inp]
  have hk' : frozen wb (evalFrozen wb f I O (genGraph wb f O s)).built I O k = true := hk
  rw [hk', ← hinp]; simp only [if_true]
  exact frozenVal_eq fr hk'

/- … and it keeps that value under every later assignment of the inputs (that does not write the cell itself). -/
theorem C08_frozen_constant (hwf : WF wb) (hl : Local wb f) {I O : List Nat} {s : State α} {t : Trimmed α}
    (hr : Ready wb f s) (h : trim wb f I O s = .ok t) (C : Nat → Bool) (v : Nat → α)
    (k : Nat) (hk : t.frozen k = true) (hck : C k = false) :
    denote (cutAt t.wb C) f (override t.st.inp C v) k = denote wb f s.inp k := by
  have fv := C08_frozen_value hwf hl hr h k hk
  rw [denote_input _ (by rw [cutAt_kind_of_not hck]; exact fv.1)]
  simp only [override, hck, Bool.false_eq_true, if_false]
  exact fv.2.2

/-! ## the outputs are preserved -/

/- "After trim_graph(inputs, outputs) the model … returns for every output, under every assignment of values to the
   inputs, exactly what the untrimmed model returns":  for every set `C` of written inputs and every values `v`,
   every output `o` (indeed every cell the precedent walk descends into, `t.live`) has the same from-scratch value
   in the trimmed and in the untrimmed workbook.  `evaluatedAtTrim` is not a hypothesis: `trim` evaluates a frozen
   formula cell that has no value yet (the repaired code does; see `C08_asWritten_counterexample`). -/
theorem C08_preserves_live (hwf : WF wb) (hl : Local wb f) {I O : List Nat} {s : State α} {t : Trimmed α}
    (hr : Ready wb f s) (h : trim wb f I O s = .ok t)
    (C : Nat → Bool) (hC : ∀ k, C k = true → inputCells wb I k = true) (v : Nat → α)
    (m : Nat) (hm : t.live m = true) :
    denote (cutAt t.wb C) f (override t.st.inp C v) m = denote (cutAt wb C) f (override s.inp C v) m := by
  obtain ⟨rfl, fr, hinp⟩ := trim_ok hwf hl hr h
  rw [← hinp]
  exact freeze_preserved hwf hl fr C hC v hm

theorem C08_output_live (hwf : WF wb) (hl : Local wb f) {I O : List Nat} {s : State α} {t : Trimmed α}
    (hr : Ready wb f s) (h : trim wb f I O s = .ok t) (o : Nat) (ho : o ∈ O) : t.live o = true := by
  obtain ⟨rfl, _, _⟩ := trim_ok hwf hl hr h
  exact live_of_out _ I O hwf (List.contains_iff_mem.mpr ho)

theorem C08_preserves (hwf : WF wb) (hl : Local wb f) {I O : List Nat} {s : State α} {t : Trimmed α}
    (hr : Ready wb f s) (h : trim wb f I O s = .ok t)
    (C : Nat → Bool) (hC : ∀ k, C k = true → inputCells wb I k = true) (v : Nat → α)
    (o : Nat) (ho : o ∈ O) :
    denote (cutAt t.wb C) f (override t.st.inp C v) o = denote (cutAt wb C) f (override s.inp C v) o :=
  C08_preserves_live hwf hl hr h C hC v o (C08_output_live hwf hl hr h o ho)

/- the hypothesis the proof forces, stated on its own: the freeze of ANY state `s2` whose frozen formula cells hold
   their evaluated value (`FreezeReady.evaluated` = `evaluatedAtTrim`) preserves the outputs. -/
theorem C08_preserves_of_evaluatedAtTrim (hwf : WF wb) (hl : Local wb f) {I O : List Nat} {s2 : State α}
    (hr : FreezeReady wb f I O s2)
    (C : Nat → Bool) (hC : ∀ k, C k = true → inputCells wb I k = true) (v : Nat → α)
    (o : Nat) (ho : o ∈ O) :
    denote (cutAt (freeze wb f I O s2).wb C) f (override (freeze wb f I O s2).st.inp C v) o =
      denote (cutAt wb C) f (override s2.inp C v) o :=
  freeze_preserved hwf hl hr C hC v (live_of_out _ I O hwf (List.contains_iff_mem.mpr ho))

/-! ## the trimmed workbook is well formed -/

/- every formula that remains still finds its precedents: what remains is exactly the walked and the frozen cells; a
   child of a walked cell is walked or frozen; a walked cell stays in the cell map (ranges included); a frozen cell
   stays in the cell map and has no precedents.  (True of the repaired code; the pinned code deleted walked ranges and
   kept dependants that feed no output with dangling precedents — see Model/Trim.lean.) -/
theorem C08_wf (hwf : WF wb) (hl : Local wb f) {I O : List Nat} {s : State α} {t : Trimmed α}
    (hr : Ready wb f s) (h : trim wb f I O s = .ok t) :
    WF t.wb ∧
    (∀ k, t.live k = true → k < wb.n ∧ t.wb.deps k = wb.deps k ∧ t.wb.kind k = wb.kind k ∧
      t.keep k = true ∧
      ∀ j, j ∈ t.wb.deps k → t.live j = true ∨ t.frozen j = true) ∧
    (∀ k, t.frozen k = true → t.keep k = true ∧ t.wb.deps k = []) ∧
    (∀ k, t.keep k = true → t.live k = true ∨ t.frozen k = true) := by
  obtain ⟨rfl, fr, _⟩ := trim_ok hwf hl hr h
  refine ⟨cutAt_wf hwf _, fun k hk => ?_, fun k hk => ⟨frozen_keep _ I O hk, cutAt_deps_of hk⟩,
    fun k hk => keep_cases _ I O hk⟩
  have hnf := live_not_frozen _ I O hwf hk
  have hlt := live_lt _ I O hwf (fun o ho => (fr.outs o ho).1) hk
  refine ⟨hlt, cutAt_deps_of_not hnf, cutAt_kind_of_not hnf, ?_, fun j hj => ?_⟩
  · exact live_keep _ I O hk
  · rw [freeze_wb, cutAt_deps_of_not hnf] at hj
    exact live_step _ I O hwf hk hlt hj

/-! ## save / load -/

/- "directly and after a save/load round trip":  the workbook `from_file` rebuilds from the file `to_file` writes for
   the trimmed model (`reloadWb/reloadInp`: the cells of the cell map with their formula or constant — the C03
   contract `decodeCell (encodeCell c) = c`; ranges rebuilt over them; any other cell empty, `blank`) computes for
   every output, under every assignment, what the untrimmed workbook computes: trim commutes with save/load on the
   outputs. -/
theorem C08_persist (hwf : WF wb) (hl : Local wb f) {I O : List Nat} {s : State α} {t : Trimmed α}
    (hr : Ready wb f s) (h : trim wb f I O s = .ok t)
    (C : Nat → Bool) (hC : ∀ k, C k = true → inputCells wb I k = true) (v : Nat → α) (blank : α)
    (o : Nat) (ho : o ∈ O) :
    denote (cutAt (reloadWb wb t) C) f (override (reloadInp wb blank t) C v) o =
      denote (cutAt wb C) f (override s.inp C v) o := by
  obtain ⟨rfl, fr, hinp⟩ := trim_ok hwf hl hr h
  rw [← hinp]
  exact reload_preserved hwf hl fr C hC v blank (live_of_out _ I O hwf (List.contains_iff_mem.mpr ho))

/- … hence the reloaded and the directly trimmed model agree with each other on the outputs. -/
theorem C08_persist_commutes (hwf : WF wb) (hl : Local wb f) {I O : List Nat} {s : State α} {t : Trimmed α}
    (hr : Ready wb f s) (h : trim wb f I O s = .ok t)
    (C : Nat → Bool) (hC : ∀ k, C k = true → inputCells wb I k = true) (v : Nat → α) (blank : α)
    (o : Nat) (ho : o ∈ O) :
    denote (cutAt (reloadWb wb t) C) f (override (reloadInp wb blank t) C v) o =
      denote (cutAt t.wb C) f (override t.st.inp C v) o := by
  rw [C08_persist hwf hl hr h C hC v blank o ho, C08_preserves hwf hl hr h C hC v o ho]

/-! ## the error cases -/

/- "input not feeding any output": the trim fails exactly when an output is not a node of the workbook, or an input is
   a value cell that is in the cell map after `_gen_graph(outputs)`, has no dependant there and is not an output. -/
theorem C08_error_iff (I O : List Nat) (s : State α) :
    (∃ e, trim wb f I O s = .error e) ↔
      (∃ o, o ∈ O ∧ wb.n ≤ o) ∨ (∃ i, i ∈ I ∧ unusedInput wb (genGraph wb f O s).built O i = true) := by
  have h1 : (∃ e, trim wb f I O s = .error e) ↔ ∃ e, checkErr wb I O (genGraph wb f O s) = some e := by
    unfold trim
    simp only
    cases hce : checkErr wb I O (genGraph wb f O s) with
    | none => simp
    | some e => simp
  rw [h1]
  unfold checkErr
  cases hf : O.find? (fun o => decide (wb.n ≤ o)) with
  | some o =>
    simp only [Option.some.injEq, exists_eq']
    simp only [true_iff]
    exact Or.inl ⟨o, List.mem_of_find?_eq_some hf, by simpa using List.find?_some hf⟩
  | none =>
    cases hg : I.find? (fun i => unusedInput wb (genGraph wb f O s).built O i) with
    | some i =>
      simp only [Option.some.injEq, exists_eq']
      simp only [true_iff]
      exact Or.inr ⟨i, List.mem_of_find?_eq_some hg, List.find?_some hg⟩
    | none =>
      simp only [reduceCtorEq, exists_false, false_iff]
      rintro (⟨o, ho, hn⟩ | ⟨i, hi, hu⟩)
      · exact (List.find?_eq_none.mp hf) o ho (by simpa using hn)
      · exact (List.find?_eq_none.mp hg) i hi hu

/- ATOMICITY: "a trim that fails must leave the model unchanged".  In the model this holds by construction for the
   workbook and the formulas: `trim` returning `.error` returns no trimmed model at all — the caller keeps `wb`, `f`.
   What a rejected call has done when the ValueError is raised is step 1 only (`_gen_graph(outputs)`, the error is
   detected before step 3 drops any formula): the state it leaves is `genGraph wb f O s`.  That state has the same
   inputs, keeps the cell map and every cached value, is again Ready, and every cell evaluates to what it evaluated to
   before the call — so a later `trim` with a corrected input list starts from a model that is observationally the one
   the failed call was given, and all theorems above apply to it unchanged. -/
theorem C08_failed_trim_atomic (hwf : WF wb) (hl : Local wb f) {I O : List Nat} {s : State α} {i : Nat}
    (hr : Ready wb f s) (h : trim wb f I O s = .error (.inputUnused i)) :
    Ready wb f (genGraph wb f O s) ∧ (genGraph wb f O s).inp = s.inp ∧
    (∀ m, s.built m = true → (genGraph wb f O s).built m = true) ∧
    ∀ a, a < wb.n → (evaluate wb f a (genGraph wb f O s)).1 = (evaluate wb f a s).1 := by
  have hO : ∀ o, o ∈ O → o < wb.n := by
    intro o ho
    unfold trim at h
    simp only at h
    cases hce : checkErr wb I O (genGraph wb f O s) with
    | none => rw [hce] at h; exact absurd h (by simp)
    | some e =>
      rw [hce] at h
      have he : e = .inputUnused i := by simpa using h
      unfold checkErr at hce
      cases hf : O.find? (fun o => decide (wb.n ≤ o)) with
      | some o' => rw [hf] at hce; simp only [Option.some.injEq] at hce; rw [he] at hce; exact absurd hce (by simp)
      | none =>
        have := (List.find?_eq_none.mp hf) o ho
        simpa using this
  have g := genGraph_spec hwf hl O hO s hr.inv hr.closed
  refine ⟨⟨g.1, g.2.1⟩, g.2.2.1, g.2.2.2.1, fun a ha => ?_⟩
  rw [(evaluate_spec hwf hl g.1 a).val ha, (evaluate_spec hwf hl hr.inv a).val ha, g.2.2.1]

/-! ## the trimmed model as an engine state: any later history -/

/- the trimmed state satisfies the invariant of C01 for the trimmed workbook, so `C01_coherence` applies to every
   later set_value/evaluate history on it … -/
theorem C08_trim_inv (hwf : WF wb) (hl : Local wb f) {I O : List Nat} {s : State α} {t : Trimmed α}
    (hr : Ready wb f s) (h : trim wb f I O s = .ok t) :
    WF t.wb ∧ Local t.wb t.f ∧ Inv t.wb t.f t.st := by
  obtain ⟨rfl, fr, _⟩ := trim_ok hwf hl hr h
  generalize hs2 : evalFrozen wb f I O (genGraph wb f O s) = s2 at fr
  refine ⟨cutAt_wf hwf _, ?_, ?_, ?_, Or.inl fun _ => rfl⟩
  · intro i e e' hh
    cases hfi : frozen wb s2.built I O i with
    | true =>
      show (if frozen wb s2.built I O i = true then _ else f i e) = (if frozen wb s2.built I O i = true then _ else f i e')
      rw [hfi]; simp
    | false =>
      show (if frozen wb s2.built I O i = true then _ else f i e) = (if frozen wb s2.built I O i = true then _ else f i e')
      rw [hfi]; simp only [Bool.false_eq_true, if_false]
      rw [freeze_wb, cutAt_deps_of_not hfi] at hh
      exact hl i e e' hh
  · intro m w hmw
    rw [freeze_denote_all hwf hl fr m]
    have hmw' : (if live wb s2.built I O m = true then s2.cache m else none) = some w := hmw
    split at hmw'
    · exact fr.i1 m w hmw'
    · exact absurd hmw' (by simp)
  · intro m hm
    have hm' : (if live wb s2.built I O m = true then s2.cache m else none) ≠ none := hm
    split at hm'
    · rename_i hlv
      have hnf := live_not_frozen _ I O hwf hlv
      obtain ⟨a, b, c⟩ := fr.cl m hm'
      refine ⟨by rw [freeze_wb, cutAt_kind_of_not hnf]; exact a, b, fun j hj => ?_⟩
      rw [freeze_wb, cutAt_deps_of_not hnf] at hj
      rcases live_step _ I O hwf hlv b hj with hlj | hfj
      · rcases c j hj with hkj | hcj
        · left; rw [freeze_wb, cutAt_kind_of_not (live_not_frozen _ I O hwf hlj)]; exact hkj
        · right
          show (if live wb s2.built I O j = true then s2.cache j else none) ≠ none
          rw [if_pos hlj]; exact hcj
      · left; rw [freeze_wb]; exact cutAt_kind_of hfj
    · exact absurd rfl hm'

/-! ## trimming an already trimmed model -/

/- `trim → trim again`: a trimmed model is again Ready for its own workbook `t.wb` and semantics `t.f` (its cell map
   is closed under precedents by `C08_wf`, the engine invariant holds by `C08_trim_inv`) and stays so under any later
   history (`C08_ready_run`); hence every theorem of this file applies to a second `trim t.wb t.f I' O' t.st'` with
   the once-trimmed model in the role of the untrimmed one — for the same, a smaller or a larger input/output list. -/
theorem C08_retrim_ready (hwf : WF wb) (hl : Local wb f) {I O : List Nat} {s : State α} {t : Trimmed α}
    (hr : Ready wb f s) (h : trim wb f I O s = .ok t) :
    WF t.wb ∧ Local t.wb t.f ∧ Ready t.wb t.f t.st := by
  obtain ⟨hwf', hl', hinv'⟩ := C08_trim_inv hwf hl hr h
  have wf := C08_wf hwf hl hr h
  refine ⟨hwf', hl', hinv', ?_⟩
  obtain ⟨rfl, _, _⟩ := trim_ok hwf hl hr h
  intro m hm j hj
  rcases wf.2.2.2 m hm with hlv | hfz
  · rcases (wf.2.1 m hlv).2.2.2.2 j hj with hlj | hfj
    · exact (wf.2.1 j hlj).2.2.2.1
    · exact (wf.2.2.1 j hfj).1
  · rw [(wf.2.2.1 m hfz).2] at hj; simp at hj

/- the second trim preserves the outputs of the once-trimmed model (instance of `C08_preserves`). -/
theorem C08_retrim_preserves (hwf : WF wb) (hl : Local wb f) (eqv : α → α → Bool) {I O I' O' : List Nat}
    {s : State α} {t t' : Trimmed α} (hr : Ready wb f s) (h : trim wb f I O s = .ok t) (hist : List (Op α))
    (h' : trim t.wb t.f I' O' (run t.wb t.f eqv t.st hist) = .ok t')
    (C : Nat → Bool) (hC : ∀ k, C k = true → inputCells t.wb I' k = true) (v : Nat → α) (o : Nat) (ho : o ∈ O') :
    denote (cutAt t'.wb C) t.f (override t'.st.inp C v) o =
      denote (cutAt t.wb C) t.f (override (run t.wb t.f eqv t.st hist).inp C v) o := by
  obtain ⟨hwf', hl', hr'⟩ := C08_retrim_ready hwf hl hr h
  exact C08_preserves hwf' hl' (C08_ready_run hwf' hl' eqv hist hr') h' C hC v o ho

theorem setValue_inp_other (hwf : WF wb) (hl : Local wb f) (eqv : α → α → Bool) {s : State α} (hinv : Inv wb f s)
    (i : Nat) (v : α) (k : Nat) (h : k ≠ i ∨ wb.kind i ≠ .input) : (setValue wb eqv i v s).inp k = s.inp k := by
  unfold setValue
  split
  · rename_i hc
    split
    · rfl
    · have h2 := congrFun (setWalk_spec hwf hl hinv i v).2.1 k
      rw [h2]
      rcases h with h | h
      · exact update_ne _ _ h
      · exact absurd hc.2.1 h
  · rfl

/-- a history that writes only cells of `T` leaves every other cell — and every formula or range node — as it was -/
theorem run_inp_outside (hwf : WF wb) (hl : Local wb f) (eqv : α → α → Bool) (T : Nat → Bool) :
    ∀ (h : List (Op α)) {s : State α}, Inv wb f s → (∀ i v, Op.set i v ∈ h → T i = true) →
      ∀ k, (T k = false ∨ wb.kind k ≠ .input) → (run wb f eqv s h).inp k = s.inp k := by
  intro h
  induction h with
  | nil => intro s _ _ k _; rfl
  | cons op h ih =>
    intro s hinv hT k hk
    have hrun : run wb f eqv s (op :: h) = run wb f eqv (step wb f eqv s op) h := by simp [run]
    rw [hrun, ih (step_inv hwf hl eqv hinv op) (fun i v hm => hT i v (by simp [hm])) k hk]
    cases op with
    | set i v =>
      show (setValue wb eqv i v s).inp k = s.inp k
      apply setValue_inp_other hwf hl eqv hinv
      by_cases hki : k = i
      · right
        rcases hk with hk | hk
        · have := hT i v (by simp); rw [← hki, hk] at this; exact absurd this (by simp)
        · rw [← hki]; exact hk
      · exact Or.inl hki
    | eval a => exact congrFun (evaluate_spec hwf hl hinv a).inp k

/- … so, after ANY history of writes to the inputs (and evaluations of anything), `evaluate(o)` on the trimmed model
   returns what the untrimmed workbook computes from scratch when the inputs the trimmed model holds as value cells
   (`C`: leaf inputs and frozen buried inputs) carry the values written so far: "under every assignment and
   re-assignment of the inputs".  (An input that still has its formula in the trimmed model — it depends on another
   input — is a formula cell in both models; writing over a formula cell is outside the engine model of C01.) -/
theorem C08_trimmed_engine (hwf : WF wb) (hl : Local wb f) (eqv : α → α → Bool) {I O : List Nat} {s : State α}
    {t : Trimmed α} (hr : Ready wb f s) (htrim : trim wb f I O s = .ok t)
    (h : List (Op α)) (hh : ∀ i v, Op.set i v ∈ h → inputCells wb I i = true) (o : Nat) (ho : o ∈ O) :
    (evaluate t.wb t.f o (run t.wb t.f eqv t.st h)).1 =
      denote (cutAt wb (fun k => inputCells wb I k && decide (t.wb.kind k = .input))) f
        (override s.inp (fun k => inputCells wb I k && decide (t.wb.kind k = .input))
          (run t.wb t.f eqv t.st h).inp) o := by
  obtain ⟨hwf', hl', hinv'⟩ := C08_trim_inv hwf hl hr htrim
  have hlive := C08_output_live hwf hl hr htrim o ho
  have hon : o < t.wb.n := by
    have := ((C08_wf hwf hl hr htrim).2.1 o hlive).1
    obtain ⟨rfl, _, _⟩ := trim_ok hwf hl hr htrim
    exact this
  rw [(evaluate_spec hwf' hl' (run_inv hwf' hl' eqv h hinv') o).val hon]
  generalize hC : (fun k => inputCells wb I k && decide (t.wb.kind k = .input)) = C
  have hCin : ∀ k, C k = true → inputCells wb I k = true := by
    intro k hk; subst hC; simp only [Bool.and_eq_true] at hk; exact hk.1
  have hCkind : ∀ k, C k = true → t.wb.kind k = .input := by
    intro k hk; subst hC; simp only [Bool.and_eq_true, decide_eq_true_eq] at hk; exact hk.2
  have hinp : (run t.wb t.f eqv t.st h).inp = override t.st.inp C (run t.wb t.f eqv t.st h).inp := by
    funext k
    cases hck : C k with
    | true => simp [override, hck]
    | false =>
      simp only [override, hck, Bool.false_eq_true, if_false]
      apply run_inp_outside hwf' hl' eqv (inputCells wb I) h hinv' hh
      subst hC
      cases hic : inputCells wb I k with
      | false => exact Or.inl rfl
      | true => right; simpa [hic] using hck
  rw [← C08_preserves hwf hl hr htrim C hCin (run t.wb t.f eqv t.st h).inp o ho,
    cutAt_inputs hwf' C hCkind, ← hinp]
  obtain ⟨rfl, _, _⟩ := trim_ok hwf hl hr htrim
  apply denote_f_congr hwf' (localN_cut hl _)
  intro i hki
  funext env
  cases hfi : frozen wb (evalFrozen wb f I O (genGraph wb f O s)).built I O i with
  | true => exact absurd (cutAt_kind_of hfi) hki
  | false =>
    show (if frozen wb (evalFrozen wb f I O (genGraph wb f O s)).built I O i = true then _ else f i env) = f i env
    rw [hfi]; simp

/-! ## the instance the correspondence driver runs, non-vacuity, and the forced hypotheses -/

section Inst
open Pycel.EngineInst

/- the driver's model (concrete formula language of EngineInst.lean) is an instance of the theorems above, for every
   workbook description that passes the run-time check `wfCheck` (the driver refuses any other). -/
theorem C08_preserves_inst (specs : List Spec) (hwf : wfCheck specs = true) {I O : List Nat} {s : State EV}
    {t : Trimmed EV} (hr : Ready (mkWb specs) (sem specs) s) (h : trim (mkWb specs) (sem specs) I O s = .ok t)
    (C : Nat → Bool) (hC : ∀ k, C k = true → inputCells (mkWb specs) I k = true) (v : Nat → EV)
    (o : Nat) (ho : o ∈ O) :
    denote (cutAt t.wb C) (sem specs) (override t.st.inp C v) o =
      denote (cutAt (mkWb specs) C) (sem specs) (override s.inp C v) o :=
  C08_preserves (wf_of_check specs hwf) (sem_local specs) hr h C hC v o ho

open Pycel.TrimInst in
/- the driver extends that language by four one-precedent formulas with a constant (Model/TrimInst.lean: `/c`, `>c`,
   `=c`, `IF(>c)`) for the float-valued workbooks; the extended semantics still reads only declared precedents, so
   every theorem above applies to exactly what the driver runs. -/
theorem semOv_local (specs : List Spec) (ov : Nat → Option Ov) : Local (mkWb specs) (semOv specs ov) := by
  intro i e e' h
  have hbase := sem_local specs i e e' h
  unfold semOv
  cases hov : ov i with
  | none => exact hbase
  | some k =>
    cases hs : specs[i]? with
    | none => exact hbase
    | some sp =>
      cases sp with
      | inp v => exact hbase
      | rng rows => exact hbase
      | fml fm =>
        cases fm with
        | ref j =>
          have : e j = e' j := h j (by simp [mkWb, hs, Spec.deps, Fml.refs])
          simp only [this]
        | _ => exact hbase

open Pycel.TrimInst in
theorem C08_preserves_drv (specs : List Spec) (ov : Nat → Option Ov) (hwf : wfCheck specs = true) {I O : List Nat}
    {s : State EV} {t : Trimmed EV} (hr : Ready (mkWb specs) (semOv specs ov) s)
    (h : trim (mkWb specs) (semOv specs ov) I O s = .ok t)
    (C : Nat → Bool) (hC : ∀ k, C k = true → inputCells (mkWb specs) I k = true) (v : Nat → EV)
    (o : Nat) (ho : o ∈ O) :
    denote (cutAt t.wb C) (semOv specs ov) (override t.st.inp C v) o =
      denote (cutAt (mkWb specs) C) (semOv specs ov) (override s.inp C v) o :=
  C08_preserves (wf_of_check specs hwf) (semOv_local specs ov) hr h C hC v o ho

/-- what the trimmed model returns for node `o` (none = the trim raised) -/
def trimmedValue (r : Except TrimErr (Trimmed EV)) (o : Nat) : Option EV :=
  match r with
  | .ok t => some (evaluate t.wb t.f o t.st).1
  | .error _ => none

def trimmedKeep (r : Except TrimErr (Trimmed EV)) (n : Nat) : Option (List Nat) :=
  match r with
  | .ok t => some ((List.range n).filter t.keep)
  | .error _ => none

def trimmedFrozen (r : Except TrimErr (Trimmed EV)) (n : Nat) : Option (List Nat) :=
  match r with
  | .ok t => some ((List.range n).filter t.frozen)
  | .error _ => none

/-- A1 = 5, B1 = 4, B2 = B1+B1, C1 = A1+B2 (recon witness; pycel: `=B1*5`) -/
def recon : List Spec := [.inp (.num 5), .inp (.num 4), .fml (.add 1 1), .fml (.add 0 2)]

/- `evaluatedAtTrim` can fail in the pinned code: trimming the never-evaluated model freezes B2 at `None`, and C1
   evaluates to 5 instead of 13 (pycel: 5 instead of 25) … -/
theorem C08_asWritten_counterexample :
    trimmedFrozen (trimAsWritten (mkWb recon) (sem recon) [0] [3] (initNoData (inputsOf recon))) 4 = some [0, 2] ∧
    trimmedValue (trimAsWritten (mkWb recon) (sem recon) [0] [3] (initNoData (inputsOf recon))) 3 =
      some (.sc (.num 5)) ∧
    denote (mkWb recon) (sem recon) (inputsOf recon) 3 = .sc (.num 13) := by
  decide +kernel

/- … the hypothesis is exactly what fails there: the frozen formula cell B2 holds no value when it is frozen. -/
theorem C08_asWritten_not_evaluatedAtTrim :
    ¬ FreezeReady (mkWb recon) (sem recon) [0] [3] (genGraph (mkWb recon) (sem recon) [3] (initNoData (inputsOf recon))) := by
  intro h
  exact h.evaluated 2 (by decide +kernel) (by decide +kernel) (by decide +kernel)

/- … while `trim` (which evaluates a cell before freezing it) returns the right value, also after A1 := 7. -/
example :
    trimmedValue (trim (mkWb recon) (sem recon) [0] [3] (initNoData (inputsOf recon))) 3 = some (.sc (.num 13)) ∧
    trimmedKeep (trim (mkWb recon) (sem recon) [0] [3] (initNoData (inputsOf recon))) 4 = some [0, 2, 3] := by
  decide +kernel

example :
    (match trim (mkWb recon) (sem recon) [0] [3] (initNoData (inputsOf recon)) with
      | .ok t => some (evaluate t.wb t.f 3 (setValue t.wb typedEq 0 (.sc (.num 7)) t.st)).1
      | .error _ => none) = some (.sc (.num 15)) := by
  decide +kernel

/-- A1 = 1, W1 = 2, X1 = A1+W1, B1 = A1+A1 -/
def dangling : List Spec := [.inp (.num 1), .inp (.num 2), .fml (.add 0 1), .fml (.add 0 0)]

/- a dependant of an input that feeds no output (X1, evaluated before the trim) is deleted together with its other
   precedent W1 (the pinned code kept X1 with its formula and deleted W1). -/
example :
    trimmedKeep (trim (mkWb dangling) (sem dangling) [0] [3]
        (evaluate (mkWb dangling) (sem dangling) 2 (initNoData (inputsOf dangling))).2) 4 = some [0, 3] := by
  decide +kernel

/-- A1 = 1, A2 = 2, range A1:A2, B1 = A1+A1 (reads a member directly), C1 = SUM(A1:A2, B1); Z1 = 3, Z2 = Z1+Z1
    (buried input), D1 = C1 + Z2 -/
def demo : List Spec :=
  [.inp (.num 1), .inp (.num 2), .rng [[0], [1]], .fml (.add 0 0), .fml (.sum [2, 3]),
   .inp (.num 3), .fml (.add 5 5), .fml (.add 4 6)]

/- non-vacuity: the hypotheses are satisfiable, the trim succeeds on a workbook with a range input and a buried input,
   a cell that reads a member of the input range directly is NOT frozen, the buried input is. -/
example : wfCheck demo = true := by decide
example : Ready (mkWb demo) (sem demo) (initNoData (inputsOf demo)) := C08_ready_init _
example :
    trimmedKeep (trim (mkWb demo) (sem demo) [2, 6] [7] (initNoData (inputsOf demo))) 8 = some [0, 1, 2, 3, 4, 6, 7] ∧
    trimmedFrozen (trim (mkWb demo) (sem demo) [2, 6] [7] (initNoData (inputsOf demo))) 8 = some [0, 1, 6] ∧
    trimmedValue (trim (mkWb demo) (sem demo) [2, 6] [7] (initNoData (inputsOf demo))) 7 = some (.sc (.num 11)) := by
  decide +kernel

/- the error case: an evaluated, unconnected value cell given as input (Z1 of `recon` extended) -/
example :
    trim (mkWb (recon ++ [.inp (.num 9)])) (sem (recon ++ [.inp (.num 9)])) [4] [3]
      (evaluate (mkWb (recon ++ [.inp (.num 9)])) (sem (recon ++ [.inp (.num 9)])) 4
        (initNoData (inputsOf (recon ++ [.inp (.num 9)])))).2 matches .error (.inputUnused 4) := by
  decide +kernel

end Inst

end Pycel.Trim

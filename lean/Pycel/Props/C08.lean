/- C08: property theorems (not built yet). -/

/-
  C15 — conditional aggregation: executable model.

  Anchors (/repo/src/pycel):
    excelutil.py  criteria_parser          -> `splitOp`, `parseText`, `criteriaParser`, `Crit`, `sat`
    excelutil.py  build_wildcard_re        -> `Tok`, `parsePat`, `matchPat`   (STRUCTURAL matcher, not a regex)
    excelutil.py  find_corresponding_index -> `pos`, `cell`, `findIdx`
    excelutil.py  handle_ifs               -> `size`, `keysOf`, `handleIfs`   (Counter over the chained index lists)
    lib/stats.py  countif countifs averageif averageifs maxifs minifs ; excellib.py  sumif sumifs, _numerics

  Model policy.  PROPERTY-DRIVEN points (the statement of C15 fixes them; the model follows the statement):
    * a numeric criterion (`3`, "3", "=3", "<>3", "<3", …) compares NUMBERS numerically; a cell that is not a number
      (text — numeric text included —, logical, blank, error value) satisfies it iff the operator is `<>`
      ("text never satisfies <,>; always satisfies <>"; with the partition law this also decides `=`);
    * a text criterion with `=`/`<>`/no operator is a case-insensitive WILDCARD match (`?` one character, `*` any
      sequence, `~x` the character x) against text cells, `<>` being its exact complement; a number or logical never
      matches a text pattern; no cell of any type makes a criterion fail;
    * an error value in a selected cell of the sum/average/max/min range is the RESULT (an Excel error value), never
      an exception.
  Everything else follows the code: blank cells against text criteria (`(not value) != (op == ne)`), text `< <= > >=`
  as code-point order of the lower-cased texts, error values in a criteria range behaving as their text, logicals in the
  aggregated range counting as 1/0 (`keep_bools=True`), MAXIFS/MINIFS of nothing = 0 and swallowing ValueError,
  the size checks looking at `(len(a), len(a[0]))`, the Counter-based index intersection.

  Numeric text is read with `Ops.parseNum?` (C10's model of `is_number`/`coerce_to_number` on text) behind `readNum?`;
  case mapping is `Ops.lower` (ASCII + Latin-1).  All theorems treat both as opaque functions.
-/
import Pycel.Model.Value
import Pycel.Model.Ops
namespace Pycel.Criteria
open Pycel

/-! ## criteria -/

/-- the six comparison operators of `excelutil.OPERATORS` -/
inductive Op where
  | eq | ne | lt | le | gt | ge
  deriving DecidableEq, Repr, Inhabited

/-- name of the `operator` module function the code maps the prefix to -/
def Op.pyName : Op → String
  | .eq => "eq" | .ne => "ne" | .lt => "lt" | .le => "le" | .gt => "gt" | .ge => "ge"

def Op.ofPyName? : String → Option Op
  | "eq" => some .eq | "ne" => some .ne | "lt" => some .lt | "le" => some .le | "gt" => some .gt | "ge" => some .ge
  | _ => none

/-- `OPERATORS_RE = '^(?P<oper>(=|<>|<=?|>=?))?(?P<value>.*)$'` followed by `OPERATORS[oper or '']` -/
def splitOp : List Char → Op × List Char
  | '=' :: r => (.eq, r)
  | '<' :: '>' :: r => (.ne, r)
  | '<' :: '=' :: r => (.le, r)
  | '<' :: r => (.lt, r)
  | '>' :: '=' :: r => (.ge, r)
  | '>' :: r => (.gt, r)
  | r => (.eq, r)

def Op.cmpRat : Op → Rat → Rat → Bool
  | .eq, x, q => x == q
  | .ne, x, q => x != q
  | .lt, x, q => decide (x < q)
  | .le, x, q => decide (x ≤ q)
  | .gt, x, q => decide (q < x)
  | .ge, x, q => decide (q ≤ x)

/-- Python `op(a, b)` on two `str` (code-point order) -/
def Op.cmpStr : Op → List Char → List Char → Bool
  | .eq, s, v => s == v
  | .ne, s, v => s != v
  | .lt, s, v => Ops.strLt s v
  | .le, s, v => !(Ops.strLt v s)
  | .gt, s, v => Ops.strLt v s
  | .ge, s, v => !(Ops.strLt s v)

/-! ## wildcard patterns (build_wildcard_re) -/

/-- one element of a wildcard pattern -/
inductive Tok where
  | lit (c : Char)     -- this character
  | one                -- `?`  any one character
  | star               -- `*`  any sequence of characters
  deriving DecidableEq, Repr, Inhabited

/-- pattern text → tokens: `~x` is the literal x (a trailing lone `~` is itself), `?` and `*` are wildcards -/
def parsePat : List Char → List Tok
  | [] => []
  | c :: r =>
    if c = '~' then
      match r with
      | [] => [.lit '~']
      | d :: r' => .lit d :: parsePat r'
    else if c = '?' then .one :: parsePat r
    else if c = '*' then .star :: parsePat r
    else .lit c :: parsePat r

/-- `f` holds of some suffix of `s` -/
def anySuffix (f : List Char → Bool) : List Char → Bool
  | [] => f []
  | c :: s => f (c :: s) || anySuffix f s

/-- structural matcher: does the whole text `s` match the pattern? -/
def matchPat : List Tok → List Char → Bool
  | [], s => s.isEmpty
  | .lit c :: p, s => match s with
    | [] => false
    | x :: s' => x == c && matchPat p s'
  | .one :: p, s => match s with
    | [] => false
    | _ :: s' => matchPat p s'
  | .star :: p, s => anySuffix (matchPat p) s

/-- does the value text use wildcard syntax at all (the code returns `None` from build_wildcard_re otherwise) -/
def hasWild (v : List Char) : Bool := v.any fun c => c = '?' || c = '*' || c = '~'

/-! ## parsed criteria and the satisfaction relation -/

/-- a parsed criterion (what `criteria_parser` closes over) -/
inductive Crit where
  /-- numeric criterion `op q` (a bare number, numeric text and "=number" are `eq`) -/
  | num (op : Op) (q : Rat)
  /-- logical criterion (outside the property's grammar) -/
  | boolEq (b : Bool)
  /-- text criterion with `=` (neg = false) or `<>` (neg = true): wildcard pattern over the lower-cased value;
      `emptyVal` records that the value text is empty (decides blank cells) -/
  | pat (neg : Bool) (p : List Tok) (emptyVal : Bool)
  /-- text criterion with `<`, `<=`, `>`, `>=` against the lower-cased value -/
  | ord (op : Op) (v : List Char)
  deriving Repr, Inhabited

/-- the text a cell offers to a text criterion: text itself; an error value is its code (a `str` in pycel) -/
def textOf? : Val → Option (List Char)
  | .str s => some s
  | .err e => some (Ops.errText e)
  | _ => none

/-- does cell value `v` satisfy criterion `c`  (the closure `check(x)` built by criteria_parser) -/
def sat : Crit → Val → Bool
  | .num op q, .num x => op.cmpRat x q
  | .num op _, _ => op == .ne
  | .boolEq b, .bool x => x == b
  | .boolEq _, _ => false
  | .pat neg p e, v =>
    match textOf? v with
    | some s => neg != matchPat p (Ops.lower s)
    | none => match v with
      | .blank => neg != e
      | _ => neg
  | .ord op val, v =>
    match textOf? v with
    | some s => op.cmpStr (Ops.lower s) val
    | none => match v with
      | .blank => val.isEmpty
      | _ => false

/-- `is_number(text)` / `coerce_to_number(text)`: C10's reader of numeric text.  No numeric text begins with an
    operator character; saying so here keeps the theorems below independent of the reader's grammar. -/
def readNum? : List Char → Option Rat
  | '=' :: _ => none
  | '<' :: _ => none
  | '>' :: _ => none
  | s => Ops.parseNum? s

/-- `criteria_parser` on a text criterion already split into operator `op` and value text `v` -/
def parseTextOp (op : Op) (v : List Char) : Crit :=
  match readNum? v with
  | some q => .num op q
  | none =>
    let lv := Ops.lower v
    match op with
    | .eq => .pat false (parsePat lv) lv.isEmpty
    | .ne => .pat true (parsePat lv) lv.isEmpty
    | op => .ord op lv

/-- `criteria_parser` on a criterion that is a `str` -/
def parseText (s : List Char) : Crit :=
  match readNum? s with
  | some q => .num .eq q
  | none => parseTextOp (splitOp s).1 (splitOp s).2

/-- `criteria_parser(criteria)`; `none` = the code raises ValueError ("Couldn't parse criteria": a blank) -/
def criteriaParser : Val → Option Crit
  | .num q => some (.num .eq q)
  | .bool b => some (.boolEq b)
  | .str s => some (parseText s)
  | .err e => some (parseText (Ops.errText e))
  | .blank => none

/-! ## ranges, positions, find_corresponding_index -/

abbrev Idx := Nat × Nat

/-- `rng[r][c]` (blank outside; never reached on rectangular ranges of the checked size) -/
def cell (a : Arr) (p : Idx) : Val := ((a[p.1]?).getD [])[p.2]?.getD .blank

def rowPos (r n : Nat) : List Idx := (List.range n).map fun c => (r, c)

def posFrom : Nat → Arr → List Idx
  | _, [] => []
  | r, row :: rest => rowPos r row.length ++ posFrom (r + 1) rest

/-- all positions of a range, row-major (`for r, row in enumerate(rng) for c, item in enumerate(row)`) -/
def pos (a : Arr) : List Idx := posFrom 0 a

/-- the `r × c` grid, row-major -/
def grid (r c : Nat) : List Idx := (List.range r).flatMap fun i => rowPos i c

/-- `find_corresponding_index(rng, criteria)` for a parsed criterion -/
def findIdx (a : Arr) (c : Crit) : List Idx := (pos a).filter fun p => sat c (cell a p)

/-- `(len(a), len(a[0]))` -/
def size (a : Arr) : Nat × Nat := (a.length, (a.headD []).length)

/-- every row as long as the first (what an Excel range always is) -/
def IsRect (a : Arr) : Prop := ∀ row ∈ a, row.length = (a.headD []).length

/-! ## handle_ifs -/

/-- outcome of a model function: a value, or the exception class the code raises -/
inductive Out (α : Type) where
  | ok (x : α)
  | error (e : Err)          -- an Excel error value is returned
  | raise (kind : String)    -- the code raises
  deriving Repr, Inhabited, DecidableEq

/-- keys of `collections.Counter(chain)` in insertion order -/
def keysOf (xs : List Idx) : List Idx :=
  xs.foldl (fun acc x => if x ∈ acc then acc else acc ++ [x]) []

/-- parse every criterion (done lazily by the code inside the Counter construction, i.e. after the size checks) -/
def parseAll : List (Arr × Val) → Option (List (Arr × Crit))
  | [] => some []
  | (a, v) :: rest =>
    match criteriaParser v, parseAll rest with
    | some c, some r => some ((a, c) :: r)
    | _, _ => none

/-- the index intersection of handle_ifs on parsed pairs: count how many pairs select each index and keep those
    selected by all -/
def intersect (pairs : List (Arr × Crit)) : List Idx :=
  let chain := pairs.flatMap fun ac => findIdx ac.1 ac.2
  (keysOf chain).filter fun p => chain.count p == pairs.length

/-- `handle_ifs(args, op_range)` with `args` given as (range, criterion) pairs -/
def handleIfs (args : List (Arr × Val)) (opRange : Option Arr) : Out (List Idx) :=
  match args with
  | [] => .raise "AssertionError"
  | (a0, _) :: _ =>
    if !(args.all fun av => size av.1 == size a0) then .error .value else
    if !(match opRange with
         | none => true
         | some o => args.all fun av => size o == size av.1) then .error .value else
    match parseAll args with
    | none => .raise "ValueError"
    | some pairs => .ok (intersect pairs)

/-! ## consumers -/

/-- value of a cell that `_numerics(..., keep_bools=True)` keeps: numbers, and logicals as 1/0 -/
def numOf? : Val → Option Rat
  | .num q => some q
  | .bool b => some (if b then 1 else 0)
  | _ => none

def errOf? : Val → Option Err
  | .err e => some e
  | _ => none

def firstErr (cs : List Val) : Option Err := (cs.filterMap errOf?).head?

/-- the cells `_numerics(..., keep_bools=True)` keeps, as cells (MAX/MIN return the cell itself) -/
def kept (cs : List Val) : List Val := cs.filter fun v => (numOf? v).isSome

def valNum (v : Val) : Rat := (numOf? v).getD 0

def rsum : List Rat → Rat
  | [] => 0
  | x :: xs => x + rsum xs

/-- Python `max(data)`: the first maximal element -/
def pyMax : Val → List Val → Val
  | m, [] => m
  | m, x :: xs => pyMax (if valNum m < valNum x then x else m) xs

/-- Python `min(data)`: the first minimal element -/
def pyMin : Val → List Val → Val
  | m, [] => m
  | m, x :: xs => pyMin (if valNum x < valNum m then x else m) xs

/-- a range argument: `r if list_like(r) else ((r,),)` is done by the driver (a scalar is a 1×1 range) -/
def selected (rng : Arr) (coords : List Idx) : List Val := coords.map (cell rng)

/-- COUNTIF(rng, criteria) -/
def countif (rng : Arr) (crit : Val) : Out Val :=
  match criteriaParser crit with
  | none => .raise "ValueError"
  | some c => .ok (.num ((findIdx rng c).length : Nat))

/-- COUNTIFS(rng1, crit1, …) -/
def countifs (args : List (Arr × Val)) : Out Val :=
  match handleIfs args none with
  | .ok coords => .ok (.num (coords.length : Nat))
  | .error e => .ok (.err e)
  | .raise k => .raise k

/-- the common tail of SUMIFS / AVERAGEIFS / MAXIFS / MINIFS: an error value among the selected cells is the result -/
def aggregate (f : List Val → Val) (rng : Arr) (args : List (Arr × Val)) : Out Val :=
  match handleIfs args (some rng) with
  | .ok coords =>
    let sel := selected rng coords
    match firstErr sel with
    | some e => .ok (.err e)
    | none => .ok (f (kept sel))
  | .error e => .ok (.err e)
  | .raise k => .raise k

def sumOf (data : List Val) : Val := .num (rsum (data.map valNum))

def avgOf (data : List Val) : Val :=
  if data.isEmpty then .err .div0 else .num (rsum (data.map valNum) / (data.length : Nat))

def maxOf : List Val → Val
  | [] => .num 0          -- max(()) raises ValueError, caught: 0
  | x :: xs => pyMax x xs

def minOf : List Val → Val
  | [] => .num 0
  | x :: xs => pyMin x xs

/-- SUMIFS(sum_range, rng1, crit1, …) -/
def sumifs (sumRange : Arr) (args : List (Arr × Val)) : Out Val := aggregate sumOf sumRange args

/-- SUMIF(rng, criteria[, sum_range]) -/
def sumif (rng : Arr) (crit : Val) (sumRange : Option Arr) : Out Val :=
  sumifs (sumRange.getD rng) [(rng, crit)]

/-- AVERAGEIFS(average_range, rng1, crit1, …) -/
def averageifs (avgRange : Arr) (args : List (Arr × Val)) : Out Val := aggregate avgOf avgRange args

/-- AVERAGEIF(rng, criteria[, average_range]) -/
def averageif (rng : Arr) (crit : Val) (avgRange : Option Arr) : Out Val :=
  averageifs (avgRange.getD rng) [(rng, crit)]

/-- the `try: … except ValueError: return 0` of MAXIFS / MINIFS -/
def catchValueError : Out Val → Out Val
  | .raise "ValueError" => .ok (.num 0)
  | o => o

/-- MAXIFS(max_range, rng1, crit1, …) -/
def maxifs (rng : Arr) (args : List (Arr × Val)) : Out Val := catchValueError (aggregate maxOf rng args)

/-- MINIFS(min_range, rng1, crit1, …) -/
def minifs (rng : Arr) (args : List (Arr × Val)) : Out Val := catchValueError (aggregate minOf rng args)

end Pycel.Criteria

/-
  Model of pycel's array (CSE) formula machinery, polymorphic in the scalar operation.

  Anchors (src/pycel):
    excelutil.py:1189-1224   build_operator_operand_fixup: `fixup` dispatch on list-like operands, `array_fixup`
                             (numpy broadcasting of scalars / 2-D arrays, one scalar `fixup` per broadcast pair)
    lib/function_helpers.py:160-192  cse_array_wrapper (one call of the wrapped function per element)
    excelutil.py:875-916     _ArrayFormulaContext.fit_to_range (expand / trim / fill to the target range)
    excelwrapper.py:254-297  load_array_formulas: every cell of the target gets CSE_INDEX(front, i, j, h, w)
    excelwrapper.py:100-119  cell_to_formula: CSE_INDEX(...) of a member cell -> index(<target range>, i, j)
    lib/lookup.py:234-295    index (row_num and col_num branch)
    excelformula.py:919-948  eval_func: fit_to_range in the context of the target; `None`/EMPTY result shown as 0
    excelcompiler.py:770-847 _evaluate_range (CSE range = eval(range formula, target)), _evaluate (member cell)

  Import-free (core Lean + Value.lean).  Arrays are `Arr = List (List Val)` (tuple of row tuples).

  PROPERTY-DRIVEN (C13 "an operator applied to arrays ... yield at every position the value of the scalar application
  to the elements at that position"): whenever one operand of an operator is an array the model lifts the scalar
  operation over the numpy broadcast of the two operands (`opFixup`), also when the other operand is a scalar error
  value.  (Before /repo commit 9455ce5 the code returned the bare scalar error in that case without looking at the
  array operand; since that repair the code has this order too.)
  Everything else follows the code, including the explicit failures (`none` = the call raises).
-/
import Pycel.Model.Value
namespace Pycel.Arrays
open Pycel

/-- an operand or a result of a formula: a scalar or a 2-D array -/
inductive Opnd where
  | scalar (v : Val)
  | arr (a : Arr)
  deriving Inhabited, DecidableEq

def na : Val := .err .na

/-- `a[i][j]` (`.blank` only outside the array) -/
def at2 (a : Arr) (i j : Nat) : Val := ((a[i]?.getD [])[j]?).getD .blank

/-- `a[i][j]` with Python's IndexError as `none` -/
def at2? (a : Arr) (i j : Nat) : Option Val := (a[i]?).bind (·[j]?)

/-- `len(a)` -/
def height (a : Arr) : Nat := a.length
/-- `len(a[0])` -/
def width (a : Arr) : Nat := (a.headD []).length

/-- `a` is a rectangular h×w array -/
def Rect (a : Arr) (h w : Nat) : Prop := a.length = h ∧ ∀ row ∈ a, row.length = w

/-- h×w array given by its elements (row-major generator expressions of the code) -/
def tab (h w : Nat) (g : Nat → Nat → Val) : Arr :=
  (List.range h).map fun i => (List.range w).map fun j => g i j

/-- a scalar seen as a 1×1 array: numpy broadcasts a 0-d operand exactly like a 1×1 one;
    fit_to_range: `result = ((result, ), )` -/
def toArr : Opnd → Arr
  | .scalar v => [[v]]
  | .arr a => a

def isArr : Opnd → Bool
  | .arr _ => true
  | .scalar _ => false

/-! ## array_fixup: numpy broadcasting -/

/-- numpy's rule for one dimension: equal, or one of them is 1; otherwise "shape mismatch" (raises) -/
def bdim (m n : Nat) : Option Nat :=
  if m = n then some m else if m = 1 then some n else if n = 1 then some m else none

/-- index into a dimension of extent `n` under broadcasting: an extent-1 dimension is repeated -/
def bidx (n i : Nat) : Nat := if n = 1 then 0 else i

/-- `array_fixup(left_op, op, right_op)` with the scalar operation `f u v = fixup(u, op, v)`:
    `np.broadcast` of the two operands, `f` on every pair, re-chunked into rows of the broadcast width.
    `none` = numpy raises ValueError (shape mismatch). -/
def arrayFixup (f : Val → Val → Val) (l r : Opnd) : Option Arr :=
  let a := toArr l
  let b := toArr r
  match bdim (height a) (height b), bdim (width a) (width b) with
  | some h, some w =>
    some (tab h w fun i j =>
      f (at2 a (bidx (height a) i) (bidx (width a) j)) (at2 b (bidx (height b) i) (bidx (width b) j)))
  | _, _ => none

/-- `fixup(left_op, op, right_op)` for operands that may be arrays: two scalars go to the scalar operation, anything
    else is lifted by `arrayFixup` (see the PROPERTY-DRIVEN note in the header). -/
def opFixup (f : Val → Val → Val) (l r : Opnd) : Option Opnd :=
  match l, r with
  | .scalar a, .scalar b => some (.scalar (f a b))
  | l, r => (arrayFixup f l r).map .arr

/-! ## cse_array_wrapper -/

/-- `a_cse_arg = next(iter(cse_arg_nums))`: the array argument of lowest index among the declared cse params
    (CPython iterates a set of small ints in ascending order; assumed: fewer than 8 arguments). -/
def firstCse (cse : Nat → Bool) : Nat → List Opnd → Option Arr
  | _, [] => none
  | k, .arr x :: rest => if cse k then some x else firstCse cse (k + 1) rest
  | k, .scalar _ :: rest => firstCse cse (k + 1) rest

/-- `pick_args(args, cse_arg_nums, row, col)`: array arguments at cse positions are replaced by their element,
    everything else is passed as is; `none` = IndexError (an array argument smaller than the one giving the shape) -/
def pickArgs (cse : Nat → Bool) : Nat → List Opnd → Nat → Nat → Option (List Opnd)
  | _, [], _, _ => some []
  | k, a :: rest, i, j =>
    let a' : Option Opnd := match a with
      | .arr x => if cse k then (at2? x i j).map .scalar else some a
      | .scalar _ => some a
    match a', pickArgs cse (k + 1) rest i j with
    | some a', some rest' => some (a' :: rest')
    | _, _ => none

/-- total version of `pickArgs` (what the picks are when no index is out of range) -/
def pickTot (cse : Nat → Bool) : Nat → List Opnd → Nat → Nat → List Opnd
  | _, [], _, _ => []
  | k, a :: rest, i, j =>
    (match a with
      | .arr x => if cse k then .scalar (at2 x i j) else a
      | .scalar _ => a) :: pickTot cse (k + 1) rest i j

/-- the wrapper produced by `cse_array_wrapper(g, param_indices)`: if no declared parameter holds an array, `g` is
    called once; otherwise once per element of the FIRST such array argument's shape.  Array arguments larger than
    that shape are silently truncated, smaller ones raise (`none`). -/
def cseWrap (g : List Opnd → Val) (cse : Nat → Bool) (args : List Opnd) : Option Opnd :=
  match firstCse cse 0 args with
  | none => some (.scalar (g args))
  | some x =>
    let h := height x
    let w := width x
    if (List.range h).all fun i => (List.range w).all fun j => (pickArgs cse 0 args i j).isSome then
      some (.arr (tab h w fun i j => g (pickTot cse 0 args i j)))
    else none

/-! ## fit_to_range -/

/-- `r * n` for a row tuple -/
def repeatRow (row : List Val) (n : Nat) : List Val := (List.replicate n row).flatten

/-- the three width branches of fit_to_range (`rw` = result width, `w` = target width) -/
def fitWidth (a : Arr) (rw w : Nat) : Arr :=
  if rw = 1 ∧ w ≠ 1 then a.map (repeatRow · w)
  else if rw > w then a.map (·.take w)
  else if rw < w then a.map (· ++ List.replicate (w - rw) na)
  else a

/-- the three height branches of fit_to_range (`rh` = result height, `h`×`w` = target size) -/
def fitHeight (a : Arr) (rh h w : Nat) : Arr :=
  if rh = 1 ∧ h ≠ 1 then (List.replicate h a).flatten
  else if rh > h then a.take h
  else if rh < h then a ++ List.replicate (h - rh) (List.replicate w na)
  else a

/-- `in_array_formula_context.fit_to_range(result)` with a target of `h` rows and `w` columns -/
def fitToRange (r : Opnd) (h w : Nat) : Arr :=
  let a := toArr r
  fitHeight (fitWidth a (width a) w) (height a) h w

/-! ## CSE members -/

/-- the parameters of `=CSE_INDEX(front, i, j, h, w)`: 1-based position of the member and size of the target -/
structure CseIndex where
  i : Nat
  j : Nat
  h : Nat
  w : Nat
  deriving DecidableEq, Repr

/-- load_array_formulas: `for i, row in enumerate(ref_addr.rows, start=1): for j, addr in enumerate(row, start=1)`;
    the cell in row `r0 + i - 1`, column `c0 + j - 1` receives `CSE_INDEX(front, i, j, h, w)`.
    Entry (i-1, j-1) of the table is what is written to that cell. -/
def expandCse (h w : Nat) : List (List CseIndex) :=
  (List.range h).map fun i => (List.range w).map fun j => ⟨i + 1, j + 1, h, w⟩

/-- a rectangle (min_col, min_row, max_col, max_row) -/
structure Box where
  c0 : Nat
  r0 : Nat
  c1 : Nat
  r1 : Nat
  deriving DecidableEq, Repr

/-- cell_to_formula: the range a member cell at (`row`, `col`) refers to in its `index(<range>, i, j)` -/
def cseRange (row col : Nat) (p : CseIndex) : Box :=
  let startRow := row - p.i + 1
  let startCol := col - p.j + 1
  ⟨startCol, startRow, startCol + p.w - 1, startRow + p.h - 1⟩

/-- lib/lookup.py index(array, row_num, col_num), the `row_num and col_num` branch (both ≥ 1, which is all a
    CSE member uses): `array[row_num-1][col_num-1]`, IndexError -> #REF!.  Zero arguments select whole rows/columns
    in the code; that branch is not modelled (`#VALUE!` placeholder, never reached by `memberValue`). -/
def indexRC (a : Arr) (i j : Nat) : Val :=
  if i = 0 ∨ j = 0 then .err .value
  else match at2? a (i - 1) (j - 1) with
    | some v => v
    | none => .err .ref

/-- eval_func: `return ret_val if ret_val not in (None, EMPTY) else 0` — a cell whose formula yields an empty
    value shows 0 -/
def showCell : Val → Val
  | .blank => .num 0
  | v => v

/-- value of a member cell at (`row`, `col`) holding `CSE_INDEX(front, p.i, p.j, p.h, p.w)`, given how ranges
    evaluate: `index(_R_(<cseRange>), i, j)` then the blank-to-0 rule of every formula cell -/
def memberValue (evalRange : Box → Arr) (row col : Nat) (p : CseIndex) : Val :=
  showCell (indexRC (evalRange (cseRange row col p)) p.i p.j)

/-- `_evaluate_range` of the target of an array formula whose formula evaluates to `res`:
    `eval(cell_range, cell_range.address)` = fit_to_range(res) in the context of the target -/
def evalTarget (res : Opnd) (h w : Nat) : Arr := fitToRange res h w

/-! ## the array-formula context stack (excelutil.py:844-873 _ArrayFormulaContext, excelformula.py:931-933)

  Every formula evaluation runs `with in_array_formula_context(cse_array_address): fit_to_range(compiled_lambda())`:
  `__enter__` pushes the evaluation's own context (the target of an array formula, `None` for an ordinary cell) on
  `ctx_addresses`, the lambda evaluates the formula's precedents (nested evaluations, each pushing and popping its
  own context), `fit_to_range` reads the TOP of the stack, `__exit__` pops. -/

/-- context of one evaluation: the target size of an array formula, `none` for an ordinary formula cell -/
abbrev Ctx := Option (Nat × Nat)

/-- evaluations in the order the engine performs them: a formula with context `ctx` that evaluates the formulas
    `children` (its not-yet-computed precedents, recursively) before it is fitted, followed by `siblings` -/
inductive Forest where
  | nil
  | cons (ctx : Ctx) (children : Forest) (siblings : Forest)

/-- run the evaluations over the stack `ctx_addresses` (head = top); returns the stack afterwards and, for every
    evaluation in completion order, (its own context, the context `fit_to_range` saw) -/
def runForest : Forest → List Ctx → List Ctx × List (Ctx × Ctx)
  | .nil, st => (st, [])
  | .cons c children siblings, st =>
    let r1 := runForest children (c :: st)          -- __enter__, then the precedents
    let seen := r1.1.headD none                     -- fit_to_range: ctx_addresses[-1]
    let r2 := runForest siblings r1.1.tail          -- __exit__, then what follows
    (r2.1, r1.2 ++ (c, seen) :: r2.2)

/-- fit_to_range under the context it sees: no context = the value is left as it is -/
def fitCtx (seen : Ctx) (res : Opnd) : Opnd :=
  match seen with
  | none => res
  | some (h, w) => .arr (fitToRange res h w)

/-- a chain of `d` ordinary formula cells, each the only uncomputed precedent of the previous one -/
def chain : Nat → Forest
  | 0 => .nil
  | d + 1 => .cons none (chain d) .nil

/-- the context seen by an array formula with target h×w whose precedents form `k` chains of depth `d` -/
def seenByArrayFormula (h w d k : Nat) : Ctx :=
  let rec sibs : Nat → Forest
    | 0 => .nil
    | n + 1 => match chain d with
      | .cons c ch _ => .cons c ch (sibs n)
      | .nil => .nil
  let r := runForest (.cons (some (h, w)) (sibs k) .nil) [none]
  (r.2.getLast?.map (·.2)).getD none

/-- a 1×1 target: `AddressRange(ref)` is a single cell, load_array_formulas stores the plain formula text there and
    the cell is evaluated like any formula cell, without fit_to_range: eval_func shows an empty scalar as 0, then
    `_evaluate` keeps `value[0][0]` of an array result (an empty element stays empty there). -/
def singleCell : Opnd → Val
  | .scalar v => showCell v
  | .arr a => at2 a 0 0

/-- all member values of an h×w target at (r0, c0), as the workbook shows them -/
def members (res : Opnd) (r0 c0 h w : Nat) : Arr :=
  let target : Box := ⟨c0, r0, c0 + w - 1, r0 + h - 1⟩
  let evalRange : Box → Arr := fun b => if b = target then evalTarget res h w else []
  (expandCse h w).map fun row =>
    row.map fun p => memberValue evalRange (r0 + p.i - 1) (c0 + p.j - 1) p

/-- member values when evaluating the target range yields `tgt` (whatever context the range formula was fitted in) -/
def membersOf (tgt : Arr) (r0 c0 h w : Nat) : Arr :=
  let target : Box := ⟨c0, r0, c0 + w - 1, r0 + h - 1⟩
  let evalRange : Box → Arr := fun b => if b = target then tgt else []
  (expandCse h w).map fun row =>
    row.map fun p => memberValue evalRange (r0 + p.i - 1) (c0 + p.j - 1) p

end Pycel.Arrays

/-
  Access paths of `ExcelCompiler.evaluate` (non-iterative mode), on top of the generic engine (Model/Engine.lean) and
  the address/rectangle model (Model/Addr.lean).  Property C05.

  Anchors:
    excelcompiler.py 857-890 `_evaluate_non_iterative`  -> `evalArg` (list/tuple/generator), `evalPath` (one address:
                     sheet-less address gets the active sheet, build on demand, evaluate, "trim excess dimensions")
    excelcompiler.py 886-890 dimension trimming          -> `trimDims`
    excelcompiler.py 780-815 `_evaluate_range`           -> a range node of the engine (value = tuple of rows of member
                     evaluations); an unbounded address is an alias cell `=_REF_(bounded)` of the clipped range
    excelcompiler.py 748-778 `_make_cells`, excelwrapper.py 348-352 `get_range`
                                                         -> `clip` (unbounded address ∩ (1,1,max_col,max_row))

  A `Layout` says where the nodes of the engine workbook live on the sheets: `cellNode` (cell address -> node; every
  cell of a requested rectangle is a node, blank cells are input nodes holding blank — pycel creates them the same way)
  and `rangeNode` (bounded rectangle -> its range node).  The alias cell that pycel creates for an unbounded address
  (`Sheet1!A:A` = `_REF_("Sheet1!A1:A3")`, a dependant of the bounded range in `dep_graph`) is modelled as the bounded
  range node itself.

  Where the model follows the PROPERTY (C05) and not the pinned code:
    * `clip` is "the cells of those columns/rows inside the used area"; the pinned code computed `addr & used` with the
      unbounded corner 0, which dropped the last column/row when the used area reached MAX_COL/MAX_ROW (repaired in
      /repo by the C11 engineer: 0c6b643, eb7029e, 3fcedea; Props/C05 `C05_clip_is_inter_cols/_rows` now hold for
      every used area);
    * the used area is a fixed attribute of the sheet (`Layout.used`), the alias cell of an unbounded address shares the
      cache of the bounded range node, an unbounded address whose clip is a single cell evaluates to that cell, and a
      sheet-less unbounded address gets the active sheet like any other — each was a defect of the pinned code found
      by the C05 correspondence and repaired in /repo (fix: ba0ae4c, 8693132, 36bdd56, 986aa9d, aadfafa, 3bc9dae), so
      code and model now coincide.
  An unbounded address whose clip is empty is outside the property (no cell to agree with): `Out.err`, as the code raises.

  Import-free apart from Engine/EngineInst/Addr; structural recursion only; executable.
-/
import Pycel.Model.Engine
import Pycel.Model.EngineInst
import Pycel.Model.Addr
namespace Pycel.Access
open Pycel Pycel.Engine Pycel.Addr

/-! ### results of `evaluate` after trimming -/

/-- what `evaluate(address)` returns: a scalar, a flat tuple (single row or single column), a tuple of row tuples -/
inductive Out (β : Type) where
  | sc (v : β)
  | vec (l : List β)
  | grid (g : List (List β))
  | err                         -- the call raises (no such node / empty clip); outside the property
  deriving DecidableEq, Repr, Inhabited

/-- `_evaluate_non_iterative` 886-890:
      if len(result[0]) == 1: result = tuple(row[0] for row in result)
      if len(result) == 1:    result = result[0]                                  -/
def trimDims (rows : List (List β)) : Out β :=
  match rows with
  | [] => .grid []                                  -- never produced: a range has at least one row
  | r0 :: _ =>
    if r0.length = 1 then
      match rows.filterMap List.head? with
      | [v] => .sc v
      | col => .vec col
    else
      match rows with
      | [r] => .vec r
      | _ => .grid rows

/-- element (i, j) of the result for a requested rectangle of `h` rows and `w` columns, read the way a caller must
    read the trimmed shape: scalar for 1×1, flat index for a single row / single column, `[i][j]` otherwise -/
def Out.elem (h w i j : Nat) : Out β → Option β
  | .sc v => if h = 1 ∧ w = 1 ∧ i = 0 ∧ j = 0 then some v else none
  | .vec l => if w = 1 then (if j = 0 then l[i]? else none) else (if h = 1 ∧ i = 0 then l[j]? else none)
  | .grid g => (g[i]?).bind (·[j]?)
  | .err => none

/-- a value type with tuples: `tup` builds a range value from the rows of member values, `untup` reads it back as
    rows of scalars, `scal` is the scalar a cell value shows -/
structure Tup (α β : Type) where
  tup : List (List α) → α
  untup : α → List (List β)
  scal : α → β
  untup_tup : ∀ rows, untup (tup rows) = rows.map (·.map scal)

/-! ### layout and paths -/

structure Layout where
  active : Str                      -- `excel.get_active_sheet_name()`
  cellNode : Cell → Nat
  rangeNode : Rect → Option Nat
  used : Str → Nat × Nat            -- sheet -> (max_column, max_row) of openpyxl (both ≥ 1)

/-- one address handed to `evaluate`; `sheet = []` = no sheet given -/
inductive Path where
  | cell (c : Cell)
  | range (r : Rect)                -- bounded `A1:B2`
  | unbounded (r : Rect)            -- `A:A`, `A:C` (r1 = r2 = 0) or `1:1`, `1:3` (c1 = c2 = 0)
  deriving DecidableEq, Repr

/-- how the addresses were handed over -/
inductive Container where
  | list | tuple | gen
  deriving DecidableEq, Repr

inductive Arg where
  | one (p : Path)
  | many (k : Container) (ps : List Path)
  deriving Repr

inductive Res (β : Type) where
  | one (o : Out β)
  | many (tuple : Bool) (os : List (Out β))      -- a list stays a list; a tuple or generator gives a tuple
  deriving DecidableEq, Repr

def Container.isTuple : Container → Bool
  | .list => false
  | _ => true

/-- "get the sheet if not specified": `AddressRange(address, sheet=self.excel.get_active_sheet_name())` -/
def Layout.cellAt (L : Layout) (c : Cell) : Cell := if c.sheet = [] then { c with sheet := L.active } else c
def Layout.rectAt (L : Layout) (r : Rect) : Rect := if r.sheet = [] then { r with sheet := L.active } else r

/-- the unbounded address clipped to the used area `(1, 1, mc, mr)`: the cells of those columns (rows) that lie inside
    it; `none` when there is none -/
def clip (u : Rect) (mc mr : Nat) : Option Rect :=
  if u.r1 = 0 then
    if u.c1 ≤ mc ∧ 1 ≤ mr then some ⟨u.sheet, u.c1, 1, min u.c2 mc, mr⟩ else none
  else
    if u.r1 ≤ mr ∧ 1 ≤ mc then some ⟨u.sheet, 1, u.r1, mc, min u.r2 mr⟩ else none

def isCellRect (r : Rect) : Bool := r.c1 == r.c2 && r.r1 == r.r2

section
variable {α β : Type} (wb : Workbook) (f : Nat → (Nat → α) → α) (L : Layout) (T : Tup α β)

/-- evaluate the bounded rectangle `R` (sheet already resolved): a 1×1 rectangle is the cell (`AddressRange.create`
    returns an `AddressCell`), otherwise the range node's value, trimmed -/
def evalRect (R : Rect) (s : State α) : Out β × State α :=
  if isCellRect R then
    let r := evaluate wb f (L.cellNode ⟨R.sheet, R.c1, R.r1⟩) s
    (.sc (T.scal r.1), r.2)
  else
    match L.rangeNode R with
    | some r => let x := evaluate wb f r s; (trimDims (T.untup x.1), x.2)
    | none => (.err, s)

/-- `evaluate(address)` for one address -/
def evalPath (p : Path) (s : State α) : Out β × State α :=
  match p with
  | .cell c =>
    let r := evaluate wb f (L.cellNode (L.cellAt c)) s
    (.sc (T.scal r.1), r.2)
  | .range R => evalRect wb f L T (L.rectAt R) s
  | .unbounded u =>
    let u' := L.rectAt u
    match clip u' (L.used u'.sheet).1 (L.used u'.sheet).2 with
    | some R => evalRect wb f L T R s
    | none => (.err, s)

/-- `type(address)(self._evaluate_non_iterative(c) for c in address)`: left to right, each on the state the previous
    one left -/
def evalPaths : List Path → State α → List (Out β) × State α
  | [], s => ([], s)
  | p :: ps, s =>
    let r := evalPath wb f L T p s
    let rest := evalPaths ps r.2
    (r.1 :: rest.1, rest.2)

def evalArg (a : Arg) (s : State α) : Res β × State α :=
  match a with
  | .one p => let r := evalPath wb f L T p s; (.one r.1, r.2)
  | .many k ps => let r := evalPaths wb f L T ps s; (.many k.isTuple r.1, r.2)

/-! ### from-scratch value of a path (what a fresh compile returns) -/

/-- from-scratch value of node `a` (a node outside the workbook has no formula) -/
def valueAt (inp : Nat → α) (a : Nat) : α := if a < wb.n then denote wb f inp a else inp a

def denoteRect (inp : Nat → α) (R : Rect) : Out β :=
  if isCellRect R then .sc (T.scal (valueAt wb f inp (L.cellNode ⟨R.sheet, R.c1, R.r1⟩)))
  else
    match L.rangeNode R with
    | some r => trimDims (T.untup (valueAt wb f inp r))
    | none => .err

def denotePath (inp : Nat → α) (p : Path) : Out β :=
  match p with
  | .cell c => .sc (T.scal (valueAt wb f inp (L.cellNode (L.cellAt c))))
  | .range R => denoteRect wb f L T inp (L.rectAt R)
  | .unbounded u =>
    let u' := L.rectAt u
    match clip u' (L.used u'.sheet).1 (L.used u'.sheet).2 with
    | some R => denoteRect wb f L T inp R
    | none => .err

def denoteArg (inp : Nat → α) (a : Arg) : Res β :=
  match a with
  | .one p => .one (denotePath wb f L T inp p)
  | .many k ps => .many k.isTuple (ps.map (denotePath wb f L T inp))

/-! ### histories over paths -/

inductive POp (α : Type) where
  | set (i : Nat) (v : α)
  | eval (a : Arg)

def stepP (eqv : α → α → Bool) (s : State α) : POp α → State α
  | .set i v => setValue wb eqv i v s
  | .eval a => (evalArg wb f L T a s).2

def runP (eqv : α → α → Bool) (s : State α) (h : List (POp α)) : State α := h.foldl (stepP wb f L T eqv) s

/-- what each operation returns (`none` for a `set_value`) -/
def outputsP (eqv : α → α → Bool) : State α → List (POp α) → List (Option (Res β))
  | _, [] => []
  | s, .set i v :: h => none :: outputsP eqv (setValue wb eqv i v s) h
  | s, .eval a :: h => let r := evalArg wb f L T a s; some r.1 :: outputsP eqv r.2 h

end

/-! ### the instance the driver runs: values `EV`, scalars `Val` -/

open Pycel.EngineInst in
def evTup : Tup EV Val where
  tup := fun rows => .arr (rows.map fun row => row.map EV.val)
  untup := fun v => match v with
    | .arr rows => rows
    | .sc v => [[v]]
  scal := EV.val
  untup_tup := fun _ => rfl

/-- layout given by two association lists (driver input) -/
def lookupCell (tbl : List (Cell × Nat)) (dflt : Nat) (c : Cell) : Nat :=
  match tbl.find? (fun e => e.1 = c) with
  | some e => e.2
  | none => dflt

def lookupRect (tbl : List (Rect × Nat)) (r : Rect) : Option Nat :=
  (tbl.find? (fun e => e.1 = r)).map (·.2)

def lookupUsed (tbl : List (Str × Nat × Nat)) (sh : Str) : Nat × Nat :=
  match tbl.find? (fun e => e.1 = sh) with
  | some e => e.2
  | none => (1, 1)

/-- `dflt` = a node number outside the workbook, for addresses that are not in the table -/
def mkLayout (active : Str) (cells : List (Cell × Nat)) (ranges : List (Rect × Nat)) (used : List (Str × Nat × Nat))
    (dflt : Nat) : Layout where
  active := active
  cellNode := lookupCell cells dflt
  rangeNode := lookupRect ranges
  used := lookupUsed used

open Pycel.EngineInst in
/-- run-time check of the driver: every range node of the table is the row-major tuple of the nodes of its cells -/
def layoutCheck (specs : List Spec) (cells : List (Cell × Nat)) (ranges : List (Rect × Nat)) (dflt : Nat) : Bool :=
  ranges.all fun e =>
    match specs[e.2]? with
    | some (.rng rows) => decide (rows = e.1.rows.map fun row => row.map (lookupCell cells dflt))
    | _ => false

end Pycel.Access

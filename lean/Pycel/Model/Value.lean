/-
  Excel scalar values as pycel represents them at run time.
  Anchors: src/pycel/excelutil.py:25-33 (ERROR_CODES), coerce_to_string (950-990).
  Text is `List Char` (never `String`) so that structural lemmas apply; numbers are exact rationals.
  This file is import-free (core Lean only) so that the compiled driver can link it.
-/
namespace Pycel

/-- The seven Excel error values, in the order of `ERROR_CODES`' definition in excelutil.py. -/
inductive Err where
  | null | div0 | value | ref | name | num | na
  deriving DecidableEq, Repr, Inhabited

def Err.all : List Err := [.null, .div0, .value, .ref, .name, .num, .na]

theorem Err.mem_all (e : Err) : e ∈ Err.all := by cases e <;> simp [Err.all]

def Err.text : Err → String
  | .null => "#NULL!" | .div0 => "#DIV/0!" | .value => "#VALUE!" | .ref => "#REF!"
  | .name => "#NAME?" | .num => "#NUM!" | .na => "#N/A"

/-- protocol tag of an error (see Proto.lean) -/
def Err.tag : Err → String
  | .null => "null" | .div0 => "div0" | .value => "value" | .ref => "ref"
  | .name => "name" | .num => "num" | .na => "na"

def Err.ofTag? : String → Option Err
  | "null" => some .null | "div0" => some .div0 | "value" => some .value | "ref" => some .ref
  | "name" => some .name | "num" => some .num | "na" => some .na | _ => none

/-- An Excel scalar.  `blank` is Python `None` (an empty cell). -/
inductive Val where
  | num (q : Rat)
  | str (s : List Char)
  | bool (b : Bool)
  | blank
  | err (e : Err)
  deriving DecidableEq, Inhabited

abbrev Arr := List (List Val)

def Val.isErr : Val → Bool
  | .err _ => true | _ => false

def Val.isNum : Val → Bool
  | .num _ => true | _ => false

end Pycel

/-
  Formula model, part 6: the run-time semantics `Sem` instantiated with C10's operator model (`Pycel.Ops.fixup` with
  the concrete Python kernels), literals as Python reads them, and cell reads from an environment.  This is the
  semantics the compiled driver runs for the value comparison of C02, and the one `C02_sound_ops` names.

  Values are `RV = Option (Val × Bool)`:
    none            outside the domain decided here (absorbing): function calls other than the cell read `_C_` and the
                    few pure library functions of `libCall` on their plain argument domain, the
                    name `pi`, tuples, number literals Python does not read as a finite double, a non-finite float, and
                    arithmetic on the TEXT "TRUE"/"FALSE" (C10's known finding text-logical-as-number: the Ops model is
                    property-driven there and differs from the code on purpose);
    some (v, false) the exact value pycel holds;
    some (v, true)  `v` is only approximately what pycel holds: a float `^` went through C `pow()` (Ops.approxResult),
                    or an integer beyond 2^53 took part (Ops cannot tell the int from the float there).
-/
import Pycel.Model.Formula.PyGrammar
import Pycel.Model.Ops
namespace Pycel.Formula
open Pycel

abbrev RV := Option (Val × Bool)

/-- Python AST operator of the emitted code → the operator `fixup` receives -/
def PyOp.ops : PyOp → Ops.Op
  | .pow => .pow | .mul => .mul | .div => .div | .add => .add | .sub => .sub | .bitand => .concat
  | .eq => .eq | .ne => .ne | .lt => .lt | .gt => .gt | .le => .le | .ge => .ge

def bigNum : Val → Bool
  | .num q => decide (Ops.absR q ≥ ((2 ^ 53 : Nat) : Rat))
  | _ => false

def logicalText : Val → Bool
  | .str s => Ops.isLogicalText s
  | _ => false

def isArith (op : Ops.Op) : Bool := !op.isCmp && op != .concat

def ofOutcome (approx : Bool) : Ops.Outcome → RV
  | .val v => some (v, approx || bigNum v)
  | .nonfinite => none

/-- `excel_operator_operand_fixup(l, op, r)` -/
def opsFix (l : Val × Bool) (op : Ops.Op) (r : Val × Bool) : RV :=
  if isArith op && (logicalText l.1 || logicalText r.1) then none
  else
    let ap := match Ops.arithOperand l.1, Ops.arithOperand r.1 with
      | .num x, .num y => isArith op && (Ops.approxResult op x y || bigNum (.num x) || bigNum (.num y))
      | _, _ => false
    ofOutcome (l.2 || r.2 || ap) (Ops.fixupPy l.1 op r.1)

/-! ### a few pure library functions on scalar arguments, where their definition is plain
     (excellib.py power/abs_/sign/mod/sum_, lib/stats.py max_/min_, lib/logical.py if_/and_/or_/not_,
     lib/information.py n).  Anything outside the stated argument domain is `none` (not decided here). -/

def allNums : List Val → Option (List Rat)
  | [] => some []
  | .num q :: r => (allNums r).map (q :: ·)
  | _ => none

def firstErr : List Val → Option Err
  | [] => none
  | .err e :: _ => some e
  | _ :: r => firstErr r

/-- `_numerics(*args)`: the int/float arguments (logicals, text, blanks dropped) -/
def numerics : List Val → List Rat
  | [] => []
  | .num q :: r => q :: numerics r
  | _ :: r => numerics r

/-- python `sum(data)`: left to right from the int 0 -/
def pySum (acc : Rat) : List Rat → Option Rat
  | [] => some acc
  | x :: r => match Ops.pyKernels.add acc x with
    | .ok q => pySum q r
    | _ => none

/-- `_clean_logical` -/
def cleanLogical : Val → Option (Except Err Bool)
  | .err e => some (.error e)
  | .str s => some (if Ops.lower s = "true".toList then .ok true else if Ops.lower s = "false".toList then .ok false
                    else .error .value)
  | .blank => some (.ok false)
  | .num q => some (.ok (q ≠ 0))
  | .bool b => some (.ok b)

/-- `_clean_logicals`: first error, else the truth values of the numbers and logicals (text and blanks dropped) -/
def truthValues : List Val → List Bool
  | [] => []
  | .num q :: r => (q ≠ 0) :: truthValues r
  | .bool b :: r => b :: truthValues r
  | _ :: r => truthValues r

def libCall (f : List Char) (args : List Val) : Option (Val × Bool) :=
  if f = "power".toList then
    match args with
    | [.num x, .num y] =>
      if x = 0 ∧ y = 0 then some (.err .na, false) else
      match Ops.pyPow x y with
      | .ok q => some (.num q, Ops.approxResult .pow x y || bigNum (.num q) || bigNum (.num x))
      | .zeroDiv => some (.err .div0, false)
      | _ => none
    | _ => none
  else if f = "abs_".toList then
    match args with | [.num x] => some (.num (Ops.absR x), false) | _ => none
  else if f = "sign".toList then
    match args with | [.num x] => some (.num (if x < 0 then -1 else if x = 0 then 0 else 1), false) | _ => none
  else if f = "mod".toList then
    match args with
    | [.num x, .num y] =>
      if y = 0 then some (.err .div0, false)
      else if x.den = 1 ∧ y.den = 1 then some (.num ((Int.fmod x.num y.num : Int) : Rat), false) else none
    | _ => none
  else if f = "sum_".toList then
    match firstErr args with
    | some e => some (.err e, false)
    | none => (pySum 0 (numerics args)).map fun q => (.num q, false)
  else if f = "max_".toList ∨ f = "min_".toList then
    match firstErr args with
    | some e => some (.err e, false)
    | none =>
      match numerics args with
      | [] => some (.num 0, false)
      | q :: qs => some (.num (qs.foldl (fun a b => if f = "max_".toList then (if a < b then b else a)
                                                   else (if b < a then b else a)) q), false)
  else if f = "if_".toList then
    match args with
    | [t, a] | [t, a, _] =>
      (cleanLogical t).map fun c => match c with
        | .error e => (.err e, false)
        | .ok true => (a, false)
        | .ok false => ((match args with | [_, _, b] => b | _ => .num 0), false)
    | _ => none
  else if f = "and_".toList ∨ f = "or_".toList then
    if args.isEmpty then none else
    match firstErr args with
    | some e => some (.err e, false)
    | none =>
      match truthValues args with
      | [] => some (.err .value, false)
      | bs => some (.bool (if f = "and_".toList then bs.all id else bs.any id), false)
  else if f = "not_".toList then
    match args with
    | [t] => (cleanLogical t).map fun c => match c with
        | .error e => (.err e, false)
        | .ok b => (.bool (!b), false)
    | _ => none
  else if f = "n".toList then
    match args with
    | [.err e] => some (.err e, false)
    | [.str _] => some (.num 0, false)
    | [.bool b] => some (.num (if b then 1 else 0), false)
    | [v] => some (v, false)
    | _ => none
  else none

/-- all arguments decided → the plain values and whether any is approximate -/
def argVals : List RV → Option (List Val × Bool)
  | [] => some ([], false)
  | none :: _ => none
  | some (v, a) :: r => (argVals r).map fun (vs, b) => (v :: vs, a || b)

/-- the semantics of the compiled lambda over an environment of cell values -/
def opsSem (env : List (List Char × Val)) : Sem RV where
  num t := (Ops.parseNum? t).map fun q => (.num q, bigNum (.num q))
  str s := some (Val.ofText s, false)
  name s :=
    if s = nmTrue then some (.bool true, false) else if s = nmFalse then some (.bool false, false)
    else if s = nmNone then some (.blank, false) else none
  neg x := x.bind fun v => opsFix (.str Ops.emptySentinel, false) .usub v
  bin op l r := l.bind fun a => r.bind fun b => opsFix a op.ops b
  call f args :=
    if f = nmC then
      match args with
      | [some (.str a, _)] => some ((env.lookup a).getD .blank, false)
      | _ => none
    else (argVals args).bind fun (vs, approx) => (libCall f vs).map fun (v, a) => (v, a || approx)
  tuple _ := none

/-- `eval_func`: `ret_val if ret_val not in (None, EMPTY) else 0` -/
def finalValue : RV → RV
  | some (v, a) => some (if Ops.isEmptyLike v then .num 0 else v, a)
  | none => none

end Pycel.Formula

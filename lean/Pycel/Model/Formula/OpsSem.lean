/-
  Formula model, part 6: the run-time semantics `Sem` instantiated with C10's operator model (`Pycel.Ops.fixup` with
  the concrete Python kernels), literals as Python reads them, and cell reads from an environment.  This is the
  semantics the compiled driver runs for the value comparison of C02, and the one `C02_sound_ops` names.

  Values are `RV = Option (Val × Bool)`:
    none            outside the domain decided here (absorbing): function calls other than the cell read `_C_`, the
                    name `pi`, tuples, number literals Python does not read as a finite double, a non-finite float, and
                    arithmetic on the TEXT "TRUE"/"FALSE" (C10's known finding text-logical-as-number: the Ops model is
                    property-driven there and differs from the code on purpose);
    some (v, false) the exact value pycel holds;
    some (v, true)  `v` is only approximately what pycel holds: a float `^` went through C `pow()` (Ops.approxResult),
                    or an integer beyond 2^53 took part (Ops cannot tell the int from the float there).
-/
import Pycel.Model.Formula.PyGrammar
import Pycel.Model.Ops
namespace Pycel.Formula
open Pycel

abbrev RV := Option (Val × Bool)

/-- Python AST operator of the emitted code → the operator `fixup` receives -/
def PyOp.ops : PyOp → Ops.Op
  | .pow => .pow | .mul => .mul | .div => .div | .add => .add | .sub => .sub | .bitand => .concat
  | .eq => .eq | .ne => .ne | .lt => .lt | .gt => .gt | .le => .le | .ge => .ge

def bigNum : Val → Bool
  | .num q => decide (Ops.absR q ≥ ((2 ^ 53 : Nat) : Rat))
  | _ => false

def logicalText : Val → Bool
  | .str s => Ops.isLogicalText s
  | _ => false

def isArith (op : Ops.Op) : Bool := !op.isCmp && op != .concat

def ofOutcome (approx : Bool) : Ops.Outcome → RV
  | .val v => some (v, approx || bigNum v)
  | .nonfinite => none

/-- `excel_operator_operand_fixup(l, op, r)` -/
def opsFix (l : Val × Bool) (op : Ops.Op) (r : Val × Bool) : RV :=
  if isArith op && (logicalText l.1 || logicalText r.1) then none
  else
    let ap := match Ops.arithOperand l.1, Ops.arithOperand r.1 with
      | .num x, .num y => isArith op && (Ops.approxResult op x y || bigNum (.num x) || bigNum (.num y))
      | _, _ => false
    ofOutcome (l.2 || r.2 || ap) (Ops.fixupPy l.1 op r.1)

/-- the semantics of the compiled lambda over an environment of cell values -/
def opsSem (env : List (List Char × Val)) : Sem RV where
  num t := (Ops.parseNum? t).map fun q => (.num q, bigNum (.num q))
  str s := some (Val.ofText s, false)
  name s :=
    if s = nmTrue then some (.bool true, false) else if s = nmFalse then some (.bool false, false)
    else if s = nmNone then some (.blank, false) else none
  neg x := x.bind fun v => opsFix (.str Ops.emptySentinel, false) .usub v
  bin op l r := l.bind fun a => r.bind fun b => opsFix a op.ops b
  call f args :=
    if f = nmC then
      match args with
      | [some (.str a, _)] => some ((env.lookup a).getD .blank, false)
      | _ => none
    else none
  tuple _ := none

/-- `eval_func`: `ret_val if ret_val not in (None, EMPTY) else 0` -/
def finalValue : RV → RV
  | some (v, a) => some (if Ops.isEmptyLike v then .num 0 else v, a)
  | none => none

end Pycel.Formula

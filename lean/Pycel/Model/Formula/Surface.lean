/-
  Formula model, part 5 (specification side of C02): a surface syntax with explicit redundant parentheses, its token
  streams, the tree it denotes by Excel's grammar, and well-formedness = "each operand sits at a level its operator
  allows" with the levels of the property statement:
      negation (7) > % (6) > ^ (5) > * / (4) > + - (3) > & (2) > comparisons (1),  binary operators left-associative.
  The levels here are written down from the STATEMENT (not from the code); `Lemmas/FormulaParse.lean` proves that the
  live `Token.precedences` table agrees with them.
-/
import Pycel.Model.Formula.Parse
namespace Pycel.Formula

inductive Surf where
  | operand (o : Operand)
  | paren (e : Surf)
  | neg (e : Surf)
  | pct (e : Surf)
  | bin (op : InOp) (l r : Surf)
  | func (name : List Char) (args : List Surf)
  deriving Repr, Inhabited

/-- binding level of an infix operator, from the property statement (reference operators bind tightest) -/
def InOp.level : InOp → Nat
  | .colon | .space | .comma => 8
  | .pow => 5
  | .mul | .div => 4
  | .add | .sub => 3
  | .concat => 2
  | .eq | .lt | .gt | .le | .ge | .ne => 1

def negLevel : Nat := 7
def pctLevel : Nat := 6
def atomLevel : Nat := 500

/-- level of the outermost construct -/
def Surf.lvl : Surf → Nat
  | .operand _ | .paren _ | .func _ _ => atomLevel
  | .neg _ => negLevel
  | .pct _ => pctLevel
  | .bin op _ _ => op.level

mutual
/-- the tree a surface expression denotes: parentheses only group -/
def erase : Surf → Expr
  | .operand o => .operand o
  | .paren e => erase e
  | .neg e => .neg (erase e)
  | .pct e => .pct (erase e)
  | .bin op l r => .bin op (erase l) (erase r)
  | .func name args => .func name (eraseList args)
def eraseList : List Surf → List Expr
  | [] => []
  | e :: es => erase e :: eraseList es
end

mutual
/-- the amended token stream (what the main loop of `_parse_to_rpn` sees) -/
def atoks : Surf → List Tok
  | .operand o => [.operand o]
  | .paren e => .parenOpen :: atoks e ++ [.close]
  | .neg e => .pre :: atoks e
  | .pct e => atoks e ++ [.post]
  | .bin op l r => atoks l ++ .inf op :: atoks r
  | .func name args => .funcOpen name :: .parenOpen :: atoksArgs args ++ [.close]
def atoksArgs : List Surf → List Tok
  | [] => []
  | e :: es => atoks e ++ atoksRest es
def atoksRest : List Surf → List Tok
  | [] => []
  | e :: es => .argSep :: atoks e ++ atoksRest es
end

mutual
/-- the tokenizer's stream (before the amend step); a missing argument (`Operand.empty`) has no token -/
def toks : Surf → List RawTok
  | .operand .empty => []
  | .operand o => [.operand o]
  | .paren e => .parenOpen :: toks e ++ [.parenClose]
  | .neg e => .pre :: toks e
  | .pct e => toks e ++ [.post]
  | .bin op l r => toks l ++ .inf op :: toks r
  | .func name args => .funcOpen name :: toksArgs args ++ [.funcClose]
def toksArgs : List Surf → List RawTok
  | [] => []
  | e :: es => toks e ++ toksRest es
def toksRest : List Surf → List RawTok
  | [] => []
  | e :: es => .argSep :: toks e ++ toksRest es
end

mutual
/-- well-formed by the levelled grammar of the statement: the operand of a prefix minus is at negation level or
    above, of `%` at `%` level or above; the left operand of a binary operator at its level or above
    (left-associative), the right operand strictly above; arguments are arbitrary expressions.
    Reference operators (`:`, space, `,`) are not part of the property's grammar. -/
def Surf.wf : Surf → Bool
  | .operand _ => true
  | .paren e => e.wf
  | .neg e => decide (negLevel ≤ e.lvl) && e.wf
  | .pct e => decide (pctLevel ≤ e.lvl) && e.wf
  | .bin op l r => decide (op.level < negLevel) && decide (op.level ≤ l.lvl) && decide (op.level < r.lvl) && l.wf && r.wf
  | .func _ args => wfList args
def wfList : List Surf → Bool
  | [] => true
  | e :: es => e.wf && wfList es
end

end Pycel.Formula

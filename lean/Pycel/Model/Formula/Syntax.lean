/-
  Formula model, part 1: the data types shared by the parser, the emitter and the Python-grammar model.
  Anchors: src/pycel/excelformula.py
    53-107   Tokenizer._items          (token stream after openpyxl's tokenizer and pycel's amendments)
    110-178  Token, Token.precedences  (precedence table: Generated/Prec.lean, read live)
    181-519  ASTNode / OperatorNode / OperandNode / RangeNode / FunctionNode
  Import-free apart from Value.lean and the generated table.  Text is `List Char`.

  STABLE INTERFACE (C04 imports this): `Operand`, `InOp`, `Expr`, `PyOp`, `PyTok`, `Ctx`, `emit` (Formula/Emit.lean).
-/
import Pycel.Model.Value
import Pycel.Generated.Prec
namespace Pycel.Formula
open Pycel

/-- An OPERAND token, by subtype (openpyxl Token.NUMBER / TEXT / LOGICAL / ERROR / RANGE, pycel Token.EMPTY). -/
inductive Operand where
  /-- NUMBER: the token text, verbatim -/
  | number (t : List Char)
  /-- TEXT: the raw token text, *including* the surrounding quotes, embedded quotes doubled -/
  | text (raw : List Char)
  /-- LOGICAL: openpyxl only classifies the exact spellings TRUE / FALSE -/
  | logical (b : Bool)
  /-- ERROR: one of the seven error literals -/
  | error (e : Err)
  /-- RANGE: a cell / range / name reference, verbatim -/
  | range (t : List Char)
  /-- EMPTY: the missing argument inserted by `_parse_to_rpn`'s amend step (never produced by the tokenizer) -/
  | empty
  deriving DecidableEq, Repr, Inhabited

/-- The infix operators (Token.OP_IN).  `space` is the intersection operator made by `Tokenizer._items`. -/
inductive InOp where
  | colon | space | comma | pow | mul | div | add | sub | concat | eq | lt | gt | le | ge | ne
  deriving DecidableEq, Repr, Inhabited

/-- the token value of an infix operator = its key in `Token.precedences` -/
def InOp.sym : InOp → List Char
  | .colon => [':'] | .space => [' '] | .comma => [','] | .pow => ['^'] | .mul => ['*'] | .div => ['/']
  | .add => ['+'] | .sub => ['-'] | .concat => ['&'] | .eq => ['='] | .lt => ['<'] | .gt => ['>']
  | .le => ['<', '='] | .ge => ['>', '='] | .ne => ['<', '>']

def InOp.all : List InOp :=
  [.colon, .space, .comma, .pow, .mul, .div, .add, .sub, .concat, .eq, .lt, .gt, .le, .ge, .ne]

def InOp.ofSym? (s : List Char) : Option InOp := InOp.all.find? (fun o => o.sym == s)

/-- `Token.Precedence` of a key of the live table: (precedence, associativity == 'left') -/
def precOf (key : List Char) : Nat × Bool := (Gen.precTable.lookup key).getD (0, true)

/-- `Precedence.__lt__` (excelformula.py:124-128) -/
def precLt (a b : Nat × Bool) : Bool := a.1 < b.1 || (a.2 && a.1 == b.1)

/-- Token stream handed to `_parse_to_rpn` by `Tokenizer(expression).items` (before the amend step). -/
inductive RawTok where
  | operand (o : Operand)
  /-- FUNC OPEN; the token value is `name ++ "("` -/
  | funcOpen (name : List Char)
  | funcClose
  | arrayOpen | arrayClose
  /-- SEP ROW `;` and SEP ARG `,` -/
  | rowSep | argSep
  | parenOpen | parenClose
  /-- OP_PRE: only `-` survives `_items` (unary `+` is dropped) -/
  | pre
  | inf (op : InOp)
  /-- OP_POST: `%` -/
  | post
  /-- WSPACE (only leading / trailing white space survives `_items`) -/
  | wspace
  deriving DecidableEq, Repr, Inhabited

/-- Token stream after the amend step of `_parse_to_rpn` (lines 652-694): FUNC OPEN became `funcOpen, parenOpen`,
    FUNC CLOSE a `close`, arrays became nested ARRAY / ARRAYROW calls, missing arguments EMPTY operands.
    `funcOpen` covers FUNC / ARRAY / ARRAYROW OPEN (the latter two carry the names `ARRAY` / `ARRAYROW`, line 711);
    `close` covers PAREN CLOSE and ARRAY CLOSE, which take the same branch of the main loop (line 743). -/
inductive Tok where
  | operand (o : Operand)
  | funcOpen (name : List Char)
  | argSep
  | parenOpen
  | close
  | pre
  | inf (op : InOp)
  | post
  | wspace
  deriving DecidableEq, Repr, Inhabited

/-- A node of the RPN output (`ASTNode.create`): OperandNode/RangeNode, OperatorNode, FunctionNode(num_args). -/
inductive Node where
  | operand (o : Operand)
  | pre
  | inf (op : InOp)
  | post
  | func (name : List Char) (nargs : Nat)
  deriving DecidableEq, Repr, Inhabited

/-- The tree built by `_build_ast` (children ordered by `pos`). -/
inductive Expr where
  | operand (o : Operand)
  | neg (e : Expr)
  | pct (e : Expr)
  | bin (op : InOp) (l r : Expr)
  | func (name : List Char) (args : List Expr)
  deriving Repr, Inhabited

/-- Python binary / comparison operators that `emit` can produce. -/
inductive PyOp where
  | pow | mul | div | add | sub | bitand | eq | ne | lt | gt | le | ge
  deriving DecidableEq, Repr, Inhabited

/-- Tokens of the emitted Python expression (what Python's `tokenize` yields for `python_code`).
    `str body` holds the characters between the double quotes exactly as written (escapes unprocessed).
    A unary minus is the token `op .sub`. -/
inductive PyTok where
  | name (s : List Char)
  | num (s : List Char)
  | str (body : List Char)
  | op (o : PyOp)
  | lpar | rpar | comma
  deriving DecidableEq, Repr, Inhabited

/-- The Python expression tree (`ast.parse(python_code, mode='eval')`) restricted to what `emit` produces.
    `str` holds the *denoted* characters of the literal (escape sequences processed). -/
inductive PyExpr where
  | name (s : List Char)
  | num (s : List Char)
  | str (s : List Char)
  | neg (e : PyExpr)
  | bin (op : PyOp) (l r : PyExpr)
  | call (f : List Char) (args : List PyExpr)
  | tuple (items : List PyExpr)
  deriving Repr, Inhabited

end Pycel.Formula

/-
  Formula model, part 4: the fragment of Python's expression grammar that `emit` can produce, the Python meaning of a
  formula tree (`toPy`), and evaluation parametrised over the run-time operator semantics (C10 owns those).

  `pyParse` models CPython's parser on token lists (python.org reference grammar, "Expressions"):
      comparison: bitand (compop bitand)*       -- a chain of two or more comparisons is outside the fragment (none)
      bitand:     bitand '&' sum | sum
      sum:        sum ('+'|'-') term | term
      term:       term ('*'|'/') factor | factor
      factor:     '-' factor | power
      power:      primary ['**' factor]
      primary:    NAME '(' [args] ')' | atom
      atom:       NAME | NUMBER | STRING | '(' expr ')' | '(' ')' | '(' expr ',' [expr (',' expr)* [',']] ')'
  written as precedence climbing over binding levels (comparison 0, & 1, + - 2, * / 3, unary minus 4, ** 5).
  It is validated against CPython's own `ast.parse` on every correspondence run (emitted code and random token lists
  of the fragment); it is the one part of the model that describes Python rather than pycel.
  Outside the fragment (answer `none`): chained comparisons, calls on anything but a NAME, adjacent string literals,
  unary `+`/`~`, octal/hex/unicode escapes in strings, digit-group underscores and complex/hex numbers.
  Not modelled: CPython rejects a NUL character in source text (XML-legal cell text cannot contain one).
-/
import Pycel.Model.Formula.Emit
namespace Pycel.Formula

/-! ## lexical level -/

/-- the character a recognised single-character escape denotes -/
def escChar (d : Char) : Option Char :=
  if d = '\\' then some '\\' else if d = '"' then some '"' else if d = '\'' then some '\''
  else if d = 'n' then some '\n' else if d = 'r' then some '\r' else if d = 't' then some '\t'
  else if d = 'a' then some (Char.ofNat 7) else if d = 'b' then some (Char.ofNat 8)
  else if d = 'f' then some (Char.ofNat 12) else if d = 'v' then some (Char.ofNat 11)
  else none

/-- the characters denoted by the body of a double-quoted, non-raw Python string literal -/
def pyUnescape : List Char → Option (List Char)
  | [] => some []
  | [c] => if c = '\\' ∨ c = '"' ∨ c = '\n' ∨ c = '\r' then none else some [c]
  | c :: d :: r =>
    if c = '\\' then
      -- octal / hex / unicode escapes and line continuation: outside the fragment
      if isDigit d ∨ d = 'x' ∨ d = 'N' ∨ d = 'u' ∨ d = 'U' ∨ d = '\n' ∨ d = '\r' then none
      else match escChar d with
        | some x => (pyUnescape r).map (x :: ·)
        | none => (pyUnescape r).map (fun t => '\\' :: d :: t)   -- unrecognised escape: both characters stay
    else if c = '"' ∨ c = '\n' ∨ c = '\r' then none
    else (pyUnescape (d :: r)).map (c :: ·)

/-- value of a digit string read in base 10, most significant first -/
def digitsVal (acc : Nat) : List Char → Nat
  | [] => acc
  | c :: r => digitsVal (acc * 10 + (c.toNat - 48)) r

/-- split a numeric literal `int [. frac] [(e|E) [+|-] exp]` into its parts -/
structure NumParts where
  int : List Char
  frac : List Char
  expNeg : Bool
  exp : List Char
  hasDot : Bool
  hasExp : Bool

def splitNum (t : List Char) : Option NumParts :=
  let int := t.takeWhile isDigit
  let r := t.dropWhile isDigit
  let (hasDot, r) := match r with | '.' :: r' => (true, r') | _ => (false, r)
  let frac := if hasDot then r.takeWhile isDigit else []
  let r := if hasDot then r.dropWhile isDigit else r
  if int.isEmpty ∧ frac.isEmpty then none else
  match r with
  | [] => some ⟨int, frac, false, [], hasDot, false⟩
  | e :: r' =>
    if e = 'e' ∨ e = 'E' then
      let (neg, ds) := match r' with | '-' :: x => (true, x) | '+' :: x => (false, x) | x => (false, x)
      if ds.isEmpty ∨ ¬ ds.all isDigit then none else some ⟨int, frac, neg, ds, hasDot, true⟩
    else none

/-- the exact rational a decimal literal denotes (Excel's reading of a NUMBER token) -/
def numValue? (t : List Char) : Option Rat :=
  (splitNum t).map fun p =>
    let m : Rat := (digitsVal 0 (p.int ++ p.frac) : Nat)
    let scale : Rat := ((10 : Nat) ^ p.frac.length : Nat)
    let e : Rat := ((10 : Nat) ^ digitsVal 0 p.exp : Nat)
    if p.expNeg then m / scale / e else m / scale * e

/-- Python's reading of a NUMBER token: a pure integer literal must not have a leading zero unless it is all zeros -/
def pyNumValue? (t : List Char) : Option Rat :=
  if t.all isDigit ∧ t.length > 1 ∧ t.head? = some '0' ∧ ¬ t.all (· = '0') then none else numValue? t

/-! ## the parser -/

def PyOp.level : PyOp → Nat
  | .eq | .ne | .lt | .gt | .le | .ge => 0
  | .bitand => 1
  | .add | .sub => 2
  | .mul | .div => 3
  | .pow => 5

abbrev PRes (α : Type) := Option (α × List PyTok)

mutual
/-- primary: atom or NAME(args) -/
def pPrimary : Nat → List PyTok → PRes PyExpr
  | 0, _ => none
  | n + 1, ts =>
    match ts with
    | .name s :: .lpar :: rest => (pItems n rest).map fun (args, rest') => (.call s args.1, rest')
    | .name s :: rest => some (.name s, rest)
    | .num s :: rest => if (pyNumValue? s).isSome then some (.num s, rest) else none
    | .str b :: rest =>
      match rest with
      | .str _ :: _ => none
      | _ => (pyUnescape b).map fun s => (.str s, rest)
    | .lpar :: rest =>
      (pItems n rest).map fun (items, rest') =>
        match items with
        | ([x], false) => (x, rest')
        | (xs, _) => (.tuple xs, rest')
    | _ => none
/-- after `(`: comma-separated expressions up to and including `)`; the flag says whether a comma was seen -/
def pItems : Nat → List PyTok → PRes (List PyExpr × Bool)
  | 0, _ => none
  | n + 1, ts =>
    match ts with
    | .rpar :: rest => some (([], false), rest)
    | _ =>
      (pExpr n 0 ts).bind fun (x, r) =>
        match r with
        | .rpar :: rest => some (([x], false), rest)
        | .comma :: r' => (pItems n r').map fun (xs, rest) => ((x :: xs.1, true), rest)
        | _ => none
/-- an expression all of whose top-level operators bind at level ≥ `min` -/
def pExpr : Nat → Nat → List PyTok → PRes PyExpr
  | 0, _, _ => none
  | n + 1, min, ts =>
    match ts with
    | .op .sub :: rest => (pExpr n 4 rest).bind fun (x, r) => pLoop n min (.neg x) r
    | _ => (pPrimary n ts).bind fun (x, r) => pLoop n min x r
/-- continue `lhs` with binary operators of level ≥ `min` -/
def pLoop : Nat → Nat → PyExpr → List PyTok → PRes PyExpr
  | 0, _, _, _ => none
  | n + 1, min, lhs, ts =>
    match ts with
    | .op o :: rest =>
      if o.level < min then some (lhs, ts)
      else if o = .pow then
        (pExpr n 4 rest).bind fun (rhs, r) => pLoop n min (.bin .pow lhs rhs) r
      else if o.level = 0 then
        (pExpr n 1 rest).bind fun (rhs, r) =>
          match r with
          | .op o2 :: _ => if o2.level = 0 then none else some (.bin o lhs rhs, r)
          | _ => some (.bin o lhs rhs, r)
      else
        (pExpr n (o.level + 1) rest).bind fun (rhs, r) => pLoop n min (.bin o lhs rhs) r
    | _ => some (lhs, ts)
end

def pyFuel (ts : List PyTok) : Nat := 4 * ts.length + 8

/-- `ast.parse(code, mode='eval').body` on a token list -/
def pyParse (ts : List PyTok) : Option PyExpr :=
  match pExpr (pyFuel ts) 0 ts with
  | some (e, []) => some e
  | _ => none

/-! ## the Python meaning of a formula tree -/

/-- doubled quotes of an Excel text literal body → the characters it denotes -/
def undouble : List Char → List Char
  | [] => []
  | [c] => [c]
  | c :: d :: r => if c = '"' ∧ d = '"' then '"' :: undouble r else c :: undouble (d :: r)

def toPyOperand : Operand → PyExpr
  | .number t => .num (emitNumber true t)
  | .text raw => .str (undouble (stripQuotes raw))
  | .logical b => .name (if b then nmTrue else nmFalse)
  | .error e => .str (errText e)
  | .range t =>
    let a := t.filter (· ≠ '$')
    .call (if a.contains ':' then nmR else nmC) [.str a]
  | .empty => .name nmNone

mutual
/-- what the formula tree means as a Python expression: same shape, Python operator names, `x%` = `x / 100` -/
def toPy : Expr → PyExpr
  | .operand o => toPyOperand o
  | .neg e => .neg (toPy e)
  | .pct e => .bin .div (toPy e) (.num ['1', '0', '0'])
  | .bin op l r =>
    match op with
    | .comma => .tuple [toPy l, toPy r]
    | .colon | .space => .call nmR [.call nmStr [.bin op.pyOp (toPy l) (toPy r)]]   -- reference operators: C04/C11
    | _ => .bin op.pyOp (toPy l) (toPy r)
  | .func name args =>
    let f := pyFuncBase name
    if f = nmPi then .name nmPi
    else if f = ['t', 'r', 'u', 'e'] then .name nmTrue
    else if f = ['f', 'a', 'l', 's', 'e'] then .name nmFalse
    else if f = ['a', 'r', 'r', 'a', 'y'] ∨ f = ['a', 'r', 'r', 'a', 'y', 'r', 'o', 'w'] then .tuple (toPyList args)
    else .call (pyFuncName name) (toPyList args)
def toPyList : List Expr → List PyExpr
  | [] => []
  | e :: es => toPy e :: toPyList es
end

/-! ## evaluation, parametrised over the run-time semantics (`excel_operator_operand_fixup`, the function library,
    cell reads through `_C_`/`_R_`): C10 / C13-C20 / the engine own those -/

structure Sem (α : Type) where
  num : List Char → α
  str : List Char → α
  name : List Char → α
  /-- `excel_operator_operand_fixup(EMPTY, 'USub', x)` -/
  neg : α → α
  /-- `excel_operator_operand_fixup(l, op, r)` -/
  bin : PyOp → α → α → α
  call : List Char → List α → α
  tuple : List α → α

mutual
/-- value of the compiled lambda: `OperatorWrapper` turns UnaryOp / BinOp / Compare into fixup calls -/
def evalPy (sem : Sem α) : PyExpr → α
  | .name s => sem.name s
  | .num s => sem.num s
  | .str s => sem.str s
  | .neg e => sem.neg (evalPy sem e)
  | .bin op l r => sem.bin op (evalPy sem l) (evalPy sem r)
  | .call f args => sem.call f (evalPyList sem args)
  | .tuple items => sem.tuple (evalPyList sem items)
def evalPyList (sem : Sem α) : List PyExpr → List α
  | [] => []
  | e :: es => evalPy sem e :: evalPyList sem es
end

mutual
/-- value of a formula tree by Excel's reading: literals denote themselves, `-x`, `x%` = x/100, `l op r`, `f(args)` -/
def evalExcel (sem : Sem α) : Expr → α
  | .operand o => evalPy sem (toPyOperand o)
  | .neg e => sem.neg (evalExcel sem e)
  | .pct e => sem.bin .div (evalExcel sem e) (sem.num ['1', '0', '0'])
  | .bin op l r =>
    match op with
    | .comma => sem.tuple [evalExcel sem l, evalExcel sem r]
    | .colon | .space => sem.call nmR [sem.call nmStr [sem.bin op.pyOp (evalExcel sem l) (evalExcel sem r)]]
    | _ => sem.bin op.pyOp (evalExcel sem l) (evalExcel sem r)
  | .func name args =>
    let f := pyFuncBase name
    if f = nmPi then sem.name nmPi
    else if f = ['t', 'r', 'u', 'e'] then sem.name nmTrue
    else if f = ['f', 'a', 'l', 's', 'e'] then sem.name nmFalse
    else if f = ['a', 'r', 'r', 'a', 'y'] ∨ f = ['a', 'r', 'r', 'a', 'y', 'r', 'o', 'w'] then
      sem.tuple (evalExcelList sem args)
    else sem.call (pyFuncName name) (evalExcelList sem args)
def evalExcelList (sem : Sem α) : List Expr → List α
  | [] => []
  | e :: es => evalExcel sem e :: evalExcelList sem es
end

end Pycel.Formula

/-
  Formula model, part 2: `_parse_to_rpn` (amend step + shunting-yard with vararg counting) and `_build_ast`.
  Anchors: src/pycel/excelformula.py 641-767 (`_parse_to_rpn`), 769-822 (`_build_ast`).
  The model follows the code statement by statement; a raised FormulaParserError / AssertionError / IndexError is `none`.
-/
import Pycel.Model.Formula.Syntax
namespace Pycel.Formula

/-! ## amend step (lines 652-694): looks at each token and its successor -/

def arrayName : List Char := ['A', 'R', 'R', 'A', 'Y']
def arrayRowName : List Char := ['A', 'R', 'R', 'A', 'Y', 'R', 'O', 'W']

/-- the tokens appended for `token` when the next token is `next` -/
def amend1 (t : RawTok) (next : Option RawTok) : List Tok :=
  match t with
  | .funcOpen name =>
    if next = some .argSep then [.funcOpen name, .parenOpen, .operand .empty] else [.funcOpen name, .parenOpen]
  | .funcClose => [.close]
  | .arrayOpen => [.funcOpen arrayName, .parenOpen, .funcOpen arrayRowName, .parenOpen]
  | .arrayClose => [.close, .close]
  | .rowSep => [.close, .argSep, .funcOpen arrayRowName, .parenOpen]
  | .argSep =>
    if next = some .argSep ∨ next = some .funcClose then [.argSep, .operand .empty] else [.argSep]
  | .parenOpen => [.parenOpen]
  | .parenClose => [.close]
  | .operand o => [.operand o]
  | .pre => [.pre]
  | .inf op => [.inf op]
  | .post => [.post]
  | .wspace => [.wspace]

def amend : List RawTok → List Tok
  | [] => []
  | t :: rest => amend1 t rest.head? ++ amend rest

/-! ## main loop (lines 696-767) -/

/-- parser state: output, operator stack (head = top), were_values, arg_count (heads = last elements) -/
structure St where
  out : List Node
  stk : List Tok
  wv : List Bool
  ac : List Nat
  deriving Repr

/-- `token.is_operator` -/
def Tok.isOperator : Tok → Bool
  | .pre | .inf _ | .post => true
  | _ => false

/-- `token.subtype == OPEN` for a token that can sit on the stack -/
def Tok.isOpen : Tok → Bool
  | .parenOpen | .funcOpen _ => true
  | _ => false

/-- `token.precedence` (key 'u' for a prefix operator) -/
def Tok.prec : Tok → Nat × Bool
  | .pre => precOf ['u']
  | .post => precOf ['%']
  | .inf op => precOf op.sym
  | _ => (0, true)

/-- `ASTNode.create(stack.pop())` for a token popped off the operator stack -/
def Tok.node : Tok → Node
  | .pre => .pre
  | .post => .post
  | .inf op => .inf op
  | .funcOpen name => .func name 0
  | .operand o => .operand o
  | _ => .pre   -- unreachable: such tokens are never popped into the output

/-- `if were_values: were_values[-1] = True` -/
def markTop : List Bool → List Bool
  | [] => []
  | _ :: r => true :: r

/-- `while stack and stack[-1].is_operator and token.precedence < stack[-1].precedence: output.append(pop)` -/
def popOps (p : Nat × Bool) : List Node → List Tok → List Node × List Tok
  | out, [] => (out, [])
  | out, s :: stk =>
    if s.isOperator && precLt p s.prec then popOps p (out ++ [s.node]) stk else (out, s :: stk)

/-- `while stack and stack[-1].subtype != OPEN: output.append(pop)` -/
def popToOpen : List Node → List Tok → List Node × List Tok
  | out, [] => (out, [])
  | out, s :: stk => if s.isOpen then (out, s :: stk) else popToOpen (out ++ [s.node]) stk

def step (st : St) : Tok → Option St
  | .operand o => some { st with out := st.out ++ [.operand o], wv := markTop st.wv }
  | .funcOpen name =>
    some { st with stk := .funcOpen name :: st.stk, ac := 0 :: st.ac, wv := false :: markTop st.wv }
  | .argSep =>
    let (out, stk) := popToOpen st.out st.stk
    match st.wv, st.ac with
    | _ :: wv, n :: ac => some { out := out, stk := stk, wv := false :: wv, ac := (n + 1) :: ac }
    | _, _ => none
  | .pre => let (out, stk) := popOps (Tok.prec .pre) st.out st.stk
            some { st with out := out, stk := .pre :: stk }
  | .inf op => let (out, stk) := popOps (Tok.prec (.inf op)) st.out st.stk
               some { st with out := out, stk := .inf op :: stk }
  | .post => let (out, stk) := popOps (Tok.prec .post) st.out st.stk
             some { st with out := out, stk := .post :: stk }
  | .parenOpen => some { st with stk := .parenOpen :: st.stk }
  | .close =>
    match popToOpen st.out st.stk with
    | (_, []) => none
    | (out, _ :: .funcOpen name :: stk) =>
      match st.wv, st.ac with
      | w :: wv, n :: ac => some { out := out ++ [.func name (n + (if w then 1 else 0))], stk := stk, wv := wv, ac := ac }
      | _, _ => none
    | (out, _ :: stk) => some { st with out := out, stk := stk }
  | .wspace => some st

def run (st : St) : List Tok → Option St
  | [] => some st
  | t :: ts => (step st t).bind (fun st' => run st' ts)

/-- the final `while stack:` loop: an OPEN left on the stack is "Mismatched or misplaced parentheses" -/
def finish : List Node → List Tok → Option (List Node)
  | out, [] => some out
  | out, s :: stk => if s.isOpen then none else finish (out ++ [s.node]) stk

def St.init : St := { out := [], stk := [], wv := [], ac := [] }

/-- the main loop of `_parse_to_rpn` on an amended token stream -/
def parseRpn (ts : List Tok) : Option (List Node) :=
  (run St.init ts).bind (fun st => finish st.out st.stk)

/-- `_parse_to_rpn` from the tokenizer's items -/
def parseRaw (ts : List RawTok) : Option (List Node) := parseRpn (amend ts)

/-! ## `_build_ast` (lines 769-822): production stack, head = top -/

def buildStep (stack : List Expr) : Node → Option (List Expr)
  | .operand o => some (.operand o :: stack)
  | .inf op =>
    match stack with
    | a2 :: a1 :: rest => some (.bin op a1 a2 :: rest)
    | _ => none
  | .pre =>
    match stack with
    | a :: rest => some (.neg a :: rest)
    | _ => none
  | .post =>
    match stack with
    | a :: rest => some (.pct a :: rest)
    | _ => none
  | .func name n => some (.func name (stack.take n).reverse :: stack.drop n)

def buildRun (stack : List Expr) : List Node → Option (List Expr)
  | [] => some stack
  | n :: ns => (buildStep stack n).bind (fun s => buildRun s ns)

/-- `_build_ast`: `assert 1 == len(stack)` -/
def buildAst (rpn : List Node) : Option Expr :=
  match buildRun [] rpn with
  | some [e] => some e
  | _ => none

/-- formula tokens → tree (`ExcelFormula.ast`) -/
def parse (ts : List Tok) : Option Expr := (parseRpn ts).bind buildAst

/-! ## the RPN of a tree (specification side of `C02_build`) -/

mutual
def rpn : Expr → List Node
  | .operand o => [.operand o]
  | .neg e => rpn e ++ [.pre]
  | .pct e => rpn e ++ [.post]
  | .bin op l r => rpn l ++ rpn r ++ [.inf op]
  | .func name args => rpnList args ++ [.func name args.length]
def rpnList : List Expr → List Node
  | [] => []
  | e :: es => rpn e ++ rpnList es
end

end Pycel.Formula

/-
  Formula model, part 3: code emission as a Python token list.
  Anchors: src/pycel/excelformula.py 267-311 (OperatorNode.emit), 314-333 (OperandNode.emit), 336-372 (RangeNode.emit),
           409-459 (FunctionNode.emit, func_pi/true/false/array/arrayrow).

  PROPERTY-DRIVEN points (C02: "negation binds tighter than % then ^ ...", "a text literal yields exactly its
  characters (doubled quotes, backslashes, newlines, braces), numbers their value"); `fix = true` is what the property
  dictates (and what the repaired code does), `fix = false` is the code as pinned before the `fix:` commits:
    * a prefix operator that is the LEFT operand of `^` is parenthesised (Python's `**` binds tighter than a unary
      operator on its left: `-2 ** 2` is `-(2 ** 2)`);
    * backslash, newline and carriage return inside a text literal are escaped (`\\`, `\n`, `\r`);
    * an all-digit number token loses its leading zeros (`007` is not a Python literal).
  Everything else follows the code.  Not modelled (the emitter of these needs the cell / address layer): the handlers
  func_row, func_column, func_offset, func_indirect, func_subtotal — such names are emitted as plain calls here and are
  kept out of the correspondence generator; RangeNode address normalisation (`AddressRange.create`): the model strips
  `$` and chooses `_R_` when the text contains `:`; NUMBER tokens that are not decimal literals (openpyxl classifies
  by `float()`, so `inf`, `nan`, `Infinity` are NUMBERs): they are emitted verbatim as the code does, but Python's lexer
  reads such text as a NAME where the model says `PyTok.num` (the correspondence compares those on rpn / tree only).
-/
import Pycel.Model.Formula.Syntax
namespace Pycel.Formula

/-- parent context of a node: no parent, parent is a FunctionNode, or parent is an OperatorNode
    (`powLeft` = the parent is `^` and this node is its left operand) -/
inductive Ctx where
  | root | funcArg | opChild (powLeft : Bool)
  deriving DecidableEq, Repr, Inhabited

def Ctx.isOp : Ctx → Bool
  | .opChild _ => true
  | _ => false

/-- "avoid needless parentheses": `if parent and not isinstance(parent, FunctionNode): ss = "(" + ss + ")"` -/
def wrap (ctx : Ctx) (ts : List PyTok) : List PyTok :=
  if ctx.isOp then .lpar :: ts ++ [.rpar] else ts

/-! ### names -/

def lowerAscii (c : Char) : Char := if 65 ≤ c.toNat ∧ c.toNat ≤ 90 then Char.ofNat (c.toNat + 32) else c
def upperAscii (c : Char) : Char := if 97 ≤ c.toNat ∧ c.toNat ≤ 122 then Char.ofNat (c.toNat - 32) else c

def xlfnPrefix : List Char := ['_', 'x', 'l', 'f', 'n', '.']

/-- FunctionNode.emit, name part: lower, `_x_` names upper, strip `_xlfn.`, `.` → `_`  (ASCII case mapping) -/
def pyFuncBase (name : List Char) : List Char :=
  let f := name.map lowerAscii
  let f := if f.head? = some '_' ∧ f.getLast? = some '_' then f.map upperAscii else f
  let f := if xlfnPrefix.isPrefixOf f then f.drop 6 else f
  f.map (fun c => if c = '.' then '_' else c)

/-- `self.func_map.get(func, func)` -/
def pyFuncName (name : List Char) : List Char :=
  let f := pyFuncBase name
  (Gen.funcMap.lookup f).getD f

/-- Python spelling of an arithmetic / comparison infix operator (`op_map`, identity otherwise) -/
def InOp.pyOp : InOp → PyOp
  | .pow => .pow | .mul => .mul | .div => .div | .add => .add | .sub => .sub | .concat => .bitand
  | .eq => .eq | .lt => .lt | .gt => .gt | .le => .le | .ge => .ge | .ne => .ne
  | .colon => .pow      -- range union is emitted with `**`
  | .space => .bitand   -- range intersection with `&`
  | .comma => .bitand   -- unused (`,` is emitted as a comma token)

/-! ### operands -/

def isDigit (c : Char) : Bool := 48 ≤ c.toNat && c.toNat ≤ 57

/-- drop leading zeros, keeping the last character -/
def stripZeros : List Char → List Char
  | c :: d :: r => if c = '0' then stripZeros (d :: r) else c :: d :: r
  | t => t

def emitNumber (fix : Bool) (t : List Char) : List Char :=
  if fix && t.all isDigit then stripZeros t else t

/-- the body of the Python literal for the text between the quotes:
    `value.replace('""', '\\"')`, and when `fix` also backslash, newline, carriage return -/
def escBody (fix : Bool) : List Char → List Char
  | [] => []
  | [c] =>
    if fix && c = '\\' then ['\\', '\\']
    else if fix && c = '\n' then ['\\', 'n']
    else if fix && c = '\r' then ['\\', 'r']
    else [c]
  | c :: d :: r =>
    if c = '"' ∧ d = '"' then '\\' :: '"' :: escBody fix r
    else if fix && c = '\\' then '\\' :: '\\' :: escBody fix (d :: r)
    else if fix && c = '\n' then '\\' :: 'n' :: escBody fix (d :: r)
    else if fix && c = '\r' then '\\' :: 'r' :: escBody fix (d :: r)
    else c :: escBody fix (d :: r)

/-- `value[1:-1]` when the value starts and ends with a double quote -/
def stripQuotes (v : List Char) : List Char :=
  if v.head? = some '"' ∧ v.getLast? = some '"' then (v.drop 1).dropLast else v

def errText (e : Err) : List Char :=
  match e with
  | .null => ['#', 'N', 'U', 'L', 'L', '!'] | .div0 => ['#', 'D', 'I', 'V', '/', '0', '!']
  | .value => ['#', 'V', 'A', 'L', 'U', 'E', '!'] | .ref => ['#', 'R', 'E', 'F', '!']
  | .name => ['#', 'N', 'A', 'M', 'E', '?'] | .num => ['#', 'N', 'U', 'M', '!'] | .na => ['#', 'N', '/', 'A']

def nmTrue : List Char := ['T', 'r', 'u', 'e']
def nmFalse : List Char := ['F', 'a', 'l', 's', 'e']
def nmNone : List Char := ['N', 'o', 'n', 'e']
def nmC : List Char := ['_', 'C', '_']
def nmR : List Char := ['_', 'R', '_']
def nmREF : List Char := ['_', 'R', 'E', 'F', '_']
def nmStr : List Char := ['s', 't', 'r']
def nmPi : List Char := ['p', 'i']

/-- OperandNode.emit / RangeNode.emit -/
def emitOperand (fix : Bool) : Operand → List PyTok
  | .logical b => [.name (if b then nmTrue else nmFalse)]
  | .empty => [.name nmNone]
  | .text raw => if raw.length > 2 then [.str (escBody fix (stripQuotes raw))] else [.str (stripQuotes raw)]
  | .error e => [.str (escBody fix (errText e))]
  | .number t => [.num (emitNumber fix t)]
  | .range t =>
    let a := t.filter (· ≠ '$')
    [.name (if a.contains ':' then nmR else nmC), .lpar, .str a, .rpar]

/-- `str.replace(pat, rep)`: non-overlapping, left to right (fuel = length of the text) -/
def replaceAux (pat rep : List Char) : Nat → List Char → List Char
  | 0, s => s
  | _ + 1, [] => []
  | n + 1, c :: r =>
    if pat.isPrefixOf (c :: r) then rep ++ replaceAux pat rep n ((c :: r).drop pat.length)
    else c :: replaceAux pat rep n r

def replaceRC (s : List Char) : List Char :=
  let s1 := replaceAux nmR nmREF s.length s
  replaceAux nmC nmREF s1.length s1

/-- `.replace('_R_', '_REF_').replace('_C_', '_REF_')` on the emitted text of the operands of a reference operator.
    The code replaces in the TEXT, so the substring is also rewritten inside names and inside text literals
    (`"_R_"` becomes `"_REF_"`); the model follows the code (reference operators are outside C02's grammar). -/
def refify (ts : List PyTok) : List PyTok :=
  ts.map fun t => match t with
    | .name s => .name (replaceRC s)
    | .str s => .str (replaceRC s)
    | t => t

/-- the dedicated emitters `FunctionNode.func_*` that `emitE` models -/
def emitHandlers : List (List Char) :=
  [['p', 'i'], ['t', 'r', 'u', 'e'], ['f', 'a', 'l', 's', 'e'], ['a', 'r', 'r', 'a', 'y'],
   ['a', 'r', 'r', 'a', 'y', 'r', 'o', 'w']]

/-- the dedicated emitters that need the cell / address layer and are outside this model (kept out of C02's scope) -/
def contextHandlers : List (List Char) :=
  [['r', 'o', 'w'], ['c', 'o', 'l', 'u', 'm', 'n'], ['o', 'f', 'f', 's', 'e', 't'],
   ['i', 'n', 'd', 'i', 'r', 'e', 'c', 't'], ['s', 'u', 'b', 't', 'o', 't', 'a', 'l']]

/-! ### nodes -/

mutual
/-- `node.emit` for a node whose parent context is `ctx` -/
def emitE (fix : Bool) (ctx : Ctx) : Expr → List PyTok
  | .operand o => emitOperand fix o
  | .neg e =>
    let s := .op .sub :: emitE fix (.opChild false) e
    if fix && ctx = .opChild true then .lpar :: s ++ [.rpar] else s
  | .pct e => wrap ctx (emitE fix (.opChild false) e ++ [.op .div, .num ['1', '0', '0']])
  | .bin op l r =>
    let a := emitE fix (.opChild (op = .pow)) l
    let b := emitE fix (.opChild false) r
    match op with
    | .comma => wrap ctx (a ++ .comma :: b)
    | .colon | .space =>
      wrap ctx (.name nmR :: .lpar :: .name nmStr :: .lpar :: refify (a ++ .op op.pyOp :: b) ++ [.rpar, .rpar])
    | _ => wrap ctx (a ++ .op op.pyOp :: b)
  | .func name args =>
    let f := pyFuncBase name
    if f = nmPi then [.name nmPi]
    else if f = ['t', 'r', 'u', 'e'] then [.name nmTrue]
    else if f = ['f', 'a', 'l', 's', 'e'] then [.name nmFalse]
    else if f = ['a', 'r', 'r', 'a', 'y'] then .lpar :: emitRows fix args ++ [.comma, .rpar]
    else if f = ['a', 'r', 'r', 'a', 'y', 'r', 'o', 'w'] then emitArgs fix args
    else .name (pyFuncName name) :: .lpar :: emitArgs fix args ++ [.rpar]
/-- `comma_join_emit()` -/
def emitArgs (fix : Bool) : List Expr → List PyTok
  | [] => []
  | e :: es => emitE fix .funcArg e ++ emitRest fix es
def emitRest (fix : Bool) : List Expr → List PyTok
  | [] => []
  | e :: es => .comma :: emitE fix .funcArg e ++ emitRest fix es
/-- `comma_join_emit(fmt_str='({},)')` -/
def emitRows (fix : Bool) : List Expr → List PyTok
  | [] => []
  | e :: es => .lpar :: emitE fix .funcArg e ++ [.comma, .rpar] ++ emitRowsRest fix es
def emitRowsRest (fix : Bool) : List Expr → List PyTok
  | [] => []
  | e :: es => .comma :: .lpar :: emitE fix .funcArg e ++ [.comma, .rpar] ++ emitRowsRest fix es
end

/-- `ExcelFormula.python_code` (as tokens) as the property requires it / as repaired -/
def emit (e : Expr) : List PyTok := emitE true .root e

/-- `python_code` of the code as pinned before the `fix:` commits of C02 -/
def emitCurrent (e : Expr) : List PyTok := emitE false .root e

end Pycel.Formula

/-
  C06 — iterative calculation: the pass loop, the tracker and the cycle cells of pycel.

  Anchors (src/pycel):
    excelcompiler.py:875-899   ExcelCompiler._evaluate_iterative          -> `resolveIter`, `resolveTol`, `loop`, `evaluateIter`
    excelutil.py:1280-1325     _IterativeEvalTracker                      -> `St.todo`, `St.computed`, `clear`, `done`
    excelcompiler.py:1137-1187 _CycleCell (value getter/setter, start_calcs, needs_calc) -> `curValue`, `setValue`,
                                                                              `startCalcs`, `needsCalc`
    excelcompiler.py:1043-1052 _CellBase.close_enough(value, rel=0.00001, tol=…)  -> `closeEnough`
    excelcompiler.py:800-838   ExcelCompiler._evaluate (depth first, one cell) -> `evalCell`
    excelcompiler.py:456-458   set_value (no reset in iterative mode)     -> `setInput`

  Policy (DESIGN §4.1): the model follows the code line by line EXCEPT for the three behaviours the property fixes:
    (P1) a cell that is first brought into the model during a pass is NOT pre-marked "computed" (the code marks it in
         `_Cell.__init__` through the value setter, so the first pass over fresh cells computes nothing);
    (P2) a range read is transparent: it reads its cells, in row-major order, every time (the code caches the tuple in
         `_CellRange.value` forever in iterative mode);
    (P3) the `cycles={'iterations':…, 'tolerance':…}` configuration is honoured (the code overwrites it with the
         workbook's calculation settings).
  Numbers are exact `Rat`; Python `None` is `none`.  A formula is a list of reads (cells in the order the compiled
  Python expression evaluates them — all pycel functions including IF are eager) plus a pure combining function.
  Core Lean only; the constants (`rel`, the comparison of close_enough, the defaults 10000 / 0.01) come from
  Generated/IterConsts.lean, regenerated from the live source on every run (harness/tablegen/c06.py).
-/
import Pycel.Generated.IterConsts
namespace Pycel.Iter

/-- a cell value: `none` = Python `None` (blank), `some q` = a number -/
abbrev V := Option Rat

/-- numeric reading of a value in arithmetic (`None` counts as 0, excelutil.py fixup) -/
def num (v : V) : Rat := v.getD 0

def rabs (x : Rat) : Rat := if x < 0 then -x else x

/-- `rel` of `_CellBase.close_enough` (live signature default) -/
def rel : Rat := (Gen.closeEnoughRelNum : Rat) / (Gen.closeEnoughRelDen : Rat)

/-- default limits of `_evaluate_iterative` (live literals) -/
def defaultIterations : Int := (Gen.iterDefaultIterations : Int)
def defaultTol : Rat := (Gen.iterDefaultTolNum : Rat) / (Gen.iterDefaultTolDen : Rat)

/-- the comparison of `close_enough` with a tolerance: `<=` (current code) or `<` -/
def withinTol (d bound : Rat) : Bool :=
  if Gen.closeEnoughInclusive then decide (d ≤ bound) else decide (d < bound)

/-- `self.close_enough(self._prev_value, tol=tolerance)`: both numbers → `abs(prev - cur) <= (1 + rel) * tol`,
    otherwise `cur == prev` -/
def closeEnough (tol : Rat) (cur prev : V) : Bool :=
  match cur, prev with
  | some x, some y => withinTol (rabs (y - x)) ((1 + rel) * tol)
  | none, none => true
  | _, _ => false

/-- a compiled formula: the cells it reads (in evaluation order) and how the read values combine -/
structure Formula where
  reads : List Nat
  comb : List V → V

/-- the static part of a workbook: `none` = input (constant) cell, `some f` = formula cell -/
abbrev Workbook := Nat → Option Formula

/-- `_CycleCell`: `_value`, `_prev_value`, `wip` -/
structure Cell where
  val : V
  prev : V
  wip : Bool
  deriving Inhabited

def Cell.blank : Cell := ⟨none, none, false⟩

/-- association list of cells; absent = blank cell -/
abbrev Cells := List (Nat × Cell)

def get : Cells → Nat → Cell
  | [], _ => Cell.blank
  | (k, x) :: r, c => if k = c then x else get r c

def upd : Cells → Nat → Cell → Cells
  | [], c, x => [(c, x)]
  | (k, y) :: r, c, x => if k = c then (k, x) :: r else (k, y) :: upd r c x

/-- engine state: the cells, the tracker's `todo`/`computed` sets, an evaluation log (one entry per `start_calcs`,
    this is what a counting plugin function observes) and an out-of-fuel flag (never set with adequate fuel) -/
structure St where
  cells : Cells
  todo : List Nat
  computed : List Nat
  evals : List Nat
  oof : Bool

def St.cell (s : St) (c : Nat) : Cell := get s.cells c

/-- `_CycleCell.needs_calc`: `not self.wip and not tracker.is_calced(self)` -/
def needsCalc (s : St) (c : Nat) : Bool := !(s.cell c).wip && !(s.computed.contains c)

/-- `_CycleCell.value` getter: the previous value while work in progress -/
def curValue (s : St) (c : Nat) : V := if (s.cell c).wip then (s.cell c).prev else (s.cell c).val

/-- `_CycleCell.start_calcs` -/
def startCalcs (s : St) (c : Nat) : St :=
  { s with cells := upd s.cells c { (s.cell c) with wip := true, prev := (s.cell c).val }, evals := c :: s.evals }

/-- `_CycleCell.value` setter: mark computed, clear wip, store; a change beyond the tolerance schedules another pass -/
def setValue (tol : Rat) (s : St) (c : Nat) (v : V) : St :=
  { s with cells := upd s.cells c { (s.cell c) with wip := false, val := v },
           computed := c :: s.computed,
           todo := if closeEnough tol v (s.cell c).prev then s.todo else c :: s.todo }

/-- evaluate a list of cells left to right, threading the state -/
def mapAccum (step : Nat → St → V × St) : List Nat → St → List V × St
  | [], s => ([], s)
  | c :: cs, s => ((step c s).1 :: (mapAccum step cs (step c s).2).1, (mapAccum step cs (step c s).2).2)

/-- `ExcelCompiler._evaluate(address)` in iterative mode: depth first; a cell on the stack (wip) answers with its
    previous value, a cell already computed in this pass with its value, an input cell with its value -/
def evalCell (wb : Workbook) (tol : Rat) : Nat → Nat → St → V × St
  | 0, c, s =>
    if needsCalc s c then
      match wb c with
      | none => (curValue s c, s)
      | some _ => (curValue s c, { s with oof := true })
    else (curValue s c, s)
  | k + 1, c, s =>
    if needsCalc s c then
      match wb c with
      | none => (curValue s c, s)
      | some f =>
        let r := mapAccum (evalCell wb tol k) f.reads (startCalcs s c)
        (f.comb r.1, setValue tol r.2 c (f.comb r.1))
    else (curValue s c, s)

/-- `inc_iteration_number`: the two sets are emptied (the counter lives in `loop`) -/
def clear (s : St) : St := { s with todo := [], computed := [] }

/-- one pass = `_evaluate_non_iterative(address)` after `inc_iteration_number`.  `pre` = the cells that graph
    construction evaluates inside this pass before the targets (the cells of ranges that are first built now,
    `_process_gen_graph`); it is empty in every pass but the first one of an `evaluate` call. -/
def passWith (wb : Workbook) (tol : Rat) (fuel : Nat) (pre targets : List Nat) (s : St) : List V × St :=
  mapAccum (evalCell wb tol fuel) targets (mapAccum (evalCell wb tol fuel) pre (clear s)).2

def pass (wb : Workbook) (tol : Rat) (fuel : Nat) (targets : List Nat) (s : St) : List V × St :=
  passWith wb tol fuel [] targets s

/-- `progress_tracker.done` after pass number `i` -/
def done (N : Int) (i : Nat) (s : St) : Bool := decide (N ≤ (i : Int)) || s.todo.isEmpty

/-- the `while True` loop for an arbitrary pass function; `k` = remaining fuel, `i` = passes done so far.
    Returns (number of passes, last results, state). -/
def loop (step : St → List V × St) (N : Int) : Nat → Nat → St → Nat × List V × St
  | 0, i, s => (i, [], s)
  | k + 1, i, s =>
    if done N (i + 1) (step s).2 then (i + 1, (step s).1, (step s).2)
    else loop step N k (i + 1) (step s).2

/-- Python `a or b or 10000` on optional integers (None and 0 are falsy) -/
def resolveIter (arg cfg : Option Int) : Int :=
  match arg with
  | some a => if a ≠ 0 then a else
    match cfg with
    | some b => if b ≠ 0 then b else defaultIterations
    | none => defaultIterations
  | none =>
    match cfg with
    | some b => if b ≠ 0 then b else defaultIterations
    | none => defaultIterations

/-- Python `a or b or 0.01` -/
def resolveTol (arg cfg : Option Rat) : Rat :=
  match arg with
  | some a => if a ≠ 0 then a else
    match cfg with
    | some b => if b ≠ 0 then b else defaultTol
    | none => defaultTol
  | none =>
    match cfg with
    | some b => if b ≠ 0 then b else defaultTol
    | none => defaultTol

/-- fuel of the loop: the iteration limit itself (at least one pass always runs) -/
def loopFuel (N : Int) : Nat := if N ≤ 1 then 1 else N.toNat

/-- the `while True` loop whose first pass differs from the later ones -/
def loopFrom (first step : St → List V × St) (N : Int) (s : St) : Nat × List V × St :=
  if done N 1 (first s).2 then (1, (first s).1, (first s).2)
  else loop step N (loopFuel N - 1) 1 (first s).2

/-- `ExcelCompiler._evaluate_iterative(address, iterations, tolerance)` -/
def evaluateIter (wb : Workbook) (cfgIter argIter : Option Int) (cfgTol argTol : Option Rat) (fuel : Nat)
    (pre targets : List Nat) (s : St) : Nat × List V × St :=
  let N := resolveIter argIter cfgIter
  let tol := resolveTol argTol cfgTol
  loopFrom (passWith wb tol fuel pre targets) (pass wb tol fuel targets) N s

/-- `set_value` on a built cell in iterative mode: the value is stored, nothing is reset
    (the tracker marks made by the setter are wiped by the next `inc_iteration_number`) -/
def setInput (s : St) (c : Nat) (v : V) : St :=
  { s with cells := upd s.cells c { (s.cell c) with wip := false, val := v } }

/-- from-scratch value of a cell (what non-iterative evaluation of an acyclic workbook returns): inputs from
    `inp`, formulas recomputed from their precedents; `fuel` bounds the depth -/
def denote (wb : Workbook) (inp : Nat → V) : Nat → Nat → V
  | 0, _ => none
  | k + 1, c =>
    match wb c with
    | none => inp c
    | some f => f.comb (f.reads.map (denote wb inp k))

/-! ### histories -/

inductive Op where
  | set (c : Nat) (v : V)
  | eval (pre targets : List Nat) (argIter : Option Int) (argTol : Option Rat)

/-- run a history; one output (passes, values) per `eval` -/
def runOps (wb : Workbook) (cfgIter : Option Int) (cfgTol : Option Rat) (fuel : Nat) :
    List Op → St → List (Nat × List V) × St
  | [], s => ([], s)
  | .set c v :: ops, s => runOps wb cfgIter cfgTol fuel ops (setInput s c v)
  | .eval pre ts ai at_ :: ops, s =>
    let r := evaluateIter wb cfgIter ai cfgTol at_ fuel pre ts s
    let rest := runOps wb cfgIter cfgTol fuel ops r.2.2
    ((r.1, r.2.1) :: rest.1, rest.2)

/-! ### a small eager expression language compiled to `Formula` (used by the driver and the examples) -/

inductive BinOp where
  | add | sub | mul
  deriving DecidableEq

inductive Expr where
  | lit (q : Rat)
  | ref (c : Nat)
  | sum (cs : List Nat)                   -- SUM(range) ; cs = the cells of the range, row-major
  | bin (op : BinOp) (a b : Expr)
  | ifc (lt : Bool) (a b x y : Expr)      -- IF(a = b, x, y)  /  IF(a < b, x, y)   (eager, like pycel's if_)
  | plug (a : Expr)                       -- a plugin function returning its argument (the pass counter)

def Expr.reads : Expr → List Nat
  | .lit _ => []
  | .ref c => [c]
  | .sum cs => cs
  | .bin _ a b => a.reads ++ b.reads
  | .ifc _ a b x y => a.reads ++ b.reads ++ x.reads ++ y.reads
  | .plug a => a.reads

def sumNums : List V → Rat
  | [] => 0
  | v :: vs => num v + sumNums vs

/-- evaluate over the list of read values (consumed left to right); returns the value and the unread rest -/
def Expr.eval : Expr → List V → V × List V
  | .lit q, vs => (some q, vs)
  | .ref _, vs => (vs.headD none, vs.drop 1)
  | .sum cs, vs => (some (sumNums (vs.take cs.length)), vs.drop cs.length)
  | .bin op a b, vs =>
    let ra := a.eval vs
    let rb := b.eval ra.2
    (some (match op with
      | .add => num ra.1 + num rb.1
      | .sub => num ra.1 - num rb.1
      | .mul => num ra.1 * num rb.1), rb.2)
  | .ifc lt a b x y, vs =>
    let ra := a.eval vs
    let rb := b.eval ra.2
    let rx := x.eval rb.2
    let ry := y.eval rx.2
    let c : Bool := if lt then decide (num ra.1 < num rb.1) else decide (num ra.1 = num rb.1)
    (if c then rx.1 else ry.1, ry.2)
  | .plug a, vs => a.eval vs

/-- the value a formula leaves in its cell is never `None`: a formula that yields an empty cell's value (`=A1`,
    `IF(…, A1, …)`) yields 0 (excelformula.py eval wrapper) -/
def Expr.toFormula (e : Expr) : Formula := ⟨e.reads, fun vs => some (num (e.eval vs).1)⟩

/-- a linear formula  Σ coefᵢ · cellᵢ + b  (the systems x = Ax + b of the property) -/
def linComb : List Rat → List V → Rat
  | a :: as, v :: vs => a * num v + linComb as vs
  | _, _ => 0

def linFormula (terms : List (Rat × Nat)) (b : Rat) : Formula :=
  ⟨terms.map (·.2), fun vs => some (linComb (terms.map (·.1)) vs + b)⟩

def initState (cells : Cells) : St := ⟨cells, [], [], [], false⟩

end Pycel.Iter

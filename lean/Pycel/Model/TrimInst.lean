/-
  Formula semantics of the C08 correspondence driver: the concrete language of Model/EngineInst.lean (C01) extended
  by four single-precedent formulas with a numeric constant, used on float-valued workbooks:

    divc c   `=A1/3`                 quotient by a non-zero constant
    gt c     `=A1>0.3`               logical
    eqc c    `=A1=0.3`               logical
    ifgt c   `=IF(A1>0.3,"hi","lo")` text
  Such a node is described to `mkWb` as `.fml (.ref j)` (one precedent `j`); `ov i = some k` replaces its semantics.
  The generator only points them at numeric cells (numbers, logicals as 1/0, blank as 0 are coerced the way pycel's
  operators do; text gives #VALUE!).  Numbers are exact rationals: the float results of pycel are compared at 1e-12,
  and a comparison whose exact operands are closer than 1e-9 is answered "undecided" by the driver (`nearTie`).
-/
import Pycel.Model.EngineInst
namespace Pycel.TrimInst
open Pycel Pycel.Engine Pycel.EngineInst

inductive Ov where
  | divc (c : Rat) | gt (c : Rat) | eqc (c : Rat) | ifgt (c : Rat)

def applyOv : Ov → Val → Val
  | k, v =>
    match toNum v with
    | .error e => .err e
    | .ok x =>
      match k with
      | .divc c => if c = 0 then .err .div0 else .num (x / c)
      | .gt c => .bool (decide (c < x))
      | .eqc c => .bool (decide (x = c))
      | .ifgt c => .str (if c < x then "hi".toList else "lo".toList)

def semOv (specs : List Spec) (ov : Nat → Option Ov) : Nat → (Nat → EV) → EV := fun i env =>
  match ov i, specs[i]? with
  | some k, some (.fml (.ref j)) => .sc (applyOv k (env j).val)
  | _, _ => sem specs i env

/-- the exact operands of the comparison are too close for float arithmetic to be trusted to agree -/
def nearTie (k : Ov) (v : Val) : Bool :=
  match k, toNum v with
  | .divc _, _ => false
  | .gt c, .ok x | .eqc c, .ok x | .ifgt c, .ok x =>
    let d := if x < c then c - x else x - c
    let m := if c < 0 then -c else c
    decide (d * 1000000000 ≤ (if m < 1 then 1 else m))
  | _, _ => false

end Pycel.TrimInst

/-
  `ExcelCompiler.trim_graph(input_addrs, output_addrs)` (src/pycel/excelcompiler.py 510-590) on the workbook type of
  Model/Engine.lean (nodes `0 … n-1` in topological order; input cells, formula cells, range nodes).

  Step by step (numbers = the comments in the code):
    1) `_gen_graph(output_addrs)`            -> `genGraph`   : the outputs and their precedent closure enter the cell map
                                                               (`buildF` of the engine; ranges are evaluated when built)
    2) `walk_dependents` from every input    -> `dependants` : the cells of the cell map that (strictly, transitively)
       that is in the cell map                                 read an input; an input RANGE stands for its cells as
                                                               well (`inputCells`: what `set_value(range, values)` writes)
       NetworkXError for a value cell that is                -> `unusedInput` (-> `TrimErr.inputUnused`, the ValueError
       in the cell map but not in the graph                     "usually means no outputs are dependant on it"); an input
                                                               that is not in the cell map, or is also an output, only warns
       `needed_cells.add(output)`            -> `needed`     = dependants ∪ outputs
    3) `walk_precedents` from every output   -> `live`       : the cells the walk DESCENDS into (the outputs; a child that
                                                               is needed or is a range — "ranges always descended")
                                             -> `frozen`     : a child of a live cell that is neither needed nor a range:
                                                               `formula = None`, current value kept
       (a never-computed formula cell is evaluated first    -> `evalFrozen`; the pinned code froze it at `None`:
        — `fix:` commit of C08)                                 `trimAsWritten`, only used by the counterexample)
    5) delete what is not needed             -> `keep`       = live ∪ frozen  (= `set(cell_map)` after the trim)

  Where the model follows the PROPERTY (C08) and not the pinned code; both were defects of the pinned code, found by
  the C08 correspondence and repaired in /repo (fix: 2f00813, 15e38fa), so code and model now coincide:
    * a frozen formula cell without a value is evaluated before its formula is dropped (`evalFrozen`; the pinned code
      froze it at `None` — `trimAsWritten`, `C08_asWritten_counterexample`);
    * an input range stands for its member cells (`inputCells`): the pinned code only walked the dependants of the
      range NODE, so a formula reading a member cell directly was frozen and ignored `set_value(range, values)`.

  The closures are computed by recursion along the topological order (`depOnF` downwards, `liveF` upwards) instead of
  the code's depth-first walks with a visited set: the SET a closure walk returns does not depend on the visiting order,
  and `set(cell_map)` after the trim is compared with `keep` by the correspondence on every generated case.

  The cell map after the trim is exactly what the walk from the outputs reached (`keep = live ∪ frozen`).  The pinned
  code kept `needed ∪ frozen` instead: a walked range none of whose members depends on an input was deleted although
  kept formulas read it (a second trim_graph raised KeyError, a whole-column reference could not be loaded from the
  saved file), and a dependant of an input that feeds no output stayed behind with its formula while its other
  precedents were deleted (KeyError when a later trim named it as output; wrong values after a reload).  Both were
  repaired in /repo (`fix:` commits of C08), so code and model coincide.

  The trimmed model is `(t.wb, t.f, t.st)`: frozen cells are value cells (`cutAt`), their formula is the constant they
  were frozen at.  `reloadWb/reloadInp`: what `to_file` + `from_file` make of it (cells of the cell map are written —
  `serialize`; ranges are not, they are rebuilt from the cells; a cell that is not in the file reads as an empty cell).

  Import-free apart from Engine, structural recursion only (fuel), executable.
-/
import Pycel.Model.Engine
namespace Pycel.Trim
open Pycel.Engine

/-- the nodes in `C` become value cells: no formula, no precedents -/
def cutAt (wb : Workbook) (C : Nat → Bool) : Workbook where
  n := wb.n
  kind := fun i => if C i = true then .input else wb.kind i
  deps := fun i => if C i = true then [] else wb.deps i

/-- `inp` with the cells in `C` assigned `v` -/
def override (inp : Nat → α) (C : Nat → Bool) (v : Nat → α) : Nat → α :=
  fun k => if C k = true then v k else inp k

def isRange (wb : Workbook) (k : Nat) : Bool := decide (wb.kind k = .range)

/-- `k` strictly and transitively reads a node of `src` (fuel `> k` suffices) -/
def depOnF (wb : Workbook) (src : Nat → Bool) : Nat → Nat → Bool
  | 0, _ => false
  | fuel+1, k => (wb.deps k).any fun j => src j || depOnF wb src fuel j

def depOn (wb : Workbook) (src : Nat → Bool) (k : Nat) : Bool := depOnF wb src (k+1) k

/-- the cells an input set stands for: the listed nodes and the member cells of a listed range -/
def inputCells (wb : Workbook) (I : List Nat) (k : Nat) : Bool :=
  I.contains k || I.any fun r => isRange wb r && (wb.deps r).contains k

section plan
variable (wb : Workbook) (built : Nat → Bool) (I O : List Nat)

/-- where `walk_dependents` starts: the input cells that are in the cell map -/
def sources (k : Nat) : Bool := inputCells wb I k && built k

/-- step 2: the cells of the cell map that depend on an input -/
def dependants (k : Nat) : Bool := built k && depOn wb (sources wb built I) k

/-- `needed_cells` before the precedent walk: dependants of the inputs and the outputs -/
def needed (k : Nat) : Bool := dependants wb built I k || O.contains k

/-- step 3: the cells `walk_precedents` is called on (fuel `≥ n - k` suffices) -/
def liveF : Nat → Nat → Bool
  | 0, k => O.contains k
  | fuel+1, k =>
    O.contains k || ((needed wb built I O k || isRange wb k) && (succs wb k).any fun m => liveF fuel m)

def live (k : Nat) : Bool := liveF wb built I O (wb.n - k) k

/-- step 3, else-branch: a child of a walked cell that is neither needed nor a range -/
def frozen (k : Nat) : Bool :=
  !needed wb built I O k && !isRange wb k && (succs wb k).any fun m => live wb built I O m

/-- step 5: what stays in the cell map: the outputs and what the precedent walk reached from them — the walked cells
    (ranges included) and the frozen cells.  (`fix:` commits of C08; the pinned code kept `needed ∪ frozen`: it deleted
    a walked range none of whose members depends on an input although kept formulas read it, and it kept a dependant
    of an input that feeds no output while deleting that cell's other precedents.) -/
def keep (k : Nat) : Bool := live wb built I O k || frozen wb built I O k

/-- the cell map of the trimmed model -/
def avail (k : Nat) : Bool := keep wb built I O k

/-- step 2, the error: a value cell that is in the cell map, has no dependant there, and is not an output -/
def unusedInput (i : Nat) : Bool :=
  built i && decide (wb.kind i = .input) && !(succs wb i).any built && !O.contains i

end plan

inductive TrimErr where
  | outputUnknown (o : Nat)
  | inputUnused (i : Nat)
  deriving Repr, DecidableEq

structure Trimmed (α : Type) where
  wb : Workbook
  f : Nat → (Nat → α) → α
  st : State α
  keep : Nat → Bool
  frozen : Nat → Bool
  live : Nat → Bool

section
variable {α : Type} (wb : Workbook) (f : Nat → (Nat → α) → α)

/-- step 1: `_gen_graph(output_addrs)` -/
def genGraph (O : List Nat) (s : State α) : State α := O.foldl (fun st o => buildF wb f (o+1) o st) s

def frozenList (built : Nat → Bool) (I O : List Nat) : List Nat :=
  (List.range wb.n).filter fun k => frozen wb built I O k

/-- a frozen formula cell without a value is evaluated before its formula is dropped -/
def evalFrozen (I O : List Nat) (s : State α) : State α :=
  (frozenList wb s.built I O).foldl (fun st j => (evalF wb f wb.n j st).2) s

/-- value a frozen cell keeps -/
def frozenVal (s : State α) (k : Nat) : α := valueOf wb s k

/-- steps 3-5 on the state `s` the walk finds: drop the formulas of the frozen cells, delete the rest -/
def freeze (I O : List Nat) (s : State α) : Trimmed α :=
  let fr := frozen wb s.built I O
  let av := avail wb s.built I O
  { wb := cutAt wb fr
    f := fun i env => if fr i = true then frozenVal wb s i else f i env
    st :=
      { inp := fun k => if fr k = true then frozenVal wb s k else s.inp k
        cache := fun k => if live wb s.built I O k = true then s.cache k else none
        built := av
        stored := fun _ => none }
    keep := keep wb s.built I O
    frozen := fr
    live := live wb s.built I O }

def checkErr (I O : List Nat) (s1 : State α) : Option TrimErr :=
  match O.find? (fun o => decide (wb.n ≤ o)) with
  | some o => some (.outputUnknown o)
  | none =>
    match I.find? (fun i => unusedInput wb s1.built O i) with
    | some i => some (.inputUnused i)
    | none => none

/-- `trim_graph(I, O)` on the state `s` -/
def trim (I O : List Nat) (s : State α) : Except TrimErr (Trimmed α) :=
  let s1 := genGraph wb f O s
  match checkErr wb I O s1 with
  | some e => .error e
  | none => .ok (freeze wb f I O (evalFrozen wb f I O s1))

/-- the pinned code: no evaluation before freezing (only for `C08_asWritten_counterexample`) -/
def trimAsWritten (I O : List Nat) (s : State α) : Except TrimErr (Trimmed α) :=
  let s1 := genGraph wb f O s
  match checkErr wb I O s1 with
  | some e => .error e
  | none => .ok (freeze wb f I O s1)

end

/-! ### save + load of a trimmed model -/

section
variable {α : Type} (wb : Workbook)

/-- not in the saved file: not in the cell map, or a range (ranges are rebuilt from the cells) -/
def missing (t : Trimmed α) (k : Nat) : Bool := !t.keep k && !isRange wb k

/-- the workbook `from_file` rebuilds: saved cells with their formula or constant, ranges over them, every other
    cell empty -/
def reloadWb (t : Trimmed α) : Workbook := cutAt t.wb (missing wb t)

/-- `blank` = the value of a cell that is not in the file (`None`) -/
def reloadInp (blank : α) (t : Trimmed α) : Nat → α := fun k => if missing wb t k = true then blank else t.st.inp k

end

end Pycel.Trim

/-
  Model of the scalar operator layer of pycel over `Pycel.Val`:
    src/pycel/excelutil.py  coerce_to_number / coerce_to_string (950-990), type_cmp_value / ExcelCmp (1126-1184),
                            build_operator_operand_fixup.fixup (1203-1277).
  Import-free (core Lean only).  PART 1 (coercions, renderings, comparison keys) is the stable interface that other
  models import; PART 2 is `fixup` itself (property C10).

  Stable names (namespace `Pycel.Ops`):
    f64            : Rat → Rat            IEEE-754 binary64 round-to-nearest-even of an exact rational (normal range)
    parseNum?      : List Char → Option Rat   numeric text → the int/float Python would hold (see grammar below)
    coerceToNumber : Bool → Val → Val     coerce_to_number(value, convert_all)
    renderNum      : Rat → List Char      str() of the int/float pycel holds for that number
    coerceToString : Val → Val            coerce_to_string(value): `.str` text, or the `.err` passed through
                                          (an error value IS its text in Python; `Val.ofText` keeps that identification)
    typeCmpValue   : Val → Nat × Val      type_cmp_value
    cmpKey / Key / keyLt / excelLt / excelEq / cmpVals   the ExcelCmp order

  Representation notes
    * Numbers are exact `Rat`s.  A Python float is the rational it denotes; an integral float and the equal int are the
      same `Val.num` (pycel itself turns integral floats into ints in coerce_to_number).  `f64` re-creates the float
      rounding wherever the code goes through `float()` or float arithmetic, so model values are the exact values of
      the doubles pycel holds.  Outside the modelled domain: subnormal results (|x| < 2^-1022), inf/nan operands
      (not `Val`s), ints beyond 2^53 that reach float arithmetic (the model cannot tell the int 10^30 from the float
      1e30), and `^` with a non-integral exponent (not a rational function: handled as a kernel parameter in PART 2).
    * Text is `List Char`.  Case mapping (`lower`, `upper`) is modelled for ASCII and Latin-1 letters only; Python's
      full Unicode `str.lower/upper` (e.g. 'ſ'.upper() = 'S', 'İ'.lower() = 2 chars) is outside the domain.
    * `'#EMPTY!'` (excelutil.EMPTY) is a sentinel TEXT that the code treats like a blank operand; the model follows
      the code (`isEmptyLike`).
    * Numeric text — PROPERTY-DRIVEN (C10: "numeric text ... as numbers and other text as #VALUE!"): accepted is
          ws* [+-]? (digits+ [. digits*] | . digits+) ([eE] [+-]? digits+)? ws*        ws = space \t \n \v \f \r
      with ASCII digits.  Python's `int()/float()` additionally read "inf", "infinity", "nan", "1_0", Unicode digits
      and Unicode spaces; Excel reads none of them as numbers, so the model rejects them (they stay text → #VALUE!).
      Text without '.' and without exponent takes the `int()` path (exact); everything else the `float()` path (`f64`
      of the decimal value; a value that overflows binary64, e.g. "1e400", is not a number).
-/
import Pycel.Model.Value
namespace Pycel.Ops
open Pycel

/-! ## PART 1 — coercions, renderings, comparison keys -/

/-! ### characters -/

def isDigit (c : Char) : Bool := 48 ≤ c.toNat && c.toNat ≤ 57

/-- ASCII white space: what `re.ASCII` `\s` matches and Python strips: space \t \n \v \f \r -/
def isWs (c : Char) : Bool := c.toNat = 32 || (9 ≤ c.toNat && c.toNat ≤ 13)

/-- `str.lower()` restricted to ASCII and Latin-1 letters -/
def lowerChar (c : Char) : Char :=
  let n := c.toNat
  if (65 ≤ n ∧ n ≤ 90) ∨ (192 ≤ n ∧ n ≤ 222 ∧ n ≠ 215) then Char.ofNat (n + 32) else c

/-- `str.upper()` restricted to ASCII and Latin-1 letters (ß, ÿ, µ excluded: their upper case leaves Latin-1) -/
def upperChar (c : Char) : Char :=
  let n := c.toNat
  if (97 ≤ n ∧ n ≤ 122) ∨ (224 ≤ n ∧ n ≤ 254 ∧ n ≠ 247) then Char.ofNat (n - 32) else c

def lower (s : List Char) : List Char := s.map lowerChar
def upper (s : List Char) : List Char := s.map upperChar

/-! ### error texts: in Python an error value is its text -/

def errText (e : Err) : List Char := e.text.toList

/-- the error whose text is `s`, if any (`value in ERROR_CODES`) -/
def errOfText? (s : List Char) : Option Err := Err.all.find? fun e => errText e == s

/-- a Python `str` as a `Val`: error texts are error values -/
def _root_.Pycel.Val.ofText (s : List Char) : Val :=
  match errOfText? s with
  | some e => .err e
  | none => .str s

/-- excelutil.EMPTY -/
def emptySentinel : List Char := "#EMPTY!".toList

/-- `value in (None, EMPTY)` -/
def isEmptyLike : Val → Bool
  | .blank => true
  | .str s => s == emptySentinel
  | _ => false

/-! ### binary64 rounding -/

def pow2 (e : Int) : Rat := if e ≥ 0 then ((2 ^ e.toNat : Nat) : Rat) else 1 / ((2 ^ (-e).toNat : Nat) : Rat)
def pow10 (e : Int) : Rat := if e ≥ 0 then ((10 ^ e.toNat : Nat) : Rat) else 1 / ((10 ^ (-e).toNat : Nat) : Rat)

def absR (q : Rat) : Rat := if q < 0 then -q else q

/-- round half to even -/
def roundHalfEven (x : Rat) : Int :=
  let f := x.floor
  let r := x - (f : Rat)
  if r < 1/2 then f else if 1/2 < r then f + 1 else if f % 2 = 0 then f else f + 1

/-- binary exponent `e` with `2^52 ≤ a / 2^e < 2^53` for `a > 0`, clamped below at -1074 (subnormals) -/
def binExp (a : Rat) : Int :=
  let e0 : Int := (Nat.log2 a.num.natAbs : Int) - (Nat.log2 a.den : Int) - 52
  let e1 := if a / pow2 e0 < ((2 ^ 52 : Nat) : Rat) then e0 - 1 else e0
  let e2 := if a / pow2 e1 ≥ ((2 ^ 53 : Nat) : Rat) then e1 + 1 else e1
  if e2 < -1074 then -1074 else e2

/-- nearest binary64 (ties to even) of an exact rational; no overflow handling (see `f64?`) -/
def f64 (q : Rat) : Rat :=
  if q = 0 then 0 else
  let a := absR q
  let e := binExp a
  let m := roundHalfEven (a / pow2 e)
  let r := (m : Rat) * pow2 e
  if q < 0 then -r else r

def maxFloatBound : Rat := ((2 ^ 1024 : Nat) : Rat)

/-- `none` when the rounded value is outside binary64's finite range (Python: inf / OverflowError) -/
def f64? (q : Rat) : Option Rat :=
  let r := f64 q
  if absR r < maxFloatBound then some r else none

/-! ### numeric text -/

def natOfDigits (ds : List Char) : Nat := ds.foldl (fun acc c => acc * 10 + (c.toNat - 48)) 0

def stripWs (s : List Char) : List Char := ((s.dropWhile isWs).reverse.dropWhile isWs).reverse

/-- optional sign: (negative?, rest) -/
def takeSign : List Char → Bool × List Char
  | '-' :: r => (true, r)
  | '+' :: r => (false, r)
  | r => (false, r)

/-- exponent suffix: `some 0` for the empty suffix, `some e` for `[eE][+-]?digits+`, else `none` -/
def parseExp? : List Char → Option Int
  | [] => some 0
  | c :: r =>
    if c = 'e' ∨ c = 'E' then
      let (neg, ds) := takeSign r
      if ds ≠ [] ∧ ds.all isDigit then
        -- exponents beyond ±100000 behave alike (overflow / underflow); keep the numerals small
        let n : Int := if natOfDigits ds > 1000000 then 1000000 else (natOfDigits ds : Int)
        some (if neg then -n else n)
      else none
    else none

/-- numeric text → the number Python holds after `int(value)` / `float(value)` under the Excel grammar above -/
def parseNum? (s : List Char) : Option Rat :=
  let (neg, body) := takeSign (stripWs s)
  let ip := body.takeWhile isDigit
  let r1 := body.dropWhile isDigit
  let (hasDot, fp, r2) : Bool × List Char × List Char :=
    match r1 with
    | '.' :: t => (true, t.takeWhile isDigit, t.dropWhile isDigit)
    | _ => (false, [], r1)
  if ip = [] ∧ fp = [] then none else
  match parseExp? r2 with
  | none => none
  | some ex =>
    let mant := natOfDigits (ip ++ fp)
    let sgn : Rat := if neg then -1 else 1
    if !hasDot ∧ r2 = [] then
      -- int(value): exact; but a numeral whose float() is inf is not numeric text
      if ip.length > 400 then none else (f64? (mant : Rat)).map fun _ => sgn * (mant : Rat)
    else if mant = 0 then some 0
    else
      let nd : Int := (ip ++ fp).length
      let e10 : Int := ex - (fp.length : Int)
      if e10 + nd > 400 then none                                 -- float(value) = inf: not a number
      else if e10 + nd < -400 then some 0                         -- underflow to 0.0
      else (f64? ((mant : Rat) * pow10 e10)).map (sgn * ·)

/-- `is_number(value)` for text -/
def isNumericText (s : List Char) : Bool := (parseNum? s).isSome

/-! ### coerce_to_number -/

def trueText : List Char := "TRUE".toList
def falseText : List Char := "FALSE".toList

/-- excelutil.coerce_to_number(value, convert_all) on a scalar -/
def coerceToNumber (convertAll : Bool) : Val → Val
  | .blank => if convertAll then .num 0 else .blank
  | .bool b => if convertAll then .num (if b then 1 else 0) else .bool b
  | .num q => .num q
  | .err e => .err e
  | .str s =>
    let u := upper s
    if convertAll && (u == trueText || u == falseText || u == emptySentinel) then
      .num (if s.length = 4 then 1 else 0)
    else match parseNum? s with
      | some q => .num q
      | none => .str s

/-! ### str() of numbers -/

def natRepr (n : Nat) : List Char := Nat.toDigits 10 n

/-- `str(i)` of a Python int -/
def intRepr (i : Int) : List Char := if i < 0 then '-' :: natRepr i.natAbs else natRepr i.natAbs

/-- decimal exponent `k` with `10^k ≤ a < 10^(k+1)` for `a > 0` (fuel-free: estimate from digit counts, adjust) -/
def decExp (a : Rat) : Int :=
  let k0 : Int := ((natRepr a.num.natAbs).length : Int) - ((natRepr a.den).length : Int)
  let k1 := if a < pow10 k0 then k0 - 1 else k0
  let k2 := if a ≥ pow10 (k1 + 1) then k1 + 1 else k1
  k2

def stripTrailingZeros (ds : List Char) : List Char := (ds.reverse.dropWhile (· = '0')).reverse

/-- shortest round-tripping digits of a positive double `a`: (digits without trailing zeros, E) with
    a ≈ d1.d2…dm × 10^E.  Search n = 1..17 significant digits, nearest n-digit decimal each time. -/
def shortestDigits (a : Rat) : List Char × Int :=
  let k := decExp a
  let rec go (fuel n : Nat) : List Char × Int :=
    match fuel with
    | 0 => (natRepr (roundHalfEven (a / pow10 (k - 16))).toNat, k)
    | fuel + 1 =>
      let p : Int := k - (n : Int) + 1
      let d := roundHalfEven (a / pow10 p)
      if f64 ((d : Rat) * pow10 p) = a then
        let ds := natRepr d.toNat
        -- a carry (d = 10^n) adds one digit and raises the exponent
        (ds, k + ((ds.length : Int) - (n : Int)))
      else go fuel (n + 1)
  let (ds, e) := go 17 1
  (stripTrailingZeros ds, e)

/-- Python `repr(float)` layout of digits `ds` (d1.d2…) × 10^e, for a positive value -/
def layoutFloat (ds : List Char) (e : Int) : List Char :=
  let m := ds.length
  if -4 ≤ e ∧ e < 16 then
    if e ≥ 0 then
      let ip := e.toNat + 1
      if m ≤ ip then ds ++ List.replicate (ip - m) '0' ++ ['.', '0']
      else ds.take ip ++ ['.'] ++ ds.drop ip
    else ['0', '.'] ++ List.replicate ((-e).toNat - 1) '0' ++ ds
  else
    let mant := match ds with
      | [] => ['0']
      | [d] => [d]
      | d :: rest => d :: '.' :: rest
    let ea := natRepr e.natAbs
    let ea := if ea.length < 2 then '0' :: ea else ea
    mant ++ ['e', if e < 0 then '-' else '+'] ++ ea

/-- `str(x)` of the number pycel holds after `coerce_to_number`: an int prints without ".0", a non-integral
    float as Python's shortest round-trip repr.  Modelled for values that are (exact) binary64 numbers in the normal
    range; for a rational that is not a double (e.g. 1/3) the 17-digit fallback is printed. -/
def renderNum (q : Rat) : List Char :=
  if q.den = 1 then intRepr q.num
  else
    let (ds, e) := shortestDigits (absR q)
    let body := layoutFloat ds e
    if q < 0 then '-' :: body else body

/-- rendering of an operand of `&` / coerce_to_string: TRUE/FALSE, blank as empty, numbers by `renderNum` -/
def renderVal : Val → List Char
  | .bool b => if b then trueText else falseText
  | .blank => []
  | .num q => renderNum q
  | .str s => s
  | .err e => errText e

/-- excelutil.coerce_to_string(value).  Result is `.str text`, except that an error value (which is its own text in
    Python) stays the error value. -/
def coerceToString : Val → Val
  | .err e => .err e
  | .str s => .str s
  | v => .str (renderVal v)

/-! ### type_cmp_value and the ExcelCmp order -/

/-- type_cmp_value: (type rank, default for an empty operand on the other side) -/
def typeCmpValue : Val → Nat × Val
  | .err e => (3, .err e)
  | .bool _ => (2, .bool false)
  | .str _ => (1, .str [])
  | .num _ => (0, .num 0)
  | .blank => (0, .num 0)

/-- comparison key of ExcelCmp: numbers < text (case-folded) < logicals -/
inductive Key where
  | num (q : Rat)
  | str (s : List Char)
  | bool (b : Bool)
  deriving DecidableEq, Inhabited

def Key.rank : Key → Nat
  | .num _ => 0 | .str _ => 1 | .bool _ => 2

/-- lexicographic `<` on code points (Python `str.__lt__`) -/
def strLt : List Char → List Char → Bool
  | [], [] => false
  | [], _ :: _ => true
  | _ :: _, [] => false
  | a :: as, b :: bs => if a.toNat < b.toNat then true else if b.toNat < a.toNat then false else strLt as bs

/-- tuple `<` of (cmp_type, value) -/
def keyLt : Key → Key → Bool
  | .num a, .num b => a < b
  | .str a, .str b => strLt a b
  | .bool a, .bool b => !a && b
  | a, b => a.rank < b.rank

/-- ExcelCmp(value) for a value that is neither blank nor an error (those never reach it inside `fixup`);
    a blank given directly becomes 0.0 (`ExcelCmp(None)`) -/
def cmpKey : Val → Key
  | .num q => .num q
  | .str s => .str (lower s)
  | .bool b => .bool b
  | .blank => .num 0
  | .err e => .str (errText e)      -- unreachable inside fixup; kept total

/-- the operand pair as `fixup` prepares it for a comparison: an empty operand takes the other side's default -/
def cmpOperands (l r : Val) : Key × Key :=
  let l1 := if isEmptyLike l then (typeCmpValue r).2 else l
  let r1 := if isEmptyLike r then (typeCmpValue l1).2 else r
  (cmpKey l1, cmpKey r1)

def excelLt (l r : Val) : Bool := let (a, b) := cmpOperands l r; keyLt a b
def excelEq (l r : Val) : Bool := let (a, b) := cmpOperands l r; a == b
def excelGt (l r : Val) : Bool := let (a, b) := cmpOperands l r; keyLt b a

/-- three-way comparison of two operands under the ExcelCmp order -/
def cmpVals (l r : Val) : Ordering :=
  if excelLt l r then .lt else if excelEq l r then .eq else .gt

/-! ## PART 2 — build_operator_operand_fixup.fixup on scalar operands (property C10) -/

/-- the operators that reach `fixup`, by the Python AST node name the formula compiler passes -/
inductive Op where
  | add | sub | mul | div | pow | concat | eq | ne | lt | le | gt | ge | usub
  deriving DecidableEq, Repr, Inhabited

/-- `type(node_op).__name__` -/
def Op.pyName : Op → String
  | .add => "Add" | .sub => "Sub" | .mul => "Mult" | .div => "Div" | .pow => "Pow" | .concat => "BitAnd"
  | .eq => "Eq" | .ne => "NotEq" | .lt => "Lt" | .le => "LtE" | .gt => "Gt" | .ge => "GtE" | .usub => "USub"

def Op.ofName? (s : String) : Option Op :=
  [Op.add, .sub, .mul, .div, .pow, .concat, .eq, .ne, .lt, .le, .gt, .ge, .usub].find? fun o => o.pyName == s

/-- `op in COMPARISION_OPS` -/
def Op.isCmp : Op → Bool
  | .eq | .ne | .lt | .le | .gt | .ge => true
  | _ => false

/-- outcome classes of a Python numeric operation on two numbers -/
inductive KOut where
  | ok (q : Rat)      -- a finite number
  | zeroDiv           -- ZeroDivisionError
  | overflow          -- OverflowError
  | complex           -- a Python complex (negative base, fractional exponent)
  | nonfinite         -- float inf / nan without an exception (float overflow of + - * /)
  deriving DecidableEq, Inhabited

/-- the numeric kernels `operator.add/sub/mul/truediv/pow/neg` on numbers; a parameter of the model so that the
    error mapping is proved for every way the kernels may classify their result -/
structure Kernels where
  add : Rat → Rat → KOut
  sub : Rat → Rat → KOut
  mul : Rat → Rat → KOut
  div : Rat → Rat → KOut
  pow : Rat → Rat → KOut
  neg : Rat → KOut

/-- result of one operator evaluation: an Excel value, or a non-finite float (only from `KOut.nonfinite`) -/
inductive Outcome where
  | val (v : Val)
  | nonfinite
  deriving DecidableEq, Inhabited

/-- how `fixup` maps the kernel's outcome (try/except + result check, excelutil.py:1265-1290 after the repair):
    ZeroDivisionError → #DIV/0!, OverflowError → #NUM!, complex → #NUM!.
    (Before the repair OverflowError escaped as FormulaEvalError and the complex was returned as is.) -/
def mapK : KOut → Outcome
  | .ok q => .val (.num q)
  | .zeroDiv => .val (.err .div0)
  | .overflow => .val (.err .num)
  | .complex => .val (.err .num)
  | .nonfinite => .nonfinite

/-- rendering of one operand of `&` -/
def concatText (v : Val) : List Char := if isEmptyLike v then [] else renderVal v

/-- tuple `<=` of ExcelCmp keys -/
def keyLe : Key → Key → Bool
  | .num a, .num b => a ≤ b
  | .str a, .str b => strLt a b || a == b
  | .bool a, .bool b => !a || b
  | a, b => a.rank < b.rank

def cmpOp (op : Op) (a b : Key) : Bool :=
  match op with
  | .eq => a == b
  | .ne => !(a == b)
  | .lt => keyLt a b
  | .le => keyLe a b
  | .gt => keyLt b a
  | .ge => keyLe b a
  | _ => false

def isLogicalText (s : List Char) : Bool := upper s == trueText || upper s == falseText

/-- operand of an arithmetic operator after coercion.  The code is `coerce_to_number(x, convert_all=True)`.
    PROPERTY-DRIVEN exception (C10 "other text as #VALUE!"): text spelling TRUE/FALSE is text, not a logical; the
    code turns it into 1/0 (pinned by pycel's tests: known finding text-logical-as-number). -/
def arithOperand : Val → Val
  | .str s => if isLogicalText s then .str s else coerceToNumber true (.str s)
  | v => coerceToNumber true v

def kernel (K : Kernels) : Op → Rat → Rat → KOut
  | .add => K.add | .sub => K.sub | .mul => K.mul | .div => K.div | .pow => K.pow
  | _ => fun _ _ => .ok 0    -- not an arithmetic operator (never used)

/-- `fixup(left_op, op, right_op)` on scalars -/
def fixup (K : Kernels) (l : Val) (op : Op) (r : Val) : Outcome :=
  match l, r with
  | .err e, _ => .val (.err e)                       -- left error first
  | _, .err e => .val (.err e)
  | _, _ =>
    if op.isCmp then
      let (a, b) := cmpOperands l r
      .val (.bool (cmpOp op a b))
    else if op = .concat then
      .val (Val.ofText (concatText l ++ concatText r))
    else if op = .usub then
      match arithOperand r with
      | .num y => mapK (K.neg y)
      | _ => .val (.err .value)                      -- TypeError: bad operand type for unary -
    else
      match arithOperand l, arithOperand r with
      | .num x, .num y => mapK (kernel K op x y)
      | _, _ => .val (.err .value)

/-- unary minus: the compiler passes EMPTY as the left operand -/
def neg (K : Kernels) (x : Val) : Outcome := fixup K (.str emptySentinel) .usub x

/-- postfix percent is emitted as `x / 100` -/
def pct (K : Kernels) (x : Val) : Outcome := fixup K x .div (.num 100)

/-! ### the concrete Python kernels (used by the compiled driver) -/

def isInt (q : Rat) : Bool := q.den = 1

/-- float result: binary64 rounding, `ifOver` when beyond the finite range -/
def floatResult (q : Rat) (ifOver : KOut) : KOut :=
  match f64? q with
  | some r => .ok r
  | none => ifOver

/-- grid truncation keeping the series' rationals small (2^-140) -/
def truncGrid (q : Rat) : Rat := ((q * pow2 140).floor : Rat) / pow2 140

def atanhSeries (z : Rat) : Nat → Rat → Rat → Nat → Rat
  | 0, _, acc, _ => acc
  | fuel + 1, zp, acc, i =>
    atanhSeries z fuel (truncGrid (zp * z * z)) (acc + truncGrid (zp / ((2 * i + 1 : Nat) : Rat))) (i + 1)

/-- 2·atanh z for |z| ≤ 1/3 -/
def twoAtanh (z : Rat) : Rat := 2 * atanhSeries z 45 z 0 0

def ln2 : Rat := twoAtanh (1/3)

/-- natural logarithm of `x > 0`, absolute error ≈ 1e-38 -/
def lnApprox (x : Rat) : Rat :=
  let k : Int := (Nat.log2 x.num.natAbs : Int) - (Nat.log2 x.den : Int)
  let m := x / pow2 k                     -- in (1/2, 2)
  let (m, k) := if m < 1 then (m * 2, k - 1) else (m, k)   -- in [1, 2)
  (k : Rat) * ln2 + twoAtanh (truncGrid ((m - 1) / (m + 1)))

def expSeries (r : Rat) : Nat → Rat → Rat → Nat → Rat
  | 0, _, acc, _ => acc
  | fuel + 1, term, acc, i =>
    expSeries r fuel (truncGrid (term * r / ((i + 1 : Nat) : Rat))) (acc + term) (i + 1)

/-- x^y for x > 0 through exp(y·ln x): (binary exponent n, mantissa e^r) with x^y ≈ 2^n · e^r -/
def powApprox (x y : Rat) : Int × Rat :=
  let t := truncGrid (y * lnApprox x)
  let n := roundHalfEven (t / ln2)
  let r := t - (n : Rat) * ln2
  (n, expSeries r 40 1 0 0)

/-- exact `x ^ n` -/
def ratPowNat (x : Rat) (n : Nat) : Rat := x ^ n

/-- Python `operator.pow` on the numbers pycel holds.
    ints (integral values) with a non-negative integral exponent: exact int arithmetic;
    otherwise C `pow()` on doubles: 0 to a negative power raises ZeroDivisionError, a negative base with a fractional
    exponent gives a complex, an overflowing result raises OverflowError.  The float results are modelled as the
    binary64 rounding of the exact (integral exponent) or series-approximated (fractional exponent) value; C pow is
    not always correctly rounded, so the correspondence compares these results with a relative tolerance. -/
def pyPow (x y : Rat) : KOut :=
  if isInt y then
    let n := y.num.natAbs
    if y ≥ 0 then
      if isInt x then
        if x = 0 then .ok (if n = 0 then 1 else 0)
        else if x = 1 then .ok 1
        else if x = -1 then .ok (if n % 2 = 0 then 1 else -1)
        else if n > 100000 then .overflow   -- outside the modelled domain: Python builds a > 30000 digit int
        else .ok (ratPowNat x n)
      else if n > 100000 then (if absR x > 1 then .overflow else .ok 0)
      else floatResult (ratPowNat x n) .overflow
    else
      if x = 0 then .zeroDiv
      else if n > 100000 then (if absR x < 1 then .overflow else .ok (if absR x = 1 then ratPowNat x (n % 2) else 0))
      else floatResult (1 / ratPowNat x n) .overflow
  else
    if x < 0 then .complex
    else if x = 0 then (if y < 0 then .zeroDiv else .ok 0)
    else
      let (n, m) := powApprox x y
      if n > 1030 then .overflow
      else if n < -1080 then .ok 0
      else floatResult (m * pow2 n) .overflow

/-- int arithmetic is exact; anything involving a non-integral value is float arithmetic -/
def pyArith (exact : Rat) (x y : Rat) : KOut :=
  if isInt x ∧ isInt y then .ok exact else floatResult exact .nonfinite

def pyKernels : Kernels where
  add x y := pyArith (x + y) x y
  sub x y := pyArith (x - y) x y
  mul x y := pyArith (x * y) x y
  div x y := if y = 0 then .zeroDiv
             else floatResult (x / y) (if isInt x ∧ isInt y then .overflow else .nonfinite)
  pow := pyPow
  neg x := .ok (-x)

def fixupPy (l : Val) (op : Op) (r : Val) : Outcome := fixup pyKernels l op r

/-- true when the concrete kernel's result is only approximately the C library's (see `pyPow`) -/
def approxResult (op : Op) (x y : Rat) : Bool :=
  op = .pow && !(isInt x && isInt y && y ≥ 0)

end Pycel.Ops

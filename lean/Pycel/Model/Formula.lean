/-
  Formula model (DESIGN.md §6): tokens, `_parse_to_rpn`, `_build_ast`, `emit`, the Python expression grammar fragment,
  the surface syntax of the specification.  Split into Formula/*.lean; import this file.
    Formula/Syntax.lean     Operand, InOp, RawTok, Tok, Node, Expr, PyOp, PyTok, PyExpr, precOf/precLt (live table)
    Formula/Parse.lean      amend, step/run/finish/parseRpn, buildAst, parse, rpn
    Formula/Emit.lean       Ctx, emitE/emit/emitCurrent, emitOperand, escBody, emitNumber, pyFuncName, refify
    Formula/PyGrammar.lean  pyUnescape, numValue?/pyNumValue?, pyParse, toPy, Sem, evalPy, evalExcel
    Formula/Surface.lean    Surf, erase, atoks, toks, Surf.wf
-/
import Pycel.Model.Formula.Syntax
import Pycel.Model.Formula.Parse
import Pycel.Model.Formula.Emit
import Pycel.Model.Formula.PyGrammar
import Pycel.Model.Formula.Surface

/-
  C14 — aggregates over ranges: executable model.

  Anchors (/repo/src/pycel):
    excellib.py:46-57      _numerics        -> `isErrCell`, `firstErr`, `nums`, `numerics`
    excelutil.py:25        ERROR_CODES      -> `Gen.aggErrorCodes` (regenerated from the live frozenset on every run)
    excellib.py:319-326    sum_             -> `sum_`
    excellib.py:364-398    sumproduct       -> `sumproduct`
    lib/stats.py:62-73     average          -> `average`
    lib/stats.py:180-185   count            -> `count`
    lib/stats.py:521-581   max_ / min_      -> `max_`, `min_`
    excelformula.py:489-519 FunctionNode.func_subtotal (compile time) -> `subtotalName`, `subtotal`
  The function-number table is `Gen.subtotalFuncs`, regenerated from the live `SUBTOTAL_FUNCS` on every run.

  Every aggregate first flattens all its arguments (`flatten(args)`: ranges row-major, arguments left to right); the
  model therefore works on the flattened list of cells (`cellsOf`).  In this code a logical, a text (numeric text
  included) and a blank are dropped whether they arrive inside a range or as a direct scalar argument
  (`isinstance(x, (int, float))` after removing `bool`), so one cell list describes both.
  Numbers are exact rationals: Python's left-to-right float `sum` is exact on the inputs the correspondence run
  generates (dyadic numbers of moderate size); AVERAGE's final division is compared with a tolerance.
-/
import Pycel.Model.Value
import Pycel.Model.Proto
import Pycel.Generated.Subtotal
import Pycel.Generated.AggErrors
namespace Pycel.Agg
open Pycel

/-- `flatten` of one argument: a scalar is one cell, a range its cells in row-major order -/
def argCells : Arg → List Val
  | .scalar v => [v]
  | .arr a => a.flatten

/-- `tuple(flatten(args))` -/
def cellsOf (args : List Arg) : List Val := args.flatMap argCells

/-- the live `ERROR_CODES` as character lists -/
def errorTexts : List (List Char) := Gen.aggErrorCodes.map String.toList

/-- `x in ERROR_CODES`: in pycel an error value IS its text, so a cell is an error exactly when it is one of the
    seven error values of `Val` or a text spelled like a live error code (`#GETTING_DATA` is one and has no `Err`
    constructor).  Any other text — `#TODO`, `#REF`, `#N/A ` with a space, `#n/a`, `#EMPTY!` — is plain text. -/
def isErrCell : Val → Bool
  | .err _ => true
  | .str s => errorTexts.contains s
  | _ => false

def numOf? : Val → Option Rat
  | .num q => some q
  | _ => none

/-- `next((x for x in args if x in ERROR_CODES), None)`: the first error cell itself (the code returns that value) -/
def firstErr (cs : List Val) : Option Val := cs.find? isErrCell

/-- the cells that survive `not isinstance(a, bool)` and `isinstance(x, (int, float))`: numbers only -/
def nums (cs : List Val) : List Rat := cs.filterMap numOf?

/-- `_numerics(*args)` with the default `keep_bools=False`, identity `to_number` -/
def numerics (cs : List Val) : Except Val (List Rat) :=
  match firstErr cs with
  | some e => .error e
  | none => .ok (nums cs)

/-- Python `sum(data)` (start 0) over exact numbers -/
def rsum : List Rat → Rat
  | [] => 0
  | x :: xs => x + rsum xs

/-- Python `math.prod` -/
def rprod : List Rat → Rat
  | [] => 1
  | x :: xs => x * rprod xs

/-- Python `min(m, *xs)`: the first minimal element -/
def minL : Rat → List Rat → Rat
  | m, [] => m
  | m, x :: xs => minL (if x < m then x else m) xs

/-- Python `max(m, *xs)`: the first maximal element -/
def maxL : Rat → List Rat → Rat
  | m, [] => m
  | m, x :: xs => maxL (if m < x then x else m) xs

def natRat (n : Nat) : Rat := ((n : Int) : Rat)

def sum_ (cs : List Val) : Val :=
  match numerics cs with
  | .error e => e
  | .ok data => .num (rsum data)

def average (cs : List Val) : Val :=
  match numerics cs with
  | .error e => e
  | .ok data => if data.length = 0 then .err .div0 else .num (rsum data / natRat data.length)

/-- `count` never consults `_numerics`: error cells are simply not numbers -/
def count (cs : List Val) : Val := .num (natRat (nums cs).length)

def min_ (cs : List Val) : Val :=
  match numerics cs with
  | .error e => e
  | .ok [] => .num 0
  | .ok (x :: xs) => .num (minL x xs)

def max_ (cs : List Val) : Val :=
  match numerics cs with
  | .error e => e
  | .ok [] => .num 0
  | .ok (x :: xs) => .num (maxL x xs)

/-- the five aggregates the property names -/
inductive Fn where
  | sum | average | min | max | count
  deriving DecidableEq, Repr, Inhabited

def Fn.all : List Fn := [.sum, .average, .min, .max, .count]

def agg : Fn → List Val → Val
  | .sum => sum_
  | .average => average
  | .min => min_
  | .max => max_
  | .count => count

/-- aggregate of a rectangle (a range is handed over as a tuple of row tuples) -/
def aggA (f : Fn) (a : Arr) : Val := agg f a.flatten

/-- aggregate of an argument list as a formula passes it -/
def aggArgs (f : Fn) (args : List Arg) : Val := agg f (cellsOf args)

/-! ### SUBTOTAL: resolved when the formula is compiled -/

/-- the python function name `func_subtotal` emits for a literal function number, `none` = ValueError -/
def subtotalName (n : Int) : Option String :=
  if n < 0 then none else
  match Gen.subtotalFuncs n.toNat with
  | some s => some s
  | none => if 100 ≤ n then Gen.subtotalFuncs (n.toNat - 100) else none

/-- the library functions of this model by their python names -/
def byName : String → Option Fn
  | "sum_" => some .sum
  | "average" => some .average
  | "min_" => some .min
  | "max_" => some .max
  | "count" => some .count
  | _ => none

inductive SubRes where
  | value (v : Val)
  | unknownFunction        -- emitted name not found in the function modules: pycel UnknownFunction
  | badNumber              -- ValueError("Unknown SUBTOTAL function number") at compile time
  | unmodelled (name : String)
  deriving DecidableEq

def subtotal (n : Int) (cs : List Val) : SubRes :=
  match subtotalName n with
  | none => .badNumber
  | some name =>
    match Gen.subtotalResolved name with
    | none => .unknownFunction
    | some _ =>
      match byName name with
      | some f => .value (agg f cs)
      | none => .unmodelled name

/-! ### SUMPRODUCT -/

/-- `x if isinstance(x, (float, int)) and not isinstance(x, bool) else 0` -/
def n0 : Val → Rat
  | .num q => q
  | _ => 0

/-- `(len(arg), len(arg[0]))` -/
def shape (a : Arr) : Nat × Nat := (a.length, (a.headD []).length)

/-- `np.prod(values, axis=0)` for a non-empty stack of equally long rows -/
def colProd : List (List Rat) → List Rat
  | [] => []
  | [r] => r
  | r :: r2 :: rs => List.zipWith (· * ·) r (colProd (r2 :: rs))

def isScalar : Arg → Bool
  | .scalar _ => true
  | .arr _ => false

def arrOf? : Arg → Option Arr
  | .arr a => some a
  | .scalar _ => none

def scalarOf? : Arg → Option Val
  | .scalar v => some v
  | .arr _ => none

def allSameShape : List Arr → Bool
  | [] => false
  | a :: as => as.all (fun b => shape b = shape a)

def sumproduct (args : List Arg) : Val :=
  match firstErr (cellsOf args) with
  | some e => e
  | none =>
    if args.any isScalar then
      if args.all isScalar then
        -- "the all scalers case": None is kept and makes math.prod raise TypeError -> #VALUE!
        let vs := args.filterMap scalarOf?
        if vs.any (· == .blank) then .err .value else .num (rprod (vs.map n0))
      else .err .value
    else
      let as := args.filterMap arrOf?
      if allSameShape as then
        .num (rsum (colProd (as.map fun a => a.flatten.map n0)))
      else .err .value

end Pycel.Agg

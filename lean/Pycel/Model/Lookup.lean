/-
  Executable model of pycel's lookup functions.
  Anchors: src/pycel/lib/lookup.py:66-141 (`_match`), 197-226 (`hlookup`), 234-298 (`index`), 316-371 (`lookup`),
           374-383 (`match`), 469-501 (`vlookup`); ordering key src/pycel/excelutil.py:1126-1184
           (`type_cmp_value`, `ExcelCmp`); wildcards excelutil.py:1026-1033 (`build_wildcard_re`);
           argument wrappers src/pycel/lib/function_helpers.py (`nums_wrapper`, `error_string_wrapper`).
  Import-free apart from Value.lean.  The ExcelCmp order is defined locally (`key`, `keyAs`, `ltK`): Model/Ops.lean of
  C10 did not exist when this was written and is still changing; the two are independent.

  Model policy: the code line by line, except where property C16 decides:
    * the wildcard matcher `wildT` is a structural `?`/`*`/`~` matcher (the property's semantics), not a regex
      (the code's regex translation was repaired by C15 in 98ca885 and now agrees with it);
    * the linear scans (match types 0 and -1) skip blank cells — "type-strict" equality, "of v's type"; the code
      read a blank as the number 0 until fix 19957b2;
    * LOOKUP past the end of a short result vector is #REF! (what INDEX gives there; fix 4ab6994).
  Not modelled: CSE (array-valued lookup values), reference-returning INDEX, text coercion of numeric arguments.
-/
import Pycel.Model.Value
namespace Pycel.Lookup
open Pycel

/-! ## ExcelCmp -/

/-- `str.lower()` on ASCII and Latin-1: A-Z and U+00C0..U+00DE (except the sign U+00D7) move 32 up; every other
    character (control characters, line breaks, `ß`, …) is unchanged.  Python agrees on all of U+0000..U+00FF; text
    beyond Latin-1 is not sent by the correspondence run. -/
def lowerChar (c : Char) : Char :=
  if (65 ≤ c.toNat ∧ c.toNat ≤ 90) ∨ (192 ≤ c.toNat ∧ c.toNat ≤ 222 ∧ c.toNat ≠ 215) then Char.ofNat (c.toNat + 32)
  else c

def lower (s : List Char) : List Char := s.map lowerChar

/-- `ExcelCmp(value).cmp_type` (type_cmp_value; a blank without `empty` is a number). -/
def rank : Val → Nat
  | .num _ => 0
  | .blank => 0
  | .str _ => 1
  | .bool _ => 2
  | .err _ => 3

/-- position of an error text in Python's string order:
    '#DIV/0!' < '#N/A' < '#NAME?' < '#NULL!' < '#NUM!' < '#REF!' < '#VALUE!' -/
def errOrd : Err → Nat
  | .div0 => 0 | .na => 1 | .name => 2 | .null => 3 | .num => 4 | .ref => 5 | .value => 6

/-- `ExcelCmp(value)`: the normalised comparison key (blank → 0.0, text lower-cased). Never `.blank`. -/
def key : Val → Val
  | .blank => .num 0
  | .str s => .str (lower s)
  | v => v

/-- `ExcelCmp(other, empty=self)`: a blank on the other side adapts to the type of `self`
    (`self.empty` = 0.0, '', False, or the error itself). -/
def keyAs (self : Val) : Val → Val
  | .blank =>
    match self with
    | .num _ => .num 0
    | .blank => .num 0
    | .str _ => .str []
    | .bool _ => .bool false
    | .err e => .err e
  | v => key v

/-- tuple `<` on `(cmp_type, value)` of two keys -/
def ltK : Val → Val → Bool
  | .num a, .num b => decide (a < b)
  | .str a, .str b => decide (a < b)
  | .bool a, .bool b => !a && b
  | .err a, .err b => decide (errOrd a < errOrd b)
  | a, b => decide (rank a < rank b)

/-- `a <= b` on keys -/
def leK (a b : Val) : Bool := !ltK b a

/-! ## wildcards (excelutil.build_wildcard_re: `?` one character, `*` any run of characters, `~x` literal `x`) -/

/-- `build_wildcard_re(v) is not None`: the value holds one of `? * ~` -/
def isWildChar (c : Char) : Bool := c == '*' || c == '?' || c == '~'

def hasWild (p : List Char) : Bool := p.any isWildChar

inductive PTok where
  | lit (c : Char)
  | one
  | many
  deriving DecidableEq, Repr

/-- the left-to-right reading of a pattern: `~x` is the literal `x`, a trailing lone `~` is a literal `~` -/
def parsePat : List Char → List PTok
  | [] => []
  | [c] => if c == '?' then [.one] else if c == '*' then [.many] else [.lit c]
  | c :: d :: r =>
    if c == '~' then .lit d :: parsePat r
    else if c == '?' then .one :: parsePat (d :: r)
    else if c == '*' then .many :: parsePat (d :: r)
    else .lit c :: parsePat (d :: r)

/-- `f` holds of some suffix of the text (what `.*` followed by the rest of the pattern asks) -/
def anySuffix (f : List Char → Bool) : List Char → Bool
  | [] => f []
  | c :: cs => f (c :: cs) || anySuffix f cs

/-- structural full match of a token list against a text (recursion on the pattern) -/
def wildT : List PTok → List Char → Bool
  | [], s => s.isEmpty
  | .lit p :: ps, s =>
    match s with
    | c :: cs => p == c && wildT ps cs
    | [] => false
  | .one :: ps, s =>
    match s with
    | _ :: cs => wildT ps cs
    | [] => false
  | .many :: ps, s => anySuffix (wildT ps) s

def wild (p s : List Char) : Bool := wildT (parsePat p) s

/-! ## `bisect_right(a, x, lo, hi)` -/

/-- the standard loop, `p mid` = `x < a[mid]`; fuel bounds the number of iterations -/
def bisectLoop (p : Nat → Bool) : Nat → Nat → Nat → Nat
  | 0, lo, _ => lo
  | f + 1, lo, hi =>
    if lo < hi then
      let mid := (lo + hi) / 2
      if p mid then bisectLoop p f lo mid else bisectLoop p f (mid + 1) hi
    else lo

/-- `x < a[mid]` as ExcelCmp evaluates it (`x` already an ExcelCmp, the cell adapts when blank) -/
def gtAt (x : Val) (a : List Val) (mid : Nat) : Bool := ltK (key x) (keyAs x (a.getD mid .blank))

def bisectRight (x : Val) (a : List Val) (lo hi : Nat) : Nat :=
  bisectLoop (gtAt x a) (hi - lo + 1) lo hi

/-! ## `_match` -/

/-- `while lo < len(a) and a[lo] is None: lo += 1` -/
def leadBlanks : List Val → Nat
  | .blank :: xs => leadBlanks xs + 1
  | _ => 0

/-- `hi = len(a); while hi > 0 and a[hi-1] is None: hi -= 1` -/
def trimHi (a : List Val) : Nat := a.length - leadBlanks a.reverse

/-- `while result and lookup_value.cmp_type != ExcelCmp(a[result-1]).cmp_type: result -= 1` -/
def backoff (t : Nat) (a : List Val) : Nat → Nat
  | 0 => 0
  | r + 1 => if rank (a.getD r .blank) ≠ t then backoff t a r else r + 1

def na : Val := .err .na

/-- match_type 1 -/
def matchAsc (v : Val) (a : List Val) : Val :=
  let r := backoff (rank v) a (bisectRight v a (leadBlanks a) (trimHi a))
  if r = 0 ∨ a.getD (r - 1) .blank = .blank then na else .num (r : Nat)

/-- the cell takes part in a linear scan: not an error (code), not blank (property: type-strict), same cmp_type -/
def candidate (v x : Val) : Bool := !x.isErr && x != .blank && rank x == rank v

/-- `compare` of match_type 0 on a candidate cell -/
def eqv (v x : Val) : Bool :=
  match key v with
  | .str p => if hasWild p then (match key x with | .str s => wild p s | _ => false) else key x == .str p
  | k => key x == k

/-- match_type 0: `i` is the 1-based position of the head of the list -/
def scanExact (v : Val) : List Val → Nat → Val
  | [], _ => na
  | x :: xs, i => if candidate v x && eqv v x then .num (i : Nat) else scanExact v xs (i + 1)

def matchExact (v : Val) (a : List Val) : Val := scanExact v a 1

/-- match_type -1 (and every other value): `res` is `result[0]` -/
def scanDesc (v : Val) : List Val → Nat → Val → Val
  | [], _, res => res
  | x :: xs, i, res =>
    if candidate v x then
      if ltK (key x) (key v) then res
      else if key x == key v then .num (i : Nat)
      else scanDesc v xs (i + 1) (.num (i : Nat))
    else scanDesc v xs (i + 1) res

def matchDesc (v : Val) (a : List Val) : Val := scanDesc v a 1 na

/-- `_match(lookup_value, lookup_array, match_type)` -/
def pmatch (v : Val) (a : List Val) (mt : Rat) : Val :=
  if mt = 1 then matchAsc v a else if mt = 0 then matchExact v a else matchDesc v a

/-! ## argument wrappers -/

/-- `coerce_to_number(x, convert_all=True)` then the number/error tests of `nums_wrapper`:
    `.ok q` or the value returned instead of calling the function.  Text is modelled only as "not a number". -/
def numArg : Val → Except Val Rat
  | .num q => .ok q
  | .bool b => .ok (if b then 1 else 0)
  | .blank => .ok 0
  | .err e => .error (.err e)
  | .str _ => .error (.err .value)

/-- Python `bool(x)` of a scalar -/
def truthy : Val → Bool
  | .num q => q ≠ 0
  | .bool b => b
  | .blank => false
  | .str s => !s.isEmpty
  | .err _ => true

/-- result of a lookup function: one cell or a sub-array -/
inductive Out where
  | cell (v : Val)
  | arr (a : Arr)
  deriving DecidableEq, Inhabited

def firstCol (t : Arr) : List Val := t.map (·.headD .blank)
def lastCol (t : Arr) : List Val := t.map (·.getLastD .blank)
def width (t : Arr) : Nat := (t.headD []).length

/-- `match`: a single row is searched along the row, anything else along its first column -/
def vecOf (arr : Arr) : List Val := if arr.length = 1 then arr.headD [] else firstCol arr

/-- MATCH(lookup_value, lookup_array, match_type) as a formula calls it -/
def xmatch (v : Val) (arr : Arr) (mt : Val) : Val :=
  match numArg mt with
  | .error e => e
  | .ok q => if v.isErr then v else pmatch v (vecOf arr) q

/-- `seq[i]` for a 1-based exact rational index known to be ≥ 1; `none` = IndexError -/
def nth? (l : List α) (i : Rat) : Option α := l[(i.floor - 1).toNat]?

def cellAt (t : Arr) (r c : Rat) : Option Val := (nth? t r).bind (nth? · c)

/-- `nums_wrapper` over (row_num, col_num): the first error among them wins, then any non-number gives #VALUE! -/
def indexArgs (row : Val) (col : Option Val) : Except Val (Rat × Rat) :=
  let c := col.getD .blank
  if row.isErr then .error row
  else if c.isErr then .error c
  else match numArg row, numArg c with
    | .ok r, .ok c => .ok (r, c)
    | _, _ => .error (.err .value)

/-- INDEX(array, row_num, col_num) on a value array (lookup.py:234-298) -/
def index (t : Arr) (row : Val) (col : Option Val) : Out :=
  match indexArgs row col with
  | .error e => .cell e
  | .ok (r, c) =>
      let ref (o : Option Val) : Out := .cell (o.getD (.err .ref))
      if r ≠ 0 ∧ c ≠ 0 then
        if r < 0 ∨ c < 0 then .cell (.err .value) else ref (cellAt t r c)
      else if r ≠ 0 then
        if r < 0 then .cell (.err .value)
        else if width t = 1 then ref (cellAt t r 1)
        else if t.length = 1 then ref (cellAt t 1 r)
        else match nth? t r with
          | some rw => .arr [rw]
          | none => .cell (.err .ref)
      else if c ≠ 0 then
        if c < 0 then .cell (.err .value)
        else if t.length = 1 then ref (cellAt t 1 c)
        else if width t = 1 then ref (cellAt t c 1)
        else if c ≤ (width t : Nat) then .arr (t.map fun rw => [(nth? rw c).getD .blank])
        else .cell (.err .ref)
      else .arr t

/-- `if isinstance(result_idx, int): <read the answer> else: return result_idx` -/
def onPos (r : Val) (f : Rat → Val) : Val :=
  match r with
  | .num idx => f idx
  | e => e

/-- shared body of VLOOKUP / HLOOKUP: `vec` is searched, `pick idx` reads the answer -/
def xlookupBody (v : Val) (vec : List Val) (limit : Nat) (k : Val) (rl : Val) (pick : Rat → Rat → Option Val) : Val :=
  match numArg k with
  | .error e => e
  | .ok k =>
    if v.isErr then v
    else if rl.isErr then rl
    else if k ≤ 0 then .err .value
    else if k > (limit : Nat) then .err .ref
    else
      onPos (pmatch v vec (if truthy rl then 1 else 0)) fun idx => (pick idx k).getD (.err .ref)

/-- VLOOKUP(lookup_value, table_array, col_index_num, range_lookup) -/
def vlookup (v : Val) (t : Arr) (k : Val) (rl : Val) : Val :=
  xlookupBody v (firstCol t) (width t) k rl (fun idx k => cellAt t idx k)

/-- HLOOKUP(lookup_value, table_array, row_index_num, range_lookup) -/
def hlookup (v : Val) (t : Arr) (k : Val) (rl : Val) : Val :=
  xlookupBody v (t.headD []) t.length k rl (fun idx k => cellAt t k idx)

/-- the vector a LOOKUP result range denotes, `none` = "not a vector" (#N/A) -/
def resultVec (rr : Arr) : Option (List Val) :=
  if width rr < rr.length then (if width rr ≠ 1 then none else some (firstCol rr))
  else (if rr.length ≠ 1 then none else some (rr.headD []))

/-- LOOKUP searches along the longer dimension: first column / last column when the array is at least as tall
    as wide, else first row / last row -/
def lookupVecs (t : Arr) : List Val × List Val :=
  if width t ≤ t.length then (firstCol t, lastCol t) else (t.headD [], t.getLastD [])

/-- the vector LOOKUP answers from: the last column/row (array form) or the given result range -/
def resultOf (t : Arr) (rr : Option Arr) : Option (List Val) :=
  match rr with
  | none => some (lookupVecs t).2
  | some rr => resultVec rr

/-- LOOKUP(lookup_value, lookup_array, result_range) -/
def lookup (v : Val) (t : Arr) (rr : Option Arr) : Val :=
  if v.isErr then v else
  match resultOf t rr with
  | none => na
  | some res => onPos (pmatch v (lookupVecs t).1 1) fun idx => (nth? res idx).getD (.err .ref)

def transpose (t : Arr) : Arr := (List.range (width t)).map fun j => t.map fun rw => rw.getD j .blank

end Pycel.Lookup

/-
  Driver-facing instantiation of the generic engine (Model/Engine.lean): a small concrete formula language over
  `Pycel.Val`, evaluated the way pycel evaluates the corresponding Excel formulas on the values the C01 generator
  produces (integers, non-numeric text, logicals, blank; `#VALUE!` arises from `+` on text).

    ref j          `=A1`                       blank -> 0 (eval_func: `ret_val if ret_val not in (None, EMPTY) else 0`)
    cat [j…]       `=A1&"|"&B1&"|"`            coerce_to_string: 5 -> "5", TRUE/FALSE, blank -> "", first error wins
    add a b        `=A1+B1`                    logical -> 1/0, blank -> 0, text -> #VALUE!, left error first
    sub a b        `=A1-B1`                    same coercions
    eq a b         `=A1=B1`                    same Excel type and equal (text: ASCII case-insensitive), blank equals
                                               0, "", FALSE and blank; different types are unequal; left error first
    sum [j…]       `=SUM(A1:A3,B1)`            numbers only (text, logicals, blanks ignored), first error wins
    cnt [j…]       `=COUNT(A1:A3,B1)`          how many numbers (errors ignored)
    idx r row col  `=INDEX(A1:B3,row,col)`     member value, blank -> 0
    isum r1 r2 pos `=SUM(A1:B3 B2:C3)`         sum over the intersection; both operand ranges are declared precedents,
                                               only the common cells (positions `pos` of r1, 0-based) are read
  Range nodes evaluate to the tuple of their members' values.

  Text that looks like a number is never generated (pycel would read it with Python's float()); non-integral numbers
  are never generated (their text rendering is C10/C20 territory).  Import-free apart from Value/Engine.
-/
import Pycel.Model.Value
import Pycel.Model.Engine
namespace Pycel.EngineInst
open Pycel Pycel.Engine

/-- what a node evaluates to: a scalar (cells) or a tuple of tuples (range nodes) -/
inductive EV where
  | sc (v : Val)
  | arr (rows : List (List Val))
  deriving DecidableEq, Inhabited

def EV.val : EV → Val
  | .sc v => v
  | .arr _ => .blank

def EV.flat : EV → List Val
  | .sc v => [v]
  | .arr rows => rows.flatten

inductive Fml where
  | ref (j : Nat)
  | cat (js : List Nat)
  | add (a b : Nat)
  | sub (a b : Nat)
  | eq (a b : Nat)
  | sum (js : List Nat)
  | cnt (js : List Nat)
  | idx (r row col : Nat)
  | isum (r1 r2 : Nat) (pos : List (Nat × Nat))
  deriving Repr, Inhabited

def Fml.refs : Fml → List Nat
  | .ref j => [j]
  | .cat js => js
  | .add a b => [a, b]
  | .sub a b => [a, b]
  | .eq a b => [a, b]
  | .sum js => js
  | .cnt js => js
  | .idx r _ _ => [r]
  | .isum r1 r2 _ => [r1, r2]

inductive Spec where
  | inp (v : Val)
  | fml (e : Fml)
  | rng (rows : List (List Nat))
  deriving Inhabited

def Spec.deps : Spec → List Nat
  | .inp _ => []
  | .fml e => e.refs
  | .rng rows => rows.flatten

def mkWb (specs : List Spec) : Workbook where
  n := specs.length
  kind := fun i => match specs[i]? with
    | some (.fml _) => .formula
    | some (.rng _) => .range
    | _ => .input
  deps := fun i => match specs[i]? with
    | some sp => sp.deps
    | none => []

def inputsOf (specs : List Spec) : Nat → EV := fun i =>
  match specs[i]? with
  | some (.inp v) => .sc v
  | _ => .sc .blank

/-! ### formula semantics -/

def renderNum (q : Rat) : List Char :=
  if q.den = 1 then (toString q.num).toList else (toString q.num ++ "/" ++ toString q.den).toList

/-- `coerce_to_string` (excelutil.py) on the generated values -/
def toText : Val → Except Err (List Char)
  | .num q => .ok (renderNum q)
  | .str s => .ok s
  | .bool b => .ok (if b then "TRUE".toList else "FALSE".toList)
  | .blank => .ok []
  | .err e => .error e

/-- `coerce_to_number` for `+` on the generated values (text is never numeric-looking) -/
def toNum : Val → Except Err Rat
  | .num q => .ok q
  | .str _ => .error .value
  | .bool b => .ok (if b then 1 else 0)
  | .blank => .ok 0
  | .err e => .error e

/-- `eval_func`: a formula never returns `None` -/
def finish : Val → Val
  | .blank => .num 0
  | v => v

def firstErr : List Val → Option Err
  | [] => none
  | .err e :: _ => some e
  | _ :: vs => firstErr vs

def sumNums : List Val → Rat
  | [] => 0
  | .num q :: vs => q + sumNums vs
  | _ :: vs => sumNums vs

def countNums : List Val → Nat
  | [] => 0
  | .num _ :: vs => countNums vs + 1
  | _ :: vs => countNums vs

/-- `a & "|" & b & "|" …`, left to right; the first error operand is the result -/
def catVals : List Char → List Val → Val
  | acc, [] => .str acc
  | acc, v :: vs =>
    match toText v with
    | .ok t => catVals (acc ++ t ++ ['|']) vs
    | .error e => .err e

/-- `=a=b` (ExcelCmp in excelutil.py on the generated values) -/
def eqVals : Val → Val → Val
  | .err e, _ => .err e
  | _, .err e => .err e
  | .num a, .num b => .bool (decide (a = b))
  | .str a, .str b => .bool (decide (a.map Char.toLower = b.map Char.toLower))
  | .bool a, .bool b => .bool (a == b)
  | .blank, .blank => .bool true
  | .blank, .num b => .bool (decide (b = 0))
  | .num a, .blank => .bool (decide (a = 0))
  | .blank, .str b => .bool b.isEmpty
  | .str a, .blank => .bool a.isEmpty
  | .blank, .bool b => .bool (!b)
  | .bool a, .blank => .bool (!a)
  | _, _ => .bool false

def evalFml (e : Fml) (env : Nat → EV) : EV :=
  .sc <| match e with
  | .ref j => finish (env j).val
  | .cat js => catVals [] (js.map fun j => (env j).val)
  | .add a b =>
    match toNum (env a).val with
    | .error e => .err e
    | .ok x =>
      match toNum (env b).val with
      | .error e => .err e
      | .ok y => .num (x + y)
  | .sub a b =>
    match toNum (env a).val with
    | .error e => .err e
    | .ok x =>
      match toNum (env b).val with
      | .error e => .err e
      | .ok y => .num (x - y)
  | .eq a b => eqVals (env a).val (env b).val
  | .sum js =>
    let vs := (js.map fun j => (env j).flat).flatten
    match firstErr vs with
    | some e => .err e
    | none => .num (sumNums vs)
  | .cnt js => .num ((countNums (js.map fun j => (env j).flat).flatten : Nat) : Int)
  | .idx r row col =>
    match env r with
    | .arr rows => finish ((rows.getD (row-1) []).getD (col-1) .blank)
    | .sc _ => .err .ref
  | .isum r1 _ pos =>
    match env r1 with
    | .arr rows =>
      let vs := pos.map fun p => (rows.getD p.1 []).getD p.2 .blank
      match firstErr vs with
      | some e => .err e
      | none => .num (sumNums vs)
    | .sc _ => .err .ref

/-- the formula semantics handed to the engine -/
def sem (specs : List Spec) : Nat → (Nat → EV) → EV := fun i env =>
  match specs[i]? with
  | some (.fml e) => evalFml e env
  | some (.rng rows) => .arr (rows.map fun row => row.map fun j => (env j).val)
  | _ => .sc .blank

/-! ### well-formedness is checkable, read-locality holds by construction -/

def wfCheck (specs : List Spec) : Bool :=
  (List.range specs.length).all fun i =>
    match specs[i]? with
    | some sp => sp.deps.all fun j => decide (j < i)
    | none => true

/-! ### the equality test of `set_value` -/

/-- Python's `==` between two stored scalars (what `cell.value != value` negates): a logical equals the number 1/0 -/
def pyEqVal : Val → Val → Bool
  | .num a, .num b => decide (a = b)
  | .num a, .bool b => decide (a = if b then 1 else 0)
  | .bool a, .num b => decide (b = if a then 1 else 0)
  | .bool a, .bool b => a == b
  | .str a, .str b => decide (a = b)
  | .blank, .blank => true
  | .err a, .err b => decide (a = b)
  | _, _ => false

def pyEq : EV → EV → Bool
  | .sc a, .sc b => pyEqVal a b
  | a, b => decide (a = b)

/-- the repaired test: same Excel type and same value -/
def typedEq (a b : EV) : Bool := decide (a = b)

end Pycel.EngineInst

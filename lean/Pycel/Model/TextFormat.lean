/-
  Model of TEXT(value, format) (src/pycel/lib/text.py:222-347 TextFormat.format_value / _number_converter /
  _number_token_converter, and `text` 589-595) for number formats made of the five symbols  0 # , . %  in the canonical
  shape
        %*  [#,]* [0,]*  ( . 0* #* )?  %*
  (hashes before zeros in the integer part, zeros before hashes in the fraction, every comma between two
  placeholders, at most three `0` placeholders when a thousands comma is present).  `parseFmt` recognises exactly that
  shape; any other format is outside the model (`none`; the harness never sends one).

  The number is taken as an exact decimal/rational x (a Python float stands for the decimal its shortest repr shows).
  PROPERTY-DRIVEN (C20: "renders the half-away-from-zero decimal rounding of x with the requested digits, grouping
  and percent scaling"): the scaled value |x|·100^percents is rounded to `d` decimals half away from zero, exactly
  (the code used binary float formatting / builtin round: half-even on the binary value).
  Everything else follows the code: '-' in front of a negative number even when it rounds to zero, integer digits
  stripped of leading zeros and padded to the number of `0` placeholders, Python's `,` grouping, trailing fraction
  zeros kept only for `0` placeholders, a format without any placeholder or point returned as it is.
-/
import Pycel.Model.Ops
namespace Pycel.TextFormat
open Pycel Pycel.Ops

abbrev Text := List Char

structure Fmt where
  pre : Nat          -- leading %
  hashes : Nat       -- # in the integer part
  zeros : Nat        -- 0 in the integer part
  thousands : Bool
  dot : Bool
  fz : Nat           -- 0 in the fraction
  fh : Nat           -- # in the fraction
  post : Nat         -- trailing %
  deriving Repr, DecidableEq

def isPh (c : Char) : Bool := c = '#' || c = '0'

/-- every comma stands between two placeholders -/
def commasOk : Text → Bool
  | a :: ',' :: b :: rest => isPh a && isPh b && commasOk (b :: rest)
  | ',' :: _ => false
  | [_, ','] => false
  | _ :: rest => commasOk rest
  | [] => true

def parseFmt (s : Text) : Option Fmt :=
  let pre := (s.takeWhile (· = '%')).length
  let r1 := s.dropWhile (· = '%')
  let ip := r1.takeWhile fun c => isPh c || c = ','
  let r2 := r1.dropWhile fun c => isPh c || c = ','
  let ph := ip.filter isPh
  let hashes := (ph.takeWhile (· = '#')).length
  let zs := ph.dropWhile (· = '#')
  let thousands := ip.contains ','
  let (dot, fr, r3) : Bool × Text × Text :=
    match r2 with
    | '.' :: t => (true, t.takeWhile isPh, t.dropWhile isPh)
    | _ => (false, [], r2)
  let fz := (fr.takeWhile (· = '0')).length
  let fhs := fr.dropWhile (· = '0')
  if zs.all (· = '0') && fhs.all (· = '#') && r3.all (· = '%') && commasOk ip
      && (!thousands || zs.length ≤ 3) then
    some { pre, hashes, zeros := zs.length, thousands, dot, fz, fh := fhs.length, post := r3.length }
  else none

def Fmt.decimals (F : Fmt) : Nat := if F.dot then F.fz + F.fh else 0
def Fmt.percents (F : Fmt) : Nat := F.pre + F.post
def Fmt.noNumber (F : Fmt) : Bool := F.hashes + F.zeros + F.fz + F.fh = 0 && !F.dot

/-- the scaled magnitude as a fraction N / D: |x| · 100^percents · 10^decimals -/
def scaledNum (F : Fmt) (x : Rat) : Nat := x.num.natAbs * 100 ^ F.percents * 10 ^ F.decimals

/-- nearest integer to N / D, ties away from zero (N, D ≥ 0, D > 0) -/
def roundHalfUp (N D : Nat) : Nat := (2 * N + D) / (2 * D)

/-- the rounded scaled magnitude: an integer count of units 10^-decimals -/
def rounded (F : Fmt) (x : Rat) : Nat := roundHalfUp (scaledNum F x) x.den

def digits (n : Nat) : Text := Nat.toDigits 10 n

/-- integer digits without leading zeros: empty for 0 (`lstrip('0')`) -/
def intDigits (n : Nat) : Text := if n = 0 then [] else digits n

def zpadLeft (w : Nat) (s : Text) : Text := List.replicate (w - s.length) '0' ++ s
def zpadRight (w : Nat) (s : Text) : Text := s ++ List.replicate (w - s.length) '0'

def stripTrailing0 (s : Text) : Text := (s.reverse.dropWhile (· = '0')).reverse

/-- commas every three characters counted from the end of the reversed input; `k` = characters since the last comma -/
def group3Rev : Text → Nat → Text
  | [], _ => []
  | c :: cs, k => if k = 3 then ',' :: c :: group3Rev cs 1 else c :: group3Rev cs (k + 1)

def group3 (s : Text) : Text := (group3Rev s.reverse 0).reverse

def pct (n : Nat) : Text := List.replicate n '%'

/-- integer part of the output -/
def intPart (F : Fmt) (r : Nat) : Text :=
  let ds := zpadLeft F.zeros (intDigits (r / 10 ^ F.decimals))
  if F.thousands then group3 ds else ds

/-- fraction part of the output (without the point) -/
def fracPart (F : Fmt) (r : Nat) : Text :=
  zpadRight F.fz (stripTrailing0 (zpadLeft F.decimals (digits (r % 10 ^ F.decimals))))

/-- the number branch of `format_value` for a canonical format -/
def textNum (F : Fmt) (fmt : Text) (x : Rat) : Text :=
  let sign : Text := if x < 0 then ['-'] else []
  if F.noNumber then sign ++ fmt else
  let r := rounded F x
  sign ++ pct F.pre ++ intPart F r ++ (if F.dot then '.' :: fracPart F r else [])
    ++ pct F.post

/-- TEXT(value, format): cse 0, str_params 1.  `none` = format outside the modelled grammar. -/
def TEXT (v fmt : Val) : Option Val :=
  match coerceToString fmt with
  | .err e => some (.err e)
  | .str f =>
    match parseFmt f with
    | none => none
    | some F =>
      let num (x : Rat) : Option Val := some (.str (textNum F f x))
      match v with
      | .err e => some (.err e)
      | .bool b => some (.str (if b then trueText else falseText))
      | .blank => num 0
      | .num x => num x
      | .str s =>
        match parseNum? s with
        | some x => num x
        | none => some (.str s)
  | _ => none

end Pycel.TextFormat

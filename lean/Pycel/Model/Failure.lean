/-
  C09 — failure-aware evaluation engine: a formula may RAISE (unknown function, exception inside a library or plugin
  function, possibly only on its k-th call); nothing is cached for a failed evaluation, the exception travels up
  through every `eval_func` frame on the stack, and the transient state of the real code is part of the model.

  Built on the generic engine of C01 (Model/Engine.lean): the persistent part of the state is `Engine.State (R α)`
  with `R α = Except Fail α` (inputs and cached values are always `.ok`, see `Good`), `set_value` IS `Engine.setValue`,
  and the from-scratch value is `Engine.denote` of the lifted semantics `lift` ("a precedent that fails makes the cell
  fail"), so the C01 lemmas about `denote`, `setValue`, `resetF` are reused unchanged.

  Anchors (src/pycel):
    excelformula.py:850-888  error_messages / capture_error_state / error_logger   -> `FState.errs`, `Discipline`
    excelformula.py:929-961  eval_func (try / except NameError / RecursionError / Exception, `if error_messages`)
                                                                                    -> `evalX` formula branch, `mapRaw`, `wrap`
    excelutil.py:864-869     in_array_formula_context.__enter__/__exit__          -> `FState.ctx` (pushed/popped in `evalX`)
    excelcompiler.py:765-838 _evaluate_range / _evaluate                          -> `evalX` (range branch has no eval_func frame)
    excelcompiler.py:901-955 _gen_graph / _process_gen_graph (graph_todos loop, range_todos, `finally`)
                                                                                    -> `markF`, `buildX`
    excelcompiler.py:840-873 _evaluate_non_iterative                              -> `evaluateX`
    excelcompiler.py:417-461 set_value                                            -> `setValueX`, `repair`
    excelcompiler.py:165-177 eval / _eval in cycles mode, 1162-1187 _CycleCell     -> `evalI`, `ICell` (second half)

  Where the model follows the PROPERTY (C09) and not the pinned code (each a defect of the pinned code, repaired in
  /repo by the two `fix:` commits listed in known_findings.txt, or listed there as a finding):
    * error-message discipline: an evaluation restores the shared list to its entry depth on every exit
      (`Discipline.repaired`); the pinned code popped one entry per evaluation and asserted `1 == len` on failure
      (`Discipline.asWritten`, kept for the counterexample theorems only);
    * iterative mode: an abandoned evaluation clears its `wip` flag (`evalI true`; `evalI false` = pinned code);
    * `set_value` over a formula cell makes the cell a value cell of the repaired workbook (`repairWb`); the code
      keeps the formula and re-evaluates it once the cell is reset (plain) or at every read (iterative): finding.

  Import-free apart from Engine/EngineInst, structural recursion only (fuel), executable.
-/
import Pycel.Model.Engine
import Pycel.Model.EngineInst
namespace Pycel.Failure
open Pycel.Engine

/-- what the compiled lambda of a cell raises -/
inductive Raw where
  | nameError | recursion | other
  deriving DecidableEq, Repr, Inhabited

/-- what `evaluate` raises: pycel's own `UnknownFunction` / `FormulaEvalError`, the re-raised `RecursionError`,
    or a bare internal `AssertionError` -/
inductive Fail where
  | unknownFunction | formulaEval | recursion | assertion
  deriving DecidableEq, Repr, Inhabited

/-- the `except` clauses of `eval_func` (excelformula.py:945-955) -/
def mapRaw : Raw → Fail
  | .nameError => .unknownFunction
  | .recursion => .recursion
  | .other => .formulaEval

/-- an exception of a precedent passing through the `eval_func` frame of the cell that read it:
    `RecursionError` is re-raised as such, every other exception (pycel's are `Exception`s) becomes FormulaEvalError -/
def wrap : Fail → Fail
  | .recursion => .recursion
  | _ => .formulaEval

/-- "one of pycel's own errors" -/
def Fail.pycel : Fail → Bool
  | .unknownFunction => true
  | .formulaEval => true
  | _ => false

abbrev R (α : Type) := Except Fail α

/-- formula semantics with failures.
    `f i env`     the value of formula / range node `i` over the values `env` of its precedents, or the exception the
                  library / plugin function raises on these arguments (`nameError` = unknown function);
    `fault i c`   a transient fault: the `c`-th application (0-based) of node `i`'s formula raises regardless;
    `pre i`/`post i` number of messages the operators of formula `i` capture before / after it reads its precedents
                  (`capture_error_state` from `excel_operator_operand_fixup`: #VALUE!, #DIV/0!);
    `cse i`       node `i` is a CSE array formula (evaluated inside `in_array_formula_context(address)`);
    `dflt`        the value an unreadable precedent would have (never observed: see `Good`). -/
structure Sem (α : Type) where
  f : Nat → (Nat → α) → Except Raw α
  fault : Nat → Nat → Option Raw
  pre : Nat → Nat
  post : Nat → Nat
  cse : Nat → Bool
  dflt : α

section
variable {α : Type}

def firstFail (env : Nat → R α) : List Nat → Option Fail
  | [] => none
  | j :: js =>
    match env j with
    | .error e => some e
    | .ok _ => firstFail env js

def unwrap (d : α) : R α → α
  | .ok v => v
  | .error _ => d

def applyF (S : Sem α) (i : Nat) (env : Nat → R α) : R α :=
  match S.f i (fun j => unwrap S.dflt (env j)) with
  | .ok v => .ok v
  | .error r => .error (mapRaw r)

/-- the semantics handed to `Engine.denote`: the first failing precedent (in evaluation order) makes the node fail —
    unchanged through a plain range node (no `eval_func` frame), wrapped through a formula — else the formula applies -/
def lift (wb : Workbook) (S : Sem α) : Nat → (Nat → R α) → R α := fun i env =>
  match wb.kind i with
  | .input => .ok S.dflt
  | .range =>
    match firstFail env (wb.deps i) with
    | some e => .error e
    | none => applyF S i env
  | .formula =>
    match firstFail env (wb.deps i) with
    | some e => .error (wrap e)
    | none => applyF S i env

/-- the formulas read only their declared precedents -/
def SLocal (wb : Workbook) (S : Sem α) : Prop :=
  ∀ i (e e' : Nat → α), wb.kind i ≠ .input → (∀ j, j ∈ wb.deps i → e j = e' j) → S.f i e = S.f i e'

/-- no transient faults on the nodes of `P` -/
def QuietOn (S : Sem α) (P : Nat → Prop) : Prop := ∀ m, P m → ∀ c, S.fault m c = none

/-- nothing raises Python's RecursionError (acyclic workbooks of moderate depth) -/
def NoRec (S : Sem α) : Prop :=
  (∀ i env, S.f i env ≠ .error .recursion) ∧ ∀ i c, S.fault i c ≠ some .recursion

/-! ### the error-message discipline of `eval_func` -/

/-- `onFail d n e`: the frame entered with `d` pending messages, holds `n` now and its lambda raised what maps to `e`:
    (exception that leaves the frame, messages pending afterwards).  `onOk d n`: the lambda returned. -/
structure Discipline where
  onFail : Nat → Nat → Fail → Fail × Nat
  onOk : Nat → Nat → Nat

/-- the pinned code: `capture_error_state(exc, msg); assert 1 == len(error_messages); pop; raise` on failure
    (`except RecursionError` re-raises without touching the list), `if error_messages: pop` on success -/
def Discipline.asWritten : Discipline where
  onFail := fun _ n e =>
    match e with
    | .recursion => (.recursion, n)
    | e => if n + 1 = 1 then (e, 0) else (.assertion, n + 1)
  onOk := fun _ n => n - 1

/-- the repaired code: everything above the entry depth belongs to this evaluation and is dropped -/
def Discipline.repaired : Discipline where
  onFail := fun d _ e => (e, d)
  onOk := fun d _ => d

def Balanced (D : Discipline) : Prop :=
  (∀ d n e, D.onFail d n e = (e, d)) ∧ ∀ d n, D.onOk d n = d

/-! ### state -/

/-- persistent state (`core`: inputs, cached values, cell map) + the transient state of the real code -/
structure FState (α : Type) where
  core : State (R α)
  errs : Nat                 -- len(error_messages) of the compiler's eval context
  ctx : List Bool            -- in_array_formula_context.ns.ctx_addresses above its base entry (true = CSE address)
  graphTodos : List Nat      -- ExcelCompiler.graph_todos
  rangeTodos : List Nat      -- ExcelCompiler.range_todos
  calls : Nat → Nat          -- how often node i's formula has been applied (what a counting plugin observes)

/-- the transient state is at its initial value -/
def Clean (s : FState α) : Prop := s.errs = 0 ∧ s.ctx = [] ∧ s.graphTodos = [] ∧ s.rangeTodos = []

def initX (inp : Nat → α) : FState α :=
  { core := initNoData (fun i => .ok (inp i)), errs := 0, ctx := [], graphTodos := [], rangeTodos := [],
    calls := fun _ => 0 }

variable (wb : Workbook) (S : Sem α) (D : Discipline)

/-- evaluate a list of nodes left to right; the first exception aborts the rest -/
def evalDeps (ev : Nat → FState α → R α × FState α) : List Nat → FState α → Option Fail × FState α
  | [], s => (none, s)
  | j :: js, s =>
    match (ev j s).1 with
    | .error e => (some e, (ev j s).2)
    | .ok _ => evalDeps ev js (ev j s).2

/-- leave the `eval_func` frame with an exception: with-block pops the array context, `error_logger(..., exc=…)` -/
def exitFail (d : Nat) (e : Fail) (s : FState α) : R α × FState α :=
  (.error (D.onFail d s.errs e).1, { s with ctx := s.ctx.tail, errs := (D.onFail d s.errs e).2 })

/-- the result of applying formula `i` for the `c`-th time over the evaluated precedents -/
def applyAt (i c : Nat) (core : State (R α)) : R α :=
  match S.fault i c with
  | some x => .error (mapRaw x)
  | none => applyF S i (valueOf wb core)

/-- `_evaluate` / `_evaluate_range` + `eval_func`: cached value, else precedents first (abort on the first
    exception), then the formula; only a value is cached. -/
def evalX : Nat → Nat → FState α → R α × FState α
  | 0, i, s => (s.core.inp i, s)
  | fuel+1, i, s =>
    match wb.kind i with
    | .input => (s.core.inp i, s)
    | .range =>
      match s.core.cache i with
      | some v => (v, s)
      | none =>
        let r := evalDeps (evalX fuel) (wb.deps i) s
        match r.1 with
        | some e => (.error e, r.2)
        | none =>
          match applyF S i (valueOf wb r.2.core) with
          | .error e => (.error e, r.2)
          | .ok v => (.ok v, { r.2 with core := { r.2.core with cache := update r.2.core.cache i (some (.ok v)) } })
    | .formula =>
      match s.core.cache i with
      | some v => (v, s)
      | none =>
        let r := evalDeps (evalX fuel) (wb.deps i)
          { s with ctx := S.cse i :: s.ctx, errs := s.errs + S.pre i }
        match r.1 with
        | some e => exitFail D s.errs (wrap e) r.2
        | none =>
          let s2 : FState α :=
            { r.2 with calls := update r.2.calls i (r.2.calls i + 1), errs := r.2.errs + S.post i }
          match applyAt wb S i (r.2.calls i) r.2.core with
          | .error e => exitFail D s.errs e s2
          | .ok v =>
            (.ok v, { s2 with ctx := s2.ctx.tail, errs := D.onOk s.errs s2.errs,
                              core := { s2.core with cache := update s2.core.cache i (some (.ok v)) } })

/-- `_make_cells` + the `graph_todos` loop: the node and its not-yet-built precedent closure enter the cell map;
    formula/range nodes are queued for edge construction, new ranges (plain ranges and CSE array-formula ranges,
    both `_CellRange`s) for evaluation -/
def markF : Nat → Nat → FState α → FState α
  | 0, _, s => s
  | fuel+1, i, s =>
    if s.core.built i = true then s
    else
      (wb.deps i).foldl (fun st j => markF fuel j st)
        { s with core := { s.core with built := update s.core.built i true },
                 graphTodos := (match wb.kind i with | .input => s.graphTodos | _ => i :: s.graphTodos),
                 rangeTodos := (if wb.kind i = .range ∨ S.cse i = true then s.rangeTodos ++ [i] else s.rangeTodos) }

/-- `_gen_graph(address)`: build, drain `graph_todos`, evaluate the new ranges (`reversed(self.range_todos)`) —
    `try … finally: self.range_todos = []` -/
def buildX (a : Nat) (s : FState α) : Option Fail × FState α :=
  let s1 := markF wb S (a+1) a s
  let r := evalDeps (fun j st => evalX wb S D (j+1) j st) s1.rangeTodos.reverse { s1 with graphTodos := [] }
  (r.1, { r.2 with rangeTodos := [] })

/-- `evaluate(address)` -/
def evaluateX (a : Nat) (s : FState α) : R α × FState α :=
  if a < wb.n then
    match (buildX wb S D a s).1 with
    | some e => (.error e, (buildX wb S D a s).2)
    | none => evalX wb S D (a+1) a (buildX wb S D a s).2
  else (s.core.inp a, s)

/-- `set_value(address, v)` on a value cell -/
def setValueX (eqv : R α → R α → Bool) (i : Nat) (v : α) (s : FState α) : FState α :=
  { s with core := setValue wb eqv i (.ok v) s.core }

/-- the workbook in which cell `i` is a constant -/
def repairWb (i : Nat) : Workbook :=
  { n := wb.n, kind := update wb.kind i .input, deps := update wb.deps i [] }

/-- `set_value(address, v)` over a formula cell (the repair of a failing cell): the cell becomes a value cell of the
    repaired workbook; its previous value — the cached one, which is `denote` by the invariant, or the exception of
    a failing cell — is compared with `v` and the dependants are reset (`cell.value != value`, `_reset`). -/
def repair (eqv : R α → R α → Bool) (i : Nat) (v : α) (s : FState α) : FState α :=
  let c1 : State (R α) :=
    { s.core with inp := update s.core.inp i (denote wb (lift wb S) s.core.inp i),
                  cache := update s.core.cache i none }
  { s with core := setValue (repairWb wb i) eqv i (.ok v) c1 }

/-! ### histories over a model whose workbook changes when a formula cell is overwritten -/

inductive XOp (α : Type) where
  | eval (a : Nat)
  | set (i : Nat) (v : α)

structure Model (α : Type) where
  wb : Workbook
  st : FState α

def stepM (eqv : R α → R α → Bool) (m : Model α) : XOp α → Model α
  | .eval a => ⟨m.wb, (evaluateX m.wb S D a m.st).2⟩
  | .set i v =>
    match m.wb.kind i with
    | .input => ⟨m.wb, setValueX m.wb eqv i v m.st⟩
    | .formula => if i < m.wb.n ∧ m.st.core.built i = true then ⟨repairWb m.wb i, repair m.wb S eqv i v m.st⟩ else m
    | .range => m

def runM (eqv : R α → R α → Bool) (m : Model α) (h : List (XOp α)) : Model α := h.foldl (stepM S D eqv) m

/-- what each operation of a history returns (`none` for a write) -/
def outputsM (eqv : R α → R α → Bool) : Model α → List (XOp α) → List (Option (R α))
  | _, [] => []
  | m, .eval a :: h => some (evaluateX m.wb S D a m.st).1 :: outputsM eqv (stepM S D eqv m (.eval a)) h
  | m, .set i v :: h => none :: outputsM eqv (stepM S D eqv m (.set i v)) h

/-! ### the invariant -/

/-- engine invariant of C01 on the persistent state (cached ⇒ equals `denote`, cached ⇒ precedents cached) + only
    values are stored (inputs, cache) + no stored results in use -/
structure Good (s : FState α) : Prop where
  inv : Inv wb (lift wb S) s.core
  allOk : ∀ m v, s.core.cache m = some v → ∃ a, v = .ok a
  inpOk : ∀ m, ∃ a, s.core.inp m = .ok a
  noStored : ∀ j, s.core.stored j = none

end

/-! ## iterative mode (`cycles=True`): one pass of `_evaluate` over `_CycleCell`s -/

/-- `_CycleCell`: `_value`, `_prev_value`, `wip` -/
structure ICell (α : Type) where
  val : α
  prev : α
  wip : Bool

structure IState (α : Type) where
  cells : Nat → ICell α
  computed : Nat → Bool      -- iterative_eval_tracker.ns.computed
  errs : Nat
  ctx : List Bool
  calls : Nat → Nat

section
variable {α : Type} (wb : Workbook) (S : Sem α) (D : Discipline)

def evalDepsI (ev : Nat → IState α → R α × IState α) : List Nat → IState α → Option Fail × List α × IState α
  | [], s => (none, [], s)
  | j :: js, s =>
    match (ev j s).1 with
    | .error e => (some e, [], (ev j s).2)
    | .ok v =>
      let r := evalDepsI ev js (ev j s).2
      (r.1, v :: r.2.1, r.2.2)

/-- `cell.wip = False` in the `except` of `_eval` (repaired code, `restore = true`) or nothing (pinned code) -/
def abandon (restore : Bool) (i : Nat) (s : IState α) : IState α :=
  if restore then { s with cells := update s.cells i { s.cells i with wip := false } } else s

/-- environment a formula sees: the values read, by position in `deps i` -/
def envOf (d : α) (js : List Nat) (vs : List α) : Nat → α := fun j =>
  match (js.zip vs).find? (fun p => p.1 == j) with
  | some p => p.2
  | none => d

/-- `_evaluate(address)` in iterative mode (no range nodes: a range read is its cells, see C06).  Any dependency
    graph, cycles included; the recursion depth is bounded by the number of cells because a cell on the stack (wip)
    answers with its previous value.  Out of fuel = Python's recursion limit. -/
def evalI (restore : Bool) : Nat → Nat → IState α → R α × IState α
  | 0, _, s => (.error .recursion, s)
  | fuel+1, i, s =>
    match wb.kind i with
    | .formula =>
      if (s.cells i).wip then (.ok (s.cells i).prev, s)
      else if s.computed i then (.ok (s.cells i).val, s)
      else
        -- start_calcs, then eval_func
        let s0 : IState α :=
          { s with cells := update s.cells i { s.cells i with wip := true, prev := (s.cells i).val },
                   ctx := S.cse i :: s.ctx, errs := s.errs + S.pre i }
        let r := evalDepsI (evalI restore fuel) (wb.deps i) s0
        match r.1 with
        | some e =>
          (.error (D.onFail s.errs r.2.2.errs (wrap e)).1,
            abandon restore i { r.2.2 with ctx := r.2.2.ctx.tail, errs := (D.onFail s.errs r.2.2.errs (wrap e)).2 })
        | none =>
          let s2 : IState α :=
            { r.2.2 with calls := update r.2.2.calls i (r.2.2.calls i + 1), errs := r.2.2.errs + S.post i }
          match (match S.fault i (r.2.2.calls i) with
                 | some x => (.error x : Except Raw α)
                 | none => S.f i (envOf S.dflt (wb.deps i) r.2.1)) with
          | .error x =>
            (.error (D.onFail s.errs s2.errs (mapRaw x)).1,
              abandon restore i { s2 with ctx := s2.ctx.tail, errs := (D.onFail s.errs s2.errs (mapRaw x)).2 })
          | .ok v =>
            -- the value setter: computed, wip cleared, value stored
            (.ok v, { s2 with ctx := s2.ctx.tail, errs := D.onOk s.errs s2.errs,
                              computed := update s2.computed i true,
                              cells := update s2.cells i { s2.cells i with wip := false, val := v } })
    | _ => (.ok (s.cells i).val, s)

/-- one `evaluate(address)` call restricted to its first pass: `inc_iteration_number` clears the tracker -/
def evaluateI (restore : Bool) (a : Nat) (s : IState α) : R α × IState α :=
  evalI wb S D restore (wb.n + 1) a { s with computed := fun _ => false }

def initI (inp : Nat → α) : IState α :=
  { cells := fun i => ⟨inp i, inp i, false⟩, computed := fun _ => false, errs := 0, ctx := [], calls := fun _ => 0 }

end

end Pycel.Failure

/-! ## the instance the correspondence driver runs: the formula language of EngineInst + failure modes -/
namespace Pycel.Failure.Inst
open Pycel Pycel.Engine Pycel.EngineInst Pycel.Failure

/-- how a formula cell is made to fail: `unknown` = a function pycel does not know (`=FOO(…)`, NameError on the
    unresolved name), `raises r` = a plugin function that raises on every call, `failAt k r` = a plugin that raises
    on its k-th call only; `r` = the class of the Python exception raised inside the function as `eval_func` sees it
    (`nameError`: NameError / UnboundLocalError — the `except NameError` clause does not ask where the NameError
    came from, so it surfaces as UnknownFunction too; `recursion`: RecursionError; `other`: any other Exception) -/
inductive Mode where
  | ok | unknown | raises (r : Raw) | failAt (k : Nat) (r : Raw)
  deriving DecidableEq, Repr, Inhabited

/-- a node of the generated workbook: the C01 node + failure mode + captured-message counts (`("a"+1)+…` before,
    `…+("a"+1)` after the precedents are read) + CSE flag (`cse = true` with `spec = .fml (.ref r)`: the array formula
    `{=r}` whose value is the array of range node `r`) -/
structure FSpec where
  spec : Spec
  mode : Mode
  pre : Nat
  post : Nat
  cse : Bool
  deriving Inhabited

def specsOf (fs : List FSpec) : List Spec := fs.map (·.spec)

def valueSem (fs : List FSpec) (i : Nat) (env : Nat → EV) : EV :=
  match fs[i]? with
  | some x =>
    if x.cse then
      match x.spec with
      | .fml (.ref r) => env r
      | _ => sem (specsOf fs) i env
    else if x.pre + x.post > 0 then
      -- an operand `("a"+1)` is #VALUE!, and so is the sum it takes part in
      match x.spec with
      | .fml _ => .sc (.err .value)
      | _ => sem (specsOf fs) i env
    else sem (specsOf fs) i env
  | none => .sc .blank

def semOf (fs : List FSpec) : Sem EV where
  f := fun i env =>
    match fs[i]? with
    | some x =>
      match x.mode with
      | .unknown => .error .nameError
      | .raises r => .error r
      | _ => .ok (valueSem fs i env)
    | none => .ok (.sc .blank)
  fault := fun i c =>
    match fs[i]? with
    | some x =>
      match x.mode with
      | .failAt k r => if c + 1 = k then some r else none
      | _ => none
    | none => none
  pre := fun i => match fs[i]? with | some x => x.pre | none => 0
  post := fun i => match fs[i]? with | some x => x.post | none => 0
  cse := fun i => match fs[i]? with | some x => x.cse | none => false
  dflt := .sc .blank

def wbOf (fs : List FSpec) : Workbook := mkWb (specsOf fs)

def eqvR (a b : R EV) : Bool :=
  match a, b with
  | .ok x, .ok y => typedEq x y
  | .error x, .error y => decide (x = y)
  | _, _ => false

end Pycel.Failure.Inst

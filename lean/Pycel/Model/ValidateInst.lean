/-
  Driver-facing instantiation of the validate_calcs model (Model/Validate.lean) on the formula language of the engine
  correspondence (Model/EngineInst.lean), plus nodes pycel cannot evaluate.  Import-free apart from the models.
-/
import Pycel.Model.EngineInst
import Pycel.Model.Validate
namespace Pycel.Validate
open Pycel Pycel.Engine Pycel.EngineInst

/-- `close_enough` on what a node evaluates to (only cells are ever compared) -/
def closeEV (tol : Option Rat) : EV → EV → Bool
  | .sc a, .sc b => closeVal tol a b
  | a, b => decide (a = b)

/-- `a + b` / `a - b` when an operand may be an ERROR VALUE (a perturbed stored result; the engine correspondence
    never feeds one): an error operand wins over a failed coercion of the other operand ("b" + #N/A = #N/A), left
    first -/
def arithVals (op : Rat → Rat → Rat) (a b : Val) : Val :=
  match a, b with
  | .err e, _ => .err e
  | _, .err e => .err e
  | a, b =>
    match toNum a with
    | .error e => .err e
    | .ok x =>
      match toNum b with
      | .error e => .err e
      | .ok y => .num (op x y)

/-- the formula semantics of EngineInst with that refinement of `+` and `-` (every other kind, `=` included, is
    EngineInst's) -/
def semV (specs : List Spec) : Nat → (Nat → EV) → EV := fun i env =>
  match specs[i]? with
  | some (.fml (.add a b)) => .sc (arithVals (· + ·) (env a).val (env b).val)
  | some (.fml (.sub a b)) => .sc (arithVals (· - ·) (env a).val (env b).val)
  | _ => sem specs i env

/-- what Excel computed: a node pycel cannot evaluate counts as the constant stored for it -/
def semTot (specs : List Spec) (raises : Nat → Option (Fail × Val)) : Nat → (Nat → EV) → EV := fun i env =>
  match raises i with
  | some (_, v) => .sc v
  | none => semV specs i env

/-- what pycel computes: the same, or the exception -/
def semG (specs : List Spec) (raises : Nat → Option (Fail × Val)) : Nat → (Nat → EV) → Except Fail EV := fun i env =>
  match raises i with
  | some (e, _) => .error e
  | none => .ok (semV specs i env)

/-- `needed_addresses` lists every precedent once (`uniqueify`), in order of first occurrence -/
def uniqWb (wb : Workbook) : Workbook := { wb with deps := fun i => (wb.deps i).eraseDups }

def instCfg (specs : List Spec) (raises : Nat → Option (Fail × Val)) (stored : Nat → Option EV)
    (tol : Option Rat) (noData : Nat → EV → Bool) (tree : Bool) : Cfg EV :=
  { wb := uniqWb (mkWb specs), g := semG specs raises, inp := inputsOf specs, stored := stored,
    close := closeEV tol, noData := noData, tree := tree }

end Pycel.Validate

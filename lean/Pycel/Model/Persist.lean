/-
  Persistence of a compiled model: `ExcelCompiler.to_file / from_file` (src/pycel/excelcompiler.py).

  Anchors (excelcompiler.py):
    187-231  `_to_text`              -> `encodeCell`, `serialize`, `toDoc`, `afterSave`, `save`
    1104-1107, 1124 `serialize` flags -> `Entry.serialized` (every cell; a range only when it carries a formula)
    excelutil.py 142-143 `sort_key`  -> `Key.sortKey`, `keyLe` (Python tuple order on (sheet, col_idx, row))
    1247-1257 `_CompiledImporter._get_cell` -> `decodeCell` (a STRING that starts with '=' is code)
    233-283  `_from_text`            -> `load` (cells in file order, then the ranges, then the graph; `cycles` popped,
                                        `excel_hash` and `cell_map` deleted, the rest is `extra_data`)
    285-349  `to_file`               -> `textChanged` (the pickle is rewritten only when the text file changed)
    351-384  `from_file`, 126-138 `__getstate__`: the pickle is the pickled result of `_from_text` of the text file, so
             a model loaded from a pickle is `load` of the same document (contract on pickle: identity).
    156-158  `hash_matches`          -> `Model.hashMatches`

  The text codec (ruamel.yaml dump / json.dump, and `YAML().load` for both) is a PARAMETER `Codec τ` = (enc, dec) on
  scalars with the contract `dec (enc v) = v` (`Codec.Faithful`); the file is the ordered document with every scalar of
  the cell map passed through `enc`.  Rendering the ordered document to bytes is a function, so equal documents are
  byte-identical files (checked on the real code by the correspondence: save twice, compare bytes).

  Where the model follows the PROPERTY (C03) and not the pinned code:
    * `toDoc` always writes the user's extra_data entries first and then `cycles, excel_hash, cell_map, filename` in this
      order.  The pinned `_to_text` used `dict.update` on the user's dict, which it also mutates (`toDocAsWritten`,
      `afterSaveAsWritten`): on the second save of an unchanged model `filename` precedes `cell_map`, so the file
      changed (and the pickle was rewritten).  Props/C03.lean: `C03_save_twice_asWritten_counterexample`.
  Where the model follows the CODE although the property is violated (listed known finding, not repaired):
    * `decodeCell` reads a text CONSTANT that starts with '=' as code.

  Engine connection: `View` numbers the addresses of the model topologically and interprets python code (`needs`, `run`);
  `wbOf / semOf / inpOf` turn a cell map (as a lookup function) into the workbook, formula semantics and inputs of
  Model/Engine.lean; `loadedState` is Engine's deserialised configuration `initLoaded` of the loaded cell map.

  Import-free apart from Value/Engine/EngineInst (the concrete instance `tableView` the driver runs); structural
  recursion only; executable.
-/
import Pycel.Model.Value
import Pycel.Model.Engine
import Pycel.Model.EngineInst
namespace Pycel.Persist
open Pycel Pycel.Engine

/-! ### addresses and their order in the file -/

/-- key of a `cell_map` entry: sheet, column index and row of the top-left corner; `ext` = bottom-right corner of a
    range address (`none` for a single cell) -/
structure Key where
  sheet : List Char
  col : Nat
  row : Nat
  ext : Option (Nat × Nat)
  deriving DecidableEq, Repr, Inhabited

def Key.isRange (k : Key) : Bool := k.ext.isSome

/-- `AddressRange.sort_key` = (sheet, col_idx, row): the extent of a range is NOT part of it -/
def Key.sortKey (k : Key) : List Char × Nat × Nat := (k.sheet, k.col, k.row)

/-- Python `str` order: lexicographic by code point, a proper prefix is smaller -/
def strLe : List Char → List Char → Bool
  | [], _ => true
  | _ :: _, [] => false
  | a :: as, b :: bs => if a.toNat < b.toNat then true else if b.toNat < a.toNat then false else strLe as bs

/-- Python tuple order on `sort_key` -/
def keyLe (a b : Key) : Bool :=
  if a.sheet = b.sheet then
    if a.col = b.col then decide (a.row ≤ b.row) else decide (a.col < b.col)
  else strLe a.sheet b.sheet

/-! ### cells -/

/-- what a `cell_map` entry holds, as far as persistence is concerned -/
inductive Content where
  /-- value cell: its current value (number, text, logical, error text, blank = None) -/
  | const (v : Val)
  /-- formula cell or CSE array range: `formula.python_code` -/
  | code (py : List Char)
  /-- `_CellRange` without a formula: never written, rebuilt from its address when needed -/
  | plain
  deriving DecidableEq, Inhabited

structure Entry where
  key : Key
  content : Content
  deriving DecidableEq, Inhabited

/-- `cell.serialize`: `_Cell.serialize = True`; `_CellRange.serialize = bool(self.formula)` -/
def Entry.serialized (e : Entry) : Bool :=
  match e.content with
  | .plain => false
  | _ => true

/-- `_to_text.cell_value`: `'=' + python_code` for a formula, the constant otherwise -/
def encodeCell : Content → Val
  | .code py => .str ('=' :: py)
  | .const v => v
  | .plain => .blank

/-- `_CompiledImporter._get_cell`: `isinstance(cell_value, str) and cell_value.startswith('=')` → formula -/
def decodeCell : Val → Content
  | .str ('=' :: py) => .code py
  | v => .const v

def startsWithEq : Val → Bool
  | .str ('=' :: _) => true
  | _ => false

/-- `_from_text` on one file entry: a cell address builds a cell; a range address builds a `_CellRange`, which keeps
    the entry only when it is code (`get_range`: `elif cell.formula: return cell`, otherwise the member cells). -/
def decodeEntry (kv : Key × Val) : Entry :=
  match decodeCell kv.2 with
  | .code py => ⟨kv.1, .code py⟩
  | c => if kv.1.isRange then ⟨kv.1, .plain⟩ else ⟨kv.1, c⟩

/-! ### stable sort (Python `sorted`) -/

/-- insert `x` before the first element that is strictly greater … written for a right fold: `x` precedes every
    element of `ys` in the input, so it goes in front of the elements it is `≤` to (stability) -/
def ins (le : β → β → Bool) (x : β) : List β → List β
  | [] => [x]
  | y :: ys => if le x y then x :: y :: ys else y :: ins le x ys

def isort (le : β → β → Bool) : List β → List β
  | [] => []
  | x :: xs => ins le x (isort le xs)

def entryLe (a b : Key × τ) : Bool := keyLe a.1 b.1

/-- the `cell_map` section of the text file: `dict(sorted(((addr, cell_value(cell)) for … if cell.serialize),
    key=sort_key))` -/
def serialize (cells : List Entry) : List (Key × Val) :=
  isort entryLe ((cells.filter Entry.serialized).map fun e => (e.key, encodeCell e.content))

/-- lookup in an ordered mapping with unique keys -/
def find (k : Key) : List (Key × β) → Option β
  | [] => none
  | (k', v) :: l => if k = k' then some v else find k l

def findEntry (k : Key) (l : List Entry) : Option Content := find k (l.map fun e => (e.key, e.content))

/-- a plain range in the cell map and no entry at all are the same thing for evaluation (rebuilt from the address) -/
def strip : Option Content → Option Content
  | some .plain => none
  | c => c

/-! ### the scalar text codec (yaml / json) -/

structure Codec (τ : Type) where
  enc : Val → τ
  dec : τ → Val

def Codec.Faithful (c : Codec τ) (ok : Val → Prop) : Prop := ∀ v, ok v → c.dec (c.enc v) = v

/-- the identity codec (what the model driver runs; the real codecs are compared with it) -/
def Codec.id : Codec Val := ⟨fun v => v, fun v => v⟩

/-! ### the document -/

/-- iteration settings: `False`/`None` or `{'iterations': …, 'tolerance': …}` -/
abbrev Cycles := Option (Nat × Rat)

inductive Item (δ τ : Type) where
  | user (d : δ)
  | cycles (c : Cycles)
  | hash (h : Option (List Char))
  | filename (f : List Char)
  | cellMap (cm : List (Key × τ))

/-- ordered top-level mapping of the file -/
abbrev Doc (δ τ : Type) := List (List Char × Item δ τ)

def kCycles : List Char := "cycles".toList
def kHash : List Char := "excel_hash".toList
def kCellMap : List Char := "cell_map".toList
def kFilename : List Char := "filename".toList

def reserved (k : List Char) : Bool := k == kCycles || k == kHash || k == kCellMap || k == kFilename

/-- the persisted facet of an `ExcelCompiler` -/
structure Model (δ : Type) where
  /-- `cell_map`, in insertion (build) order -/
  cells : List Entry
  cycles : Cycles
  /-- `_excel_file_md5_digest` -/
  hash : Option (List Char)
  filename : List Char
  /-- `extra_data`: `None` or an ordered dict -/
  extra : Option (List (List Char × δ))

def Model.extraList (m : Model δ) : List (List Char × δ) := m.extra.getD []

/-- `hash_matches`: the digest taken at compile time equals the digest of the workbook file now -/
def Model.hashMatches (m : Model δ) (current : Option (List Char)) : Bool := m.hash == current

/-- user entries of extra_data that do not collide with the four keys `_to_text` owns -/
def userPart (l : List (List Char × δ)) : List (List Char × δ) := l.filter fun kv => !reserved kv.1

/-- the document `_to_text` writes (repaired order, see the header) -/
def toDoc (c : Codec τ) (m : Model δ) : Doc δ τ :=
  (userPart m.extraList).map (fun kv => (kv.1, Item.user kv.2)) ++
  [(kCycles, .cycles m.cycles), (kHash, .hash m.hash),
   (kCellMap, .cellMap ((serialize m.cells).map fun kv => (kv.1, c.enc kv.2))), (kFilename, .filename m.filename)]

/-- Items that stay in the user's dict after a save (`_to_text` updates `self.extra_data` in place and only deletes
    `cell_map` again).  `δ` must be able to hold them: `emb` embeds the three settings into the user data type. -/
structure Emb (δ : Type) where
  cycles : Cycles → δ
  hash : Option (List Char) → δ
  filename : List Char → δ

/-- the model after `_to_text`: `extra_data = None` stays `None` (the update went to a fresh `{}`), a dict has gained
    `cycles`, `excel_hash`, `filename` -/
def afterSave (emb : Emb δ) (m : Model δ) : Model δ :=
  match m.extra with
  | none => m
  | some l => { m with extra := some (userPart l ++
      [(kCycles, emb.cycles m.cycles), (kHash, emb.hash m.hash), (kFilename, emb.filename m.filename)]) }

/-! ### the pinned `_to_text`, for the counterexample only -/

/-- `dict.update` with one key: an existing key keeps its position -/
def upd (k : List Char) (v : β) : List (List Char × β) → List (List Char × β)
  | [] => [(k, v)]
  | (k', v') :: l => if k = k' then (k', v) :: l else (k', v') :: upd k v l

def toDocAsWritten (c : Codec τ) (m : Model δ) : Doc δ τ :=
  upd kFilename (.filename m.filename) <|
  upd kCellMap (.cellMap ((serialize m.cells).map fun kv => (kv.1, c.enc kv.2))) <|
  upd kHash (.hash m.hash) <|
  upd kCycles (.cycles m.cycles) (m.extraList.map fun kv => (kv.1, Item.user kv.2))

def afterSaveAsWritten (emb : Emb δ) (m : Model δ) : Model δ :=
  match m.extra with
  | none => m
  | some l =>
    let l1 := upd kFilename (emb.filename m.filename) (upd kHash (emb.hash m.hash) (upd kCycles (emb.cycles m.cycles) l))
    { m with extra := some (l1.filter fun kv => kv.1 != kCellMap) }

/-- keys of a document in file order (what the byte comparison of two saves sees first) -/
def docKeys (d : Doc δ τ) : List (List Char) := d.map (·.1)

/-! ### loading -/

def docCycles : Doc δ τ → Cycles
  | [] => none
  | (_, .cycles c) :: _ => c
  | _ :: d => docCycles d

def docHash : Doc δ τ → Option (List Char)
  | [] => none
  | (_, .hash h) :: _ => h
  | _ :: d => docHash d

/-- `file_data.get('filename', <file name without extension>)` -/
def docFilename (stem : List Char) : Doc δ τ → List Char
  | [] => stem
  | (_, .filename f) :: _ => f
  | _ :: d => docFilename stem d

def docCellMap : Doc δ τ → List (Key × τ)
  | [] => []
  | (_, .cellMap cm) :: _ => cm
  | _ :: d => docCellMap d

/-- what is left in `data` after `pop('cycles')`, `del data['cell_map']`, `del data['excel_hash']` -/
def docExtra (emb : Emb δ) : Doc δ τ → List (List Char × δ)
  | [] => []
  | (k, .user d) :: r => (k, d) :: docExtra emb r
  | (k, .filename f) :: r => (k, emb.filename f) :: docExtra emb r
  | _ :: r => docExtra emb r

/-- `_from_text`: decode the scalars, build the cells in file order, then the ranges of the file, then (graph) the
    plain ranges the code needs (`rebuilt`, determined by the code: any list of range keys). -/
def load (c : Codec τ) (emb : Emb δ) (stem : List Char) (rebuilt : List Key) (d : Doc δ τ) : Model δ :=
  let entries := (docCellMap d).map fun kv => decodeEntry (kv.1, c.dec kv.2)
  { cells := entries.filter (fun e => !e.key.isRange) ++ entries.filter (fun e => e.key.isRange) ++
             rebuilt.map (fun k => ⟨k, .plain⟩),
    cycles := docCycles d, hash := docHash d, filename := docFilename stem d, extra := some (docExtra emb d) }

/-- `from_file (to_file m)` -/
def reload (c : Codec τ) (emb : Emb δ) (stem : List Char) (rebuilt : List Key) (m : Model δ) : Model δ :=
  load c emb stem rebuilt (toDoc c m)

/-- `to_file`: "save pickle file if requested and has changed": `existing_hash is None or existing_hash != new` -/
def textChanged [DecidableEq σ] (existing : Option σ) (new : σ) : Bool :=
  match existing with
  | none => true
  | some old => decide (old ≠ new)

/-- the same test as the code performs it: on DIGESTS of the two texts (`_compute_file_md5_digest`, md5).  The digest is
    a parameter; the contract it is ASSUMED to satisfy is `DigestFaithful` (trusted base: md5 of the whole file). -/
def textChangedBy [DecidableEq η] (digest : σ → η) (existing : Option σ) (new : σ) : Bool :=
  match existing with
  | none => true
  | some old => decide (digest old ≠ digest new)

/-- "equal digest ⇒ equal text": what `to_file` relies on when it decides not to rewrite the pickle -/
def DigestFaithful (digest : σ → η) : Prop := ∀ a b, digest a = digest b → a = b

/-- what `to_file(name, ('pkl', 'yml'))` leaves on disk: the text file and the pickle (= a pickled model) -/
structure Disk (σ ρ : Type) where
  text : Option σ
  pickle : Option ρ

/-- one `to_file` of a model whose text is `t`: the text file is always written; the pickle is re-created — from the
    text just written (`fromText` = `_from_text`) — iff the text digest changed or there is no pickle yet -/
def saveStep [DecidableEq η] (digest : σ → η) (fromText : σ → ρ) (d : Disk σ ρ) (t : σ) : Disk σ ρ :=
  if textChangedBy digest d.text t || d.pickle.isNone then ⟨some t, some (fromText t)⟩ else ⟨some t, d.pickle⟩

/-- a history of saves (the model is edited in between: each save has its own text) -/
def saves [DecidableEq η] (digest : σ → η) (fromText : σ → ρ) (d : Disk σ ρ) (ts : List σ) : Disk σ ρ :=
  ts.foldl (saveStep digest fromText) d

/-- the pickle on disk is the model of the text on disk -/
def Disk.Fresh (fromText : σ → ρ) (d : Disk σ ρ) : Prop :=
  ∀ t, d.text = some t → d.pickle = some (fromText t)

/-! ### the engine view of a cell map -/

/-- numbering of the addresses (topological) and interpretation of python code -/
structure View (α : Type) where
  n : Nat
  keyOf : Nat → Key
  /-- `needed_addresses` of a piece of python code, as node numbers -/
  needs : List Char → List Nat
  /-- value of the compiled code, given the values of the cells it reads -/
  run : List Char → (Nat → α) → α
  /-- member cells of a range address -/
  members : Key → List Nat
  /-- value of a plain range (tuple of tuples of its members' values) -/
  rangeVal : Key → (Nat → α) → α
  /-- a stored constant as an engine value -/
  inj : Val → α

/-- code of node `i` in the cell map `cm` (given as a lookup function) -/
def codeAt (V : View α) (cm : Key → Option Content) (i : Nat) : Option (List Char) :=
  if i < V.n then
    match cm (V.keyOf i) with
    | some (.code py) => some py
    | _ => none
  else none

def wbOf (V : View α) (cm : Key → Option Content) : Workbook where
  n := V.n
  kind := fun i =>
    match codeAt V cm i with
    | some _ => .formula
    | none => if i < V.n ∧ (V.keyOf i).isRange then .range else .input
  deps := fun i =>
    match codeAt V cm i with
    | some py => V.needs py
    | none => if i < V.n ∧ (V.keyOf i).isRange then V.members (V.keyOf i) else []

def semOf (V : View α) (cm : Key → Option Content) : Nat → (Nat → α) → α := fun i env =>
  match codeAt V cm i with
  | some py => V.run py env
  | none => if i < V.n ∧ (V.keyOf i).isRange then V.rangeVal (V.keyOf i) env else V.inj .blank

/-- current values of the value cells; a cell that is not in the map is blank (`_get_cell`: `cell_value is None`) -/
def inpOf (V : View α) (cm : Key → Option Content) : Nat → α := fun i =>
  match cm (V.keyOf i) with
  | some (.const v) => V.inj v
  | _ => V.inj .blank

/-- run-time check of the topological presentation (the driver refuses anything else) -/
def wfViewCheck (V : View α) (cm : Key → Option Content) : Bool :=
  (List.range V.n).all fun i => ((wbOf V cm).deps i).all fun j => decide (j < i)

/-- the evaluation state of a freshly loaded model -/
def loadedState (V : View α) (m : Model δ) : State α :=
  let cm := fun k => findEntry k m.cells
  initLoaded (wbOf V cm) (semOf V cm) (inpOf V cm)

/-! ### the concrete view the correspondence driver runs -/

open Pycel.EngineInst in
/-- one node of a generated workbook: its address and, for a formula, the python code pycel compiled together with
    the formula of the small language of Model/EngineInst.lean it stands for; for a range, its member nodes -/
structure Node where
  key : Key
  spec : Spec
  code : List Char
  deriving Inhabited

open Pycel.EngineInst in
def lookupCode (py : List Char) : List Node → Option Fml
  | [] => none
  | nd :: l => match nd.spec with
    | .fml e => if nd.code = py then some e else lookupCode py l
    | _ => lookupCode py l

open Pycel.EngineInst in
def lookupRows (k : Key) : List Node → List (List Nat)
  | [] => []
  | nd :: l => match nd.spec with
    | .rng rows => if nd.key = k then rows else lookupRows k l
    | _ => lookupRows k l

open Pycel.EngineInst in
/-- code is interpreted through the table (unknown code evaluates to `#NAME?`, it reads nothing) -/
def tableView (nodes : List Node) : View EV where
  n := nodes.length
  keyOf := fun i => (nodes.getD i default).key
  needs := fun py => match lookupCode py nodes with
    | some e => e.refs
    | none => []
  run := fun py env => match lookupCode py nodes with
    | some e => evalFml e env
    | none => .sc (.err .name)
  members := fun k => (lookupRows k nodes).flatten
  rangeVal := fun k env => .arr ((lookupRows k nodes).map fun row => row.map fun j => (env j).val)
  inj := fun v => .sc v

open Pycel.EngineInst in
/-- the cell map of the original model: every node, in the given build order -/
def entryOf (nd : Node) (cur : Val) : Entry :=
  match nd.spec with
  | .inp _ => ⟨nd.key, .const cur⟩
  | .fml _ => ⟨nd.key, .code nd.code⟩
  | .rng _ => ⟨nd.key, .plain⟩

end Pycel.Persist

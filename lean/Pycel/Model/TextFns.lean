/-
  Model of the text functions of src/pycel/lib/text.py on scalar arguments:
    concat/concatenate (375-391), exact (404-410), find (413-421), left (439-447), len_ (455-459), lower (467-471),
    mid (473-483), replace (506-514), right (527-537), substitute (555-581), trim (603-607), upper (619-623)
  together with the argument handling that `excel_helper` prescribes for each of them
  (lib/function_helpers.py: strs_wrapper → nums_wrapper → error_string_wrapper, in that order of application):
    1. the `str_params` are coerced with coerce_to_string; the first that is an error value is returned;
    2. the `number_params` are coerced with coerce_to_number(convert_all=True); the first that is an error value is
       returned; otherwise any that is not a number gives #VALUE!;
    3. any remaining argument that is an error value is returned;
    4. the function body runs.
  The metadata itself (which positions are str / number params) is regenerated from the live code into
  Generated/TextMeta.lean; `Props/C20.lean` proves that the positions hard-wired below are the live ones.

  Layers: (a) core functions on `List Char` and `Int` positions (`none` = #VALUE!) — the property theorems are about
  these; (b) `Val`-level wrappers (upper-case names) that add the coercions — the driver runs these.

  Numbers given where text is expected are rendered by `Ops.renderNum` (coerce_to_string: "3", not "3.0").

  Property-driven points (model follows property C20 where the code did not; see known_findings.txt / fix commits):
    * TRIM strips leading and trailing spaces (the code only collapsed runs);
    * FIND with start_num < 1 is #VALUE! and a fractional start_num is truncated (the code searched from the end /
      raised TypeError);
    * RIGHT truncates its count like LEFT and MID (RIGHT(s, 0.5) returned all of s);
    * SUBSTITUTE with an empty old_text leaves the text unchanged (str.replace('', x) interleaved x);
    * LEN of a number is the length of its Excel rendering (the code counts "3.0" for an integral float; pinned by
      the test-suite, so this one stays a known finding).
  Everything else follows the code: the order of checks, `q < 0` tested before truncation in LEFT/MID/RIGHT but
  after it in REPLACE, int() of the SUBSTITUTE instance, upper/lower for ASCII + Latin-1 only (`Ops.upper`).
-/
import Pycel.Model.Ops
namespace Pycel.TextFns
open Pycel Pycel.Ops

abbrev Text := List Char

/-! ## (a) core functions on texts and integer positions -/

def left (s : Text) (n : Int) : Option Text :=
  if n < 0 then none else some (s.take n.toNat)

def right (s : Text) (k : Int) : Option Text :=
  if k < 0 then none else some (s.drop (s.length - k.toNat))

def mid (s : Text) (p k : Int) : Option Text :=
  if p < 1 ∨ k < 0 then none else some ((s.drop (p - 1).toNat).take k.toNat)

def replace (s : Text) (p k : Int) (t : Text) : Option Text :=
  if p < 1 ∨ k < 0 then none else some (s.take (p - 1).toNat ++ t ++ s.drop ((p - 1).toNat + k.toNat))

/-- 0-based index of the first occurrence of `f` in `s` (`str.find`); the empty text occurs at 0 -/
def findIdx (f : Text) : Text → Option Nat
  | [] => if f.isPrefixOf [] then some 0 else none
  | c :: cs => if f.isPrefixOf (c :: cs) then some 0 else (findIdx f cs).map (· + 1)

/-- FIND(f, s, start): 1-based position of the first occurrence at or after `start` -/
def find (f s : Text) (start : Int) : Option Int :=
  if start < 1 ∨ s.length < (start - 1).toNat then none
  else (findIdx f (s.drop (start - 1).toNat)).map fun i => (((start - 1).toNat + i + 1 : Nat) : Int)

/-- replace every leftmost non-overlapping occurrence (fuel = number of steps allowed) -/
def substAllF (old new : Text) : Nat → Text → Text
  | 0, s => s
  | fuel + 1, s =>
    match findIdx old s with
    | none => s
    | some i => s.take i ++ new ++ substAllF old new fuel (s.drop (i + old.length))

def substAll (old new s : Text) : Text :=
  if old = [] then s else substAllF old new (s.length + 1) s

/-- replace exactly the `n+1`-th leftmost non-overlapping occurrence, if there is one -/
def substNthF (old new : Text) : Nat → Text → Text
  | 0, s =>
    match findIdx old s with
    | none => s
    | some i => s.take i ++ new ++ s.drop (i + old.length)
  | n + 1, s =>
    match findIdx old s with
    | none => s
    | some i => s.take (i + old.length) ++ substNthF old new n (s.drop (i + old.length))

/-- SUBSTITUTE(s, old, new, inst) for inst ≥ 1 -/
def substNth (old new s : Text) (inst : Nat) : Text :=
  if old = [] then s else substNthF old new (inst - 1) s

/-- pieces between single spaces (never empty as a list) -/
def split : Text → List Text
  | [] => [[]]
  | c :: cs =>
    if c = ' ' then [] :: split cs
    else match split cs with
      | w :: ws => (c :: w) :: ws
      | [] => [[c]]

/-- the words of a text: maximal space-free non-empty pieces -/
def words (s : Text) : List Text := (split s).filter (· ≠ [])

def joinSp : List Text → Text
  | [] => []
  | [w] => w
  | w :: ws => w ++ ' ' :: joinSp ws

/-- TRIM: the words joined by single spaces -/
def trim (s : Text) : Text := joinSp (words s)

def exact (a b : Text) : Bool := a == b

def concatTexts (ts : List Text) : Text := ts.flatten

/-! ## (b) argument handling -/

/-- Python `int(q)`: truncation toward zero -/
def pyTrunc (q : Rat) : Int := if 0 ≤ q then q.floor else q.ceil

/-- one `str_params` argument: text or the error to return -/
def strArg (v : Val) : Except Err Text :=
  match coerceToString v with
  | .str s => .ok s
  | .err e => .error e
  | _ => .ok []

/-- one `number_params` argument after coerce_to_number(convert_all=True) -/
def num1 (a : Val) : Except Err Rat :=
  match coerceToNumber true a with
  | .err e => .error e
  | .num x => .ok x
  | _ => .error .value

/-- two `number_params` arguments: first error among them, else #VALUE! if one is not a number -/
def num2 (a b : Val) : Except Err (Rat × Rat) :=
  match coerceToNumber true a, coerceToNumber true b with
  | .err e, _ => .error e
  | _, .err e => .error e
  | .num x, .num y => .ok (x, y)
  | _, _ => .error .value

def optText : Option Text → Val
  | none => .err .value
  | some t => .str t

/-- LEFT(text, num_chars=1): cse (0,1), number_params 1, str_params 0 -/
def LEFT (t : Val) (n : Option Val) : Val :=
  match strArg t with
  | .error e => .err e
  | .ok s =>
    match num1 (n.getD (.num 1)) with
    | .error e => .err e
    | .ok q => if q < 0 then .err .value else optText (left s (pyTrunc q))

/-- RIGHT(text, num_chars=1) -/
def RIGHT (t : Val) (n : Option Val) : Val :=
  match strArg t with
  | .error e => .err e
  | .ok s =>
    match num1 (n.getD (.num 1)) with
    | .error e => .err e
    | .ok q => if q < 0 then .err .value else optText (right s (pyTrunc q))

/-- MID(text, start_num, num_chars): number_params (1,2), str_params 0 -/
def MID (t p k : Val) : Val :=
  match strArg t with
  | .error e => .err e
  | .ok s =>
    match num2 p k with
    | .error e => .err e
    | .ok (p, k) => if p < 1 ∨ k < 0 then .err .value else optText (mid s (pyTrunc p) (pyTrunc k))

/-- REPLACE(old_text, start_num, num_chars, new_text): number_params (1,2), str_params (0,3) -/
def REPLACE (t p k new : Val) : Val :=
  match strArg t with
  | .error e => .err e
  | .ok s =>
    match strArg new with
    | .error e => .err e
    | .ok nw =>
      match num2 p k with
      | .error e => .err e
      | .ok (p, k) => optText (replace s (pyTrunc p) (pyTrunc k) nw)

/-- FIND(find_text, within_text, start_num=1): number_params 2, str_params (0,1) -/
def FIND (f t : Val) (start : Option Val) : Val :=
  match strArg f with
  | .error e => .err e
  | .ok f =>
    match strArg t with
    | .error e => .err e
    | .ok s =>
      match num1 (start.getD (.num 1)) with
      | .error e => .err e
      | .ok q =>
        match find f s (pyTrunc q) with
        | none => .err .value
        | some p => .num (p : Rat)

/-- Python `int(text)` for the SUBSTITUTE instance: optional white space, optional sign, ASCII digits -/
def pyIntText? (s : Text) : Option Int :=
  let (neg, ds) := takeSign (stripWs s)
  if ds ≠ [] ∧ ds.all isDigit then some (if neg then -(natOfDigits ds : Int) else (natOfDigits ds : Int)) else none

/-- SUBSTITUTE(text, old_text, new_text, instance_num=None): str_params (0,1,2); instance_num raw -/
def SUBSTITUTE (t old new : Val) (inst : Option Val) : Val :=
  match strArg t with
  | .error e => .err e
  | .ok s =>
    match strArg old with
    | .error e => .err e
    | .ok o =>
      match strArg new with
      | .error e => .err e
      | .ok nw =>
        let nth (i : Int) : Val := if i ≤ 0 then .err .value else .str (substNth o nw s i.toNat)
        match inst.getD .blank with
        | .err e => .err e
        | .blank => .str (substAll o nw s)
        | .bool _ => .err .value
        | .num q => nth (pyTrunc q)
        | .str x =>
          match pyIntText? x with
          | none => .err .value
          | some i => nth i

/-- CONCATENATE(a, b, …) on scalars: first error value in order, else the renderings joined -/
def CONCATENATE : List Val → Val
  | [] => .str []
  | v :: vs =>
    match v with
    | .err e => .err e
    | _ =>
      match CONCATENATE vs with
      | .err e => .err e
      | .str r => .str (renderVal v ++ r)
      | _ => .err .value

/-- the `&` operator (excelutil.fixup, op BitAnd) -/
def AMP (l r : Val) : Val :=
  match l, r with
  | .err e, _ => .err e
  | _, .err e => .err e
  | l, r => .str (renderVal l ++ renderVal r)

def str1 (f : Text → Val) (v : Val) : Val :=
  match strArg v with
  | .error e => .err e
  | .ok s => f s

def TRIM (v : Val) : Val := str1 (fun s => .str (trim s)) v
def UPPER (v : Val) : Val := str1 (fun s => .str (upper s)) v
def LOWER (v : Val) : Val := str1 (fun s => .str (lower s)) v

/-- EXACT(text1, text2): str_params (0,1) -/
def EXACT (a b : Val) : Val :=
  match strArg a with
  | .error e => .err e
  | .ok x =>
    match strArg b with
    | .error e => .err e
    | .ok y => .bool (exact x y)

/-- LEN(arg): no coercion metadata; blank is 0, otherwise the length of the rendering -/
def LEN : Val → Val
  | .err e => .err e
  | .blank => .num 0
  | v => .num ((renderVal v).length : Rat)

end Pycel.TextFns

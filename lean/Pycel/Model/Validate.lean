/-
  `ExcelCompiler.validate_calcs(output_addrs, sheet, verify_tree, tolerance, raise_exceptions=False)`
  (src/pycel/excelcompiler.py, `validate_calcs`; `_CellBase.close_enough`) on the workbook type of the engine model
  (Model/Engine.lean: `Workbook`, `WF`, `Local`, `denote`).

  `Workbook.deps i` is `cell.needed_addresses`: the precedents in formula order, each listed once (`uniqueify`).

  What is modelled, line by line:
    * the work-list `to_verify` is a LIFO stack (`list.pop()`): the model keeps it as a list whose HEAD is the top;
      the initial stack is the reversed list of outputs, precedents are pushed in formula order, so the last
      precedent is popped first;
    * `self._gen_graph(addr)` (`genGraph`): the not-yet-built precedent closure enters the cell map, every formula cell
      with the result STORED in the file as its value (`stored i = none` = no stored result = `None` = needs calc);
      the range nodes built by this call are evaluated at once from the values their members have NOW
      (`range_todos`) -- a range is a snapshot and is never reset by validate_calcs;
    * a formula cell (`_Cell` with `python_code`): `original_value = cell.value`; the "No Orig data?" rule
      (`original_value == str(cell.formula)`: `continue` -- neither verified nor are its precedents pushed; the code only
      writes a debug log line, kept here in the ghost field `Report.noData`); `cell.value = None` WITHOUT resetting
      the dependants; `self.evaluate(addr)` recomputes the cell from the CURRENT values of its precedents: the stored
      result of a precedent that was not recomputed yet, the recomputed value of one that was, and a precedent without
      a value is evaluated first (recursively).  The recomputed value is LEFT in the cell (the original is not
      restored), so a dependant verified later sees the recomputed value;
    * comparison only when there was an original value (`original_value is None or close_enough`), the entry
      `failed['mismatch'][addr] = (original, recomputed, formula)` overwrites an earlier entry of the same address
      (a cell can be on the stack twice); the second evaluation "to allow easy break-pointing" recomputes the same
      value from the same (now all cached) precedents and is not modelled;
    * `verified.add(addr)`; with `verify_tree` every needed address that is not verified is pushed;
    * an exception anywhere in the above (`Fail.exc` -> 'exceptions', `Fail.notImpl` -> 'not-implemented'): the cell
      keeps `value = None` if the evaluation raised; the address is appended to the class list (duplicates are
      kept) and, with `verify_tree`, it is added to `verified` and its precedents are pushed like those of a verified
      cell (the pinned code did neither: the precedents of a failed cell were silently skipped; fixed in /repo, see
      known_findings.txt).
  Value cells and range nodes are never compared (no `python_code` / not a `_Cell`); they are verified and their
  needed addresses (range members) pushed.

  Import-free apart from Engine/Value; structural recursion (fuel) only; executable.
-/
import Pycel.Model.Value
import Pycel.Model.Engine
namespace Pycel.Validate
open Pycel Pycel.Engine

/-- a raised exception as `validate_calcs` classifies it from the message text:
    `exc` -> 'exceptions'; `notImpl` (a NotImplementedError raised by the cell's own formula: the last-but-one line
    of the message starts with "NotImplementedError: ") and `unknownFn` (the message contains "is not implemented":
    pycel's UnknownFunction) -> 'not-implemented'. -/
inductive Fail where
  | exc | notImpl | unknownFn
  deriving DecidableEq, Repr, Inhabited

/-- the class of an exception that reached the cell from a precedent: the wrapped message keeps the text
    "is not implemented" but no longer ends with the "NotImplementedError: " line -/
def Fail.nested : Fail → Fail
  | .notImpl => .exc
  | e => e

/-- does the report list the exception under 'not-implemented' (else under 'exceptions') -/
def Fail.isNotImplemented : Fail → Bool
  | .exc => false
  | _ => true

/-- Everything `validate_calcs` is a function of. `g i env` = running the compiled formula of node `i` on the values
    `env` of its precedents: a value or a raised exception.  `close` = `close_enough` at the chosen tolerance,
    `noData i v` = "`v` is the text of the formula of `i`". -/
structure Cfg (α : Type) where
  wb : Workbook
  g : Nat → (Nat → α) → Except Fail α
  inp : Nat → α
  stored : Nat → Option α
  close : α → α → Bool
  noData : Nat → α → Bool
  tree : Bool

/-- cell map of the compiler: `cache i = none` ⇔ `cell.value is None`; `built i` ⇔ the node is in `cell_map` -/
structure VS (α : Type) where
  cache : Nat → Option α
  built : Nat → Bool

/-- run `step` over the list, stop at the first exception -/
def seqM {σ : Type} (step : Nat → σ → Option Fail × σ) : List Nat → σ → Option Fail × σ
  | [], s => (none, s)
  | j :: js, s =>
    match step j s with
    | (some e, s1) => (some e, s1)
    | (none, s1) => seqM step js s1

section
variable {α : Type} (C : Cfg α)

/-- value of a precedent as the formula sees it -/
def valueOf (s : VS α) (j : Nat) : α :=
  match C.wb.kind j with
  | .input => C.inp j
  | _ => (s.cache j).getD (C.inp j)

/-- `_evaluate` / `_evaluate_range`: cached value, else evaluate the precedents in formula order, run the formula,
    cache the result.  An exception leaves the node uncomputed and propagates. -/
def evalX : Nat → Nat → VS α → Option Fail × VS α
  | 0, _, s => (none, s)
  | fuel+1, i, s =>
    match C.wb.kind i with
    | .input => (none, s)
    | _ =>
      match s.cache i with
      | some _ => (none, s)
      | none =>
        match seqM (evalX fuel) (C.wb.deps i) s with
        | (some e, s1) => (some e.nested, s1)
        | (none, s1) =>
          match C.g i (valueOf C s1) with
          | .ok v => (none, { s1 with cache := update s1.cache i (some v) })
          | .error e => (some e, s1)

/-- `_make_cells` over the precedent closure: new nodes enter the cell map, formula cells with their stored result -/
def markF : Nat → Nat → VS α → VS α
  | 0, _, s => s
  | fuel+1, i, s =>
    if s.built i = true then s
    else
      let s0 : VS α :=
        { built := update s.built i true,
          cache := match C.wb.kind i with
            | .formula => update s.cache i (C.stored i)
            | _ => s.cache }
      (C.wb.deps i).foldl (fun st j => markF fuel j st) s0

/-- `_gen_graph(addr)`: build the closure, then evaluate the ranges this call created -/
def genGraph (a : Nat) (s : VS α) : Option Fail × VS α :=
  let s1 := markF C (a+1) a s
  let newR := (List.range (a+1)).filter fun r =>
    decide (C.wb.kind r = .range) && !s.built r && s1.built r
  seqM (fun r => evalX C (r+1) r) newR s1

/-- the returned dict.  `mismatch`: latest entry of an address first (`lookup` = the dict entry);
    `failed`: (address, class) in order of occurrence; `noData`: ghost, the "No Orig data?" debug log. -/
structure Report (α : Type) where
  mismatch : List (Nat × α × α)
  failed : List (Nat × Fail)
  noData : List Nat

/-- loop state of `validate_calcs` -/
structure LS (α : Type) where
  todo : List Nat
  verified : List Nat
  rep : Report α
  vs : VS α

/-- `for addr in cell.needed_addresses: if addr not in verified: to_verify.append(addr)` (top of the stack = head) -/
def pushDeps (a : Nat) (verified : List Nat) (todo : List Nat) : List Nat :=
  if C.tree then ((C.wb.deps a).filter fun j => !verified.contains j).reverse ++ todo else todo

/-- the `except` branch -/
def failStep (a : Nat) (e : Fail) (st : LS α) (s : VS α) : LS α :=
  let ver := if C.tree then a :: st.verified else st.verified
  { todo := pushDeps C a ver st.todo,
    verified := ver,
    rep := { st.rep with failed := st.rep.failed ++ [(a, e)] },
    vs := s }

/-- `verified.add(addr)` and the push of the precedents -/
def okStep (a : Nat) (st : LS α) (rep : Report α) (s : VS α) : LS α :=
  { todo := pushDeps C a (a :: st.verified) st.todo,
    verified := a :: st.verified,
    rep := rep,
    vs := s }

/-- recompute a formula cell and compare with the original value (if there was one) -/
def recompute (a : Nat) (orig : Option α) (st : LS α) (s1 : VS α) : LS α :=
  match evalX C (a+1) a { s1 with cache := update s1.cache a none } with
  | (some e, s3) => failStep C a e st s3
  | (none, s3) =>
    let v := valueOf C s3 a
    let rep := match orig with
      | none => st.rep
      | some v0 => if C.close v v0 = true then st.rep
                   else { st.rep with mismatch := (a, v0, v) :: st.rep.mismatch }
    okStep C a st rep s3

/-- one iteration of `while to_verify:` -/
def step (st : LS α) : LS α :=
  match st.todo with
  | [] => st
  | a :: rest =>
    let st := { st with todo := rest }
    match genGraph C a st.vs with
    | (some e, s1) => failStep C a e st s1
    | (none, s1) =>
      match C.wb.kind a with
      | .formula =>
        match s1.cache a with
        | some v0 =>
          if C.noData a v0 = true then
            { st with vs := s1, rep := { st.rep with noData := a :: st.rep.noData } }
          else recompute C a (some v0) st s1
        | none => recompute C a none st s1
      | _ => okStep C a st st.rep s1

def iter : Nat → LS α → LS α
  | 0, st => st
  | k+1, st => iter k (step C st)

def emptyReport : Report α := { mismatch := [], failed := [], noData := [] }

/-- state at the `while`: the stack holds the outputs (the last output on top), nothing in the cell map -/
def initLS (outs : List Nat) : LS α :=
  { todo := outs.reverse, verified := [], rep := emptyReport,
    vs := { cache := fun _ => none, built := fun _ => false } }

/-- size of the verification tree below `i` (every path counted): bounds the number of iterations -/
def weight : Nat → Nat → Nat
  | 0, _ => 1
  | fuel+1, i => 1 + ((C.wb.deps i).map (weight fuel)).sum

def fuelFor (outs : List Nat) : Nat := (outs.map fun a => weight C (a+1) a).sum

/-- `validate_calcs`: run the loop (`fuelFor` iterations always suffice, `C12_terminates`) -/
def validate (outs : List Nat) : LS α := iter C (fuelFor C outs) (initLS outs)

def Report.lookup (r : Report α) (a : Nat) : Option (α × α) :=
  (r.mismatch.find? fun e => e.1 == a).map (·.2)

def Report.isEmpty (r : Report α) : Bool := r.mismatch.isEmpty && r.failed.isEmpty

end

/-! ### `_CellBase.close_enough(value, rel=0.00001, tol=tolerance)` on Excel scalars -/

/-- `isinstance(v, Number)`: the numeric view used by the comparison.  A Python `bool` IS a `Number`, so a logical
    takes part as 1/0 (`_Cell(value=True).close_enough(1)` is `True`): known finding `logical.as-number`, pinned by
    tests/lib/test_logical.py::test_logical_ws (pycel computes 0 where Excel stored FALSE). -/
def numView : Val → Option Rat
  | .num q => some q
  | .bool b => some (if b then 1 else 0)
  | _ => none

def ratAbs (q : Rat) : Rat := if q < 0 then -q else q

def rel : Rat := 1 / 100000

/-- two numbers: `abs(a-b) <= (1+rel)*tol` with a tolerance; without, `math.isclose(rel_tol=rel)` when both are
    non-zero and `math.isclose(abs_tol=1e-8)` otherwise -/
def closeNum (tol : Option Rat) (a b : Rat) : Bool :=
  match tol with
  | some t => decide (ratAbs (b - a) ≤ (1 + rel) * t)
  | none =>
    if a ≠ 0 ∧ b ≠ 0 then decide (ratAbs (a - b) ≤ rel * (if ratAbs a ≤ ratAbs b then ratAbs b else ratAbs a))
    else decide (ratAbs (a - b) ≤ 1 / 100000000)

/-- Python `==` between two values that are not both numbers (errors are strings in pycel) -/
def pyEqNonNum : Val → Val → Bool
  | .str a, .str b => decide (a = b)
  | .err a, .err b => decide (a = b)
  | .str a, .err b => decide (a = b.text.toList)
  | .err a, .str b => decide (a.text.toList = b)
  | .bool a, .bool b => a == b
  | .blank, .blank => true
  | _, _ => false

def closeVal (tol : Option Rat) (a b : Val) : Bool :=
  match numView a, numView b with
  | some x, some y => closeNum tol x y
  | _, _ => pyEqNonNum a b

end Pycel.Validate

/-
  C07 — model of the state pycel keeps OUTSIDE a compiler, and of which thread can see it.

  Anchors (src/pycel):
    excelutil.py:1280-1325   _IterativeEvalTracker   (`_ns = threading.local()`, lazy `ns` property, API)
    excelutil.py:844-873     _ArrayFormulaContext    (`_ns = threading.local()`, lazy `ns`, stack of target ranges)
    excelformula.py:930-933  eval_func: `with in_array_formula_context(addr): fit_to_range(lambda())`
    excelcompiler.py:1108-1112  _Cell.ctr / next_id  (class attribute: ONE counter for all compilers and threads)
    lib/function_helpers.py:86-90  apply_meta: `meta['name_space'] = name_space` written into the function's
                                   module-level metadata dict, read back at call time by CELL and INDEX
    excelcompiler.py:875-899, 1159-1187  pass loop and _CycleCell (the callers of the tracker API)

  A *thread* runs one workload on its own compiler (the property: "different compiled workbooks ... on different
  threads").  A workload is the sequence of bookkeeping operations (`Op`) its evaluation performs at the module-level
  objects above; everything else a step does (cell values, graph, eval context, error_messages list) lives inside
  the compiler object and is reachable only from its own thread — that part is the field `Thread` below.  Reads
  (`isCalced`, `tol`, `done`, `top`, `mread`, `fin`) are recorded as observations: they are what decides the control
  flow and the results of the real evaluation (pass loop exit, needs_calc, tolerance compare, fit_to_range target,
  the compiler CELL/INDEX read through).

  Module-level mutables of the pycel modules, enumerated (harness/tablegen/c07.py snapshots all of them around a
  multi-compiler workload; `sharedWritten` lists the ones that changed, theorem `C07_shared_enumeration`):
    written during operations : `_Cell.ctr` (modelled: `Shared.ctr`), every library function's
                                `excel_func_meta['name_space']` (modelled: `Shared.metaNs`)
    per thread                : `_IterativeEvalTracker._ns`, `_ArrayFormulaContext._ns` (modelled: `Locals`)
    written at import only    : `function_helpers.star_args` (filled by the decorators, never read), the constant tables
                                (`OPERATORS`, `Token.precedences`, `func_map`, `_SIZE_MASK`, …)
    transparent               : `get_column_letter` lru_cache (pure memo), the shared `pycel` logger (no result reads it)
    per compiler              : cell_map, dep_graph, the eval context with its `error_messages` list, formula lambdas

  WHERE each namespace lives is a parameter (`Placement`), measured from the live code by harness/tablegen/c07.py
  (Generated/Threads.lean).  With `Place.moduleGlobal` every thread reads and writes the same copy.
-/
import Pycel.Generated.Threads
namespace Pycel.Threads

abbrev Tid := Nat
abbrev CellId := Nat
/-- a tolerance value, kept as the exact fraction (num, den); the bookkeeping only stores and returns it -/
abbrev Tol := Int × Nat
/-- target range of a CSE evaluation: "N" = None, "F" = the `False` sentinel at the bottom, else the range text -/
abbrev Addr := String

inductive Place | isolated | moduleGlobal
  deriving DecidableEq, Repr

/-- what the lazy `ns` property of the tracker creates on first use on a thread (excelutil.py:1284-1290) -/
structure LazyTable where
  attrs : List String            -- attribute names created by `ns`
  iterations : Option Nat        -- the value `ns` gives `iterations`, if it creates it
  tolerance : Option (Int × Nat)
  deriving DecidableEq, Repr

/-- where the four pieces of module-level state live, and what is created lazily -/
structure Placement where
  lazy : LazyTable
  tracker : Place      -- iterative_eval_tracker.ns      (isolated = per thread)
  ctx : Place          -- in_array_formula_context.ns    (isolated = per thread)
  funcMeta : Place     -- FUNC_META['name_space']        (isolated = per compiler)
  cellCtr : Place      -- _Cell.ctr                      (isolated = per compiler)
  deriving DecidableEq, Repr

def placeOf (b : Bool) : Place := if b then .isolated else .moduleGlobal

/-- the placement measured on the live code -/
def codeLazy : LazyTable :=
  { attrs := Gen.Threads.trackerLazy, iterations := Gen.Threads.trackerLazyIterations,
    tolerance := Gen.Threads.trackerLazyTolerance }

def codePlacement : Placement :=
  { lazy := codeLazy
    tracker := placeOf Gen.Threads.trackerNsThreadLocal
    ctx := placeOf Gen.Threads.ctxNsThreadLocal
    funcMeta := placeOf (!Gen.Threads.funcMetaShared)
    cellCtr := placeOf (!Gen.Threads.cellCtrShared) }

/-- the placement the property asks for: nothing a result depends on is shared (the id counter may be) -/
def propPlacement : Placement :=
  { lazy := codeLazy, tracker := .isolated, ctx := .isolated, funcMeta := .isolated, cellCtr := .moduleGlobal }

/-- attributes of `_IterativeEvalTracker._ns`; `none` = the attribute does not exist (reading it raises) -/
structure Tracker where
  todo : Option (List CellId) := none
  computed : Option (List CellId) := none
  iterNo : Option Nat := none
  iterations : Option Nat := none
  tolerance : Option Tol := none
  deriving DecidableEq, Repr

/-- attributes of `_ArrayFormulaContext._ns` -/
structure Ctx where
  addrs : Option (List Addr) := none      -- ctx_addresses
  pending : Option Addr := none           -- _ctx_address
  deriving DecidableEq, Repr

structure Locals where
  tracker : Tracker := {}
  ctx : Ctx := {}
  deriving DecidableEq, Repr

/-- a thread (or process) that has never used the library -/
def Locals.default : Locals := {}

def LazyTable.has (L : LazyTable) (a : String) : Bool := L.attrs.contains a

/-- `_IterativeEvalTracker.ns` (excelutil.py:1284-1290): attributes created on first use, per the generated table -/
def Tracker.ns (L : LazyTable) (t : Tracker) : Tracker :=
  if t.todo.isSome then t else
  { todo := if L.has "todo" then some [] else t.todo
    computed := if L.has "computed" then some [] else t.computed
    iterNo := if L.has "iteration_number" then some 0 else t.iterNo
    iterations := if L.has "iterations" then L.iterations else t.iterations
    tolerance := if L.has "tolerance" then L.tolerance else t.tolerance }

/-- `_ArrayFormulaContext.ns` (excelutil.py:850-855) -/
def Ctx.ns (c : Ctx) : Ctx :=
  if c.addrs.isSome then c else { addrs := some ["F"], pending := some "N" }

def setAdd (c : CellId) (s : List CellId) : List CellId := if s.contains c then s else s ++ [c]

/-- bookkeeping operations of a workload -/
inductive Op
  | call (iterations : Nat) (tol : Tol)   -- iterative_eval_tracker(iterations, tolerance)
  | inc                                   -- inc_iteration_number
  | wip (c : CellId) | calced (c : CellId)
  | untodo (c : CellId) | uncalced (c : CellId)   -- `ns.todo.discard(c)` / `ns.computed.discard(c)` (_CycleCell.__init__)
  | isCalced (c : CellId) | tol | done    -- reads
  | ctxCall (a : Addr) | enter | exit     -- in_array_formula_context(addr) / __enter__ / __exit__
  | top                                   -- ctx_address (read)
  | nextId                                -- _Cell.next_id()
  | bind (f : String)                     -- apply_meta(f, name_space of my compiler)
  | mread (f : String)                    -- f.excel_func_meta['name_space'] (read, at call time)
  | yp                                    -- yield point: entry of ExcelCompiler._evaluate (no state change)
  | fin                                   -- end of the workload: snapshot of this thread's locals (read)
  deriving DecidableEq, Repr

inductive Obs
  | bool (b : Bool) | tol (t : Tol) | addr (a : Addr) | comp (owner : Option Tid)
  | fin (iterNo iterations : Option Nat) (tol : Option Tol) (todo computed : Option Nat) (depth : Option Nat)
  | raised (e : String)
  deriving DecidableEq, Repr

/-- per-workload state: the compiler object and the program running on it -/
structure Thread where
  prog : List Op := []
  obs : List Obs := []            -- observations so far (oldest first)
  ids : List Nat := []            -- cell ids handed out to this compiler's cells
  myCtr : Nat := 0                -- used only when the id counter is per compiler
  myMeta : List String := []      -- functions bound in this compiler's namespaces (used when funcMeta is isolated)
  crashed : Bool := false
  deriving DecidableEq, Repr

/-- module-level state every thread can reach -/
structure Shared where
  ctr : Nat := 0                               -- _Cell.ctr
  metaNs : List (String × Tid) := []           -- function name ↦ compiler whose namespace was bound last
  tracker : Tracker := {}                      -- used only under Place.moduleGlobal
  ctx : Ctx := {}                              -- used only under Place.moduleGlobal
  deriving DecidableEq, Repr

def lookupMeta (f : String) : List (String × Tid) → Option Tid
  | [] => none
  | (g, t) :: r => if g = f then some t else lookupMeta f r

def setMeta (f : String) (t : Tid) (m : List (String × Tid)) : List (String × Tid) :=
  (f, t) :: m.filter (fun p => p.1 ≠ f)

/-- result of the tracker part of an operation: new namespace, an observation if the op reads -/
inductive R (α : Type) | ok (s : α) (o : Option Obs) | raise (s : α) (e : String)

/-- the `_IterativeEvalTracker` API (excelutil.py:1292-1322), every method going through `ns` first -/
def trackerOp (L : LazyTable) (op : Op) (t0 : Tracker) : R Tracker :=
  let t := t0.ns L
  match op with
  | .call i tol => .ok { t with iterNo := some 0, iterations := some i, tolerance := some tol } none
  | .inc =>
    match t.iterNo, t.todo, t.computed with
    | some n, some _, some _ => .ok { t with iterNo := some (n + 1), todo := some [], computed := some [] } none
    | _, _, _ => .raise t "AttributeError"
  | .wip c => match t.todo with
    | some s => .ok { t with todo := some (setAdd c s) } none
    | none => .raise t "AttributeError"
  | .calced c => match t.computed with
    | some s => .ok { t with computed := some (setAdd c s) } none
    | none => .raise t "AttributeError"
  | .untodo c => match t.todo with
    | some s => .ok { t with todo := some (s.erase c) } none
    | none => .raise t "AttributeError"
  | .uncalced c => match t.computed with
    | some s => .ok { t with computed := some (s.erase c) } none
    | none => .raise t "AttributeError"
  | .isCalced c => match t.computed with
    | some s => .ok t (some (.bool (s.contains c)))
    | none => .raise t "AttributeError"
  | .tol => match t.tolerance with
    | some x => .ok t (some (.tol x))
    | none => .raise t "AttributeError"
  | .done =>
    -- `self.ns.iteration_number >= self.ns.iterations or not self.ns.todo`
    match t.iterNo, t.iterations with
    | some n, some m =>
      if n ≥ m then .ok t (some (.bool true)) else
      match t.todo with
      | some s => .ok t (some (.bool s.isEmpty))
      | none => .raise t "AttributeError"
    | _, _ => .raise t "AttributeError"
  | _ => .ok t0 none

/-- the `_ArrayFormulaContext` API (excelutil.py:857-873) -/
def ctxOp (op : Op) (c0 : Ctx) : R Ctx :=
  let c := c0.ns
  match op with
  | .ctxCall a => .ok { c with pending := some a } none
  | .enter => match c.addrs, c.pending with
    | some s, some p => .ok { addrs := some (s ++ [p]), pending := some "N" } none
    | _, _ => .raise c "AttributeError"
  | .exit => match c.addrs with
    | some s => if s.isEmpty then .raise c "IndexError" else .ok { c with addrs := some s.dropLast } none
    | none => .raise c "AttributeError"
  | .top => match c.addrs with
    | some s => match s.getLast? with
      | some a => .ok c (some (.addr a))
      | none => .raise c "IndexError"
    | none => .raise c "AttributeError"
  | _ => .ok c0 none

def Op.isTracker : Op → Bool
  | .call .. | .inc | .wip _ | .calced _ | .untodo _ | .uncalced _ | .isCalced _ | .tol | .done => true
  | _ => false

def Op.isCtx : Op → Bool
  | .ctxCall _ | .enter | .exit | .top => true
  | _ => false

/-- end-of-workload snapshot, read the way the library reads its state: through the lazily initialising `ns` -/
def finObs (L : LazyTable) (l : Locals) : Obs :=
  let t := l.tracker.ns L
  let c := l.ctx.ns
  .fin t.iterNo t.iterations t.tolerance (t.todo.map List.length) (t.computed.map List.length)
    (c.addrs.map List.length)

def Thread.emit (th : Thread) (o : Option Obs) : Thread :=
  match o with | some x => { th with obs := th.obs ++ [x] } | none => th

def Thread.crash (th : Thread) (e : String) : Thread :=
  { th with obs := th.obs ++ [.raised e], prog := [], crashed := true }

/-- One operation of thread `me`, as a function of ITS view of the locals, ITS compiler state and the shared store.
    Returns the new locals view, thread state and shared store. -/
def execOp (P : Placement) (me : Tid) (op : Op) (l : Locals) (th : Thread) (sh : Shared) :
    Locals × Thread × Shared :=
  if op.isTracker then
    match trackerOp P.lazy op l.tracker with
    | .ok t o => ({ l with tracker := t }, th.emit o, sh)
    | .raise t e => ({ l with tracker := t }, th.crash e, sh)
  else if op.isCtx then
    match ctxOp op l.ctx with
    | .ok c o => ({ l with ctx := c }, th.emit o, sh)
    | .raise c e => ({ l with ctx := c }, th.crash e, sh)
  else match op with
  | .nextId =>
    match P.cellCtr with
    | .moduleGlobal => (l, { th with ids := th.ids ++ [sh.ctr + 1] }, { sh with ctr := sh.ctr + 1 })
    | .isolated => (l, { th with ids := th.ids ++ [th.myCtr + 1], myCtr := th.myCtr + 1 }, sh)
  | .bind f =>
    match P.funcMeta with
    | .moduleGlobal => (l, th, { sh with metaNs := setMeta f me sh.metaNs })
    | .isolated => (l, { th with myMeta := if th.myMeta.contains f then th.myMeta else f :: th.myMeta }, sh)
  | .mread f =>
    match P.funcMeta with
    | .moduleGlobal => (l, th.emit (some (.comp (lookupMeta f sh.metaNs))), sh)
    | .isolated => (l, th.emit (some (.comp (if th.myMeta.contains f then some me else none))), sh)
  | .fin => (l, th.emit (some (finObs P.lazy l)), sh)
  | _ => (l, th, sh)

structure Global where
  locals : Tid → Locals
  threads : Tid → Thread
  shared : Shared

def upd {α : Type} (f : Tid → α) (t : Tid) (v : α) : Tid → α := fun u => if u = t then v else f u

/-- the locals thread `t` sees: its own `threading.local` copy, or the single module-level copy -/
def view (P : Placement) (g : Global) (t : Tid) : Locals :=
  { tracker := match P.tracker with | .isolated => (g.locals t).tracker | .moduleGlobal => g.shared.tracker
    ctx := match P.ctx with | .isolated => (g.locals t).ctx | .moduleGlobal => g.shared.ctx }

def writeBack (P : Placement) (g : Global) (t : Tid) (l : Locals) (th : Thread) (sh : Shared) : Global :=
  { locals := upd g.locals t
      { tracker := match P.tracker with | .isolated => l.tracker | .moduleGlobal => (g.locals t).tracker
        ctx := match P.ctx with | .isolated => l.ctx | .moduleGlobal => (g.locals t).ctx }
    threads := upd g.threads t th
    shared := { sh with
      tracker := match P.tracker with | .isolated => sh.tracker | .moduleGlobal => l.tracker
      ctx := match P.ctx with | .isolated => sh.ctx | .moduleGlobal => l.ctx } }

/-- small step: thread `t` executes its next operation (nothing happens when its program is finished) -/
def step (P : Placement) (t : Tid) (g : Global) : Global :=
  match (g.threads t).prog with
  | [] => g
  | op :: rest =>
    let (l, th, sh) := execOp P t op (view P g t) { g.threads t with prog := rest } g.shared
    -- a crash empties the program
    writeBack P g t l th sh

/-- run a schedule: `σ` names the thread that takes each successive step -/
def run (P : Placement) : List Tid → Global → Global
  | [], g => g
  | t :: σ, g => run P σ (step P t g)

/-- `n` steps of `t` alone -/
def runSolo (P : Placement) (t : Tid) : Nat → Global → Global
  | 0, g => g
  | n + 1, g => runSolo P t n (step P t g)

/-- what a thread can observe of itself: its locals, its observations, its remaining program, whether it failed
    (the cell ids are deliberately not part of it: they come from the shared counter) -/
structure Proj where
  locals : Locals
  obs : List Obs
  prog : List Op
  myMeta : List String
  crashed : Bool
  deriving DecidableEq, Repr

def proj (g : Global) (t : Tid) : Proj :=
  { locals := g.locals t, obs := (g.threads t).obs, prog := (g.threads t).prog,
    myMeta := (g.threads t).myMeta, crashed := (g.threads t).crashed }

def initGlobal (progs : Tid → List Op) (l0 : Tid → Locals := fun _ => Locals.default) : Global :=
  { locals := l0, threads := fun t => { prog := progs t }, shared := {} }

/-- run thread `t` until it has passed `n` yield points (inclusive) or finished; `fuel` bounds the steps -/
def runToYield (P : Placement) (t : Tid) : Nat → Nat → Global → Global
  | 0, _, g => g
  | _, 0, g => g
  | fuel + 1, n + 1, g =>
    match (g.threads t).prog with
    | [] => g
    | op :: _ =>
      let g' := step P t g
      match op with
      | .yp => runToYield P t fuel n g'
      | _ => runToYield P t fuel (n + 1) g'

def runToEnd (P : Placement) (t : Tid) : Nat → Global → Global
  | 0, g => g
  | fuel + 1, g =>
    match (g.threads t).prog with
    | [] => g
    | _ :: _ => runToEnd P t fuel (step P t g)

end Pycel.Threads

/-
  Line protocol between the Python harness and the compiled model driver.
  One value = one space-free token:
    n:<p>/<q>     exact rational (q > 0)
    s:<c1>,<c2>…  text as decimal code points (empty text = "s:")
    b:0 | b:1     logical
    z             blank (Python None)
    e:<tag>       error value (null div0 value ref name num na)
  Arrays are sent as  a:<rows>:<cols>  followed by rows*cols value tokens (row-major).
  Not part of any theorem: the protocol is trusted glue, exercised by every correspondence run.
-/
import Pycel.Model.Value
namespace Pycel

def encText (s : List Char) : String :=
  "s:" ++ ",".intercalate (s.map fun c => toString c.toNat)

def decText? (body : String) : Option (List Char) :=
  if body.isEmpty then some [] else
  (body.splitOn ",").mapM fun t => t.toNat?.map Char.ofNat

def encRat (q : Rat) : String := s!"n:{q.num}/{q.den}"

def decRat? (body : String) : Option Rat :=
  match body.splitOn "/" with
  | [p] => p.toInt?.map fun i => (i : Rat)
  | [p, q] => do
      let pi ← p.toInt?
      let qn ← q.toNat?
      if qn = 0 then none else some (mkRat pi qn)
  | _ => none

def Val.enc : Val → String
  | .num q => encRat q
  | .str s => encText s
  | .bool b => if b then "b:1" else "b:0"
  | .blank => "z"
  | .err e => "e:" ++ e.tag

def Val.dec? (tok : String) : Option Val :=
  if tok = "z" then some .blank
  else if tok.startsWith "n:" then (decRat? (tok.drop 2).toString).map .num
  else if tok.startsWith "s:" then (decText? (tok.drop 2).toString).map .str
  else if tok = "b:1" then some (.bool true)
  else if tok = "b:0" then some (.bool false)
  else if tok.startsWith "e:" then (Err.ofTag? (tok.drop 2).toString).map .err
  else none

def encArr (a : Arr) : String :=
  let r := a.length
  let c := (a.headD []).length
  " ".intercalate (s!"a:{r}:{c}" :: (a.flatten.map Val.enc))

/-- split `xs` into rows of `c` (structural on fuel = rows) -/
def chunk (c : Nat) : Nat → List α → List (List α)
  | 0, _ => []
  | r+1, xs => xs.take c :: chunk c r (xs.drop c)

/-- An argument is a scalar or an array. -/
inductive Arg where
  | scalar (v : Val)
  | arr (a : Arr)
  deriving Inhabited

/-- parse a list of tokens into arguments -/
partial def decArgs? : List String → Option (List Arg)
  | [] => some []
  | t :: ts =>
    if t.startsWith "a:" then
      match (t.drop 2).toString.splitOn ":" with
      | [rs, cs] => do
          let r ← rs.toNat?
          let c ← cs.toNat?
          let cells ← (ts.take (r*c)).mapM Val.dec?
          if cells.length ≠ r*c then none else
          let rest ← decArgs? (ts.drop (r*c))
          some (.arr (chunk c r cells) :: rest)
      | _ => none
    else do
      let v ← Val.dec? t
      let rest ← decArgs? ts
      some (.scalar v :: rest)

def Arg.enc : Arg → String
  | .scalar v => v.enc
  | .arr a => encArr a

def decInt? (tok : String) : Option Int := tok.toInt?

end Pycel

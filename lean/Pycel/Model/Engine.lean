/-
  Generic evaluation engine of `src/pycel/excelcompiler.py` (non-iterative mode).

  A workbook is a finite DAG of nodes presented in a topological order: node `i` only has precedents `< i`
  (`WF`).  Nodes are input cells (value cells, blank included), formula cells, or range nodes (precedents = member
  cells, value = the tuple of member values).  The engine is polymorphic in the value type `α` and in the formula
  semantics `f : Nat → (Nat → α) → α`, which may only read the declared precedents (`Local`).

  Anchors (excelcompiler.py):
    417-461 `set_value`         -> `setValue`
    463-478 `_reset`            -> `resetG`/`resetF` (with the pass-through of empty range nodes, f32e634)
    1040-1042 `needs_calc`      -> `cache i = none`
    765-838 `_evaluate_range/_evaluate` -> `evalF`
    708-763, 901-961 `_make_cells/_gen_graph/_process_gen_graph` -> `buildF`
    840-873 `_evaluate_non_iterative`   -> `evaluate`
    231-280 `_from_text`        -> `initLoaded`

  Where the model follows the PROPERTY (C01) and not the pinned code; each was a defect of the pinned code, found by
  the C01 correspondence and repaired in /repo (fix: 831c9af, 12bdb68, 55fbb99), so code and model now coincide:
    * the equality test of `set_value` is a parameter `eqv`; the theorems need `eqv a b = true → a = b`
      (Python's `!=` identifies 0/False and 1/True);
    * the written cell itself never stops the reset walk (the pinned code returned at `needs_calc` when `None` was
      written);
    * results stored in the file are dropped at the first effective `setValue` (`stored := none`), so a cell built
      later starts uncomputed instead of with the stale stored result.
  Props/C01.lean proves that each of the three is forced (counterexample theorems on the uncorrected variant).

  For reuse (C03, C05, C08, C09, C12): `Workbook`, `WF`, `Local`, `State`, `setValue`, `evaluate`, `denote`, `run`,
  `outputs`, `Inv` (= I1 ∧ Closed ∧ StoredOK), `initNoData/initStored/initLoaded`; lemmas in Lemmas/Engine.lean:
  `evaluate_spec`, `setValue_inv`, `setValue_inp`, `run_inv`, `evalF_spec`, `buildF_spec`, `resetF_spec`,
  `denote_node`, `denote_congr`, `initLoaded_spec`.  Nodes are plain `Nat` (an `abbrev` hides `<` from `omega`).

  Import-free, structural recursion only (fuel), executable.
-/
namespace Pycel.Engine

-- nodes are natural numbers `0 … n-1` (plain `Nat`, so that `omega` sees the order facts)

inductive Kind where
  | input | formula | range
  deriving DecidableEq, Repr, Inhabited

/-- `n` nodes `0 … n-1`; `deps i` = declared precedents of node `i` (for a range node: its member cells). -/
structure Workbook where
  n : Nat
  kind : Nat → Kind
  deps : Nat → List Nat

/-- topological presentation: precedents come earlier, inputs have none -/
structure WF (wb : Workbook) : Prop where
  lt : ∀ i j, j ∈ wb.deps i → j < i
  input : ∀ i, wb.kind i = .input → wb.deps i = []

/-- `f i env` reads `env` only at the declared precedents of `i` -/
def Local (wb : Workbook) (f : Nat → (Nat → α) → α) : Prop :=
  ∀ i (e e' : Nat → α), (∀ j, j ∈ wb.deps i → e j = e' j) → f i e = f i e'

/-- Engine state.  `cache i = none` ⇔ `cell_map[i].value is None` ⇔ `needs_calc` (formula and range nodes);
    `inp` = current value of the value cells; `built i` ⇔ `i` is in `cell_map`; `stored` = results kept in the
    file (`.xlsx` read with `data_only=True`), used as the initial cache of a formula cell when it is built. -/
structure State (α : Type) where
  inp : Nat → α
  cache : Nat → Option α
  built : Nat → Bool
  stored : Nat → Option α

def update (g : Nat → β) (i : Nat) (v : β) : Nat → β := fun k => if k = i then v else g k

/-- dependants of `k` (`dep_graph.successors`), ascending -/
def succs (wb : Workbook) (k : Nat) : List Nat :=
  (List.range wb.n).filter fun j => (wb.deps j).contains k

section
variable {α : Type} (wb : Workbook) (f : Nat → (Nat → α) → α)

/-- from-scratch value of node `i` at inputs `inp` (fuel `> i` suffices) -/
def denoteF (inp : Nat → α) : Nat → Nat → α
  | 0, i => inp i
  | fuel+1, i =>
    match wb.kind i with
    | .input => inp i
    | _ => f i (fun j => denoteF inp fuel j)

def denote (inp : Nat → α) (i : Nat) : α := denoteF wb f inp (i+1) i

/-- value of an evaluated precedent as the formula sees it -/
def valueOf (s : State α) (j : Nat) : α :=
  match wb.kind j with
  | .input => s.inp j
  | _ => (s.cache j).getD (s.inp j)

/-- `_evaluate` / `_evaluate_range`: return the cached value, else evaluate the precedents, apply the formula, cache. -/
def evalF : Nat → Nat → State α → α × State α
  | 0, i, s => (s.inp i, s)
  | fuel+1, i, s =>
    match wb.kind i with
    | .input => (s.inp i, s)
    | _ =>
      match s.cache i with
      | some v => (v, s)
      | none =>
        let s1 := (wb.deps i).foldl (fun st j => (evalF fuel j st).2) s
        let v := f i (valueOf wb s1)
        (v, { s1 with cache := update s1.cache i (some v) })

/-- one step of the successor loop of `_reset`, with the pass-through rule as a parameter:
    `if child_cell.value is not None: self._reset(child_cell)`
    `elif <pass child>: self._reset(child_cell, force=True)` -/
def resetStepG (pass : Nat → Bool) (r : Nat → State α → State α) (st : State α) (j : Nat) : State α :=
  match st.cache j with
  | some _ => r j st
  | none => if pass j then r j st else st

/-- `_reset(cell, force=True)` (= `_reset(cell)` on a computed cell; the successor loop only calls it in these two
    ways): clear the node and walk the successors (fuel `≥ n - k` suffices) -/
def resetG (pass : Nat → Bool) : Nat → Nat → State α → State α
  | 0, _, s => s
  | fuel+1, k, s =>
    (succs wb k).foldl (resetStepG pass (resetG pass fuel)) { s with cache := update s.cache k none }

/-- `child_cell.address.is_range` -/
def isRange (j : Nat) : Bool :=
  match wb.kind j with
  | .range => true
  | _ => false

/-- the successor loop of `_reset` as the code has it since fix f32e634: stop at an empty cell, but pass through an
    empty RANGE node (the operand ranges of an intersection are declared precedents that are never read, so they stay
    empty after the first reset although their dependants are computed) -/
def resetStep (r : Nat → State α → State α) (st : State α) (j : Nat) : State α :=
  resetStepG (isRange wb) r st j

def resetF (fuel : Nat) (k : Nat) (s : State α) : State α := resetG wb (isRange wb) fuel k s

/-- the walk before f32e634 ("stopping at already-empty nodes", no pass-through); kept for the comparison theorems -/
def resetFOld (fuel : Nat) (k : Nat) (s : State α) : State α := resetG wb (fun _ => false) fuel k s

/-- `set_value` on a value cell that is in the cell map: compare with `eqv`, write, reset the dependants.
    Anything else (unknown address, formula cell, range) leaves the state unchanged (the code raises an
    AssertionError for an address that is not in the cell map; writing over formula cells is outside C01). -/
def setValue (eqv : α → α → Bool) (i : Nat) (v : α) (s : State α) : State α :=
  if i < wb.n ∧ wb.kind i = .input ∧ s.built i = true then
    if eqv (s.inp i) v = true then s
    else
      (succs wb i).foldl (resetStep wb (resetF wb wb.n))
        { s with inp := update s.inp i v, stored := fun _ => none }
  else s

/-- `setValue` with the walk before f32e634 (comparison theorems only) -/
def setValueOld (eqv : α → α → Bool) (i : Nat) (v : α) (s : State α) : State α :=
  if i < wb.n ∧ wb.kind i = .input ∧ s.built i = true then
    if eqv (s.inp i) v = true then s
    else
      (succs wb i).foldl (resetStepG (fun _ => false) (resetFOld wb wb.n))
        { s with inp := update s.inp i v, stored := fun _ => none }
  else s

/-- `_gen_graph`: put `i` and its not-yet-built precedent closure into the cell map.  A formula cell starts with the
    stored result (if the file has one), a range node is evaluated at once (`range_todos`; the code defers that to
    the end of `_process_gen_graph`, the intermediate states are not observable). -/
def buildF : Nat → Nat → State α → State α
  | 0, _, s => s
  | fuel+1, i, s =>
    if s.built i = true then s
    else
      let s1 := (wb.deps i).foldl (fun st j => buildF fuel j st) s
      let s2 := { s1 with built := update s1.built i true }
      match wb.kind i with
      | .input => s2
      | .formula =>
        match s2.stored i with
        | some v => { s2 with cache := update s2.cache i (some v) }
        | none => s2
      | .range => (evalF wb f (fuel+1) i s2).2

/-- `evaluate(address)`: build on demand, then evaluate lazily. -/
def evaluate (a : Nat) (s : State α) : α × State α :=
  if a < wb.n then evalF wb f (a+1) a (buildF wb f (a+1) a s) else (s.inp a, s)

inductive Op (α : Type) where
  | set (i : Nat) (v : α)
  | eval (a : Nat)

def step (eqv : α → α → Bool) (s : State α) : Op α → State α
  | .set i v => setValue wb eqv i v s
  | .eval a => (evaluate wb f a s).2

/-- state after a history of operations -/
def run (eqv : α → α → Bool) (s : State α) (h : List (Op α)) : State α := h.foldl (step wb f eqv) s

/-- the value each operation of the history returns (`none` for `set`) -/
def outputs (eqv : α → α → Bool) : State α → List (Op α) → List (Option α)
  | _, [] => []
  | s, .set i v :: h => none :: outputs eqv (setValue wb eqv i v s) h
  | s, .eval a :: h => let r := evaluate wb f a s; some r.1 :: outputs eqv r.2 h

/-! ### the other public forms: `set_value(<range or list of cells>, [v…])` and `evaluate([a…])` -/

/-- `set_value(address, values)` with a list of values (no `set_as_range`): the addresses are resolved to cells and
    written one by one, in order; the first cell that is not a value cell of the cell map aborts the call
    (AssertionError), the cells before it stay written. -/
def setMany (eqv : α → α → Bool) : List (Nat × α) → State α → State α
  | [], s => s
  | (i, v) :: r, s =>
    if i < wb.n ∧ wb.kind i = .input ∧ s.built i = true then setMany eqv r (setValue wb eqv i v s) else s

/-- `evaluate([a…])`: the addresses are evaluated one by one, in order -/
def evalMany : List Nat → State α → List α × State α
  | [], s => ([], s)
  | a :: r, s =>
    let e := evaluate wb f a s
    let rest := evalMany r e.2
    (e.1 :: rest.1, rest.2)

inductive OpX (α : Type) where
  | op (o : Op α)
  | setMany (l : List (Nat × α))
  | evalMany (l : List Nat)

def stepX (eqv : α → α → Bool) (s : State α) : OpX α → State α
  | .op o => step wb f eqv s o
  | .setMany l => setMany wb eqv l s
  | .evalMany l => (evalMany wb f l s).2

def runX (eqv : α → α → Bool) (s : State α) (h : List (OpX α)) : State α := h.foldl (stepX wb f eqv) s

/-! ### the three ways a model is obtained -/

/-- in-memory workbook without stored results: nothing built, nothing cached -/
def initNoData (inp : Nat → α) : State α :=
  { inp := inp, cache := fun _ => none, built := fun _ => false, stored := fun _ => none }

/-- `.xlsx` with stored results: nothing built, the file's results waiting in `stored` -/
def initStored (inp : Nat → α) (stored : Nat → Option α) : State α :=
  { inp := inp, cache := fun _ => none, built := fun _ => false, stored := stored }

/-- every node in the cell map, nothing computed -/
def loadedBase (inp : Nat → α) : State α :=
  { inp := inp, cache := fun _ => none, built := fun k => decide (k < wb.n), stored := fun _ => none }

/-- deserialised model (`_from_text`, pickle of it): every node of the saved model is in the cell map, formula cells
    uncomputed, then the ranges are evaluated (`_process_gen_graph`). -/
def initLoaded (inp : Nat → α) : State α :=
  (List.range wb.n).foldl
    (fun st r => match wb.kind r with
      | .range => (evalF wb f (r+1) r st).2
      | _ => st)
    (loadedBase wb inp)

/-- the stored results of the file are the results of its formulas at the file's inputs -/
def StoredConsistent (inp : Nat → α) (stored : Nat → Option α) : Prop :=
  ∀ j, j < wb.n → wb.kind j = .formula → stored j = some (denote wb f inp j)

/-! ### the invariant -/

/-- I1: a cached node holds the from-scratch value at the current inputs -/
def I1 (s : State α) : Prop := ∀ m v, s.cache m = some v → v = denote wb f s.inp m

/-- I0 + I2: only formula/range nodes `< n` are cached, and a cached node's formula and range precedents are cached -/
def Closed (s : State α) : Prop :=
  ∀ m, s.cache m ≠ none →
    wb.kind m ≠ .input ∧ m < wb.n ∧ ∀ j, j ∈ wb.deps m → wb.kind j = .input ∨ s.cache j ≠ none

/-- I3: either no stored results are in use, or every formula has a consistent one and nothing was reset yet
    (every node in the cell map is computed) -/
def StoredOK (s : State α) : Prop :=
  (∀ j, s.stored j = none) ∨
  ((∀ j, j < wb.n → wb.kind j = .formula → s.stored j = some (denote wb f s.inp j)) ∧
   (∀ d, d < wb.n → s.built d = true → wb.kind d ≠ .input → s.cache d ≠ none))

structure Inv (s : State α) : Prop where
  i1 : I1 wb f s
  closed : Closed wb s
  stored : StoredOK wb f s

end
end Pycel.Engine

/-
  Model for C04 — "declared precedents cover every cell a formula actually reads".
  Anchors:
    src/pycel/excelformula.py
      336-372  RangeNode.emit / _emit        reference → `_C_("addr")` / `_R_("addr")`, multi-area names, "#NAME?"
      286-300  OperatorNode.emit             intersection `_R_(str(_REF_(a) & _REF_(b)))`, union with `**`
      437-470  _build_reference, func_row / func_column / func_offset / func_indirect   (`_REF_("addr")` forms)
      472-500  func_subtotal
      588-606  ExcelFormula.needed_addresses the token-pattern scanner (`scan`)
      890-917  load_function: `_C_` = evaluate, `_R_` = evaluate_range, `_REF_` = AddressRange.create
    src/pycel/excelutil.py 705-752 range_boundaries (defined names between the R1C1 step and the multi-colon step)
    src/pycel/excelcompiler.py
      725-790  _make_cells  (cells, range nodes with their member cells, the reference cell of an unbounded range)
      935-949  _process_gen_graph  (one edge precedent → dependant per needed address)
      1092-1094 _CellRange.needed_addresses (a range node depends on its member cells)

  The formula tree, the Python token type and the non-reference part of emission are C02's (`Pycel.Formula`); the
  address algebra is C11's (`Pycel.Addr`).  This file adds the reference-bearing part: `resolve` (RangeNode with the
  cell's sheet, `$` stripped, defined names, multi-colon), `emitN` (emission with the reference handlers), `scan`,
  the run-time trace `evalT` (which `_C_`/`_R_` calls evaluating the emitted code makes, for an arbitrary environment
  and arbitrary, possibly failing, operator/library semantics) and the graph construction `genStep`.

  PROPERTY-DRIVEN point ("the dependency graph has the corresponding precedent->dependant edge (directly or through a
  range node that contains the cell)"): `makeCells` queues the reference cell of an unbounded range (`A:A` →
  `=_REF_("Sheet1!A1:A5")`) for edge construction like every other node with precedents.  The pinned code left it out
  of `graph_todos`, so `A1:A5 → A:A` was missing and the cells of the column were no ancestors of the reader
  (repaired by a `fix:` commit).  Everything else follows the code.
-/
import Pycel.Model.Formula
import Pycel.Model.Addr
import Pycel.Generated.RefMeta
import Pycel.Generated.Subtotal
namespace Pycel.Needed
open Pycel Pycel.Formula

abbrev Str := List Char

/-! ## 1. resolving a written reference (RangeNode._emit → AddressRange.create) -/

/-- what the emitter knows about the cell holding the formula -/
structure RefCtx where
  /-- `cell.sheet` -/
  sheet : Str
  /-- the cell's own column / row (`ROW()` without argument, anchor of relative R1C1 references) -/
  col : Nat
  row : Nat
  /-- `cell.excel.defined_names`: name ↦ [(range alias, worksheet)] -/
  names : List (Str × List (Str × Str))

inductive Resolved where
  /-- one cell / range -/
  | one (a : Addr.Addr)
  /-- a defined name with several areas: `AddressMultiAreaRange` -/
  | multi (as : List Addr.Addr)
  /-- ValueError and no table: `"#NAME?"` is emitted -/
  | nameErr
  /-- any other exception: the formula does not compile -/
  | raise
  deriving Repr

/-- areas of a multi-area defined name: `AddressRange(range_alias, sheet=worksheet)` each -/
def createAreas : List (Str × Str) → Option (List Addr.Addr)
  | [] => some []
  | (alias, ws) :: rest =>
    match Addr.create alias ws none, createAreas rest with
    | .ok (.addr a), some as => some (a :: as)
    | _, _ => none

/-- `AddressRange.create(addr_str, sheet=sheet, cell=cell)` including the defined-name step of `range_boundaries` -/
def createN (cx : RefCtx) (address sheet : Str) : Resolved :=
  if address ∈ Addr.errorCodes then .raise else
  match Addr.splitSheetname address sheet with
  | .error .valueError => .nameErr
  | .error _ => .raise
  | .ok (sn, addr) =>
    let anchor := some (cx.col, cx.row)
    let fin (sh : Str) (b : Addr.Bounds) : Resolved :=
      match Addr.ofBounds sh b with
      | .ok a => .one a
      | .error .valueError => .nameErr
      | .error _ => .raise
    match Addr.boundsSimple addr anchor with
    | .error .valueError => .nameErr
    | .error _ => .raise
    | .ok (some b) => fin sn b
    | .ok none =>
      match cx.names.lookup addr with
      | some [(alias, ws)] =>
        match Addr.a1Boundaries alias with
        | some b => fin ws b
        | none => .nameErr
      | some (d :: ds) =>
        match createAreas (d :: ds) with
        | some as => .multi as
        | none => .raise
      | _ =>
        match Addr.multiColon sn addr anchor with
        | .ok b => fin sn b
        | .error .valueError => .nameErr
        | .error _ => .raise

/-- RangeNode._emit: the cell's sheet unless the text is sheet-qualified, `$` removed -/
def resolve (cx : RefCtx) (t : Str) : Resolved :=
  createN cx (t.filter (· ≠ '$')) (if '!' ∈ t then [] else cx.sheet)

/-! ## 2. emission of the reference-bearing forms -/

def nmRow : Str := ['r', 'o', 'w']
def nmColumn : Str := ['c', 'o', 'l', 'u', 'm', 'n']
def nmOffset : Str := ['o', 'f', 'f', 's', 'e', 't']
def nmIndirect : Str := ['i', 'n', 'd', 'i', 'r', 'e', 'c', 't']
def nmSubtotal : Str := ['s', 'u', 'b', 't', 'o', 't', 'a', 'l']
def nmArray : Str := ['a', 'r', 'r', 'a', 'y']
def nmArrayRow : Str := ['a', 'r', 'r', 'a', 'y', 'r', 'o', 'w']
def nmNameErr : Str := ['#', 'N', 'A', 'M', 'E', '?']

/-- `template.format(address)` -/
def emitAddr (a : Addr.Addr) : List PyTok :=
  [.name (if a.isRange then nmR else nmC), .lpar, .str a.address, .rpar]

/-- `', '.join(self._emit(value=str(addr)) for addr in address)` -/
def emitAreas : List Addr.Addr → List PyTok
  | [] => []
  | [a] => emitAddr a
  | a :: as => emitAddr a ++ .comma :: emitAreas as

def emitResolved : Resolved → List PyTok
  | .one a => emitAddr a
  | .multi as => emitAreas as
  | .nameErr => [.str nmNameErr]
  | .raise => []

/-- `address[10:-2]` when the text starts with `_REF_(str(` -/
def stripRefStr (ts : List PyTok) : List PyTok :=
  match ts with
  | .name a :: .lpar :: .name b :: .lpar :: rest =>
    if a = nmREF ∧ b = nmStr then rest.dropLast.dropLast else ts
  | _ => ts

/-- `cell.address` of the formula's own cell (`ROW()` / `COLUMN()` without argument) -/
def ownAddr (cx : RefCtx) : Addr.Addr := ⟨false, ⟨cx.sheet, cx.col, cx.row, cx.col, cx.row⟩⟩

/-- `.split(')', 1)[1]` at token level: everything after the first `)` -/
def afterFirstRpar : List PyTok → List PyTok
  | [] => []
  | .rpar :: rest => rest
  | _ :: rest => afterFirstRpar rest

/-- `coerce_to_number(children[0].emit)` for an all-digit literal, then the SUBTOTAL_FUNCS lookup (± 100) -/
def subtotalName (e : Expr) : Option Str :=
  match e with
  | .operand (.number t) =>
    if t.all Formula.isDigit ∧ t ≠ [] then
      let n := Addr.decVal t
      match Gen.subtotalFuncs n with
      | some s => some s.toList
      | none => if 100 ≤ n then (Gen.subtotalFuncs (n - 100)).map String.toList else none
    else none
  | _ => none

def quoteTok (s : Str) : PyTok := .str s

/-- func_indirect: `True` is appended when there is exactly one argument, then the cell's sheet -/
def indirectTail (cx : RefCtx) (nargs : Nat) : List PyTok :=
  if nargs = 0 then [quoteTok cx.sheet]
  else if nargs = 1 then [.comma, .name nmTrue, .comma, quoteTok cx.sheet]
  else [.comma, quoteTok cx.sheet]

mutual
/-- `node.emit` with the reference handlers; `ctx` is the parent context as in C02's `emitE` -/
def emitN (cx : RefCtx) (ctx : Ctx) : Expr → List PyTok
  | .operand (.range t) => emitResolved (resolve cx t)
  | .operand o => emitOperand true o
  | .neg e =>
    let s := .op .sub :: emitN cx (.opChild false) e
    if ctx = .opChild true then .lpar :: s ++ [.rpar] else s
  | .pct e => wrap ctx (emitN cx (.opChild false) e ++ [.op .div, .num ['1', '0', '0']])
  | .bin op l r =>
    let a := emitN cx (.opChild (op = .pow)) l
    let b := emitN cx (.opChild false) r
    match op with
    | .comma => wrap ctx (a ++ .comma :: b)
    | .colon | .space =>
      wrap ctx (.name nmR :: .lpar :: .name nmStr :: .lpar :: refify (a ++ .op op.pyOp :: b) ++ [.rpar, .rpar])
    | _ => wrap ctx (a ++ .op op.pyOp :: b)
  | .func name args =>
    let f := pyFuncBase name
    if f = nmPi then [.name nmPi]
    else if f = ['t', 'r', 'u', 'e'] then [.name nmTrue]
    else if f = ['f', 'a', 'l', 's', 'e'] then [.name nmFalse]
    else if f = nmArray then .lpar :: emitRowsN cx args ++ [.comma, .rpar]
    else if f = nmArrayRow then emitArgsN cx args
    else if f = nmRow ∨ f = nmColumn then .name f :: .lpar :: buildRefN cx args ++ [.rpar]
    else if f = nmOffset then
      .name f :: .lpar :: buildRefN cx args ++ afterFirstRpar (emitArgsN cx args) ++ [.rpar]
    else if f = nmIndirect then
      .name f :: .lpar :: emitArgsN cx args ++ indirectTail cx args.length ++ [.rpar]
    else if f = nmSubtotal then emitSubtotalN cx args
    else .name (pyFuncName name) :: .lpar :: emitArgsN cx args ++ [.rpar]
/-- func_subtotal: the function chosen at compile time from the first argument, applied to the others -/
def emitSubtotalN (cx : RefCtx) : List Expr → List PyTok
  | [] => []
  | a :: rest => .name ((subtotalName a).getD []) :: .lpar :: emitArgsN cx rest ++ [.rpar]
/-- `_build_reference` -/
def buildRefN (cx : RefCtx) : List Expr → List PyTok
  | [] => emitAddr (ownAddr cx) |> refify
  | e :: _ => stripRefStr (refify (emitN cx .funcArg e))
def emitArgsN (cx : RefCtx) : List Expr → List PyTok
  | [] => []
  | e :: es => emitN cx .funcArg e ++ emitRestN cx es
def emitRestN (cx : RefCtx) : List Expr → List PyTok
  | [] => []
  | e :: es => .comma :: emitN cx .funcArg e ++ emitRestN cx es
def emitRowsN (cx : RefCtx) : List Expr → List PyTok
  | [] => []
  | e :: es => .lpar :: emitN cx .funcArg e ++ [.comma, .rpar] ++ emitRowsRestN cx es
def emitRowsRestN (cx : RefCtx) : List Expr → List PyTok
  | [] => []
  | e :: es => .comma :: .lpar :: emitN cx .funcArg e ++ [.comma, .rpar] ++ emitRowsRestN cx es
end

/-- `python_code` of a formula in the cell described by `cx` -/
def emit (cx : RefCtx) (e : Expr) : List PyTok := emitN cx .root e

mutual
/-- the compile succeeds in the model's fragment: every reference resolves without an exception other than
    ValueError, OFFSET/SUBTOTAL have the argument shapes their handlers need -/
def emitOk (cx : RefCtx) : Expr → Bool
  | .operand (.range t) => match resolve cx t with | .raise => false | _ => true
  | .operand _ => true
  | .neg e => emitOk cx e
  | .pct e => emitOk cx e
  | .bin _ l r => emitOk cx l && emitOk cx r
  | .func name args =>
    let f := pyFuncBase name
    emitOkList cx args &&
      (if f = nmOffset then (emitArgsN cx args).contains .rpar
       else if f = nmSubtotal then (args.head?.bind subtotalName).isSome
       else f ≠ ['m', 'a', 'p'])
def emitOkList (cx : RefCtx) : List Expr → Bool
  | [] => true
  | e :: es => emitOk cx e && emitOkList cx es
end

/-! ## 3. the scanner: ExcelFormula.needed_addresses -/

def opText : PyOp → Str
  | .pow => ['*', '*'] | .mul => ['*'] | .div => ['/'] | .add => ['+'] | .sub => ['-'] | .bitand => ['&']
  | .eq => ['=', '='] | .ne => ['!', '='] | .lt => ['<'] | .gt => ['>'] | .le => ['<', '='] | .ge => ['>', '=']

/-- `token.string` -/
def tokText : PyTok → Str
  | .name s => s
  | .num s => s
  | .str b => '"' :: b ++ ['"']
  | .op o => opText o
  | .lpar => ['('] | .rpar => [')'] | .comma => [',']

/-- the test at one position `i`: `t.type == NAME and t.string in ADDR_FUNCS_NAMES and tokens[i+1].string == '('
    and tokens[i+3].string == ')'`; the answer is `tokens[i+2].string[1:-1]` -/
def matchAt : List PyTok → Option Str
  | .name n :: t1 :: t2 :: t3 :: _ =>
    if n ∈ Gen.scanNames ∧ tokText t1 = ['('] ∧ tokText t3 = [')'] then some ((tokText t2).tail.dropLast) else none
  | _ => none

/-- all positions, left to right -/
def scan : List PyTok → List Str
  | [] => []
  | t :: ts =>
    match matchAt (t :: ts) with
    | some s => s :: scan ts
    | none => scan ts

/-- `uniqueify` (first occurrences, order kept) -/
def uniq [DecidableEq α] : List α → List α
  | [] => []
  | x :: xs => x :: (uniq xs).filter (· ≠ x)

/-- the text → address step of `needed_addresses`: `AddressRange(text)` -/
def parseRef (s : Str) : Option Addr.Operand :=
  match Addr.create s [] none with
  | .ok (.addr a) => some (.addr a)
  | .ok (.code c) => some (.err c)
  | .error _ => none

/-- `formula.needed_addresses` as printed addresses (`none` = the constructor raised) -/
def needed (cx : RefCtx) (e : Expr) : List (Option Str) :=
  uniq ((scan (emit cx e)).map fun s =>
    match parseRef s with
    | some (.addr a) => some a.address
    | _ => none)

/-! ## 4. which cells an address denotes -/

/-- `c` is one of the cells the rectangle denotes; a bound 0 is the `None` of an unbounded row / column range
    (`A:A`, `1:1`) and stands for the whole extent of the sheet -/
def Covers (d : Addr.Rect) (c : Addr.Cell) : Prop :=
  c.sheet = d.sheet ∧ (d.r1 = 0 ∨ d.r2 = 0 ∨ (d.r1 ≤ c.row ∧ c.row ≤ d.r2)) ∧
    (d.c1 = 0 ∨ d.c2 = 0 ∨ (d.c1 ≤ c.col ∧ c.col ≤ d.c2))

instance (d : Addr.Rect) (c : Addr.Cell) : Decidable (Covers d c) := by unfold Covers; infer_instance

/-- the cells denoted by an address text of the emitted code -/
def CoversStr (s : Str) (c : Addr.Cell) : Prop :=
  match parseRef s with
  | some (.addr a) => Covers a.rect c
  | _ => False

/-! ## 5. run-time trace of the emitted code -/

/-- one call of `_C_` / `_R_` made by the compiled formula -/
inductive Read where
  /-- `_C_("s")` -/
  | cell (s : Str)
  /-- `_R_("s")` with a literal argument -/
  | range (s : Str)
  /-- `_R_(str(x & y))`: the argument is the address computed at run time -/
  | computed (a : Addr.Addr)
  deriving Repr

def Read.Covers : Read → Addr.Cell → Prop
  | .cell s, c => CoversStr s c
  | .range s, c => CoversStr s c
  | .computed a, c => Needed.Covers a.rect c

/-- run-time semantics the trace is parametrised over: the environment (`cell`, `range`: what `_C_` / `_R_` return)
    and the operator / library semantics, each of which may raise (`none`) -/
structure Sem (V : Type) where
  cell : Str → V
  range : Str → V
  /-- `_R_` of an error code returns the code -/
  errv : Str → V
  lit : Operand → V
  neg : V → Option V
  pct : V → Option V
  bin : InOp → V → V → Option V
  tuple : List V → V
  call : Str → List V → Option V
  /-- ROW / COLUMN of a reference (their parameter 0 stays a reference: `ref_params=0`) -/
  refFn : Str → Option Addr.Operand → Option V

/-- the reference value of a reference expression under `refify`: `_REF_("s")` = `AddressRange.create(s)`,
    `x & y` = intersection, nested `_REF_(str(x & y))` re-reads the printed result -/
def refVal (cx : RefCtx) : Expr → Option Addr.Operand
  | .operand (.range t) =>
    match resolve cx t with
    | .one a => parseRef a.address
    | _ => none
  | .bin .space l r =>
    match refVal cx l, refVal cx r with
    | some x, some y =>
      match Addr.Operand.combine true x y with
      | .ok z => some z
      | .error _ => none
    | _, _ => none
  | _ => none

def readOf (a : Addr.Addr) : Read := if a.isRange then .range a.address else .cell a.address
def valOf (sem : Sem V) (a : Addr.Addr) : V := if a.isRange then sem.range a.address else sem.cell a.address

mutual
/-- evaluation of the emitted code of `e`: the values it contributes to the enclosing argument list (a multi-area
    name contributes one per area; `none` = an exception ended the evaluation) and the `_C_`/`_R_` calls made, in
    order.  Python evaluates every operand and every argument before the call, left to right. -/
def evalT (cx : RefCtx) (sem : Sem V) : Expr → Option (List V) × List Read
  | .operand (.range t) =>
    match resolve cx t with
    | .one a => (some [valOf sem a], [readOf a])
    | .multi as => (some (as.map (valOf sem)), as.map readOf)
    | .nameErr => (some [sem.lit (.error .name)], [])
    | .raise => (none, [])
  | .operand o => (some [sem.lit o], [])
  | .neg e =>
    match evalT cx sem e with
    | (some [v], t) => ((sem.neg v).map ([·]), t)
    | (_, t) => (none, t)
  | .pct e =>
    match evalT cx sem e with
    | (some [v], t) => ((sem.pct v).map ([·]), t)
    | (_, t) => (none, t)
  | .bin .space l r =>
    match refVal cx (.bin .space l r) with
    | some (.addr a) => (some [sem.range a.address], [.computed a])
    | some (.err c) => (some [sem.errv c], [])
    | none => (none, [])
  | .bin .colon _ _ => (none, [])          -- union with computed operands: outside the written references
  | .bin op l r =>
    match evalT cx sem l with
    | (some [a], ta) =>
      match evalT cx sem r with
      | (some [b], tb) =>
        (if op = .comma then some [sem.tuple [a, b]] else (sem.bin op a b).map ([·]), ta ++ tb)
      | (_, tb) => (none, ta ++ tb)
    | (_, ta) => (none, ta)
  | .func name args =>
    let f := pyFuncBase name
    if f = nmRow ∨ f = nmColumn then
      match args.head? with
      | none => ((sem.refFn f (some (.addr (ownAddr cx)))).map ([·]), [])
      | some e => ((sem.refFn f (refVal cx e)).map ([·]), [])
    else
      match evalArgs cx sem args with
      | (some vs, t) => ((sem.call (pyFuncName name) vs).map ([·]), t)
      | (none, t) => (none, t)
def evalArgs (cx : RefCtx) (sem : Sem V) : List Expr → Option (List V) × List Read
  | [] => (some [], [])
  | e :: es =>
    match evalT cx sem e with
    | (some vs, t) =>
      match evalArgs cx sem es with
      | (some ws, u) => (some (vs ++ ws), t ++ u)
      | (none, u) => (none, t ++ u)
    | (none, t) => (none, t)
end

/-- the addresses passed to `_C_` / `_R_` while the emitted code of `e` runs in the environment `sem` -/
def reads (cx : RefCtx) (sem : Sem V) (e : Expr) : List Read := (evalT cx sem e).2

/-! ## 6. written (non-computed) references -/

/-- the address text survives the TEXTUAL `.replace('_R_', '_REF_').replace('_C_', '_REF_')` that the reference operators
    and `_build_reference` apply to the emitted code of their operands (C02's `refify` follows the code: the replacement
    also runs inside the string literal, so a sheet named `My_R_S` is emitted as `My_REF_S` there).  True of every
    address whose sheet name does not contain `_R_` / `_C_`. -/
def refixed (s : Str) : Bool := replaceRC s = s

/-- a reference operand under `refify`: a range text that resolves to one address whose text the textual replacement
    leaves alone and which reads back from its printed form as an address object on a named sheet, or an intersection
    of such -/
def refOperand (cx : RefCtx) : Expr → Bool
  | .operand (.range t) =>
    match resolve cx t with
    | .one a =>
      refixed a.address &&
      match parseRef a.address with
      | some (.addr b) => b.rect.sheet ≠ [] && (b.isRange || (b.rect.c1 = b.rect.c2 && b.rect.r1 = b.rect.r2))
      | _ => false
    | _ => false
  | .bin .space l r => refOperand cx l && refOperand cx r
  | _ => false

mutual
/-- the formulas the property speaks about: every reference is written in the formula text — plain, sheet-qualified,
    absolute, range, multi-colon, defined name, intersections of those, ROW/COLUMN of those, unions by `,` — and
    nothing computes an address at run time (no `:` operator on a computed operand, no OFFSET / INDIRECT) -/
def written (cx : RefCtx) : Expr → Bool
  | .operand (.range t) => match resolve cx t with | .one _ => true | .nameErr => true | _ => false
  | .operand _ => true
  | .neg e => written cx e
  | .pct e => written cx e
  | .bin .colon _ _ => false
  | .bin .space l r => refOperand cx l && refOperand cx r
  | .bin _ l r => written cx l && written cx r
  | .func name args =>
    let f := pyFuncBase name
    if f = nmOffset ∨ f = nmIndirect ∨ f = nmSubtotal ∨ f = nmPi ∨ f = ['t', 'r', 'u', 'e'] ∨ f = ['f', 'a', 'l', 's', 'e']
    then false
    else if f = nmRow ∨ f = nmColumn then
      args.length ≤ 1 && args.all (refOperand cx) && (!args.isEmpty || refixed (ownAddr cx).address)
    else writtenArgs cx args
/-- arguments: as `written`, and additionally a multi-area defined name may stand as an argument of its own -/
def writtenArgs (cx : RefCtx) : List Expr → Bool
  | [] => true
  | e :: es =>
    (match e with
     | .operand (.range t) => (match resolve cx t with | .raise => false | _ => true)
     | _ => written cx e) && writtenArgs cx es
end

mutual
/-- the address texts emitted for the references written in `e` -/
def refsEmitted (cx : RefCtx) : Expr → List Str
  | .operand (.range t) =>
    match resolve cx t with
    | .one a => [a.address]
    | .multi as => as.map (·.address)
    | _ => []
  | .operand _ => []
  | .neg e => refsEmitted cx e
  | .pct e => refsEmitted cx e
  | .bin _ l r => refsEmitted cx l ++ refsEmitted cx r
  | .func name args =>
    let f := pyFuncBase name
    if f = nmRow ∨ f = nmColumn then refsEmittedHead cx args
    else refsEmittedArgs cx args
/-- the reference ROW / COLUMN emit: their first argument, or the formula's own cell -/
def refsEmittedHead (cx : RefCtx) : List Expr → List Str
  | [] => [(ownAddr cx).address]
  | e :: _ => refsEmitted cx e
def refsEmittedArgs (cx : RefCtx) : List Expr → List Str
  | [] => []
  | e :: es => refsEmitted cx e ++ refsEmittedArgs cx es
end

/-! ## 7. graph construction: `_make_cells` / `_process_gen_graph` -/

/-- the workbook as the graph builder sees it; `N` = node (an address in `cell_map`) -/
structure Book (N : Type) where
  /-- `dependant.needed_addresses`: formula cell → scan of its code; range node → its member cells;
      reference cell of an unbounded range → the bounded range; value cell → [] -/
  needed : N → List N
  /-- `isinstance(node, _CellRange) or node.formula`: the node has precedents and is queued for edges -/
  hasPrec : N → Bool
  /-- nodes `_make_cells(a)` builds along with `a` (members of a range, the bounded range behind an unbounded one) -/
  parts : N → List N

structure GState (N : Type) where
  cellMap : List N
  todos : List N
  edges : List (N × N)

variable {N : Type} [DecidableEq N]

/-- `_make_cells(a)` (with the recursive `_make_cells` of `build_range`), fuel-structural -/
def makeCells (bk : Book N) : Nat → N → GState N → GState N
  | 0, _, s => s
  | f + 1, a, s =>
    if a ∈ s.cellMap then s else
    let s1 : GState N := { s with cellMap := a :: s.cellMap,
                                  todos := if bk.hasPrec a then a :: s.todos else s.todos }
    (bk.parts a).foldl (fun st p => makeCells bk f p st) s1

/-- one iteration of `while self.graph_todos:`: pop a dependant, build its missing precedents, add its edges -/
def genStep (bk : Book N) (fuel : Nat) (s : GState N) : GState N :=
  match s.todos with
  | [] => s
  | d :: rest =>
    (bk.needed d).foldl
      (fun st p =>
        let st' := makeCells bk fuel p st
        { st' with edges := (p, d) :: st'.edges })
      { s with todos := rest }

/-- `_process_gen_graph`, at most `n` iterations -/
def genLoop (bk : Book N) (fuel : Nat) : Nat → GState N → GState N
  | 0, s => s
  | n + 1, s => if s.todos = [] then s else genLoop bk fuel n (genStep bk fuel s)

/-- `_gen_graph(seed)` from an empty compiler -/
def genGraph (bk : Book N) (fuel n : Nat) (seed : N) : GState N :=
  genLoop bk fuel n (makeCells bk fuel seed ⟨[], [], []⟩)

/-- `b` is reachable from `a` along precedent → dependant edges (`a ∈ networkx.ancestors(b)` or `a = b`) -/
inductive Reach (edges : List (N × N)) : N → N → Prop where
  | refl (a : N) : Reach edges a a
  | step {a b c : N} : (a, b) ∈ edges → Reach edges b c → Reach edges a c

end Pycel.Needed

/-
  Model of src/pycel/lib/engineering.py:25-92  (_base2dec, _dec2base, _base2base) on scalar arguments.
  Property-driven points (the model follows property C18, not Python's `int(s, base)` grammar):
    * a digit string is accepted iff every character is a digit of the base (hex: either case);
      no whitespace, sign, underscore or 0b/0o/0x prefix;
    * `places` that is not an integer-like value yields #VALUE! (never an exception).
  Everything else follows the code line by line.
-/
import Pycel.Model.Value
import Pycel.Generated.Consts
namespace Pycel.Radix
open Pycel

/-- value of a digit character in `base` (2, 8, 16); `none` when outside the alphabet -/
def digitVal? (base : Nat) (c : Char) : Option Nat :=
  let n := c.toNat
  let d : Option Nat :=
    if 48 ≤ n ∧ n ≤ 57 then some (n - 48)
    else if 65 ≤ n ∧ n ≤ 70 then some (n - 55)
    else if 97 ≤ n ∧ n ≤ 102 then some (n - 87)
    else none
  match d with
  | some v => if v < base then some v else none
  | none => none

/-- upper-case digit character of `d < 16` -/
def digitChar (d : Nat) : Char :=
  if d < 10 then Char.ofNat (48 + d) else Char.ofNat (55 + d)

/-- most-significant-first value of a digit string; `none` if any character is illegal -/
def ofDigits? (base : Nat) : List Char → Nat → Option Nat
  | [], acc => some acc
  | c :: cs, acc => match digitVal? base c with
    | some d => ofDigits? base cs (acc * base + d)
    | none => none

/-- exactly `k` digits of `n % base^k`, most significant first -/
def digitsK (base : Nat) : Nat → Nat → List Nat
  | 0, _ => []
  | k+1, n => digitsK base k (n / base) ++ [n % base]

def stripZeros : List Nat → List Nat
  | 0 :: (d :: ds) => stripZeros (d :: ds)
  | ds => ds

/-- `bin(n)[2:].upper()` etc. for `0 ≤ n < base^10` -/
def render (base n : Nat) : List Char :=
  (stripZeros (digitsK base 10 n)).map digitChar

def zfill (places : Nat) (s : List Char) : List Char :=
  List.replicate (places - s.length) '0' ++ s

def mask (base : Nat) : Nat := Gen.sizeMask base

/-- text of a non-negative integer in decimal: `str(int(value))` -/
def natRepr (n : Nat) : List Char := (Nat.toDigits 10 n)

/-- `_base2dec(value, base)` on one scalar -/
def base2dec (v : Val) (base : Nat) : Val :=
  match v with
  | .bool _ => .err .value
  | .err e => .err e
  | _ =>
    let text? : Option (List Char) :=
      match v with
      | .blank => some ['0']
      | .str s => if s.isEmpty then none else some s   -- int('') raises ValueError
      | .num q => if 0 ≤ q ∧ q.den = 1 then some (natRepr q.num.toNat) else none
      | _ => none
    match text? with
    | none => .err .num
    | some s =>
      if s.length ≤ 10 then
        match ofDigits? base s 0 with
        | some n =>
            -- (value & ~mask) - (value & mask) with mask a single bit
            let m := mask base
            let bit := (n / m) % 2
            .num (((n : Int) - 2 * (bit * m : Nat) : Int) : Rat)
        | none => .err .num
      else .err .num

/-- Python `int(str)` in base 10: optional surrounding ASCII whitespace, optional sign, digits with single
    underscores between digits.  (Follows the code: the property does not speak about decimal text input.) -/
def isWs (c : Char) : Bool := c = ' ' ∨ c = '\t' ∨ c = '\n' ∨ c = '\r' ∨ c.toNat = 11 ∨ c.toNat = 12

def decDigits? : List Char → Nat → Bool → Option Nat
  | [], acc, lastDigit => if lastDigit then some acc else none
  | c :: cs, acc, lastDigit =>
    if c.isDigit then decDigits? cs (acc * 10 + (c.toNat - 48)) true
    else if c = '_' ∧ lastDigit ∧ !cs.isEmpty then decDigits? cs acc false
    else none

def pyInt10? (s : List Char) : Option Int :=
  let s := (s.dropWhile isWs).reverse.dropWhile isWs |>.reverse
  match s with
  | '-' :: ds => (decDigits? ds 0 false).map fun n => - (n : Int)
  | '+' :: ds => (decDigits? ds 0 false).map fun n => (n : Int)
  | ds => (decDigits? ds 0 false).map fun n => (n : Int)

/-- Python `int(x)` for the scalar kinds that reach `_dec2base`; `none` = ValueError -/
def pyInt? : Val → Option Int
  | .num q => some (if q ≥ 0 then q.floor else - (-q).floor)   -- truncation toward zero
  | .str s => pyInt10? s
  | _ => none

/-- `places` argument: `none` = omitted -/
def placesOf? : Option Val → Option (Option Int)        -- outer none = #VALUE!
  | none => some none
  | some .blank => some none                -- a blank cell arrives as Python None = omitted
  | some (.bool b) => some (some (if b then 1 else 0))
  | some v => match pyInt? v with
    | some i => some (some i)
    | none => none

/-- `_dec2base(value, places, base)` on scalars -/
def dec2base (v : Val) (places : Option Val) (base : Nat) : Val :=
  match v with
  | .bool _ => .err .value
  | .err e => .err e
  | _ =>
    let emptyish : Bool := match v with | .blank => true | _ => false
    if emptyish && base == 8 then .err .num else
    let i? : Option Int := if emptyish then some 0 else pyInt? v
    match i? with
    | none => .err .value
    | some i =>
      let m : Int := mask base
      if ¬ (-m ≤ i ∧ i < m) then .err .num else
      let n : Nat := (if i < 0 then i + 2 * m else i).toNat
      let s := render base n
      match places with
      | some (.err e) => .err e
      | _ =>
      match placesOf? places with
      | none => .err .value
      | some none => .str s
      | some (some p) =>
        if p < s.length then .err .num else .str (zfill p.toNat s)

/-- `_base2base(value, places, base_in, base_out)` -/
def base2base (v : Val) (places : Option Val) (baseIn baseOut : Nat) : Val :=
  match v with
  | .blank =>
    if baseOut = 10 ∨ baseIn ≠ 2 then dec2base (base2dec (.num 0) baseIn) places baseOut
    else .err .num
  | _ => dec2base (base2dec v baseIn) places baseOut

end Pycel.Radix

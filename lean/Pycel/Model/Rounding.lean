/-
  Model of the rounding family of src/pycel/excellib.py on scalar arguments:
    round_ (274-289), _round / rounddown / roundup (292-309), trunc (401-406), int_ (241-245), mod (130-134 …),
    ceiling / ceiling_math / ceiling_precise (76-113), floor / floor_math / floor_precise (159-227), even, odd,
  together with the `excel_math_func` argument handling (error strings first, then coerce_to_number, then #VALUE!).

  Numbers are exact rationals.  A number that reaches these functions as a Python float stands for the DECIMAL its
  shortest repr shows (this is what `Decimal(repr(number))` in the code reads), so the harness sends that decimal.

  Property-driven points (the model follows property C19, not the float arithmetic of the code):
    * every result is the exact decimal result (the implementation's float must be the float nearest to it);
    * ROUND with negative digits rounds ties away from zero (the code used builtin `round`: banker's rounding);
    * TRUNC is ROUNDDOWN (the code scaled by a float power of ten);
    * CEILING/FLOOR families and MOD are computed exactly (the code divides/multiplies floats).
  Everything else (branch order, error values, `int(num_digits)` truncation, mode flag) follows the code; the default
  arguments and the `excel_math_func` wrapping come from Generated/RoundingMeta.lean (live signatures / metadata).
-/
import Pycel.Model.Value
import Pycel.Generated.RoundingMeta
namespace Pycel.Rounding
open Pycel

/-- `10^-d`: the unit of the decimal place `d` (d = 2 ↦ 0.01, d = -1 ↦ 10) -/
def unit (d : Int) : Rat := (10 : Rat) ^ (-d)

def rabs (x : Rat) : Rat := if 0 ≤ x then x else -x

/-- `math.copysign(r, x)` for r ≥ 0 where x = 0 counts as positive (an integral float reaches the code as int 0) -/
def withSign (x r : Rat) : Rat := if 0 ≤ x then r else -r

/-- nearest multiple of `u`, ties away from zero (Decimal.quantize ROUND_HALF_UP) -/
def roundHalfAway (u x : Rat) : Rat := withSign x ((((rabs x + u / 2) / u).floor : Rat) * u)

/-- multiple of `u` toward zero (Decimal.quantize ROUND_DOWN) -/
def roundDown (u x : Rat) : Rat := withSign x (((rabs x / u).floor : Rat) * u)

/-- multiple of `u` away from zero (Decimal.quantize ROUND_UP) -/
def roundUp (u x : Rat) : Rat := withSign x (((rabs x / u).ceil : Rat) * u)

/-- Python `int(q)`: truncation toward zero -/
def pyTrunc (q : Rat) : Int := if 0 ≤ q then q.floor else q.ceil

def round_ (x d : Rat) : Rat := roundHalfAway (unit (pyTrunc d)) x
def rounddown (x d : Rat) : Rat := roundDown (unit (pyTrunc d)) x
def roundup (x d : Rat) : Rat := roundUp (unit (pyTrunc d)) x
def trunc (x d : Rat) : Rat := roundDown (unit (pyTrunc d)) x
def int_ (x : Rat) : Rat := (x.floor : Rat)

/-- Python `number % divisor` (floored), `#DIV/0!` on a zero divisor -/
def mod (n d : Rat) : Val :=
  if d = 0 then .err .div0 else .num (n - d * ((n / d).floor : Rat))

def ceiling (n s : Rat) : Val :=
  if s < 0 ∧ 0 < n then .err .num
  else if n = 0 ∨ s = 0 then .num 0
  else if n < 0 ∧ 0 < s then .num (s * (pyTrunc (n / s) : Rat))
  else .num (s * ((n / s).ceil : Rat))

def floor (n s : Rat) : Val :=
  if s < 0 ∧ 0 < n then .err .num
  else if n = 0 then .num 0
  else if s = 0 then .err .div0
  else .num (s * ((n / s).floor : Rat))

/-- the signed significance used by the .MATH variants: |s|, negated when `mode` is set and the number negative -/
def mathSig (n s mode : Rat) : Rat := if mode ≠ 0 ∧ n < 0 then -(rabs s) else rabs s

def ceilingMath (n s mode : Rat) : Rat :=
  if s = 0 then 0 else mathSig n s mode * ((n / mathSig n s mode).ceil : Rat)

def floorMath (n s mode : Rat) : Rat :=
  if s = 0 then 0 else mathSig n s mode * ((n / mathSig n s mode).floor : Rat)

def ceilingPrecise (n s : Rat) : Rat := if s = 0 then 0 else rabs s * ((n / rabs s).ceil : Rat)
def floorPrecise (n s : Rat) : Rat := if s = 0 then 0 else rabs s * ((n / rabs s).floor : Rat)

def even (x : Rat) : Rat := withSign x (((rabs x / 2).ceil : Rat) * 2)
def odd (x : Rat) : Rat := withSign x ((((rabs x - 1) / 2).ceil : Rat) * 2 + 1)

/-! ### argument handling of `excel_math_func` (scalars) -/

def upperAscii (c : Char) : Char := if 'a' ≤ c ∧ c ≤ 'z' then Char.ofNat (c.toNat - 32) else c

/-- `coerce_to_number(v, convert_all=True)` followed by the `is_number` test of `nums_wrapper`.
    Text: only 'TRUE', 'FALSE' (any case) and the internal '#EMPTY!' marker are numbers; '' and other text is
    #VALUE!; numeric text (read by Python's `float`) is outside the model and is not generated. -/
def toNumber? : Val → Option Rat
  | .num q => some q
  | .bool b => some (if b then 1 else 0)
  | .blank => some 0
  | .str s =>
    let u := s.map upperAscii
    if u = "#EMPTY!".toList then some 0
    else if u = "TRUE".toList then some 1
    else if u = "FALSE".toList then some 0
    else none
  | .err _ => none

def firstErr : List Val → Option Err
  | [] => none
  | .err e :: _ => some e
  | _ :: vs => firstErr vs

def allNumbers? : List Val → Option (List Rat)
  | [] => some []
  | v :: vs => match toNumber? v, allNumbers? vs with
    | some q, some qs => some (q :: qs)
    | _, _ => none

/-- (required parameter count, defaults of the optional parameters, is an `excel_math_func`) from the live signatures -/
def metaOf (fn : String) : Option (Nat × List Int × Bool) :=
  (Gen.RoundingMeta.table.find? (fun r => r.1 == fn)).map (·.2)

/-- fill the omitted optional parameters with the signature's defaults -/
def padArgs (fn : String) (qs : List Rat) : Option (List Rat) :=
  match metaOf fn with
  | some (req, defs, true) =>
    if qs.length < req ∨ req + defs.length < qs.length then none
    else some (qs ++ (defs.drop (qs.length - req)).map (fun (i : Int) => (i : Rat)))
  | _ => none

/-- the function bodies on a full argument list -/
def apply (name : String) (qs : List Rat) : Option Val :=
  match name, qs with
  | "round", [x, d] => some (.num (round_ x d))
  | "roundup", [x, d] => some (.num (roundup x d))
  | "rounddown", [x, d] => some (.num (rounddown x d))
  | "trunc", [x, d] => some (.num (trunc x d))
  | "int", [x] => some (.num (int_ x))
  | "mod", [n, d] => some (mod n d)
  | "ceiling", [n, s] => some (ceiling n s)
  | "floor", [n, s] => some (floor n s)
  | "ceiling_math", [n, s, m] => some (.num (ceilingMath n s m))
  | "floor_math", [n, s, m] => some (.num (floorMath n s m))
  | "ceiling_precise", [n, s] => some (.num (ceilingPrecise n s))
  | "floor_precise", [n, s] => some (.num (floorPrecise n s))
  | "even", [x] => some (.num (even x))
  | "odd", [x] => some (.num (odd x))
  | _, _ => none

/-- the wrapped function as a formula calls it (`excel_math_func`): the first error operand wins, then `#VALUE!` for a
    non-number, then the body with the defaults filled in -/
def call (name : String) (args : List Val) : Option Val :=
  match firstErr args with
  | some e => some (.err e)
  | none =>
    match allNumbers? args with
    | none => some (.err .value)
    | some qs => (padArgs name qs).bind (apply name)

end Pycel.Rounding

/-
  Model of src/pycel/lib/date_time.py on numeric arguments: the proleptic Gregorian calendar exactly as CPython's
  `datetime` computes it (`_ymd2ord`, `_ord2ymd`), the 1900 quirks of `date_from_int` (75-89), `DATE` (395-419) with
  `normalize_year` (130-149), `months_inc` = EDATE/EOMONTH (481-508), WEEKDAY, YEAR/MONTH/DAY (`serial_number_wrapper`),
  `time_from_serialnumber` (103-109) in exact rational arithmetic, and the YEARFRAC bases (152-197, 651-698).

  Property-driven points (the model follows property C17, not the code, where the statement fixes the behaviour):
    * "DATE normalises out-of-range months/days by carrying": day carrying is exact ordinal arithmetic in Excel's 1900
      calendar for EVERY integer day (the code's `normalize_year` adds the length of the wrong month for days ≤ 0);
    * "EDATE shifts by whole months": the result lies in the shifted month (a day past its end is clamped to the end);
    * "EOMONTH returns a month's last day" for every month 1900-01 … 9999-12;
    * "decompose the fraction of a day to the nearest second": a seconds value that rounds to 60 carries into the
      minute (and the minute into the hour);
    * "Out-of-range results are #NUM!, never an exception": serials ≥ DATE_MAX_INT, and DATE/EDATE/EOMONTH results
      outside 0 … DATE_MAX_INT-1, are #NUM!.
  Everything else follows the code line by line.  Import-free apart from the generated constants.
-/
import Pycel.Model.Value
import Pycel.Generated.DateConsts
namespace Pycel.DateTime
open Pycel

/-! ## Proleptic Gregorian calendar: CPython `_ymd2ord` / `_ord2ymd` -/

/-- `_is_leap(year)` -/
def isLeap (y : Int) : Bool := decide ((y % 4 = 0 ∧ y % 100 ≠ 0) ∨ y % 400 = 0)

/-- `_days_before_year(year)` -/
def daysBeforeYear (y : Int) : Int := 365 * (y - 1) + (y - 1) / 4 - (y - 1) / 100 + (y - 1) / 400

/-- `_days_before_month(year, month)` with the leap flag of the year -/
def dbm (leap : Bool) (m : Nat) : Nat := Gen.daysBeforeMonth m + (if 2 < m ∧ leap then 1 else 0)

/-- `_days_in_month(year, month)` with the leap flag of the year -/
def dim (leap : Bool) (m : Nat) : Nat := Gen.daysInMonth m + (if m = 2 ∧ leap then 1 else 0)

/-- `_ymd2ord(year, month, day)`: 0001-01-01 is day 1 -/
def ord (y m d : Int) : Int := daysBeforeYear y + (dbm (isLeap y) m.toNat : Int) + d

/-- month and day of the 0-based day-of-year `n` (the tail of `_ord2ymd`: estimate `(n + 50) >> 5`, then correct) -/
def monthDay (leap : Bool) (n : Nat) : Nat × Nat :=
  let month := (n + 50) / 32
  let preceding := dbm leap month
  if preceding > n then (month - 1, n - (preceding - dim leap (month - 1)) + 1)
  else (month, n - preceding + 1)

/-- `_ord2ymd(n)` for every integer `n` (Python floor division = Lean `/`, `%` on `Int` with a positive divisor) -/
def ymd (n : Int) : Int × Int × Int :=
  let n0 := n - 1
  let n400 := n0 / 146097
  let r400 := n0 % 146097
  let n100 := r400 / 36524
  let r100 := r400 % 36524
  let n4 := r100 / 1461
  let r4 := r100 % 1461
  let n1 := r4 / 365
  let r1 := r4 % 365
  let year := n400 * 400 + 1 + n100 * 100 + n4 * 4 + n1
  if n1 = 4 ∨ n100 = 4 then (year - 1, 12, 31)
  else
    let leap : Bool := decide (n1 = 3 ∧ (n4 ≠ 24 ∨ n100 = 3))
    let md := monthDay leap r1.toNat
    (year, (md.1 : Int), (md.2 : Int))

/-- a (year, month, day) triple that `datetime.date` accepts (any year: the year range is checked separately) -/
def validYmd (y m d : Int) : Prop := 1 ≤ m ∧ m ≤ 12 ∧ 1 ≤ d ∧ d ≤ (dim (isLeap y) m.toNat : Int)

/-! ## Excel's 1900 calendar -/

def zeroOrd : Int := Gen.dateZeroOrd
def maxInt : Int := Gen.dateMaxInt
def leapSerial : Int := Gen.leapSerial

/-- `date_from_int(datestamp)` (the calendar arithmetic of `DATE_ZERO + timedelta(days=…)` is `ymd (zeroOrd + …)`) -/
def dateFromInt (n : Int) : Int × Int × Int :=
  if n = leapSerial then ((Gen.leapY : Int), (Gen.leapM : Int), (Gen.leapD : Int))
  else if n = 0 then (1900, 1, 0)
  else if n < leapSerial then ymd (zeroOrd + n + 1)
  else ymd (zeroOrd + n)

/-- `is_leap_year(year)`: Excel thinks 1900 is a leap year -/
def isLeapXl (y : Int) : Bool := isLeap y || decide (y = 1900)

/-- `max_days_in_month(month, year)` for a month 1..12 -/
def dimXl (y m : Int) : Int := dim (isLeapXl y) m.toNat

/-- the month carry of `normalize_year`: `y_plus = floor((m - 1) / 12)` -/
def carryMonth (y m : Int) : Int × Int := (y + (m - 1) / 12, (m - 1) % 12 + 1)

/-- `(datetime(y, m, d) - DATE_ZERO).days`, minus one up to 60 (`date`, 410-412) -/
def xlSerial (y m d : Int) : Int :=
  let s := ord y m d - zeroOrd
  if s ≤ 60 then s - 1 else s

/-- the serial `DATE(year, month, day)` stands for, before the range check: first day of the carried month in
    Excel's numbering, plus `day - 1` (property-driven: exact carrying for every integer day) -/
def dateSerial (y m d : Int) : Int :=
  let y := if y < 1900 then y + 1900 else y
  let ym := carryMonth y m
  xlSerial ym.1 ym.2 1 + (d - 1)

def inRange (r : Int) : Val := if 0 ≤ r ∧ r < maxInt then .num (r : Rat) else .err .num

/-- `DATE(year, month, day)` on integers -/
def dateFn (y m d : Int) : Val :=
  if ¬ (0 ≤ y ∧ y ≤ 9999) then .err .num else inRange (dateSerial y m d)

/-- `serial_number_wrapper` + `math.floor`: `none` = #NUM! (negative; property-driven: also ≥ DATE_MAX_INT) -/
def serialArg (x : Rat) : Option Int :=
  if x < 0 ∨ (maxInt : Rat) ≤ x then none else some x.floor

def yearFn (x : Rat) : Val := match serialArg x with
  | none => .err .num | some n => .num ((dateFromInt n).1 : Rat)
def monthFn (x : Rat) : Val := match serialArg x with
  | none => .err .num | some n => .num ((dateFromInt n).2.1 : Rat)
def dayFn (x : Rat) : Val := match serialArg x with
  | none => .err .num | some n => .num ((dateFromInt n).2.2 : Rat)

/-- `WEEKDAY(serial)` (the code implements return type 1 only: Sunday = 1 … Saturday = 7) -/
def weekdayOf (n : Int) : Int := (n - 1) % 7 + 1
def weekdayFn (x : Rat) : Val := match serialArg x with
  | none => .err .num | some n => .num (weekdayOf n : Rat)

/-- `months_inc(start_date, months, eomonth)` on integers (property-driven: a shifted month outside
    1900-01 … 9999-12 is #NUM!; EDATE clamps the day to the end of the shifted month) -/
def monthsInc (start months : Int) (eom : Bool) : Val :=
  if start < 0 ∨ maxInt ≤ start then .err .num else
  let ymd0 := dateFromInt start
  let ym := carryMonth ymd0.1 (ymd0.2.1 + months)
  if ¬ ((Gen.dateZeroY : Int) < ym.1 ∧ ym.1 ≤ 9999) then .err .num else
  let last := dimXl ym.1 ym.2
  dateFn ym.1 ym.2 (if eom then last else min ymd0.2.2 last)

def edateFn (start months : Int) : Val := monthsInc start months false
def eomonthFn (start months : Int) : Val := monthsInc start months true

/-! ## HOUR / MINUTE / SECOND: `time_from_serialnumber` in exact rational arithmetic -/

def micro : Rat := (Gen.microNum : Rat) / (Gen.microDen : Rat)
def guard : Rat := (Gen.guardNum : Rat) / (Gen.guardDen : Rat)

/-- Python `round(q, 0)`: nearest integer, ties to even -/
def roundHalfEven (q : Rat) : Int :=
  let f := q.floor
  let r := q - (f : Rat)
  if r < 1/2 then f else if 1/2 < r then f + 1 else if f % 2 = 0 then f else f + 1

/-- `time_from_serialnumber` before `hours % 24` -/
def hmsRaw (x : Rat) : Int × Int × Int :=
  let atHours := (x + micro) * 24
  let hours := atHours.floor
  let atMins := (atHours - (hours : Rat)) * 60
  let mins := atMins.floor
  let secs := (atMins - (mins : Rat)) * 60
  (hours, mins, roundHalfEven (secs - guard))

/-- property-driven: seconds that round to 60 carry into the minute, minutes into the hour -/
def hms (x : Rat) : Int × Int × Int :=
  let r := hmsRaw x
  let s := if r.2.2 = 60 then 0 else r.2.2
  let m1 := if r.2.2 = 60 then r.2.1 + 1 else r.2.1
  let m := if m1 = 60 then 0 else m1
  let h := if m1 = 60 then r.1 + 1 else r.1
  (h % 24, m, s)

/-- `time_value_wrapper` on a number -/
def hourFn (x : Rat) : Val := if x < 0 then .err .num else .num ((hms x).1 : Rat)
def minuteFn (x : Rat) : Val := if x < 0 then .err .num else .num ((hms x).2.1 : Rat)
def secondFn (x : Rat) : Val := if x < 0 then .err .num else .num ((hms x).2.2 : Rat)

/-! ## YEARFRAC -/

/-- `yearfrac_basis_0`: US 30/360 day count numerator (over 360); `calendar.monthrange` is the true Gregorian length -/
def basis0 (y1 m1 d1 y2 m2 d2 : Int) : Int :=
  let febEnd1 : Bool := decide (m1 = 2 ∧ d1 = (dim (isLeap y1) 2 : Int))
  let febEnd2 : Bool := decide (m2 = 2 ∧ d2 = (dim (isLeap y2) 2 : Int))
  let dd : Int × Int :=
    if d1 = 31 then (30, if d2 = 31 then 30 else d2)
    else if d1 = 30 ∧ d2 = 31 then (d1, 30)
    else if febEnd1 then (30, if febEnd2 then 30 else d2)
    else (d1, d2)
  (dd.2 + m2 * 30 + y2 * 360) - (dd.1 + m1 * 30 + y1 * 360)

/-- number of Excel-leap years in `y1 … y1 + k - 1` -/
def leapCount (y1 : Int) : Nat → Nat
  | 0 => 0
  | k + 1 => leapCount y1 k + (if isLeapXl (y1 + k) then 1 else 0)

/-- `yearfrac_basis_1`: actual/actual -/
def basis1 (y1 m1 d1 y2 m2 d2 : Int) : Rat :=
  let b := dateSerial y1 m1 d1
  let e := dateSerial y2 m2 d2
  let delta := e - b
  if delta ≤ 365 then
    let c : Bool := (isLeapXl y1 && decide (b ≤ dateSerial y1 2 29)) ||
                    (isLeapXl y2 && decide (e ≥ dateSerial y2 2 29)) ||
                    (isLeapXl y1 && isLeapXl y2)
    (delta : Rat) / (if c then 366 else 365)
  else
    let len := (y2 + 1 - y1).toNat
    let nb : Nat := 365 * len + leapCount y1 len
    (delta : Rat) / ((nb : Rat) / (len : Rat))

/-- `YEARFRAC(start, end, basis)` on integer serials and an integer basis -/
def yearfrac (s e basis : Int) : Val :=
  if ¬ (0 ≤ basis ∧ basis ≤ 4) then .err .num else
  if ¬ (0 ≤ s ∧ s < maxInt ∧ 0 ≤ e ∧ e < maxInt) then .err .num else
  let lo := if s > e then e else s
  let hi := if s > e then s else e
  let a := dateFromInt lo
  let b := dateFromInt hi
  if basis = 0 then .num ((basis0 a.1 a.2.1 a.2.2 b.1 b.2.1 b.2.2 : Int) / 360)
  else if basis = 1 then .num (basis1 a.1 a.2.1 a.2.2 b.1 b.2.1 b.2.2)
  else if basis = 2 then .num (((hi - lo : Int) : Rat) / 360)
  else if basis = 3 then .num (((hi - lo : Int) : Rat) / 365)
  else .num (((360 * (b.1 - a.1) + 30 * (b.2.1 - a.2.1) + (min b.2.2 30 - min a.2.2 30) : Int) : Rat) / 360)

end Pycel.DateTime

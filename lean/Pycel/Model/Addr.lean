/-
  Model of pycel's address algebra: src/pycel/excelutil.py
    116-180  AddressMixin (quote_sheet, quoted_address, abs_address, _union_instersection, `&` = intersection,
             `**` = union)
    183-493  AddressRange / AddressCell (construction from text and tuples, size, rows, cols, resolve_range,
             __contains__, inc_col / inc_row / address_at_offset)
    533-562  unquote_sheetname / split_sheetname
    702-841  range_boundaries / r1c1_boundaries (A1, `$`, R1C1 absolute and relative, multi-colon)
  and of the openpyxl helpers they call (get_column_letter, column_index_from_string, range_boundaries,
  quote_sheetname).

  The model follows the code line by line (quirks included: row 0, unbounded rows/columns stored as 0, un-normalised
  corners, the openpyxl-first order of the notations).  Text is `List Char`.  Import-free apart from the generated
  limits table (MAX_COL, MAX_ROW, the column-letter limit, ERROR_CODES, VALID_R1C1_RANGE_ITEM_COMBOS), regenerated
  from the live code on every check.

  Stable interface for other properties (C04/C05): `Cell`, `Rect`, `Rect.cells`, `Rect.contains`, `Rect.inter`,
  `Rect.union`, `Res`.
-/
import Pycel.Generated.AddrLimits
namespace Pycel.Addr

abbrev Str := List Char

def MAX_COL : Nat := Gen.maxCol
def MAX_ROW : Nat := Gen.maxRow
/-- openpyxl's `get_column_letter` raises ValueError above this index (ZZZ) -/
def COL_LIMIT : Nat := Gen.colLetterLimit

/-- one cell: `AddressCell(sheet, col_idx, row)` -/
structure Cell where
  sheet : Str
  col : Nat
  row : Nat
  deriving DecidableEq, Repr

/-- a rectangle: the corners of an `AddressRange` / `AddressCell` (0 = the `None` of an unbounded row/column) -/
structure Rect where
  sheet : Str
  c1 : Nat
  r1 : Nat
  c2 : Nat
  r2 : Nat
  deriving DecidableEq, Repr

/-- result of `&` / `**` -/
inductive Res where
  | rect (r : Rect)
  | null            -- '#NULL!'
  | value           -- '#VALUE!'
  deriving DecidableEq, Repr

/-- Python exceptions the address code raises -/
inductive PyErr where
  | valueError | notImplemented | assertion | attribute | pycel | typeError
  deriving DecidableEq, Repr

def PyErr.enc : PyErr → String
  | .valueError => "!exc:bare:ValueError"
  | .notImplemented => "!exc:bare:NotImplementedError"
  | .assertion => "!exc:bare:AssertionError"
  | .attribute => "!exc:bare:AttributeError"
  | .pycel => "!exc:pycel:PyCelException"
  | .typeError => "!exc:bare:TypeError"

/-! ### geometry -/

/-- `AddressRange.size.height` -/
def Rect.height (a : Rect) : Int :=
  if a.r1 = 0 ∨ a.r2 = 0 then (MAX_ROW : Int) else (a.r2 : Int) - (a.r1 : Int) + 1

/-- `AddressRange.size.width` -/
def Rect.width (a : Rect) : Int :=
  if a.c1 = 0 ∨ a.c2 = 0 then (MAX_COL : Int) else (a.c2 : Int) - (a.c1 : Int) + 1

/-- one axis of `_union_instersection`: lower corners `a1`, `b1` (0 = unbounded side, which starts at 1 and with its
    size MAX spans 1..MAX), sizes `wa`, `wb`; `ub` = this side of the result is unbounded again (stored as 0, 0).
    `none` = empty. -/
def combineAxis (isInter : Bool) (a1 b1 : Nat) (wa wb : Int) (ub : Bool) : Option (Nat × Nat) :=
  let or1 (x : Nat) : Int := if x = 0 then 1 else (x : Int)
  let lo : Int := if isInter then max (or1 a1) (or1 b1) else min (or1 a1) (or1 b1)
  let hi : Int := (if isInter then min (or1 a1 + wa) (or1 b1 + wb) else max (or1 a1 + wa) (or1 b1 + wb)) - 1
  if hi < lo then none else if ub then some (0, 0) else some (lo.toNat, hi.toNat)

/-- `_union_instersection(self, other, min_, max_)` on corners and sizes; `isInter` selects (max, min).
    A side of the result is unbounded when that side of both operands (`&`) / of either operand (`**`) is; when both
    sides would be, the rows are written out (`1:1048576`). -/
def combineCore (isInter : Bool) (a b : Rect) (ha wa hb wb : Int) : Res :=
  if a.sheet ≠ [] ∧ b.sheet ≠ [] ∧ a.sheet ≠ b.sheet then .value else
  let both (p q : Bool) : Bool := if isInter then p && q else p || q
  let uc := both (a.c1 = 0 || a.c2 = 0) (b.c1 = 0 || b.c2 = 0)
  let ur := !uc && both (a.r1 = 0 || a.r2 = 0) (b.r1 = 0 || b.r2 = 0)
  match combineAxis isInter a.c1 b.c1 wa wb uc, combineAxis isInter a.r1 b.r1 ha hb ur with
  | some (c1, c2), some (r1, r2) => .rect ⟨if a.sheet ≠ [] then a.sheet else b.sheet, c1, r1, c2, r2⟩
  | _, _ => .null

/-- `a & b` for two ranges -/
def Rect.inter (a b : Rect) : Res := combineCore true a b a.height a.width b.height b.width
/-- `a ** b` for two ranges -/
def Rect.union (a b : Rect) : Res := combineCore false a b a.height a.width b.height b.width

/-- `cell in range` (AddressRange.__contains__: rows and columns only, the sheet is not compared) -/
def Rect.contains (a : Rect) (c : Cell) : Bool :=
  a.r1 ≤ c.row && c.row ≤ a.r2 && a.c1 ≤ c.col && c.col ≤ a.c2

def Rect.rowIdxs (a : Rect) : List Nat := List.range' a.r1 (a.r2 + 1 - a.r1)
def Rect.colIdxs (a : Rect) : List Nat := List.range' a.c1 (a.c2 + 1 - a.c1)

/-- `AddressRange.rows` -/
def Rect.rows (a : Rect) : List (List Cell) :=
  a.rowIdxs.map fun r => a.colIdxs.map fun c => ⟨a.sheet, c, r⟩
/-- `AddressRange.cols` -/
def Rect.cols (a : Rect) : List (List Cell) :=
  a.colIdxs.map fun c => a.rowIdxs.map fun r => ⟨a.sheet, c, r⟩
/-- all cells, row-major (`resolve_range` flattened) -/
def Rect.cells (a : Rect) : List Cell := a.rows.flatten

/-- `inc_col` -/
def incCol (col : Nat) (inc : Int) : Nat := (((col : Int) + inc - 1) % (MAX_COL : Int) + 1).toNat
/-- `inc_row` -/
def incRow (row : Nat) (inc : Int) : Nat := (((row : Int) + inc - 1) % (MAX_ROW : Int) + 1).toNat

/-- `address_at_offset(row_inc, col_inc)` of a cell -/
def Cell.offset (c : Cell) (rowInc colInc : Int) : Cell := ⟨c.sheet, incCol c.col colInc, incRow c.row rowInc⟩

/-! ### characters, decimal numbers, column letters -/

def isDigit (c : Char) : Bool := 48 ≤ c.toNat && c.toNat ≤ 57
def isUpper (c : Char) : Bool := 65 ≤ c.toNat && c.toNat ≤ 90
def isLower (c : Char) : Bool := 97 ≤ c.toNat && c.toNat ≤ 122
def isLetter (c : Char) : Bool := isUpper c || isLower c

def digitChar (d : Nat) : Char := Char.ofNat (48 + d)
def digitVal (c : Char) : Nat := c.toNat - 48
/-- `A`..`Z` for 1..26 -/
def letterChar (d : Nat) : Char := Char.ofNat (64 + d)
/-- value 1..26 of a letter, either case (`col.upper()`) -/
def letterVal (c : Char) : Nat := if isLower c then c.toNat - 96 else c.toNat - 64

/-- decimal digits of `n`, least significant first (fuel-structural) -/
def digitsRev : Nat → Nat → List Nat
  | 0, _ => []
  | f+1, n => if n < 10 then [n] else (n % 10) :: digitsRev f (n / 10)

/-- `str(n)` -/
def natStr (n : Nat) : Str := (digitsRev (n+1) n).reverse.map digitChar

/-- `int(s)` for a string of ASCII digits -/
def decVal (s : Str) : Nat := s.foldl (fun a c => a * 10 + digitVal c) 0

/-- `str(i)` for an integer -/
def intStr (i : Int) : Str := if i < 0 then '-' :: natStr i.natAbs else natStr i.natAbs

/-- bijective base-26 digits (1..26) of `n`, least significant first; [] for 0 -/
def colDigitsRev : Nat → Nat → List Nat
  | 0, _ => []
  | _+1, 0 => []
  | f+1, n+1 => (n % 26 + 1) :: colDigitsRev f (n / 26)

/-- `get_column_letter(n)` (and '' for 0, as `AddressCell.column` does) -/
def colLetters (n : Nat) : Str := (colDigitsRev n n).reverse.map letterChar

/-- `column_index_from_string(s)` for 1..3 ASCII letters -/
def parseCol (s : Str) : Nat := s.foldl (fun a c => a * 26 + letterVal c) 0

/-- longest prefix satisfying `p`, and the rest -/
def spanP (p : Char → Bool) : Str → Str × Str
  | [] => ([], [])
  | c :: cs => if p c then (c :: (spanP p cs).1, (spanP p cs).2) else ([], c :: cs)

/-! ### sheet names -/

/-- `s.replace("'", "''")` -/
def esc : Str → Str
  | [] => []
  | c :: cs => if c = '\'' then '\'' :: '\'' :: esc cs else c :: esc cs

/-- `s.replace("''", "'")` (leftmost, non-overlapping) -/
def unesc : Str → Str
  | [] => []
  | [c] => [c]
  | c :: d :: cs => if c = '\'' ∧ d = '\'' then '\'' :: unesc cs else c :: unesc (d :: cs)

/-- openpyxl `quote_sheetname` -/
def quoteSheetname (s : Str) : Str := '\'' :: (esc s ++ ['\''])

/-- `AddressMixin.quote_sheet`: quotes only when the name holds a space -/
def quoteSheet (s : Str) : Str := if ' ' ∈ s then quoteSheetname s else s

/-- `unquote_sheetname` -/
def unquoteSheetname (s : Str) : Str :=
  if s.head? = some '\'' ∧ s.getLast? = some '\'' then unesc (s.tail.dropLast) else s

/-- `s.replace(pat, '')` for a non-empty `pat` (fuel-structural; fuel = length + 1 suffices) -/
def removeAllAux (pat : Str) : Nat → Str → Str
  | 0, s => s
  | _+1, [] => []
  | f+1, c :: cs =>
    if pat.isPrefixOf (c :: cs) then removeAllAux pat f ((c :: cs).drop pat.length)
    else c :: removeAllAux pat f cs

def removeAll (pat s : Str) : Str := removeAllAux pat (s.length + 1) s

/-- `split_sheetname(address, sheet)` -/
def splitSheetname (address sheet : Str) : Except PyErr (Str × Str) :=
  if '!' ∈ address then
    let sh := (spanP (· ≠ '!') address).1
    let part := (spanP (· ≠ '!') address).2.tail
    let redundant := esc (unquoteSheetname sh)
    let part' := removeAll ('\'' :: (redundant ++ ['\'', '!'])) part
    if '!' ∈ part' then .error .notImplemented else
    let sh' := unquoteSheetname sh
    if sh' ≠ [] ∧ sheet ≠ [] ∧ sh' ≠ sheet then .error .valueError else
    .ok (if sheet ≠ [] then sheet else sh', part')
  else .ok (sheet, address)

/-! ### A1 notation (openpyxl `range_boundaries`) -/

/-- (min_col, min_row, max_col, max_row), `none` = Python `None` -/
structure Bounds where
  c1 : Option Nat
  r1 : Option Nat
  c2 : Option Nat
  r2 : Option Nat
  deriving DecidableEq, Repr

def dropDollar (s : Str) : Str := if s.head? = some '$' then s.tail else s

/-- `[$]?([A-Za-z]{1,3})?[$]?(\d+)?` : column, row, rest; `none` when more than three letters follow -/
def a1Half (s : Str) : Option (Option Nat × Option Nat × Str) :=
  let s1 := dropDollar s
  let ls := (spanP isLetter s1).1
  let s2 := (spanP isLetter s1).2
  if ls.length > 3 then none else
  let s3 := dropDollar s2
  let ds := (spanP isDigit s3).1
  let s4 := (spanP isDigit s3).2
  some (if ls = [] then none else some (parseCol ls), if ds = [] then none else some (decVal ds), s4)

/-- openpyxl `range_boundaries`; `none` = ValueError -/
def a1Boundaries (s : Str) : Option Bounds :=
  match a1Half s with
  | none => none
  | some (c1, r1, rest) =>
    match rest with
    | [] => some ⟨c1, r1, c1, r1⟩
    | ':' :: rest2 =>
      match a1Half rest2 with
      | some (c2, r2, []) =>
        let colsAll := c1.isSome && c2.isSome
        let rowsAll := r1.isSome && r2.isSome
        let colsAny := c1.isSome || c2.isSome
        let rowsAny := r1.isSome || r2.isSome
        if (colsAll && rowsAll) || (colsAll && !rowsAny) || (rowsAll && !colsAny) then
          some ⟨c1, r1, if c2.isSome then c2 else c1, if r2.isSome then r2 else r1⟩
        else none
      | _ => none
    | _ => none

/-! ### R1C1 notation (`r1c1_boundaries`) -/

inductive RC where
  | bare            -- `R` / `C`
  | abs (n : Nat)   -- `R5`
  | rel (i : Int)   -- `R[-5]`
  deriving DecidableEq, Repr

/-- `R(\[-?\d+\]|\d+)?` with tag `R` or `C` -/
def rcItem (tag : Char) (s : Str) : Option RC × Str :=
  if s.head? ≠ some tag then (none, s) else
  let rest := s.tail
  if rest.head? = some '[' then
    let r2 := rest.tail
    let neg := r2.head? = some '-'
    let r3 := if neg then r2.tail else r2
    let ds := (spanP isDigit r3).1
    let r4 := (spanP isDigit r3).2
    if ds ≠ [] ∧ r4.head? = some ']' then
      (some (.rel (if neg then -(decVal ds : Int) else (decVal ds : Int))), r4.tail)
    else (some .bare, rest)
  else
    let ds := (spanP isDigit rest).1
    if ds ≠ [] then (some (.abs (decVal ds)), (spanP isDigit rest).2) else (some .bare, rest)

structure RCMatch where
  row1 : Option RC
  col1 : Option RC
  colon : Bool
  row2 : Option RC
  col2 : Option RC

/-- R1C1_RANGE_RE -/
def r1c1Match (s : Str) : Option RCMatch :=
  let a := rcItem 'R' s
  let b := rcItem 'C' a.2
  match b.2 with
  | [] => some ⟨a.1, b.1, false, none, none⟩
  | ':' :: rest =>
    let c := rcItem 'R' rest
    let d := rcItem 'C' c.2
    if d.2 = [] then some ⟨a.1, b.1, true, c.1, d.1⟩ else none
  | _ => none

/-- `from_relative_to_absolute`; anchor = (col_idx, row) of the `cell` argument -/
def rcResolve (isRow : Bool) (anchor : Option (Nat × Nat)) : RC → Except PyErr Nat
  | .abs n => .ok n
  | .bare => match anchor with
    | none => .error .assertion
    | some (c, r) => .ok (if isRow then r else c)
  | .rel i => match anchor with
    | none => .error .assertion
    | some (c, r) => .ok (if isRow then incRow r i else incCol c i)

def rcResolve? (isRow : Bool) (anchor : Option (Nat × Nat)) : Option RC → Except PyErr (Option Nat)
  | none => .ok none
  | some x => match rcResolve isRow anchor x with
    | .ok n => .ok (some n)
    | .error e => .error e

/-- `r1c1_boundaries`: `.ok none` = the regex did not match -/
def r1c1Boundaries (s : Str) (anchor : Option (Nat × Nat)) : Except PyErr (Option Bounds) :=
  match r1c1Match s with
  | none => .ok none
  | some m =>
    match rcResolve? false anchor m.col1, rcResolve? true anchor m.row1,
          rcResolve? false anchor m.col2, rcResolve? true anchor m.row2 with
    | .ok c1, .ok r1, .ok c2, .ok r2 =>
      let present := (c1.isSome, r1.isSome, c2.isSome, r2.isSome)
      let cnt := c1.isSome.toNat + r1.isSome.toNat + c2.isSome.toNat + r2.isSome.toNat
      if (m.colon && !(Gen.r1c1Combos.contains present)) || (!m.colon && cnt < 2) then .error .valueError
      else .ok (some ⟨c1, r1, if c2.isSome then c2 else c1, if r2.isSome then r2 else r1⟩)
    | .error e, _, _, _ => .error e
    | _, .error e, _, _ => .error e
    | _, _, .error e, _ => .error e
    | _, _, _, .error e => .error e

/-! ### construction -/

/-- an `AddressRange` (isRange) or `AddressCell` object -/
structure Addr where
  isRange : Bool
  rect : Rect
  deriving DecidableEq, Repr

/-- what `AddressRange.create` returns -/
inductive Created where
  | addr (a : Addr)
  | code (s : Str)      -- an error code string is returned unchanged
  deriving DecidableEq, Repr

def errorCodes : List Str := Gen.errorCodes.map fun l => l.map Char.ofNat

/-- `AddressCell((col, row, col, row), sheet)`: ValueError from get_column_letter above ZZZ -/
def mkCell (sheet : Str) (col row : Nat) : Except PyErr Addr :=
  if col > COL_LIMIT then .error .valueError else .ok ⟨false, ⟨sheet, col, row, col, row⟩⟩

/-- `AddressRange((c1, r1, c2, r2), sheet)` after its assertion -/
def mkRange (sheet : Str) (c1 r1 c2 r2 : Nat) : Except PyErr Addr :=
  if c1 > COL_LIMIT ∨ c2 > COL_LIMIT then .error .valueError else .ok ⟨true, ⟨sheet, c1, r1, c2, r2⟩⟩

def Bounds.hasNone (b : Bounds) : Bool := b.c1.isNone || b.r1.isNone || b.c2.isNone || b.r2.isNone

/-- tail of `AddressRange.create`: range when a bound is None or the corners differ, else cell -/
def ofBounds (sheet : Str) (b : Bounds) : Except PyErr Addr :=
  if b.hasNone ∨ (b.c1, b.r1) ≠ (b.c2, b.r2) then
    mkRange sheet (b.c1.getD 0) (b.r1.getD 0) (b.c2.getD 0) (b.r2.getD 0)
  else mkCell sheet (b.c1.getD 0) (b.r1.getD 0)

/-- TABLE_REF_RE `^[^[]+\[.*\]$` (no newlines in the text, see ASSUMPTIONS) -/
def tableRefMatch (s : Str) : Bool :=
  let name := (spanP (· ≠ '[') s).1
  let rest := (spanP (· ≠ '[') s).2
  name ≠ [] && rest.length ≥ 2 && rest.getLast? = some ']'

def splitOnColon (s : Str) : List Str :=
  let r := s.foldr (fun c (acc : Str × List Str) => if c = ':' then ([], acc.1 :: acc.2) else (c :: acc.1, acc.2))
    ([], [])
  r.1 :: r.2

/-- `range_boundaries` up to (not including) the multi-colon step: `.ok none` = nothing matched -/
def boundsSimple (addr : Str) (anchor : Option (Nat × Nat)) : Except PyErr (Option Bounds) :=
  let viaA1 : Option Bounds := match a1Boundaries addr with
    | some b => if !b.hasNone || ':' ∈ addr then some b else none
    | none => none
  match viaA1 with
  | some b => .ok (some b)
  | none =>
    match r1c1Boundaries addr anchor with
    | .error e => .error e
    | .ok (some b) => .ok (some b)
    | .ok none => if tableRefMatch addr then .error .pycel else .ok none

/-- one node of a multi-colon range: `AddressRange.create(node, cell=cell, sheet=sheet)` -/
def createNode (sheet node : Str) (anchor : Option (Nat × Nat)) : Except PyErr Created :=
  if node ∈ errorCodes then .ok (.code node) else
  match boundsSimple node anchor with
  | .error e => .error e
  | .ok none => .error .valueError
  | .ok (some b) => match ofBounds sheet b with
    | .ok a => .ok (.addr a)
    | .error e => .error e

def createNodes (sheet : Str) (anchor : Option (Nat × Nat)) : List Str → Except PyErr (List Created)
  | [] => .ok []
  | n :: ns => match createNode sheet n anchor with
    | .error e => .error e
    | .ok x => match createNodes sheet anchor ns with
      | .error e => .error e
      | .ok xs => .ok (x :: xs)

def Addr.height (a : Addr) : Int := if a.isRange then a.rect.height else 1
def Addr.width (a : Addr) : Int := if a.isRange then a.rect.width else 1

def listMin : List Int → Int
  | [] => 0
  | x :: xs => xs.foldl min x
def listMax : List Int → Int
  | [] => 0
  | x :: xs => xs.foldl max x

/-- the multi-colon step of `range_boundaries` -/
def multiColon (sheet addr : Str) (anchor : Option (Nat × Nat)) : Except PyErr Bounds :=
  let parts := splitOnColon addr
  if parts.length ≤ 2 then .error .valueError else
  match createNodes sheet anchor parts with
  | .error .valueError => .error .valueError
  | .error e => .error e
  | .ok nodes =>
    if nodes.any (fun n => match n with | .code _ => true | _ => false) then .error .attribute else
    let as := nodes.filterMap fun n => match n with | .addr a => some a | _ => none
    let minC := listMin (as.map fun a => (a.rect.c1 : Int))
    let maxC := listMax (as.map fun a => (a.rect.c1 : Int) + a.width - 1)
    let minR := listMin (as.map fun a => (a.rect.r1 : Int))
    let maxR := listMax (as.map fun a => (a.rect.r1 : Int) + a.height - 1)
    .ok ⟨some minC.toNat, some minR.toNat, some maxC.toNat, some maxR.toNat⟩

/-- `range_boundaries(addr, cell, sheet)` -/
def rangeBoundaries (sheet addr : Str) (anchor : Option (Nat × Nat)) : Except PyErr Bounds :=
  match boundsSimple addr anchor with
  | .error e => .error e
  | .ok (some b) => .ok b
  | .ok none => multiColon sheet addr anchor

/-- `AddressRange.create(address, sheet=sheet, cell=cell)` for a text `address` -/
def create (address sheet : Str) (anchor : Option (Nat × Nat)) : Except PyErr Created :=
  if address ∈ errorCodes then .ok (.code address) else
  match splitSheetname address sheet with
  | .error e => .error e
  | .ok (sheetname, addr) =>
    match rangeBoundaries sheetname addr anchor with
    | .error e => .error e
    | .ok b => match ofBounds sheetname b with
      | .ok a => .ok (.addr a)
      | .error e => .error e

/-- `AddressCell.create`: anything but a cell is a ValueError -/
def createCell (address sheet : Str) (anchor : Option (Nat × Nat)) : Except PyErr Created :=
  match create address sheet anchor with
  | .error e => .error e
  | .ok (.addr a) => if a.isRange then .error .valueError else .ok (.addr a)
  | .ok (.code _) => .error .valueError

/-- `AddressRange((c1, r1, c2, r2), sheet=…)` with its assertion -/
def rangeOfTuple (sheet : Str) (b : Bounds) : Except PyErr Addr :=
  if b.hasNone ∨ (b.c1, b.r1) ≠ (b.c2, b.r2) then
    mkRange sheet (b.c1.getD 0) (b.r1.getD 0) (b.c2.getD 0) (b.r2.getD 0)
  else .error .assertion

/-- `AddressCell((c1, r1, c2, r2), sheet=…)` with its assertion (`None not in t or t[0:2] == t[2:]`) -/
def cellOfTuple (sheet : Str) (b : Bounds) : Except PyErr Addr :=
  if !b.hasNone ∨ (b.c1, b.r1) = (b.c2, b.r2) then mkCell sheet (b.c1.getD 0) (b.r1.getD 0)
  else .error .assertion

/-- `AddressRange(obj, sheet=…)` / `AddressCell(obj, sheet=…)` / `AddressRange.create(obj, sheet=…)` on an address
    object: the same address, put on `sheet` when it has none; a different sheet is a ValueError.  A derived object
    is just a new value: nothing of the source object's history is part of it. -/
def resheet (a : Addr) (sheet : Str) : Except PyErr Addr :=
  if sheet = [] ∨ sheet = a.rect.sheet then .ok a
  else if a.rect.sheet = [] then .ok { a with rect := { a.rect with sheet := sheet } }
  else .error .valueError

/-! ### printing -/

def cellCoord (col row : Nat) : Str := colLetters col ++ (if row = 0 then [] else natStr row)
def cellAbsCoord (col row : Nat) : Str := '$' :: (colLetters col ++ '$' :: natStr row)

/-- `.coordinate` -/
def Addr.coordinate (a : Addr) : Str :=
  if a.isRange then cellCoord a.rect.c1 a.rect.r1 ++ ':' :: cellCoord a.rect.c2 a.rect.r2
  else cellCoord a.rect.c1 a.rect.r1

/-- `.abs_coordinate` -/
def Addr.absCoordinate (a : Addr) : Str :=
  if a.isRange then cellAbsCoord a.rect.c1 a.rect.r1 ++ ':' :: cellAbsCoord a.rect.c2 a.rect.r2
  else cellAbsCoord a.rect.c1 a.rect.r1

/-- `.address` (= `str(a)`) -/
def Addr.address (a : Addr) : Str :=
  if a.rect.sheet ≠ [] then a.rect.sheet ++ '!' :: a.coordinate else a.coordinate

/-- `.quoted_address` -/
def Addr.quotedAddress (a : Addr) : Str := quoteSheet a.rect.sheet ++ '!' :: a.coordinate

/-- `.abs_address` -/
def Addr.absAddress (a : Addr) : Str := quoteSheet a.rect.sheet ++ '!' :: a.absCoordinate

/-- R1C1 texts of a cell (pycel has no R1C1 printer; these are the notations Excel writes) -/
def r1c1Abs (col row : Nat) : Str := 'R' :: (natStr row ++ 'C' :: natStr col)
def r1c1Rel (dRow dCol : Int) : Str := 'R' :: '[' :: (intStr dRow ++ ']' :: 'C' :: '[' :: (intStr dCol ++ [']']))

/-! ### operators on address objects -/

/-- `a & b` / `a ** b` on address objects; the constructor of the result can raise (column above ZZZ) -/
def Addr.combine (isInter : Bool) (a b : Addr) : Except PyErr Res :=
  match combineCore isInter a.rect b.rect a.height a.width b.height b.width with
  | .rect r => if r.c1 > COL_LIMIT ∨ r.c2 > COL_LIMIT then .error .valueError else .ok (.rect r)
  | x => .ok x

/-- the address object of a rectangle result: a cell when the corners coincide and no side is unbounded -/
def Rect.toAddr (r : Rect) : Addr :=
  ⟨!(r.c1 = r.c2 && r.r1 = r.r2) || r.c1 = 0 || r.c2 = 0 || r.r1 = 0 || r.r2 = 0, r⟩

/-- operand of `&` / `**` as the operators see it: an address, or an error value of a previous operation -/
inductive Operand where
  | addr (a : Addr)
  | err (code : Str)    -- '#NULL!', '#VALUE!', …
  deriving DecidableEq, Repr

def nullCode : Str := "#NULL!".toList
def valueCode : Str := "#VALUE!".toList

def Res.toOperand : Res → Operand
  | .rect r => .addr r.toAddr
  | .null => .err nullCode
  | .value => .err valueCode

/-- `x & y` / `x ** y` where either side may already be an error value.
    PROPERTY-DRIVEN: an error operand propagates; the pinned code raised AttributeError (repaired by a fix: commit). -/
def Operand.combine (isInter : Bool) : Operand → Operand → Except PyErr Operand
  | .err _, .err _ => .error .typeError      -- two Python strings: no address object is involved
  | .err n, .addr _ => .ok (.err n)
  | .addr _, .err n => .ok (.err n)
  | .addr a, .addr b => match Addr.combine isInter a b with
    | .ok r => .ok r.toOperand
    | .error e => .error e

/-- `cell in addr` with `cell` an AddressCell: ranges compare rows/columns, cells compare the whole tuple -/
def Addr.containsCell (a : Addr) (c : Addr) : Bool :=
  if a.isRange then a.rect.contains ⟨c.rect.sheet, c.rect.c1, c.rect.r1⟩
  else a.rect.sheet = c.rect.sheet ∧ a.rect.c1 = c.rect.c1 ∧ a.rect.r1 = c.rect.r1

/-- `is_unbounded_range`: a side without bounds (a corner stored as 0); a bounded range that spans every column or
    row of the sheet (`A1:XFD1`) is not unbounded -/
def Addr.isUnbounded (a : Addr) : Bool :=
  a.isRange && (a.rect.r1 = 0 || a.rect.r2 = 0 || a.rect.c1 = 0 || a.rect.c2 = 0)

end Pycel.Addr

/-
  Helper lemmas for property C10 (Pycel/Props/C10.lean): the code-point lexicographic order `strLt` and the
  ExcelCmp key order `keyLt` are strict total orders; `keyLe` is the complement of the converse of `keyLt`.
-/
import Pycel.Model.Ops
namespace Pycel.Ops
open Pycel

theorem strLt_irrefl : ∀ s : List Char, strLt s s = false
  | [] => rfl
  | a :: as => by simp [strLt, strLt_irrefl as]

theorem char_eq_of_toNat {a b : Char} (h1 : ¬ a.toNat < b.toNat) (h2 : ¬ b.toNat < a.toNat) : a = b := by
  have : a.toNat = b.toNat := by omega
  exact Char.ext (UInt32.toNat_inj.mp this)

/-- totality: two different texts are ordered one way or the other -/
theorem strLt_total : ∀ s t : List Char, strLt s t = false → strLt t s = false → s = t
  | [], [], _, _ => rfl
  | [], _ :: _, h, _ => by simp [strLt] at h
  | _ :: _, [], _, h => by simp [strLt] at h
  | a :: as, b :: bs, h1, h2 => by
    simp only [strLt] at h1 h2
    by_cases hab : a.toNat < b.toNat
    · simp [hab] at h1
    · by_cases hba : b.toNat < a.toNat
      · simp [hba] at h2
      · simp only [hab, hba, ↓reduceIte] at h1 h2
        rw [char_eq_of_toNat hab hba, strLt_total as bs h1 h2]

theorem strLt_asymm : ∀ s t : List Char, strLt s t = true → strLt t s = false
  | [], [], h => by simp [strLt] at h
  | [], _ :: _, _ => by simp [strLt]
  | _ :: _, [], h => by simp [strLt] at h
  | a :: as, b :: bs, h => by
    simp only [strLt] at h ⊢
    by_cases hab : a.toNat < b.toNat
    · have : ¬ b.toNat < a.toNat := by omega
      simp [hab, this]
    · by_cases hba : b.toNat < a.toNat
      · simp [hba] at h ⊢; omega
      · simp only [hab, hba, ↓reduceIte] at h ⊢
        exact strLt_asymm as bs h

theorem strLt_trans : ∀ s t u : List Char, strLt s t = true → strLt t u = true → strLt s u = true
  | [], [], _, h, _ => by simp [strLt] at h
  | [], _ :: _, [], _, h => by simp [strLt] at h
  | [], _ :: _, _ :: _, _, _ => by simp [strLt]
  | _ :: _, [], _, h, _ => by simp [strLt] at h
  | _ :: _, _ :: _, [], _, h => by simp [strLt] at h
  | a :: as, b :: bs, c :: cs, h1, h2 => by
    simp only [strLt] at h1 h2 ⊢
    by_cases hab : a.toNat < b.toNat
    · by_cases hbc : b.toNat < c.toNat
      · have : a.toNat < c.toNat := by omega
        simp [this]
      · by_cases hcb : c.toNat < b.toNat
        · simp [hbc, hcb] at h2
        · have : a.toNat < c.toNat := by omega
          simp [this]
    · by_cases hba : b.toNat < a.toNat
      · simp [hab, hba] at h1
      · simp only [hab, hba, ↓reduceIte] at h1
        by_cases hbc : b.toNat < c.toNat
        · have : a.toNat < c.toNat := by omega
          simp [this]
        · by_cases hcb : c.toNat < b.toNat
          · simp [hbc, hcb] at h2
          · simp only [hbc, hcb, ↓reduceIte] at h2
            have h3 : ¬ a.toNat < c.toNat := by omega
            have h4 : ¬ c.toNat < a.toNat := by omega
            simp only [h3, h4, ↓reduceIte]
            exact strLt_trans as bs cs h1 h2

theorem keyLt_irrefl (a : Key) : keyLt a a = false := by
  cases a with
  | num q => simp [keyLt, Rat.lt_irrefl]
  | str s => simp [keyLt, strLt_irrefl]
  | bool b => cases b <;> simp [keyLt]

theorem keyLt_asymm (a b : Key) (h : keyLt a b = true) : keyLt b a = false := by
  cases a <;> cases b <;> simp_all [keyLt, Key.rank]
  · rename_i x y; exact Rat.not_lt.mpr (Rat.le_of_lt h)
  · rename_i s t; exact strLt_asymm s t h

theorem keyLt_total (a b : Key) (h1 : keyLt a b = false) (h2 : keyLt b a = false) : a = b := by
  cases a <;> cases b <;> simp_all [keyLt, Key.rank]
  · rename_i x y; exact Rat.le_antisymm (Rat.not_lt.mp h2) (Rat.not_lt.mp h1)
  · rename_i s t; exact strLt_total s t h1 h2
  · rename_i x y; cases x <;> cases y <;> simp_all

theorem keyLt_trans (a b c : Key) (h1 : keyLt a b = true) (h2 : keyLt b c = true) : keyLt a c = true := by
  cases a <;> cases b <;> cases c <;> simp_all [keyLt, Key.rank]
  · rename_i x y z; exact Std.lt_trans h1 h2
  · rename_i s t u; exact strLt_trans s t u h1 h2

/-- tuple `<=` is the complement of the converse of tuple `<` -/
theorem keyLe_eq_not_gt (a b : Key) : keyLe a b = !keyLt b a := by
  cases a <;> cases b <;> simp [keyLe, keyLt, Key.rank]
  · rename_i x y
    by_cases h : y < x
    · simp [h, Rat.not_le.mpr h]
    · simp [h, Rat.not_lt.mp h]
  · rename_i s t
    by_cases hst : strLt s t = true
    · simp [hst, strLt_asymm s t hst]
    · simp only [Bool.not_eq_true] at hst
      by_cases hts : strLt t s = true
      · have : s ≠ t := by
          intro e; subst e; rw [strLt_irrefl] at hts; cases hts
        simp [hst, hts, this]
      · simp only [Bool.not_eq_true] at hts
        have e := strLt_total s t hst hts
        subst e
        simp [strLt_irrefl]
  · rename_i x y; cases x <;> cases y <;> simp

end Pycel.Ops

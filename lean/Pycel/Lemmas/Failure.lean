/-
  Lemmas about the failure-aware engine (Model/Failure.lean).  Core Lean only; reuses Lemmas/Engine.lean
  (`denote_node`, `denote_input`, `Grows`, `setValue_inv`, `setValue_inp`, …).
-/
import Pycel.Model.Failure
import Pycel.Lemmas.Engine
namespace Pycel.Failure
open Pycel.Engine

variable {α : Type} {wb : Workbook} {S : Sem α} {D : Discipline}

/-! ### the lifted semantics -/

theorem firstFail_congr (e e' : Nat → R α) :
    ∀ L : List Nat, (∀ j, j ∈ L → e j = e' j) → firstFail e L = firstFail e' L := by
  intro L
  induction L with
  | nil => intro _; rfl
  | cons a L ih =>
    intro h
    have ha := h a (by simp)
    simp only [firstFail, ha]
    cases e' a with
    | error x => rfl
    | ok v => exact ih (fun j hj => h j (by simp [hj]))

theorem firstFail_none (e : Nat → R α) :
    ∀ L : List Nat, (∀ j, j ∈ L → ∃ v, e j = .ok v) → firstFail e L = none := by
  intro L
  induction L with
  | nil => intro _; rfl
  | cons a L ih =>
    intro h
    obtain ⟨v, hv⟩ := h a (by simp)
    simp only [firstFail, hv]
    exact ih (fun j hj => h j (by simp [hj]))

theorem applyF_congr (hs : SLocal wb S) {i : Nat} (hk : wb.kind i ≠ .input) (e e' : Nat → R α)
    (h : ∀ j, j ∈ wb.deps i → e j = e' j) : applyF S i e = applyF S i e' := by
  unfold applyF
  rw [hs i _ _ hk (fun j hj => by rw [h j hj])]

theorem lift_local (hs : SLocal wb S) : Local wb (lift wb S) := by
  intro i e e' h
  unfold lift
  cases hk : wb.kind i with
  | input => rfl
  | range =>
    simp only
    rw [firstFail_congr e e' _ h, applyF_congr hs (by rw [hk]; simp) e e' h]
  | formula =>
    simp only
    rw [firstFail_congr e e' _ h, applyF_congr hs (by rw [hk]; simp) e e' h]

theorem mapRaw_cls (x : Raw) : mapRaw x ≠ .assertion ∧ (x ≠ .recursion → mapRaw x ≠ .recursion) := by
  cases x <;> simp [mapRaw]

theorem wrap_cls (e : Fail) : wrap e ≠ .assertion ∧ (e ≠ .recursion → wrap e ≠ .recursion) := by
  cases e <;> simp [wrap]

theorem applyF_cls {i : Nat} {env : Nat → R α} {e : Fail} (h : applyF S i env = .error e) :
    e ≠ .assertion ∧ (NoRec S → e ≠ .recursion) := by
  unfold applyF at h
  cases hf : S.f i (fun j => unwrap S.dflt (env j)) with
  | ok v => rw [hf] at h; cases h
  | error x =>
    rw [hf] at h
    injection h with h
    subst h
    exact ⟨(mapRaw_cls x).1, fun hn => (mapRaw_cls x).2 (fun hx => hn.1 i _ (by rw [hf, hx]))⟩

/-! ### pre- and postconditions -/

/-- what evaluation needs of the persistent state -/
structure XPre (wb : Workbook) (S : Sem α) (c : State (R α)) : Prop where
  i1 : I1 wb (lift wb S) c
  closed : Closed wb c
  allOk : ∀ m v, c.cache m = some v → ∃ a, v = .ok a
  inpOk : ∀ m, ∃ a, c.inp m = .ok a

/-- transient state of `s'` equals that of `s` -/
structure SameTr (s s' : FState α) : Prop where
  errs : s'.errs = s.errs
  ctx : s'.ctx = s.ctx
  gt : s'.graphTodos = s.graphTodos
  rt : s'.rangeTodos = s.rangeTodos

theorem SameTr.refl (s : FState α) : SameTr s s := ⟨rfl, rfl, rfl, rfl⟩

theorem SameTr.trans {s s' s'' : FState α} (h1 : SameTr s s') (h2 : SameTr s' s'') : SameTr s s'' :=
  ⟨h2.errs.trans h1.errs, h2.ctx.trans h1.ctx, h2.gt.trans h1.gt, h2.rt.trans h1.rt⟩

structure XPost (wb : Workbook) (S : Sem α) (P : Nat → Prop) (s : FState α) (i : Nat) (r : R α × FState α) :
    Prop where
  grows : Grows s.core r.2.core
  pre : XPre wb S r.2.core
  tr : SameTr s r.2
  sound : ∀ v, r.1 = .ok v → denote wb (lift wb S) s.core.inp i = .ok v
  cached : ∀ v, r.1 = .ok v → wb.kind i ≠ .input → r.2.core.cache i = some (.ok v)
  cls : ∀ e, r.1 = .error e → e ≠ .assertion ∧ (NoRec S → e ≠ .recursion)
  exact : P i → r.1 = denote wb (lift wb S) s.core.inp i

structure DPost (wb : Workbook) (S : Sem α) (P : Nat → Prop) (s : FState α) (L : List Nat)
    (r : Option Fail × FState α) : Prop where
  grows : Grows s.core r.2.core
  pre : XPre wb S r.2.core
  tr : SameTr s r.2
  okAll : r.1 = none → ∀ j, j ∈ L →
    (∃ v, denote wb (lift wb S) s.core.inp j = .ok v) ∧ (wb.kind j ≠ .input → r.2.core.cache j ≠ none)
  cls : ∀ e, r.1 = some e → e ≠ .assertion ∧ (NoRec S → e ≠ .recursion)
  exact : (∀ j, j ∈ L → P j) → firstFail (fun j => denote wb (lift wb S) s.core.inp j) L = r.1

theorem XPre.of_grows {c c' : State (R α)} (g : Grows c c') (h : XPre wb S c) (i1 : I1 wb (lift wb S) c')
    (cl : Closed wb c') (ok : ∀ m v, c'.cache m = some v → ∃ a, v = .ok a) : XPre wb S c' :=
  ⟨i1, cl, ok, fun m => by rw [g.inp]; exact h.inpOk m⟩

theorem evalDeps_spec {P : Nat → Prop} (ev : Nat → FState α → R α × FState α) :
    ∀ (L : List Nat) (s : FState α),
      (∀ j, j ∈ L → ∀ s' : FState α, XPre wb S s'.core → XPost wb S P s' j (ev j s')) →
      XPre wb S s.core → DPost wb S P s L (evalDeps ev L s) := by
  intro L
  induction L with
  | nil =>
    intro s _ hp
    exact ⟨Grows.refl _, hp, SameTr.refl s, fun _ j hj => by simp at hj, fun e h => by simp [evalDeps] at h,
      fun _ => rfl⟩
  | cons a L ih =>
    intro s h hp
    have p := h a (by simp) s hp
    cases h1 : (ev a s).1 with
    | error e =>
      have hE : evalDeps ev (a :: L) s = (some e, (ev a s).2) := by simp only [evalDeps, h1]
      rw [hE]
      refine ⟨p.grows, p.pre, p.tr, fun h => by simp at h, fun e' h' => ?_, fun hP => ?_⟩
      · simp at h'; subst h'; exact p.cls e h1
      · have := p.exact (hP a (by simp))
        rw [h1] at this
        simp only [firstFail, ← this]
    | ok v =>
      have hE : evalDeps ev (a :: L) s = evalDeps ev L (ev a s).2 := by simp only [evalDeps, h1]
      rw [hE]
      have q := ih (ev a s).2 (fun j hj => h j (by simp [hj])) p.pre
      have hinp : (ev a s).2.core.inp = s.core.inp := p.grows.inp
      have hda : denote wb (lift wb S) s.core.inp a = .ok v := p.sound v h1
      refine ⟨p.grows.trans q.grows, q.pre, p.tr.trans q.tr, fun hn j hj => ?_, q.cls, fun hP => ?_⟩
      · rcases List.mem_cons.mp hj with rfl | hj
        · refine ⟨⟨v, hda⟩, fun hk => ?_⟩
          have hc := p.cached v h1 hk
          rw [q.grows.cache j (by rw [hc]; simp), hc]; simp
        · have := q.okAll hn j hj
          rw [hinp] at this
          exact this
      · have := q.exact (fun j hj => hP j (by simp [hj]))
        rw [hinp] at this
        simp only [firstFail, hda]
        exact this

/-- storing the value of a node whose precedents are all evaluated -/
theorem store_spec (hwf : WF wb) {c : State (R α)} (hp : XPre wb S c) {i : Nat} (hk : wb.kind i ≠ .input)
    (hn : i < wb.n) {v : α} (hv : denote wb (lift wb S) c.inp i = .ok v)
    (dc : ∀ j, j ∈ wb.deps i → wb.kind j ≠ .input → c.cache j ≠ none) :
    Grows c { c with cache := update c.cache i (some (.ok v)) } ∧
    XPre wb S { c with cache := update c.cache i (some (.ok v)) } := by
  refine ⟨⟨rfl, rfl, rfl, fun m hm => ?_⟩, ⟨?_, ?_, ?_, hp.inpOk⟩⟩
  · by_cases hmi : m = i
    · subst hmi
      cases hcm : c.cache m with
      | none => exact absurd hcm hm
      | some w =>
        have := hp.i1 m w hcm
        rw [hv] at this
        simp [this]
    · simp only [update_ne _ _ hmi]
  · intro m w hmw
    by_cases hmi : m = i
    · subst hmi
      simp at hmw
      show w = denote wb (lift wb S) c.inp m
      rw [← hmw, hv]
    · simp only [update_ne _ _ hmi] at hmw
      exact hp.i1 m w hmw
  · intro m hm
    by_cases hmi : m = i
    · subst hmi
      refine ⟨hk, hn, fun j hj => ?_⟩
      by_cases hkj : wb.kind j = .input
      · exact Or.inl hkj
      · right
        have : j ≠ m := by have := hwf.lt m j hj; omega
        simp only [update_ne _ _ this]
        exact dc j hj hkj
    · simp only [update_ne _ _ hmi] at hm
      obtain ⟨a, b, c'⟩ := hp.closed m hm
      refine ⟨a, b, fun j hj => ?_⟩
      rcases c' j hj with h | h
      · exact Or.inl h
      · right
        by_cases hji : j = i
        · subst hji; simp
        · simp only [update_ne _ _ hji]; exact h
  · intro m w hmw
    by_cases hmi : m = i
    · subst hmi
      simp at hmw
      exact ⟨v, hmw.symm⟩
    · simp only [update_ne _ _ hmi] at hmw
      exact hp.allOk m w hmw

/-- after the precedents of `i` evaluated without exception, the formula sees their from-scratch values -/
theorem env_eq (hwf : WF wb) (hs : SLocal wb S) {c0 c : State (R α)} (g : Grows c0 c) (hp : XPre wb S c) {i : Nat}
    (hk : wb.kind i ≠ .input)
    (ok : ∀ j, j ∈ wb.deps i →
      (∃ v, denote wb (lift wb S) c0.inp j = .ok v) ∧ (wb.kind j ≠ .input → c.cache j ≠ none)) :
    applyF S i (valueOf wb c) = denote wb (lift wb S) c0.inp i := by
  have hl := lift_local hs
  have hval : ∀ j, j ∈ wb.deps i → valueOf wb c j = denote wb (lift wb S) c0.inp j := by
    intro j hj
    by_cases hkj : wb.kind j = .input
    · simp [valueOf, hkj, denote_input _ hkj, g.inp]
    · have hne := (ok j hj).2 hkj
      cases hcj : c.cache j with
      | none => exact absurd hcj hne
      | some w =>
        have := hp.i1 j w hcj
        rw [g.inp] at this
        cases hk' : wb.kind j
        · exact absurd hk' hkj
        all_goals simp [valueOf, hk', hcj, this]
  rw [denote_node hwf hl _ hk]
  have hff : firstFail (fun j => denote wb (lift wb S) c0.inp j) (wb.deps i) = none :=
    firstFail_none _ _ (fun j hj => (ok j hj).1)
  have happ := applyF_congr hs hk (valueOf wb c) (fun j => denote wb (lift wb S) c0.inp j) hval
  cases hk' : wb.kind i with
  | input => exact absurd hk' hk
  | range => simp only [lift, hk', hff]; exact happ
  | formula => simp only [lift, hk', hff]; exact happ

/-- a failing precedent makes the node fail from scratch as well -/
theorem denote_fail (hwf : WF wb) (hs : SLocal wb S) (inp : Nat → R α) {i : Nat} (hk : wb.kind i ≠ .input) {e : Fail}
    (hff : firstFail (fun j => denote wb (lift wb S) inp j) (wb.deps i) = some e) :
    denote wb (lift wb S) inp i = .error (match wb.kind i with | .range => e | _ => wrap e) := by
  rw [denote_node hwf (lift_local hs) _ hk]
  cases hk' : wb.kind i with
  | input => exact absurd hk' hk
  | range => simp only [lift, hk', hff]
  | formula => simp only [lift, hk', hff]

theorem applyAt_cls {i c : Nat} {core : State (R α)} {e : Fail} (h : applyAt wb S i c core = .error e) :
    e ≠ .assertion ∧ (NoRec S → e ≠ .recursion) := by
  unfold applyAt at h
  cases hf : S.fault i c with
  | none => rw [hf] at h; exact applyF_cls h
  | some x =>
    rw [hf] at h
    injection h with h
    subst h
    exact ⟨(mapRaw_cls x).1, fun hn => (mapRaw_cls x).2 (fun hx => hn.2 i c (by rw [hf, hx]))⟩

theorem applyAt_quiet {i c : Nat} {core : State (R α)} (h : S.fault i c = none) :
    applyAt wb S i c core = applyF S i (valueOf wb core) := by
  simp [applyAt, h]

theorem applyAt_ok {i c : Nat} {core : State (R α)} {v : α} (h : applyAt wb S i c core = .ok v) :
    applyF S i (valueOf wb core) = .ok v := by
  unfold applyAt at h
  cases hf : S.fault i c with
  | none => rw [hf] at h; exact h
  | some x => rw [hf] at h; cases h

/-! ### lazy evaluation with failures -/

theorem evalX_spec (hwf : WF wb) (hs : SLocal wb S) (hD : Balanced D) (P : Nat → Prop)
    (hP : ∀ m, P m → ∀ j, j ∈ wb.deps m → P j) (hq : QuietOn S P) :
    ∀ fuel i (s : FState α), i < fuel → i < wb.n → XPre wb S s.core →
      XPost wb S P s i (evalX wb S D fuel i s) := by
  intro fuel
  induction fuel with
  | zero => intro i s h; omega
  | succ fuel ih =>
    intro i s hi hn hp
    by_cases hk : wb.kind i = .input
    · have hE : evalX wb S D (fuel+1) i s = (s.core.inp i, s) := by simp [evalX, hk]
      rw [hE]
      obtain ⟨a, ha⟩ := hp.inpOk i
      refine ⟨Grows.refl _, hp, SameTr.refl s, fun v hv => ?_, fun _ _ h => absurd hk h, fun e he => ?_, fun _ => ?_⟩
      · rw [denote_input _ hk]; exact hv
      · simp only at he; rw [ha] at he; cases he
      · rw [denote_input _ hk]
    · cases hc : s.core.cache i with
      | some w =>
        have hE : evalX wb S D (fuel+1) i s = (w, s) := by
          cases hk' : wb.kind i
          · exact absurd hk' hk
          all_goals simp [evalX, hk', hc]
        rw [hE]
        obtain ⟨a, ha⟩ := hp.allOk i w hc
        have hw := hp.i1 i w hc
        refine ⟨Grows.refl _, hp, SameTr.refl s, fun v hv => ?_, fun v hv _ => ?_, fun e he => ?_, fun _ => hw⟩
        · simp only at hv; rw [← hw, hv]
        · simp only at hv; rw [hc, hv]
        · simp only at he; rw [ha] at he; cases he
      | none =>
        have hdeps : ∀ j, j ∈ wb.deps i → j < fuel ∧ j < wb.n := fun j hj => by
          have := hwf.lt i j hj; omega
        have hPd : P i → ∀ j, j ∈ wb.deps i → P j := fun h => hP i h
        cases hk' : wb.kind i with
        | input => exact absurd hk' hk
        | range =>
          have dp := evalDeps_spec (wb := wb) (S := S) (P := P) (evalX wb S D fuel) (wb.deps i) s
            (fun j hj s' hs' => ih j s' (hdeps j hj).1 (hdeps j hj).2 hs') hp
          generalize hr : evalDeps (evalX wb S D fuel) (wb.deps i) s = r at dp
          cases hr1 : r.1 with
          | some e =>
            have hE : evalX wb S D (fuel+1) i s = (.error e, r.2) := by simp [evalX, hk', hc, hr, hr1]
            rw [hE]
            refine ⟨dp.grows, dp.pre, dp.tr, (fun v hv => by cases hv), (fun v hv => by cases hv), fun e' he' => ?_,
              fun hPi => ?_⟩
            · simp only at he'; injection he' with he'; subst he'; exact dp.cls e hr1
            · have hff := dp.exact (hPd hPi)
              rw [hr1] at hff
              have := denote_fail hwf hs s.core.inp hk hff
              rw [hk'] at this
              exact this.symm
          | none =>
            have henv := env_eq hwf hs dp.grows dp.pre hk (dp.okAll hr1)
            cases ha : applyF S i (valueOf wb r.2.core) with
            | error e =>
              have hE : evalX wb S D (fuel+1) i s = (.error e, r.2) := by simp [evalX, hk', hc, hr, hr1, ha]
              rw [hE]
              refine ⟨dp.grows, dp.pre, dp.tr, (fun v hv => by cases hv), (fun v hv => by cases hv), fun e' he' => ?_,
                fun _ => ?_⟩
              · simp only at he'; injection he' with he'; subst he'; exact applyF_cls ha
              · rw [← henv, ha]
            | ok v =>
              have hE : evalX wb S D (fuel+1) i s =
                  (.ok v, { r.2 with core := { r.2.core with cache := update r.2.core.cache i (some (.ok v)) } }) := by
                simp [evalX, hk', hc, hr, hr1, ha]
              rw [hE]
              have hv : denote wb (lift wb S) r.2.core.inp i = .ok v := by
                rw [dp.grows.inp, ← henv, ha]
              have st := store_spec hwf dp.pre hk hn hv (fun j hj hkj => (dp.okAll hr1 j hj).2 hkj)
              refine ⟨dp.grows.trans st.1, st.2, ⟨dp.tr.errs, dp.tr.ctx, dp.tr.gt, dp.tr.rt⟩,
                fun v' hv' => ?_, fun v' hv' _ => ?_, (fun e he => by cases he), fun _ => ?_⟩
              · simp only at hv'; rw [← hv', ← henv, ha]
              · simp only at hv'; injection hv' with hv'; subst hv'; simp
              · rw [← henv, ha]
        | formula =>
          have dp := evalDeps_spec (wb := wb) (S := S) (P := P) (evalX wb S D fuel) (wb.deps i)
            { s with ctx := S.cse i :: s.ctx, errs := s.errs + S.pre i }
            (fun j hj s' hs' => ih j s' (hdeps j hj).1 (hdeps j hj).2 hs') hp
          generalize hr : evalDeps (evalX wb S D fuel) (wb.deps i)
            { s with ctx := S.cse i :: s.ctx, errs := s.errs + S.pre i } = r at dp
          have hctx : r.2.ctx.tail = s.ctx := by rw [dp.tr.ctx]; rfl
          cases hr1 : r.1 with
          | some e =>
            have hE : evalX wb S D (fuel+1) i s =
                (.error (wrap e), { r.2 with ctx := r.2.ctx.tail, errs := s.errs }) := by
              simp [evalX, hk', hc, hr, hr1, exitFail, hD.1]
            rw [hE]
            refine ⟨dp.grows, dp.pre, ⟨rfl, hctx, dp.tr.gt, dp.tr.rt⟩, (fun v hv => by cases hv),
              (fun v hv => by cases hv), fun e' he' => ?_, fun hPi => ?_⟩
            · simp only at he'; injection he' with he'; subst he'
              exact ⟨(wrap_cls e).1, fun hn => (wrap_cls e).2 ((dp.cls e hr1).2 hn)⟩
            · have hff := dp.exact (hPd hPi)
              rw [hr1] at hff
              have := denote_fail hwf hs s.core.inp hk hff
              rw [hk'] at this
              exact this.symm
          | none =>
            have henv := env_eq hwf hs dp.grows dp.pre hk (dp.okAll hr1)
            cases ha : applyAt wb S i (r.2.calls i) r.2.core with
            | error e =>
              have hE : evalX wb S D (fuel+1) i s =
                  (.error e, { r.2 with calls := update r.2.calls i (r.2.calls i + 1), ctx := r.2.ctx.tail,
                                        errs := s.errs }) := by
                simp [evalX, hk', hc, hr, hr1, ha, exitFail, hD.1]
              rw [hE]
              refine ⟨dp.grows, dp.pre, ⟨rfl, hctx, dp.tr.gt, dp.tr.rt⟩, (fun v hv => by cases hv),
                (fun v hv => by cases hv), fun e' he' => ?_, fun hPi => ?_⟩
              · simp only at he'; injection he' with he'; subst he'; exact applyAt_cls ha
              · rw [applyAt_quiet (hq i hPi _)] at ha
                show Except.error e = _
                rw [← ha]; exact henv
            | ok v =>
              have hE : evalX wb S D (fuel+1) i s =
                  (.ok v, { r.2 with calls := update r.2.calls i (r.2.calls i + 1), ctx := r.2.ctx.tail,
                                     errs := s.errs,
                                     core := { r.2.core with cache := update r.2.core.cache i (some (.ok v)) } }) := by
                simp [evalX, hk', hc, hr, hr1, ha, hD.2]
              rw [hE]
              have ha' := applyAt_ok ha
              have hv : denote wb (lift wb S) r.2.core.inp i = .ok v := by
                rw [dp.grows.inp]
                show denote wb (lift wb S) s.core.inp i = .ok v
                rw [← ha']; exact henv.symm
              have st := store_spec hwf dp.pre hk hn hv (fun j hj hkj => (dp.okAll hr1 j hj).2 hkj)
              refine ⟨dp.grows.trans st.1, st.2, ⟨rfl, hctx, dp.tr.gt, dp.tr.rt⟩,
                fun v' hv' => ?_, fun v' hv' _ => ?_, (fun e he => by cases he), fun _ => ?_⟩
              · simp only at hv'; rw [← hv', ← ha']; exact henv.symm
              · simp only at hv'; injection hv' with hv'; subst hv'; simp
              · show Except.ok v = _
                rw [← ha']; exact henv
/-! ### build on demand -/

/-- `s'` is `s` with more nodes in the cell map and more queued ranges (all of them `< n` and in `Q`) -/
structure MarkRel (wb : Workbook) (Q : Nat → Prop) (s s' : FState α) : Prop where
  inp : s'.core.inp = s.core.inp
  cache : s'.core.cache = s.core.cache
  stored : s'.core.stored = s.core.stored
  errs : s'.errs = s.errs
  ctx : s'.ctx = s.ctx
  built : ∀ m, s.core.built m = true → s'.core.built m = true
  rt : ∀ r, r ∈ s'.rangeTodos → r ∈ s.rangeTodos ∨ (r < wb.n ∧ Q r)

theorem MarkRel.refl (Q : Nat → Prop) (s : FState α) : MarkRel wb Q s s :=
  ⟨rfl, rfl, rfl, rfl, rfl, fun _ h => h, fun _ h => Or.inl h⟩

theorem MarkRel.trans {Q : Nat → Prop} {s s' s'' : FState α} (h1 : MarkRel wb Q s s') (h2 : MarkRel wb Q s' s'') :
    MarkRel wb Q s s'' :=
  ⟨h2.inp.trans h1.inp, h2.cache.trans h1.cache, h2.stored.trans h1.stored, h2.errs.trans h1.errs,
   h2.ctx.trans h1.ctx, fun m hm => h2.built m (h1.built m hm), fun r hr => by
    rcases h2.rt r hr with h | h
    · exact h1.rt r h
    · exact Or.inr h⟩

theorem markFold_spec {Q : Nat → Prop} (g : Nat → FState α → FState α) :
    ∀ (L : List Nat) (s : FState α), (∀ j, j ∈ L → ∀ st, MarkRel wb Q st (g j st)) →
      MarkRel wb Q s (L.foldl (fun st j => g j st) s) := by
  intro L
  induction L with
  | nil => intro s _; exact MarkRel.refl Q s
  | cons a L ih =>
    intro s h
    simp only [List.foldl_cons]
    exact (h a (by simp) s).trans (ih (g a s) (fun j hj => h j (by simp [hj])))

theorem markF_spec (hwf : WF wb) (Q : Nat → Prop) (hQ : ∀ m, Q m → ∀ j, j ∈ wb.deps m → Q j) :
    ∀ fuel i (s : FState α), i < wb.n → Q i → MarkRel wb Q s (markF wb S fuel i s) := by
  intro fuel
  induction fuel with
  | zero => intro i s _ _; exact MarkRel.refl Q s
  | succ fuel ih =>
    intro i s hn hqi
    by_cases hb : s.core.built i = true
    · have : markF wb S (fuel+1) i s = s := by simp [markF, hb]
      rw [this]; exact MarkRel.refl Q s
    · simp only [markF, hb]
      refine MarkRel.trans ?_ (markFold_spec (fun j st => markF wb S fuel j st) (wb.deps i) _
        (fun j hj st => ih j st (by have := hwf.lt i j hj; omega) (hQ i hqi j hj)))
      refine ⟨rfl, rfl, rfl, rfl, rfl, fun m hm => ?_, fun r hr => ?_⟩
      · by_cases hmi : m = i
        · subst hmi; simp
        · simp only [update_ne _ _ hmi]; exact hm
      · simp only at hr
        split at hr
        · rcases List.mem_append.mp hr with h | h
          · exact Or.inl h
          · simp at h; subst h; exact Or.inr ⟨hn, hqi⟩
        · exact Or.inl hr

theorem XPre.of_same {c c' : State (R α)} (hi : c'.inp = c.inp) (hc : c'.cache = c.cache) (h : XPre wb S c) :
    XPre wb S c' :=
  ⟨fun m v hv => by rw [hi]; exact h.i1 m v (by rw [← hc]; exact hv),
   fun m hm => by have := h.closed m (by rw [← hc]; exact hm); rw [hc]; exact this,
   fun m v hv => h.allOk m v (by rw [← hc]; exact hv), fun m => by rw [hi]; exact h.inpOk m⟩

structure BuildXPost (wb : Workbook) (S : Sem α) (P : Nat → Prop) (s : FState α) (r : Option Fail × FState α) :
    Prop where
  pre : XPre wb S r.2.core
  clean : Clean r.2
  inp : r.2.core.inp = s.core.inp
  stored : r.2.core.stored = s.core.stored
  keeps : ∀ m, s.core.cache m ≠ none → r.2.core.cache m = s.core.cache m
  mono : ∀ m, s.core.built m = true → r.2.core.built m = true
  cls : ∀ e, r.1 = some e → e ≠ .assertion ∧ (NoRec S → e ≠ .recursion)

theorem buildX_spec (hwf : WF wb) (hs : SLocal wb S) (hD : Balanced D) (P : Nat → Prop)
    (hP : ∀ m, P m → ∀ j, j ∈ wb.deps m → P j) (hq : QuietOn S P) {s : FState α} (hp : XPre wb S s.core)
    (hc : Clean s) (a : Nat) (ha : a < wb.n) :
    BuildXPost wb S P s (buildX wb S D a s) ∧
    (∀ Q : Nat → Prop, (∀ m, Q m → ∀ j, j ∈ wb.deps m → Q j) → (∀ m, Q m → P m) → Q a →
      (∀ m, Q m → ∃ w, denote wb (lift wb S) s.core.inp m = .ok w) → (buildX wb S D a s).1 = none) := by
  have key : ∀ Q : Nat → Prop, (∀ m, Q m → ∀ j, j ∈ wb.deps m → Q j) → Q a →
      BuildXPost wb S P s (buildX wb S D a s) ∧
      ((∀ m, Q m → P m) → (∀ m, Q m → ∃ w, denote wb (lift wb S) s.core.inp m = .ok w) →
        (buildX wb S D a s).1 = none) := by
    intro Q hQ hqa
    have mk := markF_spec (S := S) hwf Q hQ (a+1) a s ha hqa
    generalize hs1 : markF wb S (a+1) a s = s1 at mk
    have hp1 : XPre wb S s1.core := XPre.of_same mk.inp mk.cache hp
    have hrt : ∀ r, r ∈ s1.rangeTodos.reverse → r < wb.n ∧ Q r := fun r hr => by
      rcases mk.rt r (List.mem_reverse.mp hr) with h | h
      · rw [hc.2.2.2] at h; simp at h
      · exact h
    have dp := evalDeps_spec (wb := wb) (S := S) (P := P) (fun j st => evalX wb S D (j+1) j st)
      s1.rangeTodos.reverse { s1 with graphTodos := [] }
      (fun j hj s' hs' => evalX_spec hwf hs hD P hP hq (j+1) j s' (by omega) (hrt j hj).1 hs') hp1
    have hE : buildX wb S D a s =
        ((evalDeps (fun j st => evalX wb S D (j+1) j st) s1.rangeTodos.reverse { s1 with graphTodos := [] }).1,
         { (evalDeps (fun j st => evalX wb S D (j+1) j st) s1.rangeTodos.reverse
              { s1 with graphTodos := [] }).2 with rangeTodos := [] }) := by
      simp [buildX, hs1]
    rw [hE]
    generalize evalDeps (fun j st => evalX wb S D (j+1) j st) s1.rangeTodos.reverse
      { s1 with graphTodos := [] } = r at dp
    refine ⟨⟨dp.pre, ⟨?_, ?_, dp.tr.gt, rfl⟩, ?_, ?_, fun m hm => ?_, fun m hm => ?_, dp.cls⟩, fun hQP hok => ?_⟩
    · show r.2.errs = 0
      rw [dp.tr.errs]; show s1.errs = 0; rw [mk.errs]; exact hc.1
    · show r.2.ctx = []
      rw [dp.tr.ctx]; show s1.ctx = []; rw [mk.ctx]; exact hc.2.1
    · show r.2.core.inp = s.core.inp
      rw [dp.grows.inp]; exact mk.inp
    · show r.2.core.stored = s.core.stored
      rw [dp.grows.stored]; exact mk.stored
    · show r.2.core.cache m = s.core.cache m
      have : s1.core.cache m ≠ none := by rw [mk.cache]; exact hm
      rw [dp.grows.cache m this, mk.cache]
    · show r.2.core.built m = true
      rw [dp.grows.built]; exact mk.built m hm
    · have hex := dp.exact (fun j hj => hQP j (hrt j hj).2)
      show r.1 = none
      rw [← hex]
      apply firstFail_none
      intro j hj
      have := hok j (hrt j hj).2
      rw [← mk.inp] at this
      exact this
  refine ⟨(key (fun _ => True) (fun _ _ _ _ => trivial) trivial).1, fun Q hQ hQP hqa hok => ?_⟩
  exact (key Q hQ hqa).2 hQP hok

/-! ### evaluate -/

theorem firstFail_none_inv (e : Nat → R α) :
    ∀ L : List Nat, firstFail e L = none → ∀ j, j ∈ L → ∃ v, e j = .ok v := by
  intro L
  induction L with
  | nil => intro _ j hj; simp at hj
  | cons a L ih =>
    intro h j hj
    cases ha : e a with
    | error x => simp [firstFail, ha] at h
    | ok v =>
      simp only [firstFail, ha] at h
      rcases List.mem_cons.mp hj with rfl | hj
      · exact ⟨v, ha⟩
      · exact ih h j hj

/-- a node that has a from-scratch value has precedents that all have one -/
theorem denote_ok_deps (hwf : WF wb) (hs : SLocal wb S) (inp : Nat → R α) {m : Nat} {w : α}
    (h : denote wb (lift wb S) inp m = .ok w) : ∀ j, j ∈ wb.deps m → ∃ w', denote wb (lift wb S) inp j = .ok w' := by
  intro j hj
  by_cases hk : wb.kind m = .input
  · rw [hwf.input m hk] at hj; simp at hj
  · rw [denote_node hwf (lift_local hs) _ hk] at h
    cases hff : firstFail (fun j => denote wb (lift wb S) inp j) (wb.deps m) with
    | none => exact firstFail_none_inv _ _ hff j hj
    | some e =>
      cases hk' : wb.kind m with
      | input => exact absurd hk' hk
      | range => simp [lift, hk', hff] at h
      | formula => simp [lift, hk', hff] at h

theorem Good.pre {s : FState α} (h : Good wb S s) : XPre wb S s.core :=
  ⟨h.inv.i1, h.inv.closed, h.allOk, h.inpOk⟩

theorem Good.of_pre {s : FState α} (h : XPre wb S s.core) (hst : ∀ j, s.core.stored j = none) : Good wb S s :=
  ⟨⟨h.i1, h.closed, Or.inl hst⟩, h.allOk, h.inpOk, hst⟩

structure EvXPost (wb : Workbook) (S : Sem α) (P : Nat → Prop) (s : FState α) (a : Nat) (r : R α × FState α) :
    Prop where
  good : Good wb S r.2
  clean : Clean r.2
  inp : r.2.core.inp = s.core.inp
  keeps : ∀ m, s.core.cache m ≠ none → r.2.core.cache m = s.core.cache m
  mono : ∀ m, s.core.built m = true → r.2.core.built m = true
  sound : a < wb.n → ∀ v, r.1 = .ok v → denote wb (lift wb S) s.core.inp a = .ok v
  cached : a < wb.n → ∀ v, r.1 = .ok v → wb.kind a ≠ .input → r.2.core.cache a = some (.ok v)
  cls : a < wb.n → ∀ e, r.1 = .error e → e ≠ .assertion ∧ (NoRec S → e ≠ .recursion)
  exact : a < wb.n → P a → ∀ v, denote wb (lift wb S) s.core.inp a = .ok v → r.1 = .ok v

theorem evaluateX_spec (hwf : WF wb) (hs : SLocal wb S) (hD : Balanced D) (P : Nat → Prop)
    (hP : ∀ m, P m → ∀ j, j ∈ wb.deps m → P j) (hq : QuietOn S P) {s : FState α} (hg : Good wb S s)
    (hc : Clean s) (a : Nat) : EvXPost wb S P s a (evaluateX wb S D a s) := by
  unfold evaluateX
  split
  · rename_i ha
    have b := buildX_spec (D := D) hwf hs hD P hP hq hg.pre hc a ha
    cases hb : (buildX wb S D a s).1 with
    | some e =>
      simp only
      refine ⟨Good.of_pre b.1.pre (fun j => by rw [b.1.stored]; exact hg.noStored j), b.1.clean, b.1.inp, b.1.keeps,
        b.1.mono, (fun _ v hv => by cases hv), (fun _ v hv => by cases hv), fun _ e' he' => ?_, fun _ hPa v hv => ?_⟩
      · injection he' with he'; subst he'; exact b.1.cls e hb
      · exfalso
        have := b.2 (fun m => P m ∧ ∃ w, denote wb (lift wb S) s.core.inp m = .ok w)
          (fun m hm j hj => ⟨hP m hm.1 j hj, by
            obtain ⟨w, hw⟩ := hm.2
            exact denote_ok_deps hwf hs _ hw j hj⟩)
          (fun m hm => hm.1) ⟨hPa, v, hv⟩ (fun m hm => hm.2)
        rw [hb] at this; cases this
    | none =>
      simp only
      have p := evalX_spec hwf hs hD P hP hq (a+1) a (buildX wb S D a s).2 (by omega) ha b.1.pre
      refine ⟨Good.of_pre p.pre (fun j => by rw [p.grows.stored, b.1.stored]; exact hg.noStored j), ?_,
        by rw [p.grows.inp, b.1.inp], fun m hm => ?_, fun m hm => by rw [p.grows.built]; exact b.1.mono m hm,
        fun _ v hv => by rw [← b.1.inp]; exact p.sound v hv, fun _ v hv hk => p.cached v hv hk,
        fun _ e he => p.cls e he, fun _ hPa v hv => ?_⟩
      · exact ⟨by rw [p.tr.errs]; exact b.1.clean.1, by rw [p.tr.ctx]; exact b.1.clean.2.1,
          by rw [p.tr.gt]; exact b.1.clean.2.2.1, by rw [p.tr.rt]; exact b.1.clean.2.2.2⟩
      · have hk := b.1.keeps m hm
        rw [p.grows.cache m (by rw [hk]; exact hm), hk]
      · rw [p.exact hPa, b.1.inp]; exact hv
  · exact ⟨hg, hc, rfl, fun _ _ => rfl, fun _ h => h, fun h => absurd h ‹_›, fun h => absurd h ‹_›,
      fun h => absurd h ‹_›, fun h => absurd h ‹_›⟩

/-! ### set_value on a value cell -/

theorem setValue_effect {β : Type} (hwf : WF wb) (eqv : β → β → Bool) (i : Nat) (v : β) (c : State β)
    (hb : Bound wb c) :
    (∀ m, (setValue wb eqv i v c).cache m = none ∨ (setValue wb eqv i v c).cache m = c.cache m) ∧
    ((setValue wb eqv i v c).inp = c.inp ∨ (setValue wb eqv i v c).inp = update c.inp i v) ∧
    ((∀ j, c.stored j = none) → ∀ j, (setValue wb eqv i v c).stored j = none) := by
  unfold setValue
  split
  · split
    · exact ⟨fun _ => Or.inr rfl, Or.inl rfl, fun h => h⟩
    · have loop := resetLoop_spec (wb := wb) (P := fun _ => False) (resetF wb wb.n) (succs wb i)
        ({ c with inp := update c.inp i v, stored := fun _ => none } : State β)
        (fun j _ st hst _ => resetF_spec hwf _ wb.n j st (by omega) hst) hb
      exact ⟨fun m => loop.1.cache m, Or.inr loop.1.inp, fun _ j => by rw [loop.1.stored]⟩
  · exact ⟨fun _ => Or.inr rfl, Or.inl rfl, fun h => h⟩

theorem setValueX_good (hwf : WF wb) (hs : SLocal wb S) (eqv : R α → R α → Bool) {s : FState α} (hg : Good wb S s)
    (i : Nat) (v : α) : Good wb S (setValueX wb eqv i v s) := by
  have eff := setValue_effect hwf eqv i (.ok v) s.core hg.inv.closed.bound
  refine ⟨setValue_inv hwf (lift_local hs) eqv hg.inv i (.ok v), fun m w hw => ?_, fun m => ?_,
    eff.2.2 hg.noStored⟩
  · rcases eff.1 m with h | h
    · rw [show (setValueX wb eqv i v s).core.cache m = none from h] at hw; cases hw
    · exact hg.allOk m w (by rw [← h]; exact hw)
  · rcases eff.2.1 with h | h
    · rw [show (setValueX wb eqv i v s).core.inp = s.core.inp from h]; exact hg.inpOk m
    · rw [show (setValueX wb eqv i v s).core.inp = update s.core.inp i (.ok v) from h]
      by_cases hm : m = i
      · subst hm; exact ⟨v, by simp⟩
      · rw [update_ne _ _ hm]; exact hg.inpOk m

/-! ### set_value over a formula cell: the repaired workbook -/

theorem repairWb_wf (hwf : WF wb) (i : Nat) : WF (repairWb wb i) := by
  refine ⟨fun k j hj => ?_, fun k hk => ?_⟩
  · by_cases hki : k = i
    · subst hki; simp [repairWb] at hj
    · simp only [repairWb, update_ne _ _ hki] at hj; exact hwf.lt k j hj
  · by_cases hki : k = i
    · subst hki; simp [repairWb]
    · simp only [repairWb, update_ne _ _ hki] at hk ⊢; exact hwf.input k hk

theorem repairWb_local (hs : SLocal wb S) (i : Nat) : SLocal (repairWb wb i) S := by
  intro k e e' hk h
  by_cases hki : k = i
  · subst hki; simp [repairWb] at hk
  · simp only [repairWb, update_ne _ _ hki] at hk h; exact hs k e e' hk h

theorem denote_repair (hwf : WF wb) (hs : SLocal wb S) (inp : Nat → R α) (i : Nat) :
    ∀ m, denote (repairWb wb i) (lift (repairWb wb i) S)
        (update inp i (denote wb (lift wb S) inp i)) m = denote wb (lift wb S) inp m := by
  have hwf' := repairWb_wf hwf i
  have hs' := repairWb_local (S := S) hs i
  intro m
  induction m using Nat.strongRecOn with
  | _ m ih =>
    by_cases hmi : m = i
    · subst hmi
      rw [denote_input _ (by simp [repairWb])]; simp
    · have hkm : (repairWb wb i).kind m = wb.kind m := by simp [repairWb, update_ne _ _ hmi]
      have hdm : (repairWb wb i).deps m = wb.deps m := by simp [repairWb, update_ne _ _ hmi]
      by_cases hk : wb.kind m = .input
      · rw [denote_input _ (by rw [hkm]; exact hk), denote_input _ hk, update_ne _ _ hmi]
      · rw [denote_node hwf' (lift_local hs') _ (by rw [hkm]; exact hk), denote_node hwf (lift_local hs) _ hk]
        have henv : ∀ j, j ∈ wb.deps m →
            denote (repairWb wb i) (lift (repairWb wb i) S) (update inp i (denote wb (lift wb S) inp i)) j =
              denote wb (lift wb S) inp j := fun j hj => ih j (hwf.lt m j hj)
        have hff := firstFail_congr _ _ (wb.deps m) henv
        have happ := applyF_congr hs hk _ _ henv
        cases hk' : wb.kind m with
        | input => exact absurd hk' hk
        | range => simp only [lift, hkm, hdm, hk', hff, happ]
        | formula => simp only [lift, hkm, hdm, hk', hff, happ]

theorem repair_good (hwf : WF wb) (hs : SLocal wb S) (eqv : R α → R α → Bool)
    (hsound : ∀ a b, eqv a b = true → a = b) {s : FState α} (hg : Good wb S s) (i : Nat) (v : α)
    (hi : i < wb.n) (hb : s.core.built i = true) :
    Good (repairWb wb i) S (repair wb S eqv i v s) ∧
    (repair wb S eqv i v s).core.inp = update s.core.inp i (.ok v) ∧
    Clean (repair wb S eqv i v s) = Clean s := by
  have hwf' := repairWb_wf hwf i
  have hs' := repairWb_local (S := S) hs i
  generalize hc1 : ({ s.core with inp := update s.core.inp i (denote wb (lift wb S) s.core.inp i),
                                   cache := update s.core.cache i none } : State (R α)) = c1
  have hrep : (repair wb S eqv i v s).core = setValue (repairWb wb i) eqv i (.ok v) c1 := by
    subst hc1; rfl
  have hinp1 : c1.inp = update s.core.inp i (denote wb (lift wb S) s.core.inp i) := by subst hc1; rfl
  have hcache1 : ∀ m, m ≠ i → c1.cache m = s.core.cache m := fun m hm => by subst hc1; simp [update_ne _ _ hm]
  have hcache1i : c1.cache i = none := by subst hc1; simp
  have hst1 : ∀ j, c1.stored j = none := fun j => by subst hc1; exact hg.noStored j
  have hbuilt1 : c1.built i = true := by subst hc1; exact hb
  have hden : ∀ m, denote (repairWb wb i) (lift (repairWb wb i) S) c1.inp m =
      denote wb (lift wb S) s.core.inp m := by rw [hinp1]; exact denote_repair hwf hs _ i
  have hinv1 : Inv (repairWb wb i) (lift (repairWb wb i) S) c1 := by
    refine ⟨fun m w hw => ?_, fun m hm => ?_, Or.inl hst1⟩
    · have hmi : m ≠ i := fun e => by rw [e, hcache1i] at hw; cases hw
      rw [hden m]; exact hg.inv.i1 m w (by rw [← hcache1 m hmi]; exact hw)
    · have hmi : m ≠ i := fun e => by rw [e] at hm; exact hm hcache1i
      obtain ⟨a, b, c⟩ := hg.inv.closed m (by rw [← hcache1 m hmi]; exact hm)
      refine ⟨by simpa [repairWb, update_ne _ _ hmi] using a, b, fun j hj => ?_⟩
      simp only [repairWb, update_ne _ _ hmi] at hj
      by_cases hji : j = i
      · left; subst hji; simp [repairWb]
      · rcases c j hj with h | h
        · left; simpa [repairWb, update_ne _ _ hji] using h
        · right; rw [hcache1 j hji]; exact h
  have eff := setValue_effect hwf' eqv i (.ok v) c1 hinv1.closed.bound
  have hinp := setValue_inp hwf' (lift_local hs') eqv hsound hinv1 i (.ok v)
  have hcond : i < (repairWb wb i).n ∧ (repairWb wb i).kind i = .input ∧ c1.built i = true :=
    ⟨hi, by simp [repairWb], hbuilt1⟩
  rw [if_pos hcond] at hinp
  have hinpF : (repair wb S eqv i v s).core.inp = update s.core.inp i (.ok v) := by
    rw [hrep, hinp, hinp1]
    funext k
    by_cases hk : k = i
    · subst hk; simp
    · simp [update_ne _ _ hk]
  refine ⟨⟨by rw [hrep]; exact setValue_inv hwf' (lift_local hs') eqv hinv1 i (.ok v), fun m w hw => ?_,
    fun m => ?_, fun j => by rw [hrep]; exact eff.2.2 hst1 j⟩, hinpF, rfl⟩
  · rw [hrep] at hw
    rcases eff.1 m with h | h
    · rw [h] at hw; cases hw
    · rw [h] at hw
      have hmi : m ≠ i := fun e => by rw [e, hcache1i] at hw; cases hw
      exact hg.allOk m w (by rw [← hcache1 m hmi]; exact hw)
  · rw [hinpF]
    by_cases hm : m = i
    · subst hm; exact ⟨v, by simp⟩
    · rw [update_ne _ _ hm]; exact hg.inpOk m

/-! ### histories -/

/-- the model is well-formed, consistent and its transient state is at its initial value -/
structure GoodM (S : Sem α) (m : Model α) : Prop where
  wf : WF m.wb
  loc : SLocal m.wb S
  good : Good m.wb S m.st
  clean : Clean m.st

theorem stepM_good (hD : Balanced D) (eqv : R α → R α → Bool) (hsound : ∀ a b, eqv a b = true → a = b)
    {m : Model α} (h : GoodM S m) (op : XOp α) : GoodM S (stepM S D eqv m op) := by
  cases op with
  | eval a =>
    have e := evaluateX_spec (D := D) h.wf h.loc hD (fun _ => False) (fun _ hm => hm.elim) (fun _ hm => hm.elim)
      h.good h.clean a
    exact ⟨h.wf, h.loc, e.good, e.clean⟩
  | set i v =>
    simp only [stepM]
    split
    · exact ⟨h.wf, h.loc, setValueX_good h.wf h.loc eqv h.good i v, h.clean⟩
    · split
      · rename_i hc
        have r := repair_good h.wf h.loc eqv hsound h.good i v hc.1 hc.2
        exact ⟨repairWb_wf h.wf i, repairWb_local h.loc i, r.1, by rw [r.2.2]; exact h.clean⟩
      · exact h
    · exact h

theorem runM_good (hD : Balanced D) (eqv : R α → R α → Bool) (hsound : ∀ a b, eqv a b = true → a = b)
    (h : List (XOp α)) : ∀ {m : Model α}, GoodM S m → GoodM S (runM S D eqv m h) := by
  induction h with
  | nil => intro m hm; exact hm
  | cons op h ih => intro m hm; exact ih (stepM_good hD eqv hsound hm op)

theorem initX_good (wb : Workbook) (S : Sem α) (inp : Nat → α) : Good wb S (initX inp) ∧ Clean (initX inp) :=
  ⟨⟨initNoData_inv _, fun m v h => by simp [initX, initNoData] at h, fun m => ⟨inp m, rfl⟩, fun _ => rfl⟩,
   rfl, rfl, rfl, rfl⟩

/-! ### iterative mode: the work-in-progress flags and the transient state are restored -/

structure ISame (s s' : IState α) : Prop where
  wip : ∀ m, (s'.cells m).wip = (s.cells m).wip
  errs : s'.errs = s.errs
  ctx : s'.ctx = s.ctx

theorem ISame.refl (s : IState α) : ISame s s := ⟨fun _ => rfl, rfl, rfl⟩

theorem ISame.trans {s s' s'' : IState α} (h1 : ISame s s') (h2 : ISame s' s'') : ISame s s'' :=
  ⟨fun m => (h2.wip m).trans (h1.wip m), h2.errs.trans h1.errs, h2.ctx.trans h1.ctx⟩

theorem evalDepsI_same (ev : Nat → IState α → R α × IState α) (h : ∀ j s', ISame s' (ev j s').2) :
    ∀ (L : List Nat) (s : IState α), ISame s (evalDepsI ev L s).2.2 := by
  intro L
  induction L with
  | nil => intro s; exact ISame.refl s
  | cons a L ih =>
    intro s
    cases h1 : (ev a s).1 with
    | error e => simp only [evalDepsI, h1]; exact h a s
    | ok v => simp only [evalDepsI, h1]; exact (h a s).trans (ih (ev a s).2)

theorem evalI_restores (hD : Balanced D) :
    ∀ fuel i (s : IState α), ISame s (evalI wb S D true fuel i s).2 := by
  intro fuel
  induction fuel with
  | zero => intro i s; exact ISame.refl s
  | succ fuel ih =>
    intro i s
    cases hk : wb.kind i with
    | input => simp only [evalI, hk]; exact ISame.refl s
    | range => simp only [evalI, hk]; exact ISame.refl s
    | formula =>
      simp only [evalI, hk]
      split
      · exact ISame.refl s
      · rename_i hw
        split
        · exact ISame.refl s
        · have dp := evalDepsI_same (evalI wb S D true fuel) (fun j s' => ih j s') (wb.deps i)
            { s with cells := update s.cells i { s.cells i with wip := true, prev := (s.cells i).val },
                     ctx := S.cse i :: s.ctx, errs := s.errs + S.pre i }
          generalize evalDepsI (evalI wb S D true fuel) (wb.deps i)
            { s with cells := update s.cells i { s.cells i with wip := true, prev := (s.cells i).val },
                     ctx := S.cse i :: s.ctx, errs := s.errs + S.pre i } = r at dp
          have hwip : ∀ m, m ≠ i → (r.2.2.cells m).wip = (s.cells m).wip := fun m hm => by
            rw [dp.wip m]; simp [update_ne _ _ hm]
          have hctx : r.2.2.ctx.tail = s.ctx := by rw [dp.ctx]; rfl
          have hwi : (s.cells i).wip = false := by simpa using hw
          split
          · refine ⟨fun m => ?_, ?_, ?_⟩
            · by_cases hm : m = i
              · subst hm; simp [abandon, hwi]
              · simp [abandon, update_ne _ _ hm, hwip m hm]
            · simp [abandon, hD.1]
            · simp [abandon, hctx]
          · split
            · refine ⟨fun m => ?_, ?_, ?_⟩
              · by_cases hm : m = i
                · subst hm; simp [abandon, hwi]
                · simp [abandon, update_ne _ _ hm, hwip m hm]
              · simp [abandon, hD.1]
              · simp [abandon, hctx]
            · refine ⟨fun m => ?_, ?_, ?_⟩
              · by_cases hm : m = i
                · subst hm; simp [hwi]
                · simp [update_ne _ _ hm, hwip m hm]
              · simp [hD.2]
              · simp [hctx]

/-- a persistently broken formula cell that is neither on the stack nor computed fails whenever it is evaluated -/
theorem evalI_broken (restore : Bool) {b : Nat} (hk : wb.kind b = .formula)
    (hbr : ∀ env, ∃ x, S.f b env = .error x) (fuel : Nat) (s : IState α)
    (hw : (s.cells b).wip = false) (hc : s.computed b = false) :
    ∃ e, (evalI wb S D restore fuel b s).1 = .error e := by
  cases fuel with
  | zero => exact ⟨_, rfl⟩
  | succ fuel =>
    simp only [evalI, hk, hw, hc]
    simp only [Bool.false_eq_true, if_false]
    split
    · exact ⟨_, rfl⟩
    · split
      · exact ⟨_, rfl⟩
      · rename_i v hv
        exfalso
        split at hv
        · cases hv
        · obtain ⟨x, hx⟩ := hbr (envOf S.dflt (wb.deps b)
            (evalDepsI (evalI wb S D restore fuel) (wb.deps b)
              { s with cells := update s.cells b { s.cells b with wip := true, prev := (s.cells b).val },
                       ctx := S.cse b :: s.ctx, errs := s.errs + S.pre b }).2.1)
          rw [hx] at hv; cases hv

/-! ### iterative mode: a cell with a read path to a broken cell fails (path invariant) -/

/-- computed in this pass, or on the evaluation stack: the cells the evaluator does not enter again -/
def InD (s : IState α) (m : Nat) : Prop := s.computed m = true ∨ (s.cells m).wip = true

/-- every cell computed in this pass has read formula precedents that are computed or on the stack
    (true at the start of a pass, kept by every successful evaluation) -/
def PassClosed (wb : Workbook) (s : IState α) : Prop :=
  ∀ m, wb.kind m = .formula → s.computed m = true →
    ∀ j, j ∈ wb.deps m → wb.kind j = .formula → InD s j

structure OkPost (wb : Workbook) (b : Nat) (s s' : IState α) : Prop where
  closed : PassClosed wb s'
  nb : s'.computed b = false
  wip : ∀ m, (s'.cells m).wip = (s.cells m).wip
  mono : ∀ m, s.computed m = true → s'.computed m = true

theorem OkPost.inD {b : Nat} {s s' : IState α} (h : OkPost wb b s s') {m : Nat} (hm : InD s m) : InD s' m := by
  rcases hm with h1 | h1
  · exact Or.inl (h.mono m h1)
  · exact Or.inr (by rw [h.wip m]; exact h1)

theorem OkPost.trans {b : Nat} {s s' s'' : IState α} (h1 : OkPost wb b s s') (h2 : OkPost wb b s' s'') :
    OkPost wb b s s'' :=
  ⟨h2.closed, h2.nb, fun m => (h2.wip m).trans (h1.wip m), fun m hm => h2.mono m (h1.mono m hm)⟩

theorem evalDepsI_ok {b : Nat} (ev : Nat → IState α → R α × IState α)
    (h : ∀ j (s' : IState α), PassClosed wb s' → s'.computed b = false → ∀ v, (ev j s').1 = .ok v →
      OkPost wb b s' (ev j s').2 ∧ (wb.kind j = .formula → InD (ev j s').2 j)) :
    ∀ (L : List Nat) (s : IState α), PassClosed wb s → s.computed b = false → (evalDepsI ev L s).1 = none →
      OkPost wb b s (evalDepsI ev L s).2.2 ∧ ∀ j, j ∈ L → wb.kind j = .formula → InD (evalDepsI ev L s).2.2 j := by
  intro L
  induction L with
  | nil => intro s hc hb _; exact ⟨⟨hc, hb, fun _ => rfl, fun _ h => h⟩, fun j hj => by simp at hj⟩
  | cons a L ih =>
    intro s hc hb hn
    cases h1 : (ev a s).1 with
    | error e => simp [evalDepsI, h1] at hn
    | ok v =>
      have p := h a s hc hb v h1
      simp only [evalDepsI, h1] at hn ⊢
      have q := ih (ev a s).2 p.1.closed p.1.nb hn
      refine ⟨p.1.trans q.1, fun j hj hk => ?_⟩
      rcases List.mem_cons.mp hj with rfl | hj
      · exact q.1.inD (p.2 hk)
      · exact q.2 j hj hk

theorem evalI_ok_post (restore : Bool) {b : Nat} (hbr : ∀ env, ∃ x, S.f b env = .error x) :
    ∀ fuel i (s : IState α), PassClosed wb s → s.computed b = false → ∀ v,
      (evalI wb S D restore fuel i s).1 = .ok v →
      OkPost wb b s (evalI wb S D restore fuel i s).2 ∧
      (wb.kind i = .formula → InD (evalI wb S D restore fuel i s).2 i) := by
  intro fuel
  induction fuel with
  | zero => intro i s _ _ v hv; simp [evalI] at hv
  | succ fuel ih =>
    intro i s hc hb v hv
    have hrefl : OkPost wb b s s := ⟨hc, hb, fun _ => rfl, fun _ h => h⟩
    cases hk : wb.kind i with
    | input => simp only [evalI, hk]; exact ⟨hrefl, fun h => by cases h⟩
    | range => simp only [evalI, hk]; exact ⟨hrefl, fun h => by cases h⟩
    | formula =>
      simp only [evalI, hk] at hv ⊢
      split
      · rename_i hw; exact ⟨hrefl, fun _ => Or.inr hw⟩
      · rename_i hw
        split
        · rename_i hcp; exact ⟨hrefl, fun _ => Or.inl hcp⟩
        · rename_i hcp
          rw [if_neg hw, if_neg hcp] at hv
          have hwi : (s.cells i).wip = false := by simpa using hw
          have hc0 : PassClosed wb
              ({ s with cells := update s.cells i { s.cells i with wip := true, prev := (s.cells i).val },
                        ctx := S.cse i :: s.ctx, errs := s.errs + S.pre i } : IState α) := by
            intro m hkm hcm j hj hkj
            rcases hc m hkm hcm j hj hkj with h1 | h1
            · exact Or.inl h1
            · right
              by_cases hji : j = i
              · subst hji; simp
              · simp [update_ne _ _ hji, h1]
          have dp := evalDepsI_ok (wb := wb) (b := b) (evalI wb S D restore fuel)
            (fun j s' a1 a2 v' a3 => ih j s' a1 a2 v' a3) (wb.deps i) _ hc0 hb
          generalize evalDepsI (evalI wb S D restore fuel) (wb.deps i)
            ({ s with cells := update s.cells i { s.cells i with wip := true, prev := (s.cells i).val },
                      ctx := S.cse i :: s.ctx, errs := s.errs + S.pre i } : IState α) = r at dp hv ⊢
          split
          · rename_i e he; rw [he] at hv; simp at hv
          · rename_i hr1
            rw [hr1] at hv
            have dq := dp hr1
            split
            · rename_i x hx; simp only at hv; rw [hx] at hv; simp at hv
            · rename_i w hw2
              have hib : i ≠ b := by
                intro e
                subst e
                cases hf : S.fault i (r.2.2.calls i) with
                | some x => rw [hf] at hw2; cases hw2
                | none =>
                  rw [hf] at hw2
                  obtain ⟨x, hx⟩ := hbr (envOf S.dflt (wb.deps i) r.2.1)
                  rw [hx] at hw2; cases hw2
              refine ⟨⟨?_, ?_, fun m => ?_, fun m hm => ?_⟩, fun _ => Or.inl (by simp)⟩
              · intro m hkm hcm j hj hkj
                have hjD : InD r.2.2 j := by
                  by_cases hmi : m = i
                  · subst hmi; exact dq.2 j hj hkj
                  · simp only [update_ne _ _ hmi] at hcm
                    exact dq.1.closed m hkm hcm j hj hkj
                by_cases hji : j = i
                · subst hji; left; simp
                · rcases hjD with h1 | h1
                  · left; simp [update_ne _ _ hji, h1]
                  · right; simp [update_ne _ _ hji, h1]
              · simp only [update_ne _ _ (Ne.symm hib)]; exact dq.1.nb
              · by_cases hmi : m = i
                · subst hmi; simp [hwi]
                · simp only [update_ne _ _ hmi]
                  rw [dq.1.wip m]; simp [update_ne _ _ hmi]
              · by_cases hmi : m = i
                · subst hmi; simp
                · simp only [update_ne _ _ hmi]; exact dq.1.mono m hm

/-- a read path from `a` to `b` through formula cells none of which is computed in this pass or on the evaluation
    stack in state `s` (the cells the evaluator really enters) -/
inductive ReadPath (wb : Workbook) (s : IState α) : Nat → Nat → Prop where
  | here {b : Nat} : wb.kind b = .formula → ¬ InD s b → ReadPath wb s b b
  | step {a j b : Nat} : wb.kind a = .formula → ¬ InD s a → j ∈ wb.deps a → ReadPath wb s j b → ReadPath wb s a b

theorem ReadPath.head {s : IState α} {a b : Nat} (h : ReadPath wb s a b) : wb.kind a = .formula ∧ ¬ InD s a := by
  cases h with
  | here hk hn => exact ⟨hk, hn⟩
  | step hk hn _ _ => exact ⟨hk, hn⟩

theorem ReadPath.last {s : IState α} {a b : Nat} (h : ReadPath wb s a b) : wb.kind b = .formula ∧ ¬ InD s b := by
  induction h with
  | here hk hn => exact ⟨hk, hn⟩
  | step _ _ _ _ ih => exact ih

/-- a path through formula cells, whatever the state -/
inductive FPath (wb : Workbook) : Nat → Nat → Prop where
  | here {b : Nat} : wb.kind b = .formula → FPath wb b b
  | step {a j b : Nat} : wb.kind a = .formula → j ∈ wb.deps a → FPath wb j b → FPath wb a b

theorem FPath.readPath {s : IState α} (hs : ∀ m, ¬ InD s m) {a b : Nat} (h : FPath wb a b) : ReadPath wb s a b := by
  induction h with
  | here hk => exact .here hk (hs _)
  | step hk hj _ ih => exact .step hk (hs _) hj ih

/-- in a state left by a successful evaluation, "computed" travels along a read path of the state before it -/
theorem computed_along {b : Nat} {s s' : IState α} (hp : OkPost wb b s s') {a c : Nat} (h : ReadPath wb s a c) :
    s'.computed a = true → s'.computed c = true := by
  induction h with
  | here _ _ => exact fun h => h
  | @step a j c hk _ hj hjc ih =>
    intro hca
    apply ih
    rcases hp.closed a hk hca j hj hjc.head.1 with h1 | h1
    · exact h1
    · exfalso
      rw [hp.wip j] at h1
      exact hjc.head.2 (Or.inr h1)

/-- an exception leaving `evalI` is never the bare assertion (balanced message discipline) -/
theorem evalI_err_cls (hD : Balanced D) (restore : Bool) (fuel i : Nat) (s : IState α) {e : Fail}
    (h : (evalI wb S D restore fuel i s).1 = .error e) : e ≠ .assertion := by
  cases fuel with
  | zero => simp [evalI] at h; subst h; simp
  | succ fuel =>
    cases hk : wb.kind i with
    | input => simp [evalI, hk] at h
    | range => simp [evalI, hk] at h
    | formula =>
      simp only [evalI, hk] at h
      split at h
      · cases h
      · split at h
        · cases h
        · split at h
          · rename_i e' _
            simp only [hD.1] at h
            injection h with h; subst h
            exact (wrap_cls e').1
          · split at h
            · rename_i x _
              simp only [hD.1] at h
              injection h with h; subst h
              exact (mapRaw_cls x).1
            · cases h

/-- the transitive statement: a cell with a read path to a persistently broken cell fails -/
theorem evalI_dependant_fails (restore : Bool) {b : Nat} (hbr : ∀ env, ∃ x, S.f b env = .error x)
    (fuel : Nat) {a : Nat} (s : IState α) (hc : PassClosed wb s) (hp : ReadPath wb s a b) :
    ∃ e, (evalI wb S D restore fuel a s).1 = .error e := by
  cases hr : (evalI wb S D restore fuel a s).1 with
  | error e => exact ⟨e, rfl⟩
  | ok v =>
    exfalso
    have hb : s.computed b = false := by
      have := hp.last.2
      cases hcb : s.computed b with
      | false => rfl
      | true => exact absurd (Or.inl hcb) this
    have post := evalI_ok_post (wb := wb) (D := D) restore hbr fuel a s hc hb v hr
    have ha : (evalI wb S D restore fuel a s).2.computed a = true := by
      rcases post.2 hp.head.1 with h1 | h1
      · exact h1
      · exfalso
        rw [post.1.wip a] at h1
        exact hp.head.2 (Or.inr h1)
    have := computed_along post.1 hp ha
    rw [post.1.nb] at this
    cases this

end Pycel.Failure

/-
  Helper lemmas for C19 (rounding family): floor / ceiling of a quotient by a positive unit, in multiplied-out form,
  so that the property theorems become linear arithmetic over `Rat`.
-/
import Pycel.Model.Rounding
namespace Pycel.Rounding

theorem div_mul_cancel' (x u : Rat) (hu : u ≠ 0) : x / u * u = x := by
  rw [Rat.div_def, Rat.mul_assoc, Rat.inv_mul_cancel _ hu, Rat.mul_one]

/-- `⌊x/u⌋·u ≤ x < (⌊x/u⌋+1)·u` for a positive unit -/
theorem floor_spec (u x : Rat) (hu : 0 < u) :
    ((x / u).floor : Rat) * u ≤ x ∧ x < (((x / u).floor : Rat) + 1) * u := by
  have h1 := Rat.floor_le (x / u)
  have h2 := Rat.lt_floor_add_one (x / u)
  have hx : x / u * u = x := div_mul_cancel' x u (by grind)
  constructor
  · have := Rat.mul_le_mul_of_nonneg_right h1 (Rat.le_of_lt hu)
    grind
  · have := Rat.mul_lt_mul_of_pos_right h2 hu
    grind

/-- `(⌈x/u⌉-1)·u < x ≤ ⌈x/u⌉·u` for a positive unit -/
theorem ceil_spec (u x : Rat) (hu : 0 < u) :
    (((x / u).ceil : Rat) - 1) * u < x ∧ x ≤ ((x / u).ceil : Rat) * u := by
  have h1 := @Rat.le_ceil (x / u)
  have h2 := @Rat.ceil_lt (x / u)
  have hx : x / u * u = x := div_mul_cancel' x u (by grind)
  constructor
  · have := Rat.mul_lt_mul_of_pos_right h2 hu
    grind
  · have := Rat.mul_le_mul_of_nonneg_right h1 (Rat.le_of_lt hu)
    grind

/-- an integer multiple of the unit is its own floor and ceiling -/
theorem floor_mul (u : Rat) (m : Int) (hu : 0 < u) : ((m : Rat) * u / u).floor = m := by
  have : (m : Rat) * u / u = m := by
    rw [Rat.div_def, Rat.mul_assoc, Rat.mul_inv_cancel _ (by grind), Rat.mul_one]
  rw [this, Rat.floor_intCast]

theorem ceil_mul (u : Rat) (m : Int) (hu : 0 < u) : ((m : Rat) * u / u).ceil = m := by
  have : (m : Rat) * u / u = m := by
    rw [Rat.div_def, Rat.mul_assoc, Rat.mul_inv_cancel _ (by grind), Rat.mul_one]
  rw [this, Rat.ceil_intCast]

theorem unit_pos (d : Int) : 0 < unit d := Rat.zpow_pos (by decide)

theorem rabs_nonneg (x : Rat) : 0 ≤ rabs x := by unfold rabs; split <;> grind

theorem pyTrunc_int (d : Int) : pyTrunc (d : Rat) = d := by
  unfold pyTrunc; split <;> simp [Rat.floor_intCast, Rat.ceil_intCast]

/-- integers strictly between `a` and `a + 1` do not exist (cast form used for "nearest" arguments) -/
theorem int_le_of_lt_add_one {m n : Int} (h : (m : Rat) < (n : Rat) + 1) : (m : Rat) ≤ (n : Rat) := by
  have : m < n + 1 := by
    have : (m : Rat) < ((n + 1 : Int) : Rat) := by simpa using h
    exact Rat.intCast_lt_intCast.mp this
  have : m ≤ n := by omega
  exact Rat.intCast_le_intCast.mpr this

theorem div_nonneg' {a u : Rat} (ha : 0 ≤ a) (hu : 0 < u) : 0 ≤ a / u := by
  rw [Rat.div_def]; exact Rat.mul_nonneg ha (Rat.le_of_lt (Rat.inv_pos.mpr hu))

theorem floor_nonneg {q : Rat} (h : 0 ≤ q) : 0 ≤ q.floor := by
  rw [Rat.le_floor_iff]; simpa using h

theorem ceil_nonneg {q : Rat} (h : 0 ≤ q) : 0 ≤ q.ceil := by
  have := @Rat.le_ceil q
  have h2 : (0 : Rat) ≤ (q.ceil : Rat) := Rat.le_trans h this
  exact Rat.intCast_nonneg.mp h2

theorem mul_unit_nonneg {n : Int} {u : Rat} (hn : 0 ≤ n) (hu : 0 < u) : 0 ≤ (n : Rat) * u :=
  Rat.mul_nonneg (Rat.intCast_nonneg.mpr hn) (Rat.le_of_lt hu)

theorem roundHalfAway_spec (u x : Rat) (hu : 0 < u) :
    ∃ n : Int, 0 ≤ n ∧ roundHalfAway u x = withSign x ((n : Rat) * u) ∧
      rabs x - u / 2 < (n : Rat) * u ∧ (n : Rat) * u ≤ rabs x + u / 2 := by
  refine ⟨((rabs x + u / 2) / u).floor, ?_, rfl, ?_, ?_⟩
  · have h0 := rabs_nonneg x
    exact floor_nonneg (div_nonneg' (by grind) hu)
  · have := (floor_spec u (rabs x + u / 2) hu).2
    grind
  · exact (floor_spec u (rabs x + u / 2) hu).1

theorem roundDown_spec (u x : Rat) (hu : 0 < u) :
    ∃ n : Int, 0 ≤ n ∧ roundDown u x = withSign x ((n : Rat) * u) ∧
      (n : Rat) * u ≤ rabs x ∧ rabs x < (n : Rat) * u + u := by
  refine ⟨(rabs x / u).floor, floor_nonneg (div_nonneg' (rabs_nonneg x) hu), rfl, ?_, ?_⟩
  · exact (floor_spec u (rabs x) hu).1
  · have := (floor_spec u (rabs x) hu).2
    grind

theorem roundUp_spec (u x : Rat) (hu : 0 < u) :
    ∃ n : Int, 0 ≤ n ∧ roundUp u x = withSign x ((n : Rat) * u) ∧
      rabs x ≤ (n : Rat) * u ∧ (n : Rat) * u < rabs x + u := by
  refine ⟨(rabs x / u).ceil, ceil_nonneg (div_nonneg' (rabs_nonneg x) hu), rfl, ?_, ?_⟩
  · exact (ceil_spec u (rabs x) hu).2
  · have := (ceil_spec u (rabs x) hu).1
    grind

theorem int_mul_le {m n : Int} {u : Rat} (h : m ≤ n) (hu : 0 < u) : (m : Rat) * u ≤ (n : Rat) * u :=
  Rat.mul_le_mul_of_nonneg_right (Rat.intCast_le_intCast.mpr h) (Rat.le_of_lt hu)

theorem nearest_aux (u a : Rat) (n m : Int) (hu : 0 < u)
    (h1 : a - u / 2 < (n : Rat) * u) (h2 : (n : Rat) * u ≤ a + u / 2) :
    rabs ((n : Rat) * u - a) ≤ rabs ((m : Rat) * u - a) := by
  rcases Int.lt_trichotomy m n with h | h | h
  · have h' : m ≤ n - 1 := by omega
    have := int_mul_le h' hu
    have e : ((n - 1 : Int) : Rat) = (n : Rat) - 1 := by simp [Rat.intCast_sub]
    rw [e] at this
    unfold rabs; split <;> split <;> grind
  · subst h; exact Rat.le_refl
  · have h' : n + 1 ≤ m := by omega
    have := int_mul_le h' hu
    have e : ((n + 1 : Int) : Rat) = (n : Rat) + 1 := by simp [Rat.intCast_add]
    rw [e] at this
    unfold rabs; split <;> split <;> grind

theorem floor_half_mul (u : Rat) (k : Int) (hu : 0 < u) : (((k : Rat) * u + u / 2) / u).floor = k := by
  have e : ((k : Rat) * u + u / 2) = ((1 / 2 : Rat) + (k : Rat)) * u := by grind
  rw [e, Rat.mul_div_cancel (by grind), Rat.floor_add_intCast]
  have : (1 / 2 : Rat).floor = 0 := by decide +kernel
  omega

theorem rabs_mul (u x : Rat) (m : Int) (hx : x = (m : Rat) * u) :
    ∃ k : Int, rabs x = (k : Rat) * u ∧ withSign x ((k : Rat) * u) = x := by
  by_cases h : 0 ≤ x
  · exact ⟨m, by unfold rabs; rw [if_pos h]; exact hx, by unfold withSign; rw [if_pos h]; exact hx.symm⟩
  · refine ⟨-m, ?_, ?_⟩
    · unfold rabs; rw [if_neg h, hx, Rat.intCast_neg, Rat.neg_mul]
    · unfold withSign; rw [if_neg h, hx, Rat.intCast_neg, Rat.neg_mul, Rat.neg_neg]

theorem fix_aux (u x : Rat) (m : Int) (hu : 0 < u) (hx : x = (m : Rat) * u) :
    roundHalfAway u x = x ∧ roundDown u x = x ∧ roundUp u x = x := by
  obtain ⟨k, hk, hs⟩ := rabs_mul u x m hx
  refine ⟨?_, ?_, ?_⟩
  · unfold roundHalfAway; rw [hk, floor_half_mul u k hu, hs]
  · unfold roundDown; rw [hk, floor_mul u k hu, hs]
  · unfold roundUp; rw [hk, ceil_mul u k hu, hs]

theorem floor_spec_neg (u x : Rat) (hu : u < 0) :
    x ≤ u * ((x / u).floor : Rat) ∧ u * ((x / u).floor : Rat) + u < x := by
  have h1 := Rat.floor_le (x / u)
  have h2 := Rat.lt_floor_add_one (x / u)
  have hu' : 0 < -u := by grind
  have hx : x / u * u = x := div_mul_cancel' x u (by grind)
  have a := Rat.mul_le_mul_of_nonneg_right h1 (Rat.le_of_lt hu')
  have b := Rat.mul_lt_mul_of_pos_right h2 hu'
  simp only [Rat.intCast_add] at b
  constructor <;> grind

theorem ceil_spec_neg (u x : Rat) (hu : u < 0) :
    u * ((x / u).ceil : Rat) ≤ x ∧ x < u * ((x / u).ceil : Rat) - u := by
  have h1 := @Rat.le_ceil (x / u)
  have h2 := @Rat.ceil_lt (x / u)
  have hu' : 0 < -u := by grind
  have hx : x / u * u = x := div_mul_cancel' x u (by grind)
  have a := Rat.mul_le_mul_of_nonneg_right h1 (Rat.le_of_lt hu')
  have b := Rat.mul_lt_mul_of_pos_right h2 hu'
  constructor <;> grind

theorem rabs_pos {s : Rat} (hs : s ≠ 0) : 0 < rabs s := by unfold rabs; split <;> grind

theorem div_neg_of_neg_pos {n s : Rat} (hn : n < 0) (hs : 0 < s) : n / s < 0 := by
  rw [Rat.div_def]; exact (Rat.mul_neg_iff_of_pos_right (Rat.inv_pos.mpr hs)).mpr hn

theorem quot_int (σ : Rat) (m : Int) (hσ : σ ≠ 0) : (m : Rat) * σ / σ = (m : Rat) := Rat.mul_div_cancel hσ

theorem sig_fix (σ n : Rat) (m : Int) (hσ : σ ≠ 0) (hn : n = (m : Rat) * σ) :
    σ * ((n / σ).floor : Rat) = n ∧ σ * ((n / σ).ceil : Rat) = n ∧ σ * ((pyTrunc (n / σ) : Int) : Rat) = n := by
  rw [hn, quot_int σ m hσ, pyTrunc_int, Rat.floor_intCast, Rat.ceil_intCast]
  grind

theorem mathSig_multiple (n s mode : Rat) (m : Int) (hs : s ≠ 0) (hn : n = (m : Rat) * s) :
    mathSig n s mode ≠ 0 ∧ ∃ m' : Int, n = (m' : Rat) * mathSig n s mode := by
  unfold mathSig rabs
  split <;> split
  · exact ⟨by grind, -m, by rw [Rat.intCast_neg]; grind⟩
  · exact ⟨by grind, m, by grind⟩
  · exact ⟨by grind, m, by grind⟩
  · exact ⟨by grind, -m, by rw [Rat.intCast_neg]; grind⟩

theorem even_eq_roundUp (x : Rat) : even x = roundUp 2 x := rfl

/-! ## monotonicity on the non-negative side -/

/-- two integer multiples of a positive unit: if `n*u ≤ a ≤ b < m*u + u` then `n ≤ m` -/
theorem mult_le_of_bracket {n m : Int} {u a b : Rat} (hu : 0 < u) (h1 : (n : Rat) * u ≤ a) (hab : a ≤ b)
    (h2 : b < (m : Rat) * u + u) : n ≤ m := by
  rcases Int.lt_or_le m n with h | h
  · have h' : m + 1 ≤ n := by omega
    have := int_mul_le h' hu
    have e : ((m + 1 : Int) : Rat) = (m : Rat) + 1 := by simp [Rat.intCast_add]
    rw [e] at this
    exfalso; grind
  · exact h

theorem roundDown_mono_nonneg (u x y : Rat) (hu : 0 < u) (hx : 0 ≤ x) (hxy : x ≤ y) :
    roundDown u x ≤ roundDown u y := by
  obtain ⟨n, _, hn, a1, a2⟩ := roundDown_spec u x hu
  obtain ⟨m, _, hm, b1, b2⟩ := roundDown_spec u y hu
  have hy : 0 ≤ y := Rat.le_trans hx hxy
  have rx : rabs x = x := by unfold rabs; simp [hx]
  have ry : rabs y = y := by unfold rabs; simp [hy]
  rw [rx] at a1 a2; rw [ry] at b1 b2
  have hnm : n ≤ m := mult_le_of_bracket hu a1 hxy b2
  rw [hn, hm]; unfold withSign; simp only [hx, hy, ↓reduceIte]
  exact int_mul_le hnm hu

theorem roundUp_mono_nonneg (u x y : Rat) (hu : 0 < u) (hx : 0 ≤ x) (hxy : x ≤ y) :
    roundUp u x ≤ roundUp u y := by
  obtain ⟨n, _, hn, a1, a2⟩ := roundUp_spec u x hu
  obtain ⟨m, _, hm, b1, b2⟩ := roundUp_spec u y hu
  have hy : 0 ≤ y := Rat.le_trans hx hxy
  have rx : rabs x = x := by unfold rabs; simp [hx]
  have ry : rabs y = y := by unfold rabs; simp [hy]
  rw [rx] at a1 a2; rw [ry] at b1 b2
  have hnm : n ≤ m := mult_le_of_bracket (a := (n : Rat) * u) (b := (n : Rat) * u) hu Rat.le_refl Rat.le_refl (by grind)
  rw [hn, hm]; unfold withSign; simp only [hx, hy, ↓reduceIte]
  exact int_mul_le hnm hu

theorem roundHalfAway_mono_nonneg (u x y : Rat) (hu : 0 < u) (hx : 0 ≤ x) (hxy : x ≤ y) :
    roundHalfAway u x ≤ roundHalfAway u y := by
  obtain ⟨n, _, hn, a1, a2⟩ := roundHalfAway_spec u x hu
  obtain ⟨m, _, hm, b1, b2⟩ := roundHalfAway_spec u y hu
  have hy : 0 ≤ y := Rat.le_trans hx hxy
  have rx : rabs x = x := by unfold rabs; simp [hx]
  have ry : rabs y = y := by unfold rabs; simp [hy]
  rw [rx] at a1 a2; rw [ry] at b1 b2
  have hnm : n ≤ m := mult_le_of_bracket (a := x + u / 2) (b := y + u / 2) hu a2 (by grind) (by grind)
  rw [hn, hm]; unfold withSign; simp only [hx, hy, ↓reduceIte]
  exact int_mul_le hnm hu


end Pycel.Rounding

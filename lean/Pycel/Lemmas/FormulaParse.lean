/-
  Lemmas for C02, part 1: the shunting-yard loop of `_parse_to_rpn` inverts the levelled grammar, and `_build_ast`
  inverts `rpn`.  Extends notes/sy_prototype.lean to postfix `%`, function calls with argument counting
  (were_values / arg_count) and the twelve arithmetic / comparison operators, against the LIVE precedence table
  (`popOps_eq` is proved by evaluation of Generated/Prec.lean: a changed precedence or associativity breaks it).
-/
import Pycel.Model.Formula
namespace Pycel.Formula

/-! ## the live table agrees with the levels of the statement -/

/-- doubled precedence of an operator token sitting on the stack, from the SPEC levels (Surface.lean) -/
def sp2 : Tok → Option Nat
  | .pre => some (2 * negLevel)
  | .post => some (2 * pctLevel)
  | .inf op => some (2 * op.level)
  | _ => none

/-- doubled threshold of an arriving operator token: a left-associative operator of level p pops everything of
    level ≥ p (2p), the right-associative prefix minus only what binds strictly tighter (2·7+1) -/
def th : Tok → Nat
  | .pre => 2 * negLevel + 1
  | .post => 2 * pctLevel
  | .inf op => 2 * op.level
  | _ => 0

/-- "the arriving threshold `t` pops stack token `s`"; `t = 0` pops everything that is not an OPEN -/
def pc (t : Nat) (s : Tok) : Bool :=
  match sp2 s with
  | some q => decide (t ≤ q)
  | none => t == 0 && !s.isOpen

def flush (t : Nat) : List Node → List Tok → List Node × List Tok
  | out, [] => (out, [])
  | out, s :: stk => if pc t s then flush t (out ++ [s.node]) stk else (out, s :: stk)

/-- every entry of `Token.precedences` used by the grammar, against the statement's levels:
    precedence = level, every infix / postfix operator left-associative, the prefix operator right-associative -/
theorem prec_spec :
    Tok.prec .pre = (negLevel, false) ∧ Tok.prec .post = (pctLevel, true) ∧
    ∀ op : InOp, Tok.prec (.inf op) = (op.level, true) := by
  refine ⟨by decide, by decide, ?_⟩
  intro op; cases op <;> decide

private theorem precLt_pc (tok s : Tok) (h : tok = .pre ∨ tok = .post ∨ ∃ op, tok = .inf op) :
    (s.isOperator && precLt tok.prec s.prec) = pc (th tok) s := by
  obtain ⟨hpre, hpost, hinf⟩ := prec_spec
  have key : ∀ (p : Nat) (l : Bool) (q : Nat), precLt (p, l) (q, true) = decide ((if l then 2 * p else 2 * p + 1) ≤ 2 * q) := by
    intro p l q; cases l
    · simp [precLt]; omega
    · rw [Bool.eq_iff_iff]; simp [precLt]; omega
  have keyR : ∀ (p : Nat) (l : Bool) (q : Nat), precLt (p, l) (q, false) = decide ((if l then 2 * p else 2 * p + 1) ≤ 2 * q) := by
    intro p l q; cases l
    · simp [precLt]; omega
    · rw [Bool.eq_iff_iff]; simp [precLt]; omega
  have hth : ∀ t : Tok, (t = .pre ∨ t = .post ∨ ∃ op, t = .inf op) →
      th t = (if t.prec.2 then 2 * t.prec.1 else 2 * t.prec.1 + 1) ∧ 0 < th t := by
    intro t ht
    rcases ht with h | h | ⟨op, h⟩ <;> subst h
    · rw [hpre]; simp [th, negLevel]
    · rw [hpost]; simp [th, pctLevel]
    · rw [hinf]; simp [th]; cases op <;> simp [InOp.level]
  obtain ⟨hthe, hpos⟩ := hth tok h
  cases s with
  | pre => simp only [Tok.isOperator, Bool.true_and, pc, sp2]; rw [hpre, hthe]; cases hp : tok.prec with | mk p l => rw [keyR]
  | post => simp only [Tok.isOperator, Bool.true_and, pc, sp2]; rw [hpost, hthe]; cases hp : tok.prec with | mk p l => rw [key]
  | inf op => simp only [Tok.isOperator, Bool.true_and, pc, sp2]; rw [hinf, hthe]; cases hp : tok.prec with | mk p l => rw [key]
  | operand o => simp [Tok.isOperator, pc, sp2]; omega
  | funcOpen n => simp [Tok.isOperator, pc, sp2]; omega
  | argSep => simp [Tok.isOperator, pc, sp2]; omega
  | parenOpen => simp [Tok.isOperator, pc, sp2]; omega
  | close => simp [Tok.isOperator, pc, sp2]; omega
  | wspace => simp [Tok.isOperator, pc, sp2]; omega

/-- the code's pop loop for an arriving operator is `flush` at the statement's threshold -/
theorem popOps_eq (tok : Tok) (h : tok = .pre ∨ tok = .post ∨ ∃ op, tok = .inf op) (out : List Node) (stk : List Tok) :
    popOps tok.prec out stk = flush (th tok) out stk := by
  induction stk generalizing out with
  | nil => simp [popOps, flush]
  | cons s stk ih => simp only [popOps, flush, precLt_pc tok s h, ih]

/-- the code's pop-to-OPEN loop (argument separator, closing parenthesis) is `flush 0` -/
theorem popToOpen_eq (out : List Node) (stk : List Tok) : popToOpen out stk = flush 0 out stk := by
  induction stk generalizing out with
  | nil => simp [popToOpen, flush]
  | cons s stk ih =>
    have : pc 0 s = !s.isOpen := by cases s <;> simp [pc, sp2, Tok.isOpen]
    simp only [popToOpen, flush, this, ih]
    cases s.isOpen <;> simp

theorem finish_eq (out : List Node) (stk : List Tok) :
    finish out stk = match flush 0 out stk with | (o, []) => some o | (_, _ :: _) => none := by
  induction stk generalizing out with
  | nil => simp [finish, flush]
  | cons s stk ih =>
    have : pc 0 s = !s.isOpen := by cases s <;> simp [pc, sp2, Tok.isOpen]
    simp only [finish, flush, this, ih]
    cases s.isOpen <;> simp

/-! ## the induction -/

def L (s : Surf) : Nat := 2 * s.lvl

def M : Surf → Nat
  | .neg _ => 2 * negLevel + 1
  | s => 2 * s.lvl

/-- nothing on top of the stack is popped by a threshold `t`, and the top is not a pending function -/
def topOk (t : Nat) : List Tok → Prop
  | [] => True
  | s :: _ => (match sp2 s with | some q => q < t | none => True) ∧ ∀ n, s ≠ .funcOpen n

theorem topOk_mono {t u : Nat} (h : t ≤ u) {stk : List Tok} (ht : topOk t stk) : topOk u stk := by
  cases stk with
  | nil => trivial
  | cons s stk =>
    obtain ⟨h1, h2⟩ := ht
    refine ⟨?_, h2⟩
    cases hs : sp2 s with
    | none => trivial
    | some q => rw [hs] at h1; simp at h1 ⊢; omega

theorem flush_topOk {t : Nat} (ht : 0 < t) (out : List Node) {stk : List Tok} (h : topOk t stk) :
    flush t out stk = (out, stk) := by
  cases stk with
  | nil => simp [flush]
  | cons s stk =>
    obtain ⟨h1, _⟩ := h
    have : pc t s = false := by
      unfold pc
      cases hs : sp2 s with
      | none => simp; omega
      | some q => rw [hs] at h1; simp at h1 ⊢; omega
    simp [flush, this]

theorem flush_push {t q : Nat} (s : Tok) (hs : sp2 s = some q) (h : t ≤ q) (out : List Node) (stk : List Tok) :
    flush t out (s :: stk) = flush t (out ++ [s.node]) stk := by
  have : pc t s = true := by simp [pc, hs, h]
  simp [flush, this]

theorem flush0_paren (out : List Node) (stk : List Tok) : flush 0 out (.parenOpen :: stk) = (out, .parenOpen :: stk) := by
  simp [flush, pc, sp2, Tok.isOpen]

theorem run_append (st : St) (a b : List Tok) : run st (a ++ b) = (run st a).bind (fun s => run s b) := by
  induction a generalizing st with
  | nil => simp [run]
  | cons t ts ih => simp only [List.cons_append, run]; cases step st t <;> simp [ih]

theorem run_cons (st : St) (t : Tok) (ts : List Tok) : run st (t :: ts) = (step st t).bind (fun s => run s ts) := rfl

theorem eraseList_length : ∀ (as : List Surf), (eraseList as).length = as.length
  | [] => rfl
  | _ :: as => by simp [eraseList, eraseList_length as]

/-- level facts that the well-formedness of a node gives about its children -/
private theorem M_ge_of_lvl {e : Surf} (hw : e.wf = true) {p : Nat} (hp : p ≤ 6) (h : p ≤ e.lvl) : 2 * p ≤ M e := by
  cases e <;> simp [M, Surf.lvl, negLevel, pctLevel, atomLevel] at * <;> omega

private theorem M_gt_of_lvl {e : Surf} (hw : e.wf = true) {p : Nat} (hp : p ≤ 6) (h : p < e.lvl) : 2 * p < M e := by
  cases e <;> simp [M, Surf.lvl, negLevel, pctLevel, atomLevel] at * <;> omega

private theorem M_neg_operand {e : Surf} (hw : e.wf = true) (h : negLevel ≤ e.lvl) : 2 * negLevel + 1 ≤ M e := by
  cases e with
  | bin op l r =>
    simp only [Surf.wf, Surf.lvl, Bool.and_eq_true, decide_eq_true_eq] at hw h
    obtain ⟨⟨⟨⟨hp, _⟩, _⟩, _⟩, _⟩ := hw
    omega
  | _ => simp [M, Surf.lvl, negLevel, pctLevel, atomLevel] at * <;> omega

mutual
theorem sy_main : ∀ (s : Surf), s.wf = true → ∀ (out : List Node) (stk : List Tok) (wv : List Bool) (ac : List Nat),
    topOk (M s) stk →
    ∃ out' stk', run ⟨out, stk, wv, ac⟩ (atoks s) = some ⟨out', stk', markTop wv, ac⟩ ∧
      ∀ t, t ≤ L s → flush t out' stk' = flush t (out ++ rpn (erase s)) stk
  | .operand o, _, out, stk, wv, ac, _ => by
    exact ⟨out ++ [.operand o], stk, by simp [atoks, run, step], by intro t _; simp [erase, rpn]⟩
  | .paren e, hw, out, stk, wv, ac, htop => by
    have hw' : e.wf = true := by simpa [Surf.wf] using hw
    obtain ⟨out1, stk1, hr, hf⟩ := sy_main e hw' out (.parenOpen :: stk) wv ac (by simp [topOk, sp2])
    have h0 := hf 0 (Nat.zero_le _)
    rw [flush0_paren] at h0
    refine ⟨out ++ rpn (erase e), stk, ?_, by intro t _; simp [erase]⟩
    have hne : ∀ n, stk.head? ≠ some (.funcOpen n) := by
      intro n; cases stk with
      | nil => simp
      | cons s stk => simp; exact htop.2 n
    simp only [atoks, List.cons_append, run_cons, step, Option.bind]
    rw [run_append, hr]
    simp only [Option.bind, run, step, popToOpen_eq, h0]
    cases stk with
    | nil => rfl
    | cons s stk =>
      cases s with
      | funcOpen n => exact absurd rfl (htop.2 n)
      | _ => rfl
  | .neg e, hw, out, stk, wv, ac, htop => by
    have hw2 : negLevel ≤ e.lvl ∧ e.wf = true := by simpa [Surf.wf] using hw
    obtain ⟨hl, hw'⟩ := hw2
    have hM := M_neg_operand hw' hl
    have hfl : flush (th .pre) out stk = (out, stk) := flush_topOk (by simp [th]) out (by simpa [M, th] using htop)
    obtain ⟨out1, stk1, hr, hf⟩ := sy_main e hw' out (.pre :: stk) wv ac
      (by refine ⟨?_, by intro n; simp⟩; simp only [sp2]; omega)
    refine ⟨out1, stk1, ?_, ?_⟩
    · simp only [atoks, run_cons, step, popOps_eq .pre (Or.inl rfl), hfl, Option.bind]; exact hr
    · intro t ht
      simp only [L, Surf.lvl] at ht
      rw [hf t (by simp only [L]; omega)]
      rw [flush_push .pre rfl (by omega)]
      simp [erase, rpn, Tok.node]
  | .pct e, hw, out, stk, wv, ac, htop => by
    have hw2 : pctLevel ≤ e.lvl ∧ e.wf = true := by simpa [Surf.wf] using hw
    obtain ⟨hl, hw'⟩ := hw2
    have hM : 2 * pctLevel ≤ M e := M_ge_of_lvl hw' (by simp [pctLevel]) hl
    have htop12 : topOk (2 * pctLevel) stk := by simpa [M, Surf.lvl] using htop
    obtain ⟨out1, stk1, hr, hf⟩ := sy_main e hw' out stk wv ac (topOk_mono hM htop12)
    have h1 := hf (2 * pctLevel) (by simp only [L]; omega)
    rw [flush_topOk (by simp [pctLevel]) _ htop12] at h1
    refine ⟨out ++ rpn (erase e), .post :: stk, ?_, ?_⟩
    · simp only [atoks]
      rw [run_append, hr]
      simp only [Option.bind, run, step, popOps_eq .post (Or.inr (Or.inl rfl)), th, h1]
    · intro t ht
      simp only [L, Surf.lvl] at ht
      rw [flush_push .post rfl (by omega)]
      simp [erase, rpn, Tok.node]
  | .bin op l r, hw, out, stk, wv, ac, htop => by
    have hw2 : (((op.level < negLevel ∧ op.level ≤ l.lvl) ∧ op.level < r.lvl) ∧ l.wf = true) ∧ r.wf = true := by
      simpa [Surf.wf] using hw
    obtain ⟨⟨⟨⟨hp, hl⟩, hr'⟩, hwl⟩, hwr⟩ := hw2
    have hp6 : op.level ≤ 6 := by simp [negLevel] at hp; omega
    have htop2 : topOk (2 * op.level) stk := by simpa [M, Surf.lvl] using htop
    have hpos : 0 < 2 * op.level := by cases op <;> simp [InOp.level]
    obtain ⟨out1, stk1, hr1, hf1⟩ := sy_main l hwl out stk wv ac (topOk_mono (M_ge_of_lvl hwl hp6 hl) htop2)
    have h1 := hf1 (2 * op.level) (by simp only [L]; omega)
    rw [flush_topOk hpos _ htop2] at h1
    obtain ⟨out2, stk2, hr2, hf2⟩ := sy_main r hwr (out ++ rpn (erase l)) (.inf op :: stk) (markTop wv) ac
      (by refine ⟨?_, by intro n; simp⟩; simp only [sp2]; exact M_gt_of_lvl hwr hp6 hr')
    refine ⟨out2, stk2, ?_, ?_⟩
    · simp only [atoks]
      rw [run_append, hr1]
      simp only [Option.bind, run_cons, step, popOps_eq (.inf op) (Or.inr (Or.inr ⟨op, rfl⟩)), th, h1]
      have : markTop (markTop wv) = markTop wv := by cases wv <;> rfl
      rw [this] at hr2
      exact hr2
    · intro t ht
      simp only [L, Surf.lvl] at ht
      rw [hf2 t (by simp only [L]; omega)]
      rw [flush_push (.inf op) rfl (by omega)]
      simp [erase, rpn, Tok.node]
  | .func name args, hw, out, stk, wv, ac, _ => by
    have hw' : wfList args = true := by simpa [Surf.wf] using hw
    refine ⟨out ++ rpnList (eraseList args) ++ [.func name args.length], stk, ?_, by intro t _; simp [erase, rpn, eraseList_length]⟩
    cases args with
    | nil =>
      simp [atoks, atoksArgs, run, step, popToOpen, Tok.isOpen, rpnList, eraseList]
    | cons a as =>
      have hw2 : a.wf = true ∧ wfList as = true := by simpa [wfList] using hw'
      obtain ⟨out1, stk1, hr1, hf1⟩ := sy_main a hw2.1 out (.parenOpen :: .funcOpen name :: stk) (false :: markTop wv) (0 :: ac)
        (by simp [topOk, sp2])
      have h0 := hf1 0 (Nat.zero_le _)
      rw [flush0_paren] at h0
      have hmt : markTop (false :: markTop wv) = true :: markTop wv := rfl
      rw [hmt] at hr1
      obtain ⟨out2, stk2, hr2, hf2⟩ := sy_rest as hw2.2 out1 stk1 (out ++ rpn (erase a)) (.funcOpen name :: stk) (markTop wv) 0 ac h0
      simp only [atoks, atoksArgs, List.cons_append, run_cons, step, Option.bind]
      rw [List.append_assoc, run_append, hr1]
      simp only [Option.bind]
      rw [run_append, hr2]
      simp only [Option.bind, run, step, popToOpen_eq, hf2]
      simp [rpnList, eraseList, List.append_assoc]
theorem sy_rest : ∀ (as : List Surf), wfList as = true →
    ∀ (out0 : List Node) (stk0 : List Tok) (out : List Node) (S : List Tok) (W : List Bool) (k : Nat) (A : List Nat),
    flush 0 out0 stk0 = (out, .parenOpen :: S) →
    ∃ out' stk', run ⟨out0, stk0, true :: W, k :: A⟩ (atoksRest as) = some ⟨out', stk', true :: W, (k + as.length) :: A⟩ ∧
      flush 0 out' stk' = (out ++ rpnList (eraseList as), .parenOpen :: S)
  | [], _, out0, stk0, out, S, W, k, A, h => by
    exact ⟨out0, stk0, by simp [atoksRest, run], by simpa [rpnList, eraseList] using h⟩
  | a :: as, hw, out0, stk0, out, S, W, k, A, h => by
    have hw2 : a.wf = true ∧ wfList as = true := by simpa [wfList] using hw
    obtain ⟨out1, stk1, hr1, hf1⟩ := sy_main a hw2.1 out (.parenOpen :: S) (false :: W) ((k + 1) :: A) (by simp [topOk, sp2])
    have h0 := hf1 0 (Nat.zero_le _)
    rw [flush0_paren] at h0
    obtain ⟨out2, stk2, hr2, hf2⟩ := sy_rest as hw2.2 out1 stk1 (out ++ rpn (erase a)) S W (k + 1) A h0
    have hmt : markTop (false :: W) = true :: W := rfl
    rw [hmt] at hr1
    refine ⟨out2, stk2, ?_, ?_⟩
    · simp only [atoksRest, List.cons_append, run_cons, step, popToOpen_eq, h, Option.bind]
      rw [run_append, hr1]
      simp only [Option.bind]
      rw [hr2]
      simp [Nat.add_assoc, Nat.add_comm 1]
    · rw [hf2]; simp [rpnList, eraseList, List.append_assoc]
end

/-- shunting-yard inverts the levelled grammar (amended token stream) -/
theorem parseRpn_atoks (s : Surf) (h : s.wf = true) : parseRpn (atoks s) = some (rpn (erase s)) := by
  obtain ⟨out', stk', hr, hf⟩ := sy_main s h [] [] [] [] trivial
  have h0 := hf 0 (Nat.zero_le _)
  simp only [parseRpn, St.init, hr, Option.bind, finish_eq, h0]
  simp [flush]

/-! ## `_build_ast` inverts `rpn` -/

theorem buildRun_append (st : List Expr) (a b : List Node) :
    buildRun st (a ++ b) = (buildRun st a).bind (fun s => buildRun s b) := by
  induction a generalizing st with
  | nil => simp [buildRun]
  | cons t ts ih => simp only [List.cons_append, buildRun]; cases buildStep st t <;> simp [ih]

mutual
theorem buildRun_rpn : ∀ (e : Expr) (st : List Expr), buildRun st (rpn e) = some (e :: st)
  | .operand o, st => by simp [rpn, buildRun, buildStep]
  | .neg e, st => by simp [rpn, buildRun_append, buildRun_rpn e, buildRun, buildStep]
  | .pct e, st => by simp [rpn, buildRun_append, buildRun_rpn e, buildRun, buildStep]
  | .bin op l r, st => by simp [rpn, buildRun_append, buildRun_rpn l, buildRun_rpn r, buildRun, buildStep]
  | .func name args, st => by
    simp [rpn, buildRun_append, buildRun_rpnList args, buildRun, buildStep]
theorem buildRun_rpnList : ∀ (es : List Expr) (st : List Expr), buildRun st (rpnList es) = some (es.reverse ++ st)
  | [], st => by simp [rpnList, buildRun]
  | e :: es, st => by simp [rpnList, buildRun_append, buildRun_rpn e, buildRun_rpnList es]
end

theorem buildAst_rpn (e : Expr) : buildAst (rpn e) = some e := by
  simp [buildAst, buildRun_rpn]

end Pycel.Formula

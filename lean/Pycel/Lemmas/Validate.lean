/-
  Lemmas about the model of `validate_calcs` (Model/Validate.lean): the evaluator with exceptions, the cell-map
  builder, and the invariants of the work-list loop.  Core Lean only.
-/
import Pycel.Model.Validate
import Pycel.Lemmas.Engine
namespace Pycel.Validate
open Pycel Pycel.Engine

variable {α : Type}

/-- `m` is `a` or one of its (transitive) precedents -/
inductive Reach (wb : Workbook) : Nat → Nat → Prop
  | refl (a : Nat) : Reach wb a a
  | step {a j m : Nat} : j ∈ wb.deps a → Reach wb j m → Reach wb a m

theorem Reach.le {wb : Workbook} (hwf : WF wb) {a m : Nat} (h : Reach wb a m) : m ≤ a := by
  induction h with
  | refl => exact Nat.le_refl _
  | step hj _ ih => have := hwf.lt _ _ hj; omega

theorem Reach.trans {wb : Workbook} {a b c : Nat} (h1 : Reach wb a b) (h2 : Reach wb b c) : Reach wb a c := by
  induction h1 with
  | refl => exact h2
  | step hj _ ih => exact .step hj (ih h2)

/-- whenever the compiled formula returns, it returns what the (total) Excel semantics `f` gives -/
def Agree (C : Cfg α) (f : Nat → (Nat → α) → α) : Prop := ∀ i e v, C.g i e = .ok v → v = f i e

/-- the compiled formula reads only its declared precedents -/
def LocalG (C : Cfg α) : Prop :=
  ∀ i (e e' : Nat → α), (∀ j, j ∈ C.wb.deps i → e j = e' j) → C.g i e = C.g i e'

section
variable (C : Cfg α) (f : Nat → (Nat → α) → α) (Bad : Nat → Prop)

/-- from-scratch value -/
abbrev D (i : Nat) : α := denote C.wb f C.inp i

/-- every cached value is the from-scratch value, except possibly at tainted nodes -/
def Good (s : VS α) : Prop := ∀ m v, s.cache m = some v → v = D C f m ∨ Bad m

/-- `s'` keeps every cached value and the cell map of `s` -/
def Mono (s s' : VS α) : Prop := s'.built = s.built ∧ ∀ m v, s.cache m = some v → s'.cache m = some v

theorem Mono.refl (s : VS α) : Mono s s := ⟨rfl, fun _ _ h => h⟩
theorem Mono.trans {s s' s'' : VS α} (h1 : Mono s s') (h2 : Mono s' s'') : Mono s s'' :=
  ⟨h2.1.trans h1.1, fun m v h => h2.2 m v (h1.2 m v h)⟩

def Done (s : VS α) (j : Nat) : Prop := C.wb.kind j = .input ∨ s.cache j ≠ none

theorem Done.mono {s s' : VS α} {j : Nat} (h : Done C s j) (m : Mono s s') : Done C s' j := by
  rcases h with h | h
  · exact .inl h
  · right
    cases hc : s.cache j with
    | none => exact absurd hc h
    | some v => rw [m.2 j v hc]; simp

def Evaluable (j : Nat) : Prop := ∃ v, C.g j (D C f) = .ok v

/-- an exception of class `e` reported at node `i` has a cause at or below `i`: a formula `j` reachable from `i`
    (`j = i` included) raises on the values some state of the cell map gives its precedents, and `e` is the class of
    that exception or the class it has after travelling through a dependant -/
def Raises (i : Nat) (e : Fail) : Prop :=
  ∃ j s e', Reach C.wb i j ∧ C.wb.kind j ≠ .input ∧ C.g j (valueOf C s) = .error e' ∧ (e = e' ∨ e = e'.nested)

variable {C f Bad}

theorem valueOf_eq_D {s : VS α} (hg : Good C f Bad s) {j : Nat} (hd : Done C s j)
    (hb : ¬ Bad j) : valueOf C s j = D C f j := by
  unfold valueOf
  rcases hd with hk | hc
  · simp [hk, denote_input]
  · cases hk : C.wb.kind j
    · simp [denote_input _ hk]
    all_goals
      cases hv : s.cache j with
      | none => exact absurd hv hc
      | some v =>
        simp only [Option.getD_some]
        rcases hg j v hv with h | h
        · exact h
        · exact absurd h hb

theorem Raises.nested {i : Nat} {e : Fail} (h : Raises C i e) : Raises C i e.nested := by
  obtain ⟨j, s, e', hr, hk, hj, he⟩ := h
  refine ⟨j, s, e', hr, hk, hj, .inr ?_⟩
  rcases he with he | he <;> subst he
  · rfl
  · cases e' <;> rfl

theorem Raises.lift {a i : Nat} {e : Fail} (hai : Reach C.wb a i) (h : Raises C i e) : Raises C a e := by
  obtain ⟨j, s, e', hr, hk, hj, he⟩ := h
  exact ⟨j, s, e', hai.trans hr, hk, hj, he⟩

theorem seqM_none {σ : Type} (step : Nat → σ → Option Fail × σ) (s : σ) : seqM step [] s = (none, s) := rfl

/-- specification of the evaluator; one induction for everything the loop invariants need -/
structure EvalSpec (C : Cfg α) (f : Nat → (Nat → α) → α) (Bad : Nat → Prop) (i : Nat) (s : VS α)
    (r : Option Fail × VS α) : Prop where
  good : Good C f Bad r.2
  mono : Mono s r.2
  done : r.1 = none → Done C r.2 i
  exact : r.1 = none → C.wb.kind i ≠ .input → s.cache i = none →
          (∀ j, j ∈ C.wb.deps i → ¬ Bad j) → r.2.cache i = some (D C f i)
  ok : (∀ m, Reach C.wb i m → Evaluable C f m) → (∀ m, Reach C.wb i m → m ≠ i → ¬ Bad m) → r.1 = none
  fail : ∀ e, r.1 = some e → Raises C i e

structure SeqSpec (C : Cfg α) (f : Nat → (Nat → α) → α) (Bad : Nat → Prop) (l : List Nat)
    (s : VS α) (r : Option Fail × VS α) : Prop where
  good : Good C f Bad r.2
  mono : Mono s r.2
  done : r.1 = none → ∀ j, j ∈ l → Done C r.2 j
  ok : (∀ j, j ∈ l → (∀ m, Reach C.wb j m → Evaluable C f m) ∧ (∀ m, Reach C.wb j m → ¬ Bad m)) → r.1 = none
  fail : ∀ e, r.1 = some e → ∃ k, k ∈ l ∧ Raises C k e

/-- `seqM` over steps that satisfy `EvalSpec` -/
theorem seq_spec (step : Nat → VS α → Option Fail × VS α) (ok : Nat → Prop)
    (hstep : ∀ j s, ok j → Good C f Bad s → EvalSpec C f Bad j s (step j s)) :
    ∀ (l : List Nat) (s : VS α), (∀ j, j ∈ l → ok j) → Good C f Bad s →
      SeqSpec C f Bad l s (seqM step l s) := by
  intro l
  induction l with
  | nil =>
    intro s _ hg
    exact ⟨hg, Mono.refl _, fun _ j hj => (nomatch hj), fun _ => rfl, fun e h => (nomatch h)⟩
  | cons j js ih =>
    intro s hlt hg
    have h1 := hstep j s (hlt j (List.mem_cons_self ..)) hg
    unfold seqM
    cases hr : step j s with
    | mk r1 s1 =>
      rw [hr] at h1
      cases r1 with
      | some e =>
        refine ⟨h1.good, h1.mono, fun h => (nomatch h), ?_,
          fun e' he' => ⟨j, List.mem_cons_self .., h1.fail e' he'⟩⟩
        intro hall
        have hj := hall j (List.mem_cons_self ..)
        have := h1.ok hj.1 (fun m hm _ => hj.2 m hm)
        cases this
      | none =>
        have h2 := ih s1 (fun k hk => hlt k (List.mem_cons_of_mem _ hk)) h1.good
        refine ⟨h2.good, h1.mono.trans h2.mono, ?_, ?_, fun e' he' => by
          obtain ⟨k, hk, hr⟩ := h2.fail e' he'
          exact ⟨k, List.mem_cons_of_mem _ hk, hr⟩⟩
        · intro hn k hk
          rcases List.mem_cons.1 hk with rfl | hk
          · exact (h1.done rfl).mono C h2.mono
          · exact h2.done hn k hk
        · intro hall
          exact h2.ok (fun k hk => hall k (List.mem_cons_of_mem _ hk))

theorem evalX_spec (hwf : WF C.wb) (hl : Local C.wb f) (hlg : LocalG C) (hag : Agree C f)
    (hup : ∀ i j, j ∈ C.wb.deps i → Bad j → Bad i) :
    ∀ (fuel i : Nat) (s : VS α), i < fuel → Good C f Bad s → EvalSpec C f Bad i s (evalX C fuel i s) := by
  intro fuel
  induction fuel with
  | zero => intro i s hi; omega
  | succ fuel ih =>
    intro i s hi hg
    unfold evalX
    cases hk : C.wb.kind i with
    | input =>
      exact ⟨hg, Mono.refl _, fun _ => .inl hk, fun _ h => absurd hk h, fun _ _ => rfl, fun e h => (nomatch h)⟩
    | formula | range =>
      simp only []
      cases hc : s.cache i with
      | some v =>
        exact ⟨hg, Mono.refl _, fun _ => .inr (by simp [hc]), fun _ _ h => (by rw [hc] at h; cases h),
          fun _ _ => rfl, fun e h => (nomatch h)⟩
      | none =>
        simp only []
        have hdl : ∀ j, j ∈ C.wb.deps i → j < fuel := fun j hj => by have := hwf.lt i j hj; omega
        have hs := seq_spec (evalX C fuel) (fun j => j < fuel) (fun j s' hj hg' => ih j s' hj hg')
          (C.wb.deps i) s hdl hg
        cases hr : seqM (evalX C fuel) (C.wb.deps i) s with
        | mk r1 s1 =>
          rw [hr] at hs
          cases r1 with
          | some e =>
            refine ⟨hs.good, hs.mono, fun h => (nomatch h), fun h => (nomatch h), ?_,
              fun e'' he'' => by
                cases he''
                obtain ⟨k, hk, hr⟩ := hs.fail e rfl
                exact (hr.lift (.step hk (.refl k))).nested⟩
            intro hev hnb
            have := hs.ok (fun j hj => ⟨fun m hm => hev m (.step hj hm), fun m hm => hnb m (.step hj hm) (by
              have := hm.le hwf; have := hwf.lt i j hj; omega)⟩)
            cases this
          | none =>
            simp only []
            have hdone := hs.done rfl
            have hval : (∀ j, j ∈ C.wb.deps i → ¬ Bad j) → C.g i (valueOf C s1) = C.g i (D C f) := by
              intro hnb
              apply hlg
              intro j hj
              exact valueOf_eq_D hs.good (hdone j hj) (hnb j hj)
            have hki : C.wb.kind i ≠ .input := by rw [hk]; simp
            cases hgv : C.g i (valueOf C s1) with
            | error e =>
              refine ⟨hs.good, hs.mono, fun h => (nomatch h), fun h => (nomatch h), ?_, ?_⟩
              · intro hev hnb
                have hnb' : ∀ j, j ∈ C.wb.deps i → ¬ Bad j := fun j hj => hnb j (.step hj (.refl j)) (by
                  have := hwf.lt i j hj; omega)
                obtain ⟨v, hv⟩ := hev i (.refl i)
                rw [hval hnb', hv] at hgv
                cases hgv
              · intro e' he'
                cases he'
                exact ⟨i, s1, e, .refl i, hki, hgv, .inl rfl⟩
            | ok v =>
              have hvD : (∀ j, j ∈ C.wb.deps i → ¬ Bad j) → v = D C f i := by
                intro hnb
                have h1 : v = f i (valueOf C s1) := hag i _ v hgv
                rw [h1]
                show _ = denote C.wb f C.inp i
                rw [denote_node hwf hl _ hki]
                apply hl
                intro j hj
                exact valueOf_eq_D hs.good (hdone j hj) (hnb j hj)
              refine ⟨?_, ?_, ?_, ?_, fun _ _ => rfl, fun e h => (nomatch h)⟩
              · intro m w hm
                simp only [update] at hm
                split at hm
                · subst_vars
                  cases hm
                  by_cases hb : Bad m
                  · exact .inr hb
                  · exact .inl (hvD (fun j hj hbj => hb (hup m j hj hbj)))
                · exact hs.good m w hm
              · refine ⟨hs.mono.1, ?_⟩
                intro m w hm
                have := hs.mono.2 m w hm
                simp only [update]
                split
                · subst_vars; rw [hc] at hm; cases hm
                · exact this
              · intro _; right; simp [update]
              · intro _ _ _ hnb
                simp [update, hvD hnb]
end


/-! ### the cell-map builder -/

section
variable (C : Cfg α)

def newCache (s : VS α) (m : Nat) : Option α :=
  match C.wb.kind m with
  | .formula => C.stored m
  | _ => s.cache m

/-- what `markF` may do: nodes in the cell map are untouched; a node that enters it satisfies `P` and starts with its
    stored result (formula cells) -/
structure MR (P : Nat → Prop) (s s' : VS α) : Prop where
  old : ∀ m, s.built m = true → s'.built m = true ∧ s'.cache m = s.cache m
  new : ∀ m, s.built m = false → (s'.built m = false ∧ s'.cache m = s.cache m) ∨
          (s'.built m = true ∧ s'.cache m = newCache C s m ∧ P m)

variable {C}

theorem MR.refl (P : Nat → Prop) (s : VS α) : MR C P s s :=
  ⟨fun _ h => ⟨h, rfl⟩, fun _ h => .inl ⟨h, rfl⟩⟩

theorem MR.trans {P : Nat → Prop} {s s' s'' : VS α} (h1 : MR C P s s') (h2 : MR C P s' s'') : MR C P s s'' := by
  refine ⟨fun m hm => ?_, fun m hm => ?_⟩
  · have a := h1.old m hm
    have b := h2.old m a.1
    exact ⟨b.1, b.2.trans a.2⟩
  · rcases h1.new m hm with ⟨hb, hc⟩ | ⟨hb, hc, hp⟩
    · rcases h2.new m hb with ⟨hb', hc'⟩ | ⟨hb', hc', hp'⟩
      · exact .inl ⟨hb', hc'.trans hc⟩
      · refine .inr ⟨hb', ?_, hp'⟩
        rw [hc']; unfold newCache; rw [hc]
    · have b := h2.old m hb
      exact .inr ⟨b.1, b.2.trans hc, hp⟩

theorem MR.weaken {P Q : Nat → Prop} {s s' : VS α} (h : MR C P s s') (hpq : ∀ m, P m → Q m) : MR C Q s s' :=
  ⟨h.old, fun m hm => (h.new m hm).imp id (fun ⟨a, b, c⟩ => ⟨a, b, hpq m c⟩)⟩

theorem markF_spec : ∀ (fuel a : Nat) (s : VS α), MR C (Reach C.wb a) s (markF C fuel a s) := by
  intro fuel
  induction fuel with
  | zero => intro a s; exact MR.refl _ s
  | succ fuel ih =>
    intro a s
    unfold markF
    by_cases hb : s.built a = true
    · simp only [hb, if_true]; exact MR.refl _ s
    · simp only [hb]
      have hbf : s.built a = false := by cases h : s.built a <;> simp_all
      -- marking `a`
      have h0 : MR C (Reach C.wb a) s
          { built := update s.built a true,
            cache := match C.wb.kind a with
              | .formula => update s.cache a (C.stored a)
              | _ => s.cache } := by
        refine ⟨fun m hm => ?_, fun m hm => ?_⟩
        · have hne : m ≠ a := fun h => by subst h; rw [hbf] at hm; cases hm
          refine ⟨by simp [update, hne, hm], ?_⟩
          cases C.wb.kind a <;> simp [update, hne]
        · by_cases hma : m = a
          · subst hma
            refine .inr ⟨by simp [update], ?_, .refl m⟩
            unfold newCache
            cases C.wb.kind m <;> simp [update]
          · refine .inl ⟨by simp [update, hma, hm], ?_⟩
            cases C.wb.kind a <;> simp [update, hma]
      -- the fold over the precedents
      have hfold : ∀ (l : List Nat) (s0 : VS α), (∀ j, j ∈ l → j ∈ C.wb.deps a) →
          MR C (Reach C.wb a) s0 (l.foldl (fun st j => markF C fuel j st) s0) := by
        intro l
        induction l with
        | nil => intro s0 _; exact MR.refl _ s0
        | cons j js ihl =>
          intro s0 hsub
          simp only [List.foldl_cons]
          have hj := hsub j (List.mem_cons_self ..)
          exact ((ih j s0).weaken (fun m hm => Reach.step hj hm)).trans
            (ihl _ (fun k hk => hsub k (List.mem_cons_of_mem _ hk)))
      exact h0.trans (hfold _ _ (fun _ h => h))

theorem markF_built_self (fuel a : Nat) (s : VS α) : (markF C (fuel+1) a s).built a = true := by
  have hfold : ∀ (l : List Nat) (s0 : VS α), s0.built a = true →
      (l.foldl (fun st j => markF C fuel j st) s0).built a = true := by
    intro l
    induction l with
    | nil => intro s0 h; exact h
    | cons j js ihl =>
      intro s0 h
      simp only [List.foldl_cons]
      exact ihl _ ((markF_spec (C := C) fuel j s0).old a h).1
  unfold markF
  by_cases hb : s.built a = true
  · simp only [hb, if_true]
  · simp only [hb]
    apply hfold
    simp [update]

/-- `_gen_graph(a)` -/
structure GenSpec (C : Cfg α) (f : Nat → (Nat → α) → α) (Bad : Nat → Prop) (a : Nat) (s : VS α)
    (r : Option Fail × VS α) : Prop where
  good : Good C f Bad r.2
  built : r.2.built a = true
  keep : ∀ m, s.built m = true → r.2.built m = true ∧ ∀ v, s.cache m = some v → r.2.cache m = some v
  fresh : ∀ m, s.built m = false → r.2.built m = true → C.wb.kind m = .formula →
          ∀ v, C.stored m = some v → r.2.cache m = some v
  ok : (∀ m, Reach C.wb a m → Evaluable C f m) →
       (∀ r, Reach C.wb a r → C.wb.kind r = .range → ∀ m, Reach C.wb r m → ¬ Bad m) → r.1 = none
  fail : ∀ e, r.1 = some e → Raises C a e

/-- the stored results agree with the formulas, except possibly at tainted nodes -/
def StoredAgree (C : Cfg α) (f : Nat → (Nat → α) → α) (Bad : Nat → Prop) : Prop :=
  ∀ j v, C.wb.kind j = .formula → C.stored j = some v → v = D C f j ∨ Bad j

theorem genGraph_spec {f : Nat → (Nat → α) → α} {Bad : Nat → Prop}
    (hwf : WF C.wb) (hl : Local C.wb f) (hlg : LocalG C) (hag : Agree C f)
    (hup : ∀ i j, j ∈ C.wb.deps i → Bad j → Bad i) (hst : StoredAgree C f Bad)
    (a : Nat) (s : VS α) (hg : Good C f Bad s) : GenSpec C f Bad a s (genGraph C a s) := by
  unfold genGraph
  have hm := markF_spec (C := C) (a+1) a s
  have hba := markF_built_self (C := C) a a s
  generalize markF C (a+1) a s = s1 at hm hba
  have hg1 : Good C f Bad s1 := by
    intro m v hv
    by_cases hb : s.built m = true
    · rw [(hm.old m hb).2] at hv; exact hg m v hv
    · have hbf : s.built m = false := by cases h : s.built m <;> simp_all
      rcases hm.new m hbf with ⟨_, hc⟩ | ⟨_, hc, _⟩
      · rw [hc] at hv; exact hg m v hv
      · rw [hc] at hv; unfold newCache at hv
        cases hk : C.wb.kind m <;> rw [hk] at hv <;> first | exact hg m v hv | exact hst m v hk hv
  simp only []
  generalize hnr : ((List.range (a+1)).filter fun r =>
    decide (C.wb.kind r = .range) && !s.built r && s1.built r) = newR
  have hnew : ∀ r, r ∈ newR → C.wb.kind r = .range ∧ Reach C.wb a r := by
    intro r hr
    rw [← hnr, List.mem_filter] at hr
    have h2 := hr.2
    simp only [Bool.and_eq_true, decide_eq_true_eq, Bool.not_eq_true'] at h2
    refine ⟨h2.1.1, ?_⟩
    rcases hm.new r h2.1.2 with ⟨hb, _⟩ | ⟨_, _, hp⟩
    · rw [hb] at h2; exact absurd h2.2 (by simp)
    · exact hp
  have hs := seq_spec (C := C) (f := f) (Bad := Bad) (fun r => evalX C (r+1) r) (fun _ => True)
    (fun j s' _ hg' => evalX_spec hwf hl hlg hag hup (j+1) j s' (Nat.lt_succ_self j) hg')
    newR s1 (fun _ _ => trivial) hg1
  generalize seqM (fun r => evalX C (r+1) r) newR s1 = res at hs
  refine ⟨hs.good, ?_, ?_, ?_, ?_, fun e he => by
    obtain ⟨k, hk, hr⟩ := hs.fail e he
    exact hr.lift (hnew k hk).2⟩
  · rw [hs.mono.1]; exact hba
  · intro m hb
    have h1 := hm.old m hb
    refine ⟨by rw [hs.mono.1]; exact h1.1, fun v hv => hs.mono.2 m v (by rw [h1.2]; exact hv)⟩
  · intro m hbf hb' hk v hv
    rw [hs.mono.1] at hb'
    rcases hm.new m hbf with ⟨hb, _⟩ | ⟨_, hc, _⟩
    · rw [hb] at hb'; cases hb'
    · apply hs.mono.2
      rw [hc]; unfold newCache; rw [hk]; exact hv
  · intro hev hnb
    apply hs.ok
    intro r hr
    have h := hnew r hr
    exact ⟨fun m hm' => hev m (h.2.trans hm'), fun m hm' => hnb r h.2 h.1 m hm'⟩
end

end Pycel.Validate

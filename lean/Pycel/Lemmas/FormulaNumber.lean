/-
  Lemmas for C02, part 3: NUMBER tokens denote their value (the repaired emitter strips the leading zeros that
  Python's integer-literal syntax rejects; every other accepted token is emitted verbatim).
-/
import Pycel.Lemmas.FormulaEmit
namespace Pycel.Formula

theorem stripZeros_spec : ∀ (t : List Char), (stripZeros t).length ≤ 1 ∨ (stripZeros t).head? ≠ some '0'
  | [] => by simp [stripZeros]
  | [c] => by simp [stripZeros]
  | c :: d :: r => by
    by_cases h : c = '0'
    · simp only [stripZeros, h, if_true]; exact stripZeros_spec (d :: r)
    · right; simp [stripZeros, h]

theorem stripZeros_all (p : Char → Bool) : ∀ (t : List Char), t.all p = true → (stripZeros t).all p = true
  | [], h => by simpa [stripZeros] using h
  | [c], h => by simpa [stripZeros] using h
  | c :: d :: r, h => by
    by_cases hc : c = '0'
    · simp only [stripZeros, hc, if_true]; exact stripZeros_all p (d :: r) (by simp [List.all_cons] at h ⊢; exact h.2)
    · simpa [stripZeros, hc] using h

theorem stripZeros_ne_nil : ∀ (t : List Char), t ≠ [] → stripZeros t ≠ []
  | [], h => absurd rfl h
  | [c], _ => by simp [stripZeros]
  | c :: d :: r, _ => by
    by_cases hc : c = '0'
    · simp only [stripZeros, hc, if_true]; exact stripZeros_ne_nil (d :: r) (by simp)
    · simp [stripZeros, hc]

theorem digitsVal_stripZeros : ∀ (t : List Char), digitsVal 0 (stripZeros t) = digitsVal 0 t
  | [] => rfl
  | [c] => rfl
  | c :: d :: r => by
    by_cases hc : c = '0'
    · subst hc; simp only [stripZeros, if_true]; rw [digitsVal_stripZeros (d :: r)]; rfl
    · simp [stripZeros, hc]

theorem takeWhile_all (p : Char → Bool) : ∀ (t : List Char), t.all p = true → t.takeWhile p = t ∧ t.dropWhile p = []
  | [], _ => ⟨rfl, rfl⟩
  | c :: r, h => by
    simp only [List.all_cons, Bool.and_eq_true] at h
    obtain ⟨h1, h2⟩ := takeWhile_all p r h.2
    simp [List.takeWhile, List.dropWhile, h.1, h1, h2]

theorem splitNum_digits (t : List Char) (hd : t.all isDigit = true) (hne : t ≠ []) :
    splitNum t = some ⟨t, [], false, [], false, false⟩ := by
  obtain ⟨h1, h2⟩ := takeWhile_all isDigit t hd
  have h3 : t.isEmpty = false := by cases t <;> simp_all
  simp [splitNum, h1, h2, h3]

/-- value of an all-digit token as a function of its digit value only -/
def intVal (m : Nat) : Rat := ((m : Nat) : Rat) / (((10 : Nat) ^ ([] : List Char).length : Nat) : Rat) * (((10 : Nat) ^ digitsVal 0 [] : Nat) : Rat)

theorem numValue_digits (t : List Char) (hd : t.all isDigit = true) (hne : t ≠ []) :
    numValue? t = some (intVal (digitsVal 0 t)) := by
  unfold numValue?
  rw [splitNum_digits t hd hne]
  simp only [Option.map, List.append_nil, intVal]
  rfl

/-- **numbers denote their value**: the NUMBER token `t` (any token the decimal reading accepts: digits, optional
    fraction, optional exponent, leading zeros allowed) is emitted as a Python literal that Python accepts and
    that denotes the same exact rational -/
theorem pyNumValue_emitNumber (t : List Char) (h : (numValue? t).isSome = true) :
    pyNumValue? (emitNumber true t) = numValue? t := by
  by_cases hd : t.all isDigit = true
  · have hne : t ≠ [] := by
      intro h0; subst h0; simp [numValue?, splitNum] at h
    simp only [emitNumber, Bool.true_and, hd, if_true]
    have hs := stripZeros_spec t
    have ha := stripZeros_all isDigit t hd
    have hn := stripZeros_ne_nil t hne
    rw [numValue_digits t hd hne, ← digitsVal_stripZeros t, ← numValue_digits _ ha hn]
    unfold pyNumValue?
    rw [if_neg]
    intro ⟨_, h2, h3, _⟩
    rcases hs with hs | hs
    · omega
    · exact hs h3
  · have : emitNumber true t = t := by simp [emitNumber, hd]
    rw [this]
    unfold pyNumValue?
    rw [if_neg]
    intro ⟨h1, _⟩
    exact hd h1

end Pycel.Formula

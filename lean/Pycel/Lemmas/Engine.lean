/-
  Lemmas about the generic engine (Model/Engine.lean): from-scratch value, lazy evaluation, reset walk,
  build-on-demand, and preservation of the invariant `Inv` by every operation.  Core Lean only.
-/
import Pycel.Model.Engine
namespace Pycel.Engine

variable {α : Type} {wb : Workbook} {f : Nat → (Nat → α) → α}

@[simp] theorem update_same (g : Nat → β) (i : Nat) (v : β) : update g i v i = v := by simp [update]
theorem update_ne (g : Nat → β) {i k : Nat} (v : β) (h : k ≠ i) : update g i v k = g k := by simp [update, h]

theorem mem_succs {k m : Nat} : m ∈ succs wb k ↔ m < wb.n ∧ k ∈ wb.deps m := by
  simp [succs, List.mem_filter, List.mem_range]

/-! ### from-scratch value -/

theorem denoteF_fuel (hwf : WF wb) (hl : Local wb f) (inp : Nat → α) :
    ∀ a b i, i < a → i < b → denoteF wb f inp a i = denoteF wb f inp b i := by
  intro a
  induction a with
  | zero => intro b i h; omega
  | succ a ih =>
    intro b i ha hb
    cases b with
    | zero => omega
    | succ b =>
      cases hk : wb.kind i <;> simp only [denoteF, hk]
      all_goals
        apply hl
        intro j hj
        have := hwf.lt i j hj
        exact ih b j (by omega) (by omega)

theorem denote_input (inp : Nat → α) {i : Nat} (h : wb.kind i = .input) : denote wb f inp i = inp i := by
  simp [denote, denoteF, h]

theorem denote_node (hwf : WF wb) (hl : Local wb f) (inp : Nat → α) {i : Nat} (h : wb.kind i ≠ .input) :
    denote wb f inp i = f i (fun j => denote wb f inp j) := by
  have key : f i (fun j => denoteF wb f inp i j) = f i (fun j => denote wb f inp j) := by
    apply hl
    intro j hj
    have := hwf.lt i j hj
    exact denoteF_fuel hwf hl inp i (j+1) j this (by omega)
  cases hk : wb.kind i
  · exact absurd hk h
  · simpa [denote, denoteF, hk] using key
  · simpa [denote, denoteF, hk] using key

/-- the from-scratch value of a node only depends on the inputs it (transitively) reads -/
theorem denote_congr (hwf : WF wb) (hl : Local wb f) (inp inp' : Nat → α) (ok : Nat → Prop)
    (hin : ∀ m, ok m → wb.kind m = .input → inp' m = inp m)
    (hdep : ∀ m, ok m → wb.kind m ≠ .input → ∀ j, j ∈ wb.deps m → ok j) :
    ∀ m, ok m → denote wb f inp' m = denote wb f inp m := by
  intro m
  induction m using Nat.strongRecOn with
  | _ m ih =>
    intro hm
    by_cases hk : wb.kind m = .input
    · rw [denote_input _ hk, denote_input _ hk]; exact hin m hm hk
    · rw [denote_node hwf hl _ hk, denote_node hwf hl _ hk]
      apply hl
      intro j hj
      exact ih j (hwf.lt m j hj) (hdep m hm hk j hj)

/-! ### lazy evaluation -/

/-- `s'` has the same inputs / cell map / stored results as `s` and keeps every cached value of `s` -/
structure Grows (s s' : State α) : Prop where
  inp : s'.inp = s.inp
  built : s'.built = s.built
  stored : s'.stored = s.stored
  cache : ∀ m, s.cache m ≠ none → s'.cache m = s.cache m

theorem Grows.refl (s : State α) : Grows s s := ⟨rfl, rfl, rfl, fun _ _ => rfl⟩

theorem Grows.trans {s s' s'' : State α} (h1 : Grows s s') (h2 : Grows s' s'') : Grows s s'' :=
  ⟨h2.inp.trans h1.inp, h2.built.trans h1.built, h2.stored.trans h1.stored, fun m hm => by
    have := h1.cache m hm
    rw [h2.cache m (by rw [this]; exact hm), this]⟩

structure EvalPost (wb : Workbook) (f : Nat → (Nat → α) → α) (s : State α) (i : Nat) (r : α × State α) :
    Prop where
  val : r.1 = denote wb f s.inp i
  grows : Grows s r.2
  i1 : I1 wb f r.2
  closed : Closed wb r.2
  cached : wb.kind i ≠ .input → r.2.cache i = some r.1

theorem evalFold_spec {fuel : Nat}
    (ih : ∀ j (s : State α), j < fuel → j < wb.n → I1 wb f s → Closed wb s → EvalPost wb f s j (evalF wb f fuel j s)) :
    ∀ (L : List Nat) (s : State α), (∀ j, j ∈ L → j < fuel ∧ j < wb.n) → I1 wb f s → Closed wb s →
      Grows s (L.foldl (fun st j => (evalF wb f fuel j st).2) s) ∧
      I1 wb f (L.foldl (fun st j => (evalF wb f fuel j st).2) s) ∧
      Closed wb (L.foldl (fun st j => (evalF wb f fuel j st).2) s) ∧
      ∀ j, j ∈ L → wb.kind j ≠ .input → (L.foldl (fun st j => (evalF wb f fuel j st).2) s).cache j ≠ none := by
  intro L
  induction L with
  | nil => intro s _ h1 h2; exact ⟨Grows.refl s, h1, h2, by simp⟩
  | cons a L ihL =>
    intro s hL h1 h2
    have ha := hL a (by simp)
    have p := ih a s ha.1 ha.2 h1 h2
    have q := ihL (evalF wb f fuel a s).2 (fun j hj => hL j (by simp [hj])) p.i1 p.closed
    simp only [List.foldl_cons]
    refine ⟨p.grows.trans q.1, q.2.1, q.2.2.1, ?_⟩
    intro j hj hk
    rcases List.mem_cons.mp hj with rfl | hj
    · have hc := p.cached hk
      rw [q.1.cache j (by rw [hc]; simp), hc]; simp
    · exact q.2.2.2 j hj hk

theorem evalF_spec (hwf : WF wb) (hl : Local wb f) :
    ∀ fuel i (s : State α), i < fuel → i < wb.n → I1 wb f s → Closed wb s →
      EvalPost wb f s i (evalF wb f fuel i s) := by
  intro fuel
  induction fuel with
  | zero => intro i s h; omega
  | succ fuel ih =>
    intro i s hi hn h1 h2
    by_cases hk : wb.kind i = .input
    · have : evalF wb f (fuel+1) i s = (s.inp i, s) := by simp [evalF, hk]
      rw [this]
      exact ⟨(denote_input _ hk).symm, Grows.refl s, h1, h2, fun h => absurd hk h⟩
    · cases hc : s.cache i with
      | some v =>
        have : evalF wb f (fuel+1) i s = (v, s) := by
          cases hk' : wb.kind i
          · exact absurd hk' hk
          all_goals simp [evalF, hk', hc]
        rw [this]
        exact ⟨h1 i v hc, Grows.refl s, h1, h2, fun _ => hc⟩
      | none =>
        have hdeps : ∀ j, j ∈ wb.deps i → j < fuel ∧ j < wb.n := fun j hj => by
          have := hwf.lt i j hj; omega
        have fs := evalFold_spec (wb := wb) (f := f) (fun j s hj hjn a b => ih j s hj hjn a b) (wb.deps i) s hdeps h1 h2
        generalize hs1 : (wb.deps i).foldl (fun st j => (evalF wb f fuel j st).2) s = s1 at fs
        obtain ⟨g, i1', c', dc⟩ := fs
        have hv : f i (valueOf wb s1) = denote wb f s.inp i := by
          rw [denote_node hwf hl _ hk]
          apply hl
          intro j hj
          by_cases hkj : wb.kind j = .input
          · simp [valueOf, hkj, denote_input _ hkj, g.inp]
          · have hne := dc j hj hkj
            cases hcj : s1.cache j with
            | none => exact absurd hcj hne
            | some w =>
              have := i1' j w hcj
              rw [g.inp] at this
              cases hk' : wb.kind j
              · exact absurd hk' hkj
              all_goals simp [valueOf, hk', hcj, this]
        have : evalF wb f (fuel+1) i s =
            (f i (valueOf wb s1), { s1 with cache := update s1.cache i (some (f i (valueOf wb s1))) }) := by
          cases hk' : wb.kind i
          · exact absurd hk' hk
          all_goals simp [evalF, hk', hc, hs1]
        rw [this]
        refine ⟨hv, ⟨g.inp, g.built, g.stored, ?_⟩, ?_, ?_, fun _ => by simp⟩
        · intro m hm
          have hmi : m ≠ i := fun e => by rw [e] at hm; exact hm hc
          simp only [update_ne _ _ hmi]
          exact g.cache m hm
        · intro m v hmv
          by_cases hmi : m = i
          · subst hmi
            simp at hmv
            rw [← hmv, hv, g.inp]
          · simp only [update_ne _ _ hmi] at hmv
            exact i1' m v hmv
        · intro m hm
          by_cases hmi : m = i
          · subst hmi
            refine ⟨hk, hn, fun j hj => ?_⟩
            by_cases hkj : wb.kind j = .input
            · exact Or.inl hkj
            · right
              have : j ≠ m := by have := hwf.lt m j hj; omega
              simp only [update_ne _ _ this]
              exact dc j hj hkj
          · simp only [update_ne _ _ hmi] at hm
            obtain ⟨a, b, c⟩ := c' m hm
            refine ⟨a, b, fun j hj => ?_⟩
            rcases c j hj with h | h
            · exact Or.inl h
            · right
              by_cases hji : j = i
              · subst hji; simp
              · simp only [update_ne _ _ hji]; exact h

/-! ### reset walk -/

/-- node `m` is cached although one of its precedents is poisoned (`P`) or is an uncomputed formula/range -/
def Viol (wb : Workbook) (P : Nat → Prop) (s : State α) (m : Nat) : Prop :=
  s.cache m ≠ none ∧ ∃ j, j ∈ wb.deps m ∧ (P j ∨ (wb.kind j ≠ .input ∧ s.cache j = none))

/-- `s'` differs from `s` only by cleared cache entries -/
structure Clears (s s' : State α) : Prop where
  inp : s'.inp = s.inp
  built : s'.built = s.built
  stored : s'.stored = s.stored
  cache : ∀ m, s'.cache m = none ∨ s'.cache m = s.cache m

theorem Clears.refl (s : State α) : Clears s s := ⟨rfl, rfl, rfl, fun _ => Or.inr rfl⟩

theorem Clears.trans {s s' s'' : State α} (h1 : Clears s s') (h2 : Clears s' s'') : Clears s s'' :=
  ⟨h2.inp.trans h1.inp, h2.built.trans h1.built, h2.stored.trans h1.stored, fun m => by
    rcases h2.cache m with h | h
    · exact Or.inl h
    · rcases h1.cache m with h' | h'
      · left; rw [h, h']
      · right; rw [h, h']⟩

def Bound (wb : Workbook) (s : State α) : Prop := ∀ m, s.cache m ≠ none → m < wb.n

theorem Clears.bound {s s' : State α} (h : Clears s s') (b : Bound wb s) : Bound wb s' := fun m hm => by
  rcases h.cache m with h' | h'
  · exact absurd h' hm
  · exact b m (by rw [← h']; exact hm)

def ResetPost (wb : Workbook) (P : Nat → Prop) (s : State α) (k : Nat) (s' : State α) : Prop :=
  Clears s s' ∧ ∀ m, Viol wb P s' m → Viol wb P s m ∧ m ≠ k

theorem resetLoopG_spec {P : Nat → Prop} (pass : Nat → Bool) (r : Nat → State α → State α) :
    ∀ (L : List Nat) (s : State α),
      (∀ j, j ∈ L → ∀ st : State α, Bound wb st → (st.cache j ≠ none ∨ pass j = true) →
        ResetPost wb P st j (r j st)) → Bound wb s →
      Clears s (L.foldl (resetStepG pass r) s) ∧
      ∀ m, Viol wb P (L.foldl (resetStepG pass r) s) m → Viol wb P s m ∧ m ∉ L := by
  intro L
  induction L with
  | nil => intro s _ _; exact ⟨Clears.refl s, fun m h => ⟨h, by simp⟩⟩
  | cons a L ih =>
    intro s hr hb
    have step1 : ResetPost wb P s a (resetStepG pass r s a) := by
      cases hc : s.cache a with
      | none =>
        by_cases hp : pass a = true
        · have : resetStepG pass r s a = r a s := by simp [resetStepG, hc, hp]
          rw [this]
          exact hr a (by simp) s hb (Or.inr hp)
        · have : resetStepG pass r s a = s := by simp [resetStepG, hc, hp]
          rw [this]
          exact ⟨Clears.refl s, fun m h => ⟨h, fun e => by rw [e] at h; exact h.1 hc⟩⟩
      | some v =>
        have : resetStepG pass r s a = r a s := by simp [resetStepG, hc]
        rw [this]
        exact hr a (by simp) s hb (Or.inl (by rw [hc]; simp))
    have q := ih (resetStepG pass r s a) (fun j hj => hr j (by simp [hj])) (step1.1.bound hb)
    simp only [List.foldl_cons]
    refine ⟨step1.1.trans q.1, fun m hm => ?_⟩
    have h2 := q.2 m hm
    have h3 := step1.2 m h2.1
    exact ⟨h3.1, by simp [h3.2, h2.2]⟩

theorem resetG_spec (hwf : WF wb) (P : Nat → Prop) (pass : Nat → Bool) :
    ∀ fuel k (s : State α), wb.n ≤ k + fuel → Bound wb s → ResetPost wb P s k (resetG wb pass fuel k s) := by
  intro fuel
  induction fuel with
  | zero =>
    intro k s hk hb
    refine ⟨Clears.refl s, fun m h => ⟨h, fun e => ?_⟩⟩
    have := hb m h.1
    omega
  | succ fuel ih =>
    intro k s hk hb
    have : resetG wb pass (fuel+1) k s =
        (succs wb k).foldl (resetStepG pass (resetG wb pass fuel)) { s with cache := update s.cache k none } := by
      simp [resetG]
    rw [this]
    generalize hs1 : ({ s with cache := update s.cache k none } : State α) = s1
    have hcl : Clears s s1 := by
      subst hs1
      refine ⟨rfl, rfl, rfl, fun m => ?_⟩
      by_cases hm : m = k
      · left; simp [hm]
      · right; simp [update_ne _ _ hm]
    have hb1 : Bound wb s1 := hcl.bound hb
    have loop := resetLoopG_spec (wb := wb) (P := P) pass (resetG wb pass fuel) (succs wb k) s1
      (fun j hj st hst _ => by
        have hj' := mem_succs.mp hj
        have := hwf.lt j k hj'.2
        exact ih j st (by omega) hst) hb1
    refine ⟨hcl.trans loop.1, fun m hm => ?_⟩
    obtain ⟨hv1, hnot⟩ := loop.2 m hm
    -- a violation in s1 is an old one or a cached successor of k
    have hmk : m ≠ k := fun e => by
      subst hs1; rw [e] at hv1; exact hv1.1 (by simp)
    have hcm : s.cache m ≠ none := by
      have := hv1.1; subst hs1; simpa [update_ne _ _ hmk] using this
    obtain ⟨j, hj, hj2⟩ := hv1.2
    refine ⟨⟨hcm, j, hj, ?_⟩, hmk⟩
    rcases hj2 with hp | ⟨hkj, hcj⟩
    · exact Or.inl hp
    · right
      refine ⟨hkj, ?_⟩
      by_cases hjk : j = k
      · exfalso
        apply hnot
        exact mem_succs.mpr ⟨hb m hcm, hjk ▸ hj⟩
      · subst hs1; simpa [update_ne _ _ hjk] using hcj

/-- the successor loop of the code (pass-through of empty range nodes) -/
theorem resetLoop_spec {P : Nat → Prop} (r : Nat → State α → State α) :
    ∀ (L : List Nat) (s : State α),
      (∀ j, j ∈ L → ∀ st : State α, Bound wb st → (st.cache j ≠ none ∨ isRange wb j = true) →
        ResetPost wb P st j (r j st)) → Bound wb s →
      Clears s (L.foldl (resetStep wb r) s) ∧
      ∀ m, Viol wb P (L.foldl (resetStep wb r) s) m → Viol wb P s m ∧ m ∉ L :=
  resetLoopG_spec (isRange wb) r

theorem resetF_spec (hwf : WF wb) (P : Nat → Prop) :
    ∀ fuel k (s : State α), wb.n ≤ k + fuel → Bound wb s → ResetPost wb P s k (resetF wb fuel k s) :=
  resetG_spec hwf P (isRange wb)

/-! ### what a walk can clear: only dependants of its starting node -/

/-- `m` is `k` or depends (transitively) on `k` -/
inductive Desc (wb : Workbook) : Nat → Nat → Prop where
  | refl (k : Nat) : Desc wb k k
  | step {k j m : Nat} : Desc wb k j → j ∈ wb.deps m → Desc wb k m

theorem Desc.trans {k j m : Nat} (h1 : Desc wb k j) (h2 : Desc wb j m) : Desc wb k m := by
  induction h2 with
  | refl => exact h1
  | step _ hm ih => exact Desc.step ih hm

theorem resetLoopG_desc (pass : Nat → Bool) (r : Nat → State α → State α) :
    ∀ (L : List Nat) (s : State α),
      (∀ j, j ∈ L → ∀ (st : State α) m, (r j st).cache m ≠ st.cache m → Desc wb j m) →
      ∀ m, (L.foldl (resetStepG pass r) s).cache m ≠ s.cache m → ∃ j, j ∈ L ∧ Desc wb j m := by
  intro L
  induction L with
  | nil => intro s _ m h; exact absurd rfl h
  | cons a L ih =>
    intro s hr m hm
    simp only [List.foldl_cons] at hm
    by_cases h1 : (resetStepG pass r s a).cache m = s.cache m
    · rw [← h1] at hm
      obtain ⟨j, hj, hd⟩ := ih (resetStepG pass r s a) (fun j hj => hr j (by simp [hj])) m hm
      exact ⟨j, by simp [hj], hd⟩
    · refine ⟨a, by simp, ?_⟩
      unfold resetStepG at h1
      split at h1
      · exact hr a (by simp) s m h1
      · split at h1
        · exact hr a (by simp) s m h1
        · exact absurd rfl h1

theorem resetG_desc (pass : Nat → Bool) :
    ∀ fuel k (s : State α) m, (resetG wb pass fuel k s).cache m ≠ s.cache m → Desc wb k m := by
  intro fuel
  induction fuel with
  | zero => intro k s m h; exact absurd rfl h
  | succ fuel ih =>
    intro k s m hm
    by_cases hmk : m = k
    · rw [hmk]; exact Desc.refl k
    · have hrw : resetG wb pass (fuel+1) k s =
          (succs wb k).foldl (resetStepG pass (resetG wb pass fuel)) { s with cache := update s.cache k none } := by
        simp [resetG]
      rw [hrw] at hm
      have h1 : ({ s with cache := update s.cache k none } : State α).cache m = s.cache m := by
        simp [update_ne _ _ hmk]
      rw [← h1] at hm
      obtain ⟨j, hj, hd⟩ := resetLoopG_desc (wb := wb) pass (resetG wb pass fuel) (succs wb k) _
        (fun j _ st m' h => ih j st m' h) m hm
      exact Desc.trans (Desc.step (Desc.refl k) (mem_succs.mp hj).2) hd

theorem desc_has_dep {i j m : Nat} (hi : i ∈ wb.deps j) (h : Desc wb j m) : wb.deps m ≠ [] := by
  cases h with
  | refl => intro e; rw [e] at hi; cases hi
  | step _ hm => intro e; rw [e] at hm; cases hm

/-- in a state without violations (poison = "is `i`"), every (transitive) dependant of `i` is empty -/
theorem desc_cleared (hwf : WF wb) {i : Nat} {X : State α} (hnv : ∀ m, ¬ Viol wb (fun j => j = i) X m)
    {j m : Nat} (hi : i ∈ wb.deps j) (h : Desc wb j m) : X.cache m = none := by
  induction h with
  | refl =>
    apply Classical.byContradiction
    intro hc
    exact hnv j ⟨hc, i, hi, Or.inl rfl⟩
  | step hd hm ih =>
    rename_i j' m'
    apply Classical.byContradiction
    intro hc
    have hk : wb.kind j' ≠ .input := fun e => desc_has_dep hi hd (hwf.input j' e)
    exact hnv m' ⟨hc, j', hm, Or.inr ⟨hk, ih⟩⟩

theorem State.ext' {a b : State α} (h1 : a.inp = b.inp) (h2 : a.cache = b.cache) (h3 : a.built = b.built)
    (h4 : a.stored = b.stored) : a = b := by
  cases a; cases b; simp_all

/-! ### setValue -/

theorem Closed.bound {s : State α} (h : Closed wb s) : Bound wb s := fun m hm => (h m hm).2.1

theorem Closed.noViol {s : State α} (h : Closed wb s) (m : Nat) : ¬ Viol wb (fun _ => False) s m := by
  rintro ⟨hm, j, hj, hp | ⟨hk, hc⟩⟩
  · exact hp
  · rcases (h m hm).2.2 j hj with h' | h'
    · exact hk h'
    · exact h' hc

/-- effect of an accepted, effective write: the walk leaves no cached node that reads `i` or an emptied node -/
theorem setWalk_spec (hwf : WF wb) (hl : Local wb f) {s : State α} (hinv : Inv wb f s) (i : Nat) (v : α) :
    let s1 : State α := { s with inp := update s.inp i v, stored := fun _ => none }
    let s' := (succs wb i).foldl (resetStep wb (resetF wb wb.n)) s1
    Inv wb f s' ∧ s'.inp = update s.inp i v ∧ s'.built = s.built := by
  intro s1 s'
  have hb1 : Bound wb s1 := hinv.closed.bound
  have loop := resetLoop_spec (wb := wb) (P := fun j => j = i) (resetF wb wb.n) (succs wb i) s1
    (fun j _ st hst _ => resetF_spec hwf _ wb.n j st (by omega) hst) hb1
  have hcl : Clears s1 s' := loop.1
  have hnv : ∀ m, ¬ Viol wb (fun j => j = i) s' m := by
    intro m hm
    obtain ⟨hv1, hnot⟩ := loop.2 m hm
    obtain ⟨hcm, j, hj, hj2⟩ := hv1
    rcases hj2 with hp | ⟨hkj, hcj⟩
    · exact hnot (mem_succs.mpr ⟨hb1 m hcm, hp ▸ hj⟩)
    · exact hinv.closed.noViol m ⟨hcm, j, hj, Or.inr ⟨hkj, hcj⟩⟩
  have hsub : ∀ m, s'.cache m ≠ none → s'.cache m = s.cache m := fun m hm => by
    rcases hcl.cache m with h | h
    · exact absurd h hm
    · exact h
  have hclosed : Closed wb s' := by
    intro m hm
    have hm0 : s.cache m ≠ none := by rw [← hsub m hm]; exact hm
    obtain ⟨a, b, _⟩ := hinv.closed m hm0
    refine ⟨a, b, fun j hj => ?_⟩
    by_cases hkj : wb.kind j = .input
    · exact Or.inl hkj
    · right
      intro hcj
      exact hnv m ⟨hm, j, hj, Or.inr ⟨hkj, hcj⟩⟩
  have hinp : s'.inp = update s.inp i v := hcl.inp
  refine ⟨⟨?_, hclosed, Or.inl (fun j => by rw [hcl.stored])⟩, hinp, hcl.built⟩
  -- I1: a node that is still cached does not depend on the written cell
  intro m w hmw
  have hm : s'.cache m ≠ none := by rw [hmw]; simp
  have hold : w = denote wb f s.inp m := hinv.i1 m w (by rw [← hsub m hm]; exact hmw)
  rw [hold, hinp]
  symm
  apply denote_congr hwf hl s.inp (update s.inp i v) (fun m => s'.cache m ≠ none ∨ (wb.kind m = .input ∧ m ≠ i))
  · intro m hok hk
    rcases hok with h | h
    · exact absurd hk (hclosed m h).1
    · exact update_ne _ _ h.2
  · intro m hok hk j hj
    rcases hok with h | h
    · by_cases hkj : wb.kind j = .input
      · right
        refine ⟨hkj, fun e => ?_⟩
        exact hnv m ⟨h, j, hj, Or.inl e⟩
      · left
        intro hcj
        exact hnv m ⟨h, j, hj, Or.inr ⟨hkj, hcj⟩⟩
    · exact absurd h.1 hk
  · exact Or.inl hm

theorem setValue_inv (hwf : WF wb) (hl : Local wb f) (eqv : α → α → Bool) {s : State α} (hinv : Inv wb f s)
    (i : Nat) (v : α) : Inv wb f (setValue wb eqv i v s) := by
  unfold setValue
  split
  · rename_i h
    split
    · exact hinv
    · exact (setWalk_spec hwf hl hinv i v).1
  · exact hinv

/-- what `setValue` does to the inputs: an accepted write lands exactly (given a sound equality test),
    anything else changes nothing -/
theorem setValue_inp (hwf : WF wb) (hl : Local wb f) (eqv : α → α → Bool) (hsound : ∀ a b, eqv a b = true → a = b)
    {s : State α} (hinv : Inv wb f s) (i : Nat) (v : α) :
    (setValue wb eqv i v s).inp =
      if i < wb.n ∧ wb.kind i = .input ∧ s.built i = true then update s.inp i v else s.inp := by
  unfold setValue
  split
  · rename_i h
    split
    · rename_i he
      have := hsound _ _ he
      funext k
      by_cases hk : k = i
      · subst hk; simp [this]
      · simp [update_ne _ _ hk]
    · exact (setWalk_spec hwf hl hinv i v).2.1
  · rfl

theorem setValue_built (hwf : WF wb) (hl : Local wb f) (eqv : α → α → Bool) {s : State α} (hinv : Inv wb f s)
    (i : Nat) (v : α) : (setValue wb eqv i v s).built = s.built := by
  unfold setValue
  split
  · rename_i h
    split
    · rfl
    · exact (setWalk_spec hwf hl hinv i v).2.2
  · rfl

/-! ### the walk with and without the pass-through of empty range nodes -/

theorem walk_unique (hwf : WF wb) {i : Nat} {s1 A B : State α} (ca : Clears s1 A) (cb : Clears s1 B)
    (na : ∀ m, ¬ Viol wb (fun j => j = i) A m) (nb : ∀ m, ¬ Viol wb (fun j => j = i) B m)
    (pa : ∀ m, A.cache m ≠ s1.cache m → ∃ j, j ∈ succs wb i ∧ Desc wb j m)
    (pb : ∀ m, B.cache m ≠ s1.cache m → ∃ j, j ∈ succs wb i ∧ Desc wb j m) : A = B := by
  apply State.ext' (ca.inp.trans cb.inp.symm) _ (ca.built.trans cb.built.symm) (ca.stored.trans cb.stored.symm)
  funext m
  by_cases ha : A.cache m = s1.cache m
  · by_cases hb : B.cache m = s1.cache m
    · rw [ha, hb]
    · obtain ⟨j, hj, hd⟩ := pb m hb
      have h0 := desc_cleared hwf na (mem_succs.mp hj).2 hd
      rcases cb.cache m with h | h
      · rw [h0, h]
      · exact absurd h hb
  · obtain ⟨j, hj, hd⟩ := pa m ha
    have h0 := desc_cleared hwf nb (mem_succs.mp hj).2 hd
    rcases ca.cache m with h | h
    · rw [h, h0]
    · exact absurd h ha

/-- facts about the top-level walk of `setValue`, for any pass-through rule -/
theorem walkG_facts (hwf : WF wb) (pass : Nat → Bool) {s : State α} (hc : Closed wb s) (i : Nat) (v : α) :
    let s1 : State α := { s with inp := update s.inp i v, stored := fun _ => none }
    let X := (succs wb i).foldl (resetStepG pass (resetG wb pass wb.n)) s1
    Clears s1 X ∧ (∀ m, ¬ Viol wb (fun j => j = i) X m) ∧
      ∀ m, X.cache m ≠ s1.cache m → ∃ j, j ∈ succs wb i ∧ Desc wb j m := by
  intro s1 X
  have hb1 : Bound wb s1 := hc.bound
  have loop := resetLoopG_spec (wb := wb) (P := fun j => j = i) pass (resetG wb pass wb.n) (succs wb i) s1
    (fun j _ st hst _ => resetG_spec hwf _ pass wb.n j st (by omega) hst) hb1
  refine ⟨loop.1, fun m hm => ?_, ?_⟩
  · obtain ⟨hv1, hnot⟩ := loop.2 m hm
    obtain ⟨hcm, j, hj, hj2⟩ := hv1
    rcases hj2 with hp | ⟨hkj, hcj⟩
    · exact hnot (mem_succs.mpr ⟨hb1 m hcm, hp ▸ hj⟩)
    · exact hc.noViol m ⟨hcm, j, hj, Or.inr ⟨hkj, hcj⟩⟩
  · exact resetLoopG_desc (wb := wb) pass (resetG wb pass wb.n) (succs wb i) s1
      (fun j _ st m h => resetG_desc pass wb.n j st m h)

/-- on a state that satisfies `Closed` (part of `Inv`) the walk of the code (pass-through of empty range nodes,
    f32e634) and the walk before it produce the same state: the fix is behaviour-preserving there -/
theorem setValue_eq_old (hwf : WF wb) (eqv : α → α → Bool) {s : State α} (hc : Closed wb s) (i : Nat) (v : α) :
    setValue wb eqv i v s = setValueOld wb eqv i v s := by
  unfold setValue setValueOld
  split
  · split
    · rfl
    · have a := walkG_facts hwf (isRange wb) hc i v
      have b := walkG_facts hwf (fun _ => false) hc i v
      exact walk_unique hwf a.1 b.1 a.2.1 b.2.1 a.2.2 b.2.2
  · rfl

/-! ### build on demand -/

theorem StoredOK.of_grows {s s' : State α} (g : Grows s s') (h : StoredOK wb f s) : StoredOK wb f s' := by
  rcases h with h | ⟨h1, h2⟩
  · left; intro j; rw [g.stored]; exact h j
  · right
    refine ⟨fun j hj hk => by rw [g.stored, g.inp]; exact h1 j hj hk, fun d hd hb hk => ?_⟩
    rw [g.built] at hb
    have := h2 d hd hb hk
    rw [g.cache d this]; exact this

structure BuildPost (wb : Workbook) (f : Nat → (Nat → α) → α) (s : State α) (i : Nat) (s' : State α) : Prop where
  inv : Inv wb f s'
  inp : s'.inp = s.inp
  mono : ∀ m, s.built m = true → s'.built m = true
  done : s'.built i = true
  keeps : ∀ m, s.cache m ≠ none → s'.cache m ≠ none

theorem buildFold_spec {fuel : Nat}
    (ih : ∀ j (s : State α), j < fuel → j < wb.n → Inv wb f s → BuildPost wb f s j (buildF wb f fuel j s)) :
    ∀ (L : List Nat) (s : State α), (∀ j, j ∈ L → j < fuel ∧ j < wb.n) → Inv wb f s →
      Inv wb f (L.foldl (fun st j => buildF wb f fuel j st) s) ∧
      (L.foldl (fun st j => buildF wb f fuel j st) s).inp = s.inp ∧
      (∀ m, s.built m = true → (L.foldl (fun st j => buildF wb f fuel j st) s).built m = true) ∧
      (∀ j, j ∈ L → (L.foldl (fun st j => buildF wb f fuel j st) s).built j = true) ∧
      ∀ m, s.cache m ≠ none → (L.foldl (fun st j => buildF wb f fuel j st) s).cache m ≠ none := by
  intro L
  induction L with
  | nil => intro s _ h; exact ⟨h, rfl, fun _ h => h, by simp, fun _ h => h⟩
  | cons a L ihL =>
    intro s hL hinv
    have ha := hL a (by simp)
    have p := ih a s ha.1 ha.2 hinv
    have q := ihL (buildF wb f fuel a s) (fun j hj => hL j (by simp [hj])) p.inv
    simp only [List.foldl_cons]
    refine ⟨q.1, q.2.1.trans p.inp, fun m hm => q.2.2.1 m (p.mono m hm), ?_,
      fun m hm => q.2.2.2.2 m (p.keeps m hm)⟩
    intro j hj
    rcases List.mem_cons.mp hj with rfl | hj
    · exact q.2.2.1 j p.done
    · exact q.2.2.2.1 j hj

theorem buildF_spec (hwf : WF wb) (hl : Local wb f) :
    ∀ fuel i (s : State α), i < fuel → i < wb.n → Inv wb f s → BuildPost wb f s i (buildF wb f fuel i s) := by
  intro fuel
  induction fuel with
  | zero => intro i s h; omega
  | succ fuel ih =>
    intro i s hi hn hinv
    by_cases hb : s.built i = true
    · have : buildF wb f (fuel+1) i s = s := by simp [buildF, hb]
      rw [this]; exact ⟨hinv, rfl, fun _ h => h, hb, fun _ h => h⟩
    · have hdeps : ∀ j, j ∈ wb.deps i → j < fuel ∧ j < wb.n := fun j hj => by
        have := hwf.lt i j hj; omega
      have fs := buildFold_spec (wb := wb) (f := f) (fun j s hj hjn a => ih j s hj hjn a) (wb.deps i) s hdeps hinv
      generalize hs1 : (wb.deps i).foldl (fun st j => buildF wb f fuel j st) s = s1 at fs
      obtain ⟨inv1, inp1, mono1, done1, keeps1⟩ := fs
      generalize hs2 : ({ s1 with built := update s1.built i true } : State α) = s2
      have c2 : s2.cache = s1.cache := by subst hs2; rfl
      have i2 : s2.inp = s1.inp := by subst hs2; rfl
      have st2 : s2.stored = s1.stored := by subst hs2; rfl
      have b2 : ∀ m, s2.built m = true ↔ (m = i ∨ s1.built m = true) := fun m => by
        subst hs2
        by_cases hm : m = i
        · simp [hm]
        · simp [update_ne _ _ hm, hm]
      have i1_2 : I1 wb f s2 := fun m v h => by rw [i2]; exact inv1.i1 m v (by rw [← c2]; exact h)
      have cl2 : Closed wb s2 := fun m h => by
        have := inv1.closed m (by rw [← c2]; exact h); rw [c2]; exact this
      have mono2 : ∀ m, s.built m = true → s2.built m = true := fun m hm => (b2 m).mpr (Or.inr (mono1 m hm))
      have keeps2 : ∀ m, s.cache m ≠ none → s2.cache m ≠ none := fun m hm => by rw [c2]; exact keeps1 m hm
      cases hk : wb.kind i with
      | input =>
        have : buildF wb f (fuel+1) i s = s2 := by simp [buildF, hb, hs1, hs2, hk]
        rw [this]
        refine ⟨⟨i1_2, cl2, ?_⟩, i2.trans inp1, mono2, (b2 i).mpr (Or.inl rfl), keeps2⟩
        rcases inv1.stored with h | ⟨h1, h2⟩
        · left; rw [st2]; exact h
        · right
          refine ⟨by rw [st2, i2]; exact h1, fun d hd hbd hkd => ?_⟩
          rw [c2]
          rcases (b2 d).mp hbd with e | e
          · rw [e] at hkd; exact absurd hk hkd
          · exact h2 d hd e hkd
      | formula =>
        cases hst : s2.stored i with
        | none =>
          have hst' : s1.stored i = none := by rw [← st2]; exact hst
          have : buildF wb f (fuel+1) i s = s2 := by simp [buildF, hb, hs1, hs2, hk, hst']
          rw [this]
          refine ⟨⟨i1_2, cl2, ?_⟩, i2.trans inp1, mono2, (b2 i).mpr (Or.inl rfl), keeps2⟩
          rcases inv1.stored with h | ⟨h1, _⟩
          · left; rw [st2]; exact h
          · have := h1 i hn hk
            rw [← st2, hst] at this; exact absurd this (by simp)
        | some v =>
          have hst' : s1.stored i = some v := by rw [← st2]; exact hst
          have : buildF wb f (fuel+1) i s = { s2 with cache := update s2.cache i (some v) } := by
            subst hs2
            simp [buildF, hb, hs1, hk, hst']
          rw [this]
          rcases inv1.stored with h | ⟨h1, h2⟩
          · have := h i; rw [← st2, hst] at this; exact absurd this (by simp)
          · have hv : v = denote wb f s1.inp i := by
              have := h1 i hn hk
              rw [← st2, hst] at this
              exact (Option.some.inj this)
            have hki : wb.kind i ≠ .input := by rw [hk]; simp
            refine ⟨⟨?_, ?_, Or.inr ⟨?_, ?_⟩⟩, i2.trans inp1, mono2, (b2 i).mpr (Or.inl rfl), ?_⟩
            · intro m w hmw
              by_cases hmi : m = i
              · subst hmi
                simp at hmw
                show w = denote wb f s2.inp m
                rw [← hmw, hv, i2]
              · simp only [update_ne _ _ hmi] at hmw
                exact i1_2 m w hmw
            · intro m hm
              by_cases hmi : m = i
              · subst hmi
                refine ⟨hki, hn, fun j hj => ?_⟩
                by_cases hkj : wb.kind j = .input
                · exact Or.inl hkj
                · right
                  have hjm : j ≠ m := by have := hwf.lt m j hj; omega
                  simp only [update_ne _ _ hjm]
                  rw [c2]
                  exact h2 j (by have := hwf.lt m j hj; omega) (done1 j hj) hkj
              · simp only [update_ne _ _ hmi] at hm
                obtain ⟨a, b, c⟩ := cl2 m hm
                refine ⟨a, b, fun j hj => ?_⟩
                rcases c j hj with h | h
                · exact Or.inl h
                · right
                  by_cases hji : j = i
                  · subst hji; simp
                  · simp only [update_ne _ _ hji]; exact h
            · intro j hj hkj
              show s2.stored j = some (denote wb f s2.inp j)
              rw [st2, i2]; exact h1 j hj hkj
            · intro d hd hbd hkd
              show update s2.cache i (some v) d ≠ none
              by_cases hdi : d = i
              · subst hdi; simp
              · simp only [update_ne _ _ hdi]
                rw [c2]
                rcases (b2 d).mp hbd with e | e
                · exact absurd e hdi
                · exact h2 d hd e hkd
            · intro m hm
              show update s2.cache i (some v) m ≠ none
              by_cases hmi : m = i
              · subst hmi; simp
              · simp only [update_ne _ _ hmi]; exact keeps2 m hm
      | range =>
        have : buildF wb f (fuel+1) i s = (evalF wb f (fuel+1) i s2).2 := by
          simp [buildF, hb, hs1, hs2, hk]
        rw [this]
        have hki : wb.kind i ≠ .input := by rw [hk]; simp
        have p := evalF_spec hwf hl (fuel+1) i s2 hi hn i1_2 cl2
        have so' : StoredOK wb f (evalF wb f (fuel+1) i s2).2 := by
          rcases inv1.stored with h | ⟨h1, h2⟩
          · left; intro j; rw [p.grows.stored, st2]; exact h j
          · right
            refine ⟨fun j hj hkj => by rw [p.grows.stored, p.grows.inp, st2, i2]; exact h1 j hj hkj,
              fun d hd hbd hkd => ?_⟩
            rw [p.grows.built] at hbd
            rcases (b2 d).mp hbd with e | e
            · subst e; rw [p.cached hki]; simp
            · have := h2 d hd e hkd
              rw [← c2] at this
              rw [p.grows.cache d this]; exact this
        refine ⟨⟨p.i1, p.closed, so'⟩, ?_, ?_, ?_, ?_⟩
        · rw [p.grows.inp]; exact i2.trans inp1
        · intro m hm; rw [p.grows.built]; exact mono2 m hm
        · rw [p.grows.built]; exact (b2 i).mpr (Or.inl rfl)
        · intro m hm; rw [p.grows.cache m (keeps2 m hm)]; exact keeps2 m hm

/-! ### evaluate, histories, initial configurations -/

structure EvaluatePost (wb : Workbook) (f : Nat → (Nat → α) → α) (s : State α) (a : Nat) (r : α × State α) :
    Prop where
  val : a < wb.n → r.1 = denote wb f s.inp a
  inv : Inv wb f r.2
  inp : r.2.inp = s.inp
  mono : ∀ m, s.built m = true → r.2.built m = true
  done : a < wb.n → r.2.built a = true
  keeps : ∀ m, s.cache m ≠ none → r.2.cache m ≠ none
  cached : a < wb.n → wb.kind a ≠ .input → r.2.cache a ≠ none

theorem evaluate_spec (hwf : WF wb) (hl : Local wb f) {s : State α} (hinv : Inv wb f s) (a : Nat) :
    EvaluatePost wb f s a (evaluate wb f a s) := by
  unfold evaluate
  split
  · rename_i h
    have b := buildF_spec hwf hl (a+1) a s (by omega) h hinv
    have p := evalF_spec hwf hl (a+1) a _ (by omega) h b.inv.i1 b.inv.closed
    exact ⟨fun _ => by rw [p.val, b.inp], ⟨p.i1, p.closed, StoredOK.of_grows p.grows b.inv.stored⟩,
      by rw [p.grows.inp, b.inp], fun m hm => by rw [p.grows.built]; exact b.mono m hm,
      fun _ => by rw [p.grows.built]; exact b.done,
      fun m hm => by rw [p.grows.cache m (b.keeps m hm)]; exact b.keeps m hm,
      fun _ hk => by rw [p.cached hk]; simp⟩
  · rename_i h
    exact ⟨fun h' => absurd h' h, hinv, rfl, fun _ h => h, fun h' => absurd h' h, fun _ h => h,
      fun h' => absurd h' h⟩

theorem step_inv (hwf : WF wb) (hl : Local wb f) (eqv : α → α → Bool) {s : State α} (hinv : Inv wb f s)
    (op : Op α) : Inv wb f (step wb f eqv s op) := by
  cases op with
  | set i v => exact setValue_inv hwf hl eqv hinv i v
  | eval a => exact (evaluate_spec hwf hl hinv a).inv

theorem run_inv (hwf : WF wb) (hl : Local wb f) (eqv : α → α → Bool) (h : List (Op α)) :
    ∀ {s : State α}, Inv wb f s → Inv wb f (run wb f eqv s h) := by
  induction h with
  | nil => intro s hs; exact hs
  | cons op h ih => intro s hs; exact ih (step_inv hwf hl eqv hs op)

theorem run_append (eqv : α → α → Bool) (s : State α) (h h' : List (Op α)) :
    run wb f eqv s (h ++ h') = run wb f eqv (run wb f eqv s h) h' := by
  simp [run, List.foldl_append]

theorem outputs_append (eqv : α → α → Bool) (h h' : List (Op α)) :
    ∀ s : State α, outputs wb f eqv s (h ++ h') = outputs wb f eqv s h ++ outputs wb f eqv (run wb f eqv s h) h' := by
  induction h with
  | nil => intro s; simp [outputs, run]
  | cons op h ih =>
    intro s
    cases op with
    | set i v => simp [outputs, run, step, ih]
    | eval a => simp [outputs, run, step, ih]

/-- evaluating a list of nodes: inputs unchanged, cached entries kept, every evaluated formula/range node cached -/
theorem evalAll_spec (hwf : WF wb) (hl : Local wb f) (eqv : α → α → Bool) :
    ∀ (L : List Nat) (s : State α), Inv wb f s →
      (run wb f eqv s (L.map Op.eval)).inp = s.inp ∧
      (∀ m, s.cache m ≠ none → (run wb f eqv s (L.map Op.eval)).cache m ≠ none) ∧
      ∀ a, a ∈ L → a < wb.n → wb.kind a ≠ .input → (run wb f eqv s (L.map Op.eval)).cache a ≠ none := by
  intro L
  induction L with
  | nil => intro s _; exact ⟨rfl, fun _ h => h, by simp⟩
  | cons b L ih =>
    intro s hs
    have e := evaluate_spec hwf hl hs b
    have r := ih (evaluate wb f b s).2 e.inv
    have hrun : run wb f eqv s ((b :: L).map Op.eval) =
        run wb f eqv (evaluate wb f b s).2 (L.map Op.eval) := by simp [run, step]
    rw [hrun]
    refine ⟨r.1.trans e.inp, fun m hm => r.2.1 m (e.keeps m hm), fun a ha han hka => ?_⟩
    rcases List.mem_cons.mp ha with rfl | ha
    · exact r.2.1 a (e.cached han hka)
    · exact r.2.2 a ha han hka

/-! ### list forms -/

theorem setMany_inv (hwf : WF wb) (hl : Local wb f) (eqv : α → α → Bool) (l : List (Nat × α)) :
    ∀ {s : State α}, Inv wb f s → Inv wb f (setMany wb eqv l s) := by
  induction l with
  | nil => intro s hs; exact hs
  | cons p r ih =>
    intro s hs
    obtain ⟨i, v⟩ := p
    unfold setMany
    split
    · exact ih (setValue_inv hwf hl eqv hs i v)
    · exact hs

/-- `evaluate([a…])` returns the from-scratch value of each address and keeps the invariant and the inputs -/
theorem evalMany_spec (hwf : WF wb) (hl : Local wb f) (l : List Nat) :
    ∀ {s : State α}, Inv wb f s → (∀ a, a ∈ l → a < wb.n) →
      (evalMany wb f l s).1 = l.map (denote wb f s.inp) ∧ Inv wb f (evalMany wb f l s).2 ∧
      (evalMany wb f l s).2.inp = s.inp := by
  induction l with
  | nil => intro s hs _; exact ⟨rfl, hs, rfl⟩
  | cons a r ih =>
    intro s hs hl'
    have e := evaluate_spec hwf hl hs a
    have q := ih e.inv (fun b hb => hl' b (by simp [hb]))
    simp only [evalMany, List.map_cons]
    refine ⟨?_, q.2.1, q.2.2.trans e.inp⟩
    rw [q.1, e.val (hl' a (by simp)), e.inp]

theorem evalMany_inv (hwf : WF wb) (hl : Local wb f) (l : List Nat) :
    ∀ {s : State α}, Inv wb f s → Inv wb f (evalMany wb f l s).2 := by
  induction l with
  | nil => intro s hs; exact hs
  | cons a r ih => intro s hs; exact ih (evaluate_spec hwf hl hs a).inv

theorem runX_inv (hwf : WF wb) (hl : Local wb f) (eqv : α → α → Bool) (h : List (OpX α)) :
    ∀ {s : State α}, Inv wb f s → Inv wb f (runX wb f eqv s h) := by
  induction h with
  | nil => intro s hs; exact hs
  | cons o h ih =>
    intro s hs
    apply ih
    cases o with
    | op o => exact step_inv hwf hl eqv hs o
    | setMany l => exact setMany_inv hwf hl eqv l hs
    | evalMany l => exact evalMany_inv hwf hl l hs

theorem initNoData_inv (inp : Nat → α) : Inv wb f (initNoData inp) :=
  ⟨fun m v h => by simp [initNoData] at h, fun m h => by simp [initNoData] at h, Or.inl fun _ => rfl⟩

theorem initStored_inv (inp : Nat → α) (stored : Nat → Option α) (hc : StoredConsistent wb f inp stored) :
    Inv wb f (initStored inp stored) :=
  ⟨fun m v h => by simp [initStored] at h, fun m h => by simp [initStored] at h,
   Or.inr ⟨fun j hj hk => hc j hj hk, fun d _ hb _ => by simp [initStored] at hb⟩⟩

theorem initLoaded_spec (hwf : WF wb) (hl : Local wb f) (inp : Nat → α) :
    Inv wb f (initLoaded wb f inp) ∧ (initLoaded wb f inp).inp = inp ∧
      (initLoaded wb f inp).built = (fun k => decide (k < wb.n)) := by
  unfold initLoaded
  have base : (I1 wb f (loadedBase wb inp) ∧ Closed wb (loadedBase wb inp)) ∧
      (loadedBase wb inp).stored = (fun _ => none) ∧ (loadedBase wb inp).inp = inp ∧
      (loadedBase wb inp).built = (fun k => decide (k < wb.n)) :=
    ⟨⟨fun m v h => by simp [loadedBase] at h, fun m h => by simp [loadedBase] at h⟩, rfl, rfl, rfl⟩
  have key : ∀ (L : List Nat) (s : State α), (∀ r, r ∈ L → r < wb.n) →
      ((I1 wb f s ∧ Closed wb s) ∧ s.stored = (fun _ => none) ∧ s.inp = inp ∧
        s.built = (fun k => decide (k < wb.n))) →
      let s' := L.foldl (fun st r => match wb.kind r with
        | .range => (evalF wb f (r+1) r st).2
        | _ => st) s
      ((I1 wb f s' ∧ Closed wb s') ∧ s'.stored = (fun _ => none) ∧ s'.inp = inp ∧
        s'.built = (fun k => decide (k < wb.n))) := by
    intro L
    induction L with
    | nil => intro s _ h; exact h
    | cons r L ih =>
      intro s hL h
      simp only [List.foldl_cons]
      apply ih _ (fun r' hr' => hL r' (by simp [hr']))
      cases hk : wb.kind r with
      | input => exact h
      | formula => exact h
      | range =>
        have p := evalF_spec hwf hl (r+1) r s (by omega) (hL r (by simp)) h.1.1 h.1.2
        exact ⟨⟨p.i1, p.closed⟩, by rw [p.grows.stored]; exact h.2.1, by rw [p.grows.inp]; exact h.2.2.1,
          by rw [p.grows.built]; exact h.2.2.2⟩
  have r := key (List.range wb.n) (loadedBase wb inp) (fun r hr => List.mem_range.mp hr) base
  exact ⟨⟨r.1.1, r.1.2, Or.inl fun j => congrFun r.2.1 j⟩, r.2.2.1, r.2.2.2⟩

end Pycel.Engine

/-
  Helper lemmas for C07 (Pycel/Model/Threads.lean): a step of thread `t` is a function of `t`'s own projection, and
  leaves every other thread's projection alone.
-/
import Pycel.Model.Threads
set_option linter.unusedSimpArgs false
set_option linter.unusedVariables false
namespace Pycel.Threads

/-- the placement isolates what results depend on: tracker and context per thread -/
def Isolating (P : Placement) : Prop := P.tracker = .isolated ∧ P.ctx = .isolated

instance (P : Placement) : Decidable (Isolating P) := by unfold Isolating; infer_instance

/-- a program whose reads of FUNC_META['name_space'] are harmless under `P`:
    either the namespace binding is per compiler, or the program never reads it -/
def Safe (P : Placement) (prog : List Op) : Prop := P.funcMeta = .isolated ∨ ∀ f, Op.mread f ∉ prog

theorem upd_same {α : Type} (f : Tid → α) (t : Tid) (v : α) : upd f t v t = v := by simp [upd]
theorem upd_other {α : Type} (f : Tid → α) (t u : Tid) (v : α) (h : u ≠ t) : upd f t v u = f u := by simp [upd, h]

theorem step_threads_other (P : Placement) (t u : Tid) (g : Global) (h : u ≠ t) :
    (step P t g).threads u = g.threads u := by
  unfold step
  split
  · rfl
  · simp [writeBack, upd_other _ _ _ _ h]

theorem step_locals_other (P : Placement) (t u : Tid) (g : Global) (h : u ≠ t) :
    (step P t g).locals u = g.locals u := by
  unfold step
  split
  · rfl
  · simp [writeBack, upd_other _ _ _ _ h]

theorem proj_step_other (P : Placement) (t u : Tid) (g : Global) (h : u ≠ t) :
    proj (step P t g) u = proj g u := by
  simp [proj, step_threads_other P t u g h, step_locals_other P t u g h]

theorem view_isolating (P : Placement) (hP : Isolating P) (g : Global) (t : Tid) : view P g t = g.locals t := by
  obtain ⟨h1, h2⟩ := hP
  simp [view, h1, h2]

/-- the projection of the thread state produced by one operation -/
def Thread.pr (th : Thread) : List Obs × List Op × List String × Bool := (th.obs, th.prog, th.myMeta, th.crashed)

theorem emit_pr (th : Thread) (o : Option Obs) :
    (th.emit o).pr = (th.obs ++ o.toList, th.prog, th.myMeta, th.crashed) := by
  cases o <;> simp [Thread.emit, Thread.pr]

theorem crash_pr (th : Thread) (e : String) :
    (th.crash e).pr = (th.obs ++ [.raised e], [], th.myMeta, true) := by
  simp [Thread.crash, Thread.pr]

/-- `execOp` on the observable part of a thread depends only on that part, the locals, and (for `mread` under a
    shared binding) the shared meta store -/
theorem execOp_local (P : Placement) (me : Tid) (op : Op) (l : Locals) (th1 th2 : Thread) (sh1 sh2 : Shared)
    (hth : th1.pr = th2.pr) (hs : P.funcMeta = .isolated ∨ ∀ f, op ≠ .mread f) :
    (execOp P me op l th1 sh1).1 = (execOp P me op l th2 sh2).1 ∧
    (execOp P me op l th1 sh1).2.1.pr = (execOp P me op l th2 sh2).2.1.pr := by
  have hth' := hth
  simp only [Thread.pr, Prod.mk.injEq] at hth'
  obtain ⟨h1, h2, h3, h4⟩ := hth'
  unfold execOp
  split
  · split <;> simp [emit_pr, crash_pr, h1, h2, h3, h4]
  · split
    · split <;> simp [emit_pr, crash_pr, h1, h2, h3, h4]
    · split
      · split <;> simp [Thread.pr, h1, h2, h3, h4]
      · split <;> simp [Thread.pr, h1, h2, h3, h4]
      · split
        · rename_i hm
          rcases hs with hs | hs
          · rw [hs] at hm; cases hm
          · exact absurd rfl (hs _)
        · simp [emit_pr, h1, h2, h3, h4]
      · simp [emit_pr, h1, h2, h3, h4]
      · simp [Thread.pr, h1, h2, h3, h4]

theorem proj_eq_iff (g1 g2 : Global) (t : Tid) :
    proj g1 t = proj g2 t ↔ g1.locals t = g2.locals t ∧ (g1.threads t).pr = (g2.threads t).pr := by
  simp only [proj, Thread.pr, Proj.mk.injEq, Prod.mk.injEq]

theorem step_nil (P : Placement) (t : Tid) (g : Global) (h : (g.threads t).prog = []) : step P t g = g := by
  unfold step; rw [h]

theorem step_cons_self (P : Placement) (hP : Isolating P) (t : Tid) (g : Global) (op : Op) (rest : List Op)
    (h : (g.threads t).prog = op :: rest) :
    (step P t g).locals t = (execOp P t op (g.locals t) { g.threads t with prog := rest } g.shared).1 ∧
    (step P t g).threads t = (execOp P t op (g.locals t) { g.threads t with prog := rest } g.shared).2.1 := by
  obtain ⟨h1, h2⟩ := hP
  unfold step
  rw [h]
  simp only [view_isolating P ⟨h1, h2⟩, writeBack, upd_same, h1, h2, and_self]

/-- a step of `t` is a function of `t`'s projection (its locals, its compiler/program state) only -/
theorem step_local (P : Placement) (hP : Isolating P) (t : Tid) (g1 g2 : Global)
    (h : proj g1 t = proj g2 t) (hs : Safe P (g1.threads t).prog) :
    proj (step P t g1) t = proj (step P t g2) t := by
  rw [proj_eq_iff] at h
  obtain ⟨hl, hp⟩ := h
  have hprog : (g1.threads t).prog = (g2.threads t).prog := by
    simp only [Thread.pr, Prod.mk.injEq] at hp; exact hp.2.1
  cases hpg : (g1.threads t).prog with
  | nil =>
    rw [step_nil P t g1 hpg, step_nil P t g2 (hprog ▸ hpg)]
    exact (proj_eq_iff g1 g2 t).2 ⟨hl, hp⟩
  | cons op rest =>
    have hpg2 : (g2.threads t).prog = op :: rest := hprog ▸ hpg
    obtain ⟨a1, b1⟩ := step_cons_self P hP t g1 op rest hpg
    obtain ⟨a2, b2⟩ := step_cons_self P hP t g2 op rest hpg2
    rw [proj_eq_iff, a1, b1, a2, b2, hl]
    apply execOp_local
    · simp only [Thread.pr, Prod.mk.injEq] at hp ⊢
      exact ⟨hp.1, trivial, hp.2.2.1, hp.2.2.2⟩
    · rcases hs with hs | hs
      · exact Or.inl hs
      · right; intro f hf
        exact hs f (by rw [hpg, hf]; exact List.mem_cons_self)

/-- the program of a thread only ever shrinks to a suffix (or to nothing on a crash) -/
theorem step_prog_sub (P : Placement) (t : Tid) (g : Global) (op : Op)
    (h : op ∈ ((step P t g).threads t).prog) : op ∈ (g.threads t).prog := by
  cases hpg : (g.threads t).prog with
  | nil => rw [step_nil P t g hpg] at h; rwa [hpg] at h
  | cons o rest =>
    unfold step at h
    rw [hpg] at h
    simp only [writeBack, upd_same] at h
    have : ∀ (l : Locals) (th : Thread) (sh : Shared) (x : Op),
        x ∈ (execOp P t o l th sh).2.1.prog → x ∈ th.prog := by
      intro l th sh x
      unfold execOp
      split
      · split <;> simp [Thread.emit, Thread.crash] <;> (try split) <;> simp
      · split
        · split <;> simp [Thread.emit, Thread.crash] <;> (try split) <;> simp
        · split <;> (try split) <;> simp [Thread.emit]
    exact List.mem_cons_of_mem _ (this _ _ _ op h)

theorem step_safe (P : Placement) (t : Tid) (g : Global) (hs : Safe P (g.threads t).prog) :
    Safe P ((step P t g).threads t).prog := by
  rcases hs with hs | hs
  · exact Or.inl hs
  · exact Or.inr fun f hf => hs f (step_prog_sub P t g _ hf)

theorem runSolo_congr (P : Placement) (hP : Isolating P) (t : Tid) (n : Nat) (g1 g2 : Global)
    (h : proj g1 t = proj g2 t) (hs : Safe P (g1.threads t).prog) :
    proj (runSolo P t n g1) t = proj (runSolo P t n g2) t := by
  induction n generalizing g1 g2 with
  | zero => exact h
  | succ n ih =>
    simp only [runSolo]
    exact ih _ _ (step_local P hP t g1 g2 h hs) (step_safe P t g1 hs)

/-! ### fresh threads: everything that is read has been created -/

/-- the lazy `ns` property creates every attribute the tracker API reads -/
def LazyTable.Complete (L : LazyTable) : Prop :=
  L.has "todo" = true ∧ L.has "computed" = true ∧ L.has "iteration_number" = true ∧ L.has "iterations" = true ∧
  L.has "tolerance" = true ∧ L.iterations.isSome = true ∧ L.tolerance.isSome = true

instance (L : LazyTable) : Decidable L.Complete := by unfold LazyTable.Complete; infer_instance

def Tracker.AllSome (t : Tracker) : Prop :=
  t.todo.isSome = true ∧ t.computed.isSome = true ∧ t.iterNo.isSome = true ∧ t.iterations.isSome = true ∧
  t.tolerance.isSome = true

/-- a tracker namespace is either untouched or fully created -/
def Tracker.WF (t : Tracker) : Prop := t.todo.isSome = true → t.AllSome

def Ctx.WF (c : Ctx) : Prop := c.addrs.isSome = true → c.pending.isSome = true

/-- depth of the context stack as the next operation will find it (an untouched namespace becomes `[False]`) -/
def Ctx.depth (c : Ctx) : Nat := match c.addrs with | none => 1 | some s => s.length

/-- the stack never underflows along a program: `exit` and `top` always find an element -/
def stackOk : List Op → Nat → Bool
  | [], _ => true
  | .enter :: r, d => stackOk r (d + 1)
  | .exit :: r, d => decide (1 ≤ d) && stackOk r (d - 1)
  | .top :: r, d => decide (1 ≤ d) && stackOk r d
  | _ :: r, d => stackOk r d

/-- op sequences a public operation can produce: `enter`/`exit` come from `with in_array_formula_context(...)`
    blocks (excelformula.py:931), hence properly nested; everything else is unconstrained -/
inductive Balanced : List Op → Prop
  | nil : Balanced []
  | atom (o : Op) (h1 : o ≠ .enter) (h2 : o ≠ .exit) : Balanced [o]
  | block (xs : List Op) : Balanced xs → Balanced (.enter :: xs ++ [.exit])
  | append (xs ys : List Op) : Balanced xs → Balanced ys → Balanced (xs ++ ys)

theorem stackOk_atom (o : Op) (h1 : o ≠ .enter) (h2 : o ≠ .exit) (r : List Op) (d : Nat) (hd : 1 ≤ d)
    (h : stackOk r d = true) : stackOk (o :: r) d = true := by
  cases o <;> simp_all [stackOk]

theorem balanced_stackOk (xs : List Op) (hb : Balanced xs) :
    ∀ (r : List Op) (d : Nat), 1 ≤ d → stackOk r d = true → stackOk (xs ++ r) d = true := by
  induction hb with
  | nil => intro r d _ h; simpa using h
  | atom o h1 h2 => intro r d hd h; exact stackOk_atom o h1 h2 r d hd h
  | block xs _ ih =>
    intro r d hd h
    simp only [List.cons_append, List.append_assoc, stackOk]
    apply ih _ (d + 1) (by omega)
    simp only [List.cons_append, List.nil_append, stackOk, Nat.add_sub_cancel]
    simp [h]
  | append xs ys _ _ ih1 ih2 =>
    intro r d hd h
    rw [List.append_assoc]
    exact ih1 _ d hd (ih2 r d hd h)

theorem ns_allSome (L : LazyTable) (hL : L.Complete) (t : Tracker) (h : t.WF) : (t.ns L).AllSome := by
  obtain ⟨a, b, c, d, e, f, g⟩ := hL
  unfold Tracker.ns
  split
  · rename_i h'; exact h h'
  · simp [Tracker.AllSome, a, b, c, d, e, f, g]

/-- with a complete lazy table no tracker operation can raise, from any well-formed namespace -/
theorem trackerOp_ok (L : LazyTable) (hL : L.Complete) (op : Op) (t : Tracker) (h : t.WF) :
    ∃ t' o, trackerOp L op t = .ok t' o ∧ t'.WF := by
  have hall := ns_allSome L hL t h
  generalize hn : t.ns L = n at hall
  obtain ⟨a, b, c, d, e⟩ := hall
  obtain ⟨x1, hx1⟩ := Option.isSome_iff_exists.1 a
  obtain ⟨x2, hx2⟩ := Option.isSome_iff_exists.1 b
  obtain ⟨x3, hx3⟩ := Option.isSome_iff_exists.1 c
  obtain ⟨x4, hx4⟩ := Option.isSome_iff_exists.1 d
  obtain ⟨x5, hx5⟩ := Option.isSome_iff_exists.1 e
  have hnwf : n.WF := fun _ => ⟨a, b, c, d, e⟩
  cases op <;> simp only [trackerOp, hn, hx1, hx2, hx3, hx4, hx5]
  case call i tol => exact ⟨_, _, rfl, fun _ => by simp [Tracker.AllSome, hx1, hx2]⟩
  case inc => exact ⟨_, _, rfl, fun _ => by simp [Tracker.AllSome, hx4, hx5]⟩
  case wip c => exact ⟨_, _, rfl, fun _ => by simp [Tracker.AllSome, hx2, hx3, hx4, hx5]⟩
  case calced c => exact ⟨_, _, rfl, fun _ => by simp [Tracker.AllSome, hx1, hx3, hx4, hx5]⟩
  case untodo c => exact ⟨_, _, rfl, fun _ => by simp [Tracker.AllSome, hx2, hx3, hx4, hx5]⟩
  case uncalced c => exact ⟨_, _, rfl, fun _ => by simp [Tracker.AllSome, hx1, hx3, hx4, hx5]⟩
  case isCalced c => exact ⟨_, _, rfl, hnwf⟩
  case tol => exact ⟨_, _, rfl, hnwf⟩
  case done => split <;> exact ⟨_, _, rfl, hnwf⟩
  all_goals exact ⟨_, _, rfl, h⟩

theorem ctx_ns_wf (c : Ctx) (h : c.WF) :
    ∃ s p, c.ns = { addrs := some s, pending := some p } ∧ s.length = c.depth := by
  unfold Ctx.ns Ctx.depth
  cases ha : c.addrs with
  | none => exact ⟨["F"], "N", by simp, rfl⟩
  | some s =>
    have := h (by simp [ha])
    obtain ⟨p, hp⟩ := Option.isSome_iff_exists.1 this
    refine ⟨s, p, ?_, rfl⟩
    simp only [Option.isSome_some, ↓reduceIte]
    cases c; simp_all

/-- no context operation raises as long as the stack does not underflow along the program -/
theorem ctxOp_ok (op : Op) (r : List Op) (c : Ctx) (h : c.WF) (hs : stackOk (op :: r) c.depth = true) :
    ∃ c' o, ctxOp op c = .ok c' o ∧ c'.WF ∧ stackOk r c'.depth = true := by
  obtain ⟨s, p, hn, hlen⟩ := ctx_ns_wf c h
  cases op <;> simp only [ctxOp, hn]
  case ctxCall a =>
    refine ⟨_, _, rfl, fun _ => rfl, ?_⟩
    simpa [Ctx.depth, hlen, stackOk] using hs
  case enter =>
    refine ⟨_, _, rfl, fun _ => rfl, ?_⟩
    simpa [Ctx.depth, hlen, stackOk] using hs
  case exit =>
    simp only [stackOk, Bool.and_eq_true, decide_eq_true_eq] at hs
    have hne : s.isEmpty = false := by
      cases s with
      | nil => simp at hlen; omega
      | cons _ _ => rfl
    simp only [hne]
    refine ⟨_, _, rfl, fun _ => rfl, ?_⟩
    simpa [Ctx.depth, hlen] using hs.2
  case top =>
    simp only [stackOk, Bool.and_eq_true, decide_eq_true_eq] at hs
    cases hg : s.getLast? with
    | none =>
      have : s = [] := by simpa using hg
      subst this; simp at hlen; omega
    | some a =>
      refine ⟨_, _, rfl, fun _ => rfl, ?_⟩
      simpa [Ctx.depth, hlen] using hs.2
  all_goals
    refine ⟨_, _, rfl, h, ?_⟩
    simpa [stackOk] using hs

/-- the invariant of a thread that cannot fail -/
def Inv (g : Global) (t : Tid) : Prop :=
  (g.threads t).crashed = false ∧ (g.locals t).tracker.WF ∧ (g.locals t).ctx.WF ∧
  stackOk (g.threads t).prog (g.locals t).ctx.depth = true

theorem stackOk_tail (op : Op) (r : List Op) (d : Nat) (h1 : op.isCtx = false)
    (h : stackOk (op :: r) d = true) : stackOk r d = true := by
  cases op <;> simp_all [stackOk, Op.isCtx]

theorem step_inv (P : Placement) (hP : Isolating P) (hL : P.lazy.Complete) (t : Tid) (g : Global)
    (h : Inv g t) : Inv (step P t g) t := by
  obtain ⟨hc, hw, hcw, hs⟩ := h
  cases hpg : (g.threads t).prog with
  | nil => rw [step_nil P t g hpg]; exact ⟨hc, hw, hcw, hs⟩
  | cons op rest =>
    obtain ⟨a, b⟩ := step_cons_self P hP t g op rest hpg
    rw [hpg] at hs
    unfold Inv
    rw [a, b]
    unfold execOp
    by_cases htr : op.isTracker = true
    · obtain ⟨t', o, he, hwf⟩ := trackerOp_ok P.lazy hL op (g.locals t).tracker hw
      have hnc : op.isCtx = false := by cases op <;> simp_all [Op.isTracker, Op.isCtx]
      simp only [htr, ↓reduceIte, he]
      refine ⟨?_, hwf, hcw, ?_⟩
      · cases o <;> simp [Thread.emit, hc]
      · cases o <;> simp [Thread.emit, stackOk_tail op rest _ hnc hs]
    · simp only [htr, Bool.false_eq_true, ↓reduceIte]
      by_cases hcx : op.isCtx = true
      · obtain ⟨c', o, he, hwf, hs'⟩ := ctxOp_ok op rest (g.locals t).ctx hcw hs
        simp only [hcx, ↓reduceIte, he]
        refine ⟨?_, hw, hwf, ?_⟩
        · cases o <;> simp [Thread.emit, hc]
        · cases o <;> simp [Thread.emit, hs']
      · simp only [hcx, Bool.false_eq_true, ↓reduceIte]
        have hs' := stackOk_tail op rest _ (by simpa using hcx) hs
        split <;> (try split) <;> simp [Thread.emit, hc, hw, hcw, hs']

theorem runSolo_inv (P : Placement) (hP : Isolating P) (hL : P.lazy.Complete) (t : Tid) (n : Nat) (g : Global)
    (h : Inv g t) : Inv (runSolo P t n g) t := by
  induction n generalizing g with
  | zero => exact h
  | succ n ih => exact ih _ (step_inv P hP hL t g h)

end Pycel.Threads
